import SJ.Proofs.LexIface
import SJ.Proofs.Escape
set_option linter.unusedVariables false
/-
`StrFacts`: the RFC 8259 string production (`Spec.stringBody`) against `closeQ` and the model of the assembly's
string decoder (`decodeString`).  Result: `SJ.ParseDefs.strFacts : StrFacts` (both fields, no restriction).

  * `go_succ`            `decodeStringGo (f+1) = goBody … (decodeStringGo f)`.  Lean cannot generate the equation
                         lemmas of `decodeStringGo` (unfolding whnf's `encodeUTF8 (x + 0x10000)`), hence the
                         `delta`/`generalize` proof; the surrogate arithmetic is hidden in the irreducible `c32of`.
  * `Step`/`WStep`/`FailNow`  one model iteration at a position given as a list (`a.toList.drop i = s`):
                         `step_plain`, `step_esc`, `fail_esc`, `fail_u_badhex`, `step_u_single`, `step_u_pair`,
                         `wstep_u_pair`, `fail_u_pair_badhex`, `fail_u_pair_nobs`.
  * `Shift`              `closeQ` / `drop` / no control character along one unit.
  * `sb_step`            one step of `Spec.stringBody` classified (`SBStep`) together with the model's behaviour.
  * `acc_main`           accepted strings, any accumulator / scan position / output prefix (`AccOK`).
  * `rej_main`           rejected strings, any accumulator and either state of the `outside` latch (`Bad`);
                         strong induction on the fuel, with `ahead` = the model one `\uXXXX` unit ahead of the
                         specification (it combines `\uD8xx\uXXXX` without checking the second unit).
Axioms: `propext`, `Classical.choice`, `Quot.sound`.
-/
namespace SJ.StrLex
open SJ SJ.Generated SJ.Tables SJ.Escape SJ.ParseDefs

/-! ## array / list bridge -/

theorem getD_of_drop {a : Bytes} {i : Nat} {s : List UInt8} (h : a.toList.drop i = s) (j : Nat) :
    a.getD (i + j) 0 = s.getD j 0 := by
  subst h
  rw [List.getD_eq_getElem?_getD, List.getElem?_drop, Array.getD_eq_getD_getElem?, Array.getElem?_toList]

theorem getD_of_drop0 {a : Bytes} {i : Nat} {s : List UInt8} (h : a.toList.drop i = s) :
    a.getD i 0 = s.getD 0 0 := getD_of_drop h 0

theorem lt_size_of_drop {a : Bytes} {i : Nat} {c : UInt8} {r : List UInt8} (h : a.toList.drop i = c :: r) :
    i < a.size := by
  apply Classical.byContradiction
  intro hn
  rw [List.drop_eq_nil_of_le (by simp; omega)] at h
  exact absurd h (by simp)

theorem drop_add {a : Bytes} {i : Nat} {s : List UInt8} (h : a.toList.drop i = s) (k : Nat) :
    a.toList.drop (i + k) = s.drop k := by
  subst h
  rw [List.drop_drop]

/-! ## unfolding `decodeStringGo` (its equation lemmas cannot be generated: see `go_succ_aux`) -/

/-- the surrogate-pair arithmetic of `decodeStringGo` -/
def c32of (cp cp2 : UInt32) : UInt32 := (((cp <<< 10) + 0xFCA00000) ||| (cp2 + 0xFFFF2400)) + 0x10000

theorem c32of_eq (cp cp2 : UInt32) : (((cp <<< 10) + 0xFCA00000) ||| (cp2 + 0xFFFF2400)) + 0x10000 = c32of cp cp2 := by
  rw [c32of]

attribute [irreducible] c32of

theorem match_bind (x : Option (List UInt8)) (k : List UInt8 → Option (Bytes × Nat)) :
    decodeStringGo.match_1 (fun _ => Option (Bytes × Nat)) x (fun _ => none) k = x.bind k := by
  cases x <;> rfl

/-- the `\\u` branch of one iteration -/
def uBody (a : Bytes) (k : Nat → Bytes → Option (Bytes × Nat)) (i : Nat) (out : Bytes) : Option (Bytes × Nat) :=
  if quoteDist a i < 6 then none
  else if hex4 a (i+2) &&& 0xFFFFFC00 == 0xD800 then
    if quoteDist a i < 12 then none
    else if a.getD (i+6) 0 != 92 ∨ a.getD (i+7) 0 != 117 then none
    else if (hex4 a (i+8) ||| hex4 a (i+2)) > 0xFFFF then none
    else (encodeUTF8 (c32of (hex4 a (i+2)) (hex4 a (i+8)))).bind fun bs => k (i + 12) (out ++ bs.toArray)
  else (encodeUTF8 (hex4 a (i+2))).bind fun bs => k (i + 6) (out ++ bs.toArray)

/-- one iteration of `decodeStringGo`, the recursive call abstracted as `k` -/
def goBody (a : Bytes) (start lim : Nat) (k : Nat → Bytes → Option (Bytes × Nat)) (i : Nat) (out : Bytes) :
    Option (Bytes × Nat) :=
  if i - start ≥ lim then none
  else if a.getD i 0 == 34 then some (out, i)
  else if a.getD i 0 == 92 then
    if a.getD (i+1) 0 == 117 then uBody a k i out
    else if escapeMap (a.getD (i+1) 0) == 0 then none
    else k (i + 2) (out.push (escapeMap (a.getD (i+1) 0)))
  else if i ≥ a.size then none
  else k (i + 1) (out.push (a.getD i 0))

theorem go_zero (a : Bytes) (start lim i : Nat) (out : Bytes) : decodeStringGo a start lim 0 i out = none := rfl

theorem go_succ_aux (a : Bytes) (start lim f i : Nat) (out : Bytes) (X : Option (Bytes × Nat))
    (h : decodeStringGo a start lim (f+1) i out = X) :
    goBody a start lim (decodeStringGo a start lim f) i out = X := by
  delta decodeStringGo at h
  simp only [] at h
  generalize hB : (Nat.rec _ _ f : (Nat → Bytes → Option (Bytes × Nat)) ×' Nat.below (motive := fun _ => Nat → Bytes → Option (Bytes × Nat)) f) = B at h
  have hB1 : ∀ i out, B.1 i out = decodeStringGo a start lim f i out := by
    intro i out; rw [← hB]; delta decodeStringGo; rfl
  clear hB
  delta decodeStringGo._f at h
  simp only [hB1, c32of_eq, match_bind] at h
  unfold goBody uBody
  exact h


theorem go_succ (a : Bytes) (start lim f i : Nat) (out : Bytes) :
    decodeStringGo a start lim (f+1) i out = goBody a start lim (decodeStringGo a start lim f) i out :=
  (go_succ_aux a start lim f i out _ rfl).symm


/-! ## arithmetic of the `\\u` escapes -/


theorem and_mask (x : Nat) (hx : x < 2^32) : x &&& 0xFFFFFC00 = x / 1024 * 1024 := by
  apply Nat.eq_of_testBit_eq
  intro j
  have e1 : (0xFFFFFC00 : Nat) = 2^10 * (2^22 - 1) := by decide
  have e2 : x / 1024 * 1024 = 2^10 * (x / 2^10) := by omega
  rw [Nat.testBit_and, e1, e2, Nat.testBit_two_pow_mul, Nat.testBit_two_pow_mul, Nat.testBit_two_pow_sub_one,
    Nat.testBit_div_two_pow]
  by_cases h : 10 ≤ j
  · have e3 : j - 10 + 10 = j := by omega
    simp only [h, decide_true, Bool.true_and, e3]
    by_cases h2 : j - 10 < 22
    · simp [h2]
    · have : x.testBit j = false := Nat.testBit_lt_two_pow (Nat.lt_of_lt_of_le hx (Nat.pow_le_pow_right (by decide) (by omega)))
      simp [this]
  · simp [h]

theorem mask_iff (cp : UInt32) : (cp &&& 0xFFFFFC00 == 0xD800) = true ↔ (0xD800 ≤ cp.toNat ∧ cp.toNat < 0xDC00) := by
  rw [beq_iff_eq, ← UInt32.toNat_inj, UInt32.toNat_and]
  have := and_mask cp.toNat cp.toNat_lt
  simp only [UInt32.reduceToNat] at this ⊢
  rw [this]
  omega


/-- the four bytes `hex4` reads at the head of a list (0 beyond its end) -/
def H (s : List UInt8) : UInt32 := hex4 #[s.getD 0 0, s.getD 1 0, s.getD 2 0, s.getD 3 0] 0

theorem hex4_of_drop {a : Bytes} {j : Nat} {s : List UInt8} (h : a.toList.drop j = s) : hex4 a j = H s := by
  have h0 := getD_of_drop h 0
  have h1 := getD_of_drop h 1
  have h2 := getD_of_drop h 2
  have h3 := getD_of_drop h 3
  rw [Nat.add_zero] at h0
  unfold H hex4
  rw [h0, h1, h2, h3]
  rfl

/-- an invalid digit makes the combined value huge (not only `> 0xFFFF`) -/
theorem hex4_invalid' (a b c d : UInt8)
    (h : hexValSpec a = 0xFFFFFFFF ∨ hexValSpec b = 0xFFFFFFFF ∨ hexValSpec c = 0xFFFFFFFF ∨ hexValSpec d = 0xFFFFFFFF) :
    0xFFFFF000 ≤ (hex4 #[a,b,c,d] 0).toNat := by
  rw [hex4_toNat]
  rcases h with h | h | h | h <;> rw [h]
  · exact Nat.le_trans (by decide) (Nat.le_trans (Nat.le_trans Nat.left_le_or Nat.left_le_or) Nat.left_le_or)
  · exact Nat.le_trans (by decide) (Nat.le_trans (Nat.le_trans Nat.right_le_or Nat.left_le_or) Nat.left_le_or)
  · exact Nat.le_trans (by decide) (Nat.le_trans Nat.right_le_or Nat.left_le_or)
  · exact Nat.le_trans (by decide) Nat.right_le_or

theorem hexValSpec_zero : hexValSpec 0 = 0xFFFFFFFF := by decide

theorem hexvalid_facts : ∀ b : UInt8, hexValSpec b ≠ 0xFFFFFFFF → (b == 34) = false ∧ (b == 92) = false ∧ ¬ b < 0x20 :=
  forall_u8 (by decide +kernel)

theorem H_none {s : List UInt8} (h : Spec.hex4 s = none) : 0xFFFFF000 ≤ (H s).toNat := by
  unfold H
  apply hex4_invalid'
  match s, h with
  | [], _ => exact Or.inl hexValSpec_zero
  | [x0], _ => exact Or.inr (Or.inl hexValSpec_zero)
  | [x0, x1], _ => exact Or.inr (Or.inr (Or.inl hexValSpec_zero))
  | [x0, x1, x2], _ => exact Or.inr (Or.inr (Or.inr hexValSpec_zero))
  | x0 :: x1 :: x2 :: x3 :: t, h =>
    show hexValSpec x0 = _ ∨ hexValSpec x1 = _ ∨ hexValSpec x2 = _ ∨ hexValSpec x3 = _
    apply Classical.byContradiction
    intro hn
    simp only [not_or] at hn
    obtain ⟨ha, hb, hc, hd⟩ := hn
    rw [hex4_agrees_spec, if_pos (hex4_spec x0 x1 x2 x3 ha hb hc hd).2] at h
    exact absurd h (by simp)

theorem H_some {s t : List UInt8} {cu : Nat} (h : Spec.hex4 s = some (cu, t)) :
    ∃ x0 x1 x2 x3, s = x0 :: x1 :: x2 :: x3 :: t ∧ (H s).toNat = cu ∧ cu ≤ 0xFFFF ∧
      hexValSpec x0 ≠ 0xFFFFFFFF ∧ hexValSpec x1 ≠ 0xFFFFFFFF ∧ hexValSpec x2 ≠ 0xFFFFFFFF ∧ hexValSpec x3 ≠ 0xFFFFFFFF := by
  match s, h with
  | [], h => simp [Spec.hex4] at h
  | [x0], h => simp [Spec.hex4] at h
  | [x0, x1], h => simp [Spec.hex4] at h
  | [x0, x1, x2], h => simp [Spec.hex4] at h
  | x0 :: x1 :: x2 :: x3 :: t', h =>
    rw [hex4_agrees_spec] at h
    by_cases hle : (hex4 #[x0, x1, x2, x3] 0).toNat ≤ 0xFFFF
    · rw [if_pos hle] at h
      simp only [Option.some.injEq, Prod.mk.injEq] at h
      obtain ⟨h1, h2⟩ := h
      subst h2
      refine ⟨x0, x1, x2, x3, rfl, h1, by omega, ?_, ?_, ?_, ?_⟩ <;>
      · intro hbad
        have := hex4_invalid x0 x1 x2 x3 (by simp [hbad])
        omega
    · rw [if_neg hle] at h
      exact absurd h (by simp)



theorem encodeUTF8_isSome (cp : UInt32) (h : cp.toNat ≤ 0x10FFFF) : ∃ bs, encodeUTF8 cp = some bs := by
  unfold encodeUTF8
  simp only [UInt32.lt_iff_toNat_lt, UInt32.le_iff_toNat_le, UInt32.reduceToNat]
  split
  · exact ⟨_, rfl⟩
  · split
    · exact ⟨_, rfl⟩
    · split
      · exact ⟨_, rfl⟩
      · exact ⟨_, rfl⟩

theorem or_gt_left (x y : UInt32) (h : 0xFFFF < x.toNat) : (x ||| y) > 0xFFFF := by
  show (0xFFFF : UInt32) < x ||| y
  rw [UInt32.lt_iff_toNat_lt, UInt32.toNat_or]
  exact Nat.lt_of_lt_of_le h Nat.left_le_or

theorem or_gt_right (x y : UInt32) (h : 0xFFFF < y.toNat) : (x ||| y) > 0xFFFF := by
  show (0xFFFF : UInt32) < x ||| y
  rw [UInt32.lt_iff_toNat_lt, UInt32.toNat_or]
  exact Nat.lt_of_lt_of_le h Nat.right_le_or

theorem or_le (x y : UInt32) (hx : x.toNat ≤ 0xFFFF) (hy : y.toNat ≤ 0xFFFF) : ¬ (x ||| y) > 0xFFFF := by
  show ¬ (0xFFFF : UInt32) < x ||| y
  rw [UInt32.lt_iff_toNat_lt, UInt32.toNat_or]
  have : x.toNat ||| y.toNat < 2^16 := Nat.or_lt_two_pow (by omega) (by omega)
  simp only [UInt32.reduceToNat]
  omega

section
variable {a : Bytes} {k : Nat → Bytes → Option (Bytes × Nat)} {i : Nat} {out : Bytes}

theorem uBody_bad (h : 0xFFFFF000 ≤ (hex4 a (i+2)).toNat) : uBody a k i out = none := by
  unfold uBody
  split
  · rfl
  · split
    · split
      · rfl
      · split
        · rfl
        · rw [if_pos (or_gt_right _ _ (by omega))]
    · rw [encodeUTF8_none _ (by omega)]; rfl

theorem uBody_single (hnh : ¬ (0xD800 ≤ (hex4 a (i+2)).toNat ∧ (hex4 a (i+2)).toNat < 0xDC00)) :
    uBody a k i out = if quoteDist a i < 6 then none else
      (encodeUTF8 (hex4 a (i+2))).bind fun bs => k (i + 6) (out ++ bs.toArray) := by
  unfold uBody
  rw [if_neg (fun h => hnh ((mask_iff _).mp h))]

theorem uBody_pair_fail1 (hh : 0xD800 ≤ (hex4 a (i+2)).toNat ∧ (hex4 a (i+2)).toNat < 0xDC00)
    (h67 : a.getD (i+6) 0 ≠ 92 ∨ a.getD (i+7) 0 ≠ 117) : uBody a k i out = none := by
  unfold uBody
  rw [if_pos ((mask_iff _).mpr hh)]
  have : a.getD (i+6) 0 != 92 ∨ a.getD (i+7) 0 != 117 := by
    rcases h67 with h | h
    · left; simpa using h
    · right; simpa using h
  rw [if_pos this]
  repeat' (first | rfl | split)

theorem uBody_pair_fail2 (hh : 0xD800 ≤ (hex4 a (i+2)).toNat ∧ (hex4 a (i+2)).toNat < 0xDC00)
    (h8 : 0xFFFF < (hex4 a (i+8)).toNat) : uBody a k i out = none := by
  unfold uBody
  rw [if_pos ((mask_iff _).mpr hh), if_pos (or_gt_left _ _ h8)]
  repeat' (first | rfl | split)

theorem uBody_pair (hh : 0xD800 ≤ (hex4 a (i+2)).toNat ∧ (hex4 a (i+2)).toNat < 0xDC00)
    (h6 : a.getD (i+6) 0 = 92) (h7 : a.getD (i+7) 0 = 117) (h8 : (hex4 a (i+8)).toNat ≤ 0xFFFF) :
    uBody a k i out = if quoteDist a i < 12 then none else
      (encodeUTF8 (c32of (hex4 a (i+2)) (hex4 a (i+8)))).bind fun bs => k (i + 12) (out ++ bs.toArray) := by
  unfold uBody
  have hor := or_le (hex4 a (i+8)) (hex4 a (i+2)) h8 (by omega)
  have h67 : ¬ (a.getD (i+6) 0 != 92 ∨ a.getD (i+7) 0 != 117) := by simp [h6, h7]
  rw [if_pos ((mask_iff _).mpr hh), if_neg h67, if_neg hor]
  by_cases h12 : quoteDist a i < 12
  · rw [if_pos h12]
    split <;> rfl
  · rw [if_neg h12, if_neg (by omega)]

end


/-! ## one iteration of the model, positions given as lists -/

theorem quoteDist_ge {a : Bytes} {i : Nat} (k : Nat) (hk : k ≤ 12)
    (h : ∀ j, j < k → (a.getD (i + j) 0 == 34) = false) : ¬ quoteDist a i < k := by
  unfold quoteDist
  cases hf : (List.range 12).find? (fun d => a.getD (i + d) 0 == 34) with
  | none => simp only [Option.getD_none]; omega
  | some d =>
    simp only [Option.getD_some]
    have hp := List.find?_some hf
    intro hd
    rw [h d hd] at hp
    exact absurd hp (by decide)

/-- precise step: `k` bytes consumed, `u` appended -/
def Step (s : List UInt8) (k : Nat) (u : List UInt8) : Prop :=
  ∀ (a : Bytes) (start lim i f : Nat) (out : Bytes), a.toList.drop i = s →
    decodeStringGo a start lim (f+1) i out =
      if i - start ≥ lim then none else decodeStringGo a start lim f (i + k) (out ++ u.toArray)

/-- the model fails in this very iteration -/
def FailNow (s : List UInt8) : Prop :=
  ∀ (a : Bytes) (start lim i f : Nat) (out : Bytes), a.toList.drop i = s →
    decodeStringGo a start lim (f+1) i out = none

/-- the model fails or goes on `k` bytes further -/
def WStep (s : List UInt8) (k : Nat) : Prop :=
  ∀ (a : Bytes) (start lim i f : Nat) (out : Bytes), a.toList.drop i = s →
    decodeStringGo a start lim (f+1) i out = none ∨
      ∃ out', decodeStringGo a start lim (f+1) i out = decodeStringGo a start lim f (i + k) out'

theorem Step.w {s k u} (h : Step s k u) : WStep s k := by
  intro a start lim i f out hd
  rw [h a start lim i f out hd]
  by_cases h0 : i - start ≥ lim
  · left; rw [if_pos h0]
  · right; rw [if_neg h0]; exact ⟨_, rfl⟩

theorem FailNow.w {s k} (h : FailNow s) : WStep s k := fun a start lim i f out hd => Or.inl (h a start lim i f out hd)

/-- reduce a `Step`/`FailNow` goal to the body below the limit test -/
theorem go_of_body {a : Bytes} {start lim i f : Nat} {out : Bytes} {R : Option (Bytes × Nat)}
    (h : ¬ i - start ≥ lim → goBody a start lim (decodeStringGo a start lim f) i out = R) :
    decodeStringGo a start lim (f+1) i out = if i - start ≥ lim then none else R := by
  rw [go_succ]
  by_cases h0 : i - start ≥ lim
  · rw [if_pos h0]; unfold goBody; rw [if_pos h0]
  · rw [if_neg h0]; exact h h0

theorem go_of_body_none {a : Bytes} {start lim i f : Nat} {out : Bytes}
    (h : ¬ i - start ≥ lim → goBody a start lim (decodeStringGo a start lim f) i out = none) :
    decodeStringGo a start lim (f+1) i out = none := by
  rw [go_of_body h]; split <;> rfl

theorem step_plain {c : UInt8} {r : List UInt8} (h1 : (c == 34) = false) (h2 : (c == 92) = false) :
    Step (c :: r) 1 [c] := by
  intro a start lim i f out hd
  have g0 : a.getD i 0 = c := by simpa using getD_of_drop hd 0
  have hs := lt_size_of_drop hd
  apply go_of_body
  intro h0
  unfold goBody
  simp only [g0, h1, h2, h0, Bool.false_eq_true, if_false, if_neg (Nat.not_le.mpr hs), ge_iff_le]
  rfl

theorem step_esc {e : UInt8} {r' : List UInt8} (he : (e == 117) = false) (hm : escapeSpec e ≠ 0) :
    Step (92 :: e :: r') 2 [escapeSpec e] := by
  intro a start lim i f out hd
  have g0 : a.getD i 0 = 92 := by simpa using getD_of_drop hd 0
  have g1 : a.getD (i + 1) 0 = e := by simpa using getD_of_drop hd 1
  apply go_of_body
  intro h0
  unfold goBody
  have hm' : (escapeSpec e == 0) = false := by simpa using hm
  simp only [g0, g1, he, h0, escapeMap_spec, hm', Bool.false_eq_true, if_false]
  rfl

theorem fail_esc {e : UInt8} {r' : List UInt8} (he : (e == 117) = false) (hm : escapeSpec e = 0) :
    FailNow (92 :: e :: r') := by
  intro a start lim i f out hd
  have g0 : a.getD i 0 = 92 := by simpa using getD_of_drop hd 0
  have g1 : a.getD (i + 1) 0 = e := by simpa using getD_of_drop hd 1
  apply go_of_body_none
  intro h0
  unfold goBody
  simp only [g0, g1, he, h0, escapeMap_spec, hm, Bool.false_eq_true, if_false]
  rfl


/-- common part of the `\\u` lemmas: the body is `uBody` -/
theorem goBody_u {a : Bytes} {start lim i : Nat} {k : Nat → Bytes → Option (Bytes × Nat)} {out : Bytes}
    {r' : List UInt8} (hd : a.toList.drop i = 92 :: 117 :: r') (h0 : ¬ i - start ≥ lim) :
    goBody a start lim k i out = uBody a k i out ∧ hex4 a (i + 2) = H r' := by
  have g0 : a.getD i 0 = 92 := by simpa using getD_of_drop hd 0
  have g1 : a.getD (i + 1) 0 = 117 := by simpa using getD_of_drop hd 1
  refine ⟨?_, hex4_of_drop (drop_add hd 2)⟩
  unfold goBody
  simp only [g0, g1, h0, if_false, BEq.rfl, if_true]
  rfl

theorem fail_u_badhex {r' : List UInt8} (h : Spec.hex4 r' = none) : FailNow (92 :: 117 :: r') := by
  intro a start lim i f out hd
  apply go_of_body_none
  intro h0
  obtain ⟨e1, e2⟩ := goBody_u (k := decodeStringGo a start lim f) (out := out) hd h0
  rw [e1]
  exact uBody_bad (by rw [e2]; exact H_none h)

theorem six_noquote (x0 x1 x2 x3 : UInt8) (t : List UInt8)
    (h0 : (x0 == 34) = false) (h1 : (x1 == 34) = false) (h2 : (x2 == 34) = false) (h3 : (x3 == 34) = false) :
    ∀ j, j < 6 → ((92 :: 117 :: x0 :: x1 :: x2 :: x3 :: t).getD j 0 == 34) = false := by
  intro j hj
  have : j = 0 ∨ j = 1 ∨ j = 2 ∨ j = 3 ∨ j = 4 ∨ j = 5 := by omega
  rcases this with rfl | rfl | rfl | rfl | rfl | rfl
  · rfl
  · rfl
  · exact h0
  · exact h1
  · exact h2
  · exact h3

theorem step_u_single {r' t : List UInt8} {cu : Nat} (h : Spec.hex4 r' = some (cu, t))
    (hnh : ¬ (0xD800 ≤ cu ∧ cu < 0xDC00)) :
    ∃ bs, (¬ (0xDC00 ≤ cu ∧ cu < 0xE000) → bs = Spec.utf8 cu) ∧ Step (92 :: 117 :: r') 6 bs := by
  obtain ⟨x0, x1, x2, x3, rfl, hH, hle, v0, v1, v2, v3⟩ := H_some h
  obtain ⟨bs, hbs⟩ := encodeUTF8_isSome (H (x0 :: x1 :: x2 :: x3 :: t)) (by omega)
  refine ⟨bs, ?_, ?_⟩
  · intro hnl
    have := encodeUTF8_spec (H (x0 :: x1 :: x2 :: x3 :: t)) (by omega) (by omega)
    rw [hbs, hH] at this
    exact Option.some.inj this
  · intro a start lim i f out hd
    apply go_of_body
    intro h0
    obtain ⟨e1, e2⟩ := goBody_u (k := decodeStringGo a start lim f) (out := out) hd h0
    rw [e1, uBody_single (by rw [e2, hH]; exact hnh), e2, hbs]
    have hq : ¬ quoteDist a i < 6 := by
      apply quoteDist_ge 6 (by decide)
      intro j hj
      rw [getD_of_drop hd j]
      exact six_noquote x0 x1 x2 x3 t (hexvalid_facts x0 v0).1 (hexvalid_facts x1 v1).1 (hexvalid_facts x2 v2).1
        (hexvalid_facts x3 v3).1 j hj
    rw [if_neg hq]
    rfl


theorem twelve_noquote (x0 x1 x2 x3 y0 y1 y2 y3 : UInt8) (t : List UInt8)
    (h0 : (x0 == 34) = false) (h1 : (x1 == 34) = false) (h2 : (x2 == 34) = false) (h3 : (x3 == 34) = false)
    (k0 : (y0 == 34) = false) (k1 : (y1 == 34) = false) (k2 : (y2 == 34) = false) (k3 : (y3 == 34) = false) :
    ∀ j, j < 12 → ((92 :: 117 :: x0 :: x1 :: x2 :: x3 :: 92 :: 117 :: y0 :: y1 :: y2 :: y3 :: t).getD j 0 == 34) = false := by
  intro j hj
  have : j = 0 ∨ j = 1 ∨ j = 2 ∨ j = 3 ∨ j = 4 ∨ j = 5 ∨ j = 6 ∨ j = 7 ∨ j = 8 ∨ j = 9 ∨ j = 10 ∨ j = 11 := by omega
  rcases this with rfl | rfl | rfl | rfl | rfl | rfl | rfl | rfl | rfl | rfl | rfl | rfl
  · rfl
  · rfl
  · exact h0
  · exact h1
  · exact h2
  · exact h3
  · rfl
  · rfl
  · exact k0
  · exact k1
  · exact k2
  · exact k3

/-- what the array holds after a `\\uXXXX` unit -/
theorem after_u {a : Bytes} {i : Nat} {x0 x1 x2 x3 : UInt8} {t : List UInt8}
    (hd : a.toList.drop i = 92 :: 117 :: x0 :: x1 :: x2 :: x3 :: t) :
    a.getD (i + 6) 0 = t.getD 0 0 ∧ a.getD (i + 7) 0 = t.getD 1 0 ∧ hex4 a (i + 8) = H (t.drop 2) := by
  have hd6 : a.toList.drop (i + 6) = t := drop_add hd 6
  refine ⟨getD_of_drop hd6 0, getD_of_drop hd6 1, ?_⟩
  exact hex4_of_drop (drop_add hd6 2)

theorem step_u_pair {r' r3 r4 : List UInt8} {cu lo : Nat} (h : Spec.hex4 r' = some (cu, 92 :: 117 :: r3))
    (hh : 0xD800 ≤ cu ∧ cu < 0xDC00) (h2 : Spec.hex4 r3 = some (lo, r4)) (hl : 0xDC00 ≤ lo ∧ lo < 0xE000) :
    Step (92 :: 117 :: r') 12 (Spec.utf8 (0x10000 + (cu - 0xD800) * 1024 + (lo - 0xDC00))) := by
  obtain ⟨x0, x1, x2, x3, rfl, hH, hle, v0, v1, v2, v3⟩ := H_some h
  obtain ⟨y0, y1, y2, y3, rfl, hH2, hle2, w0, w1, w2, w3⟩ := H_some h2
  intro a start lim i f out hd
  apply go_of_body
  intro h0
  obtain ⟨e1, e2⟩ := goBody_u (k := decodeStringGo a start lim f) (out := out) hd h0
  obtain ⟨g6, g7, g8⟩ := after_u hd
  have g8' : hex4 a (i + 8) = H (y0 :: y1 :: y2 :: y3 :: r4) := g8
  have hq : ¬ quoteDist a i < 12 := by
    apply quoteDist_ge 12 (by decide)
    intro j hj
    rw [getD_of_drop hd j]
    exact twelve_noquote x0 x1 x2 x3 y0 y1 y2 y3 r4 (hexvalid_facts x0 v0).1 (hexvalid_facts x1 v1).1
      (hexvalid_facts x2 v2).1 (hexvalid_facts x3 v3).1 (hexvalid_facts y0 w0).1 (hexvalid_facts y1 w1).1
      (hexvalid_facts y2 w2).1 (hexvalid_facts y3 w3).1 j hj
  rw [e1, uBody_pair (by rw [e2, hH]; exact hh) g6 g7 (by rw [g8', hH2]; exact hle2), if_neg hq, e2, g8']
  have hc := surrogate_combine (H (x0 :: x1 :: x2 :: x3 :: 92 :: 117 :: y0 :: y1 :: y2 :: y3 :: r4))
    (H (y0 :: y1 :: y2 :: y3 :: r4)) (by omega) (by omega) (by omega) (by omega)
  rw [c32of_eq, hH, hH2] at hc
  have henc := encodeUTF8_spec (c32of (H (x0 :: x1 :: x2 :: x3 :: 92 :: 117 :: y0 :: y1 :: y2 :: y3 :: r4))
    (H (y0 :: y1 :: y2 :: y3 :: r4))) (by omega) (by omega)
  rw [henc, hc]
  rfl

theorem wstep_u_pair {r' r3 r4 : List UInt8} {cu lo : Nat} (h : Spec.hex4 r' = some (cu, 92 :: 117 :: r3))
    (hh : 0xD800 ≤ cu ∧ cu < 0xDC00) (h2 : Spec.hex4 r3 = some (lo, r4)) : WStep (92 :: 117 :: r') 12 := by
  obtain ⟨x0, x1, x2, x3, rfl, hH, hle, v0, v1, v2, v3⟩ := H_some h
  obtain ⟨y0, y1, y2, y3, rfl, hH2, hle2, w0, w1, w2, w3⟩ := H_some h2
  intro a start lim i f out hd
  have key := go_of_body (a := a) (start := start) (lim := lim) (i := i) (f := f) (out := out)
    (R := uBody a (decodeStringGo a start lim f) i out) (fun h0 => (goBody_u hd h0).1)
  rw [key]
  by_cases h0 : i - start ≥ lim
  · left; rw [if_pos h0]
  · rw [if_neg h0]
    obtain ⟨e1, e2⟩ := goBody_u (k := decodeStringGo a start lim f) (out := out) hd h0
    obtain ⟨g6, g7, g8⟩ := after_u hd
    have g8' : hex4 a (i + 8) = H (y0 :: y1 :: y2 :: y3 :: r4) := g8
    rw [uBody_pair (by rw [e2, hH]; exact hh) g6 g7 (by rw [g8', hH2]; exact hle2)]
    by_cases hq : quoteDist a i < 12
    · left; rw [if_pos hq]
    · rw [if_neg hq]
      cases encodeUTF8 (c32of (hex4 a (i + 2)) (hex4 a (i + 8))) with
      | none => left; rfl
      | some bs => right; exact ⟨_, rfl⟩

theorem fail_u_pair_badhex {r' r3 : List UInt8} {cu : Nat} (h : Spec.hex4 r' = some (cu, 92 :: 117 :: r3))
    (hh : 0xD800 ≤ cu ∧ cu < 0xDC00) (h2 : Spec.hex4 r3 = none) : FailNow (92 :: 117 :: r') := by
  obtain ⟨x0, x1, x2, x3, rfl, hH, hle, v0, v1, v2, v3⟩ := H_some h
  intro a start lim i f out hd
  apply go_of_body_none
  intro h0
  obtain ⟨e1, e2⟩ := goBody_u (k := decodeStringGo a start lim f) (out := out) hd h0
  obtain ⟨g6, g7, g8⟩ := after_u hd
  have g8' : hex4 a (i + 8) = H r3 := g8
  have := H_none h2
  rw [e1]
  exact uBody_pair_fail2 (by rw [e2, hH]; exact hh) (by rw [g8']; omega)

theorem fail_u_pair_nobs {r' t : List UInt8} {cu : Nat} (h : Spec.hex4 r' = some (cu, t))
    (hh : 0xD800 ≤ cu ∧ cu < 0xDC00) (ht : t.getD 0 0 ≠ 92 ∨ t.getD 1 0 ≠ 117) : FailNow (92 :: 117 :: r') := by
  obtain ⟨x0, x1, x2, x3, rfl, hH, hle, v0, v1, v2, v3⟩ := H_some h
  intro a start lim i f out hd
  apply go_of_body_none
  intro h0
  obtain ⟨e1, e2⟩ := goBody_u (k := decodeStringGo a start lim f) (out := out) hd h0
  obtain ⟨g6, g7, g8⟩ := after_u hd
  rw [e1]
  exact uBody_pair_fail1 (by rw [e2, hH]; exact hh) (by rw [g6, g7]; exact ht)


/-! ## one step of the specification -/

theorem sb_zero (s acc : List UInt8) (o : Bool) : Spec.stringBody 0 s acc o = .rej := by
  rw [Spec.stringBody.eq_def]

theorem sb_nil (fuel : Nat) (acc : List UInt8) (o : Bool) : Spec.stringBody fuel [] acc o = .rej := by
  rw [Spec.stringBody.eq_def]; cases fuel <;> rfl

theorem sb_quote (fuel : Nat) (r acc : List UInt8) (o : Bool) :
    Spec.stringBody (fuel + 1) (34 :: r) acc o = if o then .out else .acc acc.reverse r := by
  rw [Spec.stringBody.eq_def]; simp

theorem sb_ctrl (fuel : Nat) (c : UInt8) (r acc : List UInt8) (o : Bool) (h1 : (c == 34) = false) (h : c < 0x20) :
    Spec.stringBody (fuel + 1) (c :: r) acc o = .rej := by
  rw [Spec.stringBody.eq_def]; simp [h1, h]

theorem sb_bs_end (fuel : Nat) (acc : List UInt8) (o : Bool) : Spec.stringBody (fuel + 1) [92] acc o = .rej := by
  rw [Spec.stringBody.eq_def]; simp

theorem escapeSpec_cases : ∀ e : UInt8, (e == 117) = false →
    (escapeSpec e = 0 ∧ (e == 0x22) = false ∧ (e == 0x5C) = false ∧ (e == 0x2F) = false ∧ (e == 0x62) = false ∧
      (e == 0x66) = false ∧ (e == 0x6E) = false ∧ (e == 0x72) = false ∧ (e == 0x74) = false) ∨
    (e = 0x22 ∨ e = 0x5C ∨ e = 0x2F ∨ e = 0x62 ∨ e = 0x66 ∨ e = 0x6E ∨ e = 0x72 ∨ e = 0x74) :=
  forall_u8 (by decide +kernel)

theorem sb_esc (fuel : Nat) (e : UInt8) (r' acc : List UInt8) (o : Bool) (he : (e == 117) = false) :
    Spec.stringBody (fuel + 1) (92 :: e :: r') acc o =
      if escapeSpec e = 0 then .rej else Spec.stringBody fuel r' (escapeSpec e :: acc) o := by
  rw [Spec.stringBody.eq_def]
  rcases escapeSpec_cases e he with ⟨h0, h1, h2, h3, h4, h5, h6, h7, h8⟩ | h
  · simp [h0, h1, h2, h3, h4, h5, h6, h7, h8, he]
  · rcases h with rfl | rfl | rfl | rfl | rfl | rfl | rfl | rfl <;> simp [escapeSpec]


theorem sb_u_none (fuel : Nat) (r' acc : List UInt8) (o : Bool) (h : Spec.hex4 r' = none) :
    Spec.stringBody (fuel + 1) (92 :: 117 :: r') acc o = .rej := by
  rw [Spec.stringBody.eq_def]; simp [h]

theorem sb_u_single (fuel : Nat) (r' t acc : List UInt8) (o : Bool) (cu : Nat) (h : Spec.hex4 r' = some (cu, t))
    (hnh : ¬ (0xD800 ≤ cu ∧ cu < 0xDC00)) (hnl : ¬ (0xDC00 ≤ cu ∧ cu < 0xE000)) :
    Spec.stringBody (fuel + 1) (92 :: 117 :: r') acc o = Spec.stringBody fuel t ((Spec.utf8 cu).reverse ++ acc) o := by
  rw [Spec.stringBody.eq_def]; simp [h, hnh, hnl]

theorem sb_u_low (fuel : Nat) (r' t acc : List UInt8) (o : Bool) (cu : Nat) (h : Spec.hex4 r' = some (cu, t))
    (hl : 0xDC00 ≤ cu ∧ cu < 0xE000) :
    Spec.stringBody (fuel + 1) (92 :: 117 :: r') acc o = Spec.stringBody fuel t acc true := by
  have hnh : ¬ (0xD800 ≤ cu ∧ cu < 0xDC00) := by omega
  rw [Spec.stringBody.eq_def]; simp [h, hnh, hl]

theorem sb_u_pair (fuel : Nat) (r' r3 r4 acc : List UInt8) (o : Bool) (cu lo : Nat)
    (h : Spec.hex4 r' = some (cu, 92 :: 117 :: r3)) (hh : 0xD800 ≤ cu ∧ cu < 0xDC00)
    (h2 : Spec.hex4 r3 = some (lo, r4)) (hl : 0xDC00 ≤ lo ∧ lo < 0xE000) :
    Spec.stringBody (fuel + 1) (92 :: 117 :: r') acc o =
      Spec.stringBody fuel r4 ((Spec.utf8 (0x10000 + (cu - 0xD800) * 1024 + (lo - 0xDC00))).reverse ++ acc) o := by
  rw [Spec.stringBody.eq_def]; simp [h, hh, h2, hl]

/-- a high surrogate not followed by a low one: latched, and the text after the first unit is checked -/
theorem sb_u_latch (fuel : Nat) (r' t acc : List UInt8) (o : Bool) (cu : Nat)
    (h : Spec.hex4 r' = some (cu, t)) (hh : 0xD800 ≤ cu ∧ cu < 0xDC00)
    (hno : ∀ r3 lo r4, t = 92 :: 117 :: r3 → Spec.hex4 r3 = some (lo, r4) → ¬ (0xDC00 ≤ lo ∧ lo < 0xE000)) :
    Spec.stringBody (fuel + 1) (92 :: 117 :: r') acc o = Spec.stringBody fuel t acc true := by
  rw [Spec.stringBody.eq_def]
  simp only [h, hh]
  simp only [show ((92 : UInt8) == 0x22) = false from by decide, show ¬ ((92 : UInt8) < 0x20) from by decide,
    show ((92 : UInt8) == 0x5C) = true from by decide, show ((117 : UInt8) == 0x22) = false from by decide,
    show ((117 : UInt8) == 0x5C) = false from by decide, show ((117 : UInt8) == 0x2F) = false from by decide,
    show ((117 : UInt8) == 0x62) = false from by decide, show ((117 : UInt8) == 0x66) = false from by decide,
    show ((117 : UInt8) == 0x6E) = false from by decide, show ((117 : UInt8) == 0x72) = false from by decide,
    show ((117 : UInt8) == 0x74) = false from by decide, show ((117 : UInt8) == 0x75) = true from by decide,
    if_true, if_false, Bool.false_eq_true, and_self]
  split
  · rename_i r3
    split
    · rename_i lo r4 h2
      rw [if_neg (hno r3 lo r4 rfl h2)]
    · rfl
  · rfl


theorem sb_high (fuel : Nat) (c : UInt8) (r acc : List UInt8) (o : Bool) (hc : ¬ c < 0x80) :
    Spec.stringBody (fuel + 1) (c :: r) acc o =
      if Spec.utf8Len (c :: r) = 0 then Spec.stringBody fuel r acc true
      else Spec.stringBody fuel ((c :: r).drop (Spec.utf8Len (c :: r)))
        (((c :: r).take (Spec.utf8Len (c :: r))).reverse ++ acc) o := by
  obtain ⟨_, f1, f2, f3⟩ := high_facts c hc
  rw [Spec.stringBody.eq_def]
  simp only [f1, f2, f3, hc, if_false, Bool.false_eq_true, beq_iff_eq]

/-! ## `closeQ` along one unit -/

/-- `t` is `s` without a first unit of `k` bytes, none of them a control character, and `closeQ` sees it so -/
structure Shift (s t : List UInt8) (k : Nat) : Prop where
  cq : closeQ s = (closeQ t).map (· + k)
  dr : t = s.drop k
  nc : ∀ j, j < k → ¬ s.getD j 0 < 0x20

theorem Shift.plain {c : UInt8} {r : List UInt8} (h1 : (c == 34) = false) (h2 : (c == 92) = false) (h3 : ¬ c < 0x20) :
    Shift (c :: r) r 1 := by
  refine ⟨?_, rfl, ?_⟩
  · rw [closeQ.eq_def]; simp only [h1, h2, Bool.false_eq_true, if_false]
  · intro j hj
    have : j = 0 := by omega
    subst this
    exact h3

theorem Shift.pair {e : UInt8} {r' : List UInt8} (he : ¬ e < 0x20) : Shift (92 :: e :: r') r' 2 := by
  refine ⟨?_, rfl, ?_⟩
  · rw [closeQ]; simp
  · intro j hj
    have : j = 0 ∨ j = 1 := by omega
    rcases this with rfl | rfl
    · show ¬ (92 : UInt8) < 0x20; decide
    · exact he

theorem Shift.trans {s t u : List UInt8} {k m : Nat} (h1 : Shift s t k) (h2 : Shift t u m) : Shift s u (k + m) := by
  refine ⟨?_, ?_, ?_⟩
  · rw [h1.cq, h2.cq]
    cases closeQ u with
    | none => rfl
    | some d => simp only [Option.map_some]; congr 1; omega
  · rw [h2.dr, h1.dr, List.drop_drop]
  · intro j hj
    by_cases hjk : j < k
    · exact h1.nc j hjk
    · have := h2.nc (j - k) (by omega)
      rw [h1.dr, List.getD_eq_getElem?_getD, List.getElem?_drop, ← List.getD_eq_getElem?_getD] at this
      rw [show k + (j - k) = j by omega] at this
      exact this

theorem Shift.getD {s t : List UInt8} {k : Nat} (h : Shift s t k) (j : Nat) : t.getD j 0 = s.getD (k + j) 0 := by
  rw [h.dr, List.getD_eq_getElem?_getD, List.getElem?_drop, ← List.getD_eq_getElem?_getD]

theorem Shift.six {x0 x1 x2 x3 : UInt8} {t : List UInt8} (v0 : hexValSpec x0 ≠ 0xFFFFFFFF)
    (v1 : hexValSpec x1 ≠ 0xFFFFFFFF) (v2 : hexValSpec x2 ≠ 0xFFFFFFFF) (v3 : hexValSpec x3 ≠ 0xFFFFFFFF) :
    Shift (92 :: 117 :: x0 :: x1 :: x2 :: x3 :: t) t 6 := by
  have p (x : UInt8) (v : hexValSpec x ≠ 0xFFFFFFFF) (r : List UInt8) : Shift (x :: r) r 1 :=
    Shift.plain (hexvalid_facts x v).1 (hexvalid_facts x v).2.1 (hexvalid_facts x v).2.2
  exact (((((Shift.pair (by decide)).trans (p x0 v0 _)).trans (p x1 v1 _)).trans (p x2 v2 _)).trans (p x3 v3 _))

theorem Shift.u {r' t : List UInt8} {cu : Nat} (h : Spec.hex4 r' = some (cu, t)) : Shift (92 :: 117 :: r') t 6 := by
  obtain ⟨x0, x1, x2, x3, rfl, hH, hle, v0, v1, v2, v3⟩ := H_some h
  exact Shift.six v0 v1 v2 v3

theorem closeQ_lt : ∀ (n : Nat) (s : List UInt8) (d : Nat), s.length ≤ n → closeQ s = some d → d < s.length := by
  intro n
  induction n with
  | zero =>
    intro s d hs h
    have : s = [] := List.eq_nil_of_length_eq_zero (by omega)
    subst this
    rw [closeQ] at h; exact absurd h (by simp)
  | succ n ih =>
    intro s d hs h
    match s, hs, h with
    | [], _, h => rw [closeQ] at h; exact absurd h (by simp)
    | c :: r, hs, h =>
      rw [closeQ.eq_def] at h
      simp only at h
      split at h
      · simp only [Option.some.injEq] at h; subst h; simp
      · split at h
        · match r, hs, h with
          | [], _, h => exact absurd h (by simp)
          | e :: r', hs, h =>
            simp only [List.length_cons] at hs ⊢
            simp only at h
            cases hq : closeQ r' with
            | none => rw [hq] at h; exact absurd h (by simp)
            | some d' =>
              rw [hq] at h
              simp only [Option.map_some, Option.some.injEq] at h
              have := ih r' d' (by omega) hq
              omega
        · simp only [List.length_cons] at hs ⊢
          cases hq : closeQ r with
          | none => rw [hq] at h; exact absurd h (by simp)
          | some d' =>
            rw [hq] at h
            simp only [Option.map_some, Option.some.injEq] at h
            have := ih r d' (by omega) hq
            omega


/-! ## accepted strings -/

/-- what `StrFacts.acc` says, for an arbitrary accumulator, scan position and output prefix -/
def AccOK (s acc0 dec rest : List UInt8) : Prop :=
  ∃ d tail, closeQ s = some d ∧ rest = s.drop (d + 1) ∧ (∀ j, j < d → ¬ s.getD j 0 < 0x20) ∧
    dec = acc0.reverse ++ tail ∧
    ∀ (a : Bytes) (start lim i fuel : Nat) (out : Bytes), a.toList.drop i = s → (i + d) - start < lim → d < fuel →
      decodeStringGo a start lim fuel i out = some (out ++ tail.toArray, i + d)

theorem AccOK.base (r acc0 : List UInt8) : AccOK (34 :: r) acc0 acc0.reverse r := by
  refine ⟨0, [], ?_, rfl, ?_, by simp, ?_⟩
  · rw [closeQ.eq_def]; simp
  · intro j hj; omega
  · intro a start lim i fuel out hd hl hf
    obtain ⟨f, rfl⟩ : ∃ f, fuel = f + 1 := ⟨fuel - 1, by omega⟩
    have g0 : a.getD i 0 = 34 := by simpa using getD_of_drop hd 0
    rw [go_succ]
    unfold goBody
    rw [if_neg (by omega)]
    simp [g0]

theorem AccOK.lift {s t u acc0 dec rest : List UInt8} {k : Nat} (hs : Shift s t k) (hk : 0 < k) (hst : Step s k u)
    (h : AccOK t (u.reverse ++ acc0) dec rest) : AccOK s acc0 dec rest := by
  obtain ⟨d, tail, hcq, hrest, hnc, hdec, hgo⟩ := h
  refine ⟨d + k, u ++ tail, ?_, ?_, ?_, ?_, ?_⟩
  · rw [hs.cq, hcq]; rfl
  · rw [hrest, hs.dr, List.drop_drop]; congr 1; omega
  · intro j hj
    by_cases hjk : j < k
    · exact hs.nc j hjk
    · have := hnc (j - k) (by omega)
      rw [hs.getD, show k + (j - k) = j by omega] at this
      exact this
  · rw [hdec]; simp
  · intro a start lim i fuel out hd hl hf
    obtain ⟨f, rfl⟩ : ∃ f, fuel = f + 1 := ⟨fuel - 1, by omega⟩
    rw [hst a start lim i f out hd, if_neg (by omega)]
    have hd' : a.toList.drop (i + k) = t := by rw [hs.dr]; exact drop_add hd k
    rw [hgo a start lim (i + k) f (out ++ u.toArray) hd' (by omega) (by omega)]
    simp only [Option.some.injEq, Prod.mk.injEq]
    constructor
    · simp
    · omega


/-! ## the units the specification and the model walk over -/

/-- `s` reaches `t` by one or more precise model steps which append `u` in total -/
inductive Chain : List UInt8 → List UInt8 → List UInt8 → Prop
  | one {s t u : List UInt8} {k : Nat} : 0 < k → Shift s t k → Step s k u → Chain s t u
  | cons {s t t' u u' : List UInt8} {k : Nat} : 0 < k → Shift s t k → Step s k u → Chain t t' u' → Chain s t' (u ++ u')

/-- one step of `Spec.stringBody (fuel+1) · acc o`, with what the model does on the same unit -/
inductive SBStep (fuel : Nat) (acc : List UInt8) (o : Bool) : List UInt8 → Spec.Out (List UInt8) → Prop
  | nil : SBStep fuel acc o [] .rej
  | quote (r : List UInt8) : SBStep fuel acc o (34 :: r) (if o then .out else .acc acc.reverse r)
  | ctrl (c : UInt8) (r : List UInt8) : (c == 34) = false → c < 0x20 → SBStep fuel acc o (c :: r) .rej
  | bsEnd : SBStep fuel acc o [92] .rej
  | badEsc (e : UInt8) (r' : List UInt8) : (e == 117) = false → escapeSpec e = 0 → SBStep fuel acc o (92 :: e :: r') .rej
  | badHex (r' : List UInt8) : Spec.hex4 r' = none → SBStep fuel acc o (92 :: 117 :: r') .rej
  | unit (s t u : List UInt8) : Chain s t u → SBStep fuel acc o s (Spec.stringBody fuel t (u.reverse ++ acc) o)
  | latchUnit (s t u : List UInt8) : Chain s t u → SBStep fuel acc o s (Spec.stringBody fuel t acc true)
  | high (r' t : List UInt8) (cu : Nat) : Spec.hex4 r' = some (cu, t) → (0xD800 ≤ cu ∧ cu < 0xDC00) →
      (∀ r3 lo r4, t = 92 :: 117 :: r3 → Spec.hex4 r3 = some (lo, r4) → ¬ (0xDC00 ≤ lo ∧ lo < 0xE000)) →
      SBStep fuel acc o (92 :: 117 :: r') (Spec.stringBody fuel t acc true)

theorem escapeSpec_ge : ∀ e : UInt8, escapeSpec e ≠ 0 → ¬ e < 0x20 := forall_u8 (by decide +kernel)

theorem plainChain {c : UInt8} {r : List UInt8} (h1 : (c == 34) = false) (h2 : (c == 92) = false) (h3 : ¬ c < 0x20) :
    Chain (c :: r) r [c] := Chain.one (by decide) (Shift.plain h1 h2 h3) (step_plain h1 h2)

theorem highChain {c : UInt8} {r : List UInt8} (hc : 0x80 ≤ c) : Chain (c :: r) r [c] := by
  obtain ⟨_, f1, f2, f3⟩ := high_facts c (UInt8.not_lt.mpr hc)
  exact plainChain f1 f3 f2

theorem Chain.snoc1 {c : UInt8} {r t u : List UInt8} (hc : 0x80 ≤ c) (h : Chain r t u) : Chain (c :: r) t ([c] ++ u) := by
  obtain ⟨_, f1, f2, f3⟩ := high_facts c (UInt8.not_lt.mpr hc)
  exact Chain.cons (by decide) (Shift.plain f1 f3 f2) (step_plain f1 f3) h

theorem sb_step (fuel : Nat) (s acc : List UInt8) (o : Bool) :
    SBStep fuel acc o s (Spec.stringBody (fuel + 1) s acc o) := by
  match s with
  | [] => rw [sb_nil]; exact .nil
  | c :: r =>
    by_cases h34 : c = 34
    · subst h34; rw [sb_quote]; exact .quote r
    have h34' : (c == 34) = false := by simpa using h34
    by_cases hctl : c < 0x20
    · rw [sb_ctrl _ _ _ _ _ h34' hctl]; exact .ctrl c r h34' hctl
    by_cases h92 : c = 92
    · subst h92
      match r with
      | [] => rw [sb_bs_end]; exact .bsEnd
      | e :: r' =>
        by_cases he : e = 117
        · subst he
          cases h : Spec.hex4 r' with
          | none => rw [sb_u_none _ _ _ _ h]; exact .badHex r' h
          | some p =>
            obtain ⟨cu, t⟩ := p
            by_cases hh : 0xD800 ≤ cu ∧ cu < 0xDC00
            · by_cases hp : ∃ r3 lo r4, t = 92 :: 117 :: r3 ∧ Spec.hex4 r3 = some (lo, r4) ∧ (0xDC00 ≤ lo ∧ lo < 0xE000)
              · obtain ⟨r3, lo, r4, rfl, h2, hl⟩ := hp
                rw [sb_u_pair _ _ _ _ _ _ _ _ h hh h2 hl]
                exact .unit _ _ _ (Chain.one (by decide) ((Shift.u h).trans (Shift.u h2)) (step_u_pair h hh h2 hl))
              · rw [sb_u_latch _ _ _ _ _ _ h hh (fun r3 lo r4 e1 e2 e3 => hp ⟨r3, lo, r4, e1, e2, e3⟩)]
                exact .high r' t cu h hh (fun r3 lo r4 e1 e2 e3 => hp ⟨r3, lo, r4, e1, e2, e3⟩)
            · obtain ⟨bs, hbs, hst⟩ := step_u_single h hh
              by_cases hl : 0xDC00 ≤ cu ∧ cu < 0xE000
              · rw [sb_u_low _ _ _ _ _ _ h hl]
                exact .latchUnit _ _ _ (Chain.one (by decide) (Shift.u h) hst)
              · rw [sb_u_single _ _ _ _ _ _ h hh hl]
                rw [hbs hl] at hst
                exact .unit _ _ _ (Chain.one (by decide) (Shift.u h) hst)
        · have he' : (e == 117) = false := by simpa using he
          rw [sb_esc _ _ _ _ _ he']
          by_cases hm : escapeSpec e = 0
          · rw [if_pos hm]; exact .badEsc e r' he' hm
          · rw [if_neg hm]
            exact .unit _ _ [escapeSpec e] (Chain.one (by decide) (Shift.pair (escapeSpec_ge e hm)) (step_esc he' hm))
    have h92' : (c == 92) = false := by simpa using h92
    by_cases hlt : c < 0x80
    · rw [stringBody_plain _ _ _ _ _ h92' h34' hctl hlt]
      exact .unit _ _ [c] (plainChain h34' h92' hctl)
    · rw [sb_high _ _ _ _ _ hlt]
      have hc : 0x80 ≤ c := UInt8.not_lt.mp hlt
      by_cases h0 : Spec.utf8Len (c :: r) = 0
      · rw [if_pos h0]
        exact .latchUnit _ _ [c] (highChain hc)
      · rw [if_neg h0]
        rcases utf8Len_cases c r hlt h0 with ⟨b1, r', rfl, hn, h1, _⟩ | ⟨b1, b2, r', rfl, hn, h1, h2, _⟩ |
          ⟨b1, b2, b3, r', rfl, hn, h1, h2, h3, _⟩
        · rw [hn]
          exact .unit _ _ _ (Chain.snoc1 hc (highChain h1))
        · rw [hn]
          exact .unit _ _ _ (Chain.snoc1 hc (Chain.snoc1 h1 (highChain h2)))
        · rw [hn]
          exact .unit _ _ _ (Chain.snoc1 hc (Chain.snoc1 h1 (Chain.snoc1 h2 (highChain h3))))


theorem Shift.length_lt {s t : List UInt8} {k : Nat} (h : Shift s t k) (hk : 0 < k) : t.length < s.length := by
  have hne : s ≠ [] := by
    intro he
    have := h.nc 0 hk
    rw [he] at this
    exact this (by decide)
  have : 0 < s.length := List.length_pos_iff.mpr hne
  rw [h.dr, List.length_drop]
  omega

theorem Chain.length_lt {s t u : List UInt8} (h : Chain s t u) : t.length < s.length := by
  induction h with
  | one hk hs _ => exact hs.length_lt hk
  | cons hk hs _ _ ih => exact Nat.lt_trans ih (hs.length_lt hk)

theorem AccOK.chain {s t u : List UInt8} (h : Chain s t u) : ∀ {acc0 dec rest : List UInt8},
    AccOK t (u.reverse ++ acc0) dec rest → AccOK s acc0 dec rest := by
  induction h with
  | one hk hs hst => intro acc0 dec rest h; exact AccOK.lift hs hk hst h
  | cons hk hs hst _ ih =>
    intro acc0 dec rest h
    rw [List.reverse_append, List.append_assoc] at h
    exact AccOK.lift hs hk hst (ih h)

/-- in latched mode nothing is accepted -/
theorem sb_latched_not_acc : ∀ (fuel : Nat) (s acc dec rest : List UInt8),
    Spec.stringBody fuel s acc true ≠ .acc dec rest := by
  intro fuel
  induction fuel with
  | zero => intro s acc dec rest; rw [sb_zero]; intro h; cases h
  | succ fuel ih =>
    intro s acc dec rest h
    have st := sb_step fuel s acc true
    generalize Spec.stringBody (fuel + 1) s acc true = R at st h
    cases st with
    | nil => cases h
    | quote r => cases h
    | ctrl => cases h
    | bsEnd => cases h
    | badEsc => cases h
    | badHex => cases h
    | unit _ t u _ => exact ih _ _ _ _ h
    | latchUnit _ t u _ => exact ih _ _ _ _ h
    | high _ t _ _ _ _ => exact ih _ _ _ _ h

theorem acc_main : ∀ (fuel : Nat) (s acc0 dec rest : List UInt8),
    Spec.stringBody fuel s acc0 false = .acc dec rest → AccOK s acc0 dec rest := by
  intro fuel
  induction fuel with
  | zero => intro s acc dec rest h; rw [sb_zero] at h; cases h
  | succ fuel ih =>
    intro s acc0 dec rest h
    have st := sb_step fuel s acc0 false
    generalize Spec.stringBody (fuel + 1) s acc0 false = R at st h
    cases st with
    | nil => cases h
    | quote r =>
      simp only [Bool.false_eq_true, if_false, Spec.Out.acc.injEq] at h
      obtain ⟨rfl, rfl⟩ := h
      exact AccOK.base r acc0
    | ctrl => cases h
    | bsEnd => cases h
    | badEsc => cases h
    | badHex => cases h
    | unit _ t u hc => exact AccOK.chain hc (ih _ _ _ _ h)
    | latchUnit _ t u _ => exact absurd h (sb_latched_not_acc _ _ _ _ _)
    | high _ t _ _ _ _ => exact absurd h (sb_latched_not_acc _ _ _ _ _)


/-! ## rejected strings -/

/-- the model fails from this position, whatever the array before it, the fuel, the limit and the output so far -/
def MFail (s : List UInt8) : Prop :=
  ∀ (a : Bytes) (start lim i fuel : Nat) (out : Bytes), a.toList.drop i = s →
    decodeStringGo a start lim fuel i out = none

/-- the conclusion of `StrFacts.rej` at an arbitrary position -/
def Bad (s : List UInt8) : Prop :=
  closeQ s = none ∨ ∃ d, closeQ s = some d ∧ ((∃ j, j < d ∧ s.getD j 0 < 0x20) ∨ MFail s)

theorem MFail.of_failNow {s : List UInt8} (h : FailNow s) : MFail s := by
  intro a start lim i fuel out hd
  cases fuel with
  | zero => rfl
  | succ f => exact h a start lim i f out hd

theorem MFail.of_wstep {s : List UInt8} {k : Nat} (hw : WStep s k) (ht : MFail (s.drop k)) : MFail s := by
  intro a start lim i fuel out hd
  cases fuel with
  | zero => rfl
  | succ f =>
    rcases hw a start lim i f out hd with h | ⟨out', h⟩
    · exact h
    · rw [h]; exact ht a start lim (i + k) f out' (drop_add hd k)

theorem Bad.of_mfail {s : List UInt8} (h : MFail s) : Bad s := by
  cases hq : closeQ s with
  | none => exact Or.inl hq
  | some d => exact Or.inr ⟨d, hq, Or.inr h⟩

theorem Bad.lift {s t : List UInt8} {k : Nat} (hs : Shift s t k) (hw : WStep s k) (hb : Bad t) : Bad s := by
  rcases hb with hn | ⟨d, hd, hb⟩
  · left; rw [hs.cq, hn]; rfl
  · right
    refine ⟨d + k, by rw [hs.cq, hd]; rfl, ?_⟩
    rcases hb with ⟨j, hj, hc⟩ | hm
    · left
      refine ⟨k + j, by omega, ?_⟩
      rw [← hs.getD]; exact hc
    · right
      apply MFail.of_wstep hw
      rw [← hs.dr]; exact hm

theorem Bad.chain {s t u : List UInt8} (h : Chain s t u) : Bad t → Bad s := by
  induction h with
  | one hk hs hst => exact Bad.lift hs hst.w
  | cons hk hs hst _ ih => exact fun hb => Bad.lift hs hst.w (ih hb)

/-- the claim at one fuel value -/
def Q (fuel : Nat) : Prop :=
  ∀ (s acc : List UInt8) (o : Bool), s.length < fuel → Spec.stringBody fuel s acc o = .rej → Bad s

/-- the model one `\\uXXXX` unit ahead of the specification -/
theorem ahead {fuel : Nat} (ih : Q fuel) {r' t acc : List UInt8} {o : Bool} {cu : Nat}
    (hlen : (92 :: 117 :: r').length < fuel + 1)
    (h : Spec.stringBody (fuel + 1) (92 :: 117 :: r') acc o = .rej) (hx : Spec.hex4 r' = some (cu, t)) : Bad t := by
  have hsh := Shift.u hx
  have hlt := hsh.length_lt (by decide)
  by_cases hh : 0xD800 ≤ cu ∧ cu < 0xDC00
  · by_cases hp : ∃ r3 lo r4, t = 92 :: 117 :: r3 ∧ Spec.hex4 r3 = some (lo, r4) ∧ (0xDC00 ≤ lo ∧ lo < 0xE000)
    · obtain ⟨r3, lo, r4, rfl, h2, hl⟩ := hp
      rw [sb_u_pair _ _ _ _ _ _ _ _ hx hh h2 hl] at h
      have hsh2 := Shift.u h2
      have hlt2 := hsh2.length_lt (by decide)
      have hb := ih r4 _ o (by omega) h
      obtain ⟨bs, _, hst⟩ := step_u_single h2 (by omega)
      exact Bad.lift hsh2 hst.w hb
    · rw [sb_u_latch _ _ _ _ _ _ hx hh (fun r3 lo r4 e1 e2 e3 => hp ⟨r3, lo, r4, e1, e2, e3⟩)] at h
      exact ih t _ true (by omega) h
  · by_cases hl : 0xDC00 ≤ cu ∧ cu < 0xE000
    · rw [sb_u_low _ _ _ _ _ _ hx hl] at h
      exact ih t _ true (by omega) h
    · rw [sb_u_single _ _ _ _ _ _ hx hh hl] at h
      exact ih t _ o (by omega) h

theorem rej_main : ∀ fuel, Q fuel := by
  intro fuel
  induction fuel using Nat.strongRecOn with
  | _ n IH =>
    match n, IH with
    | 0, _ => intro s acc o hl; omega
    | fuel + 1, IH =>
      intro s acc o hlen h
      have st := sb_step fuel s acc o
      generalize Spec.stringBody (fuel + 1) s acc o = R at st h
      cases st with
      | nil => left; rw [closeQ.eq_def]
      | quote r => cases o <;> cases h
      | ctrl c r h34 hc =>
        have h92 : (c == 92) = false := by
          have : ∀ c : UInt8, c < 0x20 → (c == 92) = false := forall_u8 (by decide +kernel)
          exact this c hc
        have hq : closeQ (c :: r) = (closeQ r).map (· + 1) := by
          rw [closeQ.eq_def]; simp only [h34, h92, Bool.false_eq_true, if_false]
        cases hr : closeQ r with
        | none => left; rw [hq, hr]; rfl
        | some d => right; exact ⟨d + 1, by rw [hq, hr]; rfl, Or.inl ⟨0, by omega, hc⟩⟩
      | bsEnd => left; rw [closeQ.eq_def]; simp
      | badEsc e r' he hm => exact Bad.of_mfail (MFail.of_failNow (fail_esc he hm))
      | badHex r' hx => exact Bad.of_mfail (MFail.of_failNow (fail_u_badhex hx))
      | unit _ t u hc =>
        have := hc.length_lt
        exact Bad.chain hc (IH fuel (by omega) t _ o (by omega) h)
      | latchUnit _ t u hc =>
        have := hc.length_lt
        exact Bad.chain hc (IH fuel (by omega) t _ true (by omega) h)
      | high r' t cu hx hh hno =>
        have hsh := Shift.u hx
        have hlt := hsh.length_lt (by decide)
        by_cases ht : t.getD 0 0 = 92 ∧ t.getD 1 0 = 117
        · match t, ht with
          | [], ht => exact absurd ht.1 (by decide)
          | [x], ht => exact absurd ht.2 (by simp)
          | x :: y :: r3, ht =>
            obtain ⟨rfl, rfl⟩ : x = 92 ∧ y = 117 := ht
            cases h2 : Spec.hex4 r3 with
            | none => exact Bad.of_mfail (MFail.of_failNow (fail_u_pair_badhex hx hh h2))
            | some p =>
              obtain ⟨lo, r4⟩ := p
              match fuel, IH, hlen, h, hlt with
              | 0, _, hlen, _, hlt => simp only [List.length_cons] at hlen hlt; omega
              | f + 1, IH, hlen, h, hlt =>
                have hb : Bad r4 := ahead (IH f (by omega)) (by omega) h h2
                exact Bad.lift (hsh.trans (Shift.u h2)) (wstep_u_pair hx hh h2) hb
        · exact Bad.of_mfail (MFail.of_failNow (fail_u_pair_nobs hx hh
            (by by_cases h0 : t.getD 0 0 = 92
                · right; intro h1; exact ht ⟨h0, h1⟩
                · left; exact h0)))

/-! ## the two fields of `StrFacts` -/

theorem strFacts_acc (fuel : Nat) (s dec rest : List UInt8) (h : Spec.stringBody fuel s [] false = .acc dec rest) :
    ∃ d, closeQ s = some d ∧ rest = s.drop (d + 1) ∧ (∀ j, j < d → ¬ (s.getD j 0 < 0x20)) ∧
      ∀ (a : Bytes) (start lim : Nat), a.toList.drop start = s → d < lim →
        decodeString a start lim = some (dec.toArray, start + d) := by
  obtain ⟨d, tail, hcq, hrest, hnc, hdec, hgo⟩ := acc_main fuel s [] dec rest h
  refine ⟨d, hcq, hrest, hnc, ?_⟩
  intro a start lim hd hl
  have hlt := closeQ_lt s.length s d (Nat.le_refl _) hcq
  have hlen : s.length ≤ a.size := by rw [← hd]; simp
  unfold decodeString
  rw [hgo a start lim start (a.size + 64) #[] hd (by omega) (by omega), hdec]
  simp

theorem strFacts_rej (fuel : Nat) (s : List UInt8) (hlen : s.length < fuel)
    (h : Spec.stringBody fuel s [] false = .rej) :
    closeQ s = none ∨ ∃ d, closeQ s = some d ∧
      ((∃ j, j < d ∧ s.getD j 0 < 0x20) ∨
       ∀ (a : Bytes) (start lim : Nat), a.toList.drop start = s → decodeString a start lim = none) := by
  rcases rej_main fuel s [] false hlen h with hn | ⟨d, hd, hb⟩
  · exact Or.inl hn
  · refine Or.inr ⟨d, hd, ?_⟩
    rcases hb with hc | hm
    · exact Or.inl hc
    · exact Or.inr (fun a start lim hdr => hm a start lim start (a.size + 64) #[] hdr)

end SJ.StrLex

namespace SJ.ParseDefs

/-- **`StrFacts`**: the RFC 8259 string production against `closeQ` and the model of the assembly's decoder. -/
theorem strFacts : StrFacts := ⟨SJ.StrLex.strFacts_acc, SJ.StrLex.strFacts_rej⟩

end SJ.ParseDefs
