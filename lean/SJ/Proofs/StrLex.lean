import SJ.Proofs.LexIface
import SJ.Proofs.Escape
set_option linter.unusedVariables false
/-
`StrFacts`: the RFC 8259 string production (`Spec.stringBody`) against `closeQ` and the model of the assembly's
string decoder (`decodeString`).
-/
namespace SJ.StrLex
open SJ SJ.Generated SJ.Tables SJ.Escape SJ.ParseDefs

/-! ## array / list bridge -/

theorem getD_of_drop {a : Bytes} {i : Nat} {s : List UInt8} (h : a.toList.drop i = s) (j : Nat) :
    a.getD (i + j) 0 = s.getD j 0 := by
  subst h
  rw [List.getD_eq_getElem?_getD, List.getElem?_drop, Array.getD_eq_getD_getElem?, Array.getElem?_toList]

theorem getD_of_drop0 {a : Bytes} {i : Nat} {s : List UInt8} (h : a.toList.drop i = s) :
    a.getD i 0 = s.getD 0 0 := getD_of_drop h 0

theorem lt_size_of_drop {a : Bytes} {i : Nat} {c : UInt8} {r : List UInt8} (h : a.toList.drop i = c :: r) :
    i < a.size := by
  apply Classical.byContradiction
  intro hn
  rw [List.drop_eq_nil_of_le (by simp; omega)] at h
  exact absurd h (by simp)

theorem drop_add {a : Bytes} {i : Nat} {s : List UInt8} (h : a.toList.drop i = s) (k : Nat) :
    a.toList.drop (i + k) = s.drop k := by
  subst h
  rw [List.drop_drop]

/-! ## unfolding `decodeStringGo` (its equation lemmas cannot be generated: see `go_succ_aux`) -/

/-- the surrogate-pair arithmetic of `decodeStringGo` -/
def c32of (cp cp2 : UInt32) : UInt32 := (((cp <<< 10) + 0xFCA00000) ||| (cp2 + 0xFFFF2400)) + 0x10000

theorem c32of_eq (cp cp2 : UInt32) : (((cp <<< 10) + 0xFCA00000) ||| (cp2 + 0xFFFF2400)) + 0x10000 = c32of cp cp2 := by
  rw [c32of]

attribute [irreducible] c32of

theorem match_bind (x : Option (List UInt8)) (k : List UInt8 → Option (Bytes × Nat)) :
    decodeStringGo.match_1 (fun _ => Option (Bytes × Nat)) x (fun _ => none) k = x.bind k := by
  cases x <;> rfl

/-- the `\\u` branch of one iteration -/
def uBody (a : Bytes) (k : Nat → Bytes → Option (Bytes × Nat)) (i : Nat) (out : Bytes) : Option (Bytes × Nat) :=
  if quoteDist a i < 6 then none
  else if hex4 a (i+2) &&& 0xFFFFFC00 == 0xD800 then
    if quoteDist a i < 12 then none
    else if a.getD (i+6) 0 != 92 ∨ a.getD (i+7) 0 != 117 then none
    else if (hex4 a (i+8) ||| hex4 a (i+2)) > 0xFFFF then none
    else (encodeUTF8 (c32of (hex4 a (i+2)) (hex4 a (i+8)))).bind fun bs => k (i + 12) (out ++ bs.toArray)
  else (encodeUTF8 (hex4 a (i+2))).bind fun bs => k (i + 6) (out ++ bs.toArray)

/-- one iteration of `decodeStringGo`, the recursive call abstracted as `k` -/
def goBody (a : Bytes) (start lim : Nat) (k : Nat → Bytes → Option (Bytes × Nat)) (i : Nat) (out : Bytes) :
    Option (Bytes × Nat) :=
  if i - start ≥ lim then none
  else if a.getD i 0 == 34 then some (out, i)
  else if a.getD i 0 == 92 then
    if a.getD (i+1) 0 == 117 then uBody a k i out
    else if escapeMap (a.getD (i+1) 0) == 0 then none
    else k (i + 2) (out.push (escapeMap (a.getD (i+1) 0)))
  else if i ≥ a.size then none
  else k (i + 1) (out.push (a.getD i 0))

theorem go_zero (a : Bytes) (start lim i : Nat) (out : Bytes) : decodeStringGo a start lim 0 i out = none := rfl

theorem go_succ_aux (a : Bytes) (start lim f i : Nat) (out : Bytes) (X : Option (Bytes × Nat))
    (h : decodeStringGo a start lim (f+1) i out = X) :
    goBody a start lim (decodeStringGo a start lim f) i out = X := by
  delta decodeStringGo at h
  simp only [] at h
  generalize hB : (Nat.rec _ _ f : (Nat → Bytes → Option (Bytes × Nat)) ×' Nat.below (motive := fun _ => Nat → Bytes → Option (Bytes × Nat)) f) = B at h
  have hB1 : ∀ i out, B.1 i out = decodeStringGo a start lim f i out := by
    intro i out; rw [← hB]; delta decodeStringGo; rfl
  clear hB
  delta decodeStringGo._f at h
  simp only [hB1, c32of_eq, match_bind] at h
  unfold goBody uBody
  exact h


theorem go_succ (a : Bytes) (start lim f i : Nat) (out : Bytes) :
    decodeStringGo a start lim (f+1) i out = goBody a start lim (decodeStringGo a start lim f) i out :=
  (go_succ_aux a start lim f i out _ rfl).symm


/-! ## arithmetic of the `\\u` escapes -/


theorem and_mask (x : Nat) (hx : x < 2^32) : x &&& 0xFFFFFC00 = x / 1024 * 1024 := by
  apply Nat.eq_of_testBit_eq
  intro j
  have e1 : (0xFFFFFC00 : Nat) = 2^10 * (2^22 - 1) := by decide
  have e2 : x / 1024 * 1024 = 2^10 * (x / 2^10) := by omega
  rw [Nat.testBit_and, e1, e2, Nat.testBit_two_pow_mul, Nat.testBit_two_pow_mul, Nat.testBit_two_pow_sub_one,
    Nat.testBit_div_two_pow]
  by_cases h : 10 ≤ j
  · have e3 : j - 10 + 10 = j := by omega
    simp only [h, decide_true, Bool.true_and, e3]
    by_cases h2 : j - 10 < 22
    · simp [h2]
    · have : x.testBit j = false := Nat.testBit_lt_two_pow (Nat.lt_of_lt_of_le hx (Nat.pow_le_pow_right (by decide) (by omega)))
      simp [this]
  · simp [h]

theorem mask_iff (cp : UInt32) : (cp &&& 0xFFFFFC00 == 0xD800) = true ↔ (0xD800 ≤ cp.toNat ∧ cp.toNat < 0xDC00) := by
  rw [beq_iff_eq, ← UInt32.toNat_inj, UInt32.toNat_and]
  have := and_mask cp.toNat cp.toNat_lt
  simp only [UInt32.reduceToNat] at this ⊢
  rw [this]
  omega


/-- the four bytes `hex4` reads at the head of a list (0 beyond its end) -/
def H (s : List UInt8) : UInt32 := hex4 #[s.getD 0 0, s.getD 1 0, s.getD 2 0, s.getD 3 0] 0

theorem hex4_of_drop {a : Bytes} {j : Nat} {s : List UInt8} (h : a.toList.drop j = s) : hex4 a j = H s := by
  have h0 := getD_of_drop h 0
  have h1 := getD_of_drop h 1
  have h2 := getD_of_drop h 2
  have h3 := getD_of_drop h 3
  rw [Nat.add_zero] at h0
  unfold H hex4
  rw [h0, h1, h2, h3]
  rfl

/-- an invalid digit makes the combined value huge (not only `> 0xFFFF`) -/
theorem hex4_invalid' (a b c d : UInt8)
    (h : hexValSpec a = 0xFFFFFFFF ∨ hexValSpec b = 0xFFFFFFFF ∨ hexValSpec c = 0xFFFFFFFF ∨ hexValSpec d = 0xFFFFFFFF) :
    0xFFFFF000 ≤ (hex4 #[a,b,c,d] 0).toNat := by
  rw [hex4_toNat]
  rcases h with h | h | h | h <;> rw [h]
  · exact Nat.le_trans (by decide) (Nat.le_trans (Nat.le_trans Nat.left_le_or Nat.left_le_or) Nat.left_le_or)
  · exact Nat.le_trans (by decide) (Nat.le_trans (Nat.le_trans Nat.right_le_or Nat.left_le_or) Nat.left_le_or)
  · exact Nat.le_trans (by decide) (Nat.le_trans Nat.right_le_or Nat.left_le_or)
  · exact Nat.le_trans (by decide) Nat.right_le_or

theorem hexValSpec_zero : hexValSpec 0 = 0xFFFFFFFF := by decide

theorem hexvalid_facts : ∀ b : UInt8, hexValSpec b ≠ 0xFFFFFFFF → (b == 34) = false ∧ (b == 92) = false ∧ ¬ b < 0x20 :=
  forall_u8 (by decide +kernel)

theorem H_none {s : List UInt8} (h : Spec.hex4 s = none) : 0xFFFFF000 ≤ (H s).toNat := by
  unfold H
  apply hex4_invalid'
  match s, h with
  | [], _ => exact Or.inl hexValSpec_zero
  | [x0], _ => exact Or.inr (Or.inl hexValSpec_zero)
  | [x0, x1], _ => exact Or.inr (Or.inr (Or.inl hexValSpec_zero))
  | [x0, x1, x2], _ => exact Or.inr (Or.inr (Or.inr hexValSpec_zero))
  | x0 :: x1 :: x2 :: x3 :: t, h =>
    show hexValSpec x0 = _ ∨ hexValSpec x1 = _ ∨ hexValSpec x2 = _ ∨ hexValSpec x3 = _
    apply Classical.byContradiction
    intro hn
    simp only [not_or] at hn
    obtain ⟨ha, hb, hc, hd⟩ := hn
    rw [hex4_agrees_spec, if_pos (hex4_spec x0 x1 x2 x3 ha hb hc hd).2] at h
    exact absurd h (by simp)

theorem H_some {s t : List UInt8} {cu : Nat} (h : Spec.hex4 s = some (cu, t)) :
    ∃ x0 x1 x2 x3, s = x0 :: x1 :: x2 :: x3 :: t ∧ (H s).toNat = cu ∧ cu ≤ 0xFFFF ∧
      hexValSpec x0 ≠ 0xFFFFFFFF ∧ hexValSpec x1 ≠ 0xFFFFFFFF ∧ hexValSpec x2 ≠ 0xFFFFFFFF ∧ hexValSpec x3 ≠ 0xFFFFFFFF := by
  match s, h with
  | [], h => simp [Spec.hex4] at h
  | [x0], h => simp [Spec.hex4] at h
  | [x0, x1], h => simp [Spec.hex4] at h
  | [x0, x1, x2], h => simp [Spec.hex4] at h
  | x0 :: x1 :: x2 :: x3 :: t', h =>
    rw [hex4_agrees_spec] at h
    by_cases hle : (hex4 #[x0, x1, x2, x3] 0).toNat ≤ 0xFFFF
    · rw [if_pos hle] at h
      simp only [Option.some.injEq, Prod.mk.injEq] at h
      obtain ⟨h1, h2⟩ := h
      subst h2
      refine ⟨x0, x1, x2, x3, rfl, h1, by omega, ?_, ?_, ?_, ?_⟩ <;>
      · intro hbad
        have := hex4_invalid x0 x1 x2 x3 (by simp [hbad])
        omega
    · rw [if_neg hle] at h
      exact absurd h (by simp)



theorem encodeUTF8_isSome (cp : UInt32) (h : cp.toNat ≤ 0x10FFFF) : ∃ bs, encodeUTF8 cp = some bs := by
  unfold encodeUTF8
  simp only [UInt32.lt_iff_toNat_lt, UInt32.le_iff_toNat_le, UInt32.reduceToNat]
  split
  · exact ⟨_, rfl⟩
  · split
    · exact ⟨_, rfl⟩
    · split
      · exact ⟨_, rfl⟩
      · exact ⟨_, rfl⟩

theorem or_gt_left (x y : UInt32) (h : 0xFFFF < x.toNat) : (x ||| y) > 0xFFFF := by
  show (0xFFFF : UInt32) < x ||| y
  rw [UInt32.lt_iff_toNat_lt, UInt32.toNat_or]
  exact Nat.lt_of_lt_of_le h Nat.left_le_or

theorem or_gt_right (x y : UInt32) (h : 0xFFFF < y.toNat) : (x ||| y) > 0xFFFF := by
  show (0xFFFF : UInt32) < x ||| y
  rw [UInt32.lt_iff_toNat_lt, UInt32.toNat_or]
  exact Nat.lt_of_lt_of_le h Nat.right_le_or

theorem or_le (x y : UInt32) (hx : x.toNat ≤ 0xFFFF) (hy : y.toNat ≤ 0xFFFF) : ¬ (x ||| y) > 0xFFFF := by
  show ¬ (0xFFFF : UInt32) < x ||| y
  rw [UInt32.lt_iff_toNat_lt, UInt32.toNat_or]
  have : x.toNat ||| y.toNat < 2^16 := Nat.or_lt_two_pow (by omega) (by omega)
  simp only [UInt32.reduceToNat]
  omega

section
variable {a : Bytes} {k : Nat → Bytes → Option (Bytes × Nat)} {i : Nat} {out : Bytes}

theorem uBody_bad (h : 0xFFFFF000 ≤ (hex4 a (i+2)).toNat) : uBody a k i out = none := by
  unfold uBody
  split
  · rfl
  · split
    · split
      · rfl
      · split
        · rfl
        · rw [if_pos (or_gt_right _ _ (by omega))]
    · rw [encodeUTF8_none _ (by omega)]; rfl

theorem uBody_single (hnh : ¬ (0xD800 ≤ (hex4 a (i+2)).toNat ∧ (hex4 a (i+2)).toNat < 0xDC00)) :
    uBody a k i out = if quoteDist a i < 6 then none else
      (encodeUTF8 (hex4 a (i+2))).bind fun bs => k (i + 6) (out ++ bs.toArray) := by
  unfold uBody
  rw [if_neg (fun h => hnh ((mask_iff _).mp h))]

theorem uBody_pair_fail1 (hh : 0xD800 ≤ (hex4 a (i+2)).toNat ∧ (hex4 a (i+2)).toNat < 0xDC00)
    (h67 : a.getD (i+6) 0 ≠ 92 ∨ a.getD (i+7) 0 ≠ 117) : uBody a k i out = none := by
  unfold uBody
  rw [if_pos ((mask_iff _).mpr hh)]
  have : a.getD (i+6) 0 != 92 ∨ a.getD (i+7) 0 != 117 := by
    rcases h67 with h | h
    · left; simpa using h
    · right; simpa using h
  rw [if_pos this]
  repeat' (first | rfl | split)

theorem uBody_pair_fail2 (hh : 0xD800 ≤ (hex4 a (i+2)).toNat ∧ (hex4 a (i+2)).toNat < 0xDC00)
    (h8 : 0xFFFF < (hex4 a (i+8)).toNat) : uBody a k i out = none := by
  unfold uBody
  rw [if_pos ((mask_iff _).mpr hh), if_pos (or_gt_left _ _ h8)]
  repeat' (first | rfl | split)

theorem uBody_pair (hh : 0xD800 ≤ (hex4 a (i+2)).toNat ∧ (hex4 a (i+2)).toNat < 0xDC00)
    (h6 : a.getD (i+6) 0 = 92) (h7 : a.getD (i+7) 0 = 117) (h8 : (hex4 a (i+8)).toNat ≤ 0xFFFF) :
    uBody a k i out = if quoteDist a i < 12 then none else
      (encodeUTF8 (c32of (hex4 a (i+2)) (hex4 a (i+8)))).bind fun bs => k (i + 12) (out ++ bs.toArray) := by
  unfold uBody
  have hor := or_le (hex4 a (i+8)) (hex4 a (i+2)) h8 (by omega)
  have h67 : ¬ (a.getD (i+6) 0 != 92 ∨ a.getD (i+7) 0 != 117) := by simp [h6, h7]
  rw [if_pos ((mask_iff _).mpr hh), if_neg h67, if_neg hor]
  by_cases h12 : quoteDist a i < 12
  · rw [if_pos h12]
    split <;> rfl
  · rw [if_neg h12, if_neg (by omega)]

end


/-! ## one iteration of the model, positions given as lists -/

theorem quoteDist_ge {a : Bytes} {i : Nat} (k : Nat) (hk : k ≤ 12)
    (h : ∀ j, j < k → (a.getD (i + j) 0 == 34) = false) : ¬ quoteDist a i < k := by
  unfold quoteDist
  cases hf : (List.range 12).find? (fun d => a.getD (i + d) 0 == 34) with
  | none => simp only [Option.getD_none]; omega
  | some d =>
    simp only [Option.getD_some]
    have hp := List.find?_some hf
    intro hd
    rw [h d hd] at hp
    exact absurd hp (by decide)

/-- precise step: `k` bytes consumed, `u` appended -/
def Step (s : List UInt8) (k : Nat) (u : List UInt8) : Prop :=
  ∀ (a : Bytes) (start lim i f : Nat) (out : Bytes), a.toList.drop i = s →
    decodeStringGo a start lim (f+1) i out =
      if i - start ≥ lim then none else decodeStringGo a start lim f (i + k) (out ++ u.toArray)

/-- the model fails in this very iteration -/
def FailNow (s : List UInt8) : Prop :=
  ∀ (a : Bytes) (start lim i f : Nat) (out : Bytes), a.toList.drop i = s →
    decodeStringGo a start lim (f+1) i out = none

/-- the model fails or goes on `k` bytes further -/
def WStep (s : List UInt8) (k : Nat) : Prop :=
  ∀ (a : Bytes) (start lim i f : Nat) (out : Bytes), a.toList.drop i = s →
    decodeStringGo a start lim (f+1) i out = none ∨
      ∃ out', decodeStringGo a start lim (f+1) i out = decodeStringGo a start lim f (i + k) out'

theorem Step.w {s k u} (h : Step s k u) : WStep s k := by
  intro a start lim i f out hd
  rw [h a start lim i f out hd]
  by_cases h0 : i - start ≥ lim
  · left; rw [if_pos h0]
  · right; rw [if_neg h0]; exact ⟨_, rfl⟩

theorem FailNow.w {s k} (h : FailNow s) : WStep s k := fun a start lim i f out hd => Or.inl (h a start lim i f out hd)

/-- reduce a `Step`/`FailNow` goal to the body below the limit test -/
theorem go_of_body {a : Bytes} {start lim i f : Nat} {out : Bytes} {R : Option (Bytes × Nat)}
    (h : ¬ i - start ≥ lim → goBody a start lim (decodeStringGo a start lim f) i out = R) :
    decodeStringGo a start lim (f+1) i out = if i - start ≥ lim then none else R := by
  rw [go_succ]
  by_cases h0 : i - start ≥ lim
  · rw [if_pos h0]; unfold goBody; rw [if_pos h0]
  · rw [if_neg h0]; exact h h0

theorem go_of_body_none {a : Bytes} {start lim i f : Nat} {out : Bytes}
    (h : ¬ i - start ≥ lim → goBody a start lim (decodeStringGo a start lim f) i out = none) :
    decodeStringGo a start lim (f+1) i out = none := by
  rw [go_of_body h]; split <;> rfl

theorem step_plain {c : UInt8} {r : List UInt8} (h1 : (c == 34) = false) (h2 : (c == 92) = false) :
    Step (c :: r) 1 [c] := by
  intro a start lim i f out hd
  have g0 : a.getD i 0 = c := by simpa using getD_of_drop hd 0
  have hs := lt_size_of_drop hd
  apply go_of_body
  intro h0
  unfold goBody
  simp only [g0, h1, h2, h0, Bool.false_eq_true, if_false, if_neg (Nat.not_le.mpr hs), ge_iff_le]
  rfl

theorem step_esc {e : UInt8} {r' : List UInt8} (he : (e == 117) = false) (hm : escapeSpec e ≠ 0) :
    Step (92 :: e :: r') 2 [escapeSpec e] := by
  intro a start lim i f out hd
  have g0 : a.getD i 0 = 92 := by simpa using getD_of_drop hd 0
  have g1 : a.getD (i + 1) 0 = e := by simpa using getD_of_drop hd 1
  apply go_of_body
  intro h0
  unfold goBody
  have hm' : (escapeSpec e == 0) = false := by simpa using hm
  simp only [g0, g1, he, h0, escapeMap_spec, hm', Bool.false_eq_true, if_false]
  rfl

theorem fail_esc {e : UInt8} {r' : List UInt8} (he : (e == 117) = false) (hm : escapeSpec e = 0) :
    FailNow (92 :: e :: r') := by
  intro a start lim i f out hd
  have g0 : a.getD i 0 = 92 := by simpa using getD_of_drop hd 0
  have g1 : a.getD (i + 1) 0 = e := by simpa using getD_of_drop hd 1
  apply go_of_body_none
  intro h0
  unfold goBody
  simp only [g0, g1, he, h0, escapeMap_spec, hm, Bool.false_eq_true, if_false]
  rfl


/-- common part of the `\\u` lemmas: the body is `uBody` -/
theorem goBody_u {a : Bytes} {start lim i : Nat} {k : Nat → Bytes → Option (Bytes × Nat)} {out : Bytes}
    {r' : List UInt8} (hd : a.toList.drop i = 92 :: 117 :: r') (h0 : ¬ i - start ≥ lim) :
    goBody a start lim k i out = uBody a k i out ∧ hex4 a (i + 2) = H r' := by
  have g0 : a.getD i 0 = 92 := by simpa using getD_of_drop hd 0
  have g1 : a.getD (i + 1) 0 = 117 := by simpa using getD_of_drop hd 1
  refine ⟨?_, hex4_of_drop (drop_add hd 2)⟩
  unfold goBody
  simp only [g0, g1, h0, if_false, BEq.rfl, if_true]
  rfl

theorem fail_u_badhex {r' : List UInt8} (h : Spec.hex4 r' = none) : FailNow (92 :: 117 :: r') := by
  intro a start lim i f out hd
  apply go_of_body_none
  intro h0
  obtain ⟨e1, e2⟩ := goBody_u (k := decodeStringGo a start lim f) (out := out) hd h0
  rw [e1]
  exact uBody_bad (by rw [e2]; exact H_none h)

theorem six_noquote (x0 x1 x2 x3 : UInt8) (t : List UInt8)
    (h0 : (x0 == 34) = false) (h1 : (x1 == 34) = false) (h2 : (x2 == 34) = false) (h3 : (x3 == 34) = false) :
    ∀ j, j < 6 → ((92 :: 117 :: x0 :: x1 :: x2 :: x3 :: t).getD j 0 == 34) = false := by
  intro j hj
  have : j = 0 ∨ j = 1 ∨ j = 2 ∨ j = 3 ∨ j = 4 ∨ j = 5 := by omega
  rcases this with rfl | rfl | rfl | rfl | rfl | rfl
  · rfl
  · rfl
  · exact h0
  · exact h1
  · exact h2
  · exact h3

theorem step_u_single {r' t : List UInt8} {cu : Nat} (h : Spec.hex4 r' = some (cu, t))
    (hnh : ¬ (0xD800 ≤ cu ∧ cu < 0xDC00)) :
    ∃ bs, (¬ (0xDC00 ≤ cu ∧ cu < 0xE000) → bs = Spec.utf8 cu) ∧ Step (92 :: 117 :: r') 6 bs := by
  obtain ⟨x0, x1, x2, x3, rfl, hH, hle, v0, v1, v2, v3⟩ := H_some h
  obtain ⟨bs, hbs⟩ := encodeUTF8_isSome (H (x0 :: x1 :: x2 :: x3 :: t)) (by omega)
  refine ⟨bs, ?_, ?_⟩
  · intro hnl
    have := encodeUTF8_spec (H (x0 :: x1 :: x2 :: x3 :: t)) (by omega) (by omega)
    rw [hbs, hH] at this
    exact Option.some.inj this
  · intro a start lim i f out hd
    apply go_of_body
    intro h0
    obtain ⟨e1, e2⟩ := goBody_u (k := decodeStringGo a start lim f) (out := out) hd h0
    rw [e1, uBody_single (by rw [e2, hH]; exact hnh), e2, hbs]
    have hq : ¬ quoteDist a i < 6 := by
      apply quoteDist_ge 6 (by decide)
      intro j hj
      rw [getD_of_drop hd j]
      exact six_noquote x0 x1 x2 x3 t (hexvalid_facts x0 v0).1 (hexvalid_facts x1 v1).1 (hexvalid_facts x2 v2).1
        (hexvalid_facts x3 v3).1 j hj
    rw [if_neg hq]
    rfl

end SJ.StrLex
