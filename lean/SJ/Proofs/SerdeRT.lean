import SJ.Proofs.Rebuild
import SJ.Proofs.Located
/-
C11 — `Serialize` followed by `Deserialize` (sections level) round-trips every well-formed tape:
freshly parsed, edited, with deleted members (NOP runs), for every string hash function.

Structure of the proof
  1. bit-level facts about tape words and the little-endian value stream (no `bv_decide`);
  2. `indexString_sound` / `C11_dedup_sound`: the deduplicating string index is sound for every hash
     and every table state;
  3. `CodeV/CodeEs/CodeMs/CodeRoots`: the tag stream and value stream that encode a document at given
     tape positions (the intermediate specification between the two loops);
  4. phase 1 (`ser_*`): on a tape holding the document, `serLoop` emits a coded stream;
  5. phase 2 (`reb_*`): `rebLoop` run on a coded stream writes a tape holding the document
     (NOP runs are re-created with fresh skip counts, containers get their end word when the start
     tag is processed and the end word is checked when the end tag arrives);
  6. `roundtrip`.
All theorems are about the model functions `serLoop`, `serialize`, `rebLoop`, `rebuild`,
`deserializeSections` themselves.
-/
set_option linter.unusedSimpArgs false
set_option linter.unusedVariables false
namespace SJ.SerdeRT
open SJ SJ.Generated SJ.Layout SJ.Rebuild

-- 1. bits -----------------------------------------------------------------------------------------------------

theorem sh56 : UInt64.toNat 56 % 64 = 56 := by decide

theorem shl_lt (t : UInt8) : t.toNat <<< 56 < 2^64 := by
  have := t.toNat_lt
  rw [Nat.shiftLeft_eq]
  omega

theorem mkWord_toNat (t : UInt8) (x : UInt64) (h : x.toNat < 2^56) :
    (mkWord t x).toNat = t.toNat * 2^56 + x.toNat := by
  unfold mkWord
  simp only [UInt64.toNat_or, UInt64.toNat_shiftLeft, UInt8.toNat_toUInt64, sh56]
  rw [Nat.mod_eq_of_lt (shl_lt t), ← Nat.shiftLeft_add_eq_or_of_lt h, Nat.shiftLeft_eq]

theorem tagOf_toNat (w : UInt64) : (tagOf w).toNat = w.toNat / 2^56 := by
  unfold tagOf
  simp only [UInt64.toNat_toUInt8, UInt64.toNat_shiftRight, sh56, Nat.shiftRight_eq_div_pow]
  have := w.toNat_lt
  omega

theorem payloadOf_toNat (w : UInt64) : (payloadOf w).toNat = w.toNat % 2^56 := by
  unfold payloadOf wJSONVALUEMASK
  rw [UInt64.toNat_and]
  show w.toNat &&& (2^56 - 1) = _
  rw [Nat.and_two_pow_sub_one_eq_mod]

theorem tagOf_mkWord (t : UInt8) (x : UInt64) (h : x.toNat < 2^56) : tagOf (mkWord t x) = t := by
  apply UInt8.toNat_inj.mp
  rw [tagOf_toNat, mkWord_toNat t x h]
  omega

theorem payloadOf_mkWord (t : UInt8) (x : UInt64) (h : x.toNat < 2^56) : payloadOf (mkWord t x) = x := by
  apply UInt64.toNat_inj.mp
  rw [payloadOf_toNat, mkWord_toNat t x h]
  omega

theorem mkWord_zero (t : UInt8) : mkWord t 0 = t.toUInt64 <<< 56 := by
  unfold mkWord
  exact UInt64.or_zero

theorem tagmask_toNat (w : UInt64) : (w &&& wJSONTAGMASK).toNat = w.toNat / 2^56 * 2^56 := by
  rw [UInt64.toNat_and]
  show w.toNat &&& ((2^8 - 1) <<< 56) = _
  have hw := w.toNat_lt
  generalize w.toNat = n at hw ⊢
  apply Nat.eq_of_testBit_eq
  intro i
  rw [Nat.testBit_and, Nat.testBit_mul_two_pow, Nat.testBit_shiftLeft, Nat.testBit_two_pow_sub_one,
    ← Nat.shiftRight_eq_div_pow, Nat.testBit_shiftRight]
  by_cases h1 : 56 ≤ i
  · have e : 56 + (i - 56) = i := by omega
    rw [e]
    by_cases h2 : i < 64
    · have : i - 56 < 8 := by omega
      simp [h1, this]
    · have : n.testBit i = false :=
        Nat.testBit_lt_two_pow (Nat.lt_of_lt_of_le hw (Nat.pow_le_pow_right (by decide) (by omega)))
      simp [this]
  · simp [h1]

/-- the tag check of the `}` / `]` case succeeds on a word `mkWord t x` -/
theorem tagmask_mkWord (t : UInt8) (x : UInt64) (h : x.toNat < 2^56) :
    mkWord t x &&& wJSONTAGMASK = t.toUInt64 <<< 56 := by
  apply UInt64.toNat_inj.mp
  rw [tagmask_toNat, mkWord_toNat t x h, ← mkWord_zero, mkWord_toNat t 0 (by decide)]
  have : (0 : UInt64).toNat = 0 := rfl
  omega

theorem strbit (x : UInt64) (h : x.toNat < 2^55) : x &&& wSTRINGBUFBIT = 0 := by
  apply UInt64.toNat_inj.mp
  rw [UInt64.toNat_and]
  show x.toNat &&& 2^55 = 0
  apply Nat.eq_of_testBit_eq
  intro i
  rw [Nat.testBit_and, Nat.testBit_two_pow, Nat.zero_testBit]
  by_cases hi : 55 = i
  · subst hi; rw [Nat.testBit_lt_two_pow h]; rfl
  · simp [hi]

theorem toNat_ofNat_lt {n : Nat} (h : n < 2^64) : (UInt64.ofNat n).toNat = n := by
  simp only [UInt64.toNat_ofNat']
  exact Nat.mod_eq_of_lt h

-- little-endian value words ---------------------------------------------------------------------------------------

theorem or_byte (acc x k : Nat) (hacc : acc < 2^k) (hk : k + 8 ≤ 64) :
    acc ||| ((x % 2^8) <<< k % 2^64) = (x % 2^8) * 2^k + acc := by
  have h1 : (x % 2^8) <<< k < 2^64 := by
    rw [Nat.shiftLeft_eq]
    calc x % 2^8 * 2^k < 2^8 * 2^k := Nat.mul_lt_mul_of_pos_right (Nat.mod_lt _ (by decide)) (Nat.two_pow_pos k)
      _ = 2^(8+k) := (Nat.pow_add 2 8 k).symm
      _ ≤ 2^64 := Nat.pow_le_pow_right (by decide) (by omega)
  rw [Nat.mod_eq_of_lt h1, Nat.or_comm, ← Nat.shiftLeft_add_eq_or_of_lt hacc, Nat.shiftLeft_eq]

theorem shamt (k : Nat) (h : k < 8) : (UInt64.ofNat (8 * k)).toNat % 64 = 8 * k := by
  simp only [UInt64.toNat_ofNat']
  omega

/-- reading eight bytes that are the little-endian bytes of `w` gives `w` -/
theorem rdLE64_spec (b : Bytes) (i : Nat) (w : UInt64)
    (h : ∀ k, k < 8 → b.getD (i + k) 0 = (w >>> (UInt64.ofNat (8 * k))).toUInt8) : rdLE64 b i = w := by
  unfold rdLE64
  have hr : List.range 8 = [0,1,2,3,4,5,6,7] := by decide
  rw [hr]
  simp only [List.foldl, h 0 (by omega), h 1 (by omega), h 2 (by omega), h 3 (by omega), h 4 (by omega),
    h 5 (by omega), h 6 (by omega), h 7 (by omega)]
  apply UInt64.toNat_inj.mp
  simp only [UInt64.toNat_or, UInt64.toNat_shiftLeft, UInt64.toNat_shiftRight, UInt8.toNat_toUInt64,
    UInt64.toNat_toUInt8, shamt 0 (by omega), shamt 1 (by omega), shamt 2 (by omega), shamt 3 (by omega),
    shamt 4 (by omega), shamt 5 (by omega), shamt 6 (by omega), shamt 7 (by omega)]
  have hw := w.toNat_lt
  generalize w.toNat = n at hw ⊢
  simp only [Nat.shiftRight_eq_div_pow, Nat.reduceMul]
  show 0 ||| _ ||| _ ||| _ ||| _ ||| _ ||| _ ||| _ ||| _ = n
  rw [or_byte _ _ 0 (by omega) (by omega), or_byte _ _ 8 (by omega) (by omega), or_byte _ _ 16 (by omega) (by omega),
    or_byte _ _ 24 (by omega) (by omega), or_byte _ _ 32 (by omega) (by omega), or_byte _ _ 40 (by omega) (by omega),
    or_byte _ _ 48 (by omega) (by omega), or_byte _ _ 56 (by omega) (by omega)]
  omega

theorem le64Bytes_length (w : UInt64) : (le64Bytes w).length = 8 := by
  simp [le64Bytes]

theorem le64Bytes_get (w : UInt64) (k : Nat) (h : k < 8) :
    (le64Bytes w)[k]? = some ((w >>> (UInt64.ofNat (8 * k))).toUInt8) := by
  simp [le64Bytes, h]

/-- the byte string of a list of value words -/
def bytesOf (V : List UInt64) : List UInt8 := V.flatMap le64Bytes

theorem bytesOf_length (V : List UInt64) : (bytesOf V).length = 8 * V.length := by
  induction V with
  | nil => rfl
  | cons w V ih => simp only [bytesOf, List.flatMap_cons, List.length_append, le64Bytes_length, List.length_cons] at *; omega

theorem bytesOf_append (V W : List UInt64) : bytesOf (V ++ W) = bytesOf V ++ bytesOf W := by
  simp [bytesOf]

/-- the value stream holds the words `V` from byte position `i` on -/
def ValsAt (vals : Bytes) (i : Nat) (V : List UInt64) : Prop :=
  ∃ pre post, vals.toList = pre ++ bytesOf V ++ post ∧ pre.length = i

theorem valsAt_append {vals : Bytes} {i : Nat} {V W : List UInt64} (h : ValsAt vals i (V ++ W)) :
    ValsAt vals i V ∧ ValsAt vals (i + 8 * V.length) W := by
  obtain ⟨pre, post, h1, h2⟩ := h
  rw [bytesOf_append] at h1
  refine ⟨⟨pre, bytesOf W ++ post, by rw [h1]; simp, h2⟩, ⟨pre ++ bytesOf V, post, by rw [h1]; simp, ?_⟩⟩
  rw [List.length_append, bytesOf_length, h2]

theorem valsAt_cons {vals : Bytes} {i : Nat} {w : UInt64} {V : List UInt64} (h : ValsAt vals i (w :: V)) :
    i + 8 ≤ vals.size ∧ rdLE64 vals i = w ∧ ValsAt vals (i + 8) V := by
  have h' : ValsAt vals i ([w] ++ V) := h
  obtain ⟨⟨pre, post, h1, h2⟩, h3⟩ := valsAt_append h'
  refine ⟨?_, ?_, h3⟩
  · have : vals.size = vals.toList.length := by simp
    rw [this, h1]
    simp only [bytesOf, List.flatMap_cons, List.flatMap_nil, List.append_nil, List.length_append, le64Bytes_length]
    omega
  · apply rdLE64_spec
    intro k hk
    have e : vals.getD (i + k) 0 = (vals.toList[i + k]?).getD 0 := by
      simp [Array.getD_eq_getD_getElem?]
    rw [e, h1]
    simp only [bytesOf, List.flatMap_cons, List.flatMap_nil, List.append_nil, List.append_assoc]
    rw [List.getElem?_append_right (by omega)]
    rw [List.getElem?_append_left (by rw [le64Bytes_length]; omega)]
    have : i + k - pre.length = k := by omega
    rw [this, le64Bytes_get w k hk]
    rfl

theorem valsAt_nil (vals : Bytes) (i : Nat) (h : i ≤ vals.size) : ValsAt vals i [] := by
  refine ⟨vals.toList.take i, vals.toList.drop i, by simp [bytesOf], ?_⟩
  simp; omega

-- 2. the string index ---------------------------------------------------------------------------------------------

/-- `b` extends `a` (append-only growth of the string buffer) -/
def Ext (a b : Bytes) : Prop := ∃ c, b = a ++ c

theorem Ext.refl (a : Bytes) : Ext a a := ⟨#[], by simp⟩
theorem Ext.trans {a b c : Bytes} (h1 : Ext a b) (h2 : Ext b c) : Ext a c := by
  obtain ⟨x, rfl⟩ := h1
  obtain ⟨y, rfl⟩ := h2
  exact ⟨x ++ y, by simp⟩
theorem Ext.size_le {a b : Bytes} (h : Ext a b) : a.size ≤ b.size := by
  obtain ⟨x, rfl⟩ := h
  simp
theorem Ext.extract {a b : Bytes} (h : Ext a b) (i j : Nat) (hj : j ≤ a.size) : b.extract i j = a.extract i j := by
  obtain ⟨x, rfl⟩ := h
  rw [Array.extract_append]
  have : j - a.size = 0 := by omega
  simp [this]

theorem indexString_sound (hash : Bytes → Nat) (s s' : SerState) (sb : Bytes) (o64 : UInt64)
    (h : indexString hash s sb = (s', o64)) :
    s'.tags = s.tags ∧ s'.values = s.values ∧ Ext s.stringBuf s'.stringBuf ∧
    s'.stringBuf.size ≤ s.stringBuf.size + sb.size ∧
    ∃ o : Nat, o64 = UInt64.ofNat o ∧ o + sb.size ≤ s'.stringBuf.size ∧ s'.stringBuf.extract o (o + sb.size) = sb := by
  unfold indexString at h
  simp only [] at h
  split at h
  · next hc =>
    obtain ⟨h1, h2, h3⟩ := hc
    cases h
    generalize ((s.table.getD (hash sb % cstringSize) 0 : Nat) : Int) - 1 = off at h1 h2 h3
    refine ⟨rfl, rfl, Ext.refl _, by omega, off.toNat, rfl, by omega, ?_⟩
    have e : (off + (sb.size : Int)).toNat = off.toNat + sb.size := by omega
    rw [e] at h3
    exact eq_of_beq h3
  · cases h
    refine ⟨rfl, rfl, ⟨sb, rfl⟩, by simp, s.stringBuf.size, rfl, by simp, ?_⟩
    simp

-- 3. coded streams ---------------------------------------------------------------------------------------------------

/-- `n` NOP tags -/
abbrev nops (n : Nat) : List UInt8 := List.replicate n tagNop

/-- a string entry at `[p, p+2)`: offset into `m` and length -/
def CodeStr (m : Bytes) (s : List UInt8) (p e : Nat) (T : List UInt8) (V : List UInt64) : Prop :=
  e = p + 2 ∧ T = [tagString] ∧
    ∃ o : Nat, V = [UInt64.ofNat o, UInt64.ofNat s.length] ∧ o + s.length ≤ m.size ∧
      m.extract o (o + s.length) = s.toArray

mutual
/-- tags `T` and value words `V` encode `v` occupying the tape positions `[p, e)`; strings live in `m` -/
def CodeV (m : Bytes) : JVal → Nat → Nat → List UInt8 → List UInt64 → Prop
  | .null, p, e, T, V => e = p + 1 ∧ T = [tagNull] ∧ V = []
  | .bool b, p, e, T, V => e = p + 1 ∧ T = [if b then tagBoolTrue else tagBoolFalse] ∧ V = []
  | .int w, p, e, T, V => e = p + 2 ∧ T = [tagInteger] ∧ V = [w]
  | .uint w, p, e, T, V => e = p + 2 ∧ T = [tagUint] ∧ V = [w]
  | .float b f, p, e, T, V => e = p + 2 ∧
      ((f = 0 ∧ T = [tagFloat] ∧ V = [b]) ∨
       (∃ w, tagOf w = tagFloat ∧ payloadOf w = f ∧ T = [tagFloatWithFlag] ∧ V = [w, b]))
  | .str s, p, e, T, V => CodeStr m s p e T V
  | .arr es, p, e, T, V => p + 2 ≤ e ∧ ∃ T' V', T = tagArrayStart :: (T' ++ [tagArrayEnd]) ∧
      V = (UInt64.ofNat e - UInt64.ofNat p) :: V' ∧ CodeEs m es (p + 1) (e - 1) T' V'
  | .obj ms, p, e, T, V => p + 2 ≤ e ∧ ∃ T' V', T = tagObjectStart :: (T' ++ [tagObjectEnd]) ∧
      V = (UInt64.ofNat e - UInt64.ofNat p) :: V' ∧ CodeMs m ms (p + 1) (e - 1) T' V'
def CodeEs (m : Bytes) : JVals → Nat → Nat → List UInt8 → List UInt64 → Prop
  | .nil, lo, hi, T, V => lo ≤ hi ∧ T = nops (hi - lo) ∧ V = []
  | .cons v vs, lo, hi, T, V => ∃ p e T1 V1 T2 V2, lo ≤ p ∧ e ≤ hi ∧ T = nops (p - lo) ++ T1 ++ T2 ∧ V = V1 ++ V2 ∧
      CodeV m v p e T1 V1 ∧ CodeEs m vs e hi T2 V2
def CodeMs (m : Bytes) : JMems → Nat → Nat → List UInt8 → List UInt64 → Prop
  | .nil, lo, hi, T, V => lo ≤ hi ∧ T = nops (hi - lo) ∧ V = []
  | .cons k v ms, lo, hi, T, V => ∃ pk p e Tk Vk T1 V1 T2 V2, lo ≤ pk ∧ pk + 2 ≤ p ∧ e ≤ hi ∧
      T = nops (pk - lo) ++ Tk ++ nops (p - (pk + 2)) ++ T1 ++ T2 ∧ V = Vk ++ V1 ++ V2 ∧
      CodeStr m k pk (pk + 2) Tk Vk ∧ CodeV m v p e T1 V1 ∧ CodeMs m ms e hi T2 V2
end

/-- root `v` at `[p, e)`: `r` word, gaps, the value, closing `r` word -/
def CodeRoot (m : Bytes) (v : JVal) (p e : Nat) (T : List UInt8) (V : List UInt64) : Prop :=
  p + 2 ≤ e ∧ ∃ T' V', T = tagRoot :: (T' ++ [tagRoot]) ∧
    V = (UInt64.ofNat e - UInt64.ofNat p) :: (V' ++ [UInt64.ofNat p - UInt64.ofNat (e - 1)]) ∧
    CodeEs m (.cons v .nil) (p + 1) (e - 1) T' V'

def CodeRoots (m : Bytes) (n : Nat) : List JVal → Nat → List UInt8 → List UInt64 → Prop
  | [], p, T, V => p ≤ n ∧ T = nops (n - p) ∧ V = []
  | v :: vs, p, T, V => ∃ q e T1 V1 T2 V2, p ≤ q ∧ T = nops (q - p) ++ T1 ++ T2 ∧ V = V1 ++ V2 ∧
      CodeRoot m v q e T1 V1 ∧ CodeRoots m n vs e T2 V2

-- serLoop single steps

theorem word_lt {pj : PJ} {p : Nat} {w : UInt64} (h : word pj p = some w) : p < pj.tape.size := by
  simp only [word] at h
  exact (Array.getElem?_eq_some_iff.mp h).1

theorem rd_word {pj : PJ} {p : Nat} {w : UInt64} (h : word pj p = some w) : rd pj.tape p = .ok w := by
  simp only [word] at h
  simp only [rd, h]

/-- `serLoop` started in state `s` at position `p` reaches state `s'` at position `e` after `T.length`
    iterations, having appended the tags `T` and the value words `V`; the string buffer only grew. -/
structure SerRun (pj : PJ) (hash : Bytes → Nat) (s : SerState) (p : Nat) (s' : SerState) (e : Nat)
    (T : List UInt8) (V : List UInt64) : Prop where
  run : ∀ fuel, serLoop pj hash s p (T.length + fuel) = serLoop pj hash s' e fuel
  tags : s'.tags.toList = s.tags.toList ++ T
  vals : s'.values.toList = s.values.toList ++ bytesOf V
  ext : Ext s.stringBuf s'.stringBuf
  len : p + T.length ≤ e

theorem SerRun.refl (pj : PJ) (hash : Bytes → Nat) (s : SerState) (p : Nat) : SerRun pj hash s p s p [] [] :=
  ⟨fun fuel => by simp, by simp, by simp [bytesOf], Ext.refl _, by simp⟩

theorem SerRun.trans {pj : PJ} {hash : Bytes → Nat} {s s1 s2 : SerState} {p e1 e2 : Nat} {T1 T2 : List UInt8}
    {V1 V2 : List UInt64} (h1 : SerRun pj hash s p s1 e1 T1 V1) (h2 : SerRun pj hash s1 e1 s2 e2 T2 V2) :
    SerRun pj hash s p s2 e2 (T1 ++ T2) (V1 ++ V2) := by
  refine ⟨fun fuel => ?_, ?_, ?_, h1.ext.trans h2.ext, ?_⟩
  · rw [List.length_append, Nat.add_assoc, h1.run, h2.run]
  · rw [h2.tags, h1.tags, List.append_assoc]
  · rw [h2.vals, h1.vals, bytesOf_append, List.append_assoc]
  · have := h1.len; have := h2.len; rw [List.length_append]; omega

theorem ser_plain (pj : PJ) (hash : Bytes → Nat) (s : SerState) (p : Nat) (w : UInt64) (t : UInt8)
    (hw : word pj p = some w) (ht : tagOf w = t)
    (hc : t = tagNop ∨ t = tagNull ∨ t = tagBoolTrue ∨ t = tagBoolFalse ∨ t = tagObjectEnd ∨ t = tagArrayEnd) :
    SerRun pj hash s p { s with tags := s.tags.push t } (p + 1) [t] [] := by
  have hlt := word_lt hw
  refine ⟨fun fuel => ?_, by simp, by simp [bytesOf], Ext.refl _, by simp⟩
  rw [List.length_singleton, Nat.add_comm, serLoop]
  rcases hc with h | h | h | h | h | h <;> subst h <;>
    simp (decide := true) only [rd_word hw, Res.bind_ok, ht, Nat.not_le.mpr hlt, if_false, if_true]

theorem pushVal_tags (s : SerState) (w : UInt64) : (pushVal s w).tags = s.tags := rfl
theorem pushVal_buf (s : SerState) (w : UInt64) : (pushVal s w).stringBuf = s.stringBuf := rfl
theorem pushVal_vals (s : SerState) (w : UInt64) : (pushVal s w).values.toList = s.values.toList ++ le64Bytes w := by
  simp [pushVal]

theorem bytesOf_one (w : UInt64) : bytesOf [w] = le64Bytes w := by simp [bytesOf]
theorem bytesOf_two (w v : UInt64) : bytesOf [w, v] = le64Bytes w ++ le64Bytes v := by simp [bytesOf]

theorem ser_num (pj : PJ) (hash : Bytes → Nat) (s : SerState) (p : Nat) (w v : UInt64) (t : UInt8)
    (hw : word pj p = some w) (hv : word pj (p + 1) = some v) (ht : tagOf w = t)
    (hc : t = tagUint ∨ t = tagInteger) :
    SerRun pj hash s p { (pushVal s v) with tags := s.tags.push t } (p + 2) [t] [v] := by
  have hlt := word_lt hw
  refine ⟨fun fuel => ?_, by simp [pushVal_tags], by simp [pushVal_vals, bytesOf_one], by simp only [pushVal_buf]; exact Ext.refl _, by simp⟩
  rw [List.length_singleton, Nat.add_comm, serLoop]
  rcases hc with h | h <;> subst h <;>
    simp (decide := true) only [rd_word hw, rd_word hv, Res.bind_ok, ht, Nat.not_le.mpr hlt, if_false, if_true, pushVal_tags]

theorem ser_float0 (pj : PJ) (hash : Bytes → Nat) (s : SerState) (p : Nat) (w v : UInt64)
    (hw : word pj p = some w) (hv : word pj (p + 1) = some v) (ht : tagOf w = tagFloat) (hf : payloadOf w = 0) :
    SerRun pj hash s p { (pushVal s v) with tags := s.tags.push tagFloat } (p + 2) [tagFloat] [v] := by
  have hlt := word_lt hw
  refine ⟨fun fuel => ?_, by simp [pushVal_tags], by simp [pushVal_vals, bytesOf_one], by simp only [pushVal_buf]; exact Ext.refl _, by simp⟩
  rw [List.length_singleton, Nat.add_comm, serLoop]
  simp (decide := true) only [rd_word hw, rd_word hv, Res.bind_ok, ht, hf, Nat.not_le.mpr hlt, if_false, if_true, pushVal_tags]

theorem ser_floatf (pj : PJ) (hash : Bytes → Nat) (s : SerState) (p : Nat) (w v : UInt64)
    (hw : word pj p = some w) (hv : word pj (p + 1) = some v) (ht : tagOf w = tagFloat) (hf : payloadOf w ≠ 0) :
    SerRun pj hash s p { (pushVal (pushVal s w) v) with tags := s.tags.push tagFloatWithFlag } (p + 2)
      [tagFloatWithFlag] [w, v] := by
  have hlt := word_lt hw
  refine ⟨fun fuel => ?_, by simp [pushVal_tags], by simp [pushVal_vals, bytesOf_two], by simp only [pushVal_buf]; exact Ext.refl _, by simp⟩
  rw [List.length_singleton, Nat.add_comm, serLoop]
  have hf' : (payloadOf w == 0) = false := by simpa using hf
  simp (decide := true) only [rd_word hw, rd_word hv, Res.bind_ok, ht, hf', Nat.not_le.mpr hlt, if_false, if_true, pushVal_tags]

theorem ser_open (pj : PJ) (hash : Bytes → Nat) (s : SerState) (p : Nat) (w : UInt64) (t : UInt8)
    (hw : word pj p = some w) (ht : tagOf w = t)
    (hc : t = tagObjectStart ∨ t = tagArrayStart ∨ t = tagRoot) :
    SerRun pj hash s p { (pushVal s (payloadOf w - UInt64.ofNat p)) with tags := s.tags.push t } (p + 1) [t]
      [payloadOf w - UInt64.ofNat p] := by
  have hlt := word_lt hw
  refine ⟨fun fuel => ?_, by simp [pushVal_tags], by simp [pushVal_vals, bytesOf_one], by simp only [pushVal_buf]; exact Ext.refl _, by simp⟩
  rw [List.length_singleton, Nat.add_comm, serLoop]
  rcases hc with h | h | h <;> subst h <;>
    simp (decide := true) only [rd_word hw, Res.bind_ok, ht, Nat.not_le.mpr hlt, if_false, if_true, pushVal_tags]

theorem ser_str (pj : PJ) (hash : Bytes → Nat) (s : SerState) (p : Nat) (w len : UInt64) (sb : Bytes)
    (hw : word pj p = some w) (hv : word pj (p + 1) = some len) (ht : tagOf w = tagString)
    (hs : stringByteAt pj (payloadOf w) len = .ok sb) :
    ∃ s' o, SerRun pj hash s p s' (p + 2) [tagString] [UInt64.ofNat o, UInt64.ofNat sb.size] ∧
      o + sb.size ≤ s'.stringBuf.size ∧ s'.stringBuf.extract o (o + sb.size) = sb ∧
      s'.stringBuf.size ≤ s.stringBuf.size + sb.size := by
  have hlt := word_lt hw
  cases hi : indexString hash s sb with
  | mk s1 o64 =>
    obtain ⟨h1, h2, h3, h4, o, h5, h6, h7⟩ := indexString_sound hash s s1 sb o64 hi
    refine ⟨{ (pushVal (pushVal s1 o64) (UInt64.ofNat sb.size)) with tags := s1.tags.push tagString }, o,
      ⟨fun fuel => ?_, ?_, ?_, by simp only [pushVal_buf]; exact h3, by simp⟩, by simp only [pushVal_buf]; exact h6, by simp only [pushVal_buf]; exact h7,
      by simp only [pushVal_buf]; exact h4⟩
    · rw [List.length_singleton, Nat.add_comm, serLoop]
      simp (decide := true) only [rd_word hw, rd_word hv, Res.bind_ok, ht, hs, hi, Nat.not_le.mpr hlt, if_false, if_true, pushVal_tags]
    · simp [h1]
    · simp [pushVal_vals, bytesOf_two, h2, h5]

-- 4. phase 1: serLoop emits a coded stream ------------------------------------------------------------------------

/-- from every state at `p`, `serLoop` reaches `e` and the emitted streams satisfy `C` for every final buffer -/
def SerSeg (pj : PJ) (hash : Bytes → Nat) (p e : Nat) (C : Bytes → List UInt8 → List UInt64 → Prop) : Prop :=
  ∀ s, ∃ T V s', SerRun pj hash s p s' e T V ∧ ∀ m, Ext s'.stringBuf m → m.size < 2^55 → C m T V

theorem SerSeg.mono {pj : PJ} {hash : Bytes → Nat} {p e : Nat} {C D : Bytes → List UInt8 → List UInt64 → Prop}
    (h : SerSeg pj hash p e C) (hi : ∀ m T V, C m T V → D m T V) : SerSeg pj hash p e D := by
  intro s
  obtain ⟨T, V, s', h1, h2⟩ := h s
  exact ⟨T, V, s', h1, fun m a b => hi _ _ _ (h2 m a b)⟩

/-- sequential composition of two segments -/
theorem SerSeg.seq {pj : PJ} {hash : Bytes → Nat} {p e1 e2 : Nat} {C1 C2 : Bytes → List UInt8 → List UInt64 → Prop}
    (h1 : SerSeg pj hash p e1 C1) (h2 : SerSeg pj hash e1 e2 C2) :
    SerSeg pj hash p e2 (fun m T V => ∃ T1 V1 T2 V2, T = T1 ++ T2 ∧ V = V1 ++ V2 ∧ C1 m T1 V1 ∧ C2 m T2 V2) := by
  intro s
  obtain ⟨T1, V1, s1, r1, c1⟩ := h1 s
  obtain ⟨T2, V2, s2, r2, c2⟩ := h2 s1
  exact ⟨T1 ++ T2, V1 ++ V2, s2, r1.trans r2, fun m a b => ⟨T1, V1, T2, V2, rfl, rfl, c1 m (r2.ext.trans a) b, c2 m a b⟩⟩

theorem ser_gap (pj : PJ) (hash : Bytes → Nat) : ∀ (n p q : Nat), q - p = n → Gap pj p q →
    SerSeg pj hash p q (fun _ T V => T = nops (q - p) ∧ V = []) := by
  intro n
  induction n with
  | zero =>
    intro p q hn hg s
    have : p = q := by have := hg.1; omega
    subst this
    exact ⟨[], [], s, SerRun.refl .., fun m _ _ => ⟨by simp, rfl⟩⟩
  | succ n ih =>
    intro p q hn hg s
    obtain ⟨w, hw, ht, h1, h2⟩ := hg.2 p (Nat.le_refl _) (by omega)
    have hg' : Gap pj (p + 1) q := ⟨by omega, fun k a b => hg.2 k (by omega) b⟩
    obtain ⟨s1, r1⟩ : ∃ s1, SerRun pj hash s p s1 (p + 1) [tagNop] [] := ⟨_, ser_plain pj hash s p w tagNop hw ht (Or.inl rfl)⟩
    obtain ⟨T, V, s', r2, c2⟩ := ih (p + 1) q (by omega) hg' s1
    refine ⟨[tagNop] ++ T, [] ++ V, s', r1.trans r2, fun m a b => ?_⟩
    obtain ⟨e1, e2⟩ := c2 m a b
    subst e1 e2
    refine ⟨?_, rfl⟩
    have : q - p = (q - (p + 1)) + 1 := by omega
    rw [this]
    simp [nops, List.replicate_succ]

theorem ser_strAt (pj : PJ) (hash : Bytes → Nat) (k : List UInt8) (p : Nat) (h : StrAt pj k p) :
    SerSeg pj hash p (p + 2) (fun m T V => CodeStr m k p (p + 2) T V) := by
  intro s
  obtain ⟨w, len, hw, hl, ht, hs⟩ := h
  obtain ⟨s', o, r, h1, h2, _⟩ := ser_str pj hash s p w len k.toArray hw hl ht hs
  refine ⟨_, _, s', r, fun m a b => ⟨rfl, rfl, o, ?_, ?_, ?_⟩⟩
  · simp
  · have := a.size_le; simp at h1; omega
  · have h3 := a.extract o (o + k.length) (by simpa using h1)
    rw [h3]
    simpa using h2

theorem ofNat_of_toNat {x : UInt64} {n : Nat} (h : x.toNat = n) : x = UInt64.ofNat n := by
  rw [← h, UInt64.ofNat_toNat]

/-- an array or object: start word, inner segment, end word -/
theorem ser_container (pj : PJ) (hash : Bytes → Nat) (p e : Nat) (t c : UInt8) (w cw : UInt64)
    (C : Bytes → List UInt8 → List UInt64 → Prop)
    (hw : word pj p = some w) (ht : tagOf w = t) (hp : (payloadOf w).toNat = e)
    (hcw : word pj (e - 1) = some cw) (hc : tagOf cw = c) (hpe : p + 2 ≤ e)
    (htc : t = tagObjectStart ∧ c = tagObjectEnd ∨ t = tagArrayStart ∧ c = tagArrayEnd)
    (inner : SerSeg pj hash (p + 1) (e - 1) C) :
    SerSeg pj hash p e (fun m T V => ∃ T' V', T = t :: (T' ++ [c]) ∧ V = (UInt64.ofNat e - UInt64.ofNat p) :: V' ∧ C m T' V') := by
  intro s
  obtain ⟨s1, r1⟩ : ∃ s1, SerRun pj hash s p s1 (p + 1) [t] [payloadOf w - UInt64.ofNat p] :=
    ⟨_, ser_open pj hash s p w t hw ht (by rcases htc with ⟨h, _⟩ | ⟨h, _⟩ <;> simp [h])⟩
  obtain ⟨T', V', s2, r2, c2⟩ := inner s1
  obtain ⟨s3, r3⟩ : ∃ s3, SerRun pj hash s2 (e - 1) s3 (e - 1 + 1) [c] [] :=
    ⟨_, ser_plain pj hash s2 (e - 1) cw c hcw hc (by rcases htc with ⟨_, h⟩ | ⟨_, h⟩ <;> simp [h])⟩
  have he : e - 1 + 1 = e := by omega
  rw [he] at r3
  refine ⟨_, _, _, (r1.trans r2).trans r3, fun m a b => ⟨T', V', by simp, ?_, c2 m (r3.ext.trans a) b⟩⟩
  rw [ofNat_of_toNat hp]
  simp

/-- a root: `r` word, inner segment, closing `r` word (which has a value word of its own) -/
theorem ser_root (pj : PJ) (hash : Bytes → Nat) (p e : Nat) (w cw : UInt64)
    (C : Bytes → List UInt8 → List UInt64 → Prop)
    (hw : word pj p = some w) (ht : tagOf w = tagRoot) (hp : (payloadOf w).toNat = e)
    (hcw : word pj (e - 1) = some cw) (hc : tagOf cw = tagRoot) (hcp : (payloadOf cw).toNat = p) (hpe : p + 2 ≤ e)
    (inner : SerSeg pj hash (p + 1) (e - 1) C) :
    SerSeg pj hash p e (fun m T V => ∃ T' V', T = tagRoot :: (T' ++ [tagRoot]) ∧
      V = (UInt64.ofNat e - UInt64.ofNat p) :: (V' ++ [UInt64.ofNat p - UInt64.ofNat (e - 1)]) ∧ C m T' V') := by
  intro s
  obtain ⟨s1, r1⟩ : ∃ s1, SerRun pj hash s p s1 (p + 1) [tagRoot] [payloadOf w - UInt64.ofNat p] :=
    ⟨_, ser_open pj hash s p w tagRoot hw ht (by simp)⟩
  obtain ⟨T', V', s2, r2, c2⟩ := inner s1
  obtain ⟨s3, r3⟩ : ∃ s3, SerRun pj hash s2 (e - 1) s3 (e - 1 + 1) [tagRoot] [payloadOf cw - UInt64.ofNat (e - 1)] :=
    ⟨_, ser_open pj hash s2 (e - 1) cw tagRoot hcw hc (by simp)⟩
  have he : e - 1 + 1 = e := by omega
  rw [he] at r3
  refine ⟨_, _, _, (r1.trans r2).trans r3, fun m a b => ⟨T', V', by simp, ?_, c2 m (r3.ext.trans a) b⟩⟩
  rw [ofNat_of_toNat hp, ofNat_of_toNat hcp]
  simp


theorem ser_one {pj : PJ} {hash : Bytes → Nat} {p e : Nat} {T : List UInt8} {V : List UInt64}
    {C : Bytes → List UInt8 → List UInt64 → Prop}
    (h : ∀ s, ∃ s', SerRun pj hash s p s' e T V) (hc : ∀ m, C m T V) : SerSeg pj hash p e C := by
  intro s
  obtain ⟨s', r⟩ := h s
  exact ⟨T, V, s', r, fun m _ _ => hc m⟩

mutual
theorem ser_val (pj : PJ) (hash : Bytes → Nat) : ∀ (v : JVal) (p e : Nat), ValAt pj v p e →
    SerSeg pj hash p e (fun m T V => CodeV m v p e T V)
  | .null, p, e, h => by
    simp only [ValAt] at h
    obtain ⟨rfl, w, hw, ht⟩ := h
    exact ser_one (fun s => ⟨_, ser_plain pj hash s p w tagNull hw ht (by simp)⟩) (fun m => by simp [CodeV])
  | .bool b, p, e, h => by
    simp only [ValAt] at h
    obtain ⟨rfl, w, hw, ht⟩ := h
    refine ser_one (fun s => ⟨_, ser_plain pj hash s p w _ hw ht ?_⟩) (fun m => by simp [CodeV])
    cases b <;> simp
  | .int v, p, e, h => by
    simp only [ValAt] at h
    obtain ⟨rfl, w, hw, ht, hv⟩ := h
    exact ser_one (fun s => ⟨_, ser_num pj hash s p w v tagInteger hw hv ht (by simp)⟩) (fun m => by simp [CodeV])
  | .uint v, p, e, h => by
    simp only [ValAt] at h
    obtain ⟨rfl, w, hw, ht, hv⟩ := h
    exact ser_one (fun s => ⟨_, ser_num pj hash s p w v tagUint hw hv ht (by simp)⟩) (fun m => by simp [CodeV])
  | .float b f, p, e, h => by
    simp only [ValAt] at h
    obtain ⟨rfl, w, hw, ht, hf, hv⟩ := h
    by_cases hz : f = 0
    · subst hz
      exact ser_one (fun s => ⟨_, ser_float0 pj hash s p w b hw hv ht hf⟩) (fun m => by simp [CodeV])
    · refine ser_one (fun s => ⟨_, ser_floatf pj hash s p w b hw hv ht (by rw [hf]; exact hz)⟩) (fun m => ?_)
      simp only [CodeV]
      exact ⟨trivial, Or.inr ⟨w, ht, hf, trivial, rfl⟩⟩
  | .str k, p, e, h => by
    simp only [ValAt] at h
    obtain ⟨rfl, hs⟩ := h
    exact (ser_strAt pj hash k p hs).mono (fun m T V c => by simpa only [CodeV] using c)
  | .arr es, p, e, h => by
    simp only [ValAt] at h
    obtain ⟨h1, ⟨w, h2, h3, h4⟩, ⟨c, h5, h6, h7⟩, h8⟩ := h
    refine (ser_container pj hash p e _ _ w c _ h2 h3 h4 h5 h6 h1 (Or.inr ⟨rfl, rfl⟩)
      (ser_elems pj hash es (p + 1) (e - 1) h8)).mono (fun m T V c => ?_)
    simp only [CodeV]
    exact ⟨h1, c⟩
  | .obj ms, p, e, h => by
    simp only [ValAt] at h
    obtain ⟨h1, ⟨w, h2, h3, h4⟩, ⟨c, h5, h6, h7⟩, h8⟩ := h
    refine (ser_container pj hash p e _ _ w c _ h2 h3 h4 h5 h6 h1 (Or.inl ⟨rfl, rfl⟩)
      (ser_mems pj hash ms (p + 1) (e - 1) h8)).mono (fun m T V c => ?_)
    simp only [CodeV]
    exact ⟨h1, c⟩
theorem ser_elems (pj : PJ) (hash : Bytes → Nat) : ∀ (vs : JVals) (lo hi : Nat), ElemsAt pj vs lo hi →
    SerSeg pj hash lo hi (fun m T V => CodeEs m vs lo hi T V)
  | .nil, lo, hi, h => by
    simp only [ElemsAt] at h
    refine (ser_gap pj hash _ lo hi rfl h).mono (fun m T V c => ?_)
    simp only [CodeEs]
    exact ⟨h.1, c.1, c.2⟩
  | .cons v vs, lo, hi, h => by
    simp only [ElemsAt] at h
    obtain ⟨p, e, g, hv, he, rest⟩ := h
    refine (((ser_gap pj hash _ lo p rfl g).seq (ser_val pj hash v p e hv)).seq
      (ser_elems pj hash vs e hi rest)).mono (fun m T V c => ?_)
    obtain ⟨Ta, Va, T2, V2, rfl, rfl, ⟨Tg, Vg, T1, V1, rfl, rfl, ⟨rfl, rfl⟩, c1⟩, c2⟩ := c
    simp only [CodeEs]
    exact ⟨p, e, T1, V1, T2, V2, g.1, he, rfl, by simp, c1, c2⟩
theorem ser_mems (pj : PJ) (hash : Bytes → Nat) : ∀ (ms : JMems) (lo hi : Nat), MemsAt pj ms lo hi →
    SerSeg pj hash lo hi (fun m T V => CodeMs m ms lo hi T V)
  | .nil, lo, hi, h => by
    simp only [MemsAt] at h
    refine (ser_gap pj hash _ lo hi rfl h).mono (fun m T V c => ?_)
    simp only [CodeMs]
    exact ⟨h.1, c.1, c.2⟩
  | .cons k v ms, lo, hi, h => by
    simp only [MemsAt] at h
    obtain ⟨pk, p, e, g1, hs, g2, hv, he, rest⟩ := h
    refine (((((ser_gap pj hash _ lo pk rfl g1).seq (ser_strAt pj hash k pk hs)).seq
      (ser_gap pj hash _ (pk + 2) p rfl g2)).seq (ser_val pj hash v p e hv)).seq
      (ser_mems pj hash ms e hi rest)).mono (fun m T V c => ?_)
    obtain ⟨Ta, Va, T2, V2, rfl, rfl, ⟨Tb, Vb, T1, V1, rfl, rfl, ⟨Tc, Vc, Tg2, Vg2, rfl, rfl,
      ⟨Tg1, Vg1, Tk, Vk, rfl, rfl, ⟨rfl, rfl⟩, ck⟩, ⟨rfl, rfl⟩⟩, c1⟩, c2⟩ := c
    simp only [CodeMs]
    exact ⟨pk, p, e, Tk, Vk, T1, V1, T2, V2, g1.1, g2.1, he, rfl, by simp, ck, c1, c2⟩
end

theorem ser_rootAt (pj : PJ) (hash : Bytes → Nat) (v : JVal) (p e : Nat) (h : RootAt pj v p e) :
    SerSeg pj hash p e (fun m T V => CodeRoot m v p e T V) := by
  obtain ⟨h1, ⟨w, h2, h3, h4⟩, ⟨c, h5, h6, h7⟩, q, f, g1, hv, g2⟩ := h
  have hin : ElemsAt pj (.cons v .nil) (p + 1) (e - 1) := by
    simp only [ElemsAt]
    exact ⟨q, f, g1, hv, g2.1, g2⟩
  refine (ser_root pj hash p e w c _ h2 h3 h4 h5 h6 h7 h1 (ser_elems pj hash _ _ _ hin)).mono (fun m T V c => ?_)
  exact ⟨h1, c⟩

theorem ser_roots (pj : PJ) (hash : Bytes → Nat) : ∀ (d : List JVal) (p : Nat), RootsAt pj d p →
    SerSeg pj hash p pj.tape.size (fun m T V => CodeRoots m pj.tape.size d p T V)
  | [], p, h => by
    simp only [RootsAt] at h
    refine (ser_gap pj hash _ p _ rfl h).mono (fun m T V c => ?_)
    simp only [CodeRoots]
    exact ⟨h.1, c.1, c.2⟩
  | v :: vs, p, h => by
    simp only [RootsAt] at h
    obtain ⟨q, e, g, hr, rest⟩ := h
    refine (((ser_gap pj hash _ p q rfl g).seq (ser_rootAt pj hash v q e hr)).seq
      (ser_roots pj hash vs e rest)).mono (fun m T V c => ?_)
    obtain ⟨Ta, Va, T2, V2, rfl, rfl, ⟨Tg, Vg, T1, V1, rfl, rfl, ⟨rfl, rfl⟩, c1⟩, c2⟩ := c
    simp only [CodeRoots]
    exact ⟨q, e, T1, V1, T2, V2, g.1, rfl, by simp, c1, c2⟩

/-- **Phase 1.** On a well-formed tape `serialize` succeeds; its streams code the document w.r.t. its own message
    buffer (provided that buffer stays below 2^55 bytes). -/
theorem serialize_coded (pj : PJ) (d : List JVal) (hash : Bytes → Nat) (hwf : WF pj d) :
    ∃ sec T V, serialize pj hash = .ok sec ∧ sec.tapeSize = pj.tape.size ∧ sec.strings = #[] ∧
      sec.tags.toList = T ∧ sec.values.toList = bytesOf V ∧
      (sec.msg.size < 2^55 → CodeRoots sec.msg pj.tape.size d 0 T V) := by
  obtain ⟨T, V, s', r, c⟩ := ser_roots pj hash d 0 hwf {}
  have hlen := r.len
  have hrun := r.run (pj.tape.size + 1 - T.length)
  have e1 : T.length + (pj.tape.size + 1 - T.length) = pj.tape.size + 1 := by omega
  obtain ⟨k, hk⟩ : ∃ k, pj.tape.size + 1 - T.length = k + 1 := ⟨pj.tape.size - T.length, by omega⟩
  rw [e1, hk] at hrun
  have hfin : serLoop pj hash s' pj.tape.size (k + 1) = .ok s' := by
    rw [serLoop]; simp
  refine ⟨{ tapeSize := pj.tape.size, strings := #[], msg := s'.stringBuf, tags := s'.tags, values := s'.values }, T, V,
    ?_, rfl, rfl, ?_, ?_, fun hm => c _ (Ext.refl _) hm⟩
  · unfold serialize
    rw [hrun, hfin]
    rfl
  · have := r.tags; simpa using this
  · have := r.vals; simpa using this

-- 5. phase 2: rebLoop on a coded stream ---------------------------------------------------------------------------

/-- the NOP word with skip count `n` -/
abbrev nopW (n : Nat) : UInt64 := mkWord tagNop (UInt64.ofNat n)

theorem flushSkips_spec (n : Nat) : ∀ (k : Nat) (tape : Array UInt64) (off : Nat), off + k ≤ tape.size →
    ∃ tp, flushSkips tape off n k = .ok (tp, off + k) ∧ tp.size = tape.size ∧
      (∀ j, off ≤ j → j < off + k → tp[j]? = some (nopW (off + k - j))) ∧
      (∀ j, j < off ∨ off + k ≤ j → tp[j]? = tape[j]?) := by
  intro k
  induction k with
  | zero =>
    intro tape off h
    exact ⟨tape, rfl, rfl, fun j a b => by omega, fun j _ => rfl⟩
  | succ k ih =>
    intro tape off h
    have hlt : off < tape.size := by omega
    obtain ⟨tp, h1, h2, h3, h4⟩ := ih (tape.set off (mkWord tagNop (UInt64.ofNat (k + 1))) hlt) (off + 1)
      (by simp only [Array.size_set]; omega)
    refine ⟨tp, ?_, by simpa only [Array.size_set] using h2, ?_, ?_⟩
    · simp only [flushSkips, wr_ok _ _ _ hlt, Res.bind_ok, h1]
      congr 2; omega
    · intro j a b
      by_cases hj : j = off
      · subst hj
        rw [h4 j (Or.inl (by omega)), Array.getElem?_set]
        simp only [if_true]
        congr 3; omega
      · rw [h3 j (by omega) (by omega)]
        congr 3; omega
    · intro j hj
      rw [h4 j (by omega), Array.getElem?_set, if_neg (by omega)]

/-- effect of the "we owe skips" phase: `[r.off, r.off + r.nSkips)` is filled with NOP words that skip to its end -/
structure Flushed (r r1 : RebState) : Prop where
  off : r1.off = r.off + r.nSkips
  skips : r1.nSkips = 0
  vpos : r1.vpos = r.vpos
  size : r1.tape.size = r.tape.size
  fill : ∀ k, r.off ≤ k → k < r1.off → r1.tape[k]? = some (nopW (r1.off - k))
  frame : ∀ k, k < r.off ∨ r1.off ≤ k → r1.tape[k]? = r.tape[k]?

theorem flush_step (vals : Bytes) (r : RebState) (t : UInt8)
    (ht : inCase (caseOfSw swDeserialize 1 0) t = false) (h : r.off + r.nSkips < r.tape.size) :
    ∃ r1, Flushed r r1 ∧ rebStep vals r t = dispatch vals t r1 := by
  rw [rebStep_eq]
  have hne : (r.off == r.tape.size) = false := by simp; omega
  rw [hne]
  simp only [Bool.false_eq_true, if_false]
  unfold flushPhase
  by_cases hk : r.nSkips > 0
  · have c1 : r.nSkips > 0 ∧ (!(inCase (caseOfSw swDeserialize 1 0) t)) = true := ⟨hk, by simp [ht]⟩
    rw [if_pos c1, if_neg (by omega)]
    obtain ⟨tp, h1, h2, h3, h4⟩ := flushSkips_spec r.nSkips r.nSkips r.tape r.off (by omega)
    rw [h1]
    exact ⟨{ r with tape := tp, off := r.off + r.nSkips, nSkips := 0 }, ⟨rfl, rfl, rfl, h2, h3, h4⟩, rfl⟩
  · rw [if_neg (fun c => hk c.1)]
    have h0 : r.nSkips = 0 := by omega
    exact ⟨r, ⟨by omega, h0, rfl, rfl, fun k a b => by omega, fun k _ => rfl⟩, rfl⟩

theorem rebStep_nop (vals : Bytes) (r : RebState) (h : r.off < r.tape.size) :
    rebStep vals r tagNop = .ok { r with nSkips := r.nSkips + 1 } := by
  rw [rebStep_eq]
  have hne : (r.off == r.tape.size) = false := by simp; omega
  rw [hne]
  simp (decide := true) only [flushPhase, dispatch, Bool.false_eq_true, if_false, and_false, false_and, Res.bind_ok, if_true,
    Bool.not_true]

theorem rebLoop_append (vals : Bytes) (A B : List UInt8) : ∀ r, 
    rebLoop vals r (A ++ B) = rebLoop vals r A >>= fun r' => rebLoop vals r' B := by
  induction A with
  | nil => intro r; rfl
  | cons a A ih =>
    intro r
    simp only [List.cons_append, rebLoop]
    cases rebStep vals r a with
    | ok s => simp only [Res.bind_ok, ih]
    | error e => rfl
    | panic => rfl
    | diverge => rfl

theorem rebLoop_single (vals : Bytes) (r : RebState) (t : UInt8) : rebLoop vals r [t] = rebStep vals r t := by
  simp only [rebLoop]
  cases rebStep vals r t <;> rfl

theorem rebLoop_nops (vals : Bytes) : ∀ (n : Nat) (r : RebState), r.off + r.nSkips + n ≤ r.tape.size →
    rebLoop vals r (nops n) = .ok { r with nSkips := r.nSkips + n } := by
  intro n
  induction n with
  | zero => intro r _; rfl
  | succ n ih =>
    intro r h
    show rebLoop vals r (tagNop :: nops n) = _
    simp only [rebLoop]
    rw [rebStep_nop vals r (by omega), Res.bind_ok, ih _ (by show r.off + (r.nSkips + 1) + n ≤ r.tape.size; omega)]
    congr 2
    show r.nSkips + 1 + n = r.nSkips + (n + 1)
    omega

/-- bookkeeping part of one dispatch: `n` tape words and `nv` value words consumed -/
structure Adv (r r' : RebState) (n nv : Nat) : Prop where
  off : r'.off = r.off + n
  skips : r'.nSkips = r.nSkips
  vpos : r'.vpos = r.vpos + 8 * nv
  size : r'.tape.size = r.tape.size

theorem dispatch_atom (vals : Bytes) (r : RebState) (t : UInt8)
    (hc : t = tagNull ∨ t = tagBoolTrue ∨ t = tagBoolFalse) (h : r.off < r.tape.size) :
    ∃ r', dispatch vals t r = .ok r' ∧ Adv r r' 1 0 ∧
      ∀ k, r'.tape[k]? = if r.off = k then some (mkWord t 0) else r.tape[k]? := by
  rcases hc with rfl | rfl | rfl <;>
  · unfold dispatch
    simp (decide := true) only [wr_ok _ _ _ h, Res.bind_ok, if_false, if_true, false_and]
    exact ⟨_, rfl, ⟨rfl, rfl, rfl, by simp⟩, fun k => by simp only [Array.getElem?_set, mkWord_zero]⟩

theorem dispatch_num (vals : Bytes) (r : RebState) (t : UInt8)
    (hc : t = tagFloat ∨ t = tagInteger ∨ t = tagUint) (h : r.off + 1 < r.tape.size) (hv : r.vpos + 8 ≤ vals.size) :
    ∃ r', dispatch vals t r = .ok r' ∧ Adv r r' 2 1 ∧
      ∀ k, r'.tape[k]? = if r.off + 1 = k then some (rdLE64 vals r.vpos) else if r.off = k then some (mkWord t 0)
        else r.tape[k]? := by
  have h0 : r.off < r.tape.size := by omega
  have hg : ¬ (r.off + 1 ≥ r.tape.size) := by omega
  have hl : ¬ (vals.size - r.vpos < 8) := by omega
  rcases hc with rfl | rfl | rfl <;>
  · unfold dispatch
    simp (decide := true) only [hg, hl, wr_ok _ _ _ h0, Res.bind_ok, if_false, if_true, false_and, and_false]
    rw [wr_ok _ _ _ (by simp only [Array.size_set]; exact h)]
    exact ⟨_, rfl, ⟨rfl, rfl, rfl, by simp⟩, fun k => by simp only [Array.getElem?_set, mkWord_zero]⟩


theorem dispatch_str (vals : Bytes) (r : RebState)
    (h : r.off + 1 < r.tape.size) (hv : r.vpos + 16 ≤ vals.size) :
    ∃ r', dispatch vals tagString r = .ok r' ∧ Adv r r' 2 2 ∧
      ∀ k, r'.tape[k]? = if r.off + 1 = k then some (rdLE64 vals (r.vpos + 8))
        else if r.off = k then some (mkWord tagString (rdLE64 vals r.vpos)) else r.tape[k]? := by
  have h0 : r.off < r.tape.size := by omega
  have hg : ¬ (r.off + 1 ≥ r.tape.size) := by omega
  have hl : ¬ (vals.size - r.vpos < 16) := by omega
  unfold dispatch
  simp (decide := true) only [hg, hl, wr_ok _ _ _ h0, Res.bind_ok, if_false, if_true, false_and, and_false]
  rw [wr_ok _ _ _ (by simp only [Array.size_set]; exact h)]
  exact ⟨_, rfl, ⟨rfl, rfl, rfl, by simp⟩, fun k => by simp only [Array.getElem?_set, mkWord]⟩

theorem dispatch_fflag (vals : Bytes) (r : RebState)
    (h : r.off + 1 < r.tape.size) (hv : r.vpos + 16 ≤ vals.size) :
    ∃ r', dispatch vals tagFloatWithFlag r = .ok r' ∧ Adv r r' 2 2 ∧
      ∀ k, r'.tape[k]? = if r.off + 1 = k then some (rdLE64 vals (r.vpos + 8))
        else if r.off = k then some (rdLE64 vals r.vpos) else r.tape[k]? := by
  have h0 : r.off < r.tape.size := by omega
  have hg : ¬ (r.off + 1 ≥ r.tape.size) := by omega
  have hl : ¬ (vals.size - r.vpos < 16) := by omega
  unfold dispatch
  simp (decide := true) only [hg, hl, wr_ok _ _ _ h0, Res.bind_ok, if_false, if_true, false_and, and_false]
  rw [wr_ok _ _ _ (by simp only [Array.size_set]; exact h)]
  exact ⟨_, rfl, ⟨rfl, rfl, rfl, by simp⟩, fun k => by simp only [Array.getElem?_set]⟩

theorem openToClose_obj : openToClose tagObjectStart = tagObjectEnd := by
  rw [Tables.openToClose_spec]; decide
theorem openToClose_arr : openToClose tagArrayStart = tagArrayEnd := by
  rw [Tables.openToClose_spec]; decide

theorem dispatch_open (vals : Bytes) (r : RebState) (t c : UInt8) (e : Nat)
    (hc : t = tagObjectStart ∧ c = tagObjectEnd ∨ t = tagArrayStart ∧ c = tagArrayEnd)
    (hv : r.vpos + 8 ≤ vals.size) (hval : rdLE64 vals r.vpos + UInt64.ofNat r.off = UInt64.ofNat e)
    (he : e ≤ r.tape.size) (he2 : r.off + 2 ≤ e) (hs : r.tape.size < 2^64) :
    ∃ r', dispatch vals t r = .ok r' ∧ Adv r r' 1 1 ∧
      ∀ k, r'.tape[k]? = if e - 1 = k then some (mkWord c (UInt64.ofNat r.off))
        else if r.off = k then some (mkWord t (UInt64.ofNat e)) else r.tape[k]? := by
  have h0 : r.off < r.tape.size := by omega
  have hl : ¬ (vals.size - r.vpos < 8) := by omega
  have hen : (UInt64.ofNat e).toNat = e := toNat_ofNat_lt (by omega)
  have hcond : ¬ ((UInt64.ofNat e).toNat > r.tape.size ∨ (UInt64.ofNat e).toNat < r.off + 2) := by rw [hen]; omega
  rcases hc with ⟨rfl, rfl⟩ | ⟨rfl, rfl⟩ <;>
  · unfold dispatch
    simp (decide := true) only [hl, if_false, if_true, false_and, and_false]
    simp only [hval, hcond, wr_ok _ _ _ h0, Res.bind_ok, if_false, openToClose_obj, openToClose_arr]
    rw [wr_ok _ _ _ (by simp only [Array.size_set, hen]; omega)]
    refine ⟨_, rfl, ⟨rfl, rfl, rfl, by simp⟩, fun k => ?_⟩
    simp only [Array.getElem?_set, hen, mkWord]

theorem dispatch_root (vals : Bytes) (r : RebState) (e : Nat)
    (hv : r.vpos + 8 ≤ vals.size) (hval : rdLE64 vals r.vpos + UInt64.ofNat r.off = UInt64.ofNat e)
    (he : e ≤ r.tape.size) (h0 : r.off < r.tape.size) (hs : r.tape.size < 2^64) :
    ∃ r', dispatch vals tagRoot r = .ok r' ∧ Adv r r' 1 1 ∧
      ∀ k, r'.tape[k]? = if r.off = k then some (mkWord tagRoot (UInt64.ofNat e)) else r.tape[k]? := by
  have hl : ¬ (vals.size - r.vpos < 8) := by omega
  have hen : (UInt64.ofNat e).toNat = e := toNat_ofNat_lt (by omega)
  have hcond : ¬ ((UInt64.ofNat e).toNat > r.tape.size) := by rw [hen]; omega
  unfold dispatch
  simp (decide := true) only [hl, hval, hcond, wr_ok _ _ _ h0, Res.bind_ok, if_false, if_true, false_and, and_false]
  exact ⟨_, rfl, ⟨rfl, rfl, rfl, by simp⟩, fun k => by simp only [Array.getElem?_set, mkWord]⟩

theorem dispatch_close (vals : Bytes) (r : RebState) (c : UInt8) (x : UInt64)
    (hc : c = tagObjectEnd ∨ c = tagArrayEnd) (hw : r.tape[r.off]? = some (mkWord c x)) (hx : x.toNat < 2^56) :
    ∃ r', dispatch vals c r = .ok r' ∧ Adv r r' 1 0 ∧ r'.tape = r.tape := by
  have h0 : r.off < r.tape.size := (Array.getElem?_eq_some_iff.mp hw).1
  have hrd : rd r.tape r.off = .ok (mkWord c x) := by simp only [rd, hw]
  have hm := tagmask_mkWord c x hx
  rcases hc with rfl | rfl <;>
  · unfold dispatch
    simp (decide := true) only [hrd, hm, Res.bind_ok, if_false, if_true, false_and, and_false, bne_self_eq_false,
      Bool.false_eq_true]
    exact ⟨_, rfl, ⟨rfl, rfl, rfl, rfl⟩, rfl⟩

/-- effect of processing the tags of one value (or one root) that occupies `[p, e)`, from a state whose logical
    position `off + nSkips` is `p`: pending skips are flushed into `[r.off, p)`, nothing outside `[r.off, e)` changes -/
structure Post (r r' : RebState) (p e nv : Nat) : Prop where
  off : r'.off = e
  skips : r'.nSkips = 0
  vpos : r'.vpos = r.vpos + 8 * nv
  size : r'.tape.size = r.tape.size
  fill : ∀ k, r.off ≤ k → k < p → r'.tape[k]? = some (nopW (p - k))
  frame : ∀ k, k < r.off ∨ e ≤ k → r'.tape[k]? = r.tape[k]?

theorem post_of {r r1 r' : RebState} {p n nv : Nat} (hp : r.off + r.nSkips = p) (hf : Flushed r r1)
    (ha : Adv r1 r' n nv) (hfr : ∀ k, k < p ∨ p + n ≤ k → r'.tape[k]? = r1.tape[k]?) : Post r r' p (p + n) nv := by
  have h1 : r1.off = p := by rw [hf.off]; exact hp
  refine ⟨by rw [ha.off, h1], by rw [ha.skips, hf.skips], by rw [ha.vpos, hf.vpos], by rw [ha.size, hf.size], ?_, ?_⟩
  · intro k a b
    rw [hfr k (Or.inl b), hf.fill k a (by omega), h1]
  · intro k hk
    rw [hfr k (by omega), hf.frame k (by omega)]

theorem notNop_of {t : UInt8} (h : t ≠ tagNop) : inCase (caseOfSw swDeserialize 1 0) t = false := by
  rw [Facts.deserialize_cases]
  simp only [caseOfSw, inCase, List.getD_cons_succ, List.getD_cons_zero, cTagNop]
  simp only [List.contains_cons, List.contains_nil, Bool.or_false, beq_eq_false_iff_ne, ne_eq]
  intro hc
  apply h
  apply UInt8.toNat_inj.mp
  rw [hc]; rfl

theorem reb_atom (vals : Bytes) (t : UInt8) (hc : t = tagNull ∨ t = tagBoolTrue ∨ t = tagBoolFalse)
    (r : RebState) (p : Nat) (hp : r.off + r.nSkips = p) (hsz : p + 1 ≤ r.tape.size) :
    ∃ r', rebLoop vals r [t] = .ok r' ∧ Post r r' p (p + 1) 0 ∧ r'.tape[p]? = some (mkWord t 0) := by
  obtain ⟨r1, hf, e1⟩ := flush_step vals r t (notNop_of (by rcases hc with rfl | rfl | rfl <;> decide)) (by omega)
  have h1 : r1.off = p := by rw [hf.off]; exact hp
  obtain ⟨r', e2, ha, hw⟩ := dispatch_atom vals r1 t hc (by rw [hf.size, h1]; omega)
  refine ⟨r', by rw [rebLoop_single, e1, e2], post_of hp hf ha (fun k hk => ?_), ?_⟩
  · rw [hw k, h1, if_neg (by omega)]
  · rw [hw p, h1, if_pos rfl]

theorem reb_num (vals : Bytes) (t : UInt8) (hc : t = tagFloat ∨ t = tagInteger ∨ t = tagUint)
    (r : RebState) (p : Nat) (v : UInt64) (hp : r.off + r.nSkips = p) (hsz : p + 2 ≤ r.tape.size)
    (hv : ValsAt vals r.vpos [v]) :
    ∃ r', rebLoop vals r [t] = .ok r' ∧ Post r r' p (p + 2) 1 ∧ r'.tape[p]? = some (mkWord t 0) ∧
      r'.tape[p + 1]? = some v := by
  obtain ⟨r1, hf, e1⟩ := flush_step vals r t (notNop_of (by rcases hc with rfl | rfl | rfl <;> decide)) (by omega)
  have h1 : r1.off = p := by rw [hf.off]; exact hp
  obtain ⟨hv1, hv2, _⟩ := valsAt_cons hv
  obtain ⟨r', e2, ha, hw⟩ := dispatch_num vals r1 t hc (by rw [hf.size, h1]; omega) (by rw [hf.vpos]; exact hv1)
  refine ⟨r', by rw [rebLoop_single, e1, e2], post_of hp hf ha (fun k hk => ?_), ?_, ?_⟩
  · rw [hw k, h1, if_neg (by omega), if_neg (by omega)]
  · rw [hw p, h1, if_neg (by omega), if_pos rfl]
  · rw [hw (p + 1), h1, if_pos rfl, hf.vpos, hv2]

theorem reb_str (vals : Bytes) (r : RebState) (p : Nat) (v0 v1 : UInt64) (hp : r.off + r.nSkips = p)
    (hsz : p + 2 ≤ r.tape.size) (hv : ValsAt vals r.vpos [v0, v1]) :
    ∃ r', rebLoop vals r [tagString] = .ok r' ∧ Post r r' p (p + 2) 2 ∧ r'.tape[p]? = some (mkWord tagString v0) ∧
      r'.tape[p + 1]? = some v1 := by
  obtain ⟨r1, hf, e1⟩ := flush_step vals r tagString (notNop_of (by decide)) (by omega)
  have h1 : r1.off = p := by rw [hf.off]; exact hp
  obtain ⟨hv1, hv2, hv'⟩ := valsAt_cons hv
  obtain ⟨hv3, hv4, _⟩ := valsAt_cons hv'
  obtain ⟨r', e2, ha, hw⟩ := dispatch_str vals r1 (by rw [hf.size, h1]; omega) (by rw [hf.vpos]; omega)
  refine ⟨r', by rw [rebLoop_single, e1, e2], post_of hp hf ha (fun k hk => ?_), ?_, ?_⟩
  · rw [hw k, h1, if_neg (by omega), if_neg (by omega)]
  · rw [hw p, h1, if_neg (by omega), if_pos rfl, hf.vpos, hv2]
  · rw [hw (p + 1), h1, if_pos rfl, hf.vpos, hv4]

theorem reb_fflag (vals : Bytes) (r : RebState) (p : Nat) (v0 v1 : UInt64) (hp : r.off + r.nSkips = p)
    (hsz : p + 2 ≤ r.tape.size) (hv : ValsAt vals r.vpos [v0, v1]) :
    ∃ r', rebLoop vals r [tagFloatWithFlag] = .ok r' ∧ Post r r' p (p + 2) 2 ∧ r'.tape[p]? = some v0 ∧
      r'.tape[p + 1]? = some v1 := by
  obtain ⟨r1, hf, e1⟩ := flush_step vals r tagFloatWithFlag (notNop_of (by decide)) (by omega)
  have h1 : r1.off = p := by rw [hf.off]; exact hp
  obtain ⟨hv1, hv2, hv'⟩ := valsAt_cons hv
  obtain ⟨hv3, hv4, _⟩ := valsAt_cons hv'
  obtain ⟨r', e2, ha, hw⟩ := dispatch_fflag vals r1 (by rw [hf.size, h1]; omega) (by rw [hf.vpos]; omega)
  refine ⟨r', by rw [rebLoop_single, e1, e2], post_of hp hf ha (fun k hk => ?_), ?_, ?_⟩
  · rw [hw k, h1, if_neg (by omega), if_neg (by omega)]
  · rw [hw p, h1, if_neg (by omega), if_pos rfl, hf.vpos, hv2]
  · rw [hw (p + 1), h1, if_pos rfl, hf.vpos, hv4]

theorem reb_close (vals : Bytes) (c : UInt8) (hc : c = tagObjectEnd ∨ c = tagArrayEnd) (r : RebState) (q : Nat)
    (x : UInt64) (hq : r.off + r.nSkips = q) (hw : r.tape[q]? = some (mkWord c x)) (hx : x.toNat < 2^56) :
    ∃ r', rebLoop vals r [c] = .ok r' ∧ Post r r' q (q + 1) 0 ∧ r'.tape[q]? = r.tape[q]? := by
  have hlt : q < r.tape.size := (Array.getElem?_eq_some_iff.mp hw).1
  obtain ⟨r1, hf, e1⟩ := flush_step vals r c (notNop_of (by rcases hc with rfl | rfl <;> decide)) (by omega)
  have h1 : r1.off = q := by rw [hf.off]; exact hq
  have hw1 : r1.tape[r1.off]? = some (mkWord c x) := by rw [h1, hf.frame q (Or.inr (by omega))]; exact hw
  obtain ⟨r', e2, ha, ht⟩ := dispatch_close vals r1 c x hc hw1 hx
  refine ⟨r', by rw [rebLoop_single, e1, e2], post_of hq hf ha (fun k hk => by rw [ht]), ?_⟩
  rw [ht, hf.frame q (Or.inr (by omega))]

theorem sub_add_ofNat (e p : Nat) : UInt64.ofNat e - UInt64.ofNat p + UInt64.ofNat p = UInt64.ofNat e :=
  UInt64.sub_add_cancel _ _

/-- the start tag of an array or object: flush, write the start word at `p` and the end word at `e - 1` -/
theorem reb_open (vals : Bytes) (t c : UInt8)
    (hc : t = tagObjectStart ∧ c = tagObjectEnd ∨ t = tagArrayStart ∧ c = tagArrayEnd)
    (r : RebState) (p e : Nat) (V' : List UInt64) (hp : r.off + r.nSkips = p) (hpe : p + 2 ≤ e)
    (he : e ≤ r.tape.size) (hs : r.tape.size < 2^56)
    (hv : ValsAt vals r.vpos ((UInt64.ofNat e - UInt64.ofNat p) :: V')) :
    ∃ r1, rebStep vals r t = .ok r1 ∧ r1.off = p + 1 ∧ r1.nSkips = 0 ∧ r1.vpos = r.vpos + 8 ∧
      r1.tape.size = r.tape.size ∧ ValsAt vals r1.vpos V' ∧
      (∀ k, r.off ≤ k → k < p → r1.tape[k]? = some (nopW (p - k))) ∧
      r1.tape[p]? = some (mkWord t (UInt64.ofNat e)) ∧ r1.tape[e - 1]? = some (mkWord c (UInt64.ofNat p)) ∧
      (∀ k, (k < r.off ∨ p < k) → k ≠ e - 1 → r1.tape[k]? = r.tape[k]?) := by
  obtain ⟨rf, hf, e1⟩ := flush_step vals r t (notNop_of (by rcases hc with ⟨rfl, _⟩ | ⟨rfl, _⟩ <;> decide)) (by omega)
  have h1 : rf.off = p := by rw [hf.off]; exact hp
  obtain ⟨hv1, hv2, hv3⟩ := valsAt_cons hv
  obtain ⟨r1, e2, ha, hw⟩ := dispatch_open vals rf t c e hc (by rw [hf.vpos]; exact hv1)
    (by rw [hf.vpos, hv2, h1]; exact sub_add_ofNat e p) (by rw [hf.size]; exact he) (by omega) (by rw [hf.size]; omega)
  refine ⟨r1, by rw [e1, e2], by rw [ha.off, h1], by rw [ha.skips, hf.skips], by rw [ha.vpos, hf.vpos],
    by rw [ha.size, hf.size], by rw [ha.vpos, hf.vpos]; exact hv3, ?_, ?_, ?_, ?_⟩
  · intro k a b
    rw [hw k, h1, if_neg (by omega), if_neg (by omega), hf.fill k a (by omega), h1]
  · rw [hw p, h1, if_neg (by omega), if_pos rfl]
  · rw [hw (e - 1), if_pos rfl, h1]
  · intro k hk hne
    rw [hw k, h1, if_neg (by omega), if_neg (by omega), hf.frame k (by omega)]

/-- the opening `r` tag of a root -/
theorem reb_root_open (vals : Bytes) (r : RebState) (p e : Nat) (V' : List UInt64) (hp : r.off + r.nSkips = p)
    (hpe : p + 2 ≤ e) (he : e ≤ r.tape.size) (hs : r.tape.size < 2^56)
    (hv : ValsAt vals r.vpos ((UInt64.ofNat e - UInt64.ofNat p) :: V')) :
    ∃ r1, rebStep vals r tagRoot = .ok r1 ∧ r1.off = p + 1 ∧ r1.nSkips = 0 ∧ r1.vpos = r.vpos + 8 ∧
      r1.tape.size = r.tape.size ∧ ValsAt vals r1.vpos V' ∧
      (∀ k, r.off ≤ k → k < p → r1.tape[k]? = some (nopW (p - k))) ∧
      r1.tape[p]? = some (mkWord tagRoot (UInt64.ofNat e)) ∧
      (∀ k, (k < r.off ∨ p < k) → r1.tape[k]? = r.tape[k]?) := by
  obtain ⟨rf, hf, e1⟩ := flush_step vals r tagRoot (notNop_of (by decide)) (by omega)
  have h1 : rf.off = p := by rw [hf.off]; exact hp
  obtain ⟨hv1, hv2, hv3⟩ := valsAt_cons hv
  obtain ⟨r1, e2, ha, hw⟩ := dispatch_root vals rf e (by rw [hf.vpos]; exact hv1)
    (by rw [hf.vpos, hv2, h1]; exact sub_add_ofNat e p) (by rw [hf.size]; exact he) (by rw [hf.size, h1]; omega)
    (by rw [hf.size]; omega)
  refine ⟨r1, by rw [e1, e2], by rw [ha.off, h1], by rw [ha.skips, hf.skips], by rw [ha.vpos, hf.vpos],
    by rw [ha.size, hf.size], by rw [ha.vpos, hf.vpos]; exact hv3, ?_, ?_, ?_⟩
  · intro k a b
    rw [hw k, h1, if_neg (by omega), hf.fill k a (by omega), h1]
  · rw [hw p, h1, if_pos rfl]
  · intro k hk
    rw [hw k, h1, if_neg (by omega), hf.frame k (by omega)]

/-- the closing `r` tag of a root at `q = e - 1`, pointing back to `p` -/
theorem reb_root_close (vals : Bytes) (r : RebState) (p q : Nat) (hq : r.off + r.nSkips = q) (hpq : p ≤ q)
    (hlt : q < r.tape.size) (hs : r.tape.size < 2^56)
    (hv : ValsAt vals r.vpos [UInt64.ofNat p - UInt64.ofNat q]) :
    ∃ r', rebLoop vals r [tagRoot] = .ok r' ∧ Post r r' q (q + 1) 1 ∧
      r'.tape[q]? = some (mkWord tagRoot (UInt64.ofNat p)) := by
  obtain ⟨rf, hf, e1⟩ := flush_step vals r tagRoot (notNop_of (by decide)) (by omega)
  have h1 : rf.off = q := by rw [hf.off]; exact hq
  obtain ⟨hv1, hv2, hv3⟩ := valsAt_cons hv
  obtain ⟨r', e2, ha, hw⟩ := dispatch_root vals rf p (by rw [hf.vpos]; exact hv1)
    (by rw [hf.vpos, hv2, h1]; exact sub_add_ofNat p q) (by rw [hf.size]; omega) (by rw [hf.size, h1]; omega)
    (by rw [hf.size]; omega)
  refine ⟨r', by rw [rebLoop_single, e1, e2], post_of hq hf ha (fun k hk => ?_), ?_⟩
  · rw [hw k, h1, if_neg (by omega)]
  · rw [hw q, h1, if_pos rfl]

-- reading the rebuilt words back as a layout ------------------------------------------------------------------------

theorem word_mk (tp : Array UInt64) (S m : Bytes) (k : Nat) : word ⟨tp, S, m⟩ k = tp[k]? := rfl

theorem gap_of_fill (tp : Array UInt64) (S m : Bytes) (lo hi : Nat) (hle : lo ≤ hi) (hh : hi < 2^56)
    (h : ∀ k, lo ≤ k → k < hi → tp[k]? = some (nopW (hi - k))) : Gap ⟨tp, S, m⟩ lo hi := by
  refine ⟨hle, fun k a b => ?_⟩
  have hs : (UInt64.ofNat (hi - k)).toNat = hi - k := toNat_ofNat_lt (by omega)
  have hs' : (UInt64.ofNat (hi - k)).toNat < 2^56 := by rw [hs]; omega
  refine ⟨nopW (hi - k), h k a b, tagOf_mkWord _ _ hs', ?_, ?_⟩
  · rw [payloadOf_mkWord _ _ hs', hs]; omega
  · rw [payloadOf_mkWord _ _ hs', hs]; omega

theorem strAt_of_words (tp : Array UInt64) (S m : Bytes) (s : List UInt8) (p o : Nat) (hm : m.size < 2^55)
    (h0 : tp[p]? = some (mkWord tagString (UInt64.ofNat o)))
    (h1 : tp[p + 1]? = some (UInt64.ofNat s.length)) (ho : o + s.length ≤ m.size)
    (hx : m.extract o (o + s.length) = s.toArray) : StrAt ⟨tp, S, m⟩ s p := by
  have ho1 : (UInt64.ofNat o).toNat = o := toNat_ofNat_lt (by omega)
  have hl1 : (UInt64.ofNat s.length).toNat = s.length := toNat_ofNat_lt (by omega)
  refine ⟨_, _, h0, h1, tagOf_mkWord _ _ (by rw [ho1]; omega), ?_⟩
  rw [payloadOf_mkWord _ _ (by rw [ho1]; omega)]
  have hsum : (UInt64.ofNat o + UInt64.ofNat s.length).toNat = o + s.length := by
    rw [UInt64.toNat_add, ho1, hl1]; omega
  unfold stringByteAt
  rw [strbit _ (by rw [ho1]; omega)]
  simp only [beq_self_eq_true, if_true]
  have c : ¬ ((UInt64.ofNat o + UInt64.ofNat s.length).toNat > m.size ∨
      UInt64.ofNat o + UInt64.ofNat s.length < UInt64.ofNat o) := by
    rw [UInt64.lt_iff_toNat_lt, hsum, ho1]; omega
  show (if (UInt64.ofNat o + UInt64.ofNat s.length).toNat > m.size ∨
      UInt64.ofNat o + UInt64.ofNat s.length < UInt64.ofNat o then _ else _) = _
  rw [if_neg c]
  simp only [slice, hsum, ho1, hx]

/-- the tags `T` (with value words `V`) of something occupying `[p, e)` are processed successfully from every state
    whose logical position is `p`, and the resulting tape satisfies `Q` -/
def RebVal (vals : Bytes) (T : List UInt8) (V : List UInt64) (p e : Nat) (Q : Array UInt64 → Prop) : Prop :=
  ∀ r : RebState, r.off + r.nSkips = p → e ≤ r.tape.size → r.tape.size < 2^56 → ValsAt vals r.vpos V →
    ∃ r', rebLoop vals r T = .ok r' ∧ Post r r' p e V.length ∧ Q r'.tape

/-- effect of processing a sequence region `[lo, hi)` (values separated by NOP runs); the trailing NOP run
    `[r'.off, hi)` is still owed -/
structure SeqPost (r r' : RebState) (lo hi nv : Nat) : Prop where
  pos : r'.off + r'.nSkips = hi
  lo_le : lo ≤ r'.off
  vpos : r'.vpos = r.vpos + 8 * nv
  size : r'.tape.size = r.tape.size
  frame : ∀ k, k < lo ∨ hi ≤ k → r'.tape[k]? = r.tape[k]?

/-- `Q` holds of every tape that agrees with the result on the part already written and has the owed NOP run -/
def RebSeq (vals : Bytes) (T : List UInt8) (V : List UInt64) (lo hi : Nat) (Q : Array UInt64 → Prop) : Prop :=
  ∀ r : RebState, r.off = lo → r.nSkips = 0 → hi ≤ r.tape.size → r.tape.size < 2^56 → ValsAt vals r.vpos V →
    ∃ r', rebLoop vals r T = .ok r' ∧ SeqPost r r' lo hi V.length ∧
      ∀ tp : Array UInt64, tp.size = r'.tape.size → (∀ k, lo ≤ k → k < r'.off → tp[k]? = r'.tape[k]?) →
        (∀ k, r'.off ≤ k → k < hi → tp[k]? = some (nopW (hi - k))) → Q tp

theorem RebVal.mono {vals : Bytes} {T : List UInt8} {V : List UInt64} {p e : Nat} {Q Q' : Array UInt64 → Prop}
    (h : RebVal vals T V p e Q) (hi : ∀ tp, Q tp → Q' tp) : RebVal vals T V p e Q' := by
  intro r a b c d
  obtain ⟨r', h1, h2, h3⟩ := h r a b c d
  exact ⟨r', h1, h2, hi _ h3⟩

theorem RebSeq.mono {vals : Bytes} {T : List UInt8} {V : List UInt64} {lo hi : Nat} {Q Q' : Array UInt64 → Prop}
    (h : RebSeq vals T V lo hi Q) (hq : ∀ tp, Q tp → Q' tp) : RebSeq vals T V lo hi Q' := by
  intro r a b c d e
  obtain ⟨r', h1, h2, h3⟩ := h r a b c d e
  exact ⟨r', h1, h2, fun tp x y z => hq _ (h3 tp x y z)⟩

theorem reb_seq_nil (vals S m : Bytes) (lo hi : Nat) (hle : lo ≤ hi) :
    RebSeq vals (nops (hi - lo)) [] lo hi (fun tp => Gap ⟨tp, S, m⟩ lo hi) := by
  intro r h1 h2 h3 h4 _
  refine ⟨{ r with nSkips := r.nSkips + (hi - lo) }, rebLoop_nops vals _ r (by omega),
    ⟨by show r.off + (r.nSkips + (hi - lo)) = hi; omega, by show lo ≤ r.off; omega, rfl, rfl, fun k _ => rfl⟩, ?_⟩
  intro tp _ _ hfill
  exact gap_of_fill tp S m lo hi hle (by omega) (fun k a b => hfill k (by show r.off ≤ k; omega) b)

theorem reb_seq_cons (vals S m : Bytes) (lo hi p e : Nat) (T1 T2 : List UInt8) (V1 V2 : List UInt64)
    (Q1 Q2 : Array UInt64 → Prop) (hlo : lo ≤ p) (hpe : p ≤ e) (heh : e ≤ hi)
    (hv : RebVal vals T1 V1 p e Q1)
    (hst : ∀ tp tp' : Array UInt64, (∀ k, p ≤ k → k < e → tp'[k]? = tp[k]?) → Q1 tp → Q1 tp')
    (hs : RebSeq vals T2 V2 e hi Q2) :
    RebSeq vals (nops (p - lo) ++ T1 ++ T2) (V1 ++ V2) lo hi (fun tp => Gap ⟨tp, S, m⟩ lo p ∧ Q1 tp ∧ Q2 tp) := by
  intro r h1 h2 h3 h4 h5
  obtain ⟨hva, hvb⟩ := valsAt_append h5
  have ea := rebLoop_nops vals (p - lo) r (by omega)
  obtain ⟨rb, eb, pb, qb⟩ := hv { r with nSkips := r.nSkips + (p - lo) } (by show r.off + (r.nSkips + (p - lo)) = p; omega)
    (by show e ≤ r.tape.size; omega) h4 hva
  have pbf : ∀ k, k < lo ∨ e ≤ k → rb.tape[k]? = r.tape[k]? := fun k hk => pb.frame k (by show k < r.off ∨ e ≤ k; omega)
  have pbz : rb.tape.size = r.tape.size := pb.size
  have pbv : rb.vpos = r.vpos + 8 * V1.length := pb.vpos
  obtain ⟨rc, ec, pc, qc⟩ := hs rb pb.off pb.skips (by omega) (by omega) (by rw [pbv]; exact hvb)
  have hrc := pc.lo_le
  refine ⟨rc, ?_, ⟨pc.pos, by omega, by rw [pc.vpos, pbv, List.length_append]; omega, by rw [pc.size, pbz], ?_⟩, ?_⟩
  · rw [rebLoop_append, rebLoop_append, ea, Res.bind_ok, eb, Res.bind_ok, ec]
  · intro k hk
    rw [pc.frame k (by omega), pbf k (by omega)]
  · intro tp hsz hag hfill
    refine ⟨?_, ?_, ?_⟩
    · refine gap_of_fill tp S m lo p hlo (by omega) (fun k a b => ?_)
      rw [hag k a (by omega), pc.frame k (Or.inl (by omega))]
      exact pb.fill k (by show r.off ≤ k; omega) b
    · refine hst rb.tape tp (fun k a b => ?_) qb
      rw [hag k (by omega) (by omega), pc.frame k (Or.inl b)]
    · exact qc tp hsz (fun k a b => hag k (by omega) b) hfill

/-- an array or object: start tag, inner region, end tag -/
theorem reb_container (vals : Bytes) (t c : UInt8)
    (hc : t = tagObjectStart ∧ c = tagObjectEnd ∨ t = tagArrayStart ∧ c = tagArrayEnd)
    (p e : Nat) (T' : List UInt8) (V' : List UInt64) (Qin : Array UInt64 → Prop) (hpe : p + 2 ≤ e)
    (hin : RebSeq vals T' V' (p + 1) (e - 1) Qin) :
    RebVal vals (t :: (T' ++ [c])) ((UInt64.ofNat e - UInt64.ofNat p) :: V') p e
      (fun tp => tp[p]? = some (mkWord t (UInt64.ofNat e)) ∧ tp[e - 1]? = some (mkWord c (UInt64.ofNat p)) ∧ Qin tp) := by
  intro r h1 h2 h3 h4
  obtain ⟨r1, e1, o1, k1, v1, z1, hv1, f1, wp1, we1, fr1⟩ := reb_open vals t c hc r p e V' h1 hpe h2 h3 h4
  obtain ⟨r2, e2, p2, q2⟩ := hin r1 o1 k1 (by omega) (by omega) hv1
  have hr2 := p2.lo_le
  have hpos := p2.pos
  have hp56 : (UInt64.ofNat p).toNat < 2^56 := by rw [toNat_ofNat_lt (by omega)]; omega
  have hw2 : r2.tape[e - 1]? = some (mkWord c (UInt64.ofNat p)) := by rw [p2.frame (e - 1) (Or.inr (Nat.le_refl _))]; exact we1
  obtain ⟨r3, e3, p3, w3⟩ := reb_close vals c (by rcases hc with ⟨_, h⟩ | ⟨_, h⟩ <;> simp [h]) r2 (e - 1)
    (UInt64.ofNat p) hpos hw2 hp56
  have he : e - 1 + 1 = e := by omega
  rw [he] at p3
  refine ⟨r3, ?_, ⟨p3.off, p3.skips, ?_, by rw [p3.size, p2.size, z1], ?_, ?_⟩, ?_, ?_, ?_⟩
  · simp only [rebLoop]
    rw [e1, Res.bind_ok, rebLoop_append, e2, Res.bind_ok, e3]
  · rw [p3.vpos, p2.vpos, v1, List.length_cons]; omega
  · intro k a b
    rw [p3.frame k (Or.inl (by omega)), p2.frame k (Or.inl (by omega))]
    exact f1 k a b
  · intro k hk
    rw [p3.frame k (by omega), p2.frame k (by omega), fr1 k (by omega) (by omega)]
  · rw [p3.frame p (Or.inl (by omega)), p2.frame p (Or.inl (by omega))]; exact wp1
  · rw [w3]; exact hw2
  · refine q2 r3.tape p3.size (fun k a b => p3.frame k (Or.inl b)) (fun k a b => p3.fill k a b)

/-- a root: `r` tag, inner region, closing `r` tag -/
theorem reb_root (vals : Bytes) (p e : Nat) (T' : List UInt8) (V' : List UInt64) (Qin : Array UInt64 → Prop)
    (hpe : p + 2 ≤ e) (hin : RebSeq vals T' V' (p + 1) (e - 1) Qin) :
    RebVal vals (tagRoot :: (T' ++ [tagRoot]))
      ((UInt64.ofNat e - UInt64.ofNat p) :: (V' ++ [UInt64.ofNat p - UInt64.ofNat (e - 1)])) p e
      (fun tp => tp[p]? = some (mkWord tagRoot (UInt64.ofNat e)) ∧ tp[e - 1]? = some (mkWord tagRoot (UInt64.ofNat p)) ∧
        Qin tp) := by
  intro r h1 h2 h3 h4
  obtain ⟨r1, e1, o1, k1, v1, z1, hv1, f1, wp1, fr1⟩ := reb_root_open vals r p e _ h1 hpe h2 h3 h4
  obtain ⟨hva, hvb⟩ := valsAt_append hv1
  obtain ⟨r2, e2, p2, q2⟩ := hin r1 o1 k1 (by omega) (by omega) hva
  have hr2 := p2.lo_le
  have hpos := p2.pos
  obtain ⟨r3, e3, p3, w3⟩ := reb_root_close vals r2 p (e - 1) hpos (by omega) (by rw [p2.size, z1]; omega)
    (by rw [p2.size, z1]; omega) (by rw [p2.vpos]; exact hvb)
  have he : e - 1 + 1 = e := by omega
  rw [he] at p3
  refine ⟨r3, ?_, ⟨p3.off, p3.skips, ?_, by rw [p3.size, p2.size, z1], ?_, ?_⟩, ?_, w3, ?_⟩
  · simp only [rebLoop]
    rw [e1, Res.bind_ok, rebLoop_append, e2, Res.bind_ok, e3]
  · rw [p3.vpos, p2.vpos, v1, List.length_cons, List.length_append, List.length_singleton]; omega
  · intro k a b
    rw [p3.frame k (Or.inl (by omega)), p2.frame k (Or.inl (by omega))]
    exact f1 k a b
  · intro k hk
    rw [p3.frame k (by omega), p2.frame k (by omega), fr1 k (by omega)]
  · rw [p3.frame p (Or.inl (by omega)), p2.frame p (Or.inl (by omega))]; exact wp1
  · refine q2 r3.tape p3.size (fun k a b => p3.frame k (Or.inl b)) (fun k a b => p3.fill k a b)

theorem RebVal.mono' {vals : Bytes} {T : List UInt8} {V : List UInt64} {p e : Nat} {Q Q' : Array UInt64 → Prop}
    (h : RebVal vals T V p e Q) (hi : ∀ tp : Array UInt64, e ≤ tp.size → tp.size < 2^56 → Q tp → Q' tp) :
    RebVal vals T V p e Q' := by
  intro r a b c d
  obtain ⟨r', h1, h2, h3⟩ := h r a b c d
  exact ⟨r', h1, h2, hi _ (by rw [h2.size]; exact b) (by rw [h2.size]; exact c) h3⟩

theorem codeV_lt {m : Bytes} {v : JVal} {p e : Nat} {T : List UInt8} {V : List UInt64} (h : CodeV m v p e T V) : p < e := by
  cases v <;> simp only [CodeV, CodeStr] at h <;> omega

theorem agree_of (tp tp' : Array UInt64) (S m : Bytes) (p e : Nat) (h : ∀ k, p ≤ k → k < e → tp'[k]? = tp[k]?) :
    Agree ⟨tp, S, m⟩ ⟨tp', S, m⟩ p e :=
  ⟨fun k a b => h k a b, fun _ _ _ hs => hs⟩

theorem valAt_stable (S m : Bytes) (v : JVal) (p e : Nat) (tp tp' : Array UInt64)
    (h : ∀ k, p ≤ k → k < e → tp'[k]? = tp[k]?) (hv : ValAt ⟨tp, S, m⟩ v p e) : ValAt ⟨tp', S, m⟩ v p e :=
  valAt_frame (agree_of tp tp' S m p e h) v p e (Nat.le_refl _) (Nat.le_refl _) hv

theorem strAt_stable (S m : Bytes) (s : List UInt8) (p : Nat) (tp tp' : Array UInt64)
    (h : ∀ k, p ≤ k → k < p + 2 → tp'[k]? = tp[k]?) (hv : StrAt ⟨tp, S, m⟩ s p) : StrAt ⟨tp', S, m⟩ s p :=
  strAt_frame (agree_of tp tp' S m p (p + 2) h) (Nat.le_refl _) (Nat.le_refl _) hv

theorem reb_strAt (vals S m : Bytes) (hm : m.size < 2^55) (s : List UInt8) (p e : Nat) (T : List UInt8)
    (V : List UInt64) (h : CodeStr m s p e T V) : RebVal vals T V p e (fun tp => StrAt ⟨tp, S, m⟩ s p) := by
  obtain ⟨rfl, rfl, o, rfl, ho, hx⟩ := h
  intro r h1 h2 h3 h4
  obtain ⟨r', e1, p1, w0, w1⟩ := reb_str vals r p _ _ h1 h2 h4
  exact ⟨r', e1, p1, strAt_of_words _ S m s p o hm w0 w1 ho hx⟩

/-- the two words of a container read back as the layout demands -/
theorem container_words (tp : Array UInt64) (S m : Bytes) (t c : UInt8) (p e : Nat) (he : e < 2^56) (hpe : p + 2 ≤ e)
    (h0 : tp[p]? = some (mkWord t (UInt64.ofNat e))) (h1 : tp[e - 1]? = some (mkWord c (UInt64.ofNat p))) :
    (∃ w, word ⟨tp, S, m⟩ p = some w ∧ tagOf w = t ∧ (payloadOf w).toNat = e) ∧
    (∃ cw, word ⟨tp, S, m⟩ (e - 1) = some cw ∧ tagOf cw = c ∧ (payloadOf cw).toNat = p) := by
  have e1 : (UInt64.ofNat e).toNat = e := toNat_ofNat_lt (by omega)
  have e2 : (UInt64.ofNat p).toNat = p := toNat_ofNat_lt (by omega)
  refine ⟨⟨_, h0, tagOf_mkWord _ _ (by rw [e1]; exact he), ?_⟩, ⟨_, h1, tagOf_mkWord _ _ (by rw [e2]; omega), ?_⟩⟩
  · rw [payloadOf_mkWord _ _ (by rw [e1]; exact he), e1]
  · rw [payloadOf_mkWord _ _ (by rw [e2]; omega), e2]

theorem tagOf_mkWord0 (t : UInt8) : tagOf (mkWord t 0) = t := tagOf_mkWord t 0 (by decide)
theorem payloadOf_mkWord0 (t : UInt8) : payloadOf (mkWord t 0) = 0 := payloadOf_mkWord t 0 (by decide)

mutual
theorem reb_val (vals S m : Bytes) (hm : m.size < 2^55) : ∀ (v : JVal) (p e : Nat) (T : List UInt8) (V : List UInt64),
    CodeV m v p e T V → RebVal vals T V p e (fun tp => ValAt ⟨tp, S, m⟩ v p e)
  | .null, p, e, T, V, h => by
    simp only [CodeV] at h
    obtain ⟨rfl, rfl, rfl⟩ := h
    intro r h1 h2 h3 h4
    obtain ⟨r', e1, p1, w0⟩ := reb_atom vals tagNull (by simp) r p h1 h2
    refine ⟨r', e1, p1, ?_⟩
    simp only [ValAt]
    exact ⟨trivial, _, w0, tagOf_mkWord0 _⟩
  | .bool b, p, e, T, V, h => by
    simp only [CodeV] at h
    obtain ⟨rfl, rfl, rfl⟩ := h
    intro r h1 h2 h3 h4
    obtain ⟨r', e1, p1, w0⟩ := reb_atom vals (if b then tagBoolTrue else tagBoolFalse) (by cases b <;> simp) r p h1 h2
    refine ⟨r', e1, p1, ?_⟩
    simp only [ValAt]
    exact ⟨trivial, _, w0, tagOf_mkWord0 _⟩
  | .int w, p, e, T, V, h => by
    simp only [CodeV] at h
    obtain ⟨rfl, rfl, rfl⟩ := h
    intro r h1 h2 h3 h4
    obtain ⟨r', e1, p1, w0, w1⟩ := reb_num vals tagInteger (by simp) r p w h1 h2 h4
    refine ⟨r', e1, p1, ?_⟩
    simp only [ValAt]
    exact ⟨trivial, _, w0, tagOf_mkWord0 _, w1⟩
  | .uint w, p, e, T, V, h => by
    simp only [CodeV] at h
    obtain ⟨rfl, rfl, rfl⟩ := h
    intro r h1 h2 h3 h4
    obtain ⟨r', e1, p1, w0, w1⟩ := reb_num vals tagUint (by simp) r p w h1 h2 h4
    refine ⟨r', e1, p1, ?_⟩
    simp only [ValAt]
    exact ⟨trivial, _, w0, tagOf_mkWord0 _, w1⟩
  | .float b f, p, e, T, V, h => by
    simp only [CodeV] at h
    obtain ⟨rfl, ⟨rfl, rfl, rfl⟩ | ⟨w, hw1, hw2, rfl, rfl⟩⟩ := h
    · intro r h1 h2 h3 h4
      obtain ⟨r', e1, p1, w0, w1⟩ := reb_num vals tagFloat (by simp) r p b h1 h2 h4
      refine ⟨r', e1, p1, ?_⟩
      simp only [ValAt]
      exact ⟨trivial, _, w0, tagOf_mkWord0 _, payloadOf_mkWord0 _, w1⟩
    · intro r h1 h2 h3 h4
      obtain ⟨r', e1, p1, w0, w1⟩ := reb_fflag vals r p w b h1 h2 h4
      refine ⟨r', e1, p1, ?_⟩
      simp only [ValAt]
      exact ⟨trivial, _, w0, hw1, hw2, w1⟩
  | .str s, p, e, T, V, h => by
    simp only [CodeV] at h
    have he : e = p + 2 := h.1
    refine (reb_strAt vals S m hm s p e T V h).mono (fun tp hs => ?_)
    simp only [ValAt]
    exact ⟨he, hs⟩
  | .arr es, p, e, T, V, h => by
    simp only [CodeV] at h
    obtain ⟨hpe, T', V', rfl, rfl, hin⟩ := h
    refine (reb_container vals tagArrayStart tagArrayEnd (Or.inr ⟨rfl, rfl⟩) p e T' V' _ hpe
      (reb_elems vals S m hm es (p + 1) (e - 1) T' V' hin)).mono' (fun tp a b hq => ?_)
    obtain ⟨h0, h1, h2⟩ := hq
    obtain ⟨c1, c2⟩ := container_words tp S m _ _ p e (by omega) hpe h0 h1
    simp only [ValAt]
    exact ⟨hpe, c1, c2, h2⟩
  | .obj ms, p, e, T, V, h => by
    simp only [CodeV] at h
    obtain ⟨hpe, T', V', rfl, rfl, hin⟩ := h
    refine (reb_container vals tagObjectStart tagObjectEnd (Or.inl ⟨rfl, rfl⟩) p e T' V' _ hpe
      (reb_mems vals S m hm ms (p + 1) (e - 1) T' V' hin)).mono' (fun tp a b hq => ?_)
    obtain ⟨h0, h1, h2⟩ := hq
    obtain ⟨c1, c2⟩ := container_words tp S m _ _ p e (by omega) hpe h0 h1
    simp only [ValAt]
    exact ⟨hpe, c1, c2, h2⟩
theorem reb_elems (vals S m : Bytes) (hm : m.size < 2^55) : ∀ (vs : JVals) (lo hi : Nat) (T : List UInt8) (V : List UInt64),
    CodeEs m vs lo hi T V → RebSeq vals T V lo hi (fun tp => ElemsAt ⟨tp, S, m⟩ vs lo hi)
  | .nil, lo, hi, T, V, h => by
    simp only [CodeEs] at h
    obtain ⟨hle, rfl, rfl⟩ := h
    refine (reb_seq_nil vals S m lo hi hle).mono (fun tp hq => ?_)
    simp only [ElemsAt]
    exact hq
  | .cons v vs, lo, hi, T, V, h => by
    simp only [CodeEs] at h
    obtain ⟨p, e, T1, V1, T2, V2, hlo, heh, rfl, rfl, c1, c2⟩ := h
    have hpe := codeV_lt c1
    refine (reb_seq_cons vals S m lo hi p e T1 T2 V1 V2 _ _ hlo (by omega) heh (reb_val vals S m hm v p e T1 V1 c1)
      (valAt_stable S m v p e) (reb_elems vals S m hm vs e hi T2 V2 c2)).mono (fun tp hq => ?_)
    simp only [ElemsAt]
    exact ⟨p, e, hq.1, hq.2.1, heh, hq.2.2⟩
theorem reb_mems (vals S m : Bytes) (hm : m.size < 2^55) : ∀ (ms : JMems) (lo hi : Nat) (T : List UInt8) (V : List UInt64),
    CodeMs m ms lo hi T V → RebSeq vals T V lo hi (fun tp => MemsAt ⟨tp, S, m⟩ ms lo hi)
  | .nil, lo, hi, T, V, h => by
    simp only [CodeMs] at h
    obtain ⟨hle, rfl, rfl⟩ := h
    refine (reb_seq_nil vals S m lo hi hle).mono (fun tp hq => ?_)
    simp only [MemsAt]
    exact hq
  | .cons k v ms, lo, hi, T, V, h => by
    simp only [CodeMs] at h
    obtain ⟨pk, p, e, Tk, Vk, T1, V1, T2, V2, hlo, hkp, heh, rfl, rfl, ck, c1, c2⟩ := h
    have hpe := codeV_lt c1
    have inner := reb_seq_cons vals S m (pk + 2) hi p e T1 T2 V1 V2 _ _ hkp (by omega) heh
      (reb_val vals S m hm v p e T1 V1 c1) (valAt_stable S m v p e) (reb_mems vals S m hm ms e hi T2 V2 c2)
    have outer := reb_seq_cons vals S m lo hi pk (pk + 2) Tk _ Vk _ _ _ hlo (by omega) (by omega)
      (reb_strAt vals S m hm k pk (pk + 2) Tk Vk ck) (strAt_stable S m k pk) inner
    simp only [List.append_assoc] at outer ⊢
    refine outer.mono (fun tp hq => ?_)
    simp only [MemsAt]
    exact ⟨pk, p, e, hq.1, hq.2.1, hq.2.2.1, hq.2.2.2.1, heh, hq.2.2.2.2⟩
end

theorem rootAt_stable (S m : Bytes) (v : JVal) (p e : Nat) (tp tp' : Array UInt64)
    (h : ∀ k, p ≤ k → k < e → tp'[k]? = tp[k]?) (hv : RootAt ⟨tp, S, m⟩ v p e) : RootAt ⟨tp', S, m⟩ v p e := by
  have ha := agree_of tp tp' S m p e h
  obtain ⟨h1, ⟨w, h2, h3⟩, ⟨c, h5, h6⟩, q, f, g1, hv, g2⟩ := hv
  have hq := g1.1
  have hf := g2.1
  have hqf := valAt_lo_le_hi hv
  exact ⟨h1, ⟨w, by rw [ha.words p (Nat.le_refl _) (by omega)]; exact h2, h3⟩,
    ⟨c, by rw [ha.words (e - 1) (by omega) (by omega)]; exact h5, h6⟩, q, f,
    gap_frame ha (by omega) (by omega) g1, valAt_frame ha v q f (by omega) (by omega) hv,
    gap_frame ha (by omega) (by omega) g2⟩

theorem reb_rootAt (vals S m : Bytes) (hm : m.size < 2^55) (v : JVal) (p e : Nat) (T : List UInt8) (V : List UInt64)
    (h : CodeRoot m v p e T V) : RebVal vals T V p e (fun tp => RootAt ⟨tp, S, m⟩ v p e) := by
  obtain ⟨hpe, T', V', rfl, rfl, hin⟩ := h
  refine (reb_root vals p e T' V' _ hpe (reb_elems vals S m hm _ (p + 1) (e - 1) T' V' hin)).mono' (fun tp a b hq => ?_)
  obtain ⟨h0, h1, h2⟩ := hq
  obtain ⟨c1, c2⟩ := container_words tp S m _ _ p e (by omega) hpe h0 h1
  simp only [ElemsAt] at h2
  obtain ⟨q, f, g1, hv, _, g2⟩ := h2
  exact ⟨hpe, c1, c2, q, f, g1, hv, g2⟩

theorem codeRoots_le {m : Bytes} {n : Nat} : ∀ {d : List JVal} {p : Nat} {T : List UInt8} {V : List UInt64},
    CodeRoots m n d p T V → p ≤ n
  | [], p, T, V, h => by simp only [CodeRoots] at h; exact h.1
  | v :: vs, p, T, V, h => by
    simp only [CodeRoots] at h
    obtain ⟨q, e, T1, V1, T2, V2, hlo, _, _, c1, c2⟩ := h
    have := codeRoots_le c2
    have := c1.1
    omega

theorem reb_roots (vals S m : Bytes) (hm : m.size < 2^55) (n : Nat) : ∀ (d : List JVal) (p : Nat) (T : List UInt8)
    (V : List UInt64), CodeRoots m n d p T V →
    RebSeq vals T V p n (fun tp => tp.size = n → RootsAt ⟨tp, S, m⟩ d p)
  | [], p, T, V, h => by
    simp only [CodeRoots] at h
    obtain ⟨hle, rfl, rfl⟩ := h
    refine (reb_seq_nil vals S m p n hle).mono (fun tp hq hsz => ?_)
    simp only [RootsAt]
    show Gap _ p tp.size
    rw [hsz]; exact hq
  | v :: vs, p, T, V, h => by
    simp only [CodeRoots] at h
    obtain ⟨q, e, T1, V1, T2, V2, hlo, rfl, rfl, c1, c2⟩ := h
    have hqe : q + 2 ≤ e := c1.1
    have hen : e ≤ n := codeRoots_le c2
    refine (reb_seq_cons vals S m p n q e T1 T2 V1 V2 _ _ hlo (by omega) hen (reb_rootAt vals S m hm v q e T1 V1 c1)
      (rootAt_stable S m v q e) (reb_roots vals S m hm n vs e T2 V2 c2)).mono (fun tp hq hsz => ?_)
    simp only [RootsAt]
    exact ⟨q, e, hq.1, hq.2.1, hq.2.2 hsz⟩


/-- **Phase 2.** `rebuild` run on streams that code the document `d` (for a tape of `init.size` words) succeeds for
    every prior content `init` of the destination, and the tape it returns denotes `d`. -/
theorem rebuild_coded (vals S m : Bytes) (hm : m.size < 2^55) (d : List JVal) (init : Array UInt64)
    (hn : init.size < 2^56) (tags : Bytes) (T : List UInt8) (V : List UInt64) (hT : tags.toList = T)
    (hV : vals.toList = bytesOf V) (hc : CodeRoots m init.size d 0 T V) :
    ∃ tp, rebuild init tags vals = .ok tp ∧ tp.size = init.size ∧ WF ⟨tp, S, m⟩ d := by
  have hv0 : ValsAt vals 0 V := ⟨[], [], by simp [hV], rfl⟩
  obtain ⟨r', e1, p1, q1⟩ := reb_roots vals S m hm init.size d 0 T V hc { tape := init } rfl rfl (Nat.le_refl _) hn hv0
  have hpos : r'.off + r'.nSkips = init.size := p1.pos
  have hsz : r'.tape.size = init.size := p1.size
  have hvp : r'.vpos = 8 * V.length := by rw [p1.vpos]; show 0 + _ = _; omega
  have hvs : vals.size = 8 * V.length := by
    have : vals.size = vals.toList.length := by simp
    rw [this, hV, bytesOf_length]
  have hfl : ∃ tp, (if r'.nSkips > 0 then
          if r'.nSkips > r'.tape.size - r'.off then (.error .generic : Res (Array UInt64 × Nat))
          else flushSkips r'.tape r'.off r'.nSkips r'.nSkips
        else .ok (r'.tape, r'.off)) = .ok (tp, init.size) ∧ tp.size = init.size ∧
        (∀ k, k < r'.off → tp[k]? = r'.tape[k]?) ∧
        (∀ k, r'.off ≤ k → k < init.size → tp[k]? = some (nopW (init.size - k))) := by
    by_cases hk : r'.nSkips > 0
    · rw [if_pos hk, if_neg (by omega)]
      obtain ⟨tp, h1, h2, h3, h4⟩ := flushSkips_spec r'.nSkips r'.nSkips r'.tape r'.off (by omega)
      rw [hpos] at h1 h3
      exact ⟨tp, h1, by omega, fun k hk => h4 k (Or.inl hk), fun k a b => h3 k a b⟩
    · rw [if_neg hk]
      have : r'.off = init.size := by omega
      exact ⟨r'.tape, by rw [this], hsz, fun k _ => rfl, fun k a b => by omega⟩
  obtain ⟨tp, e2, z2, ag, fl⟩ := hfl
  refine ⟨tp, ?_, z2, ?_⟩
  · unfold rebuild
    rw [hT, e1, Res.bind_ok, e2, Res.bind_ok]
    dsimp only
    rw [if_neg (by simp [z2]), if_neg (by omega)]
  · exact q1 tp (by omega) (fun k _ b => ag k b) fl z2

/-- **C11 (sections level).** For every tape that denotes a document `d` (freshly parsed, edited, with NOP runs left
    by deletions) and every string hash: `serialize` succeeds; `deserializeSections` of its output succeeds for every
    prior content of the destination tape; the result denotes the same document `d` — same structure, same number
    types and value words, same float flags, byte-equal strings (now all in the message buffer). -/
theorem roundtrip (pj : PJ) (d : List JVal) (hash : Bytes → Nat) (hwf : WF pj d) (hsz : pj.tape.size < 2^56)
    (hstr : ∀ sec, serialize pj hash = .ok sec → sec.msg.size < 2^55) :
    ∃ sec, serialize pj hash = .ok sec ∧ sec.tapeSize = pj.tape.size ∧
      ∀ init : Array UInt64, init.size = sec.tapeSize →
        ∃ pj', deserializeSections sec init = .ok pj' ∧ WF pj' d ∧ pj'.tape.size = pj.tape.size ∧
          pj'.strings = #[] ∧ pj'.msg = sec.msg := by
  obtain ⟨sec, T, V, h1, h2, h3, h4, h5, h6⟩ := serialize_coded pj d hash hwf
  have hm := hstr sec h1
  refine ⟨sec, h1, h2, fun init hi => ?_⟩
  have hi' : init.size = pj.tape.size := by rw [hi, h2]
  obtain ⟨tp, e1, z1, w1⟩ := rebuild_coded sec.values #[] sec.msg hm d init (by omega) sec.tags T V h4 h5
    (by rw [hi']; exact h6 hm)
  refine ⟨⟨tp, sec.strings, sec.msg⟩, ?_, ?_, by show tp.size = _; omega, h3, rfl⟩
  · unfold deserializeSections
    rw [e1, Res.bind_ok]
  · rw [h3]; exact w1

-- 6. the size side condition, corollaries -----------------------------------------------------------------------------

theorem stringByteAt_size (pj : PJ) (o l : UInt64) (sb : Bytes) (M : Nat) (h1 : pj.msg.size ≤ M) (h2 : pj.strings.size ≤ M)
    (h : stringByteAt pj o l = .ok sb) : sb.size ≤ M := by
  unfold stringByteAt at h
  split at h
  · simp only [] at h
    split at h
    · cases h
    · cases h
      simp only [slice, Array.size_extract]; omega
  · simp only [] at h
    split at h
    · cases h
    · cases h
      simp only [slice, Array.size_extract]; omega

theorem mul_step (a b k M : Nat) (h : b + k ≤ a) (hk : 1 ≤ k) : (a - (b + k)) * M + M ≤ (a - b) * M := by
  have : a - b = (a - (b + k)) + k := by omega
  rw [this, Nat.add_mul]
  have : M ≤ k * M := Nat.le_mul_of_pos_left M hk
  omega


/-- the message buffer written by `serLoop` grows by at most `M` bytes per tape entry, where `M` bounds both source buffers -/
theorem serLoop_buf (pj : PJ) (hash : Bytes → Nat) (M : Nat) (h1 : pj.msg.size ≤ M) (h2 : pj.strings.size ≤ M) :
    ∀ (fuel : Nat) (s : SerState) (off : Nat) (s' : SerState), serLoop pj hash s off fuel = .ok s' →
      s'.stringBuf.size ≤ s.stringBuf.size + (pj.tape.size - off) * M := by
  intro fuel
  induction fuel with
  | zero => intro s off s' h; cases h
  | succ fuel ih =>
    intro s off s' h
    -- one recursive call
    have fin : ∀ (S' : SerState) (k : Nat), S'.stringBuf.size ≤ s.stringBuf.size + M → off + k ≤ pj.tape.size → 1 ≤ k →
        serLoop pj hash S' (off + k) fuel = .ok s' → s'.stringBuf.size ≤ s.stringBuf.size + (pj.tape.size - off) * M := by
      intro S' k hb hk1 hk2 hr
      have := ih S' (off + k) s' hr
      have := mul_step pj.tape.size off k M hk1 hk2
      omega
    rw [serLoop] at h
    split at h
    · cases h; omega
    · next hlt =>
      have hlt' : off < pj.tape.size := by omega
      rw [rd_ok _ _ hlt'] at h
      simp only [Res.bind_ok] at h
      -- second word, when it is read
      have two : ∀ {β : Type} (f : UInt64 → Res SerState), (rd pj.tape (off + 1) >>= f) = .ok s' →
          off + 2 ≤ pj.tape.size ∧ ∃ v, f v = .ok s' := by
        intro β f hf
        by_cases h2 : off + 1 < pj.tape.size
        · rw [rd_ok _ _ h2] at hf
          exact ⟨by omega, _, hf⟩
        · have : rd pj.tape (off + 1) = .panic := by
            simp only [rd]
            rw [Array.getElem?_eq_none (by omega)]
          rw [this] at hf; cases hf
      split at h
      · exact fin _ 1 (by first | (simp only [pushVal_buf]; omega) | (show s.stringBuf.size ≤ _; omega)) (by omega) (by omega) h
      split at h
      · obtain ⟨hk, len, h⟩ := two (β := Unit) _ h
        split at h
        · next sb hsb =>
          have hsz := stringByteAt_size pj _ _ sb M h1 h2 hsb
          cases hi : indexString hash s sb with
          | mk s1 o64 =>
            rw [hi] at h
            obtain ⟨_, _, _, h4, _⟩ := indexString_sound hash s s1 sb o64 hi
            refine fin _ 2 ?_ hk (by omega) h
            simp only [pushVal_buf]
            omega
        · cases h
      split at h
      · obtain ⟨hk, v, h⟩ := two (β := Unit) _ h
        exact fin _ 2 (by first | (simp only [pushVal_buf]; omega) | (show s.stringBuf.size ≤ _; omega)) hk (by omega) h
      split at h
      · obtain ⟨hk, v, h⟩ := two (β := Unit) _ h
        split at h
        · exact fin _ 2 (by first | (simp only [pushVal_buf]; omega) | (show s.stringBuf.size ≤ _; omega)) hk (by omega) h
        · exact fin _ 2 (by first | (simp only [pushVal_buf]; omega) | (show s.stringBuf.size ≤ _; omega)) hk (by omega) h
      split at h
      · exact fin _ 1 (by first | (simp only [pushVal_buf]; omega) | (show s.stringBuf.size ≤ _; omega)) (by omega) (by omega) h
      split at h
      · exact fin _ 1 (by first | (simp only [pushVal_buf]; omega) | (show s.stringBuf.size ≤ _; omega)) (by omega) (by omega) h
      split at h
      · exact fin _ 1 (by first | (simp only [pushVal_buf]; omega) | (show s.stringBuf.size ≤ _; omega)) (by omega) (by omega) h
      · cases h


theorem serialize_msg_bound (pj : PJ) (hash : Bytes → Nat) (M : Nat) (h1 : pj.msg.size ≤ M) (h2 : pj.strings.size ≤ M)
    (sec : Sections) (h : serialize pj hash = .ok sec) : sec.msg.size ≤ pj.tape.size * M := by
  unfold serialize at h
  cases hs : serLoop pj hash {} 0 (pj.tape.size + 1) with
  | ok s =>
    rw [hs] at h
    simp only [Res.bind_ok, Res.ok.injEq] at h
    subst h
    have := serLoop_buf pj hash M h1 h2 _ _ _ _ hs
    have e : ({} : SerState).stringBuf.size = 0 := rfl
    rw [e] at this
    simpa using this
  | error e => rw [hs] at h; cases h
  | panic => rw [hs] at h; cases h
  | diverge => rw [hs] at h; cases h

/-- `roundtrip` with the size side condition stated on the input alone: the number of tape words times the size of the
    larger source buffer stays below 2^55 (so the deduplicated message buffer cannot reach the `STRINGBUFBIT`). -/
theorem roundtrip_of_bound (pj : PJ) (d : List JVal) (hash : Bytes → Nat) (hwf : WF pj d) (hsz : pj.tape.size < 2^56)
    (hb : pj.tape.size * max pj.msg.size pj.strings.size < 2^55) :
    ∃ sec, serialize pj hash = .ok sec ∧ sec.tapeSize = pj.tape.size ∧
      ∀ init : Array UInt64, init.size = sec.tapeSize →
        ∃ pj', deserializeSections sec init = .ok pj' ∧ WF pj' d ∧ pj'.tape.size = pj.tape.size ∧
          pj'.strings = #[] ∧ pj'.msg = sec.msg :=
  roundtrip pj d hash hwf hsz (fun sec h =>
    Nat.lt_of_le_of_lt (serialize_msg_bound pj hash _ (Nat.le_max_left _ _) (Nat.le_max_right _ _) sec h) hb)

/-- the statement as asked: destination tape freshly allocated (all zero) -/
theorem roundtrip_zero (pj : PJ) (d : List JVal) (hash : Bytes → Nat) (hwf : WF pj d) (hsz : pj.tape.size < 2^56)
    (hstr : ∀ sec, serialize pj hash = .ok sec → sec.msg.size < 2^55) :
    ∃ sec pj', serialize pj hash = .ok sec ∧ deserializeSections sec (Array.replicate sec.tapeSize 0) = .ok pj' ∧
      WF pj' d := by
  obtain ⟨sec, h1, _, h3⟩ := roundtrip pj d hash hwf hsz hstr
  obtain ⟨pj', h4, h5, _⟩ := h3 (Array.replicate sec.tapeSize 0) (by simp)
  exact ⟨sec, pj', h1, h4, h5⟩

/-- **C11_dedup_sound.** For every hash function, every table state (stale, colliding or wrapped entries included)
    and every string: the offset returned by `indexString` addresses bytes equal to the string in the new buffer,
    the buffer only grows by appending, and tags/values are untouched. -/
theorem C11_dedup_sound (hash : Bytes → Nat) (s : SerState) (sb : Bytes) :
    let r := indexString hash s sb
    Ext s.stringBuf r.1.stringBuf ∧
    ∃ o : Nat, r.2 = UInt64.ofNat o ∧ o + sb.size ≤ r.1.stringBuf.size ∧ r.1.stringBuf.extract o (o + sb.size) = sb := by
  intro r
  obtain ⟨_, _, h3, _, h5⟩ := indexString_sound hash s r.1 sb r.2 rfl
  exact ⟨h3, h5⟩

end SJ.SerdeRT
