import SJ.Proofs.GoSerializeLemmas
set_option linter.unusedVariables false
set_option linter.unusedSimpArgs false
/-
GoSerialize — the hand model of `Serializer.Serialize` (`Model/Serialize.lean`: `indexString`, `serLoop`, `serialize`;
`Model/SerializeEnc.lean`: `putUvarint`, `encodeSections`) IS the meaning of the three syntax trees regenerated from
`parsed_serialize.go`: `goSerializer_indexString`, `goSerialize_loop`, `goSerialize_assemble` (`Generated/GoSrc.lean`).

1. `indexString_sim` (in GoSerializeLemmas): `s.indexString(sb)` through `callFun`, from any caller store holding the
   receiver's fields and the two shared buffers: returns the model's offset, leaves the model's table/`stringBuf`, hands
   `s.stringWr` exactly what was appended to `stringBuf` (`isWr`, `isWr_self`), pops one answer of `memHash`.  The answer
   `a` and the model's `hash sb` need only agree modulo 16384 (`stringmask`).  Table representation: `tblVal`/`TblOK`
   (a `[16384]uint32`, each entry carried as a `uint64` below 2^32).  `indexString_sim_toolong`: `uint32(len(sb)) ==
   math.MaxUint32` panics.
2. `serialize_loop_sim` (`SerSim`): the tape loop from `loopStore pj hash tb vb` (answers of `memHash` = `hashTrace`,
   `s.tagsBuf` of 65536 bytes, any `s.valuesBuf`), `len(pj.Tape) + 2` units of fuel:
     `serLoop … = .ok st`  ⇔  the block falls off its end with `tagWr.out = st.tags`, `valWr.out = st.values`,
        `s.stringBuf = s.stringWr.out = st.stringBuf`, `rawTags = len(st.tags)`, `rawValues = len(st.values)`, no answer
        left, tape unchanged (`Final`);
     `serLoop … = .panic`  ⇔  the block panics;   the model is never `.error`/`.diverge`, the interpreter never
        `stuck`/`diverge` (`SerSim.ok_iff`, `.panic_iff`, `.total`).
   The chunked flushing of the source (every 65536 tags, `s.valuesBuf` ≥ 65536 bytes) is not in the model; the loop
   invariant `LInv` (`TagI`, `ValI`) says: what the writer got ++ what waits in the buffer = the model's stream.
   Hypotheses: `BufOK` (buffers shorter than 2^63, Go `int`) and `NoMaxLenString` — THE ONE DIFFERENCE between model and
   source: a string entry whose length is ≡ 2^32 − 1 (mod 2^32) makes `indexString` panic ("string too long"); the model
   has no such check.  Witness: `long_string_model_ok` / `long_string_source_panics`.  `StrShort` (both buffers shorter
   than 2^32 − 1 bytes) implies both hypotheses (`serialize_loop_sim_short`).
3. `serialize_assemble_sim`: the assembly from `asmStore` returns `dst ++ asmOut …` when every `PutUvarint` fits the eight
   bytes of `tmp` (`AsmFits`: lengths and total below 2^56), and panics otherwise; `asmOut_eq_encodeSections`,
   `serialize_assemble_encodeSections`: for the model's sections this is `encodeSections blk sec`.
   `uvarintBytes_eq_putUvarint`.
4. `go_serialize_source_tie` bundles 2 and 3; `serialize_follows_source` chains them for `serialize pj hash = .ok sec`.

Every piece of syntax is pinned by `rfl` (`asm_body_eq`, `loop_body_eq`, `loopBody_eq`, `preS_eq`, `postS_eq`,
`case0_eq … case7_eq`, `swDflt_eq`; `indexString`'s body is unfolded by `simp`), so an edit of these parts of
`parsed_serialize.go` breaks a proof here.
-/
namespace SJ.GoSerialize
open SJ SJ.GoSem SJ.Generated SJ.GoIter SJ.GoObject

attribute [local simp] exec exec1 execCases evalE evalEs isOneOf binop convert ofE Env.get_set

/-! ## 2. the tape loop -/

theorem strAt_ne (pj : PJ) (off : Nat) (w : UInt64) (hw : pj.tape[off]? = some w) (h : tagOf w ≠ 34) :
    strAt pj off = none := by
  unfold strAt
  rw [hw]
  cases pj.tape[off + 1]? <;> simp [h]

theorem bind_eq_ok {α β : Type} {x : Res α} {f : α → Res β} {r : β} (h : (x >>= f) = .ok r) :
    ∃ a, x = .ok a ∧ f a = .ok r := by
  cases x with
  | ok a => exact ⟨a, rfl, h⟩
  | error _ => cases h
  | panic => cases h
  | diverge => cases h

theorem serSwitch_off (pj : PJ) (hash : Bytes → Nat) (st : SerState) (off : Nat) (w : UInt64) (r : SerState × Nat × UInt8)
    (hw : pj.tape[off]? = some w) (h : serSwitch pj hash st off w = .ok r) : r.2.1 + 1 = nextOff pj off := by
  unfold nextOff
  rw [hw]
  unfold serSwitch at h
  simp only [] at h ⊢
  generalize tagOf w = t at h ⊢
  split at h
  · cases h; simp [*]
  split at h
  · obtain ⟨len, hv, h⟩ := bind_eq_ok h
    clear hv
    split at h
    · cases h; simp [*]
    · cases h
  split at h
  · rename_i h2
    obtain ⟨v, hv, h⟩ := bind_eq_ok h
    clear hv
    cases h
    rcases h2 with h2 | h2 <;> simp [h2]
  split at h
  · obtain ⟨v, hv, h⟩ := bind_eq_ok h
    clear hv
    split at h <;> (cases h; simp [*])
  rename_i n0 n1 n2 n4
  have n2a : ¬ t = 117 := fun hh => n2 (Or.inl hh)
  have n2b : ¬ t = 108 := fun hh => n2 (Or.inr hh)
  split at h
  · cases h; simp [n1, n2a, n2b, n4]
  split at h
  · cases h; simp [n1, n2a, n2b, n4]
  split at h
  · cases h; simp [n1, n2a, n2b, n4]
  cases h


/-- **the `switch ntype` of the loop body = `serSwitch`** -/
theorem sw_sim {pj : PJ} {e : Env} {st : SerState} {off : Nat} {ans ans' : List UInt64} {k : Nat} {tb tw vb vw : Bytes}
    (h : LInv pj e st off ans k tb tw vb vw) (hash : Bytes → Nat) (f : Nat) (w : UInt64) (hb : BufOK pj)
    (hnm : NoMaxLenString pj) (hw : pj.tape[off]? = some w)
    (ht : e.get "ntype" = some (.u8 (tagOf w))) (hp : e.get "payload" = some (.u64 (payloadOf w)))
    (he : e.get "entry" = some (.u64 w))
    (hans : ans = (match strAt pj off with | some sb => [UInt64.ofNat (hash sb)] | none => []) ++ ans') :
    SwPost pj ans' k tb tw vw (exec1 goFuns (f + 1) swS ⟨e, pj.tape⟩) (serSwitch pj hash st off w) := by
  rw [sw_select e pj.tape (tagOf w) (f + 1) ht]
  unfold serSwitch
  simp only []
  by_cases h1 : tagOf w = 34
  · have hk : clauseOf (tagOf w) = some 1 := by simp [clauseOf, h1]
    rw [hk, if_neg (by simp [h1]), if_pos h1]
    refine case_string_sim h hash f w hb ?_ ht hp ?_
    · intro len sb hl hs
      exact hnm off sb (by simp [strAt, hw, hl, h1, hs])
    · intro len sb hl hs
      rw [hans]
      simp [strAt, hw, hl, h1, hs]
  have hans' : ans = ans' := by rw [hans, strAt_ne pj off w hw h1]; rfl
  subst hans'
  by_cases h0 : tagOf w = 78
  · have hk : clauseOf (tagOf w) = some 0 := by simp [clauseOf, h0]
    rw [hk, if_pos h0]
    show SwPost _ _ _ _ _ _ (exec goFuns (f + 1) (caseBody 0) _) _
    rw [case0_eq]
    exact case_empty_sim h _ _ ht
  rw [if_neg h0, if_neg h1]
  by_cases h2 : tagOf w = 117
  · have hk : clauseOf (tagOf w) = some 2 := by simp [clauseOf, h2]
    rw [hk, if_pos (Or.inl h2)]
    show SwPost _ _ _ _ _ _ (exec goFuns (f + 1) (caseBody 2) _) _
    rw [case2_eq]
    exact case_num_sim h _ _ ht
  by_cases h3 : tagOf w = 108
  · have hk : clauseOf (tagOf w) = some 3 := by simp [clauseOf, h3]
    rw [hk, if_pos (Or.inr h3)]
    show SwPost _ _ _ _ _ _ (exec goFuns (f + 1) (caseBody 3) _) _
    rw [case3_eq]
    exact case_num_sim h _ _ ht
  rw [if_neg (by simp [h2, h3])]
  by_cases h4 : tagOf w = 100
  · have hk : clauseOf (tagOf w) = some 4 := by simp [clauseOf, h4]
    rw [hk, if_pos h4]
    exact case_float_sim h _ w ht hp he
  rw [if_neg h4]
  by_cases h5 : tagOf w = 110 ∨ tagOf w = 116 ∨ tagOf w = 102
  · have hk : clauseOf (tagOf w) = some 5 := by simp [clauseOf, h0, h1, h2, h3, h4, h5]
    rw [hk, if_pos h5]
    show SwPost _ _ _ _ _ _ (exec goFuns (f + 1) (caseBody 5) _) _
    rw [case5_eq]
    exact case_empty_sim h _ _ ht
  rw [if_neg h5]
  by_cases h6 : tagOf w = 123 ∨ tagOf w = 91 ∨ tagOf w = 114
  · have hk : clauseOf (tagOf w) = some 6 := by simp [clauseOf, h0, h1, h2, h3, h4, h5, h6]
    rw [hk, if_pos h6]
    exact case_open_sim h _ _ w ht hp
  rw [if_neg h6]
  by_cases h7 : tagOf w = 125 ∨ tagOf w = 93 ∨ tagOf w = 0
  · have hk : clauseOf (tagOf w) = some 7 := by simp [clauseOf, h0, h1, h2, h3, h4, h5, h6, h7]
    rw [hk, if_pos h7]
    show SwPost _ _ _ _ _ _ (exec goFuns (f + 1) (caseBody 7) _) _
    rw [case7_eq]
    exact case_empty_sim h _ _ ht
  rw [if_neg h7]
  have hk : clauseOf (tagOf w) = none := by simp [clauseOf, h0, h1, h2, h3, h4, h5, h6, h7]
  rw [hk]
  exact rfl


/-- `if tagsOff >= tagBufSize { rawTags += tagsOff; tagWr.Write(s.tagsBuf[:tagsOff]); tagsOff = 0 }` -/
theorem flushTags_exec {pj : PJ} {e : Env} {st : SerState} {off : Nat} {ans : List UInt64} {k : Nat} {tb tw vb vw : Bytes}
    (h : LInv pj e st off ans k tb tw vb vw) (fuel : Nat) (rest : List Stmt) :
    ∃ e' k' tw', exec goFuns fuel (flushTagsS :: rest) ⟨e, pj.tape⟩ = exec goFuns fuel rest ⟨e', pj.tape⟩ ∧
      LInv pj e' st off ans k' tb tw' vb vw ∧ k' < 65536 ∧ (∀ x, x ∉ invKeys → e'.get x = e.get x) := by
  by_cases hk : k < 65536
  · refine ⟨e, k, tw, ?_, h, hk, fun _ _ => rfl⟩
    have : ¬ ((65536 : Int) ≤ k) := by omega
    exact exec_ite_skip _ _ _ _ _ _ (by simp [h.tag.off, this])
  · have hk' : k = 65536 := by have := h.tag.le; omega
    have hge : (65536 : Int) ≤ k := by omega
    have hsl : (k : Int) ≤ tb.size := by rw [h.tag.sz]; omega
    refine ⟨((e.set "rawTags" (.int (tw.size + k))).set "tagWr.out" (.bytes (tw ++ tb.extract 0 k))).set "tagsOff" (.int 0),
      0, tw ++ tb.extract 0 k, ?_, ?_, by decide, ?_⟩
    · simp only [flushTagsS]
      rw [exec, exec1]
      simp [ h.tag.off, h.tag.buf, h.tag.wr, h.tag.raw, hge, hsl]
    · refine ⟨h.doc.congr (by simp) (by simp) (by simp), by simp [h.off], ?_,
        h.val.congr (by simp) (by simp) (by simp), h.str.congr (by simp) (by simp) (by simp) (by simp)⟩
      refine ⟨by simp, by simp [h.tag.buf], by simp, ?_, h.tag.sz, by decide, ?_⟩
      · have : min k tb.size = k := by rw [h.tag.sz]; omega
        simp [this]
      · rw [← h.tag.eq]; simp
    · intro x hx
      simp only [invKeys, List.mem_cons, List.not_mem_nil, or_false, not_or] at hx
      obtain ⟨k1, k2, k3, k4, k5, k6, k7, k8, k9, k10, k11, k12, k13, k14, k15⟩ := hx
      simp [Ne.symm k4, Ne.symm k6, Ne.symm k7]

/-- `if len(s.valuesBuf) >= valBufSize { rawValues += len(s.valuesBuf); valWr.Write(s.valuesBuf); s.valuesBuf = s.valuesBuf[:0] }` -/
theorem flushVals_exec {pj : PJ} {e : Env} {st : SerState} {off : Nat} {ans : List UInt64} {k : Nat} {tb tw vb vw : Bytes}
    (h : LInv pj e st off ans k tb tw vb vw) (fuel : Nat) (rest : List Stmt) :
    ∃ e' vb' vw', exec goFuns fuel (flushValsS :: rest) ⟨e, pj.tape⟩ = exec goFuns fuel rest ⟨e', pj.tape⟩ ∧
      LInv pj e' st off ans k tb tw vb' vw' ∧ (∀ x, x ∉ invKeys → e'.get x = e.get x) := by
  by_cases hk : vb.size < 65536
  · refine ⟨e, vb, vw, ?_, h, fun _ _ => rfl⟩
    have : ¬ ((65536 : Int) ≤ vb.size) := by omega
    exact exec_ite_skip _ _ _ _ _ _ (by simp [h.val.buf, this])
  · have hge : (65536 : Int) ≤ vb.size := by omega
    refine ⟨((e.set "rawValues" (.int (vw.size + vb.size))).set "valWr.out" (.bytes (vw ++ vb))).set "s.valuesBuf"
      (.bytes #[]), #[], vw ++ vb, ?_, ?_, ?_⟩
    · simp only [flushValsS]
      rw [exec, exec1]
      simp [ h.val.buf, h.val.wr, h.val.raw, hge]
    · refine ⟨h.doc.congr (by simp) (by simp) (by simp), by simp [h.off],
        h.tag.congr (by simp) (by simp) (by simp) (by simp), ?_, h.str.congr (by simp) (by simp) (by simp) (by simp)⟩
      exact ⟨by simp, by simp, by simp, by rw [← h.val.eq]; simp⟩
    · intro x hx
      simp only [invKeys, List.mem_cons, List.not_mem_nil, or_false, not_or] at hx
      obtain ⟨k1, k2, k3, k4, k5, k6, k7, k8, k9, k10, k11, k12, k13, k14, k15⟩ := hx
      simp [Ne.symm k8, Ne.symm k9, Ne.symm k10]

/-- `entry := pj.Tape[off]; ntype := Tag(entry >> 56); payload := entry & JSONVALUEMASK` -/
theorem read_exec {pj : PJ} {e : Env} {st : SerState} {off : Nat} {ans : List UInt64} {k : Nat} {tb tw vb vw : Bytes}
    (h : LInv pj e st off ans k tb tw vb vw) (fuel : Nat) (rest : List Stmt) (w : UInt64) (hw : pj.tape[off]? = some w) :
    exec goFuns fuel (readS ++ rest) ⟨e, pj.tape⟩ =
      exec goFuns fuel rest ⟨((e.set "entry" (.u64 w)).set "ntype" (.u8 (tagOf w))).set "payload" (.u64 (payloadOf w)),
        pj.tape⟩ := by
  have hlt : off < pj.tape.size := by
    rcases Nat.lt_or_ge off pj.tape.size with h' | h'
    · exact h'
    · rw [Array.getElem?_eq_none h'] at hw; cases hw
  have hlt' : (off : Int) < pj.tape.size := by omega
  have hw' : pj.tape[off] = w := by rw [Array.getElem?_eq_getElem hlt] at hw; exact Option.some.inj hw
  simp only [readS, List.cons_append, List.nil_append]
  rw [exec, exec1]
  simp [h.off, h.doc.lim, hlt, hlt', hw', tagOf, payloadOf, wJSONVALUEMASK]

theorem take_succ_set {α : Type} (l : List α) (k : Nat) (t : α) (h : k < l.length) :
    (l.take (k + 1)).set k t = l.take k ++ [t] := by
  induction l generalizing k with
  | nil => simp at h
  | cons x xs ih =>
    cases k with
    | zero => simp
    | succ k =>
      simp only [List.length_cons] at h
      simp [ih k (by omega)]

/-- `s.tagsBuf[tagsOff] = uint8(ntype); tagsOff++; off++` -/
theorem tail_exec {pj : PJ} {e : Env} {st : SerState} {off : Nat} {ans : List UInt64} {k : Nat} {tb tw vb vw : Bytes}
    (h : LInv pj e st off ans k tb tw vb vw) (fuel : Nat) (t : UInt8) (ht : e.get "ntype" = some (.u8 t)) (hk : k < 65536) :
    ∃ e', exec goFuns fuel tailS ⟨e, pj.tape⟩ = .normal ⟨e', pj.tape⟩ ∧
      LInv pj e' { st with tags := st.tags.push t } (off + 1) ans (k + 1) (tb.setIfInBounds k t) tw vb vw := by
  have hk' : (k : Int) < tb.size := by rw [h.tag.sz]; omega
  refine ⟨((e.set "s.tagsBuf" (.bytes (tb.setIfInBounds k t))).set "tagsOff" (.int ((k : Int) + 1))).set "off"
    (.int ((off : Int) + 1)), ?_, ?_⟩
  · simp [tailS, h.tag.buf, h.tag.off, h.off, ht, hk']
  · refine ⟨h.doc.congr (by simp) (by simp) (by simp), by simp, ?_,
      h.val.congr (by simp) (by simp) (by simp), h.str.congr (by simp) (by simp) (by simp) (by simp)⟩
    refine ⟨by simp, by simp, by simp [h.tag.wr], by simp [h.tag.raw], by simp [h.tag.sz], by omega, ?_⟩
    show tw ++ (tb.setIfInBounds k t).extract 0 (k + 1) = st.tags.push t
    rw [← h.tag.eq]
    have hks : k < tb.size := by rw [h.tag.sz]; exact hk
    apply Array.ext'
    simp [Array.toList_setIfInBounds, List.take_set, hks]
    exact take_succ_set _ _ _ (by simpa using hks)


theorem hashTraceFrom_succ (pj : PJ) (hash : Bytes → Nat) (off fm : Nat) (hlt : off < pj.tape.size) :
    hashTraceFrom pj hash off (fm + 1) =
      (match strAt pj off with | some sb => [UInt64.ofNat (hash sb)] | none => []) ++
        hashTraceFrom pj hash (nextOff pj off) fm := by
  rw [hashTraceFrom, if_neg (by omega)]
  rfl

theorem hashTraceFrom_end (pj : PJ) (hash : Bytes → Nat) (off fm : Nat) (hge : off ≥ pj.tape.size) :
    hashTraceFrom pj hash off fm = [] := by
  cases fm with
  | zero => rfl
  | succ n => rw [hashTraceFrom, if_pos hge]

/-- **one turn of the loop body = `serBody`** -/
theorem body_sim {pj : PJ} {e : Env} {st : SerState} {off : Nat} {k : Nat} {tb tw vb vw : Bytes} (hash : Bytes → Nat)
    (fm f : Nat) (h : LInv pj e st off (hashTraceFrom pj hash off (fm + 1)) k tb tw vb vw) (hb : BufOK pj)
    (hnm : NoMaxLenString pj) (hlt : off < pj.tape.size) :
    match serBody pj hash st off with
    | .ok r => ∃ e' k' tb' tw' vb' vw', exec goFuns (f + 1) loopBody ⟨e, pj.tape⟩ = .normal ⟨e', pj.tape⟩ ∧
        LInv pj e' r.1 r.2 (hashTraceFrom pj hash r.2 fm) k' tb' tw' vb' vw' ∧ off < r.2
    | .panic => exec goFuns (f + 1) loopBody ⟨e, pj.tape⟩ = .panic
    | _ => False := by
  rw [loopBody_eq]
  simp only [List.cons_append, List.nil_append]
  obtain ⟨e1, k1, tw1, hx1, h1, hk1, _⟩ := flushTags_exec h (f + 1) (flushValsS :: (readS ++ (swS :: tailS)))
  rw [hx1]
  obtain ⟨e2, vb2, vw2, hx2, h2, _⟩ := flushVals_exec h1 (f + 1) (readS ++ (swS :: tailS))
  rw [hx2]
  have hw : pj.tape[off]? = some pj.tape[off] := Array.getElem?_eq_getElem hlt
  generalize pj.tape[off] = w at hw
  rw [read_exec h2 (f + 1) (swS :: tailS) w hw]
  have h3 := ((h2.set "entry" (.u64 w) (by decide)).set "ntype" (.u8 (tagOf w)) (by decide)).set "payload"
    (.u64 (payloadOf w)) (by decide)
  generalize he3 : ((e2.set "entry" (.u64 w)).set "ntype" (.u8 (tagOf w))).set "payload" (.u64 (payloadOf w)) = e3 at h3
  have hnt : e3.get "ntype" = some (.u8 (tagOf w)) := by subst he3; simp
  have hpl : e3.get "payload" = some (.u64 (payloadOf w)) := by subst he3; simp
  have hen : e3.get "entry" = some (.u64 w) := by subst he3; simp
  have hsw := sw_sim h3 hash f w hb hnm hw hnt hpl hen (hashTraceFrom_succ pj hash off fm hlt)
  have hrd : rd pj.tape off = .ok w := by simp only [rd, hw]
  simp only [serBody, hrd, Res.bind_ok]
  rw [exec]
  cases hr : serSwitch pj hash st off w with
  | ok r =>
    rw [hr] at hsw
    obtain ⟨e4, vb4, ho, h4, hnt4⟩ := hsw
    rw [ho]
    simp only [Res.bind_ok]
    obtain ⟨e5, hx5, h5⟩ := tail_exec h4 (f + 1) r.2.2 hnt4 hk1
    have hoff := serSwitch_off pj hash st off w r hw hr
    rw [← hoff] at h5
    refine ⟨e5, _, _, _, _, _, hx5, h5, ?_⟩
    have : nextOff pj off > off := by
      unfold nextOff; rw [hw]; simp only []; split <;> omega
    show off < r.2.1 + 1
    omega
  | panic =>
    rw [hr] at hsw
    simp only [SwPost] at hsw
    rw [hsw]
    rfl
  | error _ => rw [hr] at hsw; exact hsw.elim
  | diverge => rw [hr] at hsw; exact hsw.elim


/-- outcome of the `for off < len(pj.Tape)` loop against `serLoop` -/
def LoopPost (pj : PJ) (o : Out) (r : Res SerState) : Prop :=
  match r with
  | .ok st' => ∃ e' off' k tb tw vb vw, o = .normal ⟨e', pj.tape⟩ ∧ LInv pj e' st' off' [] k tb tw vb vw
  | .panic => o = .panic
  | _ => False

/-- **the loop = `serLoop`** (`fm`: the model's fuel, `F`: the interpreter's) -/
theorem loop_sim (pj : PJ) (hash : Bytes → Nat) (hb : BufOK pj) (hnm : NoMaxLenString pj) :
    ∀ (fm : Nat) (e : Env) (st : SerState) (off k : Nat) (tb tw vb vw : Bytes) (F : Nat),
      LInv pj e st off (hashTraceFrom pj hash off fm) k tb tw vb vw → pj.tape.size - off < fm →
      pj.tape.size - off + 1 ≤ F →
      LoopPost pj (exec1 goFuns F (.while loopCond loopBody) ⟨e, pj.tape⟩) (serLoop pj hash st off fm) := by
  intro fm
  induction fm with
  | zero => intro e st off k tb tw vb vw F _ h0; omega
  | succ fm ih =>
    intro e st off k tb tw vb vw F h hfm hF
    obtain ⟨F', rfl⟩ : ∃ F', F = F' + 1 := ⟨F - 1, by omega⟩
    rw [serLoop_succ, exec1]
    by_cases hge : off ≥ pj.tape.size
    · have hc : evalE ⟨e, pj.tape⟩ loopCond = .val (.bool false) := by
        have : ¬ (off : Int) < pj.tape.size := by omega
        simp [loopCond, h.off, h.doc.lim, this]
      rw [hc, if_pos hge]
      rw [hashTraceFrom_end pj hash off _ hge] at h
      exact ⟨e, off, k, tb, tw, vb, vw, rfl, h⟩
    · have hlt : off < pj.tape.size := by omega
      have hc : evalE ⟨e, pj.tape⟩ loopCond = .val (.bool true) := by
        have : (off : Int) < pj.tape.size := by omega
        simp [loopCond, h.off, h.doc.lim, this]
      rw [hc, if_neg hge]
      obtain ⟨f, rfl⟩ : ∃ f, F' = f + 1 := ⟨F' - 1, by omega⟩
      have hbody := body_sim hash fm f h hb hnm hlt
      simp only []
      cases hr : serBody pj hash st off with
      | ok r =>
        rw [hr] at hbody
        obtain ⟨e', k', tb', tw', vb', vw', hx, h', hlt'⟩ := hbody
        rw [hx]
        simp only [Res.bind_ok]
        exact ih e' r.1 r.2 k' tb' tw' vb' vw' (f + 1) h' (by omega) (by omega)
      | panic =>
        rw [hr] at hbody
        simp only [] at hbody
        rw [hbody]
        rfl
      | error _ => rw [hr] at hbody; exact hbody.elim
      | diverge => rw [hr] at hbody; exact hbody.elim


/-- what the block finds when it starts: the document, the reset string index (`stringsTable` zeroed, `stringBuf`
    emptied, a fresh `stringWr`), `s.tagsBuf = s.tagsBuf[:tagBufSize]`, some `s.valuesBuf`, fresh block writers, and the
    answers `memHash` is going to give -/
structure LoopInit (pj : PJ) (hash : Bytes → Nat) (e : Env) (tb vb : Bytes) : Prop where
  doc : Doc pj e
  tbl : e.get "s.stringsTable" = some (tblVal (Array.replicate cstringSize 0))
  sbuf : e.get "s.stringBuf" = some (.bytes #[])
  swr : e.get "s.stringWr.out" = some (.bytes #[])
  tbuf : e.get "s.tagsBuf" = some (.bytes tb)
  tsz : tb.size = 65536
  vbuf : e.get "s.valuesBuf" = some (.bytes vb)
  twr : e.get "tagWr.out" = some (.bytes #[])
  vwr : e.get "valWr.out" = some (.bytes #[])
  ans : e.get "s.memHash.answers" = some (.u64s (hashTrace pj hash))

/-- what the block leaves: the two streams handed to the block writers, their lengths, the message buffer (also handed
    to its writer), no answer of `memHash` left over -/
structure Final (e : Env) (st : SerState) : Prop where
  tags : e.get "tagWr.out" = some (.bytes st.tags)
  values : e.get "valWr.out" = some (.bytes st.values)
  sbuf : e.get "s.stringBuf" = some (.bytes st.stringBuf)
  swr : e.get "s.stringWr.out" = some (.bytes st.stringBuf)
  rawT : e.get "rawTags" = some (.int st.tags.size)
  rawV : e.get "rawValues" = some (.int st.values.size)
  ans : e.get "s.memHash.answers" = some (.u64s [])

theorem tblVal_init : tblVal (Array.replicate cstringSize 0) = .u64s (List.replicate 16384 0) := by
  simp only [tblVal, cstringSize, Array.toList_replicate, List.map_replicate]
  rfl

theorem pre_exec {pj : PJ} {hash : Bytes → Nat} {e : Env} {tb vb : Bytes} (h : LoopInit pj hash e tb vb) (fuel : Nat) :
    ∃ e', exec goFuns fuel preS ⟨e, pj.tape⟩ = .normal ⟨e', pj.tape⟩ ∧
      LInv pj e' {} 0 (hashTrace pj hash) 0 tb #[] #[] #[] := by
  refine ⟨(((((e.set "s.valuesBuf" (.bytes #[])).set "off" (.int 0)).set "tagsOff" (.int 0)).set "tmp"
    (.bytes (Array.replicate 8 0))).set "rawValues" (.int 0)).set "rawTags" (.int 0), ?_, ?_⟩
  · simp [preS_eq, h.vbuf]
  · refine ⟨h.doc.congr (by simp) (by simp) (by simp), by simp, ?_, ?_, ?_⟩
    · exact ⟨by simp, by simp [h.tbuf], by simp [h.twr], by simp, h.tsz, by decide, by simp⟩
    · exact ⟨by simp, by simp [h.vwr], by simp, by simp⟩
    · exact ⟨by simp [h.tbl], TblOK_init, by simp [h.sbuf], by simp [h.swr], by simp [h.ans]⟩

theorem post_exec {pj : PJ} {e : Env} {st : SerState} {off k : Nat} {tb tw vb vw : Bytes}
    (h : LInv pj e st off [] k tb tw vb vw) (fuel : Nat) :
    ∃ e', exec goFuns fuel postS ⟨e, pj.tape⟩ = .normal ⟨e', pj.tape⟩ ∧ Final e' st := by
  have hsl : (k : Int) ≤ tb.size := by rw [h.tag.sz]; have := h.tag.le; omega
  have hmin : min k tb.size = k := by rw [h.tag.sz]; have := h.tag.le; omega
  rw [postS_eq]
  by_cases hk : k > 0
  · have hk' : (0 : Int) < k := by omega
    by_cases hv : vb.size > 0
    · have hv' : (0 : Int) < vb.size := by omega
      refine ⟨(((e.set "rawTags" (.int (tw.size + k))).set "tagWr.out" (.bytes (tw ++ tb.extract 0 k))).set "rawValues"
        (.int (vw.size + vb.size))).set "valWr.out" (.bytes (vw ++ vb)), ?_, ?_⟩
      · simp [h.tag.off, h.tag.buf, h.tag.wr, h.tag.raw, h.val.buf, h.val.wr, h.val.raw, hk, hk', hv, hv', hsl]
      · exact ⟨by simp [h.tag.eq], by simp [h.val.eq], by simp [h.str.buf], by simp [h.str.wr],
          by simp [← h.tag.eq, hmin], by simp [← h.val.eq], by simp [h.str.ans]⟩
    · have hv0 : vb.size = 0 := by omega
      have hv' : ¬ (0 : Int) < vb.size := by omega
      have hvb : vb = #[] := Array.eq_empty_of_size_eq_zero hv0
      refine ⟨(e.set "rawTags" (.int (tw.size + k))).set "tagWr.out" (.bytes (tw ++ tb.extract 0 k)), ?_, ?_⟩
      · simp [h.tag.off, h.tag.buf, h.tag.wr, h.tag.raw, h.val.buf, h.val.wr, h.val.raw, hk, hk', hv, hv', hsl]
      · exact ⟨by simp [h.tag.eq], by simp [h.val.wr, ← h.val.eq, hvb], by simp [h.str.buf], by simp [h.str.wr],
          by simp [← h.tag.eq, hmin], by simp [h.val.raw, ← h.val.eq, hvb], by simp [h.str.ans]⟩
  · have hk0 : k = 0 := by omega
    have hk' : ¬ (0 : Int) < k := by omega
    have ht : st.tags = tw := by rw [← h.tag.eq, hk0]; simp
    by_cases hv : vb.size > 0
    · have hv' : (0 : Int) < vb.size := by omega
      refine ⟨(e.set "rawValues" (.int (vw.size + vb.size))).set "valWr.out" (.bytes (vw ++ vb)), ?_, ?_⟩
      · simp [h.tag.off, h.tag.buf, h.tag.wr, h.tag.raw, h.val.buf, h.val.wr, h.val.raw, hk, hk', hv, hv', hsl]
      · exact ⟨by simp [h.tag.wr, ht], by simp [h.val.eq], by simp [h.str.buf], by simp [h.str.wr],
          by simp [h.tag.raw, ht], by simp [← h.val.eq], by simp [h.str.ans]⟩
    · have hv0 : vb.size = 0 := by omega
      have hv' : ¬ (0 : Int) < vb.size := by omega
      have hvb : vb = #[] := Array.eq_empty_of_size_eq_zero hv0
      refine ⟨e, ?_, ?_⟩
      · simp [h.tag.off, h.tag.buf, h.tag.wr, h.tag.raw, h.val.buf, h.val.wr, h.val.raw, hk, hk', hv, hv', hsl]
      · exact ⟨by simp [h.tag.wr, ht], by simp [h.val.wr, ← h.val.eq, hvb], h.str.buf, h.str.wr,
          by simp [h.tag.raw, ht], by simp [h.val.raw, ← h.val.eq, hvb], h.str.ans⟩


/-- outcome of the translated loop block against the model's `serLoop`:
    model `.ok st`  ⇔ the block falls off its end (`runFun`: `.ret _ []`) with the tape unchanged and `Final`;
    model `.panic` ⇔ the block panics; the model never returns an error or runs out of fuel, the interpreter is never
    `stuck` and never out of fuel. -/
def SerSim (pj : PJ) (o : Out) (r : Res SerState) : Prop :=
  match r with
  | .ok st => ∃ s', o = .ret s' [] ∧ s'.tape = pj.tape ∧ Final s'.env st
  | .panic => o = .panic
  | _ => False

/-- the strings of the document are shorter than `math.MaxUint32` bytes -/
def StrShort (pj : PJ) : Prop := pj.strings.size < 2^32 - 1 ∧ pj.msg.size < 2^32 - 1

theorem StrShort.bufOK {pj : PJ} (h : StrShort pj) : BufOK pj := ⟨by have := h.2; omega, by have := h.1; omega⟩

theorem StrShort.noMax {pj : PJ} (h : StrShort pj) : NoMaxLenString pj := by
  intro off0 sb hs0
  obtain ⟨off, len, hs⟩ : ∃ off len, stringByteAt pj off len = .ok sb := by
    unfold strAt at hs0
    split at hs0
    · rename_i w len _ _
      split at hs0
      · split at hs0
        · rename_i sb' hsb
          cases hs0
          exact ⟨_, _, hsb⟩
        · cases hs0
      · cases hs0
    · cases hs0
  have : sb.size < 2^32 - 1 := by
    unfold stringByteAt at hs
    split at hs
    · simp only [] at hs
      split at hs
      · cases hs
      · cases hs
        have := h.2
        simp only [slice, Array.size_extract]
        omega
    · simp only [] at hs
      split at hs
      · cases hs
      · cases hs
        have := h.1
        simp only [slice, Array.size_extract]
        omega
  omega

/-- **2. the tape loop of `Serialize`** from an abstract initial store -/
theorem serialize_loop_sim' (pj : PJ) (hash : Bytes → Nat) (e : Env) (tb vb : Bytes) (F : Nat) (hb : BufOK pj)
    (hnm : NoMaxLenString pj) (hinit : LoopInit pj hash e tb vb) (hF : pj.tape.size + 2 ≤ F) :
    SerSim pj (runFun goFuns goSerialize_loop F ⟨e, pj.tape⟩) (serLoop pj hash {} 0 (pj.tape.size + 1)) := by
  unfold runFun
  rw [loop_body_eq, exec_append]
  obtain ⟨e1, hx1, h1⟩ := pre_exec hinit F
  rw [hx1]
  simp only []
  rw [exec]
  have hl := loop_sim pj hash hb hnm (pj.tape.size + 1) e1 {} 0 0 tb #[] #[] #[] F h1 (by omega) (by omega)
  cases hr : serLoop pj hash {} 0 (pj.tape.size + 1) with
  | ok st =>
    rw [hr] at hl
    obtain ⟨e2, off2, k2, tb2, tw2, vb2, vw2, hx2, h2⟩ := hl
    rw [hx2]
    simp only []
    obtain ⟨e3, hx3, h3⟩ := post_exec h2 F
    rw [hx3]
    exact ⟨⟨e3, pj.tape⟩, rfl, rfl, h3⟩
  | panic =>
    rw [hr] at hl
    simp only [LoopPost] at hl
    rw [hl]
    rfl
  | error _ => rw [hr] at hl; exact hl.elim
  | diverge => rw [hr] at hl; exact hl.elim


/-! ## 3. the assembly block -/

theorem assemble_exec {e : Env} {n : Nat} {m t v sb : Bytes} {rt rv : Nat} (hA : ARO e n m t v sb rt rv)
    (tape : Array UInt64) (fuel : Nat) (tmp d0 : Bytes)
    (ht : e.get "tmp" = some (.bytes tmp)) (hs : tmp.size = 8) (hd : e.get "dst" = some (.bytes d0))
    (hI : AsmInts n m.size t.size v.size sb.size rt rv) :
    (AsmFits n m.size t.size v.size sb.size rt rv →
      ∃ e', exec goFuns fuel goSerialize_assemble.body ⟨e, tape⟩ =
        .ret ⟨e', tape⟩ [.bytes (d0 ++ asmOut n m t v sb.size rt rv)]) ∧
    (¬ AsmFits n m.size t.size v.size sb.size rt rv →
      exec goFuns fuel goSerialize_assemble.body ⟨e, tape⟩ = .panic) := by
  rw [asm_body_eq, push_dst e tape fuel 3 d0 _ hd]
  have hAa := hA.set "dst" (.bytes (d0.push (UInt8.ofNat 3))) (by decide)
  have hta : (e.set "dst" (.bytes (d0.push (UInt8.ofNat 3)))).get "tmp" = some (.bytes tmp) := by simp [ht]
  have hC := count_phase hAa tape fuel tmp (varIntsS :: (emitS "#c9" "#c9.ok" xTotal ++ (emitS "#c10" "#c10.ok" xTape ++ (push0 :: (push0 :: (emitS "#c11" "#c11.ok" xStr ++ (emitS "#c12" "#c12.ok" xMsg ++ (appS "s.sMsg" :: (emitS "#c13" "#c13.ok" xRawT ++ (emitS "#c14" "#c14.ok" xTagsC ++ (appS "s.tagsCompBuf" :: (emitS "#c15" "#c15.ok" xRawV ++ (emitS "#c16" "#c16.ok" xValsC ++ (appS "s.valuesCompBuf" :: [.ret [.v "dst"]])))))))))))))) hta hs hI
  by_cases hcf : CountFits n m.size t.size v.size sb.size rt rv
  case neg =>
    refine ⟨fun hf => absurd hf.1 hcf, fun _ => ?_⟩
    exact hC.2 hcf
  obtain ⟨eb, tmpb, hexb, hAb, htb, hsb, hdb, g1, g2, g3, g4, g5, g6, g7, g8⟩ := hC.1 hcf
  rw [hexb]
  have hdb' : eb.get "dst" = some (.bytes (d0.push (UInt8.ofNat 3))) := by rw [hdb]; simp
  have hvi : exec goFuns fuel (varIntsS :: (emitS "#c9" "#c9.ok" xTotal ++ (emitS "#c10" "#c10.ok" xTape ++ (push0 :: (push0 :: (emitS "#c11" "#c11.ok" xStr ++ (emitS "#c12" "#c12.ok" xMsg ++ (appS "s.sMsg" :: (emitS "#c13" "#c13.ok" xRawT ++ (emitS "#c14" "#c14.ok" xTagsC ++ (appS "s.tagsCompBuf" :: (emitS "#c15" "#c15.ok" xRawV ++ (emitS "#c16" "#c16.ok" xValsC ++ (appS "s.valuesCompBuf" :: [.ret [.v "dst"]])))))))))))))) ⟨eb, tape⟩ =
      exec goFuns fuel (emitS "#c9" "#c9.ok" xTotal ++ (emitS "#c10" "#c10.ok" xTape ++ (push0 :: (push0 :: (emitS "#c11" "#c11.ok" xStr ++ (emitS "#c12" "#c12.ok" xMsg ++ (appS "s.sMsg" :: (emitS "#c13" "#c13.ok" xRawT ++ (emitS "#c14" "#c14.ok" xTagsC ++ (appS "s.tagsCompBuf" :: (emitS "#c15" "#c15.ok" xRawV ++ (emitS "#c16" "#c16.ok" xValsC ++ (appS "s.valuesCompBuf" :: [.ret [.v "dst"]])))))))))))))
        ⟨eb.set "varInts" (.int (asmVarInts n m.size t.size v.size sb.size rt rv : Nat)), tape⟩ := by
    rw [varIntsS]
    exact exec_assign _ _ _ _ _ _ _ (by simp [g1, g2, g3, g4, g5, g6, g7, g8, asmVarInts])
  rw [hvi]
  have hA8 := hAb.set "varInts" (.int (asmVarInts n m.size t.size v.size sb.size rt rv : Nat)) (by decide)
  have ht8 : (eb.set "varInts" (.int (asmVarInts n m.size t.size v.size sb.size rt rv : Nat))).get "tmp" = some (.bytes tmpb) := by
    simp [htb]
  have hs8 := hsb
  have hd8 : (eb.set "varInts" (.int (asmVarInts n m.size t.size v.size sb.size rt rv : Nat))).get "dst" =
      some (.bytes (d0.push (UInt8.ofNat 3))) := by simp [hdb']
  obtain ⟨f2, f3, f4, f5, f6, f7, f8⟩ := hcf
  obtain ⟨i2, i3, i4, i5, i6, i7, i8⟩ := hI
  have hvb : asmVarInts n m.size t.size v.size sb.size rt rv ≤ 64 := by
    have := (uvarint_len_8 0).mpr (by decide)
    have := (uvarint_len_8 m.size).mpr f2
    have := (uvarint_len_8 rt).mpr f3
    have := (uvarint_len_8 t.size).mpr f4
    have := (uvarint_len_8 rv).mpr f5
    have := (uvarint_len_8 v.size).mpr f6
    have := (uvarint_len_8 sb.size).mpr f7
    have := (uvarint_len_8 n).mpr f8
    simp only [asmVarInts]; omega
  have hev9 : evalE ⟨eb.set "varInts" (.int (asmVarInts n m.size t.size v.size sb.size rt rv : Nat)), tape⟩ xTotal =
      .val (.u64 (UInt64.ofNat (asmTotal n m.size t.size v.size sb.size rt rv))) := by
    have e1 : (1 : Int) + m.size + t.size + v.size + (asmVarInts n m.size t.size v.size sb.size rt rv : Nat) =
        ((asmTotal n m.size t.size v.size sb.size rt rv : Nat) : Int) := by simp only [asmTotal]; omega
    simp [xTotal, hA8.sMsg, hA8.tagsC, hA8.valsC, e1, GoSet.ofInt_natCast]
  have P9 := emit_stepI hA8 tape fuel "#c9" "#c9.ok" xTotal (asmTotal n m.size t.size v.size sb.size rt rv) tmpb _ (emitS "#c10" "#c10.ok" xTape ++ (push0 :: (push0 :: (emitS "#c11" "#c11.ok" xStr ++ (emitS "#c12" "#c12.ok" xMsg ++ (appS "s.sMsg" :: (emitS "#c13" "#c13.ok" xRawT ++ (emitS "#c14" "#c14.ok" xTagsC ++ (appS "s.tagsCompBuf" :: (emitS "#c15" "#c15.ok" xRawV ++ (emitS "#c16" "#c16.ok" xValsC ++ (appS "s.valuesCompBuf" :: [.ret [.v "dst"]]))))))))))))
    (by decide) (by decide) (by decide) (by decide) (by decide) (by decide) (by decide) (by decide) (by decide) (by decide) (by decide)
    (by simp only [asmTotal]; omega) hev9 ht8 hs8 hd8
  by_cases hx9 : asmTotal n m.size t.size v.size sb.size rt rv < 2^56
  case neg =>
    refine ⟨fun hf => absurd hf.2 hx9, fun _ => ?_⟩
    exact P9.2 hx9
  refine ⟨fun _ => ?_, fun hn => absurd ⟨⟨f2, f3, f4, f5, f6, f7, f8⟩, hx9⟩ hn⟩
  obtain ⟨e9, tmp9, hex9, hA9, ht9, hs9, hd9⟩ := P9.1 hx9
  rw [hex9]
  have P10 := emit_stepI hA9 tape fuel "#c10" "#c10.ok" xTape (n) tmp9 _ (push0 :: (push0 :: (emitS "#c11" "#c11.ok" xStr ++ (emitS "#c12" "#c12.ok" xMsg ++ (appS "s.sMsg" :: (emitS "#c13" "#c13.ok" xRawT ++ (emitS "#c14" "#c14.ok" xTagsC ++ (appS "s.tagsCompBuf" :: (emitS "#c15" "#c15.ok" xRawV ++ (emitS "#c16" "#c16.ok" xValsC ++ (appS "s.valuesCompBuf" :: [.ret [.v "dst"]])))))))))))
    (by decide) (by decide) (by decide) (by decide) (by decide) (by decide) (by decide) (by decide) (by decide) (by decide) (by decide)
    (by omega) (hA9.evals tape).2.2.2.2.2.2 ht9 hs9 hd9
  obtain ⟨e10, tmp10, hex10, hA10, ht10, hs10, hd10⟩ := P10.1 f8
  rw [hex10]
  obtain ⟨e11, hex11, hA11, ht11, hd11⟩ := push_stepI hA10 tape fuel 0 tmp10 _ (push0 :: (emitS "#c11" "#c11.ok" xStr ++ (emitS "#c12" "#c12.ok" xMsg ++ (appS "s.sMsg" :: (emitS "#c13" "#c13.ok" xRawT ++ (emitS "#c14" "#c14.ok" xTagsC ++ (appS "s.tagsCompBuf" :: (emitS "#c15" "#c15.ok" xRawV ++ (emitS "#c16" "#c16.ok" xValsC ++ (appS "s.valuesCompBuf" :: [.ret [.v "dst"]])))))))))) ht10 hd10
  have hs11 := hs10
  have hex11' : exec goFuns fuel (push0 :: (push0 :: (emitS "#c11" "#c11.ok" xStr ++ (emitS "#c12" "#c12.ok" xMsg ++ (appS "s.sMsg" :: (emitS "#c13" "#c13.ok" xRawT ++ (emitS "#c14" "#c14.ok" xTagsC ++ (appS "s.tagsCompBuf" :: (emitS "#c15" "#c15.ok" xRawV ++ (emitS "#c16" "#c16.ok" xValsC ++ (appS "s.valuesCompBuf" :: [.ret [.v "dst"]]))))))))))) ⟨e10, tape⟩ = _ := hex11
  rw [hex11']
  generalize htm11 : tmp10 = tmp11 at ht11 hs11
  obtain ⟨e12, hex12, hA12, ht12, hd12⟩ := push_stepI hA11 tape fuel 0 tmp11 _ (emitS "#c11" "#c11.ok" xStr ++ (emitS "#c12" "#c12.ok" xMsg ++ (appS "s.sMsg" :: (emitS "#c13" "#c13.ok" xRawT ++ (emitS "#c14" "#c14.ok" xTagsC ++ (appS "s.tagsCompBuf" :: (emitS "#c15" "#c15.ok" xRawV ++ (emitS "#c16" "#c16.ok" xValsC ++ (appS "s.valuesCompBuf" :: [.ret [.v "dst"]]))))))))) ht11 hd11
  have hs12 := hs11
  have hex12' : exec goFuns fuel (push0 :: (emitS "#c11" "#c11.ok" xStr ++ (emitS "#c12" "#c12.ok" xMsg ++ (appS "s.sMsg" :: (emitS "#c13" "#c13.ok" xRawT ++ (emitS "#c14" "#c14.ok" xTagsC ++ (appS "s.tagsCompBuf" :: (emitS "#c15" "#c15.ok" xRawV ++ (emitS "#c16" "#c16.ok" xValsC ++ (appS "s.valuesCompBuf" :: [.ret [.v "dst"]])))))))))) ⟨e11, tape⟩ = _ := hex12
  rw [hex12']
  generalize htm12 : tmp11 = tmp12 at ht12 hs12
  have P13 := emit_stepI hA12 tape fuel "#c11" "#c11.ok" xStr (sb.size) tmp12 _ (emitS "#c12" "#c12.ok" xMsg ++ (appS "s.sMsg" :: (emitS "#c13" "#c13.ok" xRawT ++ (emitS "#c14" "#c14.ok" xTagsC ++ (appS "s.tagsCompBuf" :: (emitS "#c15" "#c15.ok" xRawV ++ (emitS "#c16" "#c16.ok" xValsC ++ (appS "s.valuesCompBuf" :: [.ret [.v "dst"]]))))))))
    (by decide) (by decide) (by decide) (by decide) (by decide) (by decide) (by decide) (by decide) (by decide) (by decide) (by decide)
    (by omega) (hA12.evals tape).2.2.2.1 ht12 hs12 hd12
  obtain ⟨e13, tmp13, hex13, hA13, ht13, hs13, hd13⟩ := P13.1 f7
  rw [hex13]
  have P14 := emit_stepI hA13 tape fuel "#c12" "#c12.ok" xMsg (m.size) tmp13 _ (appS "s.sMsg" :: (emitS "#c13" "#c13.ok" xRawT ++ (emitS "#c14" "#c14.ok" xTagsC ++ (appS "s.tagsCompBuf" :: (emitS "#c15" "#c15.ok" xRawV ++ (emitS "#c16" "#c16.ok" xValsC ++ (appS "s.valuesCompBuf" :: [.ret [.v "dst"]])))))))
    (by decide) (by decide) (by decide) (by decide) (by decide) (by decide) (by decide) (by decide) (by decide) (by decide) (by decide)
    (by omega) (hA13.evals tape).1 ht13 hs13 hd13
  obtain ⟨e14, tmp14, hex14, hA14, ht14, hs14, hd14⟩ := P14.1 f2
  rw [hex14]
  obtain ⟨e15, hex15, hA15, ht15, hd15⟩ := app_stepI hA14 tape fuel "s.sMsg" _ tmp14 _ (emitS "#c13" "#c13.ok" xRawT ++ (emitS "#c14" "#c14.ok" xTagsC ++ (appS "s.tagsCompBuf" :: (emitS "#c15" "#c15.ok" xRawV ++ (emitS "#c16" "#c16.ok" xValsC ++ (appS "s.valuesCompBuf" :: [.ret [.v "dst"]])))))) ht14 hd14 hA14.sMsg
  have hs15 := hs14
  rw [hex15]
  generalize htm15 : tmp14 = tmp15 at ht15 hs15
  have P16 := emit_stepI hA15 tape fuel "#c13" "#c13.ok" xRawT (rt) tmp15 _ (emitS "#c14" "#c14.ok" xTagsC ++ (appS "s.tagsCompBuf" :: (emitS "#c15" "#c15.ok" xRawV ++ (emitS "#c16" "#c16.ok" xValsC ++ (appS "s.valuesCompBuf" :: [.ret [.v "dst"]])))))
    (by decide) (by decide) (by decide) (by decide) (by decide) (by decide) (by decide) (by decide) (by decide) (by decide) (by decide)
    (by omega) (hA15.evals tape).2.2.2.2.1 ht15 hs15 hd15
  obtain ⟨e16, tmp16, hex16, hA16, ht16, hs16, hd16⟩ := P16.1 f3
  rw [hex16]
  have P17 := emit_stepI hA16 tape fuel "#c14" "#c14.ok" xTagsC (t.size) tmp16 _ (appS "s.tagsCompBuf" :: (emitS "#c15" "#c15.ok" xRawV ++ (emitS "#c16" "#c16.ok" xValsC ++ (appS "s.valuesCompBuf" :: [.ret [.v "dst"]]))))
    (by decide) (by decide) (by decide) (by decide) (by decide) (by decide) (by decide) (by decide) (by decide) (by decide) (by decide)
    (by omega) (hA16.evals tape).2.1 ht16 hs16 hd16
  obtain ⟨e17, tmp17, hex17, hA17, ht17, hs17, hd17⟩ := P17.1 f4
  rw [hex17]
  obtain ⟨e18, hex18, hA18, ht18, hd18⟩ := app_stepI hA17 tape fuel "s.tagsCompBuf" _ tmp17 _ (emitS "#c15" "#c15.ok" xRawV ++ (emitS "#c16" "#c16.ok" xValsC ++ (appS "s.valuesCompBuf" :: [.ret [.v "dst"]]))) ht17 hd17 hA17.tagsC
  have hs18 := hs17
  rw [hex18]
  generalize htm18 : tmp17 = tmp18 at ht18 hs18
  have P19 := emit_stepI hA18 tape fuel "#c15" "#c15.ok" xRawV (rv) tmp18 _ (emitS "#c16" "#c16.ok" xValsC ++ (appS "s.valuesCompBuf" :: [.ret [.v "dst"]]))
    (by decide) (by decide) (by decide) (by decide) (by decide) (by decide) (by decide) (by decide) (by decide) (by decide) (by decide)
    (by omega) (hA18.evals tape).2.2.2.2.2.1 ht18 hs18 hd18
  obtain ⟨e19, tmp19, hex19, hA19, ht19, hs19, hd19⟩ := P19.1 f5
  rw [hex19]
  have P20 := emit_stepI hA19 tape fuel "#c16" "#c16.ok" xValsC (v.size) tmp19 _ (appS "s.valuesCompBuf" :: [.ret [.v "dst"]])
    (by decide) (by decide) (by decide) (by decide) (by decide) (by decide) (by decide) (by decide) (by decide) (by decide) (by decide)
    (by omega) (hA19.evals tape).2.2.1 ht19 hs19 hd19
  obtain ⟨e20, tmp20, hex20, hA20, ht20, hs20, hd20⟩ := P20.1 f6
  rw [hex20]
  obtain ⟨e21, hex21, hA21, ht21, hd21⟩ := app_stepI hA20 tape fuel "s.valuesCompBuf" _ tmp20 _ [.ret [.v "dst"]] ht20 hd20 hA20.valsC
  have hs21 := hs20
  rw [hex21]
  generalize htm21 : tmp20 = tmp21 at ht21 hs21
  refine ⟨e21, ?_⟩
  simp [hd21, asmOut]


/-! ## the statements -/

/-- the inputs of the translated loop block, as a concrete store -/
def loopStore (pj : PJ) (hash : Bytes → Nat) (tb vb : Bytes) : St :=
  { env := [("pj.lim", .int pj.tape.size), ("Strings.B", .bytes pj.strings), ("Message", .bytes pj.msg),
      ("s.stringsTable", .u64s (List.replicate 16384 0)), ("s.stringBuf", .bytes #[]), ("s.stringWr.out", .bytes #[]),
      ("s.tagsBuf", .bytes tb), ("s.valuesBuf", .bytes vb), ("tagWr.out", .bytes #[]), ("valWr.out", .bytes #[]),
      ("s.memHash.answers", .u64s (hashTrace pj hash))],
    tape := pj.tape }

theorem loopStore_init (pj : PJ) (hash : Bytes → Nat) (tb vb : Bytes) (htb : tb.size = 65536) :
    LoopInit pj hash (loopStore pj hash tb vb).env tb vb := by
  refine ⟨⟨rfl, rfl, rfl⟩, ?_, rfl, rfl, rfl, htb, rfl, rfl, rfl, rfl⟩
  rw [tblVal_init]
  rfl

/-- **2. the tape loop of `Serialize`** (`goSerialize_loop`) **is `serLoop`**: for every document `pj`, every hash
    function, `s.tagsBuf` of `tagBufSize` bytes and any `s.valuesBuf`, with `len(pj.Tape) + 2` units of fuel.
    `BufOK`: the two string buffers are shorter than 2^63 bytes (Go `int`); `NoMaxLenString`: no string entry has a
    length ≡ 2^32 − 1 (mod 2^32), for which `indexString` panics and the model does not. -/
theorem serialize_loop_sim (pj : PJ) (hash : Bytes → Nat) (tb vb : Bytes) (F : Nat) (hb : BufOK pj)
    (hnm : NoMaxLenString pj) (htb : tb.size = 65536) (hF : pj.tape.size + 2 ≤ F) :
    SerSim pj (runFun goFuns goSerialize_loop F (loopStore pj hash tb vb)) (serLoop pj hash {} 0 (pj.tape.size + 1)) :=
  serialize_loop_sim' pj hash _ tb vb F hb hnm (loopStore_init pj hash tb vb htb) hF

/-- the same under the simpler bound on the buffers -/
theorem serialize_loop_sim_short (pj : PJ) (hash : Bytes → Nat) (tb vb : Bytes) (F : Nat) (hs : StrShort pj)
    (htb : tb.size = 65536) (hF : pj.tape.size + 2 ≤ F) :
    SerSim pj (runFun goFuns goSerialize_loop F (loopStore pj hash tb vb)) (serLoop pj hash {} 0 (pj.tape.size + 1)) :=
  serialize_loop_sim pj hash tb vb F hs.bufOK hs.noMax htb hF

/-! what `SerSim` says, spelled out -/

theorem SerSim.ok {pj : PJ} {o : Out} {r : Res SerState} (h : SerSim pj o r) (st : SerState) (hr : r = .ok st) :
    ∃ s', o = .ret s' [] ∧ s'.tape = pj.tape ∧ Final s'.env st := by subst hr; exact h

theorem SerSim.ok_iff {pj : PJ} {o : Out} {r : Res SerState} (h : SerSim pj o r) :
    (∃ st, r = .ok st) ↔ (∃ s' vs, o = .ret s' vs) := by
  cases r with
  | ok st => obtain ⟨s', rfl, _⟩ := h; exact ⟨fun _ => ⟨s', [], rfl⟩, fun _ => ⟨st, rfl⟩⟩
  | panic => simp only [SerSim] at h; subst h; exact ⟨(fun ⟨_, h⟩ => by cases h), (fun ⟨_, _, h⟩ => by cases h)⟩
  | error _ => exact h.elim
  | diverge => exact h.elim

theorem SerSim.panic_iff {pj : PJ} {o : Out} {r : Res SerState} (h : SerSim pj o r) : r = .panic ↔ o = .panic := by
  cases r with
  | ok st => obtain ⟨s', rfl, _⟩ := h; exact ⟨(fun h => by cases h), (fun h => by cases h)⟩
  | panic => simp only [SerSim] at h; subst h; exact ⟨fun _ => rfl, fun _ => rfl⟩
  | error _ => exact h.elim
  | diverge => exact h.elim

/-- the model neither returns an error nor runs out of fuel; the interpreter is neither stuck nor out of fuel -/
theorem SerSim.total {pj : PJ} {o : Out} {r : Res SerState} (h : SerSim pj o r) :
    (∀ e, r ≠ .error e) ∧ r ≠ .diverge ∧ (∀ w, o ≠ .stuck w) ∧ o ≠ .diverge := by
  cases r with
  | ok st =>
    obtain ⟨s', rfl, _⟩ := h
    exact ⟨(fun _ h => by cases h), (fun h => by cases h), (fun _ h => by cases h), (fun h => by cases h)⟩
  | panic =>
    simp only [SerSim] at h; subst h
    exact ⟨(fun _ h => by cases h), (fun h => by cases h), (fun _ h => by cases h), (fun h => by cases h)⟩
  | error _ => exact h.elim
  | diverge => exact h.elim

/-! ## 3. the assembly block, the statement -/

theorem runFun_of_ret {funs : String → Option FunDef} {fd : FunDef} {fuel : Nat} {s s' : St} {vs : List Val}
    (h : exec funs fuel fd.body s = .ret s' vs) : runFun funs fd fuel s = .ret s' vs := by
  unfold runFun; rw [h]

theorem runFun_of_panic {funs : String → Option FunDef} {fd : FunDef} {fuel : Nat} {s : St}
    (h : exec funs fuel fd.body s = .panic) : runFun funs fd fuel s = .panic := by
  unfold runFun; rw [h]

/-- the inputs of the assembly block, as a concrete store: `len(pj.Tape)`, the three block-writer outputs, the message
    buffer, `dst`, the scratch `tmp`, the two raw lengths -/
def asmStore (n : Nat) (m t v sb d0 tmp : Bytes) (rt rv : Nat) (tape : Array UInt64) : St :=
  { env := [("pj.lim", .int n), ("s.sMsg", .bytes m), ("s.tagsCompBuf", .bytes t), ("s.valuesCompBuf", .bytes v),
      ("s.stringBuf", .bytes sb), ("dst", .bytes d0), ("tmp", .bytes tmp), ("rawTags", .int rt), ("rawValues", .int rv)],
    tape := tape }

/-- **3. the assembly of the container** (`goSerialize_assemble`): when every `PutUvarint` fits the eight bytes of `tmp`
    (`AsmFits`: the four uncompressed lengths and the total are below 2^56) the block returns `dst` followed by `asmOut`;
    otherwise it panics (index out of range inside `binary.PutUvarint`).  `AsmInts`: the lengths are Go `int`s. -/
theorem serialize_assemble_sim (n : Nat) (m t v sb d0 tmp : Bytes) (rt rv : Nat) (tape : Array UInt64) (fuel : Nat)
    (hs : tmp.size = 8) (hI : AsmInts n m.size t.size v.size sb.size rt rv) :
    (AsmFits n m.size t.size v.size sb.size rt rv →
      ∃ s', runFun goFuns goSerialize_assemble fuel (asmStore n m t v sb d0 tmp rt rv tape) =
        .ret s' [.bytes (d0 ++ asmOut n m t v sb.size rt rv)] ∧ s'.tape = tape) ∧
    (¬ AsmFits n m.size t.size v.size sb.size rt rv →
      runFun goFuns goSerialize_assemble fuel (asmStore n m t v sb d0 tmp rt rv tape) = .panic) := by
  have hA : ARO (asmStore n m t v sb d0 tmp rt rv tape).env n m t v sb rt rv := ⟨rfl, rfl, rfl, rfl, rfl, rfl, rfl⟩
  have := assemble_exec hA tape fuel tmp d0 rfl hs rfl hI
  constructor
  · intro hf
    obtain ⟨e', he⟩ := this.1 hf
    exact ⟨_, runFun_of_ret he, rfl⟩
  · intro hf
    exact runFun_of_panic (this.2 hf)

/-- for the sections the model produces — block images `blk sec.msg`, `blk sec.tags`, `blk sec.values`, raw lengths
    their sizes, `dst` empty — the block returns exactly `encodeSections blk sec` -/
theorem serialize_assemble_encodeSections (blk : Bytes → Bytes) (sec : Sections) (tmp : Bytes) (tape : Array UInt64)
    (fuel : Nat) (hs : tmp.size = 8)
    (hI : AsmInts sec.tapeSize (blk sec.msg).size (blk sec.tags).size (blk sec.values).size sec.msg.size sec.tags.size
      sec.values.size)
    (hf : AsmFits sec.tapeSize (blk sec.msg).size (blk sec.tags).size (blk sec.values).size sec.msg.size sec.tags.size
      sec.values.size) :
    ∃ s', runFun goFuns goSerialize_assemble fuel (asmStore sec.tapeSize (blk sec.msg) (blk sec.tags) (blk sec.values)
        sec.msg #[] tmp sec.tags.size sec.values.size tape) = .ret s' [.bytes (encodeSections blk sec)] ∧ s'.tape = tape := by
  obtain ⟨s', h1, h2⟩ := (serialize_assemble_sim sec.tapeSize (blk sec.msg) (blk sec.tags) (blk sec.values) sec.msg #[] tmp
    sec.tags.size sec.values.size tape fuel hs hI).1 hf
  rw [asmOut_eq_encodeSections] at h1
  refine ⟨s', ?_, h2⟩
  rw [h1]
  simp

/-- a sufficient size bound: everything below 2^55 -/
theorem AsmFits_of_small (n ms ts vs sbs rt rv : Nat) (h1 : n < 2^55) (h2 : sbs < 2^55) (h3 : rt < 2^55) (h4 : rv < 2^55)
    (h5 : ms + ts + vs < 2^55) : AsmFits n ms ts vs sbs rt rv ∧ AsmInts n ms ts vs sbs rt rv := by
  have l0 := (uvarint_len_8 0).mpr (by decide)
  have l1 := (uvarint_len_8 ms).mpr (by omega)
  have l2 := (uvarint_len_8 rt).mpr (by omega)
  have l3 := (uvarint_len_8 ts).mpr (by omega)
  have l4 := (uvarint_len_8 rv).mpr (by omega)
  have l5 := (uvarint_len_8 vs).mpr (by omega)
  have l6 := (uvarint_len_8 sbs).mpr (by omega)
  have l7 := (uvarint_len_8 n).mpr (by omega)
  refine ⟨⟨⟨by omega, by omega, by omega, by omega, by omega, by omega, by omega⟩, ?_⟩,
    ⟨by omega, by omega, by omega, by omega, by omega, by omega, by omega⟩⟩
  simp only [asmTotal, asmVarInts]
  omega

/-- the converse, on an example: a tape of 2^56 entries makes the block panic -/
theorem serialize_assemble_panics_example (m t v sb d0 tmp : Bytes) (rt rv : Nat) (tape : Array UInt64) (fuel : Nat)
    (hs : tmp.size = 8) (hI : AsmInts (2^56) m.size t.size v.size sb.size rt rv) :
    runFun goFuns goSerialize_assemble fuel (asmStore (2^56) m t v sb d0 tmp rt rv tape) = .panic :=
  (serialize_assemble_sim (2^56) m t v sb d0 tmp rt rv tape fuel hs hI).2
    (fun hf => absurd hf.1.2.2.2.2.2.2 (by decide))


/-! ## `serialize` end to end -/

theorem serialize_panic_iff (pj : PJ) (hash : Bytes → Nat) (tb vb : Bytes) (F : Nat) (hb : BufOK pj)
    (hnm : NoMaxLenString pj) (htb : tb.size = 65536) (hF : pj.tape.size + 2 ≤ F) :
    serialize pj hash = .panic ↔ runFun goFuns goSerialize_loop F (loopStore pj hash tb vb) = .panic := by
  rw [← (serialize_loop_sim pj hash tb vb F hb hnm htb hF).panic_iff]
  unfold serialize
  cases serLoop pj hash {} 0 (pj.tape.size + 1) with
  | ok st => exact ⟨(fun h => by cases h), (fun h => by cases h)⟩
  | panic => exact ⟨fun _ => rfl, fun _ => rfl⟩
  | error _ => exact ⟨(fun h => by cases h), (fun h => by cases h)⟩
  | diverge => exact ⟨(fun h => by cases h), (fun h => by cases h)⟩

/-- when the model's `serialize` produces `sec`: the loop hands the block writers exactly `sec.tags`, `sec.values`,
    `sec.msg`, counts their lengths, and the assembly run on the block writers' outputs returns `encodeSections blk sec` -/
theorem serialize_follows_source (pj : PJ) (hash : Bytes → Nat) (tb vb : Bytes) (F : Nat) (blk : Bytes → Bytes) (tmp : Bytes)
    (fuel : Nat) (hb : BufOK pj) (hnm : NoMaxLenString pj) (htb : tb.size = 65536) (hF : pj.tape.size + 2 ≤ F)
    (hs : tmp.size = 8) (sec : Sections) (hser : serialize pj hash = .ok sec)
    (hI : AsmInts sec.tapeSize (blk sec.msg).size (blk sec.tags).size (blk sec.values).size sec.msg.size sec.tags.size
      sec.values.size)
    (hf : AsmFits sec.tapeSize (blk sec.msg).size (blk sec.tags).size (blk sec.values).size sec.msg.size sec.tags.size
      sec.values.size) :
    ∃ s1 s2, runFun goFuns goSerialize_loop F (loopStore pj hash tb vb) = .ret s1 [] ∧ s1.tape = pj.tape ∧
      sec.tapeSize = pj.tape.size ∧ sec.strings = #[] ∧
      s1.env.get "tagWr.out" = some (.bytes sec.tags) ∧ s1.env.get "valWr.out" = some (.bytes sec.values) ∧
      s1.env.get "s.stringWr.out" = some (.bytes sec.msg) ∧ s1.env.get "s.stringBuf" = some (.bytes sec.msg) ∧
      s1.env.get "rawTags" = some (.int sec.tags.size) ∧ s1.env.get "rawValues" = some (.int sec.values.size) ∧
      runFun goFuns goSerialize_assemble fuel (asmStore sec.tapeSize (blk sec.msg) (blk sec.tags) (blk sec.values)
        sec.msg #[] tmp sec.tags.size sec.values.size pj.tape) = .ret s2 [.bytes (encodeSections blk sec)] := by
  have hsim := serialize_loop_sim pj hash tb vb F hb hnm htb hF
  unfold serialize at hser
  cases hr : serLoop pj hash {} 0 (pj.tape.size + 1) with
  | ok st =>
    rw [hr] at hser hsim
    simp only [Res.bind_ok, Res.ok.injEq] at hser
    subst hser
    obtain ⟨s1, h1, h2, hfin⟩ := hsim
    obtain ⟨s2, h3, _⟩ := serialize_assemble_encodeSections blk _ tmp pj.tape fuel hs hI hf
    exact ⟨s1, s2, h1, h2, rfl, rfl, hfin.tags, hfin.values, hfin.swr, hfin.sbuf, hfin.rawT, hfin.rawV, h3⟩
  | panic => rw [hr] at hser; cases hser
  | error _ => rw [hr] at hser; cases hser
  | diverge => rw [hr] at hser; cases hser


/-! ## the one difference between the hand model and the source: `panic("string too long")` -/

/-- `case TagString` for a string whose length is ≡ 2^32 − 1 (mod 2^32): `indexString` panics -/
theorem case_string_toolong {pj : PJ} {e : Env} {st : SerState} {off : Nat} {ans : List UInt64} {k : Nat}
    {tb tw vb vw : Bytes} (h : LInv pj e st off ans k tb tw vb vw) (f : Nat) (w len : UInt64) (sb : Bytes)
    (hb : BufOK pj) (hp : e.get "payload" = some (.u64 (payloadOf w)))
    (hl : pj.tape[off + 1]? = some len) (hs : stringByteAt pj (payloadOf w) len = .ok sb)
    (hlen : sb.size % 2^32 = 2^32 - 1) :
    exec goFuns (f + 1) (caseBody 1) ⟨e, pj.tape⟩ = .panic := by
  rw [case1_eq, exec, exec1]
  have hev := eval_tape1 pj e off h.doc.lim h.off
  have hpl : evalE ⟨e, pj.tape⟩ (.v "payload") = .val (.u64 (payloadOf w)) := by simp [hp]
  rw [hl] at hev
  have hcall := callFun_sb ⟨e, pj.tape⟩ pj "pj" pj.tape.size (.v "payload") tape1 (payloadOf w) len f hb h.doc.lim
    h.doc.strs h.doc.msg hpl hev
  rw [hcall, hs]
  simp only [sbVals, assignTargets, String.reduceBEq, Bool.false_eq_true, if_false]
  generalize he1 : (((((e.set ("pj" ++ "." ++ "lim") (.int pj.tape.size)).set "Strings.B" (.bytes pj.strings)).set "Message"
    (.bytes pj.msg)).set "sb" (.bytes sb)).set "err" (.bool false)) = e1
  have hk1 : ∀ x ∈ invKeys, e1.get x = e.get x := by
    intro x hx
    subst he1
    simp only [invKeys, List.mem_cons, List.not_mem_nil, or_false] at hx
    rcases hx with rfl | rfl | rfl | rfl | rfl | rfl | rfl | rfl | rfl | rfl | rfl | rfl | rfl | rfl | rfl <;>
      simp [h.doc.lim, h.doc.strs, h.doc.msg]
  have h1 : LInv pj e1 st off ans k tb tw vb vw := h.congr hk1
  have hsb1 : e1.get "sb" = some (.bytes sb) := by subst he1; simp
  have herr1 : e1.get "err" = some (.bool false) := by subst he1; simp
  show exec goFuns (f + 1) _ ⟨e1, pj.tape⟩ = _
  rw [exec_ite_skip _ _ _ _ _ _ (by simp [herr1])]
  rw [exec, exec1]
  rw [indexString_sim_toolong sb ⟨e1, pj.tape⟩ (.v "sb") _ _ _ _ _ _ _ _ f hlen h1.str.tbl h1.str.buf h1.str.wr
    h1.tag.buf h1.val.buf h1.str.ans h1.doc.strs h1.doc.msg (by simp [hsb1])]


/-- a document whose tape is one string entry of 2^32 − 1 bytes, stored in `Message` -/
def longDoc (strings msg : Bytes) : PJ := ⟨#[0x2200000000000000, 0xFFFFFFFF], strings, msg⟩

theorem longDoc_string (strings msg : Bytes) (hm : msg.size = 2^32 - 1) :
    stringByteAt (longDoc strings msg) (payloadOf 0x2200000000000000) 0xFFFFFFFF = .ok (msg.extract 0 4294967295) := by
  have hp : payloadOf 0x2200000000000000 = 0 := by decide
  rw [hp]
  have h1 : ¬ ((0 + 4294967295 : UInt64).toNat > msg.size) := by
    rw [hm]; decide
  have h2 : 4294967295 ≤ msg.size := by omega
  simp [stringByteAt, wSTRINGBUFBIT, longDoc, slice, h1, h2]

/-- the hand model serializes it … -/
theorem long_string_model_ok (hash : Bytes → Nat) (strings msg : Bytes) (hm : msg.size = 2^32 - 1) :
    ∃ st, serLoop (longDoc strings msg) hash {} 0 ((longDoc strings msg).tape.size + 1) = .ok st := by
  have ht : tagOf 0x2200000000000000 = 34 := by decide
  have hsz : (longDoc strings msg).tape.size = 2 := rfl
  have h0 : rd (longDoc strings msg).tape 0 = .ok 0x2200000000000000 := rfl
  have h1 : rd (longDoc strings msg).tape (0 + 1) = .ok 0xFFFFFFFF := rfl
  rw [hsz, serLoop_succ, if_neg (by rw [hsz]; decide)]
  simp only [serBody, h0, Res.bind_ok, serSwitch, ht, h1, longDoc_string strings msg hm]
  simp only [show ¬ ((34 : UInt8) = 78) by decide, if_false, if_true, Res.bind_ok]
  rw [show (2 : Nat) = 1 + 1 from rfl, serLoop_succ, if_pos (by rw [hsz]; decide)]
  exact ⟨_, rfl⟩

/-- … and the source panics in `indexString` (`uint32(len(sb)) >= math.MaxUint32`) -/
theorem long_string_source_panics (hash : Bytes → Nat) (strings msg tb vb : Bytes) (F : Nat) (hm : msg.size = 2^32 - 1)
    (hS : strings.size < 2^63) (htb : tb.size = 65536) (hF : 4 ≤ F) :
    runFun goFuns goSerialize_loop F (loopStore (longDoc strings msg) hash tb vb) = .panic := by
  have hb : BufOK (longDoc strings msg) := ⟨by show msg.size < 2^63; rw [hm]; decide, hS⟩
  apply runFun_of_panic
  rw [loop_body_eq, exec_append]
  obtain ⟨e1, hx1, h1⟩ := pre_exec (loopStore_init (longDoc strings msg) hash tb vb htb) F
  show (match exec goFuns F preS ⟨(loopStore (longDoc strings msg) hash tb vb).env, (longDoc strings msg).tape⟩ with
    | .normal s' => exec goFuns F (.while loopCond loopBody :: postS) s' | o => o) = _
  rw [hx1]
  simp only []
  obtain ⟨F', rfl⟩ : ∃ F', F = F' + 1 := ⟨F - 1, by omega⟩
  obtain ⟨f, rfl⟩ : ∃ f, F' = f + 1 := ⟨F' - 1, by omega⟩
  rw [exec, exec1]
  have hc : evalE ⟨e1, (longDoc strings msg).tape⟩ loopCond = .val (.bool true) := by
    have : (longDoc strings msg).tape.size = 2 := rfl
    simp [loopCond, h1.off, h1.doc.lim, this]
  rw [hc]
  simp only []
  -- the body
  have hbody : exec goFuns (f + 1) loopBody ⟨e1, (longDoc strings msg).tape⟩ = .panic := by
    rw [loopBody_eq]
    simp only [List.cons_append, List.nil_append]
    obtain ⟨e2, k2, tw2, hx2, h2, hk2, _⟩ := flushTags_exec h1 (f + 1) (flushValsS :: (readS ++ (swS :: tailS)))
    rw [hx2]
    obtain ⟨e3, vb3, vw3, hx3, h3, _⟩ := flushVals_exec h2 (f + 1) (readS ++ (swS :: tailS))
    rw [hx3]
    have hw : (longDoc strings msg).tape[0]? = some 0x2200000000000000 := rfl
    rw [read_exec h3 (f + 1) (swS :: tailS) _ hw]
    have h4 := ((h3.set "entry" (.u64 0x2200000000000000) (by decide)).set "ntype" (.u8 (tagOf 0x2200000000000000))
      (by decide)).set "payload" (.u64 (payloadOf 0x2200000000000000)) (by decide)
    rw [exec, sw_select _ _ (tagOf 0x2200000000000000) (f + 1) (by simp)]
    have hk : clauseOf (tagOf 0x2200000000000000) = some 1 := by decide
    rw [hk]
    simp only []
    rw [case_string_toolong h4 f 0x2200000000000000 0xFFFFFFFF (msg.extract 0 4294967295) hb (by simp) rfl
      (longDoc_string strings msg hm) (by simp [hm])]
  rw [hbody]


/-! ## 4. the bundle -/

/-- **`Serializer.Serialize` follows its source**: the hand model (`serLoop`/`serialize`, `encodeSections`) is the meaning
    of the regenerated syntax trees `goSerialize_loop` (which calls `goSerializer_indexString` and
    `goParsedJson_stringByteAt`) and `goSerialize_assemble`. -/
theorem go_serialize_source_tie :
    -- the tape loop
    (∀ (pj : PJ) (hash : Bytes → Nat) (tb vb : Bytes) (F : Nat), BufOK pj → NoMaxLenString pj → tb.size = 65536 →
      pj.tape.size + 2 ≤ F →
      SerSim pj (runFun goFuns goSerialize_loop F (loopStore pj hash tb vb)) (serLoop pj hash {} 0 (pj.tape.size + 1))) ∧
    -- the assembly
    (∀ (n : Nat) (m t v sb d0 tmp : Bytes) (rt rv : Nat) (tape : Array UInt64) (fuel : Nat), tmp.size = 8 →
      AsmInts n m.size t.size v.size sb.size rt rv →
      (AsmFits n m.size t.size v.size sb.size rt rv →
        ∃ s', runFun goFuns goSerialize_assemble fuel (asmStore n m t v sb d0 tmp rt rv tape) =
          .ret s' [.bytes (d0 ++ asmOut n m t v sb.size rt rv)] ∧ s'.tape = tape) ∧
      (¬ AsmFits n m.size t.size v.size sb.size rt rv →
        runFun goFuns goSerialize_assemble fuel (asmStore n m t v sb d0 tmp rt rv tape) = .panic)) ∧
    -- what the assembly returns is the model's container
    (∀ (blk : Bytes → Bytes) (sec : Sections),
      asmOut sec.tapeSize (blk sec.msg) (blk sec.tags) (blk sec.values) sec.msg.size sec.tags.size sec.values.size =
        encodeSections blk sec) ∧
    -- `binary.PutUvarint` of the interpreter is the model's
    (∀ x, uvarintBytes x = putUvarint x) :=
  ⟨fun pj hash tb vb F hb hnm htb hF => serialize_loop_sim pj hash tb vb F hb hnm htb hF,
   fun n m t v sb d0 tmp rt rv tape fuel hs hI => serialize_assemble_sim n m t v sb d0 tmp rt rv tape fuel hs hI,
   asmOut_eq_encodeSections, uvarintBytes_eq_putUvarint⟩

end SJ.GoSerialize
