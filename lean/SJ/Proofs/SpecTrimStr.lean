import SJ.Proofs.SpecTrimBase
namespace SJ.SpecTrim
open SJ SJ.Spec SJ.NumberProofs

/-! ## 3. strings -/

theorem hexVal_ws {c : UInt8} (h : isWs c = true) : Spec.hexVal c = none := (ws_facts c h).2.2.2.2.2.2.2.2.2.2.2.2.2.2.2.2.2.2.2.1

theorem hex4_cons4 (a b c d : UInt8) (r : List UInt8) : Spec.hex4 (a :: b :: c :: d :: r) =
    match Spec.hexVal a, Spec.hexVal b, Spec.hexVal c, Spec.hexVal d with
    | some w, some x, some y, some z => some (w * 4096 + x * 256 + y * 16 + z, r)
    | _, _, _, _ => none := rfl

theorem hex4_none (a b c d : UInt8) (r : List UInt8)
    (h : Spec.hexVal a = none ∨ Spec.hexVal b = none ∨ Spec.hexVal c = none ∨ Spec.hexVal d = none) :
    Spec.hex4 (a :: b :: c :: d :: r) = none := by
  rw [hex4_cons4]
  cases h1 : Spec.hexVal a <;> cases h2 : Spec.hexVal b <;> cases h3 : Spec.hexVal c <;> cases h4 : Spec.hexVal d <;> simp_all

theorem hex4_len {s r : List UInt8} {n : Nat} (h : Spec.hex4 s = some (n, r)) : r.length + 4 = s.length := by
  unfold Spec.hex4 at h
  split at h
  · split at h
    · cases h; simp
    · cases h
  · cases h

theorem hex4_app {b : List UInt8} (hb : b.all isWs = true) (s : List UInt8) :
    Spec.hex4 (s ++ b) = (Spec.hex4 s).map (fun p => (p.1, p.2 ++ b)) := by
  rcases s with _ | ⟨x, _ | ⟨y, _ | ⟨z, _ | ⟨w, t⟩⟩⟩⟩
  · rcases b with _ | ⟨b1, _ | ⟨b2, _ | ⟨b3, _ | ⟨b4, t⟩⟩⟩⟩ <;> try rfl
    simp only [List.all_cons, Bool.and_eq_true] at hb
    rw [List.nil_append, hex4_none _ _ _ _ _ (Or.inl (hexVal_ws hb.1))]; rfl
  · rcases b with _ | ⟨b1, _ | ⟨b2, _ | ⟨b3, t⟩⟩⟩ <;> try rfl
    simp only [List.all_cons, Bool.and_eq_true] at hb
    show Spec.hex4 (x :: b1 :: b2 :: b3 :: t) = _
    rw [hex4_none _ _ _ _ _ (Or.inr (Or.inl (hexVal_ws hb.1)))]; rfl
  · rcases b with _ | ⟨b1, _ | ⟨b2, t⟩⟩ <;> try rfl
    simp only [List.all_cons, Bool.and_eq_true] at hb
    show Spec.hex4 (x :: y :: b1 :: b2 :: t) = _
    rw [hex4_none _ _ _ _ _ (Or.inr (Or.inr (Or.inl (hexVal_ws hb.1))))]; rfl
  · rcases b with _ | ⟨b1, t⟩ <;> try rfl
    simp only [List.all_cons, Bool.and_eq_true] at hb
    show Spec.hex4 (x :: y :: z :: b1 :: t) = _
    rw [hex4_none _ _ _ _ _ (Or.inr (Or.inr (Or.inr (hexVal_ws hb.1))))]; rfl
  · show Spec.hex4 (x :: y :: z :: w :: (t ++ b)) = _
    rw [hex4_cons4, hex4_cons4]
    cases Spec.hexVal x <;> cases Spec.hexVal y <;> cases Spec.hexVal z <;> cases Spec.hexVal w <;> rfl

theorem utf8Len_le (s : List UInt8) : utf8Len s ≤ s.length := by
  unfold utf8Len
  repeat' split
  all_goals (repeat (first | omega | simp only [List.length_cons] | split))

theorem ws_not_ge {w : UInt8} (hw : isWs w = true) (lo : UInt8) (hlo : 0x80 ≤ lo) : ¬ lo ≤ w := by
  have h1 : w < 0x80 := (ws_facts w hw).2.2.2.2.2.2.2.2.2.2.2.2.2.2.2.2.2.2.2.2.1
  rw [UInt8.le_iff_toNat_le] at hlo ⊢
  rw [UInt8.lt_iff_toNat_lt] at h1
  have : (0x80 : UInt8).toNat = 128 := rfl
  omega

theorem utf8Len_app {b : List UInt8} (hb : b.all isWs = true) (c : UInt8) (r : List UInt8) :
    utf8Len (c :: (r ++ b)) = utf8Len (c :: r) := by
  unfold utf8Len
  simp only []
  by_cases h1 : c < 0x80
  · rw [if_pos h1, if_pos h1]
  rw [if_neg h1, if_neg h1]
  by_cases h2 : 0xC2 ≤ c ∧ c ≤ 0xDF
  · rw [if_pos h2, if_pos h2]
    rcases r with _ | ⟨x, t⟩
    · rcases b with _ | ⟨w, b'⟩
      · rfl
      · simp only [List.all_cons, Bool.and_eq_true] at hb
        simp [ws_not_ge hb.1 0x80 (by decide)]
    · rfl
  rw [if_neg h2, if_neg h2]
  by_cases h3 : 0xE0 ≤ c ∧ c ≤ 0xEF
  · rw [if_pos h3, if_pos h3]
    have hlo : (0x80 : UInt8) ≤ (if c == 0xE0 then 0xA0 else 0x80) := by split <;> decide
    rcases r with _ | ⟨x, _ | ⟨y, t⟩⟩
    · rcases b with _ | ⟨w, _ | ⟨w2, b'⟩⟩
      · rfl
      · rfl
      · simp only [List.all_cons, Bool.and_eq_true] at hb
        simp only [List.nil_append]
        rw [if_neg]
        intro h; exact ws_not_ge hb.1 _ hlo h.1
    · rcases b with _ | ⟨w, b'⟩
      · rfl
      · simp only [List.all_cons, Bool.and_eq_true] at hb
        simp [ws_not_ge hb.1 0x80 (by decide)]
    · rfl
  rw [if_neg h3, if_neg h3]
  by_cases h4 : 0xF0 ≤ c ∧ c ≤ 0xF4
  · rw [if_pos h4, if_pos h4]
    have hlo : (0x80 : UInt8) ≤ (if c == 0xF0 then 0x90 else 0x80) := by split <;> decide
    rcases r with _ | ⟨x, _ | ⟨y, _ | ⟨z, t⟩⟩⟩
    · rcases b with _ | ⟨w, _ | ⟨w2, _ | ⟨w3, b'⟩⟩⟩
      · rfl
      · rfl
      · rfl
      · simp only [List.all_cons, Bool.and_eq_true] at hb
        simp only [List.nil_append]
        rw [if_neg]
        intro h; exact ws_not_ge hb.1 _ hlo h.1
    · rcases b with _ | ⟨w, _ | ⟨w2, b'⟩⟩
      · rfl
      · rfl
      · simp only [List.all_cons, Bool.and_eq_true] at hb
        simp [ws_not_ge hb.1 0x80 (by decide)]
    · rcases b with _ | ⟨w, b'⟩
      · rfl
      · simp only [List.all_cons, Bool.and_eq_true] at hb
        simp [ws_not_ge hb.1 0x80 (by decide)]
    · rfl
  rw [if_neg h4, if_neg h4]

/-- the escape `\\uXXXX` that may follow a high surrogate -/
def lowSur (s : List UInt8) : Option (Nat × List UInt8) :=
  match s with
  | 0x5C :: 0x75 :: r3 => Spec.hex4 r3
  | _ => none

theorem lowSur_hit (r3 : List UInt8) : lowSur (0x5C :: 0x75 :: r3) = Spec.hex4 r3 := rfl

theorem lowSur_miss (s : List UInt8) (h : ∀ r3, s ≠ 0x5C :: 0x75 :: r3) : lowSur s = none := by
  unfold lowSur
  split
  · exact absurd rfl (h _)
  · rfl

theorem lowSur_len {s r : List UInt8} {n : Nat} (h : lowSur s = some (n, r)) : r.length + 6 = s.length := by
  unfold lowSur at h
  split at h
  · have := hex4_len h; simp only [List.length_cons]; omega
  · cases h

theorem ws_ne_u {w : UInt8} (h : isWs w = true) : w ≠ 0x75 := by
  rcases ws_cases w h with rfl | rfl | rfl | rfl <;> decide

theorem lowSur_app {b : List UInt8} (hb : b.all isWs = true) (s : List UInt8) :
    lowSur (s ++ b) = (lowSur s).map (fun p => (p.1, p.2 ++ b)) := by
  rcases s with _ | ⟨x, _ | ⟨y, t⟩⟩
  · rcases b with _ | ⟨w, b'⟩
    · rfl
    · simp only [List.all_cons, Bool.and_eq_true] at hb
      have hw : w ≠ 0x5C := (ws_facts w hb.1).2.2.2.2.2.2.2.2.2.2.2.2.2.2.2.2.2.1
      rw [List.nil_append, lowSur_miss _ (fun r3 h => hw (List.cons.inj h).1)]; rfl
  · have e1 : lowSur [x] = none := lowSur_miss _ (fun r3 h => by cases (List.cons.inj h).2)
    rcases b with _ | ⟨w, b'⟩
    · rw [List.append_nil, e1]; rfl
    · simp only [List.all_cons, Bool.and_eq_true] at hb
      rw [e1]
      have e : lowSur ([x] ++ w :: b') = none :=
        lowSur_miss _ (fun r3 h => ws_ne_u hb.1 (List.cons.inj (List.cons.inj h).2).1)
      rw [e]; rfl
  · by_cases hx : x = 0x5C
    · by_cases hy : y = 0x75
      · subst hx; subst hy
        show lowSur (0x5C :: 0x75 :: (t ++ b)) = _
        rw [lowSur_hit, lowSur_hit, hex4_app hb]
      · rw [lowSur_miss (x :: y :: t) (fun r3 h => hy (List.cons.inj (List.cons.inj h).2).1)]
        exact lowSur_miss _ (fun r3 h => hy (List.cons.inj (List.cons.inj h).2).1)
    · rw [lowSur_miss (x :: y :: t) (fun r3 h => hx (List.cons.inj h).1)]
      exact lowSur_miss _ (fun r3 h => hx (List.cons.inj h).1)

inductive Step where
  | done (o : Out (List UInt8))
  | cont (s acc : List UInt8) (outside : Bool)

/-- one iteration of `Spec.stringBody` on a non-empty text -/
def strStep (c : UInt8) (r : List UInt8) (acc : List UInt8) (outside : Bool) : Step :=
    if c == 0x22 then .done (if outside then .out else .acc acc.reverse r)
    else if c < 0x20 then .done .rej
    else if c == 0x5C then
      match r with
      | [] => .done .rej
      | e :: r' =>
        let simple (b : UInt8) := Step.cont r' (b :: acc) outside
        if e == 0x22 then simple 0x22
        else if e == 0x5C then simple 0x5C
        else if e == 0x2F then simple 0x2F
        else if e == 0x62 then simple 0x08
        else if e == 0x66 then simple 0x0C
        else if e == 0x6E then simple 0x0A
        else if e == 0x72 then simple 0x0D
        else if e == 0x74 then simple 0x09
        else if e == 0x75 then
          match Spec.hex4 r' with
          | none => .done .rej
          | some (cu, r'') =>
            if 0xD800 ≤ cu ∧ cu < 0xDC00 then
              match lowSur r'' with
              | some (lo, r4) =>
                if 0xDC00 ≤ lo ∧ lo < 0xE000 then
                  .cont r4 ((utf8 (0x10000 + (cu - 0xD800) * 1024 + (lo - 0xDC00))).reverse ++ acc) outside
                else .cont r'' acc true
              | none => .cont r'' acc true
            else if 0xDC00 ≤ cu ∧ cu < 0xE000 then .cont r'' acc true
            else .cont r'' ((utf8 cu).reverse ++ acc) outside
        else .done .rej
    else if c < 0x80 then .cont r (c :: acc) outside
    else
      let n := utf8Len (c :: r)
      if n == 0 then .cont r acc true
      else .cont ((c :: r).drop n) (((c :: r).take n).reverse ++ acc) outside

def runStep (f : Nat) : Step → Out (List UInt8)
  | .done o => o
  | .cont s a o => stringBody f s a o

theorem ite_run {α β} (g : α → β) (p : Prop) [Decidable p] (a b : β) (a' b' : α) (h1 : a = g a') (h2 : b = g b') :
    (if p then a else b) = g (if p then a' else b') := by
  split <;> assumption

theorem stringBody_cons (f : Nat) (c : UInt8) (r acc : List UInt8) (o : Bool) :
    stringBody (f + 1) (c :: r) acc o = runStep f (strStep c r acc o) := by
  conv => lhs; unfold stringBody
  unfold strStep
  simp only []
  by_cases h1 : (c == 34) = true
  · rw [if_pos h1, if_pos h1]; cases o <;> rfl
  rw [if_neg h1, if_neg h1]
  by_cases h2 : c < 32
  · rw [if_pos h2, if_pos h2]; rfl
  rw [if_neg h2, if_neg h2]
  by_cases h3 : (c == 92) = true
  · rw [if_pos h3, if_pos h3]
    cases r with
    | nil => rfl
    | cons e r' =>
      simp only []
      repeat (refine ite_run _ _ _ _ _ _ rfl ?_)
      refine ite_run _ _ _ _ _ _ ?_ rfl
      · cases Spec.hex4 r' with
        | none => rfl
        | some p =>
          obtain ⟨cu, r''⟩ := p
          refine ite_run _ _ _ _ _ _ ?_ ?_
          · split
            · rename_i r3
              rw [lowSur_hit]
              cases Spec.hex4 r3 with
              | none => rfl
              | some q => obtain ⟨lo, r4⟩ := q; exact ite_run _ _ _ _ _ _ rfl rfl
            · rename_i h
              rw [lowSur_miss _ (fun r3 e => h r3 e)]
              rfl
          · refine ite_run _ _ _ _ _ _ rfl rfl
  rw [if_neg h3, if_neg h3]
  by_cases h4 : c < 128
  · rw [if_pos h4, if_pos h4]; rfl
  rw [if_neg h4, if_neg h4]
  by_cases h5 : (utf8Len (c :: r) == 0) = true
  · rw [if_pos h5, if_pos h5]; rfl
  rw [if_neg h5, if_neg h5]; rfl


theorem stringBody_zero (s acc : List UInt8) (o : Bool) : stringBody 0 s acc o = .rej := by
  unfold stringBody; rfl

theorem stringBody_nil (f : Nat) (acc : List UInt8) (o : Bool) : stringBody f [] acc o = .rej := by
  cases f <;> (unfold stringBody; rfl)

/-- what a step leaves is no longer than `n` -/
def Step.Ok (n : Nat) : Step → Prop
  | .done (.acc _ rest) => rest.length ≤ n
  | .done _ => True
  | .cont s _ _ => s.length ≤ n

theorem ite_pred {α} (P : α → Prop) (p : Prop) [Decidable p] (a b : α) (h1 : p → P a) (h2 : ¬ p → P b) :
    P (if p then a else b) := by
  split
  · exact h1 ‹_›
  · exact h2 ‹_›

theorem strStep_ok (c : UInt8) (r acc : List UInt8) (o : Bool) : (strStep c r acc o).Ok r.length := by
  unfold strStep
  simp only []
  refine ite_pred _ _ _ _ (fun _ => ?_) (fun _ => ?_)
  · cases o
    · exact Nat.le_refl _
    · trivial
  refine ite_pred _ _ _ _ (fun _ => trivial) (fun _ => ?_)
  refine ite_pred _ _ _ _ (fun _ => ?_) (fun _ => ?_)
  · cases r with
    | nil => trivial
    | cons e r' =>
      simp only []
      have hs : ∀ x, (Step.cont r' x o).Ok (e :: r').length := fun x => Nat.le_succ _
      repeat (refine ite_pred _ _ _ _ (fun _ => hs _) (fun _ => ?_))
      refine ite_pred _ _ _ _ (fun _ => ?_) (fun _ => trivial)
      cases hh : Spec.hex4 r' with
      | none => trivial
      | some p =>
        obtain ⟨cu, r''⟩ := p
        have h4 := hex4_len hh
        have hc : ∀ x y, (Step.cont r'' x y).Ok (e :: r').length := fun x y => by
          show r''.length ≤ r'.length + 1
          omega
        refine ite_pred _ _ _ _ (fun _ => ?_) (fun _ => ?_)
        · cases h3 : lowSur r'' with
          | none => exact hc _ _
          | some q =>
            obtain ⟨lo, r4⟩ := q
            have h5 := lowSur_len h3
            refine ite_pred _ _ _ _ (fun _ => ?_) (fun _ => hc _ _)
            show r4.length ≤ r'.length + 1
            omega
        · exact ite_pred _ _ _ _ (fun _ => hc _ _) (fun _ => hc _ _)
  refine ite_pred _ _ _ _ (fun _ => Nat.le_refl _) (fun _ => ?_)
  refine ite_pred _ _ _ _ (fun _ => Nat.le_refl _) (fun h => ?_)
  show (List.drop (utf8Len (c :: r)) (c :: r)).length ≤ r.length
  have : utf8Len (c :: r) ≠ 0 := by simpa using h
  rw [List.length_drop, List.length_cons]
  omega

/-- the step on `s ++ b`, in terms of the step on `s` -/
def Step.app (b : List UInt8) : Step → Step
  | .done (.acc x rest) => .done (.acc x (rest ++ b))
  | .done o => .done o
  | .cont s a o => .cont (s ++ b) a o

theorem ite_run' {α β} (g : α → β) (p : Prop) [Decidable p] (a b : β) (a' b' : α) (h1 : p → a = g a') (h2 : ¬ p → b = g b') :
    (if p then a else b) = g (if p then a' else b') := by
  split
  · exact h1 ‹_›
  · exact h2 ‹_›

theorem strStep_app {b : List UInt8} (hb : b.all isWs = true) (c : UInt8) (r acc : List UInt8) (o : Bool) :
    strStep c (r ++ b) acc o = (strStep c r acc o).app b := by
  unfold strStep
  simp only []
  refine ite_run' _ _ _ _ _ _ (fun _ => ?_) (fun _ => ?_)
  · cases o <;> rfl
  refine ite_run' _ _ _ _ _ _ (fun _ => rfl) (fun _ => ?_)
  refine ite_run' _ _ _ _ _ _ (fun _ => ?_) (fun _ => ?_)
  · cases r with
    | nil =>
      cases b with
      | nil => rfl
      | cons w b' =>
        simp only [List.all_cons, Bool.and_eq_true] at hb
        rcases ws_cases w hb.1 with rfl | rfl | rfl | rfl <;> rfl
    | cons e r' =>
      simp only [List.cons_append]
      repeat (refine ite_run' _ _ _ _ _ _ (fun _ => rfl) (fun _ => ?_))
      refine ite_run' _ _ _ _ _ _ (fun _ => ?_) (fun _ => rfl)
      rw [hex4_app hb]
      cases hh : Spec.hex4 r' with
      | none => rfl
      | some p =>
        obtain ⟨cu, r''⟩ := p
        simp only [Option.map_some]
        refine ite_run' _ _ _ _ _ _ (fun _ => ?_) (fun _ => ?_)
        · rw [lowSur_app hb]
          cases lowSur r'' with
          | none => rfl
          | some q =>
            obtain ⟨lo, r4⟩ := q
            exact ite_run' _ _ _ _ _ _ (fun _ => rfl) (fun _ => rfl)
        · exact ite_run' _ _ _ _ _ _ (fun _ => rfl) (fun _ => rfl)
  refine ite_run' _ _ _ _ _ _ (fun _ => rfl) (fun _ => ?_)
  rw [← List.cons_append, List.cons_append, utf8Len_app hb]
  refine ite_run' _ _ _ _ _ _ (fun _ => rfl) (fun _ => ?_)
  show Step.cont _ _ _ = Step.cont _ _ _
  have hle := utf8Len_le (c :: r)
  rw [← List.cons_append, List.drop_append_of_le_length hle, List.take_append_of_le_length hle]

/-- white space alone never closes a string -/
theorem stringBody_ws : ∀ (f : Nat) (b acc : List UInt8) (o : Bool), b.all isWs = true → stringBody f b acc o = .rej
  | 0, b, acc, o, _ => stringBody_zero b acc o
  | f + 1, [], acc, o, _ => stringBody_nil _ acc o
  | f + 1, w :: b', acc, o, hb => by
    simp only [List.all_cons, Bool.and_eq_true] at hb
    rw [stringBody_cons]
    rcases ws_cases w hb.1 with rfl | rfl | rfl | rfl
    · exact stringBody_ws f b' _ o hb.2
    · rfl
    · rfl
    · rfl

/-- the closing quotation mark is consumed -/
theorem stringBody_acc_len : ∀ (f : Nat) (s acc : List UInt8) (o : Bool) (x rest : List UInt8),
    stringBody f s acc o = .acc x rest → rest.length < s.length
  | 0, s, acc, o, x, rest, h => by rw [stringBody_zero] at h; cases h
  | f + 1, [], acc, o, x, rest, h => by rw [stringBody_nil] at h; cases h
  | f + 1, c :: r, acc, o, x, rest, h => by
    rw [stringBody_cons] at h
    have hok := strStep_ok c r acc o
    cases hst : strStep c r acc o with
    | done q =>
      rw [hst] at h hok
      simp only [runStep] at h
      subst h
      exact Nat.lt_succ_of_le hok
    | cont s' a' o' =>
      rw [hst] at h hok
      have := stringBody_acc_len f s' a' o' x rest h
      have hok' : s'.length ≤ r.length := hok
      simp only [List.length_cons]; omega

/-- the fuel of `stringBody` does not matter once it covers the text -/
theorem stringBody_fuel : ∀ (f f' : Nat) (s acc : List UInt8) (o : Bool), s.length ≤ f → s.length ≤ f' →
    stringBody f s acc o = stringBody f' s acc o
  | _, _, [], acc, o, _, _ => by rw [stringBody_nil, stringBody_nil]
  | 0, _, c :: r, acc, o, h, _ => by simp at h
  | _, 0, c :: r, acc, o, _, h => by simp at h
  | f + 1, f' + 1, c :: r, acc, o, h, h' => by
    rw [stringBody_cons, stringBody_cons]
    have hok := strStep_ok c r acc o
    cases hst : strStep c r acc o with
    | done q => rfl
    | cont s' a' o' =>
      rw [hst] at hok
      have hok' : s'.length ≤ r.length := hok
      simp only [List.length_cons] at h h'
      exact stringBody_fuel f f' s' a' o' (by omega) (by omega)

/-- white space after the text: the string is the same string -/
theorem stringBody_app {b : List UInt8} (hb : b.all isWs = true) : ∀ (f : Nat) (s acc : List UInt8) (o : Bool),
    Same b (stringBody f s acc o) (stringBody f (s ++ b) acc o)
  | 0, s, acc, o => by rw [stringBody_zero, stringBody_zero]; trivial
  | f + 1, [], acc, o => by rw [stringBody_nil, List.nil_append, stringBody_ws _ _ _ _ hb]; trivial
  | f + 1, c :: r, acc, o => by
    rw [List.cons_append, stringBody_cons, stringBody_cons, strStep_app hb]
    cases strStep c r acc o with
    | done q => cases q <;> simp [Step.app, runStep, Same]
    | cont s' a' o' => exact stringBody_app hb f s' a' o'

end SJ.SpecTrim
