import SJ.Proofs.GoInterfaceRec
import SJ.Proofs.Lookup
set_option linter.unusedVariables false
/-
TESTS (executions, not theorems): the regenerated trees of `Iter.Interface`, `Array.Interface`, `Object.Map`
(`Generated/GoSrc.lean`) run by the GoSem interpreter against the hand model (`Model/Object.lean`) on concrete tapes.
`#guard` fails the build when the two sides disagree.
-/
namespace SJ.GoInterfaceTests
open SJ SJ.GoSem SJ.Generated SJ.GoIter SJ.GoObject

/-- outcome of the interpreter against outcome of the model -/
def agree : Out → Res IVal → Bool
  | .ret s [.iface v, .bool false], .ok w => decide (v = w)
  | .ret s [_, .bool true], .error _ => true
  | .panic, .panic => true
  | .diverge, .diverge => true
  | _, _ => false

def goIface (pj : PJ) (i : Iter) (fuel : Nat) : Out :=
  runFun goFuns goIter_Interface fuel ⟨envOf "i" i ++ bufEnv pj, pj.tape⟩
def goArr (pj : PJ) (a : View) (fuel : Nat) : Out :=
  runFun goFuns goArray_Interface fuel ⟨[("a.off", .int a.off), ("a.lim", .int a.lim)] ++ bufEnv pj, pj.tape⟩
def goMap (pj : PJ) (o : View) (fuel : Nat) : Out :=
  runFun goFuns goObject_Map fuel
    ⟨[("o.off", .int o.off), ("o.lim", .int o.lim), ("dst", .iface (.obj [])), ("dst==nil", .bool true)] ++ bufEnv pj, pj.tape⟩

/-- the document `[1,"ab",{"k":null,"k":true},2.5]` -/
def t1 : PJ :=
  { tape := #[mkWord tagRoot 18, mkWord tagArrayStart 17, mkWord tagInteger 0, 1, mkWord tagString 0, 2,
              mkWord tagObjectStart 14, mkWord tagString 2, 1, mkWord tagNull 0, mkWord tagString 3, 1, mkWord tagBoolTrue 0,
              mkWord tagObjectEnd 6, mkWord tagFloat 0, 0x4004000000000000, mkWord tagArrayEnd 1, mkWord tagRoot 0],
    strings := #[], msg := #[97, 98, 107, 107] }

def rootIter (pj : PJ) : Iter :=
  match (View.iter ⟨pj.tape.size, 0⟩).advance pj with
  | .ok (i, _) => i
  | _ => default

def t1val : IVal := .arr [.arr [.int 1, .str #[97, 98], .obj [(#[107], .bool true)], .float 0x4004000000000000]]

def isOk : Res IVal → IVal → Bool
  | .ok v, w => decide (v = w)
  | _, _ => false
def objRes : Res (List (Bytes × IVal)) → Res IVal
  | .ok m => .ok (.obj m)
  | .error e => .error e
  | .panic => .panic
  | .diverge => .diverge

#guard isOk (Iter.interface t1 (rootIter t1) 60) t1val
#guard agree (goIface t1 (rootIter t1) 60) (Iter.interface t1 (rootIter t1) 60)
-- a fresh iterator (type None): the TypeNone branch advances and starts over
#guard agree (goIface t1 (View.iter ⟨18, 0⟩) 60) (Iter.interface t1 (View.iter ⟨18, 0⟩) 60)
-- the inner array / the object on their own
#guard agree (goArr t1 ⟨16, 2⟩ 60) (View.arrInterface t1 (View.iter ⟨16, 2⟩) [] 60)
#guard agree (goMap t1 ⟨13, 7⟩ 60) (objRes (View.objMap t1 ⟨13, 7⟩ [] 60))
-- out of fuel on both sides
#guard agree (goIface t1 (rootIter t1) 3) (Iter.interface t1 (rootIter t1) 3)

/-! ## the fragment of `GoInterfaceRec.lean` is definite on documents below the root (non-vacuity of the tie) -/
def definite {α : Type} : Res α → Bool
  | .diverge => false
  | _ => true
def arrIter (pj : PJ) : Iter :=
  match (rootIter pj).root pj with
  | .ok (_, d) => d
  | _ => default
#guard definite (SJ.GoInterface.interfaceV t1 (arrIter t1) 60)
#guard isOk (SJ.GoInterface.interfaceV t1 (arrIter t1) 60) (.arr [.int 1, .str #[97, 98], .obj [(#[107], .bool true)], .float 0x4004000000000000])
-- the hypothesis `hdef` of `SourceLevelG.source_map_of_document` on the example object of `Lookup` (`{"a":1,"b":2,"a":3}`)
#guard definite (SJ.GoInterface.mapV SJ.Lookup.exPJ ⟨14, 1⟩ [] (fuelOf SJ.Lookup.exPJ))

/-! ## A tape on which model and source differ: a root word directly inside an array

`Array.Interface` calls `i.Interface()` on its own loop iterator; in the `TypeRoot` branch `Interface` moves that
iterator (`typ = i.Advance()`), so the array loop goes on one element further along than the model, which continues
from the iterator as it was before the call.  Replayed on the real library (program kept in
`tmp/port5_interface_root_in_array.go.txt`): `[]interface {}{[]interface {}{7}, true} <nil>`, the source side below.  Tape: `[ root|5, int 7, null, null, true ]`, view `off = 1, lim = 7`. -/
def t2 : PJ :=
  { tape := #[mkWord tagArrayStart 8, mkWord tagRoot 5, mkWord tagInteger 0, 7, mkWord tagNull 0, mkWord tagNull 0,
              mkWord tagBoolTrue 0, mkWord tagArrayEnd 0],
    strings := #[], msg := #[] }

-- source: [[7], true]      model: [[7], null, true]
#guard agree (goArr t2 ⟨7, 1⟩ 60) (.ok (.arr [.arr [.int 7], .bool true]))
#guard isOk (View.arrInterface t2 (View.iter ⟨7, 1⟩) [] 60) (.arr [.arr [.int 7], .null, .bool true])

end SJ.GoInterfaceTests
