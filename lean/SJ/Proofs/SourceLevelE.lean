import SJ.Properties.C12
import SJ.Properties.C10
import SJ.Proofs.SourceLevelA
import SJ.Proofs.SourceLevelB
import SJ.Proofs.SourceLevelC
import SJ.Proofs.SourceLevelD
import SJ.Proofs.GoWrappers
import SJ.Proofs.GoElems
set_option autoImplicit false
set_option linter.unusedVariables false
set_option linter.unusedSimpArgs false
/-
SourceLevelE — property theorems stated directly about the MEANING OF THE GO SOURCE (continuation of SourceLevelA–D).

Each theorem chains a source tie (the hand model is the meaning, under `GoSem.runFun goFuns <tree> fuel ⟨store, tape⟩`, of a
syntax tree regenerated from the Go source on every run) with a property theorem about the hand model.  Except for section 1
(itself a source TIE: the wrapper `Elements.MarshalJSON` against the model `View.elemsMarshal`, the missing instance of
`GoWrappers.wrapper_run`), the conclusions mention no function of the hand model: they speak of the outcome of `runFun`, of
the store it leaves, and of what the tape DENOTES (`Ok pj (.obj p e ms)`, the located members `membersOf ms`, `renderJ ∘ erase`).
Plain data records (`PJ`, `Iter`, `View`, `View.Elem`) occur as carriers of the stores' contents; `elemIter pj v` is an explicit
record of five fields; `iterInts`, `encElems`, `assocGet` are the tie's representation of an `Elements` value in a store.

 1. `elementsMarshalJSON_sim`         `Elements.MarshalJSON()` = `View.elemsMarshal` (wrapper of `MarshalJSONBuffer(nil)`)
 2. `C12_source_parse`                `Object.Parse`: one element per member in order, index = LAST member per key
 3. `C10_source_elements_marshal`     `Parse` then `Elements.MarshalJSONBuffer(buf)` = `buf ++` canonical text of the object
    `C10_source_elements_marshalJSON` the same through the wrapper `Elements.MarshalJSON()`
 4. `C12_source_nextElement` (+ `_end`, `_walk`)  one step of `Object.NextElement`, the last step, the whole walk
Not done: `Object.Map` (`C12_map`) — the function is not translated (no `goObject_Map`, no tie).
-/
namespace SJ.SourceLevelE
open SJ SJ.Generated SJ.GoSem SJ.GoIter SJ.GoObject SJ.Layout

/-! ## 1. `Elements.MarshalJSON` = `return e.MarshalJSONBuffer(nil)` -/

section Wrapper
open SJ.GoWrappers SJ.GoElems
open SJ.GoPJForEach (KS KL OutKeeps Keeps copyGlobals_get_ne)

/-- a three-clause `for` keeps every variable bound when its parts do (the rule missing from `GoPJForEach.KS.*`) -/
theorem KS_forc_nil (c : Expr) {post body : List Stmt} (hp : KL post) (hb : KL body) : KS (.forc [] c post body) := by
  intro fuel
  induction fuel with
  | zero => intro s; rw [exec1]; trivial
  | succ fuel ih =>
    intro s
    rw [exec1]
    split
    · exact Keeps.refl _
    · have h1 := hb fuel s
      revert h1
      have post_case : ∀ s', Keeps s.env s'.env → OutKeeps s.env
          (match exec goFuns fuel post s' with
            | .normal s'' => exec1 goFuns fuel (.forc [] c post body) s''
            | .brk _ | .cont _ => .stuck "break in post statement"
            | o => o) := by
        intro s' h1
        have h2 := hp fuel s'
        revert h2
        cases exec goFuns fuel post s' with
        | normal s'' => intro h2; exact OutKeeps.mono (Keeps.trans h1 h2) (ih s'')
        | brk _ => intro _; trivial
        | cont _ => intro _; trivial
        | ret _ _ => intro h2; exact Keeps.trans h1 h2
        | panic => intro _; trivial
        | diverge => intro _; trivial
        | stuck _ => intro _; trivial
      cases exec goFuns fuel body s with
      | normal s' => intro h1; exact post_case s' h1
      | cont s' => intro h1; exact post_case s' h1
      | brk s' => intro h1; exact h1
      | ret _ _ => intro h1; exact h1
      | panic => intro _; trivial
      | diverge => intro _; trivial
      | stuck _ => intro _; trivial
    · trivial
    · exact OutKeeps.ofE _ _

theorem KS_forc {init : List Stmt} (c : Expr) {post body : List Stmt} (hi : KL init) (hp : KL post) (hb : KL body) :
    KS (.forc init c post body) := by
  cases init with
  | nil => exact KS_forc_nil c hp hb
  | cons i is =>
    intro fuel s
    cases fuel with
    | zero => rw [exec1]; trivial
    | succ fuel =>
      rw [exec1]
      have h1 := hi fuel s
      revert h1
      cases exec goFuns fuel (i :: is) s with
      | normal s' => intro h1; exact OutKeeps.mono h1 (KS_forc_nil c hp hb fuel s')
      | brk _ => intro _; trivial
      | cont _ => intro _; trivial
      | ret _ _ => intro h1; exact h1
      | panic => intro _; trivial
      | diverge => intro _; trivial
      | stuck _ => intro _; trivial

/-- `Elements.MarshalJSONBuffer` keeps every variable bound (syntactic, as `GoArrMarshal.KL_marshal`,
    `GoWrappers.KL_arrMarshal`): the receiver's five variables can be copied back whatever way the function returns -/
theorem KL_elemsMarshal : KL goElements_MarshalJSONBuffer.body := by
  unfold goElements_MarshalJSONBuffer
  repeat (first
    | exact GoPJForEach.KL.nil
    | apply GoPJForEach.KL.cons
    | apply GoPJForEach.KS.assign | apply GoPJForEach.KS.ret | exact GoPJForEach.KS.brk | exact GoPJForEach.KS.cont
    | apply GoPJForEach.KS.ite | apply GoPJForEach.KS.loop | apply KS_forc
    | apply GoArrMarshal.KS_callAssign | apply GoArrMarshal.KS_extAssign)

/-- the store `e.MarshalJSON()` starts in: the receiver (by value; ANY index `idx`) and the shared buffers —
    `GoElems.elemsEnv` without `dst` -/
def elemsEnv0 (pj : PJ) (es : Array View.Elem) (idx : List Bytes × List Int) : Env :=
  [("e.Elements.Name", .keys (encElems es).1), ("e.Elements.Type", .bytes (encElems es).2.1),
   ("e.Elements.Iter", .ints (encElems es).2.2), ("e.Index.k", .keys idx.1), ("e.Index.v", .ints idx.2)] ++ bufEnv pj

/-- the wrapper run as the callee: the frame `callFun` builds from `elemsEnv0` for `e.MarshalJSONBuffer(nil)` is
    `GoElems.elemsEnv … #[]` -/
theorem elementsMarshalJSON_wrap (pj : PJ) (es : Array View.Elem) (idx : List Bytes × List Int) (F : Nat) :
    Wrap (elemsEnv0 pj es idx) "e" goElements_MarshalJSONBuffer
      (runFun goFuns goElements_MarshalJSONBuffer F ⟨elemsEnv pj es idx #[], pj.tape⟩)
      (runFun goFuns goElements_MarshalJSON (F + 1) ⟨elemsEnv0 pj es idx, pj.tape⟩) :=
  wrapper_run goElements_MarshalJSON goElements_MarshalJSONBuffer "e" "Elements.MarshalJSONBuffer" [.nilB] [.bytes #[]]
    ⟨elemsEnv0 pj es idx, pj.tape⟩
    [("e.Elements.Name", .keys (encElems es).1), ("e.Elements.Type", .bytes (encElems es).2.1),
     ("e.Elements.Iter", .ints (encElems es).2.2), ("e.Index.k", .keys idx.1), ("e.Index.v", .ints idx.2)]
    (elemsEnv pj es idx #[]) F rfl rfl rfl
    (by simp [evalEs, evalE])
    (by simp [copyFields, goElements_MarshalJSONBuffer, elemsEnv0, bufEnv, Env.get, Env.set])
    (by simp [bindParams, copyGlobals, globalVars, goElements_MarshalJSONBuffer, elemsEnv0, elemsEnv, bufEnv, Env.get, Env.set])
    (OutBound_of_keeps goElements_MarshalJSONBuffer (elemsEnv pj es idx #[]) _
      (KL_elemsMarshal F ⟨elemsEnv pj es idx #[], pj.tape⟩) (by
        intro f hf
        simp only [goElements_MarshalJSONBuffer, List.mem_cons, List.not_mem_nil, or_false] at hf
        rcases hf with rfl | rfl | rfl | rfl | rfl <;> simp [goElements_MarshalJSONBuffer, elemsEnv, Env.get]))

/-- `GoElems.SimElems` for a model result that is not `.diverge`, read as equivalences (the argument of
    `GoElems.elems_tie`, for any outcome) -/
theorem simElems_iffs (pj : PJ) (e : Env) (dst : Bytes) (o : Out) (r : Res Bytes) (h : SimElems pj e dst o r)
    (hnd : r ≠ .diverge) :
    (∀ out, r = .ok out ↔
      ∃ s, o = .ret s [.bytes (dst ++ out), .bool false] ∧ s.tape = pj.tape ∧ ∀ key ∈ eVars, s.env.get key = e.get key) ∧
    ((∃ er, r = .error er) ↔ ∃ s, o = .ret s [.bytes #[], .bool true] ∧ ∀ key ∈ eVars, s.env.get key = e.get key) ∧
    (r = .panic ↔ o = .panic) ∧ o ≠ .diverge ∧ (∀ w, o ≠ .stuck w) := by
  cases r with
  | ok out0 =>
    obtain ⟨s, rfl, ht, hk⟩ := h
    refine ⟨fun out => ⟨?_, ?_⟩, ⟨?_, ?_⟩, ⟨?_, ?_⟩, ?_, ?_⟩
    · intro h'; injection h' with h'; subst h'; exact ⟨s, rfl, ht, hk⟩
    · rintro ⟨s', h', _⟩
      simp only [Out.ret.injEq, List.cons.injEq, Val.bytes.injEq] at h'
      rw [Array.append_right_inj dst |>.mp h'.2.1]
    · rintro ⟨er, h'⟩; cases h'
    · rintro ⟨s', h', _⟩; simp at h'
    all_goals (intro h'; cases h')
    intro h'; cases h'
  | error er =>
    obtain ⟨s, rfl, hk⟩ := h
    refine ⟨fun out => ⟨?_, ?_⟩, ⟨?_, ?_⟩, ⟨?_, ?_⟩, ?_, ?_⟩
    · intro h'; cases h'
    · rintro ⟨s', h', _⟩; simp at h'
    · intro _; exact ⟨s, rfl, hk⟩
    · intro _; exact ⟨er, rfl⟩
    all_goals (intro h'; cases h')
    intro h'; cases h'
  | panic =>
    simp only [SimElems] at h
    subst h
    refine ⟨fun out => ⟨?_, ?_⟩, ⟨?_, ?_⟩, ⟨?_, ?_⟩, ?_, ?_⟩
    · intro h'; cases h'
    · rintro ⟨s', h', _⟩; cases h'
    · rintro ⟨er, h'⟩; cases h'
    · rintro ⟨s', h', _⟩; cases h'
    · intro _; rfl
    · intro _; rfl
    · intro h'; cases h'
    · intro w h'; cases h'
  | diverge => exact absurd rfl hnd

/-- the copy-back of `e.MarshalJSON()`: the caller's five receiver variables read afterwards what the callee's read
    when it returned -/
theorem back_eVars (pj : PJ) (es : Array View.Elem) (idx : List Bytes × List Int) (st st' : GoSem.St)
    (h : Back (elemsEnv0 pj es idx) "e" goElements_MarshalJSONBuffer st st')
    (hk : ∀ key ∈ eVars, st.env.get key = (elemsEnv pj es idx #[]).get key) :
    ∀ key ∈ eVars, st'.env.get key = (elemsEnv0 pj es idx).get key := by
  obtain ⟨e2, he2, rfl⟩ := h
  have k1 := hk "e.Elements.Name" (by simp [eVars])
  have k2 := hk "e.Elements.Type" (by simp [eVars])
  have k3 := hk "e.Elements.Iter" (by simp [eVars])
  have k4 := hk "e.Index.k" (by simp [eVars])
  have k5 := hk "e.Index.v" (by simp [eVars])
  simp [elemsEnv, Env.get] at k1 k2 k3 k4 k5
  simp only [copyFields, goElements_MarshalJSONBuffer, String.reduceAppend, k1, k2, k3, k4, k5, Option.some.injEq] at he2
  subst he2
  intro key hkey
  simp only [eVars, List.mem_cons, List.not_mem_nil, or_false] at hkey
  rcases hkey with rfl | rfl | rfl | rfl | rfl <;>
    (show (copyGlobals st.env _ globalVars).get _ = _
     rw [copyGlobals_get_ne _ _ _ _ (by decide)]
     simp [Env.get_set, elemsEnv0, Env.get])

/-- `SimElems` through the call: from the callee on its frame to the wrapper on the caller's store -/
theorem simElems_wrap (pj : PJ) (es : Array View.Elem) (idx : List Bytes × List Int) (oc ow : Out) (r : Res Bytes)
    (h : SimElems pj (elemsEnv pj es idx #[]) #[] oc r)
    (hw : Wrap (elemsEnv0 pj es idx) "e" goElements_MarshalJSONBuffer oc ow) :
    SimElems pj (elemsEnv0 pj es idx) #[] ow r := by
  cases r with
  | ok out =>
    obtain ⟨s, rfl, ht, hk⟩ := h
    obtain ⟨st', rfl, hb⟩ := hw
    exact ⟨st', rfl, hb.tape.trans ht, back_eVars pj es idx s st' hb hk⟩
  | error er =>
    obtain ⟨s, rfl, hk⟩ := h
    obtain ⟨st', rfl, hb⟩ := hw
    exact ⟨st', rfl, back_eVars pj es idx s st' hb hk⟩
  | panic =>
    simp only [SimElems] at h
    subst h
    exact hw
  | diverge => trivial

/-- **`Elements.MarshalJSON()` is `View.elemsMarshal`** (the hand model IS the nil-destination version): all of
    `GoElems.elems_tie` at `dst = nil`, on the store without `dst` (`elemsEnv0`: the receiver's three lists = `encElems es`,
    ANY index, the two buffers), with one more unit of fuel for the call.  For elements whose iterators are views of the
    tape with `cur < 2^63`, wherever the model's inner fuel (`fuelOf pj`, in `Iter.marshalBuf`) suffices:
    model `.ok out` ⇔ the wrapper returns `(out, nil)`, tape unchanged; model `.error _` ⇔ `(nil, err)`;
    model `.panic` ⇔ panic; the interpreter is neither out of fuel nor stuck; in every returning case the caller's five
    receiver variables read as before (by-value receiver, through `callFun`'s copy-back).
    Hypotheses: those of `elems_tie` (`BufOK`: Go `int` buffer lengths; `lim ≤ len(tape)`: views of the tape;
    `cur < 2^63`: the inherited difference of `Iter.MarshalJSONBuffer`, hand-made values only; `≠ .diverge`: the model's own
    fuel) — nothing is added but the unit of fuel. -/
theorem elementsMarshalJSON_sim (pj : PJ) (hb : BufOK pj) (es : Array View.Elem)
    (hes : ∀ x ∈ es, x.iter.lim ≤ pj.tape.size ∧ x.iter.cur.toNat < 2^63) (idx : List Bytes × List Int)
    (F : Nat) (hF : elemsFuel pj es + 1 ≤ F) (hnd : View.elemsMarshal pj es ≠ .diverge) :
    (∀ out, View.elemsMarshal pj es = .ok out ↔
      ∃ s, runFun goFuns goElements_MarshalJSON F ⟨elemsEnv0 pj es idx, pj.tape⟩ = .ret s [.bytes out, .bool false] ∧
        s.tape = pj.tape ∧ ∀ key ∈ eVars, s.env.get key = (elemsEnv0 pj es idx).get key) ∧
    ((∃ er, View.elemsMarshal pj es = .error er) ↔
      ∃ s, runFun goFuns goElements_MarshalJSON F ⟨elemsEnv0 pj es idx, pj.tape⟩ = .ret s [.bytes #[], .bool true] ∧
        ∀ key ∈ eVars, s.env.get key = (elemsEnv0 pj es idx).get key) ∧
    (View.elemsMarshal pj es = .panic ↔
      runFun goFuns goElements_MarshalJSON F ⟨elemsEnv0 pj es idx, pj.tape⟩ = .panic) ∧
    runFun goFuns goElements_MarshalJSON F ⟨elemsEnv0 pj es idx, pj.tape⟩ ≠ .diverge ∧
    (∀ w, runFun goFuns goElements_MarshalJSON F ⟨elemsEnv0 pj es idx, pj.tape⟩ ≠ .stuck w) := by
  obtain ⟨f, rfl⟩ : ∃ f, F = f + 1 := ⟨F - 1, by omega⟩
  have hc := elemsMarshal_sim pj hb es hes #[] (elemsEnv pj es idx #[]) (by simp [elemsEnv, Env.get])
    (by simp [elemsEnv, Env.get]) (by simp [elemsEnv, Env.get]) (by simp [elemsEnv, bufEnv, Env.get])
    (by simp [elemsEnv, bufEnv, Env.get]) (by simp [elemsEnv, bufEnv, Env.get]) f (by omega)
  have h := simElems_iffs pj _ #[] _ _ (simElems_wrap pj es idx _ _ _ hc (elementsMarshalJSON_wrap pj es idx f)) hnd
  simpa only [Array.empty_append] using h

/-- with fuel 0 the wrapper is `.diverge` (the call statement costs one unit): "the callee's fuel + 1" cannot be improved -/
theorem elementsMarshalJSON_fuel_zero (s : GoSem.St) : runFun goFuns goElements_MarshalJSON 0 s = .diverge :=
  retCall_zero _ _ _ _ s rfl

/-- on what `Parse` produces (iterators inside the tape with `0 ≤ addNext`, `GoElems.parse_facts`) the model returns a
    buffer or an error, so the wrapper returns `(out, nil)` or `(nil, err)`: no panic, never out of fuel, never stuck -/
theorem elementsMarshalJSON_safe (pj : PJ) (hb : BufOK pj) (es : Array View.Elem)
    (hes : ∀ x ∈ es, x.iter.lim ≤ pj.tape.size ∧ 0 ≤ x.iter.addNext ∧ x.iter.cur.toNat < 2^63)
    (idx : List Bytes × List Int) (F : Nat) (hF : elemsFuel pj es + 1 ≤ F) :
    (∃ out s, runFun goFuns goElements_MarshalJSON F ⟨elemsEnv0 pj es idx, pj.tape⟩ = .ret s [.bytes out, .bool false] ∧
      s.tape = pj.tape) ∨
    (∃ s, runFun goFuns goElements_MarshalJSON F ⟨elemsEnv0 pj es idx, pj.tape⟩ = .ret s [.bytes #[], .bool true]) := by
  have hs := elemsMarshal_safe pj es (fun x hx => ⟨(hes x hx).1, (hes x hx).2.1⟩)
  obtain ⟨h1, h2, _⟩ := elementsMarshalJSON_sim pj hb es (fun x hx => ⟨(hes x hx).1, (hes x hx).2.2⟩) idx F hF hs.ne_diverge
  rcases hs with ⟨out, ho⟩ | ⟨er, he⟩
  · obtain ⟨s, hr, ht, _⟩ := (h1 out).mp ho
    exact Or.inl ⟨out, s, hr, ht⟩
  · obtain ⟨s, hr, _⟩ := h2.mp ⟨er, he⟩
    exact Or.inr ⟨s, hr⟩

end Wrapper

/-! ## 2. C12 — `Object.Parse` -/

section Parse
open SJ.Tables SJ.WalkLayout SJ.Lookup SJ.GoElems SJ.Properties.C12

/-- the members of a located object in tape order, duplicates included: key bytes and located value -/
def membersOf : LMems → List (Bytes × LVal)
  | .nil => []
  | .cons _ k v ms => (k.toArray, v) :: membersOf ms

theorem membersOf_eq : ∀ ms : LMems, membersOf ms = membersWithKeys [] ms
  | .nil => rfl
  | .cons _ k v ms => by simp only [membersOf, membersWithKeys, true_or, if_true, membersOf_eq ms]

/-- the `Element` `Parse` records for a member (an explicit record): the key bytes, the `Type` of the value's tag, the cursor
    restricted to the words of the value and positioned to step into it -/
def memElem (pj : PJ) (kv : Bytes × LVal) : View.Elem :=
  { name := kv.1, type := tagToTypeSpec (tagOfL kv.2), iter := elemIter pj kv.2 }

theorem memElem_eq (pj : PJ) (kv : Bytes × LVal) : memElem pj kv = elemRec pj kv := by
  unfold memElem elemRec; rw [tagToType_spec]

/-- the elements `Parse` leaves for the members `ms` -/
def memElems (pj : PJ) (ms : LMems) : Array View.Elem := ((membersOf ms).map (memElem pj)).toArray

theorem memElems_eq (pj : PJ) (ms : LMems) : memElems pj ms = ((membersWithKeys [] ms).map (elemRec pj)).toArray := by
  unfold memElems
  rw [membersOf_eq]
  have h : (membersWithKeys [] ms).map (memElem pj) = (membersWithKeys [] ms).map (elemRec pj) :=
    List.map_congr_left fun kv _ => memElem_eq pj kv
  rw [h]

theorem memElems_size (pj : PJ) (ms : LMems) : (memElems pj ms).size = (membersOf ms).length := by simp [memElems]

theorem memElems_name (pj : PJ) (ms : LMems) (q : Nat) (h : q < (memElems pj ms).size) (h' : q < (membersOf ms).length) :
    (memElems pj ms)[q].name = ((membersOf ms)[q]).1 := by simp [memElems, memElem]

/-- the three lists the translation keeps an `Elements` value in, for the members' elements, written out -/
theorem encElems_members (pj : PJ) (ms : LMems) :
    encElems (memElems pj ms) =
      ((membersOf ms).map (·.1), ((membersOf ms).map fun kv => tagToTypeSpec (tagOfL kv.2)).toArray,
        (membersOf ms).flatMap fun kv => iterInts (elemIter pj kv.2)) := by
  unfold encElems memElems
  simp only [List.map_map, List.flatMap_map, Function.comp_def, memElem]

/-- every member value of an `Ok` object is a node of the document, and the recorded cursor stands on it -/
theorem members_ok (pj : PJ) : ∀ (ms : LMems) (lo hi : Nat), OkMems pj ms lo hi →
    ∀ kv ∈ membersOf ms, Ok pj kv.2 ∧ OnNode pj kv.2 (elemIter pj kv.2)
  | .nil, _, _, _, kv, h => by simp [membersOf] at h
  | .cons pk k v ms, lo, hi, hms, kv, h => by
    simp only [OkMems] at hms
    obtain ⟨_, _, _, hok, _, rest⟩ := hms
    simp only [membersOf, List.mem_cons] at h
    rcases h with rfl | h
    · exact ⟨hok, (elemIter_onNode pj v hok).1⟩
    · exact members_ok pj ms _ _ rest kv h

/-- where the receiver stands when `Parse` returns: ON the closing brace (the loop leaves when `NextElement` reports
    `TypeNone`, which does not move past the brace) -/
theorem parseEnd_mems (pj : PJ) : ∀ (fuel : Nat) (ms : LMems) (o : View) (hi : Nat),
    OkMems pj ms o.off hi → TightTop ms → hi < o.lim → (∃ c, word pj hi = some c ∧ tagOf c = tagObjectEnd) →
    o.lim - o.off + 1 < fuel → parseEnd pj o fuel = { lim := o.lim, off := hi } := by
  intro fuel
  induction fuel with
  | zero => intro _ _ _ _ _ _ _ h; omega
  | succ n ih =>
    intro ms o hi hms htight hlt ⟨c, hc, hct⟩ hf
    obtain ⟨lim, off⟩ := o
    simp only at hms hlt hf
    rw [parseEnd]
    cases ms with
    | nil =>
      simp only [OkMems] at hms
      obtain ⟨f', hf1, hf2, he⟩ := nextElementBytes_gap_fuel pj lim hms (by omega) n (by have := hms.1; omega)
      rw [he]
      obtain ⟨f'', rfl⟩ : ∃ f'', f' = f'' + 1 := ⟨f' - 1, by omega⟩
      rw [View.nextElementBytes]
      have h1 : ¬ hi ≥ lim := by omega
      simp only [h1, if_false, rd_word hc, Res.bind_ok, hct, show (tagObjectEnd == tagString) = false from by decide,
        Bool.false_eq_true, beq_self_eq_true, if_true]
    | cons pk k v ms =>
      simp only [OkMems] at hms
      obtain ⟨g1, hs, g2, hok, hfin, rest⟩ := hms
      simp only [TightTop] at htight
      obtain ⟨hp, htms⟩ := htight
      have hpf := pos_lt_fin v pj hok
      have hg1 := g1.1
      obtain ⟨f', hf1, hf2, he⟩ := nextElementBytes_gap_fuel pj lim g1 (by omega) n (by omega)
      rw [he]
      obtain ⟨f'', rfl⟩ : ∃ f'', f' = f'' + 1 := ⟨f' - 1, by omega⟩
      obtain ⟨w, hw, ht, hne⟩ := nextElementBytes_member pj lim pk k v f'' hs hp hok (by omega)
      rw [hne]
      simp only [tagToType_tagOfL_ne_none v, Bool.false_eq_true, if_false]
      exact ih ms { lim := lim, off := v.fin } hi rest htms hlt ⟨c, hc, hct⟩ (by simp only; omega)

/-- **`Object.Parse` at source level** (`C12_parse` ∘ `GoElems.parse_tie` + `index_lookup`).  On a tape that holds the located
    object `.obj p e ms` (gaps of NOP entries before, between and after members; each member's value directly after its key,
    `TightTop`, the hypothesis of `C12_parse`), running `o.Parse(dst)` of `parsed_object.go` (as printed from /repo) on the
    object's view (`off = p+1`, `lim = e`, what `Iter.Object` returns) from ANY store `e0` that binds the receiver, the hidden
    flag `dst == nil` (either value: a nil or a recycled destination) and the two shared buffers — the five destination
    variables may hold anything, or be unbound:
    * returns `(dst, nil)` with `dst` non-nil; the tape is untouched; the flag is cleared (a fresh `Elements` was allocated
      when `dst` was nil);
    * `dst.Elements` holds exactly one element per member, in tape order, duplicates included (`membersOf ms`): its `Name` is
      the key's bytes, its `Type` the type of the value's tag, its `Iter` the cursor restricted to the words of the value and
      standing on it (`elemIter`; flattened to five integers `iterInts`) — nothing of a recycled destination survives;
    * `dst.Index` is a map in which a key is present iff some member has it, and then maps to the position of the LAST
      member with that key (`assocGet` is Go's `idx, ok := Index[key]` on the insertion-ordered association `.mapSet` builds);
    * the receiver stands on the closing brace afterwards (`off = e - 1`);
    * every recorded cursor stands on an `Ok` node of the document (`OnNode`), so the accessors' source-level theorems apply.
    Discharged: `v.lim ≤ len(tape)` (the closing brace of an `Ok` object is a word of the tape), the model fuel, the tie's
    representation functions (`encElems`/`indexOf` are written out).  Kept: `TightTop ms` (of the property: `NextElementBytes`
    does not skip NOPs between a key and its value, `Lookup.gap_key_value_discrepancy`), `BufOK pj` (buffer lengths are Go
    `int`s), the interpreter's loop budget `e - p + 4`. -/
theorem C12_source_parse (pj : PJ) (p e : Nat) (ms : LMems) (hok : Ok pj (.obj p e ms)) (ht : TightTop ms) (hb : BufOK pj)
    (b : Bool) (e0 : Env) (hv : viewAt e0 "o" = some { lim := e, off := p + 1 })
    (hN : e0.get "dst==nil" = some (.bool b)) (hS : e0.get "Strings.B" = some (.bytes pj.strings))
    (hM : e0.get "Message" = some (.bytes pj.msg)) (F : Nat) (hF : e - p + 4 ≤ F) :
    ∃ s, runFun goFuns goObject_Parse F ⟨e0, pj.tape⟩ = .ret s [.bool true, .bool false] ∧ s.tape = pj.tape ∧
      s.env.get "dst==nil" = some (.bool false) ∧
      viewAt s.env "o" = some { lim := e, off := e - 1 } ∧
      s.env.get "dst.Elements.Name" = some (.keys ((membersOf ms).map (·.1))) ∧
      s.env.get "dst.Elements.Type" =
        some (.bytes ((membersOf ms).map fun kv => tagToTypeSpec (tagOfL kv.2)).toArray) ∧
      s.env.get "dst.Elements.Iter" = some (.ints ((membersOf ms).flatMap fun kv => iterInts (elemIter pj kv.2))) ∧
      (∃ ik iv, s.env.get "dst.Index.k" = some (.keys ik) ∧ s.env.get "dst.Index.v" = some (.ints iv) ∧
        ∀ k : Bytes,
          (assocGet (ik, iv) k = none ↔ ∀ kv ∈ membersOf ms, kv.1 ≠ k) ∧
          (∀ x, assocGet (ik, iv) k = some x → ∃ q : Nat, x = (q : Int)) ∧
          ∀ q : Nat, assocGet (ik, iv) k = some (q : Int) ↔
            ∃ h : q < (membersOf ms).length, ((membersOf ms)[q]).1 = k ∧
              ∀ r (hr : r < (membersOf ms).length), q < r → ((membersOf ms)[r]).1 ≠ k) ∧
      ∀ kv ∈ membersOf ms, Ok pj kv.2 ∧ OnNode pj kv.2 (elemIter pj kv.2) := by
  obtain ⟨hms, hlt, hend, hle, _⟩ := obj_parts hok
  have hpe := (SJ.SourceLevelB.obj_end_le hok).1
  have hm := C12_parse pj p e ms hok ht
  rw [← memElems_eq] at hm
  have hmf : (View.mk e (p + 1)).lim - (View.mk e (p + 1)).off + 2 ≤ fuelOf pj := by
    show e - (p + 1) + 2 ≤ fuelOf pj; unfold fuelOf; omega
  have htie := (parse_tie pj hb { lim := e, off := p + 1 } hle b e0 hv hN hS hM (fuelOf pj) F hmf
    (by show e - (p + 1) + 5 ≤ F; omega)).1 (memElems pj ms)
  obtain ⟨s, hrun, htape, hview, hflag, d1, d2, d3, d4, d5⟩ := htie.mp hm
  have hend' := parseEnd_mems pj (fuelOf pj) ms { lim := e, off := p + 1 } (e - 1) hms ht hlt hend
    (by show e - (p + 1) + 1 < fuelOf pj; unfold fuelOf; omega)
  rw [hend'] at hview
  rw [encElems_members] at d1 d2 d3
  refine ⟨s, hrun, htape, hflag, hview, d1, d2, d3, ⟨_, _, d4, d5, fun k => ?_⟩, members_ok pj ms _ _ hms⟩
  obtain ⟨i1, i2, i3⟩ := index_lookup (memElems pj ms) k
  refine ⟨i1.trans ⟨?_, ?_⟩, i2, fun q => (i3 q).trans ⟨?_, ?_⟩⟩
  · intro h kv hkv
    exact h (memElem pj kv) (by simp only [memElems, List.mem_toArray]; exact List.mem_map_of_mem hkv)
  · intro h x hx
    simp only [memElems, List.mem_toArray, List.mem_map] at hx
    obtain ⟨kv, hkv, rfl⟩ := hx
    exact h kv hkv
  · rintro ⟨hq, hn, hlast⟩
    have hq' : q < (membersOf ms).length := by rw [← memElems_size pj]; exact hq
    refine ⟨hq', by rw [← memElems_name pj ms q hq hq']; exact hn, fun r hr hqr => ?_⟩
    have hr' : r < (memElems pj ms).size := by rw [memElems_size]; exact hr
    rw [← memElems_name pj ms r hr' hr]
    exact hlast r hr' hqr
  · rintro ⟨hq, hn, hlast⟩
    have hq' : q < (memElems pj ms).size := by rw [memElems_size]; exact hq
    refine ⟨hq', by rw [memElems_name pj ms q hq' hq]; exact hn, fun r hr hqr => ?_⟩
    have hr' : r < (membersOf ms).length := by rw [← memElems_size pj]; exact hr
    rw [memElems_name pj ms r hr hr']
    exact hlast r hr' hqr

/-- the same, said with the tie's representation: the five destination variables are `encElems`/`indexOf` of the members'
    elements (`GoElems.DstIs`) — the form `C10_source_elements_marshal` consumes -/
theorem C12_source_parse_dstIs (pj : PJ) (p e : Nat) (ms : LMems) (hok : Ok pj (.obj p e ms)) (ht : TightTop ms)
    (hb : BufOK pj) (b : Bool) (e0 : Env) (hv : viewAt e0 "o" = some { lim := e, off := p + 1 })
    (hN : e0.get "dst==nil" = some (.bool b)) (hS : e0.get "Strings.B" = some (.bytes pj.strings))
    (hM : e0.get "Message" = some (.bytes pj.msg)) (F : Nat) (hF : e - p + 4 ≤ F) :
    ∃ s, runFun goFuns goObject_Parse F ⟨e0, pj.tape⟩ = .ret s [.bool true, .bool false] ∧ s.tape = pj.tape ∧
      DstIs s.env (memElems pj ms) := by
  obtain ⟨_, _, _, hle, _⟩ := obj_parts hok
  have hpe := (SJ.SourceLevelB.obj_end_le hok).1
  have hm := C12_parse pj p e ms hok ht
  rw [← memElems_eq] at hm
  obtain ⟨s, hrun, htape, _, _, hd⟩ := ((parse_tie pj hb { lim := e, off := p + 1 } hle b e0 hv hN hS hM (fuelOf pj) F
    (by show e - (p + 1) + 2 ≤ fuelOf pj; unfold fuelOf; omega) (by show e - (p + 1) + 5 ≤ F; omega)).1 (memElems pj ms)).mp hm
  exact ⟨s, hrun, htape, hd⟩

end Parse

/-! ## 3. C10 — `Object.Parse` then `Elements.MarshalJSONBuffer` / `Elements.MarshalJSON` -/

section ElemsMarshal
open SJ.Tables SJ.WalkLayout SJ.Lookup SJ.GoElems SJ.MarshalExact SJ.Properties.C12 SJ.Properties.C10

theorem tightMs1_of_tightTop : ∀ ms : LMems, TightTop ms → TightMs1 ms
  | .nil, _ => trivial
  | .cons _ _ _ ms, h => ⟨h.1, tightMs1_of_tightTop ms h.2⟩

theorem membersOf_length : ∀ ms : LMems, (membersOf ms).length = memCount ms
  | .nil => rfl
  | .cons _ _ _ ms => by simp only [membersOf, memCount, List.length_cons, membersOf_length ms]

/-- **The model half**: on the elements `Parse` records for an `Ok` object with finite floats, the model of
    `Elements.MarshalJSON` computes the canonical text of the object (`C10_array_elements_agree` ∘ `C12_parse`), and the
    elements satisfy the hypotheses of the marshal tie (`GoElems.parse_facts`). -/
theorem elemsMarshal_members (pj : PJ) (p e : Nat) (ms : LMems) (hok : Ok pj (.obj p e ms)) (ht : TightTop ms)
    (hf : FloatsOk (.obj p e ms)) :
    View.elemsMarshal pj (memElems pj ms) = .ok (renderJ (erase (.obj p e ms))) ∧
    (∀ x ∈ memElems pj ms, x.iter.lim ≤ pj.tape.size ∧ 0 ≤ x.iter.addNext ∧ x.iter.cur.toNat < 2^63) ∧
    (memElems pj ms).size < pj.tape.size := by
  obtain ⟨_, _, _, hle, hcnt⟩ := obj_parts hok
  have hpe := (SJ.SourceLevelB.obj_end_le hok).1
  have hm := C12_parse pj p e ms hok ht
  rw [← memElems_eq] at hm
  obtain ⟨es, h1, h2⟩ := (C10_array_elements_agree pj p e).2 ms hok (tightMs1_of_tightTop ms ht) hf
  rw [hm] at h1
  injection h1 with h1
  subst h1
  rw [render_erase] at h2
  refine ⟨h2, ?_, by rw [memElems_size, membersOf_length]; omega⟩
  rcases parse_facts pj (fuelOf pj) { lim := e, off := p + 1 } #[] hle
      (by show e - (p + 1) + 2 ≤ fuelOf pj; unfold fuelOf; omega) (by simp) with ⟨es0, h0, hall⟩ | ⟨er, h0⟩
  · rw [hm] at h0
    injection h0 with h0
    subst h0
    intro x hx
    obtain ⟨⟨a, b⟩, c⟩ := hall x hx
    exact ⟨a, b, by omega⟩
  · rw [hm] at h0; cases h0

/-- **`Object.Parse` then `Elements.MarshalJSONBuffer`, source level** (`C12_source_parse` ∘ `C10_array_elements_agree` ∘
    `GoElems.elems_tie`).  On a tape that holds the located object `.obj p e ms` with finite floats (gaps anywhere except
    between a key and its value: `TightTop`), running `o.Parse(dst)` of `parsed_object.go` on the object's view from any store
    binding the receiver, the flag `dst == nil` and the buffers returns `(dst, nil)`, tape untouched; and then running
    `Elements.MarshalJSONBuffer(buf)` on ANY store `e1` whose receiver lists `e.Elements.{Name,Type,Iter}` read what `Parse`
    left in `dst.Elements.{Name,Type,Iter}` (the value `*dst` passed as the by-value receiver; `e.Index` may hold anything:
    never read), with `buf` and the two buffers, returns `buf ++ renderJ (erase (.obj p e ms))` — `buf` followed by the
    canonical text of the object, which depends on the abstract document only: all members in tape order, duplicates included,
    NOP gaps invisible — and `nil`; the tape is untouched.
    Discharged: all hypotheses of the marshal tie about the elements (`lim ≤ len(tape)`, `cur < 2^63`: `Parse` stores views of
    the tape and 56-bit payloads), non-divergence of the model (the property computes the result), `v.lim ≤ len(tape)`, the
    model fuel.  Kept: `TightTop ms`, `FloatsOk` (a NaN/±Inf float has no JSON text: the marshal then returns an error),
    `BufOK pj` (Go `int` buffer lengths), the interpreter's budgets `e - p + 4` and `4·len(tape) + 30`. -/
theorem C10_source_elements_marshal (pj : PJ) (p e : Nat) (ms : LMems) (hok : Ok pj (.obj p e ms)) (ht : TightTop ms)
    (hf : FloatsOk (.obj p e ms)) (hb : BufOK pj) (b : Bool) (e0 : Env)
    (hv : viewAt e0 "o" = some { lim := e, off := p + 1 }) (hN : e0.get "dst==nil" = some (.bool b))
    (hS : e0.get "Strings.B" = some (.bytes pj.strings)) (hM : e0.get "Message" = some (.bytes pj.msg))
    (F : Nat) (hF : e - p + 4 ≤ F) :
    ∃ s, runFun goFuns goObject_Parse F ⟨e0, pj.tape⟩ = .ret s [.bool true, .bool false] ∧ s.tape = pj.tape ∧
      ∀ (e1 : Env) (buf : Bytes) (G : Nat),
        e1.get "e.Elements.Name" = s.env.get "dst.Elements.Name" →
        e1.get "e.Elements.Type" = s.env.get "dst.Elements.Type" →
        e1.get "e.Elements.Iter" = s.env.get "dst.Elements.Iter" →
        e1.get "dst" = some (.bytes buf) → e1.get "Strings.B" = some (.bytes pj.strings) →
        e1.get "Message" = some (.bytes pj.msg) → 4 * pj.tape.size + 30 ≤ G →
        ∃ st, runFun goFuns goElements_MarshalJSONBuffer G ⟨e1, pj.tape⟩ =
            .ret st [.bytes (buf ++ renderJ (erase (.obj p e ms))), .bool false] ∧ st.tape = pj.tape := by
  obtain ⟨s, hrun, htape, d1, d2, d3, _, _⟩ := C12_source_parse_dstIs pj p e ms hok ht hb b e0 hv hN hS hM F hF
  obtain ⟨hm, hes, hsz⟩ := elemsMarshal_members pj p e ms hok ht hf
  refine ⟨s, hrun, htape, fun e1 buf G g1 g2 g3 g4 g5 g6 hG => ?_⟩
  have hnd : View.elemsMarshal pj (memElems pj ms) ≠ .diverge := by rw [hm]; exact fun h => by cases h
  obtain ⟨st, h1, h2, _⟩ := ((elems_tie pj hb (memElems pj ms) (fun x hx => ⟨(hes x hx).1, (hes x hx).2.2⟩) buf e1
    (g1.trans d1) (g2.trans d2) (g3.trans d3) g4 g5 g6 G (by unfold elemsFuel fuelOf; omega) hnd).1 _).mp hm
  exact ⟨st, h1, h2⟩

/-- **… and `Elements.MarshalJSON()` on the parsed elements returns the canonical text of the object, source level**
    (`elementsMarshalJSON_sim` ∘ the same property).  The store is the conventional one of the wrapper (`elemsEnv0`): the
    receiver's three lists hold the members' elements — `encElems (memElems pj ms)`, written out by `encElems_members`, exactly
    what `C12_source_parse` says `Parse` leaves — ANY index, and the two buffers.  One more unit of fuel for the call. -/
theorem C10_source_elements_marshalJSON (pj : PJ) (p e : Nat) (ms : LMems) (hok : Ok pj (.obj p e ms)) (ht : TightTop ms)
    (hf : FloatsOk (.obj p e ms)) (hb : BufOK pj) (idx : List Bytes × List Int) (G : Nat)
    (hG : 4 * pj.tape.size + 31 ≤ G) :
    ∃ st, runFun goFuns goElements_MarshalJSON G ⟨elemsEnv0 pj (memElems pj ms) idx, pj.tape⟩ =
        .ret st [.bytes (renderJ (erase (.obj p e ms))), .bool false] ∧ st.tape = pj.tape := by
  obtain ⟨hm, hes, hsz⟩ := elemsMarshal_members pj p e ms hok ht hf
  have hnd : View.elemsMarshal pj (memElems pj ms) ≠ .diverge := by rw [hm]; exact fun h => by cases h
  obtain ⟨st, h1, h2, _⟩ := ((elementsMarshalJSON_sim pj hb (memElems pj ms) (fun x hx => ⟨(hes x hx).1, (hes x hx).2.2⟩) idx G
    (by unfold elemsFuel fuelOf; omega) hnd).1 _).mp hm
  exact ⟨st, h1, h2⟩

end ElemsMarshal

/-! ## 4. C12 — walking an object with `Object.NextElement` -/

section NextElement
open SJ.Tables SJ.WalkLayout SJ.Lookup SJ.GoApi SJ.Properties.C12

/-- the model's `NextElementBytes` from anywhere in the NOP gap before a member: the member (what `C12_parse`'s proof uses,
    `nextElementBytes_gap_fuel` + `nextElementBytes_member`) -/
theorem neb_member_step (pj : PJ) (lim lo pk : Nat) (k : List UInt8) (v : LVal) (g1 : Gap pj lo pk) (hs : StrAt pj k pk)
    (hp : v.pos = pk + 2) (hok : Ok pj v) (hfin : v.fin < lim) (mf : Nat) (hmf : lim - lo < mf) :
    View.nextElementBytes pj { lim := lim, off := lo } mf =
      .ok ({ lim := lim, off := v.fin }, some (k.toArray, elemIter pj v, tagToType (tagOfL v))) := by
  have hpf := pos_lt_fin v pj hok
  have hg1 := g1.1
  obtain ⟨f', hf1, hf2, he⟩ := nextElementBytes_gap_fuel pj lim g1 (by omega) mf hmf
  rw [he]
  obtain ⟨f'', rfl⟩ : ∃ f'', f' = f'' + 1 := ⟨f' - 1, by omega⟩
  obtain ⟨w, hw, ht, hne⟩ := nextElementBytes_member pj lim pk k v f'' hs hp hok hfin
  rw [hne]
  unfold elemIter
  rw [headWord_eq hw]

/-- … and from the gap before the closing brace: no element, the receiver on the brace -/
theorem neb_end_step (pj : PJ) (lim lo hi : Nat) (g : Gap pj lo hi) (hlt : hi < lim) (c : UInt64)
    (hc : word pj hi = some c) (hct : tagOf c = tagObjectEnd) (mf : Nat) (hmf : lim - lo < mf) :
    View.nextElementBytes pj { lim := lim, off := lo } mf = .ok ({ lim := lim, off := hi }, none) := by
  have hg := g.1
  obtain ⟨f', hf1, hf2, he⟩ := nextElementBytes_gap_fuel pj lim g (by omega) mf hmf
  rw [he]
  obtain ⟨f'', rfl⟩ : ∃ f'', f' = f'' + 1 := ⟨f' - 1, by omega⟩
  rw [View.nextElementBytes]
  have h1 : ¬ hi ≥ lim := by omega
  simp only [h1, if_false, rd_word hc, Res.bind_ok, hct, show (tagObjectEnd == tagString) = false from by decide,
    Bool.false_eq_true, beq_self_eq_true, if_true]

/-- **One step of `Object.NextElement`, source level** (`GoApi.nextElement_sim`, the theorem behind the `NextElement` line of
    `C12_api_follows_source` / the `NextElementBytes` line of `C12_object_walk_follows_source`, ∘ the member step of
    `C12_parse`'s proof).  The tape holds, between `lo` and `hi`, the located members `(k, v) :: ms` of an object
    (`OkMems`: NOP gaps before and between members) with `v` directly after its key (`v.pos = pk + 2`), and the receiver is
    the view `{off = lo, lim}` with `hi < lim ≤ len(tape)` (the object's view, or what an earlier step left).  Running
    `o.NextElement(dst)` of `parsed_object.go` (as printed from /repo) from ANY store binding the receiver, a complete `*dst`
    (holding anything) and the two buffers returns the member's key bytes as `name`, the `Type` of the value's tag, and `nil`;
    afterwards `*dst` is the cursor restricted to the words of `v` and standing on it (`elemIter`, `OnNode`), the receiver
    stands right after `v` (`off = v.fin`) — so that the remaining members `ms` are again in front of it (`OkMems pj ms v.fin
    hi`: the theorem applies again) — and tape and buffers are untouched.
    Discharged: the model fuel.  Kept: `lim ≤ len(tape)` (a view of the tape), `BufOK pj` (Go `int` buffer lengths), the
    key-value tightness of THIS member (of the property: `NextElementBytes` does not skip NOPs between key and value), the
    interpreter's budget `lim - lo + 2`. -/
theorem C12_source_nextElement (pj : PJ) (lim lo hi pk : Nat) (k : List UInt8) (v : LVal) (ms : LMems)
    (hms : OkMems pj (.cons pk k v ms) lo hi) (hp : v.pos = pk + 2) (hlt : hi < lim) (hl : lim ≤ pj.tape.size)
    (hb : BufOK pj) (d0 : Iter) (e0 : Env) (hv : viewAt e0 "o" = some { lim := lim, off := lo })
    (hd : iterAt e0 "dst" = some d0) (hS : e0.get "Strings.B" = some (.bytes pj.strings))
    (hM : e0.get "Message" = some (.bytes pj.msg)) (F : Nat) (hF : lim - lo + 2 ≤ F) :
    ∃ s, runFun goFuns goObject_NextElement F ⟨e0, pj.tape⟩ =
        .ret s [.bytes k.toArray, .u8 (tagToTypeSpec (tagOfL v)), .bool false] ∧
      s.tape = pj.tape ∧ viewAt s.env "o" = some { lim := lim, off := v.fin } ∧
      iterAt s.env "dst" = some (elemIter pj v) ∧
      s.env.get "Strings.B" = some (.bytes pj.strings) ∧ s.env.get "Message" = some (.bytes pj.msg) ∧
      Ok pj v ∧ OnNode pj v (elemIter pj v) ∧ OkMems pj ms v.fin hi := by
  simp only [OkMems] at hms
  obtain ⟨g1, hs, g2, hok, hfin, rest⟩ := hms
  have hm := neb_member_step pj lim lo pk k v g1 hs hp hok (by omega) (lim - lo + 1) (by omega)
  have hsim := nextElement_sim pj hb { lim := lim, off := lo } d0 e0 hl F (lim - lo + 1) hF (Nat.le_refl _)
    ⟨rfl, hv, hd, hS, hM⟩
  rw [hm] at hsim
  obtain ⟨s, hrun, h1, h2, h3, h4, h5⟩ := hsim
  rw [tagToType_spec] at hrun
  exact ⟨s, hrun, h1, h2, h3, h4, h5, hok, (elemIter_onNode pj v hok).1, rest⟩

/-- **… and the last step**: with only a NOP gap between the receiver and the closing brace at `hi`, `o.NextElement(dst)`
    returns the empty name, `TypeNone` and `nil`; `*dst` is left alone, the receiver stands on the brace (every further call
    answers the same), tape and buffers are untouched. -/
theorem C12_source_nextElement_end (pj : PJ) (lim lo hi : Nat) (hms : OkMems pj .nil lo hi) (hlt : hi < lim)
    (hend : ∃ c, word pj hi = some c ∧ tagOf c = tagObjectEnd) (hl : lim ≤ pj.tape.size) (hb : BufOK pj) (d0 : Iter)
    (e0 : Env) (hv : viewAt e0 "o" = some { lim := lim, off := lo }) (hd : iterAt e0 "dst" = some d0)
    (hS : e0.get "Strings.B" = some (.bytes pj.strings)) (hM : e0.get "Message" = some (.bytes pj.msg))
    (F : Nat) (hF : lim - lo + 2 ≤ F) :
    ∃ s, runFun goFuns goObject_NextElement F ⟨e0, pj.tape⟩ = .ret s [.bytes #[], .u8 typeNone, .bool false] ∧
      s.tape = pj.tape ∧ viewAt s.env "o" = some { lim := lim, off := hi } ∧ iterAt s.env "dst" = some d0 ∧
      s.env.get "Strings.B" = some (.bytes pj.strings) ∧ s.env.get "Message" = some (.bytes pj.msg) := by
  simp only [OkMems] at hms
  obtain ⟨c, hc, hct⟩ := hend
  have hm := neb_end_step pj lim lo hi hms hlt c hc hct (lim - lo + 1) (by omega)
  have hsim := nextElement_sim pj hb { lim := lim, off := lo } d0 e0 hl F (lim - lo + 1) hF (Nat.le_refl _)
    ⟨rfl, hv, hd, hS, hM⟩
  rw [hm] at hsim
  obtain ⟨s, hrun, h1, h2, h3, h4, h5⟩ := hsim
  exact ⟨s, hrun, h1, h2, h3, h4, h5⟩

/-- plain iteration with the regenerated `Object.NextElement`: call it on the store the previous call left, until it
    reports `TypeNone`, at most `n` times; collect `(name, type, *dst after the call)`.  `none`: a non-nil error, a panic,
    any other outcome, or `n` calls were not enough. -/
def srcElements (F : Nat) (tape : Array UInt64) : Nat → Env → Option (List (Bytes × UInt8 × Option Iter))
  | 0, _ => none
  | n + 1, e =>
    match runFun goFuns goObject_NextElement F ⟨e, tape⟩ with
    | .ret s [.bytes nm, .u8 ty, .bool false] =>
      if ty = typeNone then some [] else (srcElements F tape n s.env).map ((nm, ty, iterAt s.env "dst") :: ·)
    | _ => none

theorem srcElements_mems (pj : PJ) (hb : BufOK pj) (lim hi : Nat) (hlt : hi < lim) (hl : lim ≤ pj.tape.size)
    (hend : ∃ c, word pj hi = some c ∧ tagOf c = tagObjectEnd) (F : Nat) :
    ∀ (ms : LMems) (lo : Nat) (d0 : Iter) (e0 : Env) (n : Nat), OkMems pj ms lo hi → TightTop ms →
      viewAt e0 "o" = some { lim := lim, off := lo } → iterAt e0 "dst" = some d0 →
      e0.get "Strings.B" = some (.bytes pj.strings) → e0.get "Message" = some (.bytes pj.msg) →
      lim - lo + 2 ≤ F → memCount ms < n →
      srcElements F pj.tape n e0 =
        some ((membersOf ms).map fun kv => (kv.1, tagToTypeSpec (tagOfL kv.2), some (elemIter pj kv.2)))
  | .nil, lo, d0, e0, n, hms, _, hv, hd, hS, hM, hF, hn => by
    obtain ⟨n', rfl⟩ : ∃ n', n = n' + 1 := ⟨n - 1, by simp only [memCount] at hn; omega⟩
    obtain ⟨s, hrun, _⟩ := C12_source_nextElement_end pj lim lo hi hms hlt hend hl hb d0 e0 hv hd hS hM F hF
    simp only [srcElements, hrun, if_true, membersOf, List.map_nil]
  | .cons pk k v ms, lo, d0, e0, n, hms, ht, hv, hd, hS, hM, hF, hn => by
    obtain ⟨n', rfl⟩ : ∃ n', n = n' + 1 := ⟨n - 1, by simp only [memCount] at hn; omega⟩
    simp only [TightTop] at ht
    obtain ⟨s, hrun, h1, h2, h3, h4, h5, hok, _, rest⟩ :=
      C12_source_nextElement pj lim lo hi pk k v ms hms ht.1 hlt hl hb d0 e0 hv hd hS hM F hF
    have hg : lo ≤ v.fin := by
      simp only [OkMems] at hms
      have := hms.1.1
      have := pos_lt_fin v pj hok
      omega
    have ih := srcElements_mems pj hb lim hi hlt hl hend F ms v.fin (elemIter pj v) s.env n' rest ht.2 h2 h3 h4 h5
      (by omega) (by simp only [memCount] at hn; omega)
    have hne : ¬ tagToTypeSpec (tagOfL v) = typeNone := by
      have := tagToType_tagOfL_ne_none v
      rw [tagToType_spec] at this
      simpa using this
    simp only [srcElements, hrun, hne, if_false, ih, h3, Option.map_some, membersOf, List.map_cons]

/-- **Walking an object with `NextElement` lists every member, source level** (the plain traversal `Parse` is built on).  On
    a tape that holds the located object `.obj p e ms` (`TightTop`), calling the regenerated `o.NextElement(dst)` again and
    again on the object's view — each call on the store the previous one left, from ANY store binding the receiver, a
    complete `*dst` and the buffers — until it reports `TypeNone` (`srcElements`, with any bound `n` above the number of
    members) yields exactly one `(name, type, *dst)` per member, in tape order, duplicates included: the key's bytes, the type
    of the value's tag, and the cursor restricted to the value and standing on it; no call returns an error or panics.
    Hypotheses kept: as `C12_source_parse` (`TightTop`, `BufOK`), budget `e - p + 1` per call. -/
theorem C12_source_nextElement_walk (pj : PJ) (p e : Nat) (ms : LMems) (hok : Ok pj (.obj p e ms)) (ht : TightTop ms)
    (hb : BufOK pj) (d0 : Iter) (e0 : Env) (hv : viewAt e0 "o" = some { lim := e, off := p + 1 })
    (hd : iterAt e0 "dst" = some d0) (hS : e0.get "Strings.B" = some (.bytes pj.strings))
    (hM : e0.get "Message" = some (.bytes pj.msg)) (F : Nat) (hF : e - p + 1 ≤ F) (n : Nat) (hn : memCount ms < n) :
    srcElements F pj.tape n e0 =
      some ((membersOf ms).map fun kv => (kv.1, tagToTypeSpec (tagOfL kv.2), some (elemIter pj kv.2))) := by
  obtain ⟨hms, hlt, hend, hle, _⟩ := obj_parts hok
  have hpe := (SJ.SourceLevelB.obj_end_le hok).1
  exact srcElements_mems pj hb e (e - 1) hlt hle hend F ms (p + 1) d0 e0 n hms ht hv hd hS hM (by omega) hn

end NextElement

/-! ## the premises are satisfiable -/

section Examples
open SJ.Tables SJ.WalkLayout SJ.Lookup SJ.GoElems SJ.MarshalExact

/-- The premises of `C12_source_parse` are satisfiable: on the tape of `{"a":{"b":7}}` (`Lookup.nestPJ`), `Parse` run on the
    source over the outer object's view — `dst` nil or not, the destination holding any junk `old` — leaves one element named
    `a` of type object whose cursor is restricted to the inner object (words 3 … 8), and an index with `a ↦ 0`. -/
example (b : Bool) (old : List Bytes × Bytes × List Int × List Bytes × List Int) :
    ∃ s, runFun goFuns goObject_Parse 100 ⟨parseEnv nestPJ { lim := 10, off := 1 } b old, nestPJ.tape⟩ =
        .ret s [.bool true, .bool false] ∧
      s.env.get "dst.Elements.Name" = some (.keys [#[97]]) ∧ s.env.get "dst.Elements.Type" = some (.bytes #[typeObject]) ∧
      s.env.get "dst.Elements.Iter" = some (.ints (iterInts (elemIter nestPJ (.obj 3 9 nestInner)))) ∧
      (elemIter nestPJ (.obj 3 9 nestInner)).off = 4 ∧ (elemIter nestPJ (.obj 3 9 nestInner)).lim = 9 ∧
      ∃ ik iv, s.env.get "dst.Index.k" = some (.keys ik) ∧ s.env.get "dst.Index.v" = some (.ints iv) ∧
        assocGet (ik, iv) #[97] = some 0 ∧ assocGet (ik, iv) #[98] = none := by
  obtain ⟨s, h1, _, _, _, h5, h6, h7, ⟨ik, iv, i1, i2, hidx⟩, _⟩ := C12_source_parse nestPJ 0 10 nestMems nest_ok ⟨rfl, trivial⟩
    ⟨by decide, by decide⟩ b (parseEnv nestPJ { lim := 10, off := 1 } b old) (by simp [parseEnv, viewAt, Env.get])
    (by simp [parseEnv, bufEnv, Env.get]) (by simp [parseEnv, bufEnv, Env.get]) (by simp [parseEnv, bufEnv, Env.get]) 100
    (by decide)
  refine ⟨s, h1, h5, h6, ?_, rfl, rfl, ik, iv, i1, i2, ?_, ?_⟩
  · simpa [membersOf, nestMems] using h7
  · exact ((hidx #[97]).2.2 0).mpr ⟨by simp [membersOf, nestMems], rfl, fun r hr hlt => by
      simp [membersOf, nestMems] at hr; omega⟩
  · exact (hidx #[98]).1.mpr (by simp [membersOf, nestMems])

/-- The premises of `C10_source_elements_marshalJSON` and `C12_source_nextElement_walk` are satisfiable (same tape):
    `Elements.MarshalJSON` run on the source over the parsed elements returns the canonical text of `{"a":{"b":7}}`; the
    `NextElement` walk lists the one member. -/
example : (∃ st, runFun goFuns goElements_MarshalJSON 200 ⟨elemsEnv0 nestPJ (memElems nestPJ nestMems) ([], []), nestPJ.tape⟩ =
        .ret st [.bytes (renderJ (erase (.obj 0 10 nestMems))), .bool false] ∧ st.tape = nestPJ.tape) ∧
    srcElements 100 nestPJ.tape 2 (neEnv { lim := 10, off := 1 } default nestPJ) =
      some [(#[97], typeObject, some (elemIter nestPJ (.obj 3 9 nestInner)))] :=
  ⟨C10_source_elements_marshalJSON nestPJ 0 10 nestMems nest_ok ⟨rfl, trivial⟩
      (by simp only [FloatsOk, nestMems, FloatsOkMs, nestInner, and_self]) ⟨by decide, by decide⟩ ([], []) 200 (by decide),
   C12_source_nextElement_walk nestPJ 0 10 nestMems nest_ok ⟨rfl, trivial⟩ ⟨by decide, by decide⟩ default _
      (by simp [neEnv, envOf, bufEnv, viewAt, Env.get]) (by simp [neEnv, envOf, bufEnv, iterAt, Env.get])
      (by simp [neEnv, envOf, bufEnv, Env.get]) (by simp [neEnv, envOf, bufEnv, Env.get]) 100 (by decide) 2 (by decide)⟩

end Examples

end SJ.SourceLevelE
