import SJ.Proofs.GoSetLemmas
import SJ.Model.Object
set_option linter.unusedVariables false
set_option linter.unusedSimpArgs false
/-
GoSet — the hand model of the in-place edits (`Model/Access.lean`: `Iter.setFloat`, `setInt`, `setUInt`,
`setStringBytes`, `setBool`, `setNull`, with `set2` and `nopFill`) IS the meaning of the syntax trees the translator
printed from `parsed_json.go` (`Generated/GoSrc.lean`: `goIter_SetFloat` … `goIter_SetStringBytes`).

For every `pj`, every iterator `i` whose view is a prefix of the tape (`hl : i.lim ≤ pj.tape.size`), the store
`envOf "i" i ++ [("Strings.B", .bytes pj.strings), (param, value)]` and the tape `pj.tape`, the outcome of
`runFun` and the result of the model are related by `SimSet` (same return value, same tape, same string buffer, same
receiver; error = nothing changed; panic = panic; never stuck, never out of fuel).  An edit of one of the six Go
functions changes a generated definition and breaks the corresponding proof.

The bounds checks agree: Go checks `i.tape.Tape[k]` against the length of the iterator's view, `len(i.tape.Tape)` = `lim`,
and so does the model (`Iter.wrV`: a write at `k` panics iff `k ≥ lim`, the array check being kept in addition and
implied by `hl`).  An iterator whose view ends inside the value it stands on panics in the model where it panics in Go
(regression examples at the end of this file; in an earlier round the model tested the index against the array only and
these were counterexamples, `View1`/`View2`/`ViewN` hypotheses excluding them).

Hypotheses beyond `hl`, each with its reason:

* SetNull on a container or root: `i.cur.toNat < 2^63` — the model computes `addNext` and the loop bound from
  `i.cur.toNat`, Go from `int(i.cur)`, which is negative from 2^63 on (Go then returns nil with a negative `addNext` and
  fills nothing, the model runs the fill into the end of the view and panics: `cur63_needed`).  Not reachable: a
  container's `cur` is a 56-bit payload.  Asked only for the tags of that clause.
* fuel (SetNull only): `i.cur.toNat - i.off + 2 ≤ fuel` — one unit for the `for` statement, one per iteration, one for
  the final test.  The other five functions are loop-free and run with any fuel, 0 included.

NOT needed (the model agrees with Go as it stands):
* `set2`'s / `setBool`'s / `setNull`'s `if i.off = 0 then .panic`: Go's `i.off-1 = -1` fails the bounds check.
* `-2^63 ≤ v < 2^63` for SetInt: `uint64(v)` of the interpreter and `ofInt64 v` are the same function of `Int`.
* `pj.strings.size < 2^63` for SetStringBytes: `uint64(len(b))` and `UInt64.ofNat b.size` wrap alike.
* order of effects: Go assigns `i.t`, `i.cur` before the writes in SetBool / SetNull(one word) / SetStringBytes; a
  panic discards the receiver, so the model's "check first" is indistinguishable.
-/
namespace SJ.GoSet
open SJ SJ.GoSem SJ.Generated SJ.GoIter

-- simp set for symbolic execution of a concrete syntax tree (as in `GoIterBase`)
attribute [local simp] exec exec1 execCases evalE evalEs Env.get Env.set isOneOf binop convert ofE copyFields bindParams
  iterFields runFun tblLookup

-- the case analysis shared by the functions that write `tape[off-1]` and `tape[off]` (model: `set2`).
-- Expects `i`, `pj`, `hl : i.lim ≤ pj.tape.size` in scope.
set_option hygiene false in
macro "two_word" ht:ident : tactic => `(tactic| (
    simp only [$ht:ident, if_true]
    by_cases h0 : i.off = 0
    · simp [set2_panic _ _ _ _ (Or.inl h0), h0]
    · by_cases h1 : i.off < i.lim
      · have h2 : i.off < pj.tape.size := by omega
        have h3 : i.off - 1 < pj.tape.size := by omega
        have h4 : (1:Int) ≤ i.off ∧ (i.off:Int) - 1 < i.lim ∧ i.off - 1 < pj.tape.size := by omega
        rw [set2_ok _ _ _ _ (by omega) h1 h2]
        simp [h1, h2, h3, h4, mkWord, iterAt, tagFloat, tagInteger, tagUint, tagString, tagNull, tagNop, wSTRINGBUFBIT,
          ofInt_natCast]
      · have h5 : ¬ ((i.off:Int) < i.lim) := by omega
        rw [set2_panic _ _ _ _ (Or.inr (Or.inl (by omega)))]
        by_cases h4 : (1:Int) ≤ i.off ∧ (i.off:Int) - 1 < i.lim ∧ i.off - 1 < pj.tape.size
        · simp [h4, h5]
        · simp [h4]))

/-- `SetFloat(v)`; `bits = math.Float64bits(v)` -/
theorem setFloat_sim (pj : PJ) (i : Iter) (bits : UInt64) (fuel : Nat) (hl : i.lim ≤ pj.tape.size) :
    SimSet pj i (runFun goFuns goIter_SetFloat fuel
        { env := envOf "i" i ++ [("Strings.B", .bytes pj.strings), ("v", .u64 bits)], tape := pj.tape })
      (i.setFloat pj bits) := by
  have hc : swSetFloat = [[[100, 108, 117, 34]]] := rfl
  simp only [goIter_SetFloat, envOf, Iter.setFloat, hc, caseOf, caseOfSw, inCase, SimSet] at *
  simp
  simp only [← UInt8.toNat_inj, UInt8.reduceToNat, @eq_comm Nat _ i.t.toNat]
  by_cases ht : (i.t.toNat = 100 ∨ i.t.toNat = 108 ∨ i.t.toNat = 117 ∨ i.t.toNat = 34)
  · two_word ht
  · simp [ht, iterAt]

/-- `SetInt(v)`, for every `Int` (Go's `int64` is the range `-2^63 ≤ v < 2^63`; the proof does not need it) -/
theorem setInt_sim (pj : PJ) (i : Iter) (v : Int) (fuel : Nat) (hl : i.lim ≤ pj.tape.size) :
    SimSet pj i (runFun goFuns goIter_SetInt fuel
        { env := envOf "i" i ++ [("Strings.B", .bytes pj.strings), ("v", .int v)], tape := pj.tape })
      (i.setInt pj v) := by
  have hc : swSetInt = [[[100, 108, 117, 34]]] := rfl
  simp only [goIter_SetInt, envOf, Iter.setInt, hc, caseOf, caseOfSw, inCase, SimSet] at *
  simp
  simp only [← UInt8.toNat_inj, UInt8.reduceToNat, @eq_comm Nat _ i.t.toNat, ofInt_eq_ofInt64]
  by_cases ht : (i.t.toNat = 100 ∨ i.t.toNat = 108 ∨ i.t.toNat = 117 ∨ i.t.toNat = 34)
  · two_word ht
  · simp [ht, iterAt]

/-- `SetUInt(v)` -/
theorem setUInt_sim (pj : PJ) (i : Iter) (v : UInt64) (fuel : Nat) (hl : i.lim ≤ pj.tape.size) :
    SimSet pj i (runFun goFuns goIter_SetUInt fuel
        { env := envOf "i" i ++ [("Strings.B", .bytes pj.strings), ("v", .u64 v)], tape := pj.tape })
      (i.setUInt pj v) := by
  have hc : swSetUInt = [[[34, 100, 108, 117]]] := rfl
  simp only [goIter_SetUInt, envOf, Iter.setUInt, hc, caseOf, caseOfSw, inCase, SimSet] at *
  simp
  simp only [← UInt8.toNat_inj, UInt8.reduceToNat, @eq_comm Nat _ i.t.toNat]
  by_cases ht : (i.t.toNat = 34 ∨ i.t.toNat = 100 ∨ i.t.toNat = 108 ∨ i.t.toNat = 117)
  · two_word ht
  · simp [ht, iterAt]

/-- `SetStringBytes(v)`: the string buffer grows by `v`, for every length of the buffer -/
theorem setStringBytes_sim (pj : PJ) (i : Iter) (v : Bytes) (fuel : Nat) (hl : i.lim ≤ pj.tape.size) :
    SimSet pj i (runFun goFuns goIter_SetStringBytes fuel
        { env := envOf "i" i ++ [("Strings.B", .bytes pj.strings), ("v", .bytes v)], tape := pj.tape })
      (i.setStringBytes pj v) := by
  have hc : swSetStringBytes = [[[34, 100, 108, 117]]] := rfl
  simp only [goIter_SetStringBytes, envOf, Iter.setStringBytes, hc, caseOf, caseOfSw, inCase, SimSet] at *
  simp
  simp only [← UInt8.toNat_inj, UInt8.reduceToNat, @eq_comm Nat _ i.t.toNat, ofInt_natCast]
  by_cases ht : (i.t.toNat = 34 ∨ i.t.toNat = 100 ∨ i.t.toNat = 108 ∨ i.t.toNat = 117)
  · two_word ht
  · simp [ht, iterAt]

/-- `SetBool(v)` -/
theorem setBool_sim (pj : PJ) (i : Iter) (v : Bool) (fuel : Nat) (hl : i.lim ≤ pj.tape.size) :
    SimSet pj i (runFun goFuns goIter_SetBool fuel
        { env := envOf "i" i ++ [("Strings.B", .bytes pj.strings), ("v", .bool v)], tape := pj.tape })
      (i.setBool pj v) := by
  have hc : swSetBool = [[[116, 102, 110]]] := rfl
  simp only [goIter_SetBool, envOf, Iter.setBool, hc, caseOf, caseOfSw, inCase, SimSet] at *
  simp
  simp only [← UInt8.toNat_inj, UInt8.reduceToNat, @eq_comm Nat _ i.t.toNat]
  by_cases ht : (i.t.toNat = 116 ∨ i.t.toNat = 102 ∨ i.t.toNat = 110)
  · simp only [ht, if_true]
    by_cases h0 : i.off = 0
    · cases v <;> simp [h0]
    · by_cases h1 : i.off ≤ i.lim
      · have h3 : i.off - 1 < pj.tape.size := by omega
        have h4 : (1:Int) ≤ i.off ∧ (i.off:Int) - 1 < i.lim ∧ i.off - 1 < pj.tape.size := by omega
        rw [wrV_ok _ _ _ _ (by omega) h3]
        cases v <;> simp [h0, h3, h4, mkWord, iterAt, tagBoolTrue, tagBoolFalse]
      · have h4 : ¬ ((1:Int) ≤ i.off ∧ (i.off:Int) - 1 < i.lim ∧ i.off - 1 < pj.tape.size) := by omega
        rw [wrV_panic _ _ _ _ (Or.inl (by omega))]
        cases v <;> simp [h0, h4]
  · simp [ht, iterAt]

/-- `SetNull()`; the loop of the container clause is the model's `nopFillV`; fuel `cur - off + 2`.
    `hcur` (asked for the container clause only): `int(i.cur)` is `i.cur.toNat` -/
theorem setNull_sim (pj : PJ) (i : Iter) (fuel : Nat) (hl : i.lim ≤ pj.tape.size)
    (hcur : i.t = tagObjectStart ∨ i.t = tagArrayStart ∨ i.t = tagRoot → i.cur.toNat < 2^63)
    (hf : i.cur.toNat - i.off + 2 ≤ fuel) :
    SimSet pj i (runFun goFuns goIter_SetNull fuel
        { env := envOf "i" i ++ [("Strings.B", .bytes pj.strings)], tape := pj.tape })
      (i.setNull pj) := by
  have hc : swSetNull = [[[116, 102, 110], [34, 100, 108, 117], [123, 91, 114], [256]]] := rfl
  have hNw := hcur
  obtain ⟨f, rfl⟩ : ∃ f, fuel = f + 1 := ⟨fuel - 1, by omega⟩
  simp only [goIter_SetNull, envOf, Iter.setNull, hc, caseOf, caseOfSw, inCase, SimSet,
    tagObjectStart, tagArrayStart, tagRoot] at *
  simp
  simp only [← UInt8.toNat_inj, UInt8.reduceToNat, @eq_comm Nat _ i.t.toNat] at *
  by_cases ht1 : (i.t.toNat = 116 ∨ i.t.toNat = 102 ∨ i.t.toNat = 110)
  · -- one word
    simp only [ht1, if_true]
    by_cases h0 : i.off = 0
    · simp [h0]
    · by_cases h1 : i.off ≤ i.lim
      · have h3 : i.off - 1 < pj.tape.size := by omega
        have h4 : (1:Int) ≤ i.off ∧ (i.off:Int) - 1 < i.lim ∧ i.off - 1 < pj.tape.size := by omega
        rw [wrV_ok _ _ _ _ (by omega) h3]
        simp [h0, h3, h4, mkWord, iterAt, tagNull]
      · have h4 : ¬ ((1:Int) ≤ i.off ∧ (i.off:Int) - 1 < i.lim ∧ i.off - 1 < pj.tape.size) := by omega
        rw [wrV_panic _ _ _ _ (Or.inl (by omega))]
        simp [h0, h4]
  · by_cases ht2 : (i.t.toNat = 34 ∨ i.t.toNat = 100 ∨ i.t.toNat = 108 ∨ i.t.toNat = 117)
    · -- two words
      simp only [ht1, if_false]
      two_word ht2
    · by_cases ht3 : (i.t.toNat = 123 ∨ i.t.toNat = 91 ∨ i.t.toNat = 114)
      · -- container or root: `tape[off-1]`, then the loop
        simp only [ht1, ht2, ht3, if_true, if_false]
        have hcur := hNw ht3
        have hw : mkWord tagNull 0 = ((110 : UInt64) <<< (56 : UInt64)) := by simp [mkWord, tagNull]
        rw [hw]
        by_cases h0 : i.off = 0
        · simp [h0]
        · simp only [h0, if_false]
          by_cases hM : max i.off i.cur.toNat ≤ i.lim
          · have h3 : i.off - 1 < pj.tape.size := by omega
            have h4 : (1:Int) ≤ i.off ∧ (i.off:Int) - 1 < i.lim ∧ i.off - 1 < pj.tape.size := by omega
            obtain ⟨t', ht', he⟩ := nopLoop_ok { i with addNext := (i.cur.toNat : Int) - i.off } pj.strings hcur
              (i.cur.toNat - i.off) i.off (pj.tape.set (i.off - 1) ((110 : UInt64) <<< (56 : UInt64)) h3) f
              (Nat.le_refl _) (by omega) (fun _ => by simp only; omega) (by simpa using hl)
            simp only [envL, nopLoop] at he
            rw [wrV_ok _ _ _ _ (by omega) h3]
            simp only [Res.bind_ok]
            rw [ht']
            simp [h4, toInt64_small _ hcur, he, iterAt, tagNull]
          · by_cases h4 : (1:Int) ≤ i.off ∧ (i.off:Int) - 1 < i.lim ∧ i.off - 1 < pj.tape.size
            · -- the first write succeeds (`off ≤ lim`), so the fill is non-empty and ends beyond the view
              have h3 : i.off - 1 < pj.tape.size := h4.2.2
              have he := nopLoop_panic { i with addNext := (i.cur.toNat : Int) - i.off } pj.strings hcur
                (i.cur.toNat - i.off) i.off (pj.tape.set (i.off - 1) ((110 : UInt64) <<< (56 : UInt64)) h3) f
                (Nat.le_refl _) (by omega) (by simp only; omega) (by simp only; omega) (by simpa using hl)
              simp only [envL, nopLoop] at he
              rw [wrV_ok _ _ _ _ (by omega) h3]
              simp only [Res.bind_ok]
              rw [nopFillV_panic _ _ _ _ _ (Nat.le_refl _) (by omega) (by omega)]
              simp [h4, toInt64_small _ hcur, he]
            · rw [wrV_panic _ _ _ _ (by omega)]
              simp [h4]
      · -- default
        simp [ht1, ht2, ht3, iterAt]

/-- **The six edit functions of the Go source mean what the hand model says.**  One statement for all of them, for every
    iterator whose view is a prefix of the tape. -/
theorem go_set_source_tie (pj : PJ) (i : Iter) (hl : i.lim ≤ pj.tape.size) (fuel : Nat) :
    (∀ bits, SimSet pj i (runFun goFuns goIter_SetFloat fuel
        { env := envOf "i" i ++ [("Strings.B", .bytes pj.strings), ("v", .u64 bits)], tape := pj.tape })
      (i.setFloat pj bits)) ∧
    (∀ v, SimSet pj i (runFun goFuns goIter_SetInt fuel
        { env := envOf "i" i ++ [("Strings.B", .bytes pj.strings), ("v", .int v)], tape := pj.tape })
      (i.setInt pj v)) ∧
    (∀ v, SimSet pj i (runFun goFuns goIter_SetUInt fuel
        { env := envOf "i" i ++ [("Strings.B", .bytes pj.strings), ("v", .u64 v)], tape := pj.tape })
      (i.setUInt pj v)) ∧
    (∀ v, SimSet pj i (runFun goFuns goIter_SetStringBytes fuel
        { env := envOf "i" i ++ [("Strings.B", .bytes pj.strings), ("v", .bytes v)], tape := pj.tape })
      (i.setStringBytes pj v)) ∧
    (∀ v, SimSet pj i (runFun goFuns goIter_SetBool fuel
        { env := envOf "i" i ++ [("Strings.B", .bytes pj.strings), ("v", .bool v)], tape := pj.tape })
      (i.setBool pj v)) ∧
    ((i.t = tagObjectStart ∨ i.t = tagArrayStart ∨ i.t = tagRoot → i.cur.toNat < 2^63) →
      i.cur.toNat - i.off + 2 ≤ fuel → SimSet pj i (runFun goFuns goIter_SetNull fuel
        { env := envOf "i" i ++ [("Strings.B", .bytes pj.strings)], tape := pj.tape })
      (i.setNull pj)) :=
  ⟨fun b => setFloat_sim pj i b fuel hl, fun v => setInt_sim pj i v fuel hl,
   fun v => setUInt_sim pj i v fuel hl, fun v => setStringBytes_sim pj i v fuel hl,
   fun v => setBool_sim pj i v fuel hl, fun hp hf => setNull_sim pj i fuel hl hp hf⟩

/-- every tape the parser makes is shorter than 2^63 words, so is every view of it, and a container inside the view has
    `cur ≤ lim`: the `SetNull` hypothesis in the form the API provides it -/
theorem setNull_cur_of_inView {i : Iter}
    (hN : i.t = tagObjectStart ∨ i.t = tagArrayStart ∨ i.t = tagRoot → i.cur.toNat ≤ i.lim) (hl : i.lim < 2^63) :
    i.t = tagObjectStart ∨ i.t = tagArrayStart ∨ i.t = tagRoot → i.cur.toNat < 2^63 :=
  fun h => by have := hN h; omega

/-! ## Regression: views that end inside the value

History.  Until round 4 the hand model (`Iter.set2`, `setBool`, `setNull` via `wr`, `nopFill`) tested `k < pj.tape.size`
where Go tests `k < len(i.tape.Tape)` = `i.lim`.  For an iterator whose view ends *inside* the value it stands on
(`lim ≤ off` on a two-word value, `lim < off` on a one-word value, `lim < cur` on a container) while the array goes on,
Go panics with "index out of range" and that model reported success and wrote.  The theorems above then carried
`View1`/`View2`/`ViewN` hypotheses excluding such iterators, and the three instances below were the proofs that those
hypotheses could not be dropped.  The model was repaired (`Iter.wrV`, `Iter.nopFillV`: index checked against `i.lim`);
the same instances are now regression tests: the model panics where Go panics, and `SimSet` holds for them.

Reachability.  Every view constructor of the API ends the view at an element boundary computed from the tape
(`AdvanceIter`: `off + addNext`, `NextElementBytes`: `off + elemSize`, `Root`: `cur - 1`, `Object`/`Array`: `cur`), so
on a tape produced by the parser the situation does not arise.  It does arise through the public API on a tape whose
container payload points inside an element (`ParsedJson.Tape` is an exported field; `Root` only checks
`cur ≤ len(tape)`): below, the tape of the document `42` with root payload 3 instead of 4.
`pj.Iter(); Advance(); Root(nil)` returns type `int`, `nil`, and an iterator with a 2-word view standing at offset 2;
`SetInt(7)` on it panics (`index out of range [2] with length 2`, observed on the real package), and so does the model. -/

/-- tape of the document `42` whose root payload (3 instead of 4) points inside the integer -/
def pjBad : PJ := { tape := #[mkWord tagRoot 3, mkWord tagInteger 0, 42, mkWord tagRoot 0], strings := #[], msg := #[] }
/-- the iterator `pj.Iter(); Advance(); Root(nil)` returns on it -/
def iBad : Iter := { lim := 2, off := 2, addNext := 1, cur := 0, t := tagInteger }

/-- `iBad` is what the model's `ofPJ`, `advance`, `root` make of `pjBad` -/
theorem iBad_from_api :
    (match (do let (r, _) ← (Iter.ofPJ pjBad).advance pjBad; let (_, d) ← r.root pjBad; pure d : Res Iter) with
     | .ok d => decide (d = iBad) | _ => false) = true := by
  decide +kernel

/-- two-word value at `off = lim < tape.size` (formerly `view2_needed`): the Go function panics, and so does the model -/
example :
    iBad.lim ≤ pjBad.tape.size ∧ iBad.lim ≤ iBad.off ∧ iBad.off < pjBad.tape.size ∧ (iBad.setInt pjBad 7).isPanic = true ∧
    ∀ fuel, runFun goFuns goIter_SetInt fuel
      { env := envOf "i" iBad ++ [("Strings.B", .bytes pjBad.strings), ("v", .int 7)], tape := pjBad.tape } = .panic := by
  refine ⟨by decide, by decide, by decide, by decide, fun fuel => ?_⟩
  simp [goIter_SetInt, envOf, iBad, pjBad, tagInteger]

example (fuel : Nat) : SimSet pjBad iBad (runFun goFuns goIter_SetInt fuel
      { env := envOf "i" iBad ++ [("Strings.B", .bytes pjBad.strings), ("v", .int 7)], tape := pjBad.tape })
    (iBad.setInt pjBad 7) := setInt_sim pjBad iBad 7 fuel (by decide)

def pj1 : PJ :=
  { tape := #[mkWord tagRoot 4, mkWord tagBoolTrue 0, mkWord tagBoolTrue 0, mkWord tagRoot 0], strings := #[], msg := #[] }
def i1 : Iter := { lim := 1, off := 3, addNext := 0, cur := 0, t := tagBoolTrue }

/-- one-word value with `lim < off ≤ tape.size` (formerly `view1_needed`) -/
example :
    i1.lim ≤ pj1.tape.size ∧ i1.lim < i1.off ∧ i1.off ≤ pj1.tape.size ∧ (i1.setBool pj1 false).isPanic = true ∧
    (i1.setNull pj1).isPanic = true ∧
    ∀ fuel, runFun goFuns goIter_SetBool fuel
      { env := envOf "i" i1 ++ [("Strings.B", .bytes pj1.strings), ("v", .bool false)], tape := pj1.tape } = .panic := by
  refine ⟨by decide, by decide, by decide, by decide, by decide, fun fuel => ?_⟩
  simp [goIter_SetBool, envOf, i1, pj1, tagBoolTrue]

/-- `[null]` -/
def pjN : PJ :=
  { tape := #[mkWord tagRoot 5, mkWord tagArrayStart 4, mkWord tagNull 0, mkWord tagArrayEnd 1, mkWord tagRoot 0],
    strings := #[], msg := #[] }
def iN : Iter := { lim := 3, off := 2, addNext := 0, cur := 4, t := tagArrayStart }

/-- container with `lim < cur ≤ tape.size` (formerly `viewN_needed`): Go writes `tape[1]`, `tape[2]` and panics at
    `tape[3]`; the model panics -/
example :
    iN.lim ≤ pjN.tape.size ∧ iN.lim < iN.cur.toNat ∧ iN.cur.toNat ≤ pjN.tape.size ∧ (iN.setNull pjN).isPanic = true ∧
    runFun goFuns goIter_SetNull 10
      { env := envOf "i" iN ++ [("Strings.B", .bytes pjN.strings)], tape := pjN.tape } = .panic := by
  refine ⟨by decide, by decide, by decide, by decide +kernel, ?_⟩
  simp [goIter_SetNull, envOf, iN, pjN, tagArrayStart, toInt64]

def i63 : Iter := { lim := 5, off := 2, addNext := 0, cur := 9223372036854775808, t := tagArrayStart }

/-- `i.cur.toNat < 2^63` cannot be dropped: with `cur = 2^63` on a container (everything else in order) the model runs the
    fill into the end of the view and panics, Go's `int(i.cur)` is negative, nothing is filled and `nil` is returned with
    `addNext = -2^63 - 2`.  Not reachable: the `cur` of a container is a 56-bit payload. -/
theorem cur63_needed :
    i63.lim ≤ pjN.tape.size ∧ i63.setNull pjN = .panic ∧
    ∃ s, runFun goFuns goIter_SetNull 10
      { env := envOf "i" i63 ++ [("Strings.B", .bytes pjN.strings)], tape := pjN.tape } = .ret s [.bool false] ∧
      s.env.get "i.addNext" = some (.int (-9223372036854775810)) := by
  refine ⟨by decide, ?_, ?_⟩
  · have h3 : i63.off - 1 < pjN.tape.size := by decide
    simp only [Iter.setNull]
    rw [if_neg (by decide), if_neg (by decide), if_pos (by decide), if_neg (by decide),
      wrV_ok _ _ _ _ (by decide) h3]
    simp only [Res.bind_ok]
    rw [nopFillV_panic _ _ _ _ _ (Nat.le_refl _) (by decide) (by decide)]
    rfl
  · simp [goIter_SetNull, envOf, i63, pjN, tagArrayStart, toInt64]

end SJ.GoSet
