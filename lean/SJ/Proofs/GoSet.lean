import SJ.Proofs.GoSetLemmas
import SJ.Model.Object
set_option linter.unusedVariables false
set_option linter.unusedSimpArgs false
/-
GoSet — the hand model of the in-place edits (`Model/Access.lean`: `Iter.setFloat`, `setInt`, `setUInt`,
`setStringBytes`, `setBool`, `setNull`, with `set2` and `nopFill`) IS the meaning of the syntax trees the translator
printed from `parsed_json.go` (`Generated/GoSrc.lean`: `goIter_SetFloat` … `goIter_SetStringBytes`).

For every `pj`, every iterator `i` whose view is a prefix of the tape (`hl : i.lim ≤ pj.tape.size`), the store
`envOf "i" i ++ [("Strings.B", .bytes pj.strings), (param, value)]` and the tape `pj.tape`, the outcome of
`runFun` and the result of the model are related by `SimSet` (same return value, same tape, same string buffer, same
receiver; error = nothing changed; panic = panic; never stuck, never out of fuel).  An edit of one of the six Go
functions changes a generated definition and breaks the corresponding proof.

Hypotheses beyond `hl`, each with its reason (all are about idealisations of the hand model):

* `View2 pj i` (SetFloat, SetInt, SetUInt, SetStringBytes; SetNull on a two-word value) — `i.off < i.lim ∨ tape.size ≤ i.off`.
  Go checks `i.tape.Tape[i.off]` against the view length `lim`, `set2` checks against the array.  For
  `lim ≤ off < tape.size` Go panics (after having written `tape[off-1]` when `off = lim`) and the model writes both
  words: `view2_needed` below.  FINDING about the hand model, see the end of this file.
* `View1 pj i` (SetBool; SetNull on a one-word value) — `i.off ≤ i.lim ∨ tape.size < i.off`: same, for `tape[off-1]`
  (`view1_needed`).
* SetNull on a container or root: `ViewN pj i` — `max off cur ≤ lim ∨ tape.size < max off cur`: same, for the highest
  index written, `max off cur - 1` (`viewN_needed`); and `i.cur.toNat < 2^63` — the model computes `addNext` and the
  loop bound from `i.cur.toNat`, Go from `int(i.cur)`, which is negative from 2^63 on (Go then returns nil with a
  negative `addNext` and fills nothing, the model fills to the end of the array and panics: `cur63_needed`).  Not
  reachable: a container's `cur` is a 56-bit payload.
* fuel (SetNull only): `i.cur.toNat - i.off + 2 ≤ fuel` — one unit for the `for` statement, one per iteration, one for
  the final test.  The other five functions are loop-free and run with any fuel, 0 included.

NOT needed (the model agrees with Go as it stands):
* `set2`'s / `setBool`'s / `setNull`'s `if i.off = 0 then .panic`: Go's `i.off-1 = -1` fails the bounds check.
* `-2^63 ≤ v < 2^63` for SetInt: `uint64(v)` of the interpreter and `ofInt64 v` are the same function of `Int`.
* `pj.strings.size < 2^63` for SetStringBytes: `uint64(len(b))` and `UInt64.ofNat b.size` wrap alike.
* order of effects: Go assigns `i.t`, `i.cur` before the writes in SetBool / SetNull(one word) / SetStringBytes; a
  panic discards the receiver, so the model's "check first" is indistinguishable.
-/
namespace SJ.GoSet
open SJ SJ.GoSem SJ.Generated SJ.GoIter

-- simp set for symbolic execution of a concrete syntax tree (as in `GoIterBase`)
attribute [local simp] exec exec1 execCases evalE evalEs Env.get Env.set isOneOf binop convert ofE copyFields bindParams
  iterFields runFun tblLookup

-- the case analysis shared by the functions that write `tape[off-1]` and `tape[off]` (model: `set2`).
-- Expects `i`, `pj`, `hl : i.lim ≤ pj.tape.size`, `hv : i.off < i.lim ∨ pj.tape.size ≤ i.off` in scope.
set_option hygiene false in
macro "two_word" ht:ident : tactic => `(tactic| (
    simp only [$ht:ident, if_true]
    by_cases h0 : i.off = 0
    · simp [set2_panic _ _ _ _ (Or.inl h0), h0]
    · by_cases h1 : i.off < i.lim
      · have h2 : i.off < pj.tape.size := by omega
        have h3 : i.off - 1 < pj.tape.size := by omega
        have h4 : (1:Int) ≤ i.off ∧ (i.off:Int) - 1 < i.lim ∧ i.off - 1 < pj.tape.size := by omega
        rw [set2_ok _ _ _ _ (by omega) h2]
        simp [h1, h2, h3, h4, mkWord, iterAt, tagFloat, tagInteger, tagUint, tagString, tagNull, tagNop, wSTRINGBUFBIT,
          ofInt_natCast]
      · have h2 : pj.tape.size ≤ i.off := by omega
        have h5 : ¬ ((i.off:Int) < i.lim) := by omega
        rw [set2_panic _ _ _ _ (Or.inr h2)]
        by_cases h4 : (1:Int) ≤ i.off ∧ (i.off:Int) - 1 < i.lim ∧ i.off - 1 < pj.tape.size
        · simp [h4, h5]
        · simp [h4]))

/-- `SetFloat(v)`; `bits = math.Float64bits(v)` -/
theorem setFloat_sim (pj : PJ) (i : Iter) (bits : UInt64) (fuel : Nat) (hl : i.lim ≤ pj.tape.size) (hv : View2 pj i) :
    SimSet pj i (runFun goFuns goIter_SetFloat fuel
        { env := envOf "i" i ++ [("Strings.B", .bytes pj.strings), ("v", .u64 bits)], tape := pj.tape })
      (i.setFloat pj bits) := by
  have hc : swSetFloat = [[[100, 108, 117, 34]]] := rfl
  simp only [goIter_SetFloat, envOf, Iter.setFloat, hc, caseOf, caseOfSw, inCase, SimSet, View2] at *
  simp
  simp only [← UInt8.toNat_inj, UInt8.reduceToNat, @eq_comm Nat _ i.t.toNat]
  by_cases ht : (i.t.toNat = 100 ∨ i.t.toNat = 108 ∨ i.t.toNat = 117 ∨ i.t.toNat = 34)
  · two_word ht
  · simp [ht, iterAt]

/-- `SetInt(v)`, for every `Int` (Go's `int64` is the range `-2^63 ≤ v < 2^63`; the proof does not need it) -/
theorem setInt_sim (pj : PJ) (i : Iter) (v : Int) (fuel : Nat) (hl : i.lim ≤ pj.tape.size) (hv : View2 pj i) :
    SimSet pj i (runFun goFuns goIter_SetInt fuel
        { env := envOf "i" i ++ [("Strings.B", .bytes pj.strings), ("v", .int v)], tape := pj.tape })
      (i.setInt pj v) := by
  have hc : swSetInt = [[[100, 108, 117, 34]]] := rfl
  simp only [goIter_SetInt, envOf, Iter.setInt, hc, caseOf, caseOfSw, inCase, SimSet, View2] at *
  simp
  simp only [← UInt8.toNat_inj, UInt8.reduceToNat, @eq_comm Nat _ i.t.toNat, ofInt_eq_ofInt64]
  by_cases ht : (i.t.toNat = 100 ∨ i.t.toNat = 108 ∨ i.t.toNat = 117 ∨ i.t.toNat = 34)
  · two_word ht
  · simp [ht, iterAt]

/-- `SetUInt(v)` -/
theorem setUInt_sim (pj : PJ) (i : Iter) (v : UInt64) (fuel : Nat) (hl : i.lim ≤ pj.tape.size) (hv : View2 pj i) :
    SimSet pj i (runFun goFuns goIter_SetUInt fuel
        { env := envOf "i" i ++ [("Strings.B", .bytes pj.strings), ("v", .u64 v)], tape := pj.tape })
      (i.setUInt pj v) := by
  have hc : swSetUInt = [[[34, 100, 108, 117]]] := rfl
  simp only [goIter_SetUInt, envOf, Iter.setUInt, hc, caseOf, caseOfSw, inCase, SimSet, View2] at *
  simp
  simp only [← UInt8.toNat_inj, UInt8.reduceToNat, @eq_comm Nat _ i.t.toNat]
  by_cases ht : (i.t.toNat = 34 ∨ i.t.toNat = 100 ∨ i.t.toNat = 108 ∨ i.t.toNat = 117)
  · two_word ht
  · simp [ht, iterAt]

/-- `SetStringBytes(v)`: the string buffer grows by `v`, for every length of the buffer -/
theorem setStringBytes_sim (pj : PJ) (i : Iter) (v : Bytes) (fuel : Nat) (hl : i.lim ≤ pj.tape.size) (hv : View2 pj i) :
    SimSet pj i (runFun goFuns goIter_SetStringBytes fuel
        { env := envOf "i" i ++ [("Strings.B", .bytes pj.strings), ("v", .bytes v)], tape := pj.tape })
      (i.setStringBytes pj v) := by
  have hc : swSetStringBytes = [[[34, 100, 108, 117]]] := rfl
  simp only [goIter_SetStringBytes, envOf, Iter.setStringBytes, hc, caseOf, caseOfSw, inCase, SimSet, View2] at *
  simp
  simp only [← UInt8.toNat_inj, UInt8.reduceToNat, @eq_comm Nat _ i.t.toNat, ofInt_natCast]
  by_cases ht : (i.t.toNat = 34 ∨ i.t.toNat = 100 ∨ i.t.toNat = 108 ∨ i.t.toNat = 117)
  · two_word ht
  · simp [ht, iterAt]

/-- `SetBool(v)` -/
theorem setBool_sim (pj : PJ) (i : Iter) (v : Bool) (fuel : Nat) (hl : i.lim ≤ pj.tape.size) (hv : View1 pj i) :
    SimSet pj i (runFun goFuns goIter_SetBool fuel
        { env := envOf "i" i ++ [("Strings.B", .bytes pj.strings), ("v", .bool v)], tape := pj.tape })
      (i.setBool pj v) := by
  have hc : swSetBool = [[[116, 102, 110]]] := rfl
  simp only [goIter_SetBool, envOf, Iter.setBool, hc, caseOf, caseOfSw, inCase, SimSet, View1] at *
  simp
  simp only [← UInt8.toNat_inj, UInt8.reduceToNat, @eq_comm Nat _ i.t.toNat]
  by_cases ht : (i.t.toNat = 116 ∨ i.t.toNat = 102 ∨ i.t.toNat = 110)
  · simp only [ht, if_true]
    by_cases h0 : i.off = 0
    · cases v <;> simp [h0]
    · by_cases h1 : i.off ≤ i.lim
      · have h3 : i.off - 1 < pj.tape.size := by omega
        have h4 : (1:Int) ≤ i.off ∧ (i.off:Int) - 1 < i.lim ∧ i.off - 1 < pj.tape.size := by omega
        rw [wr_ok _ _ _ h3]
        cases v <;> simp [h0, h3, h4, mkWord, iterAt, tagBoolTrue, tagBoolFalse]
      · have h2 : pj.tape.size ≤ i.off - 1 := by omega
        have h4 : ¬ ((1:Int) ≤ i.off ∧ (i.off:Int) - 1 < i.lim ∧ i.off - 1 < pj.tape.size) := by omega
        rw [wr_panic _ _ _ h2]
        cases v <;> simp [h0, h4]
  · simp [ht, iterAt]

/-- what `SetNull` needs, per clause of its switch (a hypothesis is asked only for the tags of its clause) -/
structure SetNullPre (pj : PJ) (i : Iter) : Prop where
  one : i.t = tagBoolTrue ∨ i.t = tagBoolFalse ∨ i.t = tagNull → View1 pj i
  two : i.t = tagString ∨ i.t = tagFloat ∨ i.t = tagInteger ∨ i.t = tagUint → View2 pj i
  many : i.t = tagObjectStart ∨ i.t = tagArrayStart ∨ i.t = tagRoot → i.cur.toNat < 2^63 ∧ ViewN pj i

/-- `SetNull()`; the loop of the container clause is the model's `nopFill`; fuel `cur - off + 2` -/
theorem setNull_sim (pj : PJ) (i : Iter) (fuel : Nat) (hl : i.lim ≤ pj.tape.size) (hpre : SetNullPre pj i)
    (hf : i.cur.toNat - i.off + 2 ≤ fuel) :
    SimSet pj i (runFun goFuns goIter_SetNull fuel
        { env := envOf "i" i ++ [("Strings.B", .bytes pj.strings)], tape := pj.tape })
      (i.setNull pj) := by
  have hc : swSetNull = [[[116, 102, 110], [34, 100, 108, 117], [123, 91, 114], [256]]] := rfl
  obtain ⟨h1w, h2w, hNw⟩ := hpre
  obtain ⟨f, rfl⟩ : ∃ f, fuel = f + 1 := ⟨fuel - 1, by omega⟩
  simp only [goIter_SetNull, envOf, Iter.setNull, hc, caseOf, caseOfSw, inCase, SimSet, View1, View2,
    tagBoolTrue, tagBoolFalse, tagNull, tagString, tagFloat, tagInteger, tagUint, tagObjectStart, tagArrayStart, tagRoot] at *
  simp
  simp only [← UInt8.toNat_inj, UInt8.reduceToNat, @eq_comm Nat _ i.t.toNat] at *
  by_cases ht1 : (i.t.toNat = 116 ∨ i.t.toNat = 102 ∨ i.t.toNat = 110)
  · -- one word
    simp only [ht1, if_true]
    have hv := h1w ht1
    by_cases h0 : i.off = 0
    · simp [h0]
    · by_cases h1 : i.off ≤ i.lim
      · have h3 : i.off - 1 < pj.tape.size := by omega
        have h4 : (1:Int) ≤ i.off ∧ (i.off:Int) - 1 < i.lim ∧ i.off - 1 < pj.tape.size := by omega
        rw [wr_ok _ _ _ h3]
        simp [h0, h3, h4, mkWord, iterAt]
      · have h2 : pj.tape.size ≤ i.off - 1 := by omega
        have h4 : ¬ ((1:Int) ≤ i.off ∧ (i.off:Int) - 1 < i.lim ∧ i.off - 1 < pj.tape.size) := by omega
        rw [wr_panic _ _ _ h2]
        simp [h0, h4]
  · by_cases ht2 : (i.t.toNat = 34 ∨ i.t.toNat = 100 ∨ i.t.toNat = 108 ∨ i.t.toNat = 117)
    · -- two words
      have hv := h2w ht2
      simp only [ht1, if_false]
      two_word ht2
    · by_cases ht3 : (i.t.toNat = 123 ∨ i.t.toNat = 91 ∨ i.t.toNat = 114)
      · -- container or root: `tape[off-1]`, then the loop
        simp only [ht1, ht2, ht3, if_true, if_false]
        obtain ⟨hcur, hN⟩ := hNw ht3
        have hw : mkWord 110 0 = ((110 : UInt64) <<< (56 : UInt64)) := by simp [mkWord]
        rw [hw]
        by_cases h0 : i.off = 0
        · simp [h0]
        · simp only [h0, if_false]
          by_cases hM : max i.off i.cur.toNat ≤ i.lim
          · have h3 : i.off - 1 < pj.tape.size := by omega
            have h4 : (1:Int) ≤ i.off ∧ (i.off:Int) - 1 < i.lim ∧ i.off - 1 < pj.tape.size := by omega
            obtain ⟨t', ht', he⟩ := nopLoop_ok { i with addNext := (i.cur.toNat : Int) - i.off } pj.strings hcur
              (i.cur.toNat - i.off) i.off (pj.tape.set (i.off - 1) ((110 : UInt64) <<< (56 : UInt64)) h3) f
              (Nat.le_refl _) (by omega) (fun _ => by simp only; omega) (by simpa using hl)
            simp only [envL, nopLoop] at he
            rw [wr_ok _ _ _ h3]
            simp only [Res.bind_ok]
            rw [ht']
            simp [h4, toInt64_small _ hcur, he, iterAt]
          · have hS : pj.tape.size < max i.off i.cur.toNat := by
              simp only [ViewN] at hN; omega
            by_cases h4 : (1:Int) ≤ i.off ∧ (i.off:Int) - 1 < i.lim ∧ i.off - 1 < pj.tape.size
            · have h3 : i.off - 1 < pj.tape.size := h4.2.2
              have he := nopLoop_panic { i with addNext := (i.cur.toNat : Int) - i.off } pj.strings hcur
                (i.cur.toNat - i.off) i.off (pj.tape.set (i.off - 1) ((110 : UInt64) <<< (56 : UInt64)) h3) f
                (Nat.le_refl _) (by omega) (by simp only; omega) (by simp only; omega) (by simpa using hl)
              simp only [envL, nopLoop] at he
              rw [wr_ok _ _ _ h3]
              simp only [Res.bind_ok]
              rw [nopFill_panic _ _ _ _ (Nat.le_refl _) (by omega) (by simp; omega)]
              simp [h4, toInt64_small _ hcur, he]
            · by_cases h3 : i.off - 1 < pj.tape.size
              · rw [wr_ok _ _ _ h3]
                simp only [Res.bind_ok]
                rw [nopFill_panic _ _ _ _ (Nat.le_refl _) (by omega) (by simp; omega)]
                simp [h4]
              · rw [wr_panic _ _ _ (by omega)]
                simp [h4]
      · -- default
        simp [ht1, ht2, ht3, iterAt]

/-! ## iterators as the API makes them

Every view the API constructs ends at an element boundary (`AdvanceIter`: `lim = off + addNext`, `NextElementBytes`:
`lim = off + elemSize`, `Root` / `Object` / `Array`: `lim` = end of the container), so an iterator standing on a value
of a well-formed tape has that value inside its view.  These are the hypotheses in that form. -/

theorem View2.of_lt {pj : PJ} {i : Iter} (h : i.off < i.lim) : View2 pj i := Or.inl h
theorem View1.of_le {pj : PJ} {i : Iter} (h : i.off ≤ i.lim) : View1 pj i := Or.inl h
theorem ViewN.of_le {pj : PJ} {i : Iter} (h : i.off ≤ i.lim) (hc : i.cur.toNat ≤ i.lim) : ViewN pj i :=
  Or.inl (by omega)

/-- the value under the iterator lies in its view -/
theorem SetNullPre.of_inView {pj : PJ} {i : Iter} (h1 : i.off ≤ i.lim)
    (h2 : i.t = tagString ∨ i.t = tagFloat ∨ i.t = tagInteger ∨ i.t = tagUint → i.off < i.lim)
    (hN : i.t = tagObjectStart ∨ i.t = tagArrayStart ∨ i.t = tagRoot → i.cur.toNat ≤ i.lim)
    (hl : i.lim < 2^63) : SetNullPre pj i :=
  ⟨fun _ => .of_le h1, fun h => .of_lt (h2 h), fun h => ⟨by have := hN h; omega, .of_le h1 (hN h)⟩⟩

/-- **The six edit functions of the Go source mean what the hand model says.**  One statement for all of them. -/
theorem go_set_source_tie (pj : PJ) (i : Iter) (hl : i.lim ≤ pj.tape.size) (fuel : Nat) :
    (∀ bits, View2 pj i → SimSet pj i (runFun goFuns goIter_SetFloat fuel
        { env := envOf "i" i ++ [("Strings.B", .bytes pj.strings), ("v", .u64 bits)], tape := pj.tape })
      (i.setFloat pj bits)) ∧
    (∀ v, View2 pj i → SimSet pj i (runFun goFuns goIter_SetInt fuel
        { env := envOf "i" i ++ [("Strings.B", .bytes pj.strings), ("v", .int v)], tape := pj.tape })
      (i.setInt pj v)) ∧
    (∀ v, View2 pj i → SimSet pj i (runFun goFuns goIter_SetUInt fuel
        { env := envOf "i" i ++ [("Strings.B", .bytes pj.strings), ("v", .u64 v)], tape := pj.tape })
      (i.setUInt pj v)) ∧
    (∀ v, View2 pj i → SimSet pj i (runFun goFuns goIter_SetStringBytes fuel
        { env := envOf "i" i ++ [("Strings.B", .bytes pj.strings), ("v", .bytes v)], tape := pj.tape })
      (i.setStringBytes pj v)) ∧
    (∀ v, View1 pj i → SimSet pj i (runFun goFuns goIter_SetBool fuel
        { env := envOf "i" i ++ [("Strings.B", .bytes pj.strings), ("v", .bool v)], tape := pj.tape })
      (i.setBool pj v)) ∧
    (SetNullPre pj i → i.cur.toNat - i.off + 2 ≤ fuel → SimSet pj i (runFun goFuns goIter_SetNull fuel
        { env := envOf "i" i ++ [("Strings.B", .bytes pj.strings)], tape := pj.tape })
      (i.setNull pj)) :=
  ⟨fun b hv => setFloat_sim pj i b fuel hl hv, fun v hv => setInt_sim pj i v fuel hl hv,
   fun v hv => setUInt_sim pj i v fuel hl hv, fun v hv => setStringBytes_sim pj i v fuel hl hv,
   fun v hv => setBool_sim pj i v fuel hl hv, fun hp hf => setNull_sim pj i fuel hl hp hf⟩

/-! ## FINDING: the hand model bounds-checks against the array, the Go source against the view

`Iter.set2`, `Iter.setBool`, `Iter.setNull` (via `wr`, `nopFill`) test `k < pj.tape.size`; Go tests `k < len(i.tape.Tape)`
= `i.lim`.  For an iterator whose view ends *inside* the value it stands on (`lim ≤ off` on a two-word value, `lim < off`
on a one-word value, `lim < cur` on a container) while the array goes on, Go panics with "index out of range" and the
model reports success and writes.  The theorems of `Proofs/Edit.lean` (`set2_spec`, `setInt_doc`, … : "SetX succeeds and
touches only the node") quantify over *every* iterator with `i.off = q + 1` and the right tag and say nothing about
`i.lim`, so they claim success for these iterators too.

Reachability.  Every view constructor of the API ends the view at an element boundary computed from the tape
(`AdvanceIter`: `off + addNext`, `NextElementBytes`: `off + elemSize`, `Root`: `cur - 1`, `Object`/`Array`: `cur`), so
on a tape produced by the parser the situation does not arise.  It does arise through the public API on a tape whose
container payload points inside an element (`ParsedJson.Tape` is an exported field; `Root` only checks
`cur ≤ len(tape)`): below, the tape of the document `42` with root payload 3 instead of 4.
`pj.Iter(); Advance(); Root(nil)` returns type `int`, `nil`, and an iterator with a 2-word view standing at offset 2;
`SetInt(7)` on it panics (`index out of range [2] with length 2`, observed on the real package), the model returns ok.
Suggested repair of the model: let `set2` / `setBool` / `setNull` / `nopFill` test the index against `i.lim`
(then `View1`/`View2`/`ViewN` disappear from the theorems above and `Edit.lean` needs `i.off < i.lim`-style hypotheses,
which its callers have). -/

/-- tape of the document `42` whose root payload (3 instead of 4) points inside the integer -/
def pjBad : PJ := { tape := #[mkWord tagRoot 3, mkWord tagInteger 0, 42, mkWord tagRoot 0], strings := #[], msg := #[] }
/-- the iterator `pj.Iter(); Advance(); Root(nil)` returns on it -/
def iBad : Iter := { lim := 2, off := 2, addNext := 1, cur := 0, t := tagInteger }

/-- `iBad` is what the model's `ofPJ`, `advance`, `root` make of `pjBad` -/
theorem iBad_from_api :
    (match (do let (r, _) ← (Iter.ofPJ pjBad).advance pjBad; let (_, d) ← r.root pjBad; pure d : Res Iter) with
     | .ok d => decide (d = iBad) | _ => false) = true := by
  decide +kernel

/-- `View2` cannot be dropped: view a prefix of the tape, two-word value at `off = lim < tape.size`;
    the model succeeds, the Go function panics -/
theorem view2_needed :
    iBad.lim ≤ pjBad.tape.size ∧ ¬ View2 pjBad iBad ∧ (iBad.setInt pjBad 7).isOk = true ∧
    ∀ fuel, runFun goFuns goIter_SetInt fuel
      { env := envOf "i" iBad ++ [("Strings.B", .bytes pjBad.strings), ("v", .int 7)], tape := pjBad.tape } = .panic := by
  refine ⟨by decide, by unfold View2; decide, by decide, fun fuel => ?_⟩
  simp [goIter_SetInt, envOf, iBad, pjBad, tagInteger]

example : ¬ SimSet pjBad iBad (runFun goFuns goIter_SetInt 0
      { env := envOf "i" iBad ++ [("Strings.B", .bytes pjBad.strings), ("v", .int 7)], tape := pjBad.tape })
    (iBad.setInt pjBad 7) := by
  rw [view2_needed.2.2.2 0]
  have h := view2_needed.2.2.1
  cases hr : iBad.setInt pjBad 7 with
  | ok a => simp [SimSet]
  | _ => rw [hr] at h; cases h

def pj1 : PJ :=
  { tape := #[mkWord tagRoot 4, mkWord tagBoolTrue 0, mkWord tagBoolTrue 0, mkWord tagRoot 0], strings := #[], msg := #[] }
def i1 : Iter := { lim := 1, off := 3, addNext := 0, cur := 0, t := tagBoolTrue }

/-- `View1` cannot be dropped (`lim < off ≤ tape.size` on a one-word value) -/
theorem view1_needed :
    i1.lim ≤ pj1.tape.size ∧ ¬ View1 pj1 i1 ∧ (i1.setBool pj1 false).isOk = true ∧
    ∀ fuel, runFun goFuns goIter_SetBool fuel
      { env := envOf "i" i1 ++ [("Strings.B", .bytes pj1.strings), ("v", .bool false)], tape := pj1.tape } = .panic := by
  refine ⟨by decide, by unfold View1; decide, by decide, fun fuel => ?_⟩
  simp [goIter_SetBool, envOf, i1, pj1, tagBoolTrue]

/-- `[null]` -/
def pjN : PJ :=
  { tape := #[mkWord tagRoot 5, mkWord tagArrayStart 4, mkWord tagNull 0, mkWord tagArrayEnd 1, mkWord tagRoot 0],
    strings := #[], msg := #[] }
def iN : Iter := { lim := 3, off := 2, addNext := 0, cur := 4, t := tagArrayStart }

/-- `ViewN` cannot be dropped (`lim < cur ≤ tape.size` on a container) -/
theorem viewN_needed :
    iN.lim ≤ pjN.tape.size ∧ ¬ ViewN pjN iN ∧ (iN.setNull pjN).isOk = true ∧
    runFun goFuns goIter_SetNull 10
      { env := envOf "i" iN ++ [("Strings.B", .bytes pjN.strings)], tape := pjN.tape } = .panic := by
  refine ⟨by decide, by unfold ViewN; decide, by decide +kernel, ?_⟩
  simp [goIter_SetNull, envOf, iN, pjN, tagArrayStart, toInt64]

def i63 : Iter := { lim := 5, off := 2, addNext := 0, cur := 9223372036854775808, t := tagArrayStart }

/-- `i.cur.toNat < 2^63` cannot be dropped: with `cur = 2^63` on a container (everything else in order) the model fills to
    the end of the array and panics, Go's `int(i.cur)` is negative, nothing is filled and `nil` is returned with
    `addNext = -2^63 - 2`.  Not reachable: the `cur` of a container is a 56-bit payload. -/
theorem cur63_needed :
    i63.lim ≤ pjN.tape.size ∧ ViewN pjN i63 ∧ i63.setNull pjN = .panic ∧
    ∃ s, runFun goFuns goIter_SetNull 10
      { env := envOf "i" i63 ++ [("Strings.B", .bytes pjN.strings)], tape := pjN.tape } = .ret s [.bool false] ∧
      s.env.get "i.addNext" = some (.int (-9223372036854775810)) := by
  refine ⟨by decide, by unfold ViewN; decide, ?_, ?_⟩
  · have h3 : i63.off - 1 < pjN.tape.size := by decide
    simp only [Iter.setNull]
    rw [if_neg (by decide), if_neg (by decide), if_pos (by decide), if_neg (by decide), wr_ok _ _ _ h3]
    simp only [Res.bind_ok]
    rw [nopFill_panic _ _ _ _ (Nat.le_refl _) (by decide) (by simp only [Array.size_set]; decide)]
    rfl
  · simp [goIter_SetNull, envOf, i63, pjN, tagArrayStart, toInt64]

end SJ.GoSet
