import SJ.Proofs.GoDeleteLemmas
set_option linter.unusedVariables false
set_option linter.unusedSimpArgs false
/-
GoDelete — `Array.FirstType`, `Array.ForEach`, `Array.DeleteElems` (`parsed_array.go`), `Object.ForEach`,
`Object.DeleteElems` (`parsed_object.go`) as printed by the translator (`Generated/GoSrc.lean`) and run by `GoSem.exec`,
against the hand model `Model/Object.lean` (`View.firstType`, `View.arrForEach`, `View.arrDeleteElems`, `View.forEach`,
`View.deleteElems`) on which C12/C14 (`DeleteDoc`, `Lookup`, `EditHistoryDelete`) rest.

Setting.  `pj` with `BufOK pj` (buffer lengths are Go `int`s; needed by `stringByteAt` only, i.e. by the two `Object`
functions), a view `v` with `v.lim ≤ pj.tape.size`, any store `e0` that holds the receiver and the two buffers (`RecvIn`),
the parameter `onlyKeys` (`Val.keys ks`), `fn == nil` (`Val.bool`), the answers `fn.results = answers N q`
(`q 0 … q (N-1)`, `N ≥ v.lim - v.off` — there are at most `lim - off` callbacks) and an empty or absent `fn.log`
(`logOf e0 = []`).  Fuel: `2·v.lim + 7` for the interpreter (every iteration of a loop moves the cursor forward, every
`Advance` costs at most `lim + 3`, a fill at most `lim + 3`), `v.lim - v.off + 1` for the model.  The interpreter is
never stuck and never out of fuel.

  1. `arrFirstType_sim`   returns `[.u8 t]` ⇔ `View.firstType pj v = .ok t`; panic ⇔ panic (`SimType`, `SimType.iff`).
  2. `arrForEach_sim`     returns; tape unchanged; `fn.log` = `encIters its` (five integers per callback:
                          off, addNext, cur, t, lim) where `View.arrForEach pj v.iter #[] mf = .ok its`; panic ⇔ panic.
  3. `arrDeleteElems_exact` (= `arrDeleteElems_sim`)
                          model `.ok (pj', its)` ⇔ returns with tape `pj'.tape`, log `encIters its`, `fn.results` = the
                          answers not consumed; panic ⇔ panic; no hypothesis on the tape.
  4. `objForEach_sim`     `[.bool false]` / `[.bool true]` / panic ⇔ model `.ok its` / `.error _` / `.panic`; log = `encNIs its`
                          (six integers per callback: LENGTH of the name, then the iterator).
  5. `objDeleteElems_exact`, `objDeleteElems_nil_sim` (`fn == nil`: `pred = fun _ _ => true`, nothing logged),
     `objDeleteElems_sim` (answers `q`: `pred = fun k _ => q k`), `objDeleteElems_sim_pred` (any `pred`).
     The log records only the length of the name, so the tie is stated for predicates of the call index; the model-side
     lemmas `deleteElems_index_only` (a successful run IS the run of the index-only predicate
     `fun k _ => pred k (nameAt its k)` read off its own callback list, via `deleteElems_congr_run`/`deleteElems_prefix`)
     and `deleteElems_exists_idx` (every run, whatever its outcome, is the run of SOME index-only predicate) show that
     this covers every `pred`.
  6. `go_delete_source_tie` bundles them on the conventional stores (`arrStore`, `objStore`).

History.  Before its repair the hand model (`View.fillNops` = `Iter.nopFill`, since removed) bounds-checked the NOP
writes of both `DeleteElems` against the whole ARRAY (`pj.tape.size`).  Go writes `i.tape.Tape[off]` / `tmp.tape.Tape[i]` through the
iterator's VIEW, of length `lim`.  An element accepted by `Advance` may end beyond the view (`off + addNext > lim`: a
two-word scalar in the last word of the view, a container whose end pointer exceeds the view) while the array goes on; then
Go panics with "index out of range" at index `lim` (after writing the words before it) where the old model filled up to the
end and went on.  These proofs found it: the `_exact` theorems then read
`Go outcome = if <every deleted element ends inside the view> then the model's outcome else panic` (run predicates
`arrDelInView` / `objDelInView`, sufficient static condition `EndsInside`).  The model was repaired: `View.arrDeleteElems`
and `View.deleteElems` fill with `Iter.nopFillV i.lim` (resp. `tmp.lim`; `fill_run`/`fillTail_run` in `GoDeleteLemmas`
prove that the Go loop IS `nopFillV`), so the ties are unconditional and the run predicates, `EndsInside` and
`arrDeleteElems_sim_wf` are gone.  The former counterexamples are kept as `example`s (`pjOut`/`vOut`, `pjOutO`/`vOutO`):
now model AND interpreter panic.  C12/C14 (`DeleteDoc.fill_step`) work on located documents, where every deleted element
ends inside the view and `nopFillV_eq_nopFill` applies.
  No other difference: the model's other panics (`e < 0`, `i.off = 0`) are unreachable after a live `Advance`
  (`advance_facts`) and the Go code agrees.

The proofs run the syntax trees: any edit of these Go functions changes `Generated/GoSrc.lean` and breaks them
(`feLoopBody_eq`, `deLoopBody_eq`, `ofeLoopBody_eq`, `odeLoopBody_eq`, the `take`/`hsplit` equations are `rfl` against the
generated trees).
-/
namespace SJ.GoDelete
open SJ SJ.GoSem SJ.Generated SJ.GoIter SJ.GoObject SJ.GoSet

attribute [local simp] exec exec1 execCases evalE evalEs isOneOf binop convert ofE copyFields bindParams
  iterFields runFun tblLookup Env.get_set

/-! ## 1. `Array.FirstType` -/

/-- a function returning one `Type` and leaving the tape alone -/
def SimType (pj : PJ) (o : Out) (r : Res UInt8) : Prop :=
  match r with
  | .ok t => ∃ s, o = .ret s [.u8 t] ∧ s.tape = pj.tape
  | .panic => o = .panic
  | _ => False

/-- the relation read as equivalences -/
theorem SimType.iff {pj : PJ} {o : Out} {r : Res UInt8} (h : SimType pj o r) :
    (∀ t, (∃ s, o = .ret s [.u8 t]) ↔ r = .ok t) ∧ (o = .panic ↔ r = .panic) := by
  cases r with
  | ok t =>
    obtain ⟨s, rfl, _⟩ := h
    refine ⟨fun t' => ⟨?_, ?_⟩, ⟨?_, ?_⟩⟩
    · rintro ⟨s', h'⟩
      simp only [Out.ret.injEq, List.cons.injEq, Val.u8.injEq, and_true] at h'
      rw [h'.2]
    · intro h'; simp only [Res.ok.injEq] at h'; subst h'; exact ⟨s, rfl⟩
    · intro h'; cases h'
    · intro h'; cases h'
  | panic =>
    simp only [SimType] at h
    subst h
    refine ⟨fun t' => ⟨?_, ?_⟩, ⟨fun _ => rfl, fun _ => rfl⟩⟩
    · rintro ⟨s', h'⟩; cases h'
    · intro h'; cases h'
  | error e => exact h.elim
  | diverge => exact h.elim

theorem arrFirstType_sim (pj : PJ) (v : View) (hl : v.lim ≤ pj.tape.size) (e0 : Env) (h0 : RecvIn pj "a" v e0)
    (fuel : Nat) (hf : v.lim + 2 ≤ fuel) :
    SimType pj (runFun goFuns goArray_FirstType fuel ⟨e0, pj.tape⟩) (View.firstType pj v) := by
  obtain ⟨f, rfl⟩ : ∃ f, fuel = f + 1 := ⟨fuel - 1, by omega⟩
  obtain ⟨a1, a2, hS, hM⟩ := h0
  simp only [String.reduceAppend] at a1 a2
  have hI : iterAt (setIter e0 "iter" v.iter) "iter" = some v.iter := by
    apply iterAt_of_gets <;> simp [setIter]
  have hc := callFun_peekNext pj ⟨setIter e0 "iter" v.iter, pj.tape⟩ "iter" v.iter f hl rfl hI
    (by simp [setIter, hS]) (by simp [setIter, hM]) (by simp [View.iter]; omega)
  unfold View.firstType
  simp only [goArray_FirstType, runFun]
  simp [a1, a2]
  simp only [setIter, View.iter, tagEnd, String.reduceAppend] at hc ⊢
  revert hc
  generalize callFun goFuns f "iter" "Iter.PeekNext" [] [] _ = out
  intro hc
  cases hr : Iter.peekNext pj { lim := v.lim, off := v.off, addNext := 0, cur := 0, t := 0 } with
  | ok t =>
    rw [hr] at hc
    obtain ⟨e', rfl⟩ := hc
    exact ⟨_, rfl, rfl⟩
  | panic => rw [hr] at hc; subst hc; rfl
  | error e => rw [hr] at hc; exact hc.elim
  | diverge => rw [hr] at hc; exact hc.elim

/-! ## 2. `Array.ForEach` -/

/-- the log of a list of callbacks: five integers per call -/
def encIters (a : Array Iter) : List Int := a.toList.flatMap encIter

theorem encIters_push (a : Array Iter) (i : Iter) : encIters (a.push i) = encIters a ++ encIter i := by
  simp [encIters]

/-- where the next `Advance` starts reading -/
def pos (i : Iter) : Nat := i.off + i.addNext.toNat

def feLoopBody : List Stmt := firstLoop goArray_ForEach.body

theorem feLoopBody_eq : feLoopBody = [.callAssign ["t"] "i" "Iter.Advance" [] [],
    .ite (.bin .eq (.v "t") (.u8 0)) [.brk] [],
    .cb "_" "fn" [.v "i.off", .v "i.addNext", .v "i.cur", .v "i.t", .v "i.lim"]] := rfl

/-- `if t == TypeNone { break }` -/
theorem exec1_brkIfNone (e : Env) (tape : Array UInt64) (fuel : Nat) (t : UInt8) (ht : e.get "t" = some (.u8 t)) :
    exec1 goFuns fuel (.ite (.bin .eq (.v "t") (.u8 0)) [.brk] []) ⟨e, tape⟩ =
      if t = typeNone then .brk ⟨e, tape⟩ else .normal ⟨e, tape⟩ := by
  by_cases h : t = typeNone
  · simp [ht, h, typeNone]
  · have : (t == 0) = false := by simpa [typeNone] using h
    simp [ht, h, this]

/-- the loop of `Array.ForEach` IS `View.arrForEach`; every iteration moves the cursor forward, so
    `lim - pos` iterations suffice on both sides -/
theorem arrForEach_loop (pj : PJ) : ∀ (n : Nat) (i : Iter) (acc : Array Iter) (e : Env) (fuel mf : Nat),
    i.lim - pos i < n → 0 ≤ i.addNext → n ≤ mf → n + i.lim + 5 ≤ fuel → i.lim ≤ pj.tape.size →
    ItInv pj "i" i e → logOf e = encIters acc →
    match View.arrForEach pj i acc mf with
    | .ok its => ∃ e', exec1 goFuns fuel (.loop feLoopBody) ⟨e, pj.tape⟩ = .normal ⟨e', pj.tape⟩ ∧
        logOf e' = encIters its
    | .panic => exec1 goFuns fuel (.loop feLoopBody) ⟨e, pj.tape⟩ = .panic
    | _ => False := by
  intro n
  induction n with
  | zero => intro i acc e fuel mf h; omega
  | succ n ih =>
    intro i acc e fuel mf hm h0 hmf hf hl inv hlog
    obtain ⟨m, rfl⟩ : ∃ m, mf = m + 1 := ⟨mf - 1, by omega⟩
    obtain ⟨F, rfl⟩ : ∃ F, fuel = F + 2 := ⟨fuel - 2, by omega⟩
    have hA := exec1_advance pj ⟨e, pj.tape⟩ "t" "i" rfl i F hl rfl inv (by omega)
    rw [View.arrForEach, exec1, feLoopBody_eq, exec]
    cases hr : i.advance pj with
    | ok r =>
      obtain ⟨i', t⟩ := r
      rw [hr] at hA
      simp only [] at hA
      rw [hA]
      simp only [Res.bind_ok]
      have inv1 : ItInv pj "i" i' ((advEnv e "i" i' pj).set "t" (.u8 t)) :=
        (inv.adv i' (by decide) (by decide) (by decide)).set _ _ (by decide)
      have hlog1 : logOf ((advEnv e "i" i' pj).set "t" (.u8 t)) = logOf e := by
        apply logOf_congr
        rw [Env.get_set_ne _ _ (by decide), get_advEnv _ _ _ _ _ (by decide)]
      rw [exec, exec1_brkIfNone _ _ _ t (Env.get_set_self _ _ _)]
      by_cases ht : t = typeNone
      · subst ht
        simp only [if_true, beq_self_eq_true]
        exact ⟨_, rfl, by rw [hlog1, hlog]⟩
      · have hb : (t == typeNone) = false := by simp [ht]
        obtain ⟨f1, f2, f3, f4, f5, _⟩ := advance_facts pj i h0 i' t hr ht
        simp only [ht, hb, if_false, Bool.false_eq_true]
        rw [exec, exec1_cb_i _ _ _ i' inv1.it]
        simp only [exec]
        have := ih i' (acc.push i') _ (F + 1) m (by unfold pos at hm ⊢; omega) f4 (by omega) (by omega)
          (by omega) (inv1.set "fn.log" (.ints (logOf ((advEnv e "i" i' pj).set "t" (.u8 t)) ++ encIter i'))
            (by decide))
          (by rw [logOf_set, hlog1, hlog, encIters_push])
        exact this
    | panic =>
      rw [hr] at hA
      simp only [] at hA
      rw [hA]
      simp
    | error _ => rw [hr] at hA; exact hA.elim
    | diverge => rw [hr] at hA; exact hA.elim

/-- `Array.ForEach` against `View.arrForEach`: the callbacks made are the model's, in order; the tape is untouched -/
def SimFE (pj : PJ) (o : Out) (r : Res (Array Iter)) : Prop :=
  match r with
  | .ok its => ∃ s, o = .ret s [] ∧ s.tape = pj.tape ∧ logOf s.env = encIters its
  | .panic => o = .panic
  | _ => False

theorem ItInv_init (pj : PJ) (v : View) (e0 : Env) (h0 : RecvIn pj "a" v e0) :
    ItInv pj "i" v.iter (setIter e0 "i" v.iter) := by
  obtain ⟨a1, a2, hS, hM⟩ := h0
  refine ⟨iterAt_setIter_i _ _, ?_, ?_⟩
  · rw [get_setIter_ne _ _ _ _ (by decide), hS]
  · rw [get_setIter_ne _ _ _ _ (by decide), hM]

theorem arrForEach_sim (pj : PJ) (v : View) (hl : v.lim ≤ pj.tape.size) (e0 : Env) (h0 : RecvIn pj "a" v e0)
    (hlog : logOf e0 = []) (fuel mf : Nat) (hmf : v.lim - v.off + 1 ≤ mf) (hf : 2 * v.lim + 6 ≤ fuel) :
    SimFE pj (runFun goFuns goArray_ForEach fuel ⟨e0, pj.tape⟩) (View.arrForEach pj v.iter #[] mf) := by
  have hsplit : goArray_ForEach.body = goArray_ForEach.body.take 5 ++ [.loop feLoopBody, .ret []] := rfl
  have hinit : exec goFuns fuel (goArray_ForEach.body.take 5) ⟨e0, pj.tape⟩ =
      .normal ⟨setIter e0 "i" v.iter, pj.tape⟩ := by
    obtain ⟨a1, a2, hS, hM⟩ := h0
    simp only [String.reduceAppend] at a1 a2
    simp [goArray_ForEach, a1, a2, setIter, View.iter, tagEnd]
  have hloop := arrForEach_loop pj (v.lim - v.off + 1) v.iter #[] (setIter e0 "i" v.iter) fuel mf
    (by simp [pos, View.iter]) (by simp [View.iter]) hmf (by simp [View.iter]; omega) hl (ItInv_init pj v e0 h0)
    (by rw [logOf_congr (get_setIter_ne _ _ _ _ (by decide)), hlog]; rfl)
  unfold runFun
  rw [hsplit, exec_append, hinit]
  simp only []
  rw [exec]
  revert hloop
  generalize exec1 goFuns fuel (.loop feLoopBody) _ = out
  cases View.arrForEach pj v.iter #[] mf with
  | ok its =>
    rintro ⟨e', rfl, hlg⟩
    simp [SimFE]
    exact hlg
  | panic => rintro rfl; simp [SimFE]
  | error _ => exact fun h => h.elim
  | diverge => exact fun h => h.elim

/-! ## 3. `Array.DeleteElems` -/

def deLoopBody : List Stmt := firstLoop goArray_DeleteElems.body

def arrFillStmts : List Stmt :=
  .assign "startO" (.bin .sub (.v "i.off") (.int 1)) :: .assign "end" (.bin .add (.v "i.off") (.v "i.addNext")) ::
    fillTail "off" "i"

theorem deLoopBody_eq : deLoopBody = [.callAssign ["t"] "i" "Iter.Advance" [] [],
    .ite (.bin .eq (.v "t") (.u8 0)) [.brk] [],
    .cb "#fn" "fn" [.v "i.off", .v "i.addNext", .v "i.cur", .v "i.t", .v "i.lim"],
    .ite (.v "#fn") arrFillStmts []] := rfl

theorem arrFill_run (e : Env) (tape : Array UInt64) (fuel : Nat) (i' : Iter) (hI : iterAt e "i" = some i')
    (h1 : 1 ≤ i'.off) (h0 : 0 ≤ i'.addNext) (hf : min (pos i') i'.lim - (i'.off - 1) + 3 ≤ fuel) :
    match Iter.nopFillV i'.lim tape (i'.off - 1) (pos i') with
    | .ok t' => ∃ e', exec goFuns fuel arrFillStmts ⟨e, tape⟩ = .normal ⟨e', t'⟩ ∧
        ∀ k, k ∉ ["startO", "end", "skip", "off"] → e'.get k = e.get k
    | .panic => exec goFuns fuel arrFillStmts ⟨e, tape⟩ = .panic
    | _ => False := by
  obtain ⟨g1, g2, g3, g4, g5⟩ := iterAt_get_i _ _ hI
  have hs : exec1 goFuns fuel (.assign "startO" (.bin .sub (.v "i.off") (.int 1))) ⟨e, tape⟩ =
      .normal ⟨e.set "startO" (.int ((i'.off - 1 : Nat) : Int)), tape⟩ := by
    have : (i'.off : Int) - 1 = ((i'.off - 1 : Nat) : Int) := by omega
    simp [g1, this]
  have he : exec1 goFuns fuel (.assign "end" (.bin .add (.v "i.off") (.v "i.addNext")))
      ⟨e.set "startO" (.int ((i'.off - 1 : Nat) : Int)), tape⟩ =
      .normal ⟨(e.set "startO" (.int ((i'.off - 1 : Nat) : Int))).set "end" (.int ((pos i' : Nat) : Int)), tape⟩ := by
    have : (i'.off : Int) + i'.addNext = ((pos i' : Nat) : Int) := by unfold pos; omega
    simp [g1, g2, this]
  have ht := fillTail_run "off" "i" i'.lim (i'.off - 1) (pos i') (by decide) (by decide) (by decide) (by decide) tape
    ((e.set "startO" (.int ((i'.off - 1 : Nat) : Int))).set "end" (.int ((pos i' : Nat) : Int))) fuel
    (by unfold pos; omega) hf (by simp) (by simp) (by simp [g5])
  rw [arrFillStmts, exec, hs]
  simp only []
  rw [exec, he]
  simp only []
  revert ht
  cases Iter.nopFillV i'.lim tape (i'.off - 1) (pos i') with
  | ok t' =>
    rintro ⟨e', hx, hfr⟩
    refine ⟨e', hx, ?_⟩
    intro k hk
    simp only [List.mem_cons, List.not_mem_nil, or_false, not_or] at hk
    obtain ⟨k1, k2, k3, k4⟩ := hk
    rw [hfr k k4 k3, Env.get_set_ne _ _ (Ne.symm k2), Env.get_set_ne _ _ (Ne.symm k1)]
  | panic => exact fun h => h
  | error _ => exact fun h => h
  | diverge => exact fun h => h

/-- the answers the callback will give: `q 0, q 1, …, q (N-1)` -/
def answers (N : Nat) (q : Nat → Bool) : List Bool := (List.range N).map q

theorem answers_drop (N : Nat) (q : Nat → Bool) (k : Nat) (h : k < N) :
    (answers N q).drop k = q k :: (answers N q).drop (k + 1) := by
  unfold answers
  rw [List.drop_eq_getElem_cons (by simpa using h)]
  simp

/-- the loop of `Array.DeleteElems` IS `View.arrDeleteElems` (an element that a callback deletes and that ends beyond
    the view makes both panic: the fill is `Iter.nopFillV i.lim` on both sides) -/
theorem arrDel_loop (N : Nat) (q : Nat → Bool) : ∀ (n : Nat) (pj : PJ) (i : Iter) (acc : Array Iter) (e : Env)
    (fuel mf : Nat), i.lim - pos i < n → 0 ≤ i.addNext → n ≤ mf → n + i.lim + 6 ≤ fuel → i.lim ≤ pj.tape.size →
    ItInv pj "i" i e → logOf e = encIters acc →
    e.get "fn.results" = some (.bools ((answers N q).drop acc.size)) → acc.size + (i.lim - pos i) ≤ N →
    match View.arrDeleteElems pj q i acc.size acc mf with
    | .ok (pj', its) => ∃ e', exec1 goFuns fuel (.loop deLoopBody) ⟨e, pj.tape⟩ = .normal ⟨e', pj'.tape⟩ ∧
        logOf e' = encIters its ∧ e'.get "fn.results" = some (.bools ((answers N q).drop its.size))
    | .panic => exec1 goFuns fuel (.loop deLoopBody) ⟨e, pj.tape⟩ = .panic
    | _ => False := by
  intro n
  induction n with
  | zero => intro pj i acc e fuel mf h; omega
  | succ n ih =>
    intro pj i acc e fuel mf hm h0 hmf hf hl inv hlog hres hN
    obtain ⟨m, rfl⟩ : ∃ m, mf = m + 1 := ⟨mf - 1, by omega⟩
    obtain ⟨F, rfl⟩ : ∃ F, fuel = F + 2 := ⟨fuel - 2, by omega⟩
    have hA := exec1_advance pj ⟨e, pj.tape⟩ "t" "i" rfl i F hl rfl inv (by omega)
    rw [View.arrDeleteElems, exec1, deLoopBody_eq, exec]
    cases hr : i.advance pj with
    | ok r =>
      obtain ⟨i', t⟩ := r
      rw [hr] at hA
      simp only [] at hA
      rw [hA]
      simp only [Res.bind_ok]
      have inv1 : ItInv pj "i" i' ((advEnv e "i" i' pj).set "t" (.u8 t)) :=
        (inv.adv i' (by decide) (by decide) (by decide)).set _ _ (by decide)
      have hlog1 : logOf ((advEnv e "i" i' pj).set "t" (.u8 t)) = logOf e := by
        apply logOf_congr
        rw [Env.get_set_ne _ _ (by decide), get_advEnv _ _ _ _ _ (by decide)]
      have hres1 : ((advEnv e "i" i' pj).set "t" (.u8 t)).get "fn.results" =
          some (.bools ((answers N q).drop acc.size)) := by
        rw [Env.get_set_ne _ _ (by decide), get_advEnv _ _ _ _ _ (by decide), hres]
      rw [exec, exec1_brkIfNone _ _ _ t (Env.get_set_self _ _ _)]
      by_cases ht : t = typeNone
      · subst ht
        simp only [if_true, beq_self_eq_true]
        exact ⟨_, rfl, by rw [hlog1, hlog], hres1⟩
      · have hb : (t == typeNone) = false := by simp [ht]
        obtain ⟨f1, f2, f3, f4, f5, _⟩ := advance_facts pj i h0 i' t hr ht
        have hkN : acc.size < N := by unfold pos at hN; omega
        simp only [ht, hb, if_false, Bool.false_eq_true]
        rw [answers_drop N q _ hkN] at hres1
        rw [exec, exec1_cbq_i _ _ _ i' (q acc.size) _ inv1.it hres1]
        simp only []
        generalize hE2 : (((((advEnv e "i" i' pj).set "t" (.u8 t)).set "fn.log"
          (.ints (logOf ((advEnv e "i" i' pj).set "t" (.u8 t)) ++ encIter i'))).set "fn.results"
          (.bools ((answers N q).drop (acc.size + 1)))).set "#fn" (.bool (q acc.size))) = E2
        have inv2 : ItInv pj "i" i' E2 := by
          subst hE2
          exact ((inv1.set _ _ (by decide)).set _ _ (by decide)).set _ _ (by decide)
        have hlog2 : logOf E2 = encIters (acc.push i') := by
          subst hE2
          rw [logOf_congr (e := ((advEnv e "i" i' pj).set "t" (.u8 t)).set "fn.log"
            (.ints (logOf ((advEnv e "i" i' pj).set "t" (.u8 t)) ++ encIter i')))
            (by rw [Env.get_set_ne _ _ (by decide), Env.get_set_ne _ _ (by decide)]),
            logOf_set, hlog1, hlog, encIters_push]
        have hres2 : E2.get "fn.results" = some (.bools ((answers N q).drop (acc.push i').size)) := by
          subst hE2
          rw [Env.get_set_ne _ _ (by decide), Env.get_set_self, Array.size_push]
        have hfn : E2.get "#fn" = some (.bool (q acc.size)) := by
          subst hE2
          rw [Env.get_set_self]
        have hN2 : (acc.push i').size + (i'.lim - pos i') ≤ N := by
          rw [Array.size_push]; unfold pos at hN ⊢; omega
        rw [exec]
        cases hq : q acc.size with
        | false =>
          rw [hq] at hfn
          have hite : exec1 goFuns (F + 1) (.ite (.v "#fn") arrFillStmts []) ⟨E2, pj.tape⟩ = .normal ⟨E2, pj.tape⟩ := by
            simp [hfn]
          rw [hite]
          simp only [Bool.false_eq_true, if_false, Res.bind_ok, exec]
          have := ih pj i' (acc.push i') E2 (F + 1) m (by unfold pos at hm ⊢; omega) f4 (by omega) (by omega)
            (by omega) inv2 hlog2 hres2 hN2
          rw [Array.size_push] at this
          exact this
        | true =>
          rw [hq] at hfn
          have hite : exec1 goFuns (F + 1) (.ite (.v "#fn") arrFillStmts []) ⟨E2, pj.tape⟩ =
              exec goFuns (F + 1) arrFillStmts ⟨E2, pj.tape⟩ := by
            simp [hfn, -exec]
          rw [hite]
          have hfill := arrFill_run E2 pj.tape (F + 1) i' inv2.it (by omega) f4 (by unfold pos; omega)
          have hpos : ((i'.off : Int) + i'.addNext).toNat = pos i' := by unfold pos; omega
          have hchk : ¬ ((i'.off : Int) + i'.addNext < 0 ∨ i'.off = 0) := by omega
          simp only [if_true, hpos, hchk, if_false]
          cases hnf : Iter.nopFillV i'.lim pj.tape (i'.off - 1) (pos i') with
          | ok tp =>
            rw [hnf] at hfill
            obtain ⟨e3, hx, hfr⟩ := hfill
            rw [hx]
            simp only [Res.bind_ok, exec]
            have hsz : tp.size = pj.tape.size := nopFillV_size _ _ _ _ _ hnf
            have inv3 : ItInv { pj with tape := tp } "i" i' e3 :=
              ItInv.congr (pj := { pj with tape := tp }) ⟨inv2.it, inv2.sb, inv2.ms⟩
                (fun k hk => hfr k (by revert k; decide))
            have := ih { pj with tape := tp } i' (acc.push i') e3 (F + 1) m (by unfold pos at hm ⊢; omega) f4
              (by omega) (by omega) (by simp only; omega) inv3
              (by rw [logOf_congr (hfr _ (by decide)), hlog2])
              (by rw [hfr _ (by decide), hres2]) hN2
            rw [Array.size_push] at this
            exact this
          | panic =>
            rw [hnf] at hfill
            rw [hfill]
            simp
          | error _ => rw [hnf] at hfill; exact hfill.elim
          | diverge => rw [hnf] at hfill; exact hfill.elim
    | panic =>
      rw [hr] at hA
      simp only [] at hA
      rw [hA]
      simp
    | error _ => rw [hr] at hA; exact hA.elim
    | diverge => rw [hr] at hA; exact hA.elim

/-- `Array.DeleteElems` against `View.arrDeleteElems`: the new tape, the callbacks made, the answers not consumed -/
def SimDel (N : Nat) (q : Nat → Bool) (o : Out) (r : Res (PJ × Array Iter)) : Prop :=
  match r with
  | .ok (pj', its) => ∃ s, o = .ret s [] ∧ s.tape = pj'.tape ∧ logOf s.env = encIters its ∧
      s.env.get "fn.results" = some (.bools ((answers N q).drop its.size))
  | .panic => o = .panic
  | _ => False

/-- `Array.DeleteElems`, exactly and without hypothesis on the tape: the run IS the model's (new tape, callbacks made,
    answers not consumed; model `.panic` ⇔ interpreter panic — in particular when a deleted element ends beyond the view) -/
theorem arrDeleteElems_exact (pj : PJ) (v : View) (hl : v.lim ≤ pj.tape.size) (e0 : Env) (h0 : RecvIn pj "a" v e0)
    (hlog : logOf e0 = []) (q : Nat → Bool) (N : Nat) (hres : e0.get "fn.results" = some (.bools (answers N q)))
    (hN : v.lim - v.off ≤ N) (fuel mf : Nat) (hmf : v.lim - v.off + 1 ≤ mf) (hf : 2 * v.lim + 7 ≤ fuel) :
    SimDel N q (runFun goFuns goArray_DeleteElems fuel ⟨e0, pj.tape⟩) (View.arrDeleteElems pj q v.iter 0 #[] mf) := by
  have hsplit : goArray_DeleteElems.body = goArray_DeleteElems.body.take 5 ++ [.loop deLoopBody, .ret []] := rfl
  have hinit : exec goFuns fuel (goArray_DeleteElems.body.take 5) ⟨e0, pj.tape⟩ =
      .normal ⟨setIter e0 "i" v.iter, pj.tape⟩ := by
    obtain ⟨a1, a2, hS, hM⟩ := h0
    simp only [String.reduceAppend] at a1 a2
    simp [goArray_DeleteElems, a1, a2, setIter, View.iter, tagEnd]
  have hloop := arrDel_loop N q (v.lim - v.off + 1) pj v.iter #[] (setIter e0 "i" v.iter) fuel mf
    (by simp [pos, View.iter]) (by simp [View.iter]) hmf (by simp [View.iter]; omega) hl (ItInv_init pj v e0 h0)
    (by rw [logOf_congr (get_setIter_ne _ _ _ _ (by decide)), hlog]; rfl)
    (by rw [get_setIter_ne _ _ _ _ (by decide), hres]; rfl) (by simp [pos, View.iter]; omega)
  simp only [List.size_toArray, List.length_nil] at hloop
  unfold runFun
  rw [hsplit, exec_append, hinit]
  simp only []
  rw [exec]
  revert hloop
  generalize exec1 goFuns fuel (.loop deLoopBody) _ = out
  cases View.arrDeleteElems pj q v.iter 0 #[] mf with
  | ok r =>
    obtain ⟨pj', its⟩ := r
    rintro ⟨e', rfl, hlg, hrs⟩
    simp [SimDel]
    exact ⟨hlg, hrs⟩
  | panic => rintro rfl; simp [SimDel]
  | error _ => exact fun h => h.elim
  | diverge => exact fun h => h.elim

/-- `Array.DeleteElems` IS `View.arrDeleteElems` (the name under which the tie is quoted; no premise on the run) -/
theorem arrDeleteElems_sim (pj : PJ) (v : View) (hl : v.lim ≤ pj.tape.size) (e0 : Env) (h0 : RecvIn pj "a" v e0)
    (hlog : logOf e0 = []) (q : Nat → Bool) (N : Nat) (hres : e0.get "fn.results" = some (.bools (answers N q)))
    (hN : v.lim - v.off ≤ N) (fuel mf : Nat) (hmf : v.lim - v.off + 1 ≤ mf) (hf : 2 * v.lim + 7 ≤ fuel) :
    SimDel N q (runFun goFuns goArray_DeleteElems fuel ⟨e0, pj.tape⟩) (View.arrDeleteElems pj q v.iter 0 #[] mf) :=
  arrDeleteElems_exact pj v hl e0 h0 hlog q N hres hN fuel mf hmf hf

/-! ### the former difference, concretely

An array view of two words `[ '[' → 5 , ']' ]` whose opener's end pointer (5) lies beyond the view (`lim = 2`) but inside
the array (5 words).  `DeleteElems(func(Iter) bool { return true })`: Go writes through `i.tape.Tape`, whose length is 2,
and panics at index 2.  Until the repair the model (`fillNops`, checked against the whole tape) filled words 0‥4 and
returned; with `Iter.nopFillV i.lim` it panics too. -/

theorem eq_panic_of_isPanic {α : Type} {r : Res α} (h : r.isPanic = true) : r = .panic := by
  cases r <;> first | rfl | cases h

def pjOut : PJ :=
  { tape := #[mkWord tagArrayStart 5, mkWord tagArrayEnd 0, 0, 0, 0], strings := #[], msg := #[] }
def vOut : View := { lim := 2, off := 0 }
def envOut : Env :=
  [("a.off", .int 0), ("a.lim", .int 2)] ++ bufEnv pjOut ++ [("fn.results", .bools (answers 2 fun _ => true)), ("fn.log", .ints [])]

example : vOut.lim ≤ pjOut.tape.size ∧ (View.arrDeleteElems pjOut (fun _ => true) vOut.iter 0 #[] 3).isPanic = true ∧
    ∀ fuel, 11 ≤ fuel → runFun goFuns goArray_DeleteElems fuel ⟨envOut, pjOut.tape⟩ = .panic := by
  have hp : (View.arrDeleteElems pjOut (fun _ => true) vOut.iter 0 #[] 3).isPanic = true := by decide +kernel
  refine ⟨by decide, hp, fun fuel hf => ?_⟩
  have := arrDeleteElems_exact pjOut vOut (by decide) envOut ⟨rfl, rfl, rfl, rfl⟩ rfl (fun _ => true) 2 rfl (by decide)
    fuel 3 (by decide) (by simpa [vOut] using hf)
  rw [eq_panic_of_isPanic hp] at this
  exact this

/-! ## 4. `Object.ForEach` -/

/-- the log of a list of callbacks `fn(name, tmp)`: six integers per call (length of the name, then the iterator) -/
def encNIs (a : Array (Bytes × Iter)) : List Int := a.toList.flatMap encNI

theorem encNIs_push (a : Array (Bytes × Iter)) (x : Bytes × Iter) : encNIs (a.push x) = encNIs a ++ encNI x := by
  simp [encNIs]

def ofeLoopBody : List Stmt := firstLoop goObject_ForEach.body

def ofeTail : List Stmt := [
  .cb "_" "fn" cbLogsTmp,
  .assign "n" (.bin .add (.v "n") (.int 1)),
  .ite (.bin .eq (.v "n") (.lenK (.v "onlyKeys"))) [
    .ret [(.bool false /- nil -/)]] []]

theorem ofeLoopBody_eq : ofeLoopBody = objHeadA ++ (objHeadB ++ (objFilter :: (objValue ++ ofeTail))) := rfl

theorem ofeTail_run (e : Env) (tape : Array UInt64) (fuel : Nat) (tmp2 : Iter) (name : Bytes) (ks : List Bytes)
    (cnt : Nat) (hI : iterAt e "tmp" = some tmp2) (hn : e.get "name" = some (.bytes name))
    (hk : e.get "onlyKeys" = some (.keys ks)) (hc : e.get "n" = some (.int cnt)) :
    exec goFuns fuel ofeTail ⟨e, tape⟩ =
      if cnt + 1 = ks.length then
        .ret ⟨(e.set "fn.log" (.ints (logOf e ++ encNI (name, tmp2)))).set "n" (.int ((cnt + 1 : Nat) : Int)), tape⟩
          [.bool false]
      else .normal ⟨(e.set "fn.log" (.ints (logOf e ++ encNI (name, tmp2)))).set "n" (.int ((cnt + 1 : Nat) : Int)),
        tape⟩ := by
  rw [ofeTail, exec, exec1_cb_tmp _ _ _ tmp2 name hI hn]
  simp only []
  by_cases h : cnt + 1 = ks.length
  · have h' : ((cnt : Int) + 1 == (ks.length : Int)) = true := by simp; omega
    rw [if_pos h]
    simp [hc, hk, h']
  · have h' : ((cnt : Int) + 1 == (ks.length : Int)) = false := by simp; omega
    rw [if_neg h]
    simp [hc, hk, h']

/-- `Object.ForEach` / `Object.DeleteElems` return `nil` or an error -/
def SimOFE (pj : PJ) (o : Out) (r : Res (Array (Bytes × Iter))) : Prop :=
  match r with
  | .ok its => ∃ s, o = .ret s [.bool false] ∧ s.tape = pj.tape ∧ logOf s.env = encNIs its
  | .error _ => ∃ s, o = .ret s [.bool true] ∧ s.tape = pj.tape
  | .panic => o = .panic
  | .diverge => False

/-- the loop of `Object.ForEach` IS `View.forEach` -/
theorem objForEach_loop (pj : PJ) (hb : BufOK pj) (ks : List Bytes) : ∀ (n : Nat) (tmp : Iter) (cnt : Nat)
    (acc : Array (Bytes × Iter)) (e : Env) (fuel mf : Nat),
    tmp.lim - pos tmp < n → 0 ≤ tmp.addNext → n ≤ mf → n + tmp.lim + 6 ≤ fuel → tmp.lim ≤ pj.tape.size →
    ItInv pj "tmp" tmp e → e.get "onlyKeys" = some (.keys ks) → e.get "n" = some (.int cnt) →
    logOf e = encNIs acc →
    match View.forEach pj ks tmp cnt acc mf with
    | .ok its => ∃ e', exec1 goFuns fuel (.loop ofeLoopBody) ⟨e, pj.tape⟩ = .ret ⟨e', pj.tape⟩ [.bool false] ∧
        logOf e' = encNIs its
    | .error _ => ∃ e', exec1 goFuns fuel (.loop ofeLoopBody) ⟨e, pj.tape⟩ = .ret ⟨e', pj.tape⟩ [.bool true]
    | .panic => exec1 goFuns fuel (.loop ofeLoopBody) ⟨e, pj.tape⟩ = .panic
    | .diverge => False := by
  intro n
  induction n with
  | zero => intro tmp cnt acc e fuel mf h; omega
  | succ n ih =>
    intro tmp cnt acc e fuel mf hm h0 hmf hf hl inv hk hcnt hlog
    obtain ⟨m, rfl⟩ : ∃ m, mf = m + 1 := ⟨mf - 1, by omega⟩
    obtain ⟨F, rfl⟩ : ∃ F, fuel = F + 2 := ⟨fuel - 2, by omega⟩
    have hA := objHeadA_run pj e tmp F (objHeadB ++ (objFilter :: (objValue ++ ofeTail))) inv hl (by omega)
    rw [View.forEach, exec1, ofeLoopBody_eq]
    cases hr : tmp.advance pj with
    | panic => rw [hr] at hA; simp only [] at hA; rw [hA]; simp
    | error _ => rw [hr] at hA; exact hA.elim
    | diverge => rw [hr] at hA; exact hA.elim
    | ok r =>
      obtain ⟨tmp1, typ⟩ := r
      rw [hr] at hA
      simp only [] at hA
      rw [hA]
      simp only [Res.bind_ok]
      have inv1 : ItInv pj "tmp" tmp1 ((advEnv e "tmp" tmp1 pj).set "typ" (.u8 typ)) :=
        (inv.adv tmp1 (by decide) (by decide) (by decide)).set _ _ (by decide)
      have hfr1 : ∀ k, k ∉ "typ" :: itKeys "tmp" → ((advEnv e "tmp" tmp1 pj).set "typ" (.u8 typ)).get k = e.get k := by
        intro k hk'
        simp only [List.mem_cons, not_or] at hk'
        rw [Env.get_set_ne _ _ (Ne.symm hk'.1), get_advEnv _ _ _ _ _ (by simpa [itKeys] using hk'.2)]
      generalize (advEnv e "tmp" tmp1 pj).set "typ" (.u8 typ) = E1 at inv1 hfr1 ⊢
      by_cases hc : typ ≠ typeString ∨ tmp1.off + 1 ≥ tmp1.lim
      · have hc' : (typ != typeString) = true ∨ tmp1.off + 1 ≥ tmp1.lim := by
          rcases hc with h | h
          · exact Or.inl (by simpa using h)
          · exact Or.inr h
        rw [if_pos hc, if_pos hc']
        by_cases hn : typ = typeNone
        · subst hn
          simp only [beq_self_eq_true, if_true, Bool.not_true]
          exact ⟨E1, rfl, by rw [logOf_congr (hfr1 _ (by decide)), hlog]⟩
        · have hn' : (typ == typeNone) = false := by simpa using hn
          simp only [hn', Bool.false_eq_true, if_false, Bool.not_false]
          exact ⟨E1, rfl⟩
      · have hc' : ¬ ((typ != typeString) = true ∨ tmp1.off + 1 ≥ tmp1.lim) := by
          intro h
          apply hc
          rcases h with h | h
          · exact Or.inl (by simpa using h)
          · exact Or.inr h
        rw [if_neg hc, if_neg hc']
        have hts : typ = typeString := by
          apply Classical.byContradiction; intro h; exact hc (Or.inl h)
        have htn : typ ≠ typeNone := by rw [hts]; decide
        have h2 : tmp1.off + 1 < tmp1.lim := by omega
        obtain ⟨f1, f2, f3, f4, f5, _⟩ := advance_facts pj tmp h0 tmp1 typ hr htn
        obtain ⟨w, hw, hB⟩ := objHeadB_run pj E1 tmp1 F (objFilter :: (objValue ++ ofeTail)) hb inv1 (by omega) h2
        simp only [rd, hw, Res.bind_ok]
        cases hsb : stringByteAt pj tmp1.cur w with
        | panic => have := stringByteAt_safe pj tmp1.cur w; rw [hsb] at this; cases this
        | diverge => have := stringByteAt_safe pj tmp1.cur w; rw [hsb] at this; cases this
        | error _ =>
          rw [hsb] at hB
          obtain ⟨e', hx⟩ := hB
          rw [hx]
          exact ⟨e', rfl⟩
        | ok name =>
          rw [hsb] at hB
          obtain ⟨e2, hx, inv2, hname, hfr2⟩ := hB
          rw [hx]
          simp only [Res.bind_ok]
          have hk2 : e2.get "onlyKeys" = some (.keys ks) := by
            rw [hfr2 _ (by decide), hfr1 _ (by decide), hk]
          have hcnt2 : e2.get "n" = some (.int cnt) := by
            rw [hfr2 _ (by decide), hfr1 _ (by decide), hcnt]
          have hlog2 : logOf e2 = encNIs acc := by
            rw [logOf_congr (hfr2 _ (by decide)), logOf_congr (hfr1 _ (by decide)), hlog]
          have hFl := objFilter_run pj e2 tmp1 name ks F (objValue ++ ofeTail) inv2 hname hk2 (by omega) (by omega)
          by_cases hcond : ks.length > 0 ∧ (!ks.contains name) = true
          · rw [if_pos hcond] at hFl ⊢
            cases hr2 : tmp1.advance pj with
            | panic => rw [hr2] at hFl; simp only [] at hFl; rw [hFl]; simp
            | error _ => rw [hr2] at hFl; exact hFl.elim
            | diverge => rw [hr2] at hFl; exact hFl.elim
            | ok r2 =>
              obtain ⟨tmp2, t⟩ := r2
              rw [hr2] at hFl
              simp only [] at hFl
              rw [hFl]
              simp only [Res.bind_ok]
              have inv3 : ItInv pj "tmp" tmp2 ((advEnv (e2.set "ok" (.bool false)) "tmp" tmp2 pj).set "t" (.u8 t)) :=
                ((inv2.set _ _ (by decide)).adv tmp2 (by decide) (by decide) (by decide)).set _ _ (by decide)
              have hfr3 : ∀ k, k ∉ "t" :: "ok" :: itKeys "tmp" →
                  ((advEnv (e2.set "ok" (.bool false)) "tmp" tmp2 pj).set "t" (.u8 t)).get k = e2.get k := by
                intro k hk'
                simp only [List.mem_cons, not_or] at hk'
                rw [Env.get_set_ne _ _ (Ne.symm hk'.1), get_advEnv _ _ _ _ _ (by simpa [itKeys] using hk'.2.2),
                  Env.get_set_ne _ _ (Ne.symm hk'.2.1)]
              generalize (advEnv (e2.set "ok" (.bool false)) "tmp" tmp2 pj).set "t" (.u8 t) = E3 at inv3 hfr3 ⊢
              by_cases ht : t = typeNone
              · subst ht
                simp only [if_true, beq_self_eq_true]
                exact ⟨E3, rfl, by rw [logOf_congr (hfr3 _ (by decide)), hlog2]⟩
              · have ht' : (t == typeNone) = false := by simpa using ht
                obtain ⟨q1, q2, q3, q4, q5, _⟩ := advance_facts pj tmp1 f4 tmp2 t hr2 ht
                simp only [ht, ht', if_false, Bool.false_eq_true]
                exact ih tmp2 cnt acc E3 (F + 1) m (by unfold pos at hm ⊢; omega) q4 (by omega) (by omega)
                  (by omega) inv3 (by rw [hfr3 _ (by decide), hk2]) (by rw [hfr3 _ (by decide), hcnt2])
                  (by rw [logOf_congr (hfr3 _ (by decide)), hlog2])
          · rw [if_neg hcond] at hFl ⊢
            obtain ⟨e3, hx3, hfr3⟩ := hFl
            rw [hx3]
            have inv3 : ItInv pj "tmp" tmp1 e3 := inv2.congr (fun k hk' => hfr3 k (by revert k; decide))
            have hV := objValue_run pj e3 tmp1 F ofeTail inv3 (by omega) (by omega)
            cases hr2 : tmp1.advance pj with
            | panic => rw [hr2] at hV; simp only [] at hV; rw [hV]; simp
            | error _ => rw [hr2] at hV; exact hV.elim
            | diverge => rw [hr2] at hV; exact hV.elim
            | ok r2 =>
              obtain ⟨tmp2, t⟩ := r2
              rw [hr2] at hV
              simp only [] at hV
              rw [hV]
              simp only [Res.bind_ok]
              have inv4 : ItInv pj "tmp" tmp2 ((advEnv e3 "tmp" tmp2 pj).set "t" (.u8 t)) :=
                (inv3.adv tmp2 (by decide) (by decide) (by decide)).set _ _ (by decide)
              have hfr4 : ∀ k, k ∉ "t" :: "ok" :: itKeys "tmp" →
                  ((advEnv e3 "tmp" tmp2 pj).set "t" (.u8 t)).get k = e2.get k := by
                intro k hk'
                simp only [List.mem_cons, not_or] at hk'
                rw [Env.get_set_ne _ _ (Ne.symm hk'.1), get_advEnv _ _ _ _ _ (by simpa [itKeys] using hk'.2.2),
                  hfr3 _ hk'.2.1]
              generalize (advEnv e3 "tmp" tmp2 pj).set "t" (.u8 t) = E4 at inv4 hfr4 ⊢
              by_cases ht : t = typeNone
              · subst ht
                simp only [if_true, beq_self_eq_true]
                exact ⟨E4, rfl, by rw [logOf_congr (hfr4 _ (by decide)), hlog2]⟩
              · have ht' : (t == typeNone) = false := by simpa using ht
                obtain ⟨q1, q2, q3, q4, q5, _⟩ := advance_facts pj tmp1 f4 tmp2 t hr2 ht
                simp only [ht, ht', if_false, Bool.false_eq_true]
                rw [ofeTail_run E4 pj.tape (F + 1) tmp2 name ks cnt inv4.it (by rw [hfr4 _ (by decide), hname])
                  (by rw [hfr4 _ (by decide), hk2]) (by rw [hfr4 _ (by decide), hcnt2])]
                have hlog4 : logOf E4 = encNIs acc := by rw [logOf_congr (hfr4 _ (by decide)), hlog2]
                by_cases hce : cnt + 1 = ks.length
                · have hce' : (cnt + 1 == ks.length) = true := by simpa using hce
                  simp only [hce', if_true]
                  rw [if_pos hce]
                  refine ⟨_, rfl, ?_⟩
                  rw [logOf_congr (Env.get_set_ne _ _ (by decide)), logOf_set, hlog4, encNIs_push]
                · have hce' : (cnt + 1 == ks.length) = false := by simpa using hce
                  simp only [hce', if_false, Bool.false_eq_true]
                  rw [if_neg hce]
                  exact ih tmp2 (cnt + 1) (acc.push (name, tmp2)) _ (F + 1) m (by unfold pos at hm ⊢; omega) q4
                    (by omega) (by omega) (by omega)
                    ((inv4.set _ _ (by decide)).set _ _ (by decide))
                    (by rw [Env.get_set_ne _ _ (by decide), Env.get_set_ne _ _ (by decide), hfr4 _ (by decide), hk2])
                    (by rw [Env.get_set_self])
                    (by rw [logOf_congr (Env.get_set_ne _ _ (by decide)), logOf_set, hlog4, encNIs_push])

/-- the store after `tmp := o.tape.Iter(); tmp.off = o.off` -/
def objInitEnv (e0 : Env) (v : View) : Env :=
  (((((e0.set "tmp.off" (.int 0)).set "tmp.addNext" (.int 0)).set "tmp.cur" (.u64 0)).set "tmp.t" (.u8 0)).set "tmp.lim"
    (.int v.lim)).set "tmp.off" (.int v.off)

theorem objInitEnv_inv (pj : PJ) (v : View) (e0 : Env) (h0 : RecvIn pj "o" v e0) :
    ItInv pj "tmp" v.iter (objInitEnv e0 v) := by
  obtain ⟨a1, a2, hS, hM⟩ := h0
  refine ⟨?_, ?_, ?_⟩
  · apply iterAt_of_gets <;> simp [objInitEnv, View.iter, tagEnd]
  · simp [objInitEnv, hS]
  · simp [objInitEnv, hM]

theorem objInitEnv_get (v : View) (e0 : Env) (k : String) (hk : k ∉ fieldsOf "tmp") :
    (objInitEnv e0 v).get k = e0.get k := by
  simp only [fieldsOf, List.mem_cons, List.not_mem_nil, or_false, not_or, String.reduceAppend] at hk
  obtain ⟨k1, k2, k3, k4, k5⟩ := hk
  simp only [objInitEnv]
  rw [Env.get_set_ne _ _ (Ne.symm k1), Env.get_set_ne _ _ (Ne.symm k5), Env.get_set_ne _ _ (Ne.symm k4),
    Env.get_set_ne _ _ (Ne.symm k3), Env.get_set_ne _ _ (Ne.symm k2), Env.get_set_ne _ _ (Ne.symm k1)]

/-- `Object.ForEach` IS `View.forEach`: the callbacks made are the model's, in order (name length and iterator); `nil` /
    error / panic as the model says; the tape is untouched -/
theorem objForEach_sim (pj : PJ) (hb : BufOK pj) (v : View) (hl : v.lim ≤ pj.tape.size) (ks : List Bytes) (e0 : Env)
    (h0 : RecvIn pj "o" v e0) (hk : e0.get "onlyKeys" = some (.keys ks)) (hlog : logOf e0 = []) (fuel mf : Nat)
    (hmf : v.lim - v.off + 1 ≤ mf) (hf : 2 * v.lim + 7 ≤ fuel) :
    SimOFE pj (runFun goFuns goObject_ForEach fuel ⟨e0, pj.tape⟩) (View.forEach pj ks v.iter 0 #[] mf) := by
  have hsplit : goObject_ForEach.body = goObject_ForEach.body.take 7 ++ [.loop ofeLoopBody] := rfl
  have hinit : exec goFuns fuel (goObject_ForEach.body.take 7) ⟨e0, pj.tape⟩ =
      .normal ⟨(objInitEnv e0 v).set "n" (.int 0), pj.tape⟩ := by
    obtain ⟨a1, a2, hS, hM⟩ := h0
    simp only [String.reduceAppend] at a1 a2
    simp [goObject_ForEach, a1, a2, objInitEnv]
  have hloop := objForEach_loop pj hb ks (v.lim - v.off + 1) v.iter 0 #[] ((objInitEnv e0 v).set "n" (.int 0)) fuel mf
    (by simp [pos, View.iter]) (by simp [View.iter]) hmf (by simp [View.iter]; omega) hl
    ((objInitEnv_inv pj v e0 h0).set _ _ (by decide))
    (by rw [Env.get_set_ne _ _ (by decide), objInitEnv_get _ _ _ (by decide), hk])
    (by rw [Env.get_set_self]; rfl)
    (by rw [logOf_congr (Env.get_set_ne _ _ (by decide)), logOf_congr (objInitEnv_get _ _ _ (by decide)), hlog]; rfl)
  unfold runFun
  rw [hsplit, exec_append, hinit]
  simp only []
  rw [exec]
  revert hloop
  generalize exec1 goFuns fuel (.loop ofeLoopBody) _ = out
  cases View.forEach pj ks v.iter 0 #[] mf with
  | ok its =>
    rintro ⟨e', rfl, hlg⟩
    exact ⟨_, rfl, rfl, hlg⟩
  | error _ =>
    rintro ⟨e', rfl⟩
    exact ⟨_, rfl, rfl⟩
  | panic => rintro rfl; rfl
  | diverge => exact fun h => h.elim

/-! ## 5. `Object.DeleteElems` -/

def odeLoopBody : List Stmt := firstLoop goObject_DeleteElems.body

def objFillStmts : List Stmt :=
  .assign "end" (.bin .add (.v "tmp.off") (.v "tmp.addNext")) :: fillTail "i" "tmp"

def odeTail : Stmt :=
  .ite (.v "fn==nil") objFillStmts [.cb "#fn" "fn" cbLogsTmp, .ite (.v "#fn") objFillStmts []]

theorem odeLoopBody_eq : odeLoopBody = objHeadA ++ (.assign "startO" (.bin .sub (.v "tmp.off") (.int 1)) ::
    (objHeadB ++ (objFilter :: (objValue ++ [odeTail])))) := rfl

theorem objFill_run (e : Env) (tape : Array UInt64) (fuel : Nat) (tmp2 : Iter) (lo : Nat)
    (hI : iterAt e "tmp" = some tmp2) (hs : e.get "startO" = some (.int lo)) (hlo : lo ≤ pos tmp2)
    (h0 : 0 ≤ tmp2.addNext) (hf : min (pos tmp2) tmp2.lim - lo + 3 ≤ fuel) :
    match Iter.nopFillV tmp2.lim tape lo (pos tmp2) with
    | .ok t' => ∃ e', exec goFuns fuel objFillStmts ⟨e, tape⟩ = .normal ⟨e', t'⟩ ∧
        ∀ k, k ∉ ["end", "skip", "i"] → e'.get k = e.get k
    | .panic => exec goFuns fuel objFillStmts ⟨e, tape⟩ = .panic
    | _ => False := by
  obtain ⟨g1, g2, g3, g4, g5⟩ := iterAt_get_tmp _ _ hI
  have he : exec1 goFuns fuel (.assign "end" (.bin .add (.v "tmp.off") (.v "tmp.addNext"))) ⟨e, tape⟩ =
      .normal ⟨e.set "end" (.int ((pos tmp2 : Nat) : Int)), tape⟩ := by
    have : (tmp2.off : Int) + tmp2.addNext = ((pos tmp2 : Nat) : Int) := by unfold pos; omega
    simp [g1, g2, this]
  have ht := fillTail_run "i" "tmp" tmp2.lim lo (pos tmp2) (by decide) (by decide) (by decide) (by decide) tape
    (e.set "end" (.int ((pos tmp2 : Nat) : Int))) fuel hlo hf (by simp [hs]) (by simp) (by simp [g5])
  rw [objFillStmts, exec, he]
  simp only []
  revert ht
  cases Iter.nopFillV tmp2.lim tape lo (pos tmp2) with
  | ok t' =>
    rintro ⟨e', hx, hfr⟩
    refine ⟨e', hx, ?_⟩
    intro k hk
    simp only [List.mem_cons, List.not_mem_nil, or_false, not_or] at hk
    obtain ⟨k1, k2, k3⟩ := hk
    rw [hfr k k3 k2, Env.get_set_ne _ _ (Ne.symm k1)]
  | panic => exact fun h => h
  | error _ => exact fun h => h
  | diverge => exact fun h => h

/-- what the store says about the callback: with `fn == nil` nothing is logged; otherwise the log holds the callbacks
    made so far and `fn.results` the answers not yet consumed -/
def CbInv (nil : Bool) (N : Nat) (q : Nat → Bool) (L0 : List Int) (acc : Array (Bytes × Iter)) (e : Env) : Prop :=
  if nil = true then logOf e = L0
  else logOf e = encNIs acc ∧ e.get "fn.results" = some (.bools ((answers N q).drop acc.size))

theorem CbInv.congr {nil : Bool} {N : Nat} {q : Nat → Bool} {L0 : List Int} {acc : Array (Bytes × Iter)} {e e' : Env}
    (h : CbInv nil N q L0 acc e) (h1 : e'.get "fn.log" = e.get "fn.log")
    (h2 : e'.get "fn.results" = e.get "fn.results") : CbInv nil N q L0 acc e' := by
  unfold CbInv at h ⊢
  cases nil with
  | true => simp only [if_true] at h ⊢; rw [logOf_congr h1]; exact h
  | false =>
    simp only [Bool.false_eq_true, if_false] at h ⊢
    rw [logOf_congr h1, h2]; exact h

theorem BufOK_tape {pj : PJ} (hb : BufOK pj) (tp : Array UInt64) : BufOK { pj with tape := tp } := hb

/-- the loop of `Object.DeleteElems` IS `View.deleteElems` (a deleted member that ends beyond the view makes both panic:
    the fill is `Iter.nopFillV tmp.lim` on both sides).  `nil` is `fn == nil` (then every selected member is deleted and
    nothing is logged), `q` the answers. -/
theorem objDel_loop (nil : Bool) (N : Nat) (q : Nat → Bool) (L0 : List Int) (ks : List Bytes) : ∀ (n : Nat) (pj : PJ)
    (tmp : Iter) (acc : Array (Bytes × Iter)) (e : Env) (fuel mf : Nat), BufOK pj →
    tmp.lim - pos tmp < n → 0 ≤ tmp.addNext → n ≤ mf → n + tmp.lim + 6 ≤ fuel → tmp.lim ≤ pj.tape.size →
    ItInv pj "tmp" tmp e → e.get "onlyKeys" = some (.keys ks) → e.get "fn==nil" = some (.bool nil) →
    CbInv nil N q L0 acc e → (nil = false → acc.size + (tmp.lim - pos tmp) ≤ N) →
    match View.deleteElems pj (fun k _ => nil || q k) ks tmp acc.size acc mf with
    | .ok (pj', its) => ∃ e', exec1 goFuns fuel (.loop odeLoopBody) ⟨e, pj.tape⟩ = .ret ⟨e', pj'.tape⟩ [.bool false] ∧
        CbInv nil N q L0 its e'
    | .error _ => ∃ s', exec1 goFuns fuel (.loop odeLoopBody) ⟨e, pj.tape⟩ = .ret s' [.bool true]
    | .panic => exec1 goFuns fuel (.loop odeLoopBody) ⟨e, pj.tape⟩ = .panic
    | .diverge => False := by
  intro n
  induction n with
  | zero => intro pj tmp acc e fuel mf _ h; omega
  | succ n ih =>
    intro pj tmp acc e fuel mf hb hm h0 hmf hf hl inv hk hnil hcb hN
    obtain ⟨m, rfl⟩ : ∃ m, mf = m + 1 := ⟨mf - 1, by omega⟩
    obtain ⟨F, rfl⟩ : ∃ F, fuel = F + 2 := ⟨fuel - 2, by omega⟩
    have hA := objHeadA_run pj e tmp F (.assign "startO" (.bin .sub (.v "tmp.off") (.int 1)) ::
      (objHeadB ++ (objFilter :: (objValue ++ [odeTail])))) inv hl (by omega)
    rw [View.deleteElems, exec1, odeLoopBody_eq]
    cases hr : tmp.advance pj with
    | panic => rw [hr] at hA; simp only [] at hA; rw [hA]; simp
    | error _ => rw [hr] at hA; exact hA.elim
    | diverge => rw [hr] at hA; exact hA.elim
    | ok r =>
      obtain ⟨tmp1, typ⟩ := r
      rw [hr] at hA
      simp only [] at hA
      rw [hA]
      simp only [Res.bind_ok]
      have inv1 : ItInv pj "tmp" tmp1 ((advEnv e "tmp" tmp1 pj).set "typ" (.u8 typ)) :=
        (inv.adv tmp1 (by decide) (by decide) (by decide)).set _ _ (by decide)
      have hfr1 : ∀ k, k ∉ "typ" :: itKeys "tmp" → ((advEnv e "tmp" tmp1 pj).set "typ" (.u8 typ)).get k = e.get k := by
        intro k hk'
        simp only [List.mem_cons, not_or] at hk'
        rw [Env.get_set_ne _ _ (Ne.symm hk'.1), get_advEnv _ _ _ _ _ (by simpa [itKeys] using hk'.2)]
      generalize (advEnv e "tmp" tmp1 pj).set "typ" (.u8 typ) = E1 at inv1 hfr1 ⊢
      by_cases hc : typ ≠ typeString ∨ tmp1.off + 1 ≥ tmp1.lim
      · have hc' : (typ != typeString) = true ∨ tmp1.off + 1 ≥ tmp1.lim := by
          rcases hc with h | h
          · exact Or.inl (by simpa using h)
          · exact Or.inr h
        rw [if_pos hc, if_pos hc']
        simp only [if_true]
        by_cases hn : typ = typeNone
        · subst hn
          simp only [beq_self_eq_true, if_true, Bool.not_true]
          exact ⟨E1, rfl, hcb.congr (hfr1 _ (by decide)) (hfr1 _ (by decide))⟩
        · have hn' : (typ == typeNone) = false := by simpa using hn
          simp only [hn', Bool.false_eq_true, if_false, Bool.not_false]
          exact ⟨_, rfl⟩
      · have hc' : ¬ ((typ != typeString) = true ∨ tmp1.off + 1 ≥ tmp1.lim) := by
          intro h
          apply hc
          rcases h with h | h
          · exact Or.inl (by simpa using h)
          · exact Or.inr h
        rw [if_neg hc, if_neg hc']
        have hts : typ = typeString := by
          apply Classical.byContradiction; intro h; exact hc (Or.inl h)
        have htn : typ ≠ typeNone := by rw [hts]; decide
        have h2 : tmp1.off + 1 < tmp1.lim := by omega
        obtain ⟨f1, f2, f3, f4, f5, _⟩ := advance_facts pj tmp h0 tmp1 typ hr htn
        -- startO := tmp.off - 1
        have hso : exec1 goFuns (F + 1) (.assign "startO" (.bin .sub (.v "tmp.off") (.int 1))) ⟨E1, pj.tape⟩ =
            .normal ⟨E1.set "startO" (.int ((tmp1.off - 1 : Nat) : Int)), pj.tape⟩ := by
          have : (tmp1.off : Int) - 1 = ((tmp1.off - 1 : Nat) : Int) := by omega
          simp [(iterAt_get_tmp _ _ inv1.it).1, this]
        rw [exec, hso]
        simp only []
        have inv1' : ItInv pj "tmp" tmp1 (E1.set "startO" (.int ((tmp1.off - 1 : Nat) : Int))) :=
          inv1.set _ _ (by decide)
        obtain ⟨w, hw, hB⟩ := objHeadB_run pj (E1.set "startO" (.int ((tmp1.off - 1 : Nat) : Int))) tmp1 F
          (objFilter :: (objValue ++ [odeTail])) hb inv1' (by omega) h2
        simp only [rd, hw, Res.bind_ok]
        cases hsb : stringByteAt pj tmp1.cur w with
        | panic => have := stringByteAt_safe pj tmp1.cur w; rw [hsb] at this; cases this
        | diverge => have := stringByteAt_safe pj tmp1.cur w; rw [hsb] at this; cases this
        | error _ =>
          rw [hsb] at hB
          obtain ⟨e', hx⟩ := hB
          rw [hx]
          simp only [if_true]
          exact ⟨_, rfl⟩
        | ok name =>
          rw [hsb] at hB
          obtain ⟨e2, hx, inv2, hname, hfr2⟩ := hB
          rw [hx]
          simp only [Res.bind_ok]
          have hget2 : ∀ k, k ∉ "startO" :: "typ" :: (headBKeys ++ itKeys "tmp") → e2.get k = e.get k := by
            intro k hk'
            simp only [List.mem_cons, List.mem_append, not_or] at hk'
            rw [hfr2 _ hk'.2.2.1, Env.get_set_ne _ _ (Ne.symm hk'.1),
              hfr1 _ (by simp only [List.mem_cons, not_or]; exact ⟨hk'.2.1, by simpa [itKeys] using hk'.2.2.2⟩)]
          have hk2 : e2.get "onlyKeys" = some (.keys ks) := by rw [hget2 _ (by decide), hk]
          have hnil2 : e2.get "fn==nil" = some (.bool nil) := by rw [hget2 _ (by decide), hnil]
          have hcb2 : CbInv nil N q L0 acc e2 := hcb.congr (hget2 _ (by decide)) (hget2 _ (by decide))
          have hso2 : e2.get "startO" = some (.int ((tmp1.off - 1 : Nat) : Int)) := by
            rw [hfr2 _ (by decide), Env.get_set_self]
          have hFl := objFilter_run pj e2 tmp1 name ks F (objValue ++ [odeTail]) inv2 hname hk2 (by omega) (by omega)
          by_cases hcond : ks.length > 0 ∧ (!ks.contains name) = true
          · rw [if_pos hcond] at hFl
            simp only [if_pos hcond]
            cases hr2 : tmp1.advance pj with
            | panic => rw [hr2] at hFl; simp only [] at hFl; rw [hFl]; simp
            | error _ => rw [hr2] at hFl; exact hFl.elim
            | diverge => rw [hr2] at hFl; exact hFl.elim
            | ok r2 =>
              obtain ⟨tmp2, t⟩ := r2
              rw [hr2] at hFl
              simp only [] at hFl
              rw [hFl]
              simp only [Res.bind_ok]
              have inv3 : ItInv pj "tmp" tmp2 ((advEnv (e2.set "ok" (.bool false)) "tmp" tmp2 pj).set "t" (.u8 t)) :=
                ((inv2.set _ _ (by decide)).adv tmp2 (by decide) (by decide) (by decide)).set _ _ (by decide)
              have hfr3 : ∀ k, k ∉ "t" :: "ok" :: itKeys "tmp" →
                  ((advEnv (e2.set "ok" (.bool false)) "tmp" tmp2 pj).set "t" (.u8 t)).get k = e2.get k := by
                intro k hk'
                simp only [List.mem_cons, not_or] at hk'
                rw [Env.get_set_ne _ _ (Ne.symm hk'.1), get_advEnv _ _ _ _ _ (by simpa [itKeys] using hk'.2.2),
                  Env.get_set_ne _ _ (Ne.symm hk'.2.1)]
              generalize (advEnv (e2.set "ok" (.bool false)) "tmp" tmp2 pj).set "t" (.u8 t) = E3 at inv3 hfr3 ⊢
              by_cases ht : t = typeNone
              · subst ht
                simp only [if_true, beq_self_eq_true]
                exact ⟨E3, rfl, hcb2.congr (hfr3 _ (by decide)) (hfr3 _ (by decide))⟩
              · have ht' : (t == typeNone) = false := by simpa using ht
                obtain ⟨q1, q2, q3, q4, q5, _⟩ := advance_facts pj tmp1 f4 tmp2 t hr2 ht
                simp only [ht, ht', if_false, Bool.false_eq_true]
                exact ih pj tmp2 acc E3 (F + 1) m hb (by unfold pos at hm ⊢; omega) q4 (by omega) (by omega)
                  (by omega) inv3 (by rw [hfr3 _ (by decide), hk2]) (by rw [hfr3 _ (by decide), hnil2])
                  (hcb2.congr (hfr3 _ (by decide)) (hfr3 _ (by decide)))
                  (fun hh => by have := hN hh; unfold pos at this ⊢; omega)
          · rw [if_neg hcond] at hFl
            simp only [if_neg hcond]
            obtain ⟨e3, hx3, hfr3⟩ := hFl
            rw [hx3]
            have inv3 : ItInv pj "tmp" tmp1 e3 := inv2.congr (fun k hk' => hfr3 k (by revert k; decide))
            have hV := objValue_run pj e3 tmp1 F [odeTail] inv3 (by omega) (by omega)
            cases hr2 : tmp1.advance pj with
            | panic => rw [hr2] at hV; simp only [] at hV; rw [hV]; simp
            | error _ => rw [hr2] at hV; exact hV.elim
            | diverge => rw [hr2] at hV; exact hV.elim
            | ok r2 =>
              obtain ⟨tmp2, t⟩ := r2
              rw [hr2] at hV
              simp only [] at hV
              rw [hV]
              simp only [Res.bind_ok]
              have inv4 : ItInv pj "tmp" tmp2 ((advEnv e3 "tmp" tmp2 pj).set "t" (.u8 t)) :=
                (inv3.adv tmp2 (by decide) (by decide) (by decide)).set _ _ (by decide)
              have hfr4 : ∀ k, k ∉ "t" :: "ok" :: itKeys "tmp" →
                  ((advEnv e3 "tmp" tmp2 pj).set "t" (.u8 t)).get k = e2.get k := by
                intro k hk'
                simp only [List.mem_cons, not_or] at hk'
                rw [Env.get_set_ne _ _ (Ne.symm hk'.1), get_advEnv _ _ _ _ _ (by simpa [itKeys] using hk'.2.2),
                  hfr3 _ hk'.2.1]
              generalize (advEnv e3 "tmp" tmp2 pj).set "t" (.u8 t) = E4 at inv4 hfr4 ⊢
              by_cases ht : t = typeNone
              · subst ht
                simp only [if_true, beq_self_eq_true]
                exact ⟨E4, rfl, hcb2.congr (hfr4 _ (by decide)) (hfr4 _ (by decide))⟩
              · have ht' : (t == typeNone) = false := by simpa using ht
                obtain ⟨q1, q2, q3, q4, q5, _⟩ := advance_facts pj tmp1 f4 tmp2 t hr2 ht
                simp only [ht, ht', if_false, Bool.false_eq_true]
                have hk4 : E4.get "onlyKeys" = some (.keys ks) := by rw [hfr4 _ (by decide), hk2]
                have hnil4 : E4.get "fn==nil" = some (.bool nil) := by rw [hfr4 _ (by decide), hnil2]
                have hcb4 : CbInv nil N q L0 acc E4 := hcb2.congr (hfr4 _ (by decide)) (hfr4 _ (by decide))
                have hso4 : E4.get "startO" = some (.int ((tmp1.off - 1 : Nat) : Int)) := by
                  rw [hfr4 _ (by decide), hso2]
                have hname4 : E4.get "name" = some (.bytes name) := by rw [hfr4 _ (by decide), hname]
                have hpos : ((tmp2.off : Int) + tmp2.addNext).toNat = pos tmp2 := by unfold pos; omega
                have hN' : nil = false → (acc.push (name, tmp2)).size + (tmp2.lim - pos tmp2) ≤ N := by
                  intro hh; have := hN hh; rw [Array.size_push]; unfold pos at this ⊢; omega
                have hmeas : tmp2.lim - pos tmp2 < n := by unfold pos at hm ⊢; omega
                rw [exec]
                -- the part shared by both ways into the fill: run `objFillStmts` on a store `E` and go round the loop
                have hdel : ∀ (E : Env), ItInv pj "tmp" tmp2 E → E.get "onlyKeys" = some (.keys ks) →
                    E.get "fn==nil" = some (.bool nil) → CbInv nil N q L0 (acc.push (name, tmp2)) E →
                    E.get "startO" = some (.int ((tmp1.off - 1 : Nat) : Int)) →
                    match (do
                        let pj ← (do
                          let tp ← Iter.nopFillV tmp2.lim pj.tape (tmp1.off - 1) (pos tmp2)
                          Res.ok { pj with tape := tp })
                        View.deleteElems pj (fun k _ => nil || q k) ks tmp2 (acc.size + 1) (acc.push (name, tmp2)) m :
                          Res (PJ × Array (Bytes × Iter))) with
                    | .ok (pj', its) => ∃ e', (match (match exec goFuns (F + 1) objFillStmts ⟨E, pj.tape⟩ with
                          | .normal s' => exec goFuns (F + 1) [] s'
                          | o => o) with
                        | .normal s' => exec1 goFuns (F + 1) (.loop odeLoopBody) s'
                        | .cont s' => exec1 goFuns (F + 1) (.loop odeLoopBody) s'
                        | .brk s' => .normal s'
                        | o => o) = .ret ⟨e', pj'.tape⟩ [.bool false] ∧ CbInv nil N q L0 its e'
                    | .error _ => ∃ s', (match (match exec goFuns (F + 1) objFillStmts ⟨E, pj.tape⟩ with
                          | .normal s' => exec goFuns (F + 1) [] s'
                          | o => o) with
                        | .normal s' => exec1 goFuns (F + 1) (.loop odeLoopBody) s'
                        | .cont s' => exec1 goFuns (F + 1) (.loop odeLoopBody) s'
                        | .brk s' => .normal s'
                        | o => o) = .ret s' [.bool true]
                    | .panic => (match (match exec goFuns (F + 1) objFillStmts ⟨E, pj.tape⟩ with
                          | .normal s' => exec goFuns (F + 1) [] s'
                          | o => o) with
                        | .normal s' => exec1 goFuns (F + 1) (.loop odeLoopBody) s'
                        | .cont s' => exec1 goFuns (F + 1) (.loop odeLoopBody) s'
                        | .brk s' => .normal s'
                        | o => o) = .panic
                    | .diverge => False := by
                  intro E invE hkE hnilE hcbE hsoE
                  have hfill := objFill_run E pj.tape (F + 1) tmp2 (tmp1.off - 1) invE.it hsoE
                    (by unfold pos; omega) q4 (by omega)
                  cases hnf : Iter.nopFillV tmp2.lim pj.tape (tmp1.off - 1) (pos tmp2) with
                  | ok tp =>
                    rw [hnf] at hfill
                    obtain ⟨e5, hx5, hfr5⟩ := hfill
                    rw [hx5]
                    simp only [Res.bind_ok, exec]
                    have hsz : tp.size = pj.tape.size := nopFillV_size _ _ _ _ _ hnf
                    have inv5 : ItInv { pj with tape := tp } "tmp" tmp2 e5 :=
                      ItInv.congr (pj := { pj with tape := tp }) ⟨invE.it, invE.sb, invE.ms⟩
                        (fun k hk' => hfr5 k (by revert k; decide))
                    have := ih { pj with tape := tp } tmp2 (acc.push (name, tmp2)) e5 (F + 1) m (BufOK_tape hb tp)
                      hmeas q4 (by omega) (by omega) (by simp only; omega) inv5
                      (by rw [hfr5 _ (by decide), hkE]) (by rw [hfr5 _ (by decide), hnilE])
                      (hcbE.congr (hfr5 _ (by decide)) (hfr5 _ (by decide))) hN'
                    rw [Array.size_push] at this
                    exact this
                  | panic =>
                    rw [hnf] at hfill
                    rw [hfill]
                    simp
                  | error _ => rw [hnf] at hfill; exact hfill.elim
                  | diverge => rw [hnf] at hfill; exact hfill.elim
                have hneg : ¬ ((tmp2.off : Int) + tmp2.addNext < 0) := by omega
                cases nil with
                | true =>
                  have hite : exec1 goFuns (F + 1) odeTail ⟨E4, pj.tape⟩ = exec goFuns (F + 1) objFillStmts ⟨E4, pj.tape⟩ := by
                    rw [odeTail, exec1]
                    simp only [evalE, hnil4]
                  rw [hite]
                  simp only [Bool.true_or, if_true, hneg, if_false, hpos]
                  have hcbE : CbInv true N q L0 (acc.push (name, tmp2)) E4 := by
                    unfold CbInv at hcb4 ⊢
                    simpa using hcb4
                  exact hdel E4 inv4 hk4 hnil4 hcbE hso4
                | false =>
                  simp only [Bool.false_or]
                  have hkN : acc.size < N := by have := hN rfl; unfold pos at this; omega
                  have hres4 : E4.get "fn.results" = some (.bools (q acc.size :: (answers N q).drop (acc.size + 1))) := by
                    unfold CbInv at hcb4
                    simp only [Bool.false_eq_true, if_false] at hcb4
                    rw [hcb4.2, answers_drop N q _ hkN]
                  have hlog4 : logOf E4 = encNIs acc := by
                    unfold CbInv at hcb4
                    simp only [Bool.false_eq_true, if_false] at hcb4
                    exact hcb4.1
                  have hcbq := exec1_cbq_tmp E4 pj.tape (F + 1) tmp2 name (q acc.size) _ inv4.it hname4 hres4
                  generalize hE5 : (((E4.set "fn.log" (.ints (logOf E4 ++ encNI (name, tmp2)))).set "fn.results"
                    (.bools ((answers N q).drop (acc.size + 1)))).set "#fn" (.bool (q acc.size))) = E5 at hcbq
                  have inv5 : ItInv pj "tmp" tmp2 E5 := by
                    subst hE5; exact ((inv4.set _ _ (by decide)).set _ _ (by decide)).set _ _ (by decide)
                  have hk5 : E5.get "onlyKeys" = some (.keys ks) := by
                    subst hE5
                    rw [Env.get_set_ne _ _ (by decide), Env.get_set_ne _ _ (by decide), Env.get_set_ne _ _ (by decide), hk4]
                  have hnil5 : E5.get "fn==nil" = some (.bool false) := by
                    subst hE5
                    rw [Env.get_set_ne _ _ (by decide), Env.get_set_ne _ _ (by decide), Env.get_set_ne _ _ (by decide), hnil4]
                  have hso5 : E5.get "startO" = some (.int ((tmp1.off - 1 : Nat) : Int)) := by
                    subst hE5
                    rw [Env.get_set_ne _ _ (by decide), Env.get_set_ne _ _ (by decide), Env.get_set_ne _ _ (by decide), hso4]
                  have hfn5 : E5.get "#fn" = some (.bool (q acc.size)) := by subst hE5; rw [Env.get_set_self]
                  have hcb5 : CbInv false N q L0 (acc.push (name, tmp2)) E5 := by
                    subst hE5
                    unfold CbInv
                    simp only [Bool.false_eq_true, if_false]
                    refine ⟨?_, ?_⟩
                    · rw [logOf_congr (e := E4.set "fn.log" (.ints (logOf E4 ++ encNI (name, tmp2))))
                        (by rw [Env.get_set_ne _ _ (by decide), Env.get_set_ne _ _ (by decide)]),
                        logOf_set, hlog4, encNIs_push]
                    · rw [Env.get_set_ne _ _ (by decide), Env.get_set_self, Array.size_push]
                  have hite : exec1 goFuns (F + 1) odeTail ⟨E4, pj.tape⟩ =
                      exec goFuns (F + 1) [.ite (.v "#fn") objFillStmts []] ⟨E5, pj.tape⟩ := by
                    rw [odeTail, exec1]
                    simp only [evalE, hnil4]
                    rw [exec, hcbq]
                  rw [hite]
                  cases hq : q acc.size with
                  | false =>
                    rw [hq] at hfn5
                    have hite2 : exec goFuns (F + 1) [.ite (.v "#fn") objFillStmts []] ⟨E5, pj.tape⟩ =
                        .normal ⟨E5, pj.tape⟩ := by
                      rw [exec, exec1]
                      simp only [evalE, hfn5, exec]
                    rw [hite2]
                    simp only [Bool.false_eq_true, if_false, Res.bind_ok, exec]
                    have := ih pj tmp2 (acc.push (name, tmp2)) E5 (F + 1) m hb hmeas q4 (by omega) (by omega) (by omega)
                      inv5 hk5 hnil5 hcb5 hN'
                    rw [Array.size_push] at this
                    exact this
                  | true =>
                    rw [hq] at hfn5
                    have hite2 : exec goFuns (F + 1) [.ite (.v "#fn") objFillStmts []] ⟨E5, pj.tape⟩ =
                        exec goFuns (F + 1) objFillStmts ⟨E5, pj.tape⟩ := by
                      rw [exec, exec1]
                      simp only [evalE, hfn5]
                      generalize exec goFuns (F + 1) objFillStmts _ = out
                      cases out <;> simp only [exec]
                    rw [hite2]
                    simp only [if_true, hneg, if_false, hpos]
                    exact hdel E5 inv5 hk5 hnil5 hcb5 hso5

/-- `Object.DeleteElems` against `View.deleteElems` -/
def SimODel (nil : Bool) (N : Nat) (q : Nat → Bool) (L0 : List Int) (o : Out) (r : Res (PJ × Array (Bytes × Iter))) :
    Prop :=
  match r with
  | .ok (pj', its) => ∃ s, o = .ret s [.bool false] ∧ s.tape = pj'.tape ∧ CbInv nil N q L0 its s.env
  | .error _ => ∃ s, o = .ret s [.bool true]
  | .panic => o = .panic
  | .diverge => False

/-- `Object.DeleteElems`, exactly and without hypothesis on the tape: the run IS the model's (with `pred k _ = true` when
    `fn == nil`, `pred k _ = q k` otherwise; model `.panic` ⇔ interpreter panic — in particular when a deleted member ends
    beyond the view) -/
theorem objDeleteElems_exact (pj : PJ) (hb : BufOK pj) (v : View) (hl : v.lim ≤ pj.tape.size) (ks : List Bytes)
    (e0 : Env) (h0 : RecvIn pj "o" v e0) (hk : e0.get "onlyKeys" = some (.keys ks)) (nil : Bool)
    (hnil : e0.get "fn==nil" = some (.bool nil)) (q : Nat → Bool) (N : Nat) (L0 : List Int)
    (hcb : CbInv nil N q L0 #[] e0) (hN : nil = false → v.lim - v.off ≤ N) (fuel mf : Nat)
    (hmf : v.lim - v.off + 1 ≤ mf) (hf : 2 * v.lim + 7 ≤ fuel) :
    SimODel nil N q L0 (runFun goFuns goObject_DeleteElems fuel ⟨e0, pj.tape⟩)
      (View.deleteElems pj (fun k _ => nil || q k) ks v.iter 0 #[] mf) := by
  have hsplit : goObject_DeleteElems.body = goObject_DeleteElems.body.take 6 ++ [.loop odeLoopBody] := rfl
  have hinit : exec goFuns fuel (goObject_DeleteElems.body.take 6) ⟨e0, pj.tape⟩ =
      .normal ⟨objInitEnv e0 v, pj.tape⟩ := by
    obtain ⟨a1, a2, hS, hM⟩ := h0
    simp only [String.reduceAppend] at a1 a2
    simp [goObject_DeleteElems, a1, a2, objInitEnv]
  have hloop := objDel_loop nil N q L0 ks (v.lim - v.off + 1) pj v.iter #[] (objInitEnv e0 v) fuel mf hb
    (by simp [pos, View.iter]) (by simp [View.iter]) hmf (by simp [View.iter]; omega) hl
    (objInitEnv_inv pj v e0 h0)
    (by rw [objInitEnv_get _ _ _ (by decide), hk])
    (by rw [objInitEnv_get _ _ _ (by decide), hnil])
    (hcb.congr (objInitEnv_get _ _ _ (by decide)) (objInitEnv_get _ _ _ (by decide)))
    (fun hh => by have := hN hh; simp [pos, View.iter]; omega)
  simp only [List.size_toArray, List.length_nil] at hloop
  unfold runFun
  rw [hsplit, exec_append, hinit]
  simp only []
  rw [exec]
  revert hloop
  generalize exec1 goFuns fuel (.loop odeLoopBody) _ = out
  cases View.deleteElems pj (fun k _ => nil || q k) ks v.iter 0 #[] mf with
  | ok r =>
    obtain ⟨pj', its⟩ := r
    rintro ⟨e', rfl, hc⟩
    exact ⟨_, rfl, rfl, hc⟩
  | error _ =>
    rintro ⟨s', rfl⟩
    exact ⟨_, rfl⟩
  | panic => rintro rfl; rfl
  | diverge => exact fun h => h.elim

/-! ## the model's `deleteElems` depends on the predicate only through its answers, call by call

The log of the translated callback records the LENGTH of the name only, so `objDeleteElems_*` are stated for predicates
that depend on the call index.  That is no restriction: a run of `View.deleteElems pj pred …` IS the run with the
index-only predicate `fun k _ => pred k (name of the k-th callback)` read off its own callback list. -/

/-- one iteration of `Object.DeleteElems` up to the callback — the part that does not look at the predicate -/
inductive OStep where
  | done (r : Res (PJ × Array (Bytes × Iter)))
  | skip (tmp2 : Iter)
  | call (name : Bytes) (tmp1 tmp2 : Iter)

def bindS {α : Type} (x : Res α) (f : α → OStep) : OStep :=
  match x with
  | .ok a => f a
  | .error e => .done (.error e)
  | .panic => .done .panic
  | .diverge => .done .diverge

def objStep (pj : PJ) (ks : List Bytes) (tmp : Iter) (acc : Array (Bytes × Iter)) : OStep :=
  bindS (tmp.advance pj) fun (tmp1, typ) =>
    if typ != typeString ∨ tmp1.off + 1 >= tmp1.lim then
      .done (if typ == typeNone then .ok (pj, acc) else .error .generic)
    else
      bindS (rd pj.tape tmp1.off) fun len =>
      bindS (stringByteAt pj tmp1.cur len) fun name =>
      bindS (tmp1.advance pj) fun (tmp2, t) =>
        if t == typeNone then .done (.ok (pj, acc))
        else if ks.length > 0 ∧ !ks.contains name then .skip tmp2 else .call name tmp1 tmp2

/-- the deletion itself -/
def delFill (pj : PJ) (del : Bool) (tmp1 tmp2 : Iter) : Res PJ :=
  if del then
    (if (tmp2.off : Int) + tmp2.addNext < 0 then .panic else do
      let tp ← Iter.nopFillV tmp2.lim pj.tape (tmp1.off - 1) ((tmp2.off : Int) + tmp2.addNext).toNat
      .ok { pj with tape := tp })
  else .ok pj

theorem deleteElems_step (pj : PJ) (pred : Nat → Bytes → Bool) (ks : List Bytes) (tmp : Iter) (n : Nat)
    (acc : Array (Bytes × Iter)) (mf : Nat) :
    View.deleteElems pj pred ks tmp n acc (mf + 1) =
      match objStep pj ks tmp acc with
      | .done r => r
      | .skip tmp2 => View.deleteElems pj pred ks tmp2 n acc mf
      | .call name tmp1 tmp2 => delFill pj (pred n name) tmp1 tmp2 >>= fun pj2 =>
          View.deleteElems pj2 pred ks tmp2 (n + 1) (acc.push (name, tmp2)) mf := by
  rw [View.deleteElems, objStep]
  cases tmp.advance pj with
  | error _ => rfl
  | panic => rfl
  | diverge => rfl
  | ok r =>
    obtain ⟨tmp1, typ⟩ := r
    simp only [Res.bind_ok, bindS]
    by_cases hc : (typ != typeString) = true ∨ tmp1.off + 1 ≥ tmp1.lim
    · simp only [if_pos hc]
    · simp only [if_neg hc]
      cases rd pj.tape tmp1.off with
      | error _ => rfl
      | panic => rfl
      | diverge => rfl
      | ok len =>
        simp only [Res.bind_ok]
        cases stringByteAt pj tmp1.cur len with
        | error _ => rfl
        | panic => rfl
        | diverge => rfl
        | ok name =>
          simp only [Res.bind_ok]
          by_cases hcond : ks.length > 0 ∧ (!ks.contains name) = true
          · simp only [if_pos hcond]
            cases tmp1.advance pj with
            | error _ => rfl
            | panic => rfl
            | diverge => rfl
            | ok r2 =>
              obtain ⟨tmp2, t⟩ := r2
              simp only [Res.bind_ok]
              by_cases ht : (t == typeNone) = true
              · simp only [if_pos ht]
              · simp only [if_neg ht]
          · simp only [if_neg hcond]
            cases tmp1.advance pj with
            | error _ => rfl
            | panic => rfl
            | diverge => rfl
            | ok r2 =>
              obtain ⟨tmp2, t⟩ := r2
              simp only [Res.bind_ok]
              by_cases ht : (t == typeNone) = true
              · simp only [if_pos ht]
              · simp only [if_neg ht, delFill]

theorem bind_eq_ok {α β : Type} {x : Res α} {f : α → Res β} {b : β} (h : (x >>= f) = .ok b) :
    ∃ a, x = .ok a ∧ f a = .ok b := by
  cases x with
  | ok a => exact ⟨a, rfl, h⟩
  | error e => cases h
  | panic => cases h
  | diverge => cases h

/-- an iteration that ends the run successfully returns the document and the callback list unchanged -/
theorem objStep_done_ok (pj : PJ) (ks : List Bytes) (tmp : Iter) (acc : Array (Bytes × Iter)) (pj' : PJ)
    (its : Array (Bytes × Iter)) (h : objStep pj ks tmp acc = .done (.ok (pj', its))) : pj' = pj ∧ its = acc := by
  unfold objStep at h
  cases hr : tmp.advance pj with
  | error _ => rw [hr] at h; simp [bindS] at h
  | panic => rw [hr] at h; simp [bindS] at h
  | diverge => rw [hr] at h; simp [bindS] at h
  | ok r =>
    obtain ⟨tmp1, typ⟩ := r
    rw [hr] at h
    simp only [bindS] at h
    by_cases hc : (typ != typeString) = true ∨ tmp1.off + 1 ≥ tmp1.lim
    · simp only [if_pos hc] at h
      by_cases hn : (typ == typeNone) = true
      · simp only [if_pos hn, OStep.done.injEq, Res.ok.injEq, Prod.mk.injEq] at h
        exact ⟨h.1.symm, h.2.symm⟩
      · simp only [if_neg hn, OStep.done.injEq] at h
        cases h
    · simp only [if_neg hc] at h
      cases hrd : rd pj.tape tmp1.off with
      | error _ => rw [hrd] at h; simp at h
      | panic => rw [hrd] at h; simp at h
      | diverge => rw [hrd] at h; simp at h
      | ok len =>
        rw [hrd] at h
        simp only [] at h
        cases hsb : stringByteAt pj tmp1.cur len with
        | error _ => rw [hsb] at h; simp at h
        | panic => rw [hsb] at h; simp at h
        | diverge => rw [hsb] at h; simp at h
        | ok name =>
          rw [hsb] at h
          simp only [] at h
          cases hr2 : tmp1.advance pj with
          | error _ => rw [hr2] at h; simp at h
          | panic => rw [hr2] at h; simp at h
          | diverge => rw [hr2] at h; simp at h
          | ok r2 =>
            obtain ⟨tmp2, t⟩ := r2
            rw [hr2] at h
            simp only [] at h
            by_cases ht : (t == typeNone) = true
            · simp only [if_pos ht, OStep.done.injEq, Res.ok.injEq, Prod.mk.injEq] at h
              exact ⟨h.1.symm, h.2.symm⟩
            · simp only [if_neg ht] at h
              split at h <;> cases h

/-- the callbacks already made are a prefix of the callbacks returned -/
theorem deleteElems_prefix (pred : Nat → Bytes → Bool) (ks : List Bytes) : ∀ (mf : Nat) (pj : PJ) (tmp : Iter) (n : Nat)
    (acc : Array (Bytes × Iter)) (pj' : PJ) (its : Array (Bytes × Iter)),
    View.deleteElems pj pred ks tmp n acc mf = .ok (pj', its) →
    acc.size ≤ its.size ∧ ∀ k, k < acc.size → its[k]? = acc[k]? := by
  intro mf
  induction mf with
  | zero => intro pj tmp n acc pj' its h; rw [View.deleteElems] at h; cases h
  | succ m ih =>
    intro pj tmp n acc pj' its h
    rw [deleteElems_step] at h
    cases hs : objStep pj ks tmp acc with
    | done r =>
      rw [hs] at h
      simp only [] at h
      subst h
      obtain ⟨_, rfl⟩ := objStep_done_ok _ _ _ _ _ _ hs
      exact ⟨Nat.le_refl _, fun _ _ => rfl⟩
    | skip tmp2 =>
      rw [hs] at h
      exact ih _ _ _ _ _ _ h
    | call name tmp1 tmp2 =>
      rw [hs] at h
      simp only [] at h
      obtain ⟨pj2, _, h2⟩ := bind_eq_ok h
      obtain ⟨k1, k2⟩ := ih _ _ _ _ _ _ h2
      rw [Array.size_push] at k1 k2
      refine ⟨by omega, fun k hk => ?_⟩
      rw [k2 k (by omega), Array.getElem?_push_lt hk]
      simp [hk]

/-- two predicates that give the same answers on the callbacks actually made give the same run -/
theorem deleteElems_congr_run (pred1 pred2 : Nat → Bytes → Bool) (ks : List Bytes) : ∀ (mf : Nat) (pj : PJ) (tmp : Iter)
    (acc : Array (Bytes × Iter)) (pj' : PJ) (its : Array (Bytes × Iter)),
    View.deleteElems pj pred1 ks tmp acc.size acc mf = .ok (pj', its) →
    (∀ k (h : k < its.size), acc.size ≤ k → pred2 k its[k].1 = pred1 k its[k].1) →
    View.deleteElems pj pred2 ks tmp acc.size acc mf = .ok (pj', its) := by
  intro mf
  induction mf with
  | zero => intro pj tmp acc pj' its h; rw [View.deleteElems] at h; cases h
  | succ m ih =>
    intro pj tmp acc pj' its h hp
    rw [deleteElems_step] at h ⊢
    cases hs : objStep pj ks tmp acc with
    | done r => rw [hs] at h; exact h
    | skip tmp2 =>
      rw [hs] at h
      exact ih _ _ _ _ _ h hp
    | call name tmp1 tmp2 =>
      rw [hs] at h
      simp only [] at h ⊢
      obtain ⟨pj2, h1, h2⟩ := bind_eq_ok h
      have h2' := h2
      rw [← Array.size_push (xs := acc) (name, tmp2)] at h2'
      obtain ⟨k1, k2⟩ := deleteElems_prefix _ _ _ _ _ _ _ _ _ h2
      rw [Array.size_push] at k1 k2
      have hlt : acc.size < its.size := by omega
      have hit : its[acc.size] = (name, tmp2) := by
        have := k2 acc.size (by omega)
        rw [Array.getElem?_eq_getElem hlt] at this
        simpa using this
      have hq : pred2 acc.size name = pred1 acc.size name := by
        have := hp acc.size hlt (Nat.le_refl _)
        rw [hit] at this
        exact this
      rw [hq, h1]
      simp only [Res.bind_ok]
      have := ih pj2 tmp2 (acc.push (name, tmp2)) pj' its h2'
        (fun k hk hge => hp k hk (by rw [Array.size_push] at hge; omega))
      rw [Array.size_push] at this
      exact this

/-- the name handed to the `k`-th callback of a run -/
def nameAt (its : Array (Bytes × Iter)) (k : Nat) : Bytes := (its[k]?.map (·.1)).getD #[]

/-- `View.deleteElems pj pred …` IS the run with the index-only predicate read off its own callback list -/
theorem deleteElems_index_only (pj : PJ) (pred : Nat → Bytes → Bool) (ks : List Bytes) (tmp : Iter) (mf : Nat)
    (pj' : PJ) (its : Array (Bytes × Iter)) (h : View.deleteElems pj pred ks tmp 0 #[] mf = .ok (pj', its)) :
    View.deleteElems pj (fun k _ => pred k (nameAt its k)) ks tmp 0 #[] mf = .ok (pj', its) := by
  apply deleteElems_congr_run pred _ ks mf pj tmp #[] pj' its h
  intro k hk _
  simp [nameAt, hk]

/-- index-only predicates that agree from the current index on give the same run (whatever its outcome) -/
theorem deleteElems_congr_idx (q1 q2 : Nat → Bool) (ks : List Bytes) : ∀ (mf : Nat) (pj : PJ) (tmp : Iter) (n : Nat)
    (acc : Array (Bytes × Iter)), (∀ k, n ≤ k → q1 k = q2 k) →
    View.deleteElems pj (fun k _ => q1 k) ks tmp n acc mf = View.deleteElems pj (fun k _ => q2 k) ks tmp n acc mf := by
  intro mf
  induction mf with
  | zero => intro pj tmp n acc _; rw [View.deleteElems, View.deleteElems]
  | succ m ih =>
    intro pj tmp n acc hq
    rw [deleteElems_step, deleteElems_step]
    cases objStep pj ks tmp acc with
    | done r => rfl
    | skip tmp2 => exact ih _ _ _ _ hq
    | call name tmp1 tmp2 =>
      simp only [hq n (Nat.le_refl _)]
      cases delFill pj (q2 n) tmp1 tmp2 with
      | ok pj2 => simp only [Res.bind_ok]; exact ih _ _ _ _ (fun k hk => hq k (by omega))
      | error _ => rfl
      | panic => rfl
      | diverge => rfl

/-- every run of the model — whatever its outcome — is the run of some index-only predicate -/
theorem deleteElems_exists_idx (pred : Nat → Bytes → Bool) (ks : List Bytes) : ∀ (mf : Nat) (pj : PJ) (tmp : Iter)
    (n : Nat) (acc : Array (Bytes × Iter)),
    ∃ q : Nat → Bool, View.deleteElems pj (fun k _ => q k) ks tmp n acc mf = View.deleteElems pj pred ks tmp n acc mf := by
  intro mf
  induction mf with
  | zero => intro pj tmp n acc; exact ⟨fun _ => true, by rw [View.deleteElems, View.deleteElems]⟩
  | succ m ih =>
    intro pj tmp n acc
    cases hs : objStep pj ks tmp acc with
    | done r => exact ⟨fun _ => true, by rw [deleteElems_step, deleteElems_step, hs]⟩
    | skip tmp2 =>
      obtain ⟨q, hq⟩ := ih pj tmp2 n acc
      exact ⟨q, by rw [deleteElems_step, deleteElems_step, hs]; exact hq⟩
    | call name tmp1 tmp2 =>
      cases hd : delFill pj (pred n name) tmp1 tmp2 with
      | ok pj2 =>
        obtain ⟨q', hq'⟩ := ih pj2 tmp2 (n + 1) (acc.push (name, tmp2))
        refine ⟨fun k => if k = n then pred n name else q' k, ?_⟩
        rw [deleteElems_step, deleteElems_step, hs]
        simp only [if_true, hd, Res.bind_ok]
        rw [← hq']
        exact deleteElems_congr_idx _ _ ks m pj2 tmp2 (n + 1) _ (fun k hk => by
          have : ¬ k = n := by omega
          simp [this])
      | error e =>
        refine ⟨fun _ => pred n name, ?_⟩
        rw [deleteElems_step, deleteElems_step, hs]
        simp only [hd]
        rfl
      | panic =>
        refine ⟨fun _ => pred n name, ?_⟩
        rw [deleteElems_step, deleteElems_step, hs]
        simp only [hd]
        rfl
      | diverge =>
        refine ⟨fun _ => pred n name, ?_⟩
        rw [deleteElems_step, deleteElems_step, hs]
        simp only [hd]
        rfl

/-! ## `Object.DeleteElems`: the two ways to call it -/

/-- `o.DeleteElems(nil, onlyKeys)`: every selected member is deleted (`pred = fun _ _ => true`), nothing is logged -/
theorem objDeleteElems_nil_sim (pj : PJ) (hb : BufOK pj) (v : View) (hl : v.lim ≤ pj.tape.size) (ks : List Bytes)
    (e0 : Env) (h0 : RecvIn pj "o" v e0) (hk : e0.get "onlyKeys" = some (.keys ks))
    (hnil : e0.get "fn==nil" = some (.bool true)) (fuel mf : Nat) (hmf : v.lim - v.off + 1 ≤ mf)
    (hf : 2 * v.lim + 7 ≤ fuel) :
    match View.deleteElems pj (fun _ _ => true) ks v.iter 0 #[] mf with
    | .ok (pj', its) => ∃ s, runFun goFuns goObject_DeleteElems fuel ⟨e0, pj.tape⟩ = .ret s [.bool false] ∧
        s.tape = pj'.tape ∧ logOf s.env = logOf e0
    | .error _ => ∃ s, runFun goFuns goObject_DeleteElems fuel ⟨e0, pj.tape⟩ = .ret s [.bool true]
    | .panic => runFun goFuns goObject_DeleteElems fuel ⟨e0, pj.tape⟩ = .panic
    | .diverge => False := by
  have := objDeleteElems_exact pj hb v hl ks e0 h0 hk true hnil (fun _ => true) 0 (logOf e0)
    (by simp [CbInv]) (by simp) fuel mf hmf hf
  simp only [Bool.true_or] at this
  revert this
  cases View.deleteElems pj (fun _ _ => true) ks v.iter 0 #[] mf with
  | ok r =>
    obtain ⟨pj', its⟩ := r
    rintro ⟨s, h1, h2, h3⟩
    exact ⟨s, h1, h2, by simpa [CbInv] using h3⟩
  | error _ => exact fun h => h
  | panic => exact fun h => h
  | diverge => exact fun h => h

/-- `o.DeleteElems(fn, onlyKeys)` with the answers `q`: `pred = fun k _ => q k` -/
theorem objDeleteElems_sim (pj : PJ) (hb : BufOK pj) (v : View) (hl : v.lim ≤ pj.tape.size) (ks : List Bytes)
    (e0 : Env) (h0 : RecvIn pj "o" v e0) (hk : e0.get "onlyKeys" = some (.keys ks))
    (hnil : e0.get "fn==nil" = some (.bool false)) (hlog : logOf e0 = []) (q : Nat → Bool) (N : Nat)
    (hres : e0.get "fn.results" = some (.bools (answers N q))) (hN : v.lim - v.off ≤ N) (fuel mf : Nat)
    (hmf : v.lim - v.off + 1 ≤ mf) (hf : 2 * v.lim + 7 ≤ fuel) :
    match View.deleteElems pj (fun k _ => q k) ks v.iter 0 #[] mf with
    | .ok (pj', its) => ∃ s, runFun goFuns goObject_DeleteElems fuel ⟨e0, pj.tape⟩ = .ret s [.bool false] ∧
        s.tape = pj'.tape ∧ logOf s.env = encNIs its ∧
        s.env.get "fn.results" = some (.bools ((answers N q).drop its.size))
    | .error _ => ∃ s, runFun goFuns goObject_DeleteElems fuel ⟨e0, pj.tape⟩ = .ret s [.bool true]
    | .panic => runFun goFuns goObject_DeleteElems fuel ⟨e0, pj.tape⟩ = .panic
    | .diverge => False := by
  have := objDeleteElems_exact pj hb v hl ks e0 h0 hk false hnil q N []
    (by simp [CbInv, hlog, hres, encNIs]) (fun _ => hN) fuel mf hmf hf
  simp only [Bool.false_or] at this
  revert this
  cases View.deleteElems pj (fun k _ => q k) ks v.iter 0 #[] mf with
  | ok r =>
    obtain ⟨pj', its⟩ := r
    rintro ⟨s, h1, h2, h3⟩
    simp only [CbInv, Bool.false_eq_true, if_false] at h3
    exact ⟨s, h1, h2, h3.1, h3.2⟩
  | error _ => exact fun h => h
  | panic => exact fun h => h
  | diverge => exact fun h => h

/-- … for an arbitrary predicate `pred` (which may look at the name): if the model's run returns `(pj', its)`, the Go code
    run with the answers `pred k (name of the k-th callback)` ends with the tape `pj'.tape` and has made the callbacks
    `its` -/
theorem objDeleteElems_sim_pred (pj : PJ) (hb : BufOK pj) (v : View) (hl : v.lim ≤ pj.tape.size) (ks : List Bytes)
    (pred : Nat → Bytes → Bool) (mf : Nat) (pj' : PJ) (its : Array (Bytes × Iter))
    (hm : View.deleteElems pj pred ks v.iter 0 #[] mf = .ok (pj', its))
    (e0 : Env) (h0 : RecvIn pj "o" v e0) (hk : e0.get "onlyKeys" = some (.keys ks))
    (hnil : e0.get "fn==nil" = some (.bool false)) (hlog : logOf e0 = []) (N : Nat)
    (hres : e0.get "fn.results" = some (.bools (answers N fun k => pred k (nameAt its k)))) (hN : v.lim - v.off ≤ N)
    (fuel : Nat) (hmf : v.lim - v.off + 1 ≤ mf) (hf : 2 * v.lim + 7 ≤ fuel) :
    ∃ s, runFun goFuns goObject_DeleteElems fuel ⟨e0, pj.tape⟩ = .ret s [.bool false] ∧
      s.tape = pj'.tape ∧ logOf s.env = encNIs its ∧
      s.env.get "fn.results" = some (.bools ((answers N fun k => pred k (nameAt its k)).drop its.size)) := by
  have := objDeleteElems_sim pj hb v hl ks e0 h0 hk hnil hlog (fun k => pred k (nameAt its k)) N hres hN fuel mf hmf hf
  rw [deleteElems_index_only pj pred ks v.iter mf pj' its hm] at this
  exact this

/-! ### the former difference, concretely (object)

`{"a": [ … ]}` seen through a view of four words whose member value's end pointer (6) lies beyond the view but inside the
array.  `DeleteElems(nil, nil)`: Go panics at index 4; the model filled words 0‥5 until the repair and now panics too. -/

def pjOutO : PJ :=
  { tape := #[mkWord tagString 0, 1, mkWord tagArrayStart 6, mkWord tagArrayEnd 0, 0, 0], strings := #[], msg := #[97] }
def vOutO : View := { lim := 4, off := 0 }
def envOutO : Env :=
  [("o.off", .int 0), ("o.lim", .int 4)] ++ bufEnv pjOutO ++ [("onlyKeys", .keys []), ("fn==nil", .bool true)]

example : vOutO.lim ≤ pjOutO.tape.size ∧
    (View.deleteElems pjOutO (fun _ _ => true) [] vOutO.iter 0 #[] 5).isPanic = true ∧
    ∀ fuel, 15 ≤ fuel → runFun goFuns goObject_DeleteElems fuel ⟨envOutO, pjOutO.tape⟩ = .panic := by
  have hp : (View.deleteElems pjOutO (fun _ _ => true) [] vOutO.iter 0 #[] 5).isPanic = true := by decide +kernel
  refine ⟨by decide, hp, fun fuel hf => ?_⟩
  have := objDeleteElems_exact pjOutO ⟨by decide, by decide⟩ vOutO (by decide) [] envOutO ⟨rfl, rfl, rfl, rfl⟩ rfl true rfl
    (fun _ => true) 0 [] (by simp [CbInv, logOf, envOutO, bufEnv, Env.get]) (by simp) fuel 5 (by decide)
    (by simpa [vOutO] using hf)
  simp only [Bool.true_or] at this
  rw [eq_panic_of_isPanic hp] at this
  exact this

/-! ## 6. The bundle, on the conventional stores -/

/-- receiver fields ++ shared buffers ++ callback variables -/
def arrStore (pj : PJ) (v : View) (extra : Env) : Env :=
  [("a.off", .int v.off), ("a.lim", .int v.lim)] ++ bufEnv pj ++ extra

/-- receiver fields ++ shared buffers ++ parameter ++ callback variables -/
def objStore (pj : PJ) (v : View) (ks : List Bytes) (extra : Env) : Env :=
  [("o.off", .int v.off), ("o.lim", .int v.lim)] ++ bufEnv pj ++ [("onlyKeys", .keys ks)] ++ extra

theorem RecvIn_arrStore (pj : PJ) (v : View) (extra : Env) : RecvIn pj "a" v (arrStore pj v extra) := by
  refine ⟨?_, ?_, ?_, ?_⟩ <;> simp [arrStore, bufEnv, Env.get]

theorem RecvIn_objStore (pj : PJ) (v : View) (ks : List Bytes) (extra : Env) :
    RecvIn pj "o" v (objStore pj v ks extra) := by
  refine ⟨?_, ?_, ?_, ?_⟩ <;> simp [objStore, bufEnv, Env.get]

/-- `Array.FirstType`, `Array.ForEach`, `Array.DeleteElems`, `Object.ForEach`, `Object.DeleteElems` as printed from
    `/repo` ARE `View.firstType`, `View.arrForEach`, `View.arrDeleteElems`, `View.forEach`, `View.deleteElems`:
    for every document whose buffer lengths are Go `int`s, every view inside the tape, every key set, every sequence of
    callback answers `q`, `2·lim + 7` units of interpreter fuel and `lim - off + 1` units of model fuel.  No hypothesis
    on the tape: a deleted element that ends beyond the view makes model and Go panic alike (the `example`s above). -/
theorem go_delete_source_tie (pj : PJ) (hb : BufOK pj) (v : View) (hl : v.lim ≤ pj.tape.size) (ks : List Bytes)
    (q : Nat → Bool) (N : Nat) (hN : v.lim - v.off ≤ N) (fuel mf : Nat) (hmf : v.lim - v.off + 1 ≤ mf)
    (hf : 2 * v.lim + 7 ≤ fuel) :
    SimType pj (runFun goFuns goArray_FirstType fuel ⟨arrStore pj v [], pj.tape⟩) (View.firstType pj v) ∧
    SimFE pj (runFun goFuns goArray_ForEach fuel ⟨arrStore pj v [("fn.log", .ints [])], pj.tape⟩)
      (View.arrForEach pj v.iter #[] mf) ∧
    SimOFE pj (runFun goFuns goObject_ForEach fuel ⟨objStore pj v ks [("fn.log", .ints [])], pj.tape⟩)
      (View.forEach pj ks v.iter 0 #[] mf) ∧
    SimDel N q (runFun goFuns goArray_DeleteElems fuel
        ⟨arrStore pj v [("fn.results", .bools (answers N q)), ("fn.log", .ints [])], pj.tape⟩)
      (View.arrDeleteElems pj q v.iter 0 #[] mf) ∧
    SimODel true 0 q [] (runFun goFuns goObject_DeleteElems fuel
        ⟨objStore pj v ks [("fn==nil", .bool true)], pj.tape⟩)
      (View.deleteElems pj (fun _ _ => true) ks v.iter 0 #[] mf) ∧
    SimODel false N q [] (runFun goFuns goObject_DeleteElems fuel
        ⟨objStore pj v ks [("fn==nil", .bool false), ("fn.results", .bools (answers N q)), ("fn.log", .ints [])],
          pj.tape⟩)
      (View.deleteElems pj (fun k _ => q k) ks v.iter 0 #[] mf) := by
  refine ⟨?_, ?_, ?_, ?_, ?_, ?_⟩
  · exact arrFirstType_sim pj v hl _ (RecvIn_arrStore pj v _) fuel (by omega)
  · exact arrForEach_sim pj v hl _ (RecvIn_arrStore pj v _) (by simp [logOf, arrStore, bufEnv, Env.get]) fuel mf hmf
      (by omega)
  · exact objForEach_sim pj hb v hl ks _ (RecvIn_objStore pj v ks _) (by simp [objStore, bufEnv, Env.get])
      (by simp [logOf, objStore, bufEnv, Env.get]) fuel mf hmf hf
  · exact arrDeleteElems_sim pj v hl _ (RecvIn_arrStore pj v _) (by simp [logOf, arrStore, bufEnv, Env.get]) q N
      (by simp [arrStore, bufEnv, Env.get]) hN fuel mf hmf hf
  · have := objDeleteElems_exact pj hb v hl ks (objStore pj v ks [("fn==nil", .bool true)])
      (RecvIn_objStore pj v ks _) (by simp [objStore, bufEnv, Env.get]) true
      (by simp [objStore, bufEnv, Env.get]) q 0 [] (by simp [CbInv, logOf, objStore, bufEnv, Env.get]) (by simp)
      fuel mf hmf hf
    simp only [Bool.true_or] at this
    exact this
  · have := objDeleteElems_exact pj hb v hl ks
      (objStore pj v ks [("fn==nil", .bool false), ("fn.results", .bools (answers N q)), ("fn.log", .ints [])])
      (RecvIn_objStore pj v ks _) (by simp [objStore, bufEnv, Env.get]) false
      (by simp [objStore, bufEnv, Env.get]) q N []
      (by simp [CbInv, logOf, objStore, bufEnv, Env.get, encNIs]) (fun _ => hN) fuel mf hmf hf
    simp only [Bool.false_or] at this
    exact this

end SJ.GoDelete

