import SJ.Proofs.GoDeleteLemmas
set_option linter.unusedVariables false
set_option linter.unusedSimpArgs false
/-
GoDelete — `Array.FirstType`, `Array.ForEach`, `Array.DeleteElems`, `Object.ForEach`, `Object.DeleteElems`
(`parsed_array.go`, `parsed_object.go`) as printed by the translator and run by `GoSem.exec`, against the hand model
`Model/Object.lean`.
-/
namespace SJ.GoDelete
open SJ SJ.GoSem SJ.Generated SJ.GoIter SJ.GoObject SJ.GoSet

attribute [local simp] exec exec1 execCases evalE evalEs isOneOf binop convert ofE copyFields bindParams
  iterFields runFun tblLookup Env.get_set

/-! ## 1. `Array.FirstType` -/

/-- a function returning one `Type` and leaving the tape alone -/
def SimType (pj : PJ) (o : Out) (r : Res UInt8) : Prop :=
  match r with
  | .ok t => ∃ s, o = .ret s [.u8 t] ∧ s.tape = pj.tape
  | .panic => o = .panic
  | _ => False

theorem arrFirstType_sim (pj : PJ) (v : View) (hl : v.lim ≤ pj.tape.size) (e0 : Env) (h0 : RecvIn pj "a" v e0)
    (fuel : Nat) (hf : v.lim + 2 ≤ fuel) :
    SimType pj (runFun goFuns goArray_FirstType fuel ⟨e0, pj.tape⟩) (View.firstType pj v) := by
  obtain ⟨f, rfl⟩ : ∃ f, fuel = f + 1 := ⟨fuel - 1, by omega⟩
  obtain ⟨a1, a2, hS, hM⟩ := h0
  simp only [String.reduceAppend] at a1 a2
  have hI : iterAt (setIter e0 "iter" v.iter) "iter" = some v.iter := by
    apply iterAt_of_gets <;> simp [setIter]
  have hc := callFun_peekNext pj ⟨setIter e0 "iter" v.iter, pj.tape⟩ "iter" v.iter f hl rfl hI
    (by simp [setIter, hS]) (by simp [setIter, hM]) (by simp [View.iter]; omega)
  unfold View.firstType
  simp only [goArray_FirstType, runFun]
  simp [a1, a2]
  simp only [setIter, View.iter, tagEnd, String.reduceAppend] at hc ⊢
  revert hc
  generalize callFun goFuns f "iter" "Iter.PeekNext" [] [] _ = out
  intro hc
  cases hr : Iter.peekNext pj { lim := v.lim, off := v.off, addNext := 0, cur := 0, t := 0 } with
  | ok t =>
    rw [hr] at hc
    obtain ⟨e', rfl⟩ := hc
    exact ⟨_, rfl, rfl⟩
  | panic => rw [hr] at hc; subst hc; rfl
  | error e => rw [hr] at hc; exact hc.elim
  | diverge => rw [hr] at hc; exact hc.elim

/-! ## 2. `Array.ForEach` -/

/-- the log of a list of callbacks: five integers per call -/
def encIters (a : Array Iter) : List Int := a.toList.flatMap encIter

theorem encIters_push (a : Array Iter) (i : Iter) : encIters (a.push i) = encIters a ++ encIter i := by
  simp [encIters]

/-- where the next `Advance` starts reading -/
def pos (i : Iter) : Nat := i.off + i.addNext.toNat

def feLoopBody : List Stmt := firstLoop goArray_ForEach.body

theorem feLoopBody_eq : feLoopBody = [.callAssign ["t"] "i" "Iter.Advance" [] [],
    .ite (.bin .eq (.v "t") (.u8 0)) [.brk] [],
    .cb "_" "fn" [.v "i.off", .v "i.addNext", .v "i.cur", .v "i.t", .v "i.lim"]] := rfl

/-- `if t == TypeNone { break }` -/
theorem exec1_brkIfNone (e : Env) (tape : Array UInt64) (fuel : Nat) (t : UInt8) (ht : e.get "t" = some (.u8 t)) :
    exec1 goFuns fuel (.ite (.bin .eq (.v "t") (.u8 0)) [.brk] []) ⟨e, tape⟩ =
      if t = typeNone then .brk ⟨e, tape⟩ else .normal ⟨e, tape⟩ := by
  by_cases h : t = typeNone
  · simp [ht, h, typeNone]
  · have : (t == 0) = false := by simpa [typeNone] using h
    simp [ht, h, this]

def SimLoopFE (pj : PJ) (o : Out) (r : Res (Array Iter)) : Prop :=
  match r with
  | .ok its => ∃ e', o = .normal ⟨e', pj.tape⟩ ∧ logOf e' = encIters its ∧ ItInv pj "i" default e' ∨ True
  | .panic => o = .panic
  | _ => False

end SJ.GoDelete
