import SJ.Proofs.LexIface
set_option linter.unusedVariables false
set_option linter.unusedSimpArgs false
/-
`ScanFacts`: what the scalar stage-1 scanner does on each token shape.
-/
namespace SJ.ParseDefs
open SJ SJ.Generated SJ.Block

/-! ## byte classes -/

theorem ws_excl : ∀ b : UInt8, isWsByte b = true →
    isStructByte b = false ∧ isQuoteByte b = false ∧ isBackslashByte b = false :=
  Tables.forall_u8 (by decide +kernel)

theorem struct_excl : ∀ b : UInt8, isStructByte b = true →
    isWsByte b = false ∧ isQuoteByte b = false ∧ isBackslashByte b = false ∧ isNewlineByte b = false :=
  Tables.forall_u8 (by decide +kernel)

theorem nl_ws : ∀ b : UInt8, isNewlineByte b = true → isWsByte b = true :=
  Tables.forall_u8 (by decide +kernel)

theorem quote_excl : ∀ b : UInt8, isQuoteByte b = true →
    isWsByte b = false ∧ isStructByte b = false ∧ isBackslashByte b = false ∧ isNewlineByte b = false ∧
    isCtrlByte b = false :=
  Tables.forall_u8 (by decide +kernel)

theorem bs_excl : ∀ b : UInt8, isBackslashByte b = true →
    isWsByte b = false ∧ isStructByte b = false ∧ isQuoteByte b = false ∧ isNewlineByte b = false ∧
    isCtrlByte b = false :=
  Tables.forall_u8 (by decide +kernel)

theorem quote_iff (b : UInt8) : isQuoteByte b = true ↔ b = 34 := by
  rw [Tables.classify_quote]; simp

theorem bs_iff (b : UInt8) : isBackslashByte b = true ↔ b = 92 := by
  rw [Tables.classify_backslash]; simp

theorem nl_iff (b : UInt8) : isNewlineByte b = true ↔ b = 10 := by
  rw [Tables.classify_newline]; simp

theorem ctrl_iff (b : UInt8) : isCtrlByte b = true ↔ b < 0x20 := by
  simp [Tables.classify_ctrl]

/-! ## single steps -/

/-- outside a string: white space -/
theorem step_ws (nd : Bool) (s : S1State) (b : UInt8) (hq : s.inQuote = false) (hb : s.bsOdd = false)
    (hw : isWsByte b = true) :
    s1Step nd s b = ({ bsOdd := false, inQuote := false, prevPred := true, err := s.err }, nd && isNewlineByte b) := by
  obtain ⟨h1, h2, h3⟩ := ws_excl b hw
  simp [s1Step, hq, hb, hw, h1, h2, h3]

/-- outside a string: structural -/
theorem step_struct (nd : Bool) (s : S1State) (b : UInt8) (hq : s.inQuote = false) (hb : s.bsOdd = false)
    (hs : isStructByte b = true) :
    s1Step nd s b = ({ bsOdd := false, inQuote := false, prevPred := true, err := s.err }, true) := by
  obtain ⟨h1, h2, h3, h4⟩ := struct_excl b hs
  simp [s1Step, hq, hb, hs, h1, h2, h3, h4]

/-- outside a string: opening quote -/
theorem step_open (nd : Bool) (s : S1State) (b : UInt8) (hq : s.inQuote = false) (hb : s.bsOdd = false)
    (hs : isQuoteByte b = true) :
    s1Step nd s b = ({ bsOdd := false, inQuote := true, prevPred := true, err := s.err }, true) := by
  obtain ⟨h1, h2, h3, h4, h5⟩ := quote_excl b hs
  simp [s1Step, hq, hb, hs, h1, h2, h3, h4, h5]

/-- outside a string: any other byte (backslash included) -/
theorem step_other (nd : Bool) (s : S1State) (b : UInt8) (hq : s.inQuote = false) (hb : s.bsOdd = false)
    (hw : isWsByte b = false) (hs : isStructByte b = false) (hqq : isQuoteByte b = false) :
    s1Step nd s b =
      ({ bsOdd := isBackslashByte b, inQuote := false, prevPred := false, err := s.err }, s.prevPred) := by
  have hn : isNewlineByte b = false := by
    cases h : isNewlineByte b
    · rfl
    · rw [nl_ws b h] at hw; cases hw
  cases hbs : isBackslashByte b <;> simp [s1Step, hq, hb, hs, hw, hqq, hn, hbs]

/-- inside a string, even backslash run: closing quote -/
theorem step_close (nd : Bool) (s : S1State) (b : UInt8) (hq : s.inQuote = true) (hb : s.bsOdd = false)
    (hs : isQuoteByte b = true) :
    s1Step nd s b = ({ bsOdd := false, inQuote := false, prevPred := true, err := s.err }, false) := by
  obtain ⟨h1, h2, h3, h4, h5⟩ := quote_excl b hs
  simp [s1Step, hq, hb, hs, h1, h2, h3, h4, h5]

/-- inside a string, even backslash run: backslash -/
theorem step_bs (nd : Bool) (s : S1State) (b : UInt8) (hq : s.inQuote = true) (hb : s.bsOdd = false)
    (hs : isBackslashByte b = true) :
    s1Step nd s b = ({ bsOdd := true, inQuote := true, prevPred := false, err := s.err }, false) := by
  obtain ⟨h1, h2, h3, h4, h5⟩ := bs_excl b hs
  simp [s1Step, hq, hb, hs, h1, h2, h3, h4, h5]

/-- inside a string, odd backslash run: the byte is taken whatever it is -/
theorem step_escaped (nd : Bool) (s : S1State) (b : UInt8) (hq : s.inQuote = true) (hb : s.bsOdd = true) :
    (s1Step nd s b).2 = false ∧ (s1Step nd s b).1.bsOdd = false ∧ (s1Step nd s b).1.inQuote = true ∧
    (s1Step nd s b).1.err = (s.err || isCtrlByte b) := by
  cases hbs : isBackslashByte b
  · simp [s1Step, hq, hb, hbs]
  · obtain ⟨h1, h2, h3, h4, h5⟩ := bs_excl b hbs
    simp [s1Step, hq, hb, hbs, h1, h2, h3, h4, h5]

/-- inside a string, even backslash run: ordinary byte -/
theorem step_body (nd : Bool) (s : S1State) (b : UInt8) (hq : s.inQuote = true) (hb : s.bsOdd = false)
    (hqq : isQuoteByte b = false) (hbs : isBackslashByte b = false) :
    (s1Step nd s b).2 = false ∧ (s1Step nd s b).1.bsOdd = false ∧ (s1Step nd s b).1.inQuote = true ∧
    (s1Step nd s b).1.err = (s.err || isCtrlByte b) := by
  simp [s1Step, hq, hb, hbs, hqq]

/-! ## positions -/

theorem σ_succ (nd : Bool) (msg : Bytes) (p : Nat) :
    σ nd msg (p + 1) = (s1Step nd (σ nd msg p) (msg.getD p 0x20)).1 := rfl

theorem emit_eq (nd : Bool) (msg : Bytes) (p : Nat) :
    emit nd msg p = (s1Step nd (σ nd msg p) (msg.getD p 0x20)).2 := rfl

theorem pad_byte (msg : Bytes) (p : Nat) (h : p < msg.size) : msg.getD p 0x20 = byteAt msg p := by
  simp [byteAt, Array.getD, h]

theorem σ_succ' (nd : Bool) (msg : Bytes) (p : Nat) (h : p < msg.size) :
    σ nd msg (p + 1) = (s1Step nd (σ nd msg p) (byteAt msg p)).1 := by
  rw [σ_succ, pad_byte msg p h]

theorem emit_eq' (nd : Bool) (msg : Bytes) (p : Nat) (h : p < msg.size) :
    emit nd msg p = (s1Step nd (σ nd msg p) (byteAt msg p)).2 := by
  rw [emit_eq, pad_byte msg p h]

/-! ## between tokens -/

theorem ready0 (nd : Bool) (msg : Bytes) : Ready nd msg 0 := ⟨rfl, rfl, Or.inl rfl⟩

theorem ready_succ (nd : Bool) (msg : Bytes) (p : Nat) (hp : p < msg.size) (e : Bool)
    (h : (s1Step nd (σ nd msg p) (byteAt msg p)).1 = { bsOdd := false, inQuote := false, prevPred := true, err := e }) :
    Ready nd msg (p + 1) := by
  have h' := σ_succ' nd msg p hp
  rw [h] at h'
  exact ⟨by rw [h'], by rw [h'], Or.inl (by rw [h'])⟩

theorem f_ws (nd : Bool) (msg : Bytes) (p : Nat) (hp : p < msg.size) (hr : Ready nd msg p)
    (hw : isWsByte (byteAt msg p) = true) (hn : ¬ (nd = true ∧ byteAt msg p = 10)) :
    emit nd msg p = false ∧ Ready nd msg (p + 1) ∧ (σ nd msg (p + 1)).err = (σ nd msg p).err := by
  have hs := step_ws nd (σ nd msg p) (byteAt msg p) hr.notQ hr.notB hw
  refine ⟨?_, ready_succ nd msg p hp _ (by rw [hs]), by rw [σ_succ' nd msg p hp, hs]⟩
  rw [emit_eq' nd msg p hp, hs]
  cases hnd : nd
  · rfl
  · cases hnl : isNewlineByte (byteAt msg p)
    · rfl
    · exact absurd ⟨hnd, (nl_iff _).1 hnl⟩ hn

theorem f_nl (nd : Bool) (msg : Bytes) (p : Nat) (hp : p < msg.size) (hr : Ready nd msg p)
    (hnd : nd = true) (hb : byteAt msg p = 10) :
    emit nd msg p = true ∧ Ready nd msg (p + 1) ∧ (σ nd msg (p + 1)).err = (σ nd msg p).err := by
  have hnl : isNewlineByte (byteAt msg p) = true := (nl_iff _).2 hb
  have hw := nl_ws _ hnl
  have hs := step_ws nd (σ nd msg p) (byteAt msg p) hr.notQ hr.notB hw
  refine ⟨?_, ready_succ nd msg p hp _ (by rw [hs]), by rw [σ_succ' nd msg p hp, hs]⟩
  rw [emit_eq' nd msg p hp, hs, hnd, hnl]
  rfl

theorem f_struct (nd : Bool) (msg : Bytes) (p : Nat) (hp : p < msg.size) (hr : Ready nd msg p)
    (hst : isStructByte (byteAt msg p) = true) :
    emit nd msg p = true ∧ Ready nd msg (p + 1) ∧ (σ nd msg (p + 1)).err = (σ nd msg p).err := by
  have hs := step_struct nd (σ nd msg p) (byteAt msg p) hr.notQ hr.notB hst
  refine ⟨?_, ready_succ nd msg p hp _ (by rw [hs]), by rw [σ_succ' nd msg p hp, hs]⟩
  rw [emit_eq' nd msg p hp, hs]

theorem f_tokStart (nd : Bool) (msg : Bytes) (p : Nat) (hp : p < msg.size) (hr : Ready nd msg p)
    (hw : isWsByte (byteAt msg p) = false) : emit nd msg p = true := by
  rw [emit_eq' nd msg p hp]
  cases hst : isStructByte (byteAt msg p)
  · cases hqq : isQuoteByte (byteAt msg p)
    · rw [step_other nd _ _ hr.notQ hr.notB hw hst hqq]
      rcases hr.pred with h | h | h | h
      · exact h
      · omega
      · rw [show msg.getD p 0 = byteAt msg p from rfl, hw] at h; cases h
      · rw [show msg.getD p 0 = byteAt msg p from rfl, hst] at h; cases h
    · rw [step_open nd _ _ hr.notQ hr.notB hqq]
  · rw [step_struct nd _ _ hr.notQ hr.notB hst]

/-! ## error flag, counting -/

theorem err_step (nd : Bool) (s : S1State) (b : UInt8) (h : s.err = true) : (s1Step nd s b).1.err = true := by
  simp [s1Step, h]

theorem f_errMono (nd : Bool) (msg : Bytes) (p q : Nat) (hpq : p ≤ q) (h : (σ nd msg p).err = true) :
    (σ nd msg q).err = true := by
  induction q with
  | zero => have : p = 0 := by omega
            subst this; exact h
  | succ q ih =>
    by_cases hq : p = q + 1
    · subst hq; exact h
    · rw [σ_succ]; exact err_step _ _ _ (ih (by omega))

theorem f_cnt_succ (nd : Bool) (msg : Bytes) (p : Nat) :
    cnt nd msg (p + 1) = cnt nd msg p + (if emit nd msg p then 1 else 0) := by
  unfold cnt
  rw [List.range_succ, List.filter_append, List.length_append]
  cases h : emit nd msg p <;> simp [List.filter, h]

theorem f_cnt_noemit (nd : Bool) (msg : Bytes) (p q : Nat) (hpq : p ≤ q)
    (h : ∀ j, p ≤ j → j < q → emit nd msg j = false) : cnt nd msg q = cnt nd msg p := by
  induction q with
  | zero => have : p = 0 := by omega
            subst this; rfl
  | succ q ih =>
    by_cases hq : p = q + 1
    · subst hq; rfl
    · rw [f_cnt_succ, h q (by omega) (by omega), ih (by omega) (fun j h1 h2 => h j h1 (by omega))]
      rfl

theorem filter_idx (f : Nat → Bool) (n p : Nat) (hp : p < n) (hf : f p = true) :
    ((List.range n).filter f)[((List.range p).filter f).length]? = some p := by
  induction n with
  | zero => omega
  | succ n ih =>
    rw [List.range_succ, List.filter_append]
    by_cases h : p < n
    · have := ih h
      rw [List.getElem?_append_left]
      · exact this
      · by_cases hl : ((List.range p).filter f).length < ((List.range n).filter f).length
        · exact hl
        · rw [List.getElem?_eq_none (by omega)] at this; cases this
    · have : p = n := by omega
      subst this
      rw [List.getElem?_append_right (Nat.le_refl _)]
      simp [List.filter, hf]

theorem f_idx_at (nd : Bool) (msg : Bytes) (p : Nat) (hp : p < msg.size) (he : emit nd msg p = true) :
    (indices nd msg)[cnt nd msg p]? = some p := filter_idx _ _ _ hp he

theorem f_cnt_size (nd : Bool) (msg : Bytes) : cnt nd msg msg.size = (indices nd msg).length := rfl

/-! ## runs of plain bytes -/

theorem step_plain (nd : Bool) (s : S1State) (b : UInt8) (hq : s.inQuote = false) (hb : s.bsOdd = false)
    (hp : plainByte b = true) :
    s1Step nd s b = ({ bsOdd := false, inQuote := false, prevPred := false, err := s.err }, s.prevPred) := by
  simp only [plainByte, Bool.and_eq_true, Bool.not_eq_true', bne_iff_ne, ne_eq] at hp
  obtain ⟨⟨⟨h1, h2⟩, h3⟩, h4⟩ := hp
  have h3' : isQuoteByte b = false := by
    cases h : isQuoteByte b
    · rfl
    · exact absurd ((quote_iff b).1 h) h3
  have h4' : isBackslashByte b = false := by
    cases h : isBackslashByte b
    · rfl
    · exact absurd ((bs_iff b).1 h) h4
  rw [step_other nd s b hq hb h1 h2 h3', h4']

theorem run_inv (nd : Bool) (msg : Bytes) (p q : Nat) (hq : q ≤ msg.size) (hr : Ready nd msg p)
    (hpl : ∀ j, p ≤ j → j < q → plainByte (byteAt msg j) = true) :
    ∀ k, p + 1 + k ≤ q →
      σ nd msg (p + 1 + k) = { bsOdd := false, inQuote := false, prevPred := false, err := (σ nd msg p).err } := by
  intro k
  induction k with
  | zero =>
    intro h
    rw [Nat.add_zero, σ_succ' nd msg p (by omega), step_plain nd _ _ hr.notQ hr.notB (hpl p (by omega) (by omega))]
  | succ k ih =>
    intro h
    have ih := ih (by omega)
    have : p + 1 + (k + 1) = (p + 1 + k) + 1 := by omega
    rw [this, σ_succ' nd msg _ (by omega),
      step_plain nd _ _ (by rw [ih]) (by rw [ih]) (hpl _ (by omega) (by omega)), ih]

theorem f_tokRun (nd : Bool) (msg : Bytes) (p q : Nat) (hpq : p < q) (hq : q ≤ msg.size) (hr : Ready nd msg p)
    (hpl : ∀ j, p ≤ j → j < q → plainByte (byteAt msg j) = true)
    (hend : q = msg.size ∨ isWsByte (byteAt msg q) = true ∨ isStructByte (byteAt msg q) = true) :
    (∀ j, p < j → j < q → emit nd msg j = false) ∧ Ready nd msg q ∧ (σ nd msg q).err = (σ nd msg p).err := by
  have inv := run_inv nd msg p q hq hr hpl
  have hσq : σ nd msg q = { bsOdd := false, inQuote := false, prevPred := false, err := (σ nd msg p).err } := by
    have := inv (q - p - 1) (by omega)
    rwa [show p + 1 + (q - p - 1) = q by omega] at this
  refine ⟨?_, ⟨by rw [hσq], by rw [hσq], ?_⟩, by rw [hσq]⟩
  · intro j h1 h2
    have hj := inv (j - p - 1) (by omega)
    rw [show p + 1 + (j - p - 1) = j by omega] at hj
    rw [emit_eq' nd msg j (by omega), step_plain nd _ _ (by rw [hj]) (by rw [hj]) (hpl j (by omega) h2), hj]
  · rcases hend with h | h | h
    · exact Or.inr (Or.inl (by omega))
    · exact Or.inr (Or.inr (Or.inl h))
    · exact Or.inr (Or.inr (Or.inr h))

/-! ## strings -/

theorem drop_cons (msg : Bytes) (k : Nat) (c : UInt8) (r : List UInt8) (h : msg.toList.drop k = c :: r) :
    k < msg.size ∧ byteAt msg k = c ∧ msg.toList.drop (k + 1) = r := by
  have hk : k < msg.toList.length := by
    by_cases hk : k < msg.toList.length
    · exact hk
    · rw [List.drop_eq_nil_of_le (by omega)] at h; cases h
  rw [List.drop_eq_getElem_cons hk] at h
  injection h with h1 h2
  have hk' : k < msg.size := by simpa using hk
  refine ⟨hk', ?_, h2⟩
  rw [← h1]
  simp [byteAt, Array.getD, hk']

theorem drop_nil (msg : Bytes) (k : Nat) (h : msg.toList.drop k = []) : msg.size ≤ k := by
  have := List.drop_eq_nil_iff.1 h
  simpa using this

theorem not_beq_true {b c : UInt8} (h : ¬ (b == c) = true) : b ≠ c := by
  intro e; subst e; simp at h

theorem notQuote {b : UInt8} (h : ¬ (b == 34) = true) : isQuoteByte b = false := by
  cases hq : isQuoteByte b
  · rfl
  · exact absurd ((quote_iff b).1 hq) (not_beq_true h)

theorem notBs {b : UInt8} (h : ¬ (b == 92) = true) : isBackslashByte b = false := by
  cases hq : isBackslashByte b
  · rfl
  · exact absurd ((bs_iff b).1 hq) (not_beq_true h)

theorem closeQ_quote (c : UInt8) (r : List UInt8) (hc : (c == 34) = true) : closeQ (c :: r) = some 0 := by
  rw [closeQ.eq_def]; simp only [if_pos hc]
theorem closeQ_bs1 (c : UInt8) (hc : ¬ (c == 34) = true) (hc2 : (c == 92) = true) : closeQ [c] = none := by
  rw [closeQ.eq_def]; simp only [if_neg hc, if_pos hc2]
theorem closeQ_bs2 (c x : UInt8) (r : List UInt8) (hc : ¬ (c == 34) = true) (hc2 : (c == 92) = true) :
    closeQ (c :: x :: r) = (closeQ r).map (· + 2) := by
  rw [closeQ.eq_def]; simp only [if_neg hc, if_pos hc2]
theorem closeQ_other (c : UInt8) (r : List UInt8) (hc : ¬ (c == 34) = true) (hc2 : ¬ (c == 92) = true) :
    closeQ (c :: r) = (closeQ r).map (· + 1) := by
  rw [closeQ.eq_def]; simp only [if_neg hc, if_neg hc2]

/-- what `close_run` establishes for the body starting at `k` whose closing quote is at offset `d` -/
def CloseOK (nd : Bool) (msg : Bytes) (k d : Nat) : Prop :=
  k + d < msg.size ∧ (∀ q, k ≤ q → q ≤ k + d → emit nd msg q = false) ∧
  (σ nd msg (k + d + 1)).inQuote = false ∧ (σ nd msg (k + d + 1)).bsOdd = false ∧
  (σ nd msg (k + d + 1)).prevPred = true ∧
  ((σ nd msg (k + d + 1)).err = true ↔ ((σ nd msg k).err = true ∨ ∃ j, j < d ∧ byteAt msg (k + j) < 0x20))

theorem close_run (nd : Bool) (msg : Bytes) (l : List UInt8) :
    ∀ (k d : Nat), msg.toList.drop k = l → (σ nd msg k).inQuote = true → (σ nd msg k).bsOdd = false →
      closeQ l = some d → CloseOK nd msg k d := by
  induction l using closeQ.induct with
  | case1 => intro k d _ _ _ h; rw [closeQ.eq_1] at h; cases h
  | case2 c r hc =>
    intro k d hdrop hq hb h
    obtain ⟨hk, hbyte, hdrop'⟩ := drop_cons msg k c r hdrop
    rw [closeQ_quote c r hc, Option.some.injEq] at h
    subst h
    have hqb : isQuoteByte (byteAt msg k) = true := by rw [hbyte]; exact (quote_iff c).2 (by simpa using hc)
    have hs := step_close nd _ _ hq hb hqb
    have hσ := σ_succ' nd msg k hk
    rw [hs] at hσ
    refine ⟨by omega, ?_, by rw [Nat.add_zero, hσ], by rw [Nat.add_zero, hσ], by rw [Nat.add_zero, hσ], ?_⟩
    · intro q h1 h2
      have : q = k := by omega
      subst this
      rw [emit_eq' nd msg q hk, hs]
    · rw [Nat.add_zero, hσ]
      constructor
      · intro h; exact Or.inl h
      · rintro (h | ⟨j, hj, _⟩)
        · exact h
        · omega
  | case3 c hc hc2 =>
    intro k d _ _ _ h
    rw [closeQ_bs1 c hc hc2] at h; cases h
  | case4 c hc hc2 x r ih =>
    intro k d hdrop hq hb h
    obtain ⟨hk, hbyte, hdrop'⟩ := drop_cons msg k c _ hdrop
    obtain ⟨hk1, hbyte1, hdrop''⟩ := drop_cons msg (k + 1) x r hdrop'
    rw [closeQ_bs2 c x r hc hc2, Option.map_eq_some_iff] at h
    obtain ⟨d', hd', rfl⟩ := h
    have hbb : isBackslashByte (byteAt msg k) = true := by rw [hbyte]; exact (bs_iff c).2 (by simpa using hc2)
    have hs := step_bs nd _ _ hq hb hbb
    have hσ := σ_succ' nd msg k hk
    rw [hs] at hσ
    obtain ⟨e1, e2, e3, e4⟩ := step_escaped nd (σ nd msg (k + 1)) (byteAt msg (k + 1)) (by rw [hσ]) (by rw [hσ])
    have hσ2 := σ_succ' nd msg (k + 1) hk1
    rw [← hσ2] at e2 e3 e4
    obtain ⟨i1, i2, i3, i4, i5, i6⟩ := ih (k + 2) d' hdrop'' e3 e2 hd'
    have harr : k + (d' + 2) + 1 = k + 2 + d' + 1 := by omega
    refine ⟨by omega, ?_, by rw [harr]; exact i3, by rw [harr]; exact i4, by rw [harr]; exact i5, ?_⟩
    · intro q h1 h2
      by_cases hqk : q = k
      · subst hqk; rw [emit_eq' nd msg q hk, hs]
      · by_cases hqk1 : q = k + 1
        · subst hqk1; rw [emit_eq' nd msg _ hk1]; exact e1
        · exact i2 q (by omega) (by omega)
    · rw [harr, i6, e4, hσ]
      have hnc : ¬ byteAt msg k < 0x20 := by
        rw [← ctrl_iff]; rw [(bs_excl _ hbb).2.2.2.2]; simp
      constructor
      · rintro (h | ⟨j, hj, hlt⟩)
        · rw [Bool.or_eq_true] at h
          rcases h with h | h
          · exact Or.inl h
          · exact Or.inr ⟨1, by omega, (ctrl_iff _).1 h⟩
        · exact Or.inr ⟨j + 2, by omega, by rwa [show k + (j + 2) = k + 2 + j by omega]⟩
      · rintro (h | ⟨j, hj, hlt⟩)
        · exact Or.inl (by rw [h]; rfl)
        · by_cases hj0 : j = 0
          · subst hj0; exact absurd hlt hnc
          · by_cases hj1 : j = 1
            · subst hj1; exact Or.inl (by rw [(ctrl_iff _).2 hlt]; simp)
            · exact Or.inr ⟨j - 2, by omega, by rwa [show k + 2 + (j - 2) = k + j by omega]⟩
  | case5 c r hc hc2 ih =>
    intro k d hdrop hq hb h
    obtain ⟨hk, hbyte, hdrop'⟩ := drop_cons msg k c _ hdrop
    rw [closeQ_other c r hc hc2, Option.map_eq_some_iff] at h
    obtain ⟨d', hd', rfl⟩ := h
    obtain ⟨e1, e2, e3, e4⟩ := step_body nd (σ nd msg k) (byteAt msg k) hq hb
      (by rw [hbyte]; exact notQuote hc) (by rw [hbyte]; exact notBs hc2)
    have hσ := σ_succ' nd msg k hk
    rw [← hσ] at e2 e3 e4
    obtain ⟨i1, i2, i3, i4, i5, i6⟩ := ih (k + 1) d' hdrop' e3 e2 hd'
    have harr : k + (d' + 1) + 1 = k + 1 + d' + 1 := by omega
    refine ⟨by omega, ?_, by rw [harr]; exact i3, by rw [harr]; exact i4, by rw [harr]; exact i5, ?_⟩
    · intro q h1 h2
      by_cases hqk : q = k
      · subst hqk; rw [emit_eq' nd msg q hk]; exact e1
      · exact i2 q (by omega) (by omega)
    · rw [harr, i6, e4]
      constructor
      · rintro (h | ⟨j, hj, hlt⟩)
        · rw [Bool.or_eq_true] at h
          rcases h with h | h
          · exact Or.inl h
          · exact Or.inr ⟨0, by omega, (ctrl_iff _).1 h⟩
        · exact Or.inr ⟨j + 1, by omega, by rwa [show k + (j + 1) = k + 1 + j by omega]⟩
      · rintro (h | ⟨j, hj, hlt⟩)
        · exact Or.inl (by rw [h]; rfl)
        · by_cases hj0 : j = 0
          · subst hj0; exact Or.inl (by rw [(ctrl_iff (byteAt msg k)).2 hlt]; simp)
          · exact Or.inr ⟨j - 1, by omega, by rwa [show k + 1 + (j - 1) = k + j by omega]⟩

theorem f_strClosed (nd : Bool) (msg : Bytes) (p d : Nat) (hp : p < msg.size) (hr : Ready nd msg p)
    (hb : byteAt msg p = 34) (hc : closeQ (msg.toList.drop (p + 1)) = some d) :
    p + 2 + d ≤ msg.size ∧
    (∀ q, p < q → q ≤ p + 1 + d → emit nd msg q = false) ∧
    Ready nd msg (p + 2 + d) ∧ (σ nd msg (p + 2 + d)).prevPred = true ∧
    ((σ nd msg (p + 2 + d)).err = true ↔ ((σ nd msg p).err = true ∨ ∃ j, j < d ∧ byteAt msg (p + 1 + j) < 0x20)) := by
  have hs := step_open nd (σ nd msg p) (byteAt msg p) hr.notQ hr.notB ((quote_iff _).2 hb)
  have hσ := σ_succ' nd msg p hp
  rw [hs] at hσ
  obtain ⟨i1, i2, i3, i4, i5, i6⟩ := close_run nd msg _ (p + 1) d rfl (by rw [hσ]) (by rw [hσ]) hc
  have harr : p + 2 + d = p + 1 + d + 1 := by omega
  rw [harr]
  refine ⟨by omega, fun q h1 h2 => i2 q (by omega) h2, ⟨i3, i4, Or.inl i5⟩, i5, ?_⟩
  rw [i6, hσ]

theorem open_run (nd : Bool) (msg : Bytes) (l : List UInt8) :
    ∀ (k : Nat), k ≤ msg.size → msg.toList.drop k = l → (σ nd msg k).inQuote = true → (σ nd msg k).bsOdd = false →
      closeQ l = none → (σ nd msg msg.size).inQuote = true := by
  induction l using closeQ.induct with
  | case1 =>
    intro k hk hdrop hq _ _
    have := drop_nil msg k hdrop
    have : k = msg.size := by omega
    subst this; exact hq
  | case2 c r hc => intro k _ _ _ _ h; rw [closeQ_quote c r hc] at h; cases h
  | case3 c hc hc2 =>
    intro k _ hdrop hq hb _
    obtain ⟨hk, hbyte, hdrop'⟩ := drop_cons msg k c _ hdrop
    have := drop_nil msg (k + 1) hdrop'
    have hsz : msg.size = k + 1 := by omega
    have hbb : isBackslashByte (byteAt msg k) = true := by rw [hbyte]; exact (bs_iff c).2 (by simpa using hc2)
    rw [hsz, σ_succ' nd msg k hk, step_bs nd _ _ hq hb hbb]
  | case4 c hc hc2 x r ih =>
    intro k _ hdrop hq hb h
    obtain ⟨hk, hbyte, hdrop'⟩ := drop_cons msg k c _ hdrop
    obtain ⟨hk1, hbyte1, hdrop''⟩ := drop_cons msg (k + 1) x r hdrop'
    rw [closeQ_bs2 c x r hc hc2, Option.map_eq_none_iff] at h
    have hbb : isBackslashByte (byteAt msg k) = true := by rw [hbyte]; exact (bs_iff c).2 (by simpa using hc2)
    have hs := step_bs nd _ _ hq hb hbb
    have hσ := σ_succ' nd msg k hk
    rw [hs] at hσ
    obtain ⟨e1, e2, e3, e4⟩ := step_escaped nd (σ nd msg (k + 1)) (byteAt msg (k + 1)) (by rw [hσ]) (by rw [hσ])
    have hσ2 := σ_succ' nd msg (k + 1) hk1
    rw [← hσ2] at e2 e3 e4
    exact ih (k + 2) (by omega) hdrop'' e3 e2 h
  | case5 c r hc hc2 ih =>
    intro k _ hdrop hq hb h
    obtain ⟨hk, hbyte, hdrop'⟩ := drop_cons msg k c _ hdrop
    rw [closeQ_other c r hc hc2, Option.map_eq_none_iff] at h
    obtain ⟨e1, e2, e3, e4⟩ := step_body nd (σ nd msg k) (byteAt msg k) hq hb
      (by rw [hbyte]; exact notQuote hc) (by rw [hbyte]; exact notBs hc2)
    have hσ := σ_succ' nd msg k hk
    rw [← hσ] at e2 e3 e4
    exact ih (k + 1) (by omega) hdrop' e3 e2 h

theorem f_strOpen (nd : Bool) (msg : Bytes) (p : Nat) (hp : p < msg.size) (hr : Ready nd msg p)
    (hb : byteAt msg p = 34) (hc : closeQ (msg.toList.drop (p + 1)) = none) :
    (σ nd msg msg.size).inQuote = true := by
  have hs := step_open nd (σ nd msg p) (byteAt msg p) hr.notQ hr.notB ((quote_iff _).2 hb)
  have hσ := σ_succ' nd msg p hp
  rw [hs] at hσ
  exact open_run nd msg _ (p + 1) (by omega) rfl (by rw [hσ]) (by rw [hσ]) hc

/-! ## `stage1` -/

theorem stage1_core (msg : Bytes) (s : S1State) (I : List Nat) (idx : Array Nat) :
    (if (msg.size == 0) = true ∨ (I.toArray.size == 0) = true then none
      else if s.err = true ∨ s.inQuote = true then none
      else if (msg.getD (I.getLastD 0) 0 == 125) = true ∨ (msg.getD (I.getLastD 0) 0 == 93) = true
        then some I.toArray else none) = some idx ↔
    (idx.toList = I ∧ msg.size ≠ 0 ∧ I ≠ [] ∧ s.err = false ∧ s.inQuote = false ∧
      (byteAt msg (I.getLastD 0) = 125 ∨ byteAt msg (I.getLastD 0) = 93)) := by
  have hidx : I.toArray = idx ↔ idx.toList = I := by
    constructor
    · intro h; rw [← h]
    · intro h; rw [← h]
  by_cases h1 : msg.size = 0
  · simp [h1]
  by_cases h2 : I = []
  · simp [h2]
  by_cases h3 : s.err = true
  · simp [h3]
  by_cases h4 : s.inQuote = true
  · simp [h4]
  have h2' : ¬ I.length = 0 := by
    intro h; exact h2 (List.length_eq_zero_iff.1 h)
  have h3' : s.err = false := by cases h : s.err <;> simp_all
  have h4' : s.inQuote = false := by cases h : s.inQuote <;> simp_all
  have c1 : ¬ ((msg.size == 0) = true ∨ (I.toArray.size == 0) = true) := by
    rintro (h | h)
    · exact h1 (beq_iff_eq.1 h)
    · exact h2' (by simpa using h)
  have c2 : ¬ (s.err = true ∨ s.inQuote = true) := by
    rintro (h | h)
    · exact h3 h
    · exact h4 h
  rw [if_neg c1, if_neg c2]
  by_cases h5 : (msg.getD (I.getLastD 0) 0 == 125) = true ∨ (msg.getD (I.getLastD 0) 0 == 93) = true
  · rw [if_pos h5]
    have h5' : byteAt msg (I.getLastD 0) = 125 ∨ byteAt msg (I.getLastD 0) = 93 :=
      h5.imp (fun h => beq_iff_eq.1 h) (fun h => beq_iff_eq.1 h)
    constructor
    · intro h; injection h with h; exact ⟨hidx.1 h, h1, h2, h3', h4', h5'⟩
    · rintro ⟨h, _⟩; rw [hidx.2 h]
  · rw [if_neg h5]
    constructor
    · intro h; cases h
    · rintro ⟨_, _, _, _, _, h⟩
      exact absurd (h.imp (fun h => beq_iff_eq.2 h) (fun h => beq_iff_eq.2 h)) h5

theorem f_stage1_iff (nd : Bool) (msg : Bytes) (idx : Array Nat) : stage1 nd msg = some idx ↔
    (idx.toList = indices nd msg ∧ msg.size ≠ 0 ∧ indices nd msg ≠ [] ∧ (σ nd msg msg.size).err = false ∧
     (σ nd msg msg.size).inQuote = false ∧
     (byteAt msg ((indices nd msg).getLastD 0) = 125 ∨ byteAt msg ((indices nd msg).getLastD 0) = 93)) := by
  have hI : s1Scan nd msg = (σ nd msg msg.size, (indices nd msg).toArray) := s1Scan_eq nd msg
  have hback : (indices nd msg).toArray.back! = (indices nd msg).getLastD 0 := by
    rw [List.back!_toArray, List.getLast!_eq_getLast?_getD, List.getLastD_eq_getLast?]; rfl
  unfold stage1
  rw [hI]
  simp only []
  rw [hback]
  exact stage1_core msg _ _ idx

/-! ## the interface -/

theorem scanFacts (nd : Bool) (msg : Bytes) : ScanFacts nd msg where
  ready0 := ready0 nd msg
  ws := f_ws nd msg
  nl := f_nl nd msg
  struct := f_struct nd msg
  tokStart := f_tokStart nd msg
  strClosed := f_strClosed nd msg
  strOpen := f_strOpen nd msg
  tokRun := f_tokRun nd msg
  errMono := f_errMono nd msg
  cnt_succ := f_cnt_succ nd msg
  cnt_noemit := f_cnt_noemit nd msg
  idx_at := f_idx_at nd msg
  cnt_size := f_cnt_size nd msg
  stage1_iff := f_stage1_iff nd msg

end SJ.ParseDefs
