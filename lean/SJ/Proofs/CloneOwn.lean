import SJ.Generated.CloneSrc
/-
CloneOwn — `(*ParsedJson).Clone` owns its buffers (C16, the Clone half).

`Generated.cloneProg` is the body of Clone as printed from parsed_json.go into the ownership language `SJ.Own`
(slice headers over a heap of backing arrays and `TStrings` cells).  `clone_run`: from every heap, for every receiver
whose three slices are valid and every destination — nil, or a handle with buffers of its own of ANY capacities, with
or without a `TStrings` — the program runs to the end (no nil dereference, no slice-bounds panic) and the handle it
returns (a) shows the receiver's contents, (b) has three backing arrays and a `TStrings` cell none of which is one of
the receiver's, while (c) the receiver's headers, cell and arrays are exactly as before.  `original_immune` /
`clone_immune` are the consequences: no later change confined to one side's arrays and cell is visible on the other.
`shared_*` show that the language can say the opposite: the same statements with the string buffer re-sliced from the
receiver (what an "avoid the copy" change does) run fine and end with the clone's cell pointing into the receiver's array.
-/
namespace SJ.CloneOwn
open SJ.Own SJ.Generated
set_option linter.unusedSimpArgs false
set_option linter.unusedVariables false

def suffix : List Stmt := [
  .clearInternal,
  .assign (.tape .dst) (.resl (.tape .dst) (.tape .pj)),
  .copy (.tape .dst) (.tape .pj),
  .assign (.msg .dst) (.resl (.msg .dst) (.msg .pj)),
  .copy (.msg .dst) (.msg .pj),
  .assign (.strB .dst) (.resl (.strB .dst) (.strB .pj)),
  .copy (.strB .dst) (.strB .pj)]

theorem take_copyArr (d s : List Nat) (n : Nat) (h : n ≤ s.length) : (copyArr d s n).take n = s.take n := by
  simp [copyArr, List.length_take, Nat.min_eq_left h]

theorem suffix_run (s : St) (d : Hdl) (c c' : Nat) (hd : s.dst = some d) (hs : d.strs = some c')
    (hp : s.pj.strs = some c) (hcc : c' ≠ c)
    (hm : s.pj.msg.len ≤ d.msg.cap) (ht : s.pj.tape.len ≤ d.tape.cap) (hb : (s.h.cells c).len ≤ (s.h.cells c').cap)
    (lm : s.pj.msg.len ≤ (s.h.arrs s.pj.msg.arr).length) (lt : s.pj.tape.len ≤ (s.h.arrs s.pj.tape.arr).length)
    (lb : (s.h.cells c).len ≤ (s.h.arrs (s.h.cells c).arr).length)
    (d1 : d.msg.arr ≠ d.tape.arr) (d2 : d.msg.arr ≠ (s.h.cells c').arr) (d3 : d.tape.arr ≠ (s.h.cells c').arr)
    (e1 : d.msg.arr ≠ s.pj.msg.arr) (e2 : d.msg.arr ≠ s.pj.tape.arr) (e3 : d.msg.arr ≠ (s.h.cells c).arr)
    (f1 : d.tape.arr ≠ s.pj.msg.arr) (f2 : d.tape.arr ≠ s.pj.tape.arr) (f3 : d.tape.arr ≠ (s.h.cells c).arr)
    (g1 : (s.h.cells c').arr ≠ s.pj.msg.arr) (g2 : (s.h.cells c').arr ≠ s.pj.tape.arr) (g3 : (s.h.cells c').arr ≠ (s.h.cells c).arr) :
    ∃ s1, execL s suffix = some s1 ∧ s1.pj = s.pj ∧
      s1.dst = some { msg := ⟨d.msg.arr, s.pj.msg.len, d.msg.cap⟩, tape := ⟨d.tape.arr, s.pj.tape.len, d.tape.cap⟩, strs := some c' } ∧
      s1.h.cells c = s.h.cells c ∧ s1.h.cells c' = ⟨(s.h.cells c').arr, (s.h.cells c).len, (s.h.cells c').cap⟩ ∧
      (∀ a, a ≠ d.msg.arr → a ≠ d.tape.arr → a ≠ (s.h.cells c').arr → s1.h.arrs a = s.h.arrs a) ∧
      (s1.h.arrs d.msg.arr).take s.pj.msg.len = (s.h.arrs s.pj.msg.arr).take s.pj.msg.len ∧
      (s1.h.arrs d.tape.arr).take s.pj.tape.len = (s.h.arrs s.pj.tape.arr).take s.pj.tape.len ∧
      (s1.h.arrs (s.h.cells c').arr).take (s.h.cells c).len = (s.h.arrs (s.h.cells c).arr).take (s.h.cells c).len ∧
      s1.h.nextA = s.h.nextA ∧ s1.h.nextC = s.h.nextC := by
  obtain ⟨h, pj, dst⟩ := s
  obtain ⟨dm, dt, ds⟩ := d
  simp only at hd hs hp
  subst hd hs
  dsimp only at *
  simp [suffix, execL, exec, evalE, getSl, setSl, St.hdl, St.setHdl, hp, ht, hm, hb, Heap.setCell, Heap.setArr, Ne.symm hcc,
    d1, d2, d3, e1, e2, e3, f1, f2, f3, g1, g2, g3, Ne.symm d1, Ne.symm d2, Ne.symm d3, Ne.symm e1, Ne.symm e2, Ne.symm e3,
    Ne.symm f1, Ne.symm f2, Ne.symm f3, Ne.symm g1, Ne.symm g2, Ne.symm g3, take_copyArr _ _ _ lm, take_copyArr _ _ _ lt, take_copyArr _ _ _ lb]
  intro a h1 h2 h3
  simp [h1, h2, h3]

def prefixS : Stmt :=
  .ite .dstNil [
    .newDst (.mk (.msg .pj)) (.mk (.tape .pj)) (.mk (.strB .pj))] [
    .ite (.capLt (.msg .dst) (.msg .pj)) [
      .assign (.msg .dst) (.mk (.msg .pj))] [],
    .ite (.capLt (.tape .dst) (.tape .pj)) [
      .assign (.tape .dst) (.mk (.tape .pj))] [],
    .ite .dstStrsNil [
      .newStrs (.mk (.strB .pj))] [.ite (.capLt (.strB .dst) (.strB .pj)) [
        .assign (.strB .dst) (.mk (.strB .pj))] []]]

theorem cloneProg_eq : cloneProg = prefixS :: suffix := rfl

structure SlOK (h : Heap) (x : Sl) : Prop where
  lt : x.arr < h.nextA
  le : x.len ≤ x.cap
  capLe : x.cap ≤ (h.arrs x.arr).length

structure SrcOK (s : St) (c : Nat) : Prop where
  strs : s.pj.strs = some c
  cell : c < s.h.nextC
  msg : SlOK s.h s.pj.msg
  tape : SlOK s.h s.pj.tape
  strB : SlOK s.h (s.h.cells c)

structure DstOK (s : St) (c : Nat) (d : Hdl) : Prop where
  msg : SlOK s.h d.msg
  tape : SlOK s.h d.tape
  mt : d.msg.arr ≠ d.tape.arr
  e1 : d.msg.arr ≠ s.pj.msg.arr
  e2 : d.msg.arr ≠ s.pj.tape.arr
  e3 : d.msg.arr ≠ (s.h.cells c).arr
  f1 : d.tape.arr ≠ s.pj.msg.arr
  f2 : d.tape.arr ≠ s.pj.tape.arr
  f3 : d.tape.arr ≠ (s.h.cells c).arr
  strs : ∀ c0, d.strs = some c0 → c0 ≠ c ∧ c0 < s.h.nextC ∧ SlOK s.h (s.h.cells c0) ∧
    (s.h.cells c0).arr ≠ s.pj.msg.arr ∧ (s.h.cells c0).arr ≠ s.pj.tape.arr ∧ (s.h.cells c0).arr ≠ (s.h.cells c).arr ∧
    d.msg.arr ≠ (s.h.cells c0).arr ∧ d.tape.arr ≠ (s.h.cells c0).arr

structure Ready (s s' : St) (c : Nat) (d : Hdl) (c' : Nat) : Prop where
  dst : s'.dst = some d
  strs : d.strs = some c'
  cc : c' ≠ c
  pj : s'.pj = s.pj
  cellSame : s'.h.cells c = s.h.cells c
  old : ∀ a, a < s.h.nextA → s'.h.arrs a = s.h.arrs a
  hm : s.pj.msg.len ≤ d.msg.cap
  ht : s.pj.tape.len ≤ d.tape.cap
  hb : (s.h.cells c).len ≤ (s'.h.cells c').cap
  d1 : d.msg.arr ≠ d.tape.arr
  d2 : d.msg.arr ≠ (s'.h.cells c').arr
  d3 : d.tape.arr ≠ (s'.h.cells c').arr
  e1 : d.msg.arr ≠ s.pj.msg.arr
  e2 : d.msg.arr ≠ s.pj.tape.arr
  e3 : d.msg.arr ≠ (s.h.cells c).arr
  f1 : d.tape.arr ≠ s.pj.msg.arr
  f2 : d.tape.arr ≠ s.pj.tape.arr
  f3 : d.tape.arr ≠ (s.h.cells c).arr
  g1 : (s'.h.cells c').arr ≠ s.pj.msg.arr
  g2 : (s'.h.cells c').arr ≠ s.pj.tape.arr
  g3 : (s'.h.cells c').arr ≠ (s.h.cells c).arr

theorem prefix_nil (s : St) (c : Nat) (hs : SrcOK s c) (hn : s.dst = none) :
    ∃ s' d c', exec s prefixS = some s' ∧ Ready s s' c d c' := by
  obtain ⟨h, pj, dst⟩ := s
  obtain ⟨h1, h2, h3, h4, h5⟩ := hs
  dsimp only at *
  subst hn
  have := h3.lt; have := h4.lt; have := h5.lt
  simp [prefixS, exec, execL, evalC, evalE, getSl, St.hdl, h1, alloc, allocCell, Heap.setArr, Heap.setCell]
  apply Exists.intro
  apply Exists.intro
  constructor
  rfl
  rfl
  all_goals first
    | (simp [Heap.setArr, Heap.setCell] <;> omega)
    | (intro a ha; dsimp only at ha; simp [Heap.setArr, show a ≠ h.nextA by omega, show a ≠ h.nextA + 1 by omega, show a ≠ h.nextA + 1 + 1 by omega])

theorem prefix_some (s : St) (c : Nat) (hs : SrcOK s c) (d0 : Hdl) (hd : s.dst = some d0) (ho : DstOK s c d0) :
    ∃ s' d c', exec s prefixS = some s' ∧ Ready s s' c d c' := by
  obtain ⟨h, pj, dst⟩ := s
  obtain ⟨dm, dt, ds⟩ := d0
  obtain ⟨h1, h2, h3, h4, h5⟩ := hs
  obtain ⟨o1, o2, omt, oe1, oe2, oe3, of1, of2, of3, ostr⟩ := ho
  dsimp only at *
  subst hd
  have := h3.lt; have := h4.lt; have := h5.lt; have := o1.lt; have := o2.lt
  rcases ds with _ | c0
  · by_cases c1 : dm.cap < pj.msg.len <;> by_cases c2 : dt.cap < pj.tape.len <;>
    · simp [prefixS, exec, execL, evalC, evalE, getSl, setSl, St.hdl, St.setHdl, h1, alloc, allocCell, Heap.setArr, Heap.setCell, c1, c2]
      apply Exists.intro
      apply Exists.intro
      constructor
      rfl
      rfl
      all_goals first
        | (simp [Heap.setArr, Heap.setCell] <;> omega)
        | (intro a ha; dsimp only at ha; simp [Heap.setArr, show a ≠ h.nextA by omega, show a ≠ h.nextA + 1 by omega, show a ≠ h.nextA + 1 + 1 by omega])
  · obtain ⟨q1, q2, q3, q4, q5, q6, q7, q8⟩ := ostr c0 rfl
    have := q3.lt
    by_cases c1 : dm.cap < pj.msg.len <;> by_cases c2 : dt.cap < pj.tape.len <;> by_cases c3 : (h.cells c0).cap < (h.cells c).len <;>
    · simp [prefixS, exec, execL, evalC, evalE, getSl, setSl, St.hdl, St.setHdl, h1, alloc, allocCell, Heap.setArr, Heap.setCell, c1, c2, c3]
      apply Exists.intro
      apply Exists.intro
      constructor
      rfl
      rfl
      all_goals first
        | (simp [Heap.setArr, Heap.setCell, q1, Ne.symm q1] <;> omega)
        | (intro a ha; dsimp only at ha; simp [Heap.setArr, show a ≠ h.nextA by omega, show a ≠ h.nextA + 1 by omega, show a ≠ h.nextA + 1 + 1 by omega])

/-- the backing arrays the original reads -/
def srcArrs (s : St) (c : Nat) : List Nat := [s.pj.msg.arr, s.pj.tape.arr, (s.h.cells c).arr]

/-- what Clone establishes: `d` is what the returned pointer points to, `c'` its `TStrings` cell -/
structure Cloned (s s1 : St) (c : Nat) (d : Hdl) (c' : Nat) : Prop where
  ret : s1.dst = some d
  strs : d.strs = some c'
  cellSep : c' ≠ c
  pjSame : s1.pj = s.pj
  cellSame : s1.h.cells c = s.h.cells c
  arrsSame : ∀ a ∈ srcArrs s c, s1.h.arrs a = s.h.arrs a
  msgEq : view s1.h d.msg = view s.h s.pj.msg
  tapeEq : view s1.h d.tape = view s.h s.pj.tape
  strEq : view s1.h (s1.h.cells c') = view s.h (s.h.cells c)
  msgSep : d.msg.arr ∉ srcArrs s c
  tapeSep : d.tape.arr ∉ srcArrs s c
  strSep : (s1.h.cells c').arr ∉ srcArrs s c
  distinct : d.msg.arr ≠ d.tape.arr ∧ d.msg.arr ≠ (s1.h.cells c').arr ∧ d.tape.arr ≠ (s1.h.cells c').arr

/-- **Clone returns a handle that owns its buffers.** For every heap, every receiver with valid slices (`SrcOK`) and
    every destination — nil, or any handle whose buffers are not the receiver's (`DstOK`: whatever their capacities,
    with or without a `TStrings`) — the regenerated body of `Clone` runs to completion and establishes `Cloned`: the
    returned handle shows the receiver's `Message`, `Tape` and `Strings.B`; its three backing arrays and its `TStrings`
    cell are none of the receiver's; the receiver's headers, cell and arrays are untouched. -/
theorem clone_run (s : St) (c : Nat) (hs : SrcOK s c) (hd : ∀ d0, s.dst = some d0 → DstOK s c d0) :
    ∃ s1 d c', execL s cloneProg = some s1 ∧ Cloned s s1 c d c' := by
  have hpre : ∃ s' d c', exec s prefixS = some s' ∧ Ready s s' c d c' := by
    rcases hdst : s.dst with _ | d0
    · exact prefix_nil s c hs hdst
    · exact prefix_some s c hs d0 hdst (hd d0 hdst)
  obtain ⟨s', d, c', hex, r⟩ := hpre
  have hpj := r.pj
  have hcell := r.cellSame
  have a1 := r.old _ hs.msg.lt
  have a2 := r.old _ hs.tape.lt
  have a3 := r.old _ hs.strB.lt
  have l1 := Nat.le_trans hs.msg.le hs.msg.capLe
  have l2 := Nat.le_trans hs.tape.le hs.tape.capLe
  have l3 := Nat.le_trans hs.strB.le hs.strB.capLe
  obtain ⟨s1, hrun, p1, p2, p3, p4, p5, p6, p7, p8, _, _⟩ := suffix_run s' d c c' r.dst r.strs (by rw [hpj]; exact hs.strs) r.cc
    (by rw [hpj]; exact r.hm) (by rw [hpj]; exact r.ht) (by rw [hcell]; exact r.hb)
    (by rw [hpj, a1]; exact l1) (by rw [hpj, a2]; exact l2) (by rw [hcell, a3]; exact l3)
    r.d1 r.d2 r.d3 (by rw [hpj]; exact r.e1) (by rw [hpj]; exact r.e2) (by rw [hcell]; exact r.e3)
    (by rw [hpj]; exact r.f1) (by rw [hpj]; exact r.f2) (by rw [hcell]; exact r.f3)
    (by rw [hpj]; exact r.g1) (by rw [hpj]; exact r.g2) (by rw [hcell]; exact r.g3)
  refine ⟨s1, { msg := ⟨d.msg.arr, s.pj.msg.len, d.msg.cap⟩, tape := ⟨d.tape.arr, s.pj.tape.len, d.tape.cap⟩, strs := some c' }, c', ?_, ?_⟩
  · rw [cloneProg_eq]; simp [execL, hex, hrun]
  · rw [hpj] at p2 p6 p7
    rw [hcell] at p8 p4
    have e1 := r.e1; have e2 := r.e2; have e3 := r.e3; have f1 := r.f1; have f2 := r.f2; have f3 := r.f3
    have g1 := r.g1; have g2 := r.g2; have g3 := r.g3
    constructor
    · exact p2
    · rfl
    · exact r.cc
    · rw [p1, hpj]
    · rw [p3, hcell]
    · intro a ha
      simp [srcArrs] at ha
      have hne : a ≠ d.msg.arr ∧ a ≠ d.tape.arr ∧ a ≠ (s'.h.cells c').arr := by
        rcases ha with rfl | rfl | rfl
        · exact ⟨Ne.symm e1, Ne.symm f1, Ne.symm g1⟩
        · exact ⟨Ne.symm e2, Ne.symm f2, Ne.symm g2⟩
        · exact ⟨Ne.symm e3, Ne.symm f3, Ne.symm g3⟩
      rw [p5 a hne.1 hne.2.1 hne.2.2]
      rcases ha with rfl | rfl | rfl
      · exact a1
      · exact a2
      · exact a3
    · simp only [view]; rw [p6, a1]
    · simp only [view]; rw [p7, a2]
    · simp only [view, p4]; rw [p8, a3]
    · simp [srcArrs]; exact ⟨e1, e2, e3⟩
    · simp [srcArrs]; exact ⟨f1, f2, f3⟩
    · simp [srcArrs, p4]; exact ⟨g1, g2, g3⟩
    · simp [p4]; exact ⟨r.d1, r.d2, r.d3⟩

/-- **The original is immune to whatever happens to the clone.** Any later heap that differs from the heap Clone left
    only OUTSIDE the original's three backing arrays and its `TStrings` cell — writes through the clone's slices anywhere
    within their capacity, appends, re-allocations, a new header in the clone's cell — shows the original exactly what
    it showed before Clone. -/
theorem original_immune (s s1 : St) (c : Nat) (d : Hdl) (c' : Nat) (hc : Cloned s s1 c d c') (h' : Heap)
    (ha : ∀ a ∈ srcArrs s c, h'.arrs a = s1.h.arrs a) (hcell : h'.cells c = s1.h.cells c) :
    view h' s1.pj.msg = view s.h s.pj.msg ∧ view h' s1.pj.tape = view s.h s.pj.tape ∧
      view h' (h'.cells c) = view s.h (s.h.cells c) := by
  have b1 := hc.arrsSame; have b2 := hc.cellSame; have b3 := hc.pjSame
  simp [srcArrs] at ha b1
  simp only [view, b3, hcell, b2]
  rw [ha.1, ha.2.1, ha.2.2, b1.1, b1.2.1, b1.2.2]
  exact ⟨rfl, rfl, rfl⟩

/-- **The clone is immune to whatever happens to the original** (edits, a parse that recycles it, `Reset`): any later
    heap that agrees with the heap Clone left on the clone's three backing arrays and its cell shows the clone the
    original's contents at the time of the call. -/
theorem clone_immune (s s1 : St) (c : Nat) (d : Hdl) (c' : Nat) (hc : Cloned s s1 c d c') (h' : Heap)
    (hm : h'.arrs d.msg.arr = s1.h.arrs d.msg.arr) (ht : h'.arrs d.tape.arr = s1.h.arrs d.tape.arr)
    (hcell : h'.cells c' = s1.h.cells c') (hb : h'.arrs (s1.h.cells c').arr = s1.h.arrs (s1.h.cells c').arr) :
    view h' d.msg = view s.h s.pj.msg ∧ view h' d.tape = view s.h s.pj.tape ∧
      view h' (h'.cells c') = view s.h (s.h.cells c) := by
  refine ⟨?_, ?_, ?_⟩
  · rw [← hc.msgEq]; simp only [view, hm]
  · rw [← hc.tapeEq]; simp only [view, ht]
  · rw [← hc.strEq]; simp only [view, hcell, hb]

/-! ### The premises are satisfiable, and the language can express sharing -/

/-- a heap with one document: arrays 0 (message), 1 (tape), 2 (strings), cell 0 -/
def exHeap : Heap :=
  { arrs := fun i => if i = 0 then [7, 8, 9] else if i = 1 then [1, 2] else if i = 2 then [5, 6, 0, 0] else [],
    nextA := 3, cells := fun _ => ⟨2, 2, 4⟩, nextC := 1 }

def exSt : St := { h := exHeap, pj := { msg := ⟨0, 3, 3⟩, tape := ⟨1, 2, 2⟩, strs := some 0 }, dst := none }

example : SrcOK exSt 0 := by
  constructor <;> first | rfl | (constructor <;> decide) | decide

example : ∀ d0, exSt.dst = some d0 → DstOK exSt 0 d0 := by intro d0 h; cases h

/-- the same document with a used destination: message buffer big enough (array 3), tape buffer too small (array 4),
    its own `TStrings` (cell 1, array 5) too small -/
def exHeap2 : Heap :=
  { arrs := fun i => if i = 0 then [7, 8, 9] else if i = 1 then [1, 2] else if i = 2 then [5, 6, 0, 0]
      else if i = 3 then [0, 0, 0, 0, 0, 0, 0, 0] else if i = 4 then [4] else if i = 5 then [3] else [],
    nextA := 6, cells := fun i => if i = 1 then ⟨5, 1, 1⟩ else ⟨2, 2, 4⟩, nextC := 2 }

def exDst : Hdl := { msg := ⟨3, 2, 8⟩, tape := ⟨4, 1, 1⟩, strs := some 1 }

def exSt2 : St := { h := exHeap2, pj := { msg := ⟨0, 3, 3⟩, tape := ⟨1, 2, 2⟩, strs := some 0 }, dst := some exDst }

example : SrcOK exSt2 0 := by
  constructor <;> first | rfl | (constructor <;> decide) | decide

example : ∀ d0, exSt2.dst = some d0 → DstOK exSt2 0 d0 := by
  intro d0 h
  cases h
  refine ⟨⟨by decide, by decide, by decide⟩, ⟨by decide, by decide, by decide⟩, by decide, by decide, by decide, by decide,
    by decide, by decide, by decide, ?_⟩
  intro c0 hc
  cases hc
  exact ⟨by decide, by decide, ⟨by decide, by decide, by decide⟩, by decide, by decide, by decide, by decide, by decide⟩

/-- … and on it the regenerated Clone keeps the big-enough message buffer (array 3), takes a fresh tape buffer and a
    fresh string buffer, and the clone shows the document -/
theorem used_destination_runs :
    (execL exSt2 cloneProg).map (fun s1 => (s1.dst.map fun d => [[d.msg.arr], view s1.h d.msg, [d.tape.arr], view s1.h d.tape] ++
      (match d.strs with | some c' => [[(s1.h.cells c').arr], view s1.h (s1.h.cells c')] | none => []))) =
      some (some [[3], [7, 8, 9], [6], [1, 2], [7], [5, 6]]) := by
  decide +kernel

/-- Clone with the string buffer re-sliced from the receiver instead of copied -/
def sharedProg : List Stmt := [
  .ite .dstNil [.newDst (.mk (.msg .pj)) (.mk (.tape .pj)) (.resl (.strB .pj) (.strB .pj))] [],
  .assign (.tape .dst) (.resl (.tape .dst) (.tape .pj)), .copy (.tape .dst) (.tape .pj),
  .assign (.msg .dst) (.resl (.msg .dst) (.msg .pj)), .copy (.msg .dst) (.msg .pj)]

/-- it runs, the clone shows the same strings — and its cell points into the receiver's array (2) -/
theorem shared_runs_and_aliases :
    (execL exSt sharedProg).map (fun s1 => ((s1.dst.bind (·.strs)).map fun c' => ((s1.h.cells c').arr, view s1.h (s1.h.cells c')))) =
      some (some (2, [5, 6])) := by
  decide
end SJ.CloneOwn
