import SJ.Properties.C12
import SJ.Proofs.GoInterfaceRec
set_option linter.unusedVariables false
/-
Source-level corollary of the `Interface` tie (`Proofs/GoInterfaceRec.lean`) and the model-level theorem about `Object.Map`
(`Lookup.objMap_spec_fuelOf`, property C12): no hand-model function in the conclusion.

`source_map_of_document`: on the `Object` view of a tight object node of a located document, running the regenerated
`Object.Map(nil)` of /repo returns the Go map built by inserting ALL members in tape order (for a duplicated key the last
one wins), each value as `Interface()` gives it.  Extra hypothesis `hdef`: the covered fragment of the model is definite on
that object (no Root / None branch of `Interface` is reached below it — a located document has no root word inside an
object — and the fuel `fuelOf pj` is enough for every `NextElementBytes`); it is an executable condition (`mapV … ≠ .diverge`),
not derived here from `Ok`.
-/
namespace SJ.SourceLevelG
open SJ SJ.Generated SJ.GoSem SJ.GoIter SJ.GoObject SJ.GoInterface
open SJ.Layout SJ.WalkLayout SJ.Lookup

/-- **`Object.Map(nil)` of /repo on an object of a document.** On a tape denoting the object `ms` (`Ok`, tight),
    running the regenerated `Object.Map` with a nil destination returns the map with every member inserted in order
    (the last duplicate wins, values as `Interface()` returns them) and leaves the tape unchanged — no function of the
    hand model in the conclusion. Premise `hdef` is executable: the fragment of the model that the tie covers does
    not run out of its own fuel on this object and meets no root entry inside it (it is not derived from `Ok` here). -/
theorem source_map_of_document (pj : PJ) (hb : BufOK pj) (hsz : pj.tape.size < 2^63) (p e : Nat) (ms : LMems)
    (hok : Ok pj (.obj p e ms)) (ht : TightMs ms)
    (hdef : mapV pj { lim := e, off := p + 1 } [] (fuelOf pj) ≠ .diverge)
    (F : Nat) (hF : goFuel pj (fuelOf pj) ≤ F) :
    ∃ s, runFun goFuns goObject_Map F
        ⟨[("o.off", .int ((p + 1 : Nat) : Int)), ("o.lim", .int (e : Int)), ("dst", .iface (.obj [])), ("dst==nil", .bool true)] ++
          bufEnv pj, pj.tape⟩ =
      .ret s [.iface (.obj ((toIMems ms).foldl (fun m kv => mapInsert m kv.1 kv.2) [])), .bool false] ∧
      s.tape = pj.tape := by
  have hm := objMap_spec_fuelOf pj p e ms hok ht
  have hag := (fragment_agrees pj (fuelOf pj)).2.2 { lim := e, off := p + 1 } []
  obtain ⟨_, _, _, hle, _⟩ := obj_parts hok
  have htie := (go_interface_source_tie pj hb hsz (fuelOf pj) F hF).2.2 { lim := e, off := p + 1 } [] true hle (fun _ => rfl)
  cases hv : mapV pj { lim := e, off := p + 1 } [] (fuelOf pj) with
  | diverge => exact absurd hv hdef
  | panic => rw [hv] at hag; simp only [Agrees] at hag; rw [hag] at hm; cases hm
  | error er => rw [hv] at hag; simp only [Agrees] at hag; rw [hag] at hm; cases hm
  | ok m =>
    rw [hv] at hag htie
    simp only [Agrees] at hag
    rw [hag] at hm
    simp only [Res.ok.injEq] at hm
    subst hm
    obtain ⟨s, h1, h2, _⟩ := htie
    exact ⟨s, h1, h2.1⟩

end SJ.SourceLevelG

#print axioms SJ.SourceLevelG.source_map_of_document
