import SJ.Proofs.SourceLevelH
import SJ.Proofs.SourceLevelD
import SJ.Proofs.ParseIff
import SJ.Proofs.SourceLevelIFloats
set_option linter.unusedVariables false
/-
End-to-end statements: from the INPUT TEXT to what the regenerated Go source returns.

The source-level theorems of `SourceLevelA … H` start from a tape that denotes a document (`Ok pj v`, tightness) and keep
side conditions about the tape (`BufOK pj`, `pj.tape.size < 2^63`, `lim ≤ len(tape)`, the 2^55 / 2^56 limits of the
serialized format).  Here those side conditions are DISCHARGED for the tapes the parser model returns, from
`ParseWF.parse_wf` (sizes: `len(tape) ≤ 3·n + 2`, `len(Strings) ≤ n`, `Message = trimmed input`, `n < 2^50`):

* `parse_side_conditions`   : `BufOK pj`, `pj.tape.size < 2^63`, `pj.tape.size < 2^56` for every parse result;
* `parse_doc`               : the located document of a parse result, with `FloatsOk` (every float the parser writes is finite:
  `SourceLevelIFloats.parse_floatsOk`, an invariant over the stage-2 run; NOT a hypothesis any more);
* `parse_then_marshal_source` (E1), `parse_then_interface_source` (E2), `parse_then_serialize_roundtrip_source` (E3):
  hypotheses only about the input (`SizeOK`, the parser model accepted it) and interpreter fuel, given as a function of the
  input length; the iterator is any `RootIter` (on the root value, view inside the tape);
* `parse_then_forEach_source`: the iterators are those the regenerated `ForEach` hands out — no hypothesis about iterators;
* `accepted_then_read_source`, `acceptedND_then_read_source`: the same from `Spec.containerText … = .accept v` /
  `Spec.ndText … = .accept (.arr vs)` (through `ParseIff.parse_accepts`), results stated on the grammar's value:
  `dst ++ renderJ (ofSpec v)` and `ivalOfJ (ofSpec v)`.
-/
namespace SJ.SourceLevelI
open SJ SJ.Generated SJ.GoSem SJ.GoIter SJ.GoObject SJ.Layout SJ.WalkLayout SJ.ParseDefs SJ.MarshalExact SJ.GoMarshal
open SJ.Lookup (toIVal)
open SJ.GoInterface (goFuel)

/-! ## 1. What the parser gives about sizes -/

/-- every root value of `OkRoots` is `Ok` -/
theorem okRoots_ok {pj : PJ} : ∀ (vs : List LVal) (p : Nat), OkRoots pj vs p → ∀ v ∈ vs, Ok pj v
  | [], _, _, _, hv => by cases hv
  | x :: xs, p, h, v, hv => by
    obtain ⟨q, e, _, hr, rest⟩ := h
    cases hv with
    | head => exact hr.2.2.2.2.1
    | tail _ hv' => exact okRoots_ok xs e rest v hv'

/-- **The tie side conditions hold on every parse result.**  For an input whose trimmed length is below 2^50 (`SizeOK`) and
    that the parser model accepts: the two shared buffers have Go-`int` lengths (`BufOK`), and the tape is shorter than 2^56
    words (hence 2^63).  From `parse_wf`: `len(tape) ≤ 3·n + 2`, `len(Strings.B) ≤ n`, `Message` is the trimmed input. -/
theorem parse_side_conditions (cfg : Cfg) (nd : Bool) (input : Bytes) (pj : PJ) (hsz : SizeOK (trimSpace input))
    (h : parseAny cfg nd input = .ok pj) :
    BufOK pj ∧ pj.tape.size < 2^56 ∧ pj.tape.size < 2^63 ∧ pj.tape.size ≤ 3 * (trimSpace input).size + 2 ∧
      pj.msg = trimSpace input ∧ pj.strings.size ≤ (trimSpace input).size := by
  obtain ⟨_, _, _, _, _, _, _, hmsg, ht, hs⟩ := SJ.ParseWF.parse_wf cfg nd input pj hsz h
  unfold SizeOK at hsz
  refine ⟨⟨by rw [hmsg]; omega, by omega⟩, by omega, by omega, ht, hmsg, hs⟩

/-! ## 2. The document of a parse result -/

/-- **What every parse result holds.**  For every accepted input shorter than 2^50 bytes the tape holds located root values
    `lvs` (`OkRoots`), tight, with finite floats (`FloatsOk`: `SourceLevelIFloats.parse_floatsOk`, an invariant of the
    stage-2 run — the float path of `parseNumber` ends in the correctly rounded `roundDecimal`, whose overflow case is a
    parse error), and `lvs` erased is the document the tape denotes (`WF`) and the reference decoder reads off it. -/
theorem parse_doc (cfg : Cfg) (nd : Bool) (input : Bytes) (pj : PJ) (hsz : SizeOK (trimSpace input))
    (h : parseAny cfg nd input = .ok pj) :
    ∃ lvs : List LVal, OkRoots pj lvs 0 ∧ (∀ v ∈ lvs, Tight v) ∧ (∀ v ∈ lvs, FloatsOk v) ∧ WF pj (lvs.map erase) ∧
      decodeTapeD pj = some ((lvs.map erase).map DecodeSound.toOVal) := by
  obtain ⟨lvs, h1, h2, h3⟩ := SJ.SourceLevelIFloats.parse_floatsOk cfg nd input pj hsz h
  obtain ⟨ds, _, hd, hwf, hds⟩ := SJ.Bridge.owalk_eq_decode pj lvs h1 h2
  exact ⟨lvs, h1, h2, h3, hwf, by rw [hd, hds]⟩

/-! ## 3. E2 — `Interface()` on a parse result -/

/-- **Parse, then `Interface()`, source level (E2).**  ASSUMED: the trimmed input is shorter than 2^50 bytes (`SizeOK`) and
    the parser model (`Parse` or `ParseND`, either string mode) returns the tape `pj`.  CONCLUDED: the tape holds located,
    tight root values `lvs` (erased: the document the reference decoder reads off the tape), and for every root value
    `lv ∈ lvs`, every iterator `it` standing on it with its view inside the tape (`RootIter pj lv it`: what
    `ParsedJson.ForEach` hands out, see `parse_then_forEach_source`) and every interpreter fuel `F ≥ 21·n + 72` (`n` = length
    of the trimmed input), running the regenerated `Iter.Interface` returns `toIVal lv` — objects as maps with the last
    duplicate winning, arrays in order, numbers by their tag — and a nil error, leaves the tape unchanged and the iterator
    where it was.
    Discharged from the parser facts (`parse_side_conditions`): `BufOK pj`, `pj.tape.size < 2^63`, and the tie's fuel
    `goFuel pj (fuelOf pj) = 7·len(tape) + 58 ≤ 21·n + 72`.  Nothing about the tape remains as a hypothesis. -/
theorem parse_then_interface_source (cfg : Cfg) (nd : Bool) (input : Bytes) (pj : PJ) (hsz : SizeOK (trimSpace input))
    (h : parseAny cfg nd input = .ok pj) :
    ∃ lvs : List LVal, OkRoots pj lvs 0 ∧ (∀ v ∈ lvs, Tight v) ∧
      decodeTapeD pj = some ((lvs.map erase).map DecodeSound.toOVal) ∧
      ∀ lv ∈ lvs, ∀ it : Iter, RootIter pj lv it → ∀ F : Nat, 21 * (trimSpace input).size + 72 ≤ F →
        ∃ s, runFun goFuns goIter_Interface F ⟨envOf "i" it ++ bufEnv pj, pj.tape⟩ =
          .ret s [.iface (toIVal lv), .bool false] ∧ s.tape = pj.tape ∧ iterAt s.env "i" = some it := by
  obtain ⟨hb, _, h63, ht, _, _⟩ := parse_side_conditions cfg nd input pj hsz h
  obtain ⟨lvs, h1, h2, _, _, hd⟩ := parse_doc cfg nd input pj hsz h
  refine ⟨lvs, h1, h2, hd, fun lv hlv it ⟨hok, hon, hl⟩ F hF => ?_⟩
  exact SJ.SourceLevelH.source_interface_of_node pj hb h63 lv it hok (h2 lv hlv) hon hl F
    (by unfold goFuel fuelOf; omega)

/-! ## 4. E1 — `MarshalJSONBuffer` on a parse result -/

/-- E1 for one located value with finite floats -/
theorem parse_then_marshal_core (cfg : Cfg) (nd : Bool) (input : Bytes) (pj : PJ) (hsz : SizeOK (trimSpace input))
    (h : parseAny cfg nd input = .ok pj) (lv : LVal) (hfl : FloatsOk lv) (it : Iter) (hr : RootIter pj lv it)
    (dst : Bytes) (F : Nat) (hF : 9 * (trimSpace input).size + 31 ≤ F) :
    ∃ st, runFun goFuns goIter_MarshalJSONBuffer F ⟨initEnv pj it dst, pj.tape⟩ =
        .ret st [.bytes (dst ++ renderJ (erase lv)), .bool false] ∧ st.tape = pj.tape := by
  obtain ⟨hb, _, _, ht, _, _⟩ := parse_side_conditions cfg nd input pj hsz h
  obtain ⟨hok, hon, hl⟩ := hr
  exact (SJ.SourceLevelA.C10_source_marshal_exact pj lv it dst hok hfl hon hb hl F (by omega)).2

/-- **Parse, then `MarshalJSONBuffer`, source level (E1).**  ASSUMED: the trimmed input is shorter than 2^50 bytes (`SizeOK`)
    and the parser model (`Parse` or `ParseND`, either string mode) returns the tape `pj`.  CONCLUDED: the tape holds located,
    tight root values `lvs` (erased: the document the reference decoder reads off the tape), and for every root value
    `lv ∈ lvs`, every iterator `it` standing on it with its view inside the tape (`RootIter pj lv it`), every destination
    `dst` and every interpreter fuel `F ≥ 9·n + 31` (`n` = length of the trimmed input), running the regenerated
    `Iter.MarshalJSONBuffer(dst)` returns `dst ++ renderJ (erase lv)` — the canonical text of that root value, a function
    of the abstract document only — and a nil error; the tape is untouched.
    Discharged from the parser facts: `BufOK pj` (`parse_side_conditions`), `FloatsOk lv` (`parse_doc`: the parser writes
    finite floats only), the tie's fuel `2·len(tape) + lim + 25 ≤ 9·n + 31`.  Nothing about the tape remains as a
    hypothesis. -/
theorem parse_then_marshal_source (cfg : Cfg) (nd : Bool) (input : Bytes) (pj : PJ) (hsz : SizeOK (trimSpace input))
    (h : parseAny cfg nd input = .ok pj) :
    ∃ lvs : List LVal, OkRoots pj lvs 0 ∧ (∀ v ∈ lvs, Tight v) ∧
      decodeTapeD pj = some ((lvs.map erase).map DecodeSound.toOVal) ∧
      ∀ lv ∈ lvs, ∀ it : Iter, RootIter pj lv it → ∀ (dst : Bytes) (F : Nat), 9 * (trimSpace input).size + 31 ≤ F →
        ∃ st, runFun goFuns goIter_MarshalJSONBuffer F ⟨initEnv pj it dst, pj.tape⟩ =
          .ret st [.bytes (dst ++ renderJ (erase lv)), .bool false] ∧ st.tape = pj.tape := by
  obtain ⟨lvs, h1, h2, h3, _, hd⟩ := parse_doc cfg nd input pj hsz h
  exact ⟨lvs, h1, h2, hd, fun lv hlv it hr dst F hF =>
    parse_then_marshal_core cfg nd input pj hsz h lv (h3 lv hlv) it hr dst F hF⟩

/-! ## 5. `ForEach`, then `MarshalJSONBuffer` / `Interface` — no hypothesis about iterators -/

open SJ.GoPJForEach in
/-- **Parse, `ForEach`, then `MarshalJSONBuffer` and `Interface()` on every root, source level.**  ASSUMED: only `SizeOK` and
    that the parser model returns `pj`; a callback answering `nil` at least `3·n + 2` times (`N`), interpreter fuel
    `F ≥ 21·n + 72`.  CONCLUDED: the tape holds root values `lvs` (erased: the document the tape denotes, `WF`, = what the
    reference decoder reads); running the
    regenerated `ParsedJson.ForEach` returns `nil`, leaves the tape alone and hands the callback exactly one iterator per
    root value, in order (`logOf … = encIters its`, `Forall2`); and from each of these iterators (a) the regenerated
    `Iter.MarshalJSONBuffer(dst)` returns `dst ++ renderJ (erase lv)` for every `dst`, (b) the regenerated `Iter.Interface`
    returns `toIVal lv`, both with a nil error and the tape untouched.  Every side condition of the three ties (`BufOK`,
    `len(tape) < 2^63`, views inside the tape, `OnNode`, 56-bit payloads, finite floats, the answers queue and the fuels in
    terms of `len(tape)`) is discharged from the parser facts. -/
theorem parse_then_forEach_source (cfg : Cfg) (nd : Bool) (input : Bytes) (pj : PJ) (hsz : SizeOK (trimSpace input))
    (h : parseAny cfg nd input = .ok pj) (N F : Nat) (hN : 3 * (trimSpace input).size + 2 ≤ N)
    (hF : 21 * (trimSpace input).size + 72 ≤ F) :
    ∃ lvs : List LVal, OkRoots pj lvs 0 ∧ (∀ v ∈ lvs, Tight v) ∧ WF pj (lvs.map erase) ∧
      decodeTapeD pj = some ((lvs.map erase).map DecodeSound.toOVal) ∧
      ∃ s its, runFun goFuns goParsedJson_ForEach F ⟨feStore pj (List.replicate N false), pj.tape⟩ = .ret s [.bool false] ∧
        s.tape = pj.tape ∧ logOf s.env = encIters its ∧
        Forall2 (fun lv it => RootIter pj lv it ∧
          (∀ dst : Bytes, ∃ st, runFun goFuns goIter_MarshalJSONBuffer F ⟨initEnv pj it dst, pj.tape⟩ =
            .ret st [.bytes (dst ++ renderJ (erase lv)), .bool false] ∧ st.tape = pj.tape) ∧
          ∃ s', runFun goFuns goIter_Interface F ⟨envOf "i" it ++ bufEnv pj, pj.tape⟩ =
            .ret s' [.iface (toIVal lv), .bool false] ∧ s'.tape = pj.tape ∧ iterAt s'.env "i" = some it) lvs its := by
  obtain ⟨hb, _, h63, ht, _, _⟩ := parse_side_conditions cfg nd input pj hsz h
  obtain ⟨lvs, h1, h2, h3, hwf, hd⟩ := parse_doc cfg nd input pj hsz h
  obtain ⟨s, its, ho, hst, hlog, hall, _⟩ := SJ.SourceLevelB.C02_source_forEach pj lvs h1 N F (by omega) (by omega)
  refine ⟨lvs, h1, h2, hwf, hd, s, its, ho, hst, hlog, SJ.SourceLevelD.forall2_imp hall fun lv it hlv hr => ⟨hr, fun dst => ?_, ?_⟩⟩
  · exact parse_then_marshal_core cfg nd input pj hsz h lv (h3 lv hlv) it hr dst F (by omega)
  · obtain ⟨hok, hon, hl⟩ := hr
    exact SJ.SourceLevelH.source_interface_of_node pj hb h63 lv it hok (h2 lv hlv) hon hl F
      (by unfold goFuel fuelOf; omega)

/-! ## 6. E3 — Serialize → Deserialize on a parse result -/

open SJ.GoSerialize SJ.GoRebuild in
/-- **Parse, then Serialize → Deserialize, source level (E3).**  ASSUMED: the trimmed input is shorter than 2^26 bytes (64 MiB:
    the bound under which the serialized format's 55-bit string offsets cannot overflow for ANY tape of that input,
    `len(tape)·len(buffers) < 2^55`) and the parser model returns the tape `pj`.  CONCLUDED: `pj` denotes a document `d`
    (`WF pj d`), and for every hash function, every `s.tagsBuf` of 65536 bytes, any `s.valuesBuf` and fuel `F ≥ 3·n + 4`:
    running the regenerated tape loop of `Serialize` falls off its end with the tape untouched, having handed `tags`,
    `values`, `msg` to the block writers; and running the regenerated reconstruction loop of `Deserialize` on those streams
    over ANY prior destination of the declared size (fuel `≥ len + 8`) returns `dst, nil` with a tape that — read with `msg`
    as its `Message` — denotes the same `d`, has the same length and exact NOP skips.
    Discharged from the parser facts: all five tape premises of `C17_source_roundtrip` (`WF`, `len(tape) < 2^56`, the 2^55
    product bound, `BufOK`, `NoMaxLenString` — the last two through `StrShort`: both buffers are at most `n < 2^26` bytes
    long) and the serializer's fuel. -/
theorem parse_then_serialize_roundtrip_source (cfg : Cfg) (nd : Bool) (input : Bytes) (pj : PJ)
    (hsz : (trimSpace input).size < 2^26) (h : parseAny cfg nd input = .ok pj) (hash : Bytes → Nat)
    (tb vb : Bytes) (htb : tb.size = 65536) (F : Nat) (hF : 3 * (trimSpace input).size + 4 ≤ F) :
    ∃ d, WF pj d ∧
    ∃ s tags values msg, runFun goFuns goSerialize_loop F (loopStore pj hash tb vb) = .ret s [] ∧ s.tape = pj.tape ∧
      s.env.get "tagWr.out" = some (.bytes tags) ∧ s.env.get "valWr.out" = some (.bytes values) ∧
      s.env.get "s.stringWr.out" = some (.bytes msg) ∧
      ∀ (init : Array UInt64), init.size = pj.tape.size → ∀ (fuel : Nat), init.size + 8 ≤ fuel →
        ∃ s', runFun goFuns goDeserialize_rebuild fuel (rebStore init tags values) = .ret s' [.bool true, .bool false] ∧
          WF { tape := s'.tape, strings := #[], msg := msg } d ∧ s'.tape.size = pj.tape.size ∧
          nopsExact { tape := s'.tape, strings := #[], msg := msg } = none := by
  have hsz' : SizeOK (trimSpace input) := by unfold SizeOK; omega
  obtain ⟨lvs, _, _, _, hwf, _, _, hmsg, ht, hs⟩ := SJ.ParseWF.parse_wf cfg nd input pj hsz' h
  have hshort : StrShort pj := ⟨by omega, by rw [hmsg]; omega⟩
  have hmax : max pj.msg.size pj.strings.size ≤ (trimSpace input).size := by
    rw [hmsg]; exact Nat.max_le.mpr ⟨Nat.le_refl _, hs⟩
  have hb : pj.tape.size * max pj.msg.size pj.strings.size < 2^55 := by
    have h1 : pj.tape.size * max pj.msg.size pj.strings.size ≤ (3 * (trimSpace input).size + 2) * (trimSpace input).size :=
      Nat.mul_le_mul ht hmax
    have h2 : (3 * (trimSpace input).size + 2) * (trimSpace input).size ≤ (3 * 2^26 + 2) * 2^26 :=
      Nat.mul_le_mul (by omega) (by omega)
    have h3 : (3 * 2^26 + 2) * 2^26 < 2^55 := by decide
    omega
  exact ⟨_, hwf, SJ.SourceLevelB.C17_source_roundtrip pj _ hash hwf (by omega) hb hshort.bufOK hshort.noMax tb vb htb F
    (by omega)⟩

/-! ## 7. From the accepted TEXT: `Spec.containerText` / `Spec.ndText` → `Parse` → `ForEach` → `MarshalJSONBuffer` / `Interface` -/

mutual
/-- the Go `interface{}` value of an abstract document (what `toIVal` computes, without the tape positions): objects are
    maps — members inserted in order, a later duplicate key replaces the earlier entry -/
def ivalOfJ : JVal → IVal
  | .null => .null
  | .bool b => .bool b
  | .int w => .int (toInt64 w)
  | .uint w => .uint w.toNat
  | .float b _ => .float b
  | .str s => .str s.toArray
  | .arr es => .arr (ivalsOfJ es)
  | .obj ms => .obj ((imemsOfJ ms).foldl (fun m kv => mapInsert m kv.1 kv.2) [])
def ivalsOfJ : JVals → List IVal
  | .nil => []
  | .cons v vs => ivalOfJ v :: ivalsOfJ vs
def imemsOfJ : JMems → List (Bytes × IVal)
  | .nil => []
  | .cons k v ms => (k.toArray, ivalOfJ v) :: imemsOfJ ms
end

open SJ.Lookup (toIVals toIMems) in
mutual
theorem toIVal_erase : ∀ v : LVal, toIVal v = ivalOfJ (erase v)
  | .null _ => rfl
  | .bool _ _ => rfl
  | .int _ _ => rfl
  | .uint _ _ => rfl
  | .float _ _ _ => rfl
  | .str _ _ => rfl
  | .arr _ _ es => by simp only [toIVal, erase, ivalOfJ, toIVals_erase es]
  | .obj _ _ ms => by simp only [toIVal, erase, ivalOfJ, toIMems_erase ms]
theorem toIVals_erase : ∀ vs : LVals, toIVals vs = ivalsOfJ (eraseVals vs)
  | .nil => rfl
  | .cons v vs => by simp only [toIVals, eraseVals, ivalsOfJ, toIVal_erase v, toIVals_erase vs]
theorem toIMems_erase : ∀ ms : LMems, toIMems ms = imemsOfJ (eraseMems ms)
  | .nil => rfl
  | .cons _ k v ms => by simp only [toIMems, eraseMems, imemsOfJ, toIVal_erase v, toIMems_erase ms]
end

/-- transport of a pointwise relation along `map f l = map g l'` -/
theorem forall2_transport {α β γ δ : Type} {R : α → γ → Prop} {S : β → γ → Prop} (f : α → δ) (g : β → δ)
    (hRS : ∀ a b c, f a = g b → R a c → S b c) :
    ∀ {l : List α} {its : List γ}, Forall2 R l its → ∀ l' : List β, l.map f = l'.map g → Forall2 S l' its := by
  intro l its h
  induction h with
  | nil =>
    intro l' hl
    cases l' with
    | nil => exact Forall2.nil
    | cons _ _ => simp at hl
  | cons hab _ ih =>
    intro l' hl
    cases l' with
    | nil => simp at hl
    | cons b bs =>
      simp only [List.map_cons, List.cons.injEq] at hl
      exact Forall2.cons (hRS _ _ _ hl.1 hab) (ih bs hl.2)

open SJ.TrimEdge in
/-- **The located document of an accepted text.**  If the RFC grammar accepts the (white-space-trimmed) text as `v`, `Parse`
    succeeds and its tape holds exactly one root value `lv`, tight, with finite floats, whose content is `ofSpec v`. -/
theorem accepted_doc (cfg : Cfg) (input : Bytes) (he : EdgeOK input) (hsz : SizeOK (trimSpace input)) (v : Spec.JVal)
    (h : Spec.containerText (jsonTrim input).toList = .accept v) :
    ∃ pj lv, parse cfg input = .ok pj ∧ OkRoots pj [lv] 0 ∧ Tight lv ∧ FloatsOk lv ∧ erase lv = ofSpec v ∧
      WF pj [ofSpec v] := by
  obtain ⟨pj, _, hp, _, _, _, _, hwf, _, _⟩ := SJ.ParseIff.parse_accepts cfg input he hsz v h
  obtain ⟨lvs, h1, h2, h3, hwf', _⟩ := parse_doc cfg false input pj hsz hp
  have he := SJ.DecodeSound.wf_unique pj _ _ hwf' hwf
  match lvs, h1, h2, h3, he with
  | [lv], h1, h2, h3, he =>
    simp only [List.map_cons, List.map_nil, List.cons.injEq, and_true] at he
    exact ⟨pj, lv, hp, h1, h2 lv (List.mem_cons_self ..), h3 lv (List.mem_cons_self ..), he, hwf⟩
  | [], _, _, _, he => simp at he
  | _ :: _ :: _, _, _, _, he => simp at he

open SJ.TrimEdge SJ.GoPJForEach in
/-- **Accepted text → `Parse` → `ForEach` → `MarshalJSONBuffer` / `Interface()`, source level.**  ASSUMED, about the INPUT
    only: its trimmed length `n` is below 2^50 (`SizeOK`), Go's `bytes.TrimSpace` and the JSON white-space trim agree on it
    (`EdgeOK`: true whenever the first and last remaining bytes are plain ASCII, as for every container text), and the RFC
    8259 grammar accepts the trimmed text as the document `v` (`Spec.containerText`).  Plus: a callback answering `nil`
    `N ≥ 3·n + 2` times and interpreter fuel `F ≥ 21·n + 72`.
    CONCLUDED: the parser model returns a tape `pj` denoting exactly `ofSpec v`; running the regenerated `ParsedJson.ForEach`
    on it returns `nil` and hands the callback exactly one iterator `it`; running the regenerated
    `Iter.MarshalJSONBuffer(dst)` from `it` returns, for every `dst`, `dst ++ renderJ (ofSpec v)` — the canonical text of
    the value the grammar assigned to the input — and running the regenerated `Iter.Interface` from `it` returns
    `ivalOfJ (ofSpec v)` — that value as Go `interface{}` data, maps with the last duplicate winning; both with a nil
    error and the tape untouched.  No hypothesis about the tape, the buffers or the iterator remains. -/
theorem accepted_then_read_source (cfg : Cfg) (input : Bytes) (he : EdgeOK input) (hsz : SizeOK (trimSpace input))
    (v : Spec.JVal) (h : Spec.containerText (jsonTrim input).toList = .accept v) :
    ∃ pj, parse cfg input = .ok pj ∧ WF pj [ofSpec v] ∧
      ∀ (N F : Nat), 3 * (trimSpace input).size + 2 ≤ N → 21 * (trimSpace input).size + 72 ≤ F →
        ∃ s it, runFun goFuns goParsedJson_ForEach F ⟨feStore pj (List.replicate N false), pj.tape⟩ = .ret s [.bool false] ∧
          s.tape = pj.tape ∧ logOf s.env = encIter it ∧
          (∀ dst : Bytes, ∃ st, runFun goFuns goIter_MarshalJSONBuffer F ⟨initEnv pj it dst, pj.tape⟩ =
            .ret st [.bytes (dst ++ renderJ (ofSpec v)), .bool false] ∧ st.tape = pj.tape) ∧
          ∃ s', runFun goFuns goIter_Interface F ⟨envOf "i" it ++ bufEnv pj, pj.tape⟩ =
            .ret s' [.iface (ivalOfJ (ofSpec v)), .bool false] ∧ s'.tape = pj.tape ∧ iterAt s'.env "i" = some it := by
  obtain ⟨pj, lv, hp, hroots, htight, hfl, her, hwf⟩ := accepted_doc cfg input he hsz v h
  refine ⟨pj, hp, hwf, fun N F hN hF => ?_⟩
  obtain ⟨hb, _, h63, ht, _, _⟩ := parse_side_conditions cfg false input pj hsz hp
  obtain ⟨s, its, ho, hst, hlog, hall, _⟩ := SJ.SourceLevelB.C02_source_forEach pj [lv] hroots N F (by omega) (by omega)
  cases hall with
  | cons hab htl =>
    cases htl
    rename_i it
    refine ⟨s, it, ho, hst, by rw [hlog]; simp [encIters], fun dst => ?_, ?_⟩
    · rw [← her]
      exact parse_then_marshal_core cfg false input pj hsz hp lv hfl it hab dst F (by omega)
    · obtain ⟨hok, hon, hl⟩ := hab
      rw [← her, ← toIVal_erase]
      exact SJ.SourceLevelH.source_interface_of_node pj hb h63 lv it hok htight hon hl F
        (by unfold goFuel fuelOf; omega)

open SJ.TrimEdge SJ.GoPJForEach in
/-- **The same for newline-delimited input** (`ParseND`): if the per-line grammar `Spec.ndText` accepts the trimmed text as
    the documents `vs` (one per non-blank line), `ParseND` returns a tape denoting `vs.map ofSpec`, the regenerated `ForEach`
    hands out exactly one iterator per document, in order, and from the iterator of the document `v` the regenerated
    `Iter.MarshalJSONBuffer(dst)` returns `dst ++ renderJ (ofSpec v)` and the regenerated `Iter.Interface` returns
    `ivalOfJ (ofSpec v)`.  Hypotheses about the input, the answers queue and fuel only, as above. -/
theorem acceptedND_then_read_source (cfg : Cfg) (input : Bytes) (he : EdgeOK input) (hsz : SizeOK (trimSpace input))
    (vs : List Spec.JVal) (h : Spec.ndText (jsonTrim input).toList = .accept (.arr vs)) :
    ∃ pj, parseND cfg input = .ok pj ∧ WF pj (vs.map ofSpec) ∧
      ∀ (N F : Nat), 3 * (trimSpace input).size + 2 ≤ N → 21 * (trimSpace input).size + 72 ≤ F →
        ∃ s its, runFun goFuns goParsedJson_ForEach F ⟨feStore pj (List.replicate N false), pj.tape⟩ = .ret s [.bool false] ∧
          s.tape = pj.tape ∧ logOf s.env = encIters its ∧
          Forall2 (fun v it =>
            (∀ dst : Bytes, ∃ st, runFun goFuns goIter_MarshalJSONBuffer F ⟨initEnv pj it dst, pj.tape⟩ =
              .ret st [.bytes (dst ++ renderJ (ofSpec v)), .bool false] ∧ st.tape = pj.tape) ∧
            ∃ s', runFun goFuns goIter_Interface F ⟨envOf "i" it ++ bufEnv pj, pj.tape⟩ =
              .ret s' [.iface (ivalOfJ (ofSpec v)), .bool false] ∧ s'.tape = pj.tape ∧ iterAt s'.env "i" = some it)
            vs its := by
  obtain ⟨pj, _, hp, _, _, _, _, hwf, _⟩ := SJ.ParseIff.parseND_accepts cfg input he hsz vs h
  refine ⟨pj, hp, hwf, fun N F hN hF => ?_⟩
  obtain ⟨lvs, _, _, hwf', _, s, its, ho, hst, hlog, hall⟩ := parse_then_forEach_source cfg true input pj hsz hp N F hN hF
  have he := SJ.DecodeSound.wf_unique pj _ _ hwf' hwf
  refine ⟨s, its, ho, hst, hlog, forall2_transport erase ofSpec ?_ hall vs he⟩
  intro lv v it hlv ⟨_, hm, hi⟩
  rw [← hlv, ← toIVal_erase]
  exact ⟨hm, hi⟩

end SJ.SourceLevelI

#print axioms SJ.SourceLevelI.parse_side_conditions
#print axioms SJ.SourceLevelI.parse_doc
#print axioms SJ.SourceLevelI.parse_then_marshal_source
#print axioms SJ.SourceLevelI.parse_then_interface_source
#print axioms SJ.SourceLevelI.parse_then_forEach_source
#print axioms SJ.SourceLevelI.parse_then_serialize_roundtrip_source
#print axioms SJ.SourceLevelI.accepted_then_read_source
#print axioms SJ.SourceLevelI.acceptedND_then_read_source
