import SJ.Proofs.Numeric
import SJ.Proofs.FloatFmt
/-
`roundPos` analysed in exact integer arithmetic (no rationals).

* `roundPos_shl`, `roundPos_shr`: the two branches of `roundPos` in closed form (`rndS`).
* `roundPos_double`, `roundPos_scale`: `roundPos (n·2^j) (e−j) false = roundPos n e false`.
* `roundPos_sticky`: `roundPos n e true = roundPos (2n+1) (e−1) false` when bits are shifted out.
* `rnd_eq_of_interval` (Lemma R) and `roundPos_interval` (interval form of correct rounding, T2').
-/
namespace SJ.F64Round
open SJ SJ.F64 SJ.Numeric

/-! ## 1. `roundPos` in closed form -/

/-- round `(n+ε)/2^s` to nearest, ties to even (`s ≥ 1`; ε > 0 iff `st`) -/
def rndS (n s : Nat) (st : Bool) : Nat :=
  if n % 2^s > 2^(s-1) then n / 2^s + 1
  else if n % 2^s < 2^(s-1) then n / 2^s
  else if st || (n / 2^s % 2 == 1) then n / 2^s + 1 else n / 2^s

/-- round `n/2^s` to nearest, ties to even -/
def rnd (n s : Nat) : Nat := rndS n s false

/-- the exponent `roundPos` selects -/
def etOf (n : Nat) (e : Int) : Int := max (e + ((n.log2 + 1 : Nat) : Int) - 53) (-1074)

theorem roundPos_shl (n : Nat) (e : Int) (st : Bool) (h0 : n ≠ 0) (h : etOf n e ≤ e) :
    roundPos n e st = finish (n * 2 ^ (e - etOf n e).toNat) (etOf n e) := by
  apply roundPos_eq n e st h0 (etOf n e) (etOf n e - e) (n * 2 ^ (e - etOf n e).toNat) _ false
  · rfl
  · rfl
  · rw [if_pos (by omega), Nat.shiftLeft_eq]
    congr 2; omega
  · rw [if_pos (by omega)]
  · simp

theorem roundPos_shr (n : Nat) (e : Int) (st : Bool) (h0 : n ≠ 0) (h : e < etOf n e) :
    roundPos n e st = finish (rndS n (etOf n e - e).toNat st) (etOf n e) := by
  have hs : ¬ (etOf n e - e ≤ 0) := by omega
  apply roundPos_eq n e st h0 (etOf n e) (etOf n e - e) (n >>> (etOf n e - e).toNat) _ _
  · rfl
  · rfl
  · rw [if_neg hs]
  · rfl
  · rw [if_neg hs]
    simp only [Nat.shiftRight_eq_div_pow]
    unfold rndS
    generalize n % 2 ^ (etOf n e - e).toNat = r
    generalize 2 ^ ((etOf n e - e).toNat - 1) = hf
    generalize n / 2 ^ (etOf n e - e).toNat = q
    by_cases c1 : r > hf
    · simp [c1]
    · by_cases c2 : r < hf
      · simp [c1, c2]
      · simp only [c1, c2, if_false]

/-! ## 2. `log2` -/

theorem two_pow_pos (a : Nat) : 0 < 2 ^ a := Nat.pow_pos (by decide)

theorem log2_eq_of_bounds {n a : Nat} (h1 : 2 ^ a ≤ n) (h2 : n < 2 ^ (a + 1)) : n.log2 = a := by
  have h0 : n ≠ 0 := by have := two_pow_pos a; omega
  have := (Nat.le_log2 h0).mpr h1
  have := (Nat.log2_lt h0).mpr h2
  omega

theorem log2_double (n : Nat) (h0 : n ≠ 0) : (2 * n).log2 = n.log2 + 1 := by
  obtain ⟨h1, h2⟩ := log2_bounds n h0
  apply log2_eq_of_bounds
  · rw [Nat.pow_succ]; omega
  · rw [Nat.pow_succ]; omega

theorem log2_double1 (n : Nat) (h0 : n ≠ 0) : (2 * n + 1).log2 = n.log2 + 1 := by
  obtain ⟨h1, h2⟩ := log2_bounds n h0
  apply log2_eq_of_bounds
  · rw [Nat.pow_succ]; omega
  · rw [Nat.pow_succ]; omega

theorem etOf_double (n : Nat) (e : Int) (h0 : n ≠ 0) : etOf (2 * n) (e - 1) = etOf n e := by
  unfold etOf; rw [log2_double n h0]; omega

theorem etOf_double1 (n : Nat) (e : Int) (h0 : n ≠ 0) : etOf (2 * n + 1) (e - 1) = etOf n e := by
  unfold etOf; rw [log2_double1 n h0]; omega

/-! ## 3. Scaling and the sticky bit -/

theorem pow_pred_double (s : Nat) (hs : 1 ≤ s) : 2 ^ s = 2 * 2 ^ (s - 1) := by
  rw [← Nat.pow_succ']; congr 1; omega

/-- one more (zero or sticky) bit below does not change the rounding -/
theorem rndS_double (n s : Nat) (st : Bool) (hs : 1 ≤ s) :
    rnd (2 * n + st.toNat) (s + 1) = rndS n s st := by
  have hp := two_pow_pos (s - 1)
  have e1 : 2 ^ (s + 1) = 2 * 2 ^ s := by rw [Nat.pow_succ']
  have e2 : 2 ^ s = 2 * 2 ^ (s - 1) := pow_pred_double s hs
  have hb : st.toNat < 2 := by cases st <;> decide
  have hq : (2 * n + st.toNat) / 2 ^ (s + 1) = n / 2 ^ s := by
    rw [e1, ← Nat.div_div_eq_div_mul]
    congr 1; omega
  have hr : (2 * n + st.toNat) % 2 ^ (s + 1) = 2 * (n % 2 ^ s) + st.toNat := by
    have h1 := Nat.div_add_mod (2 * n + st.toNat) (2 ^ (s + 1))
    have h2 := Nat.div_add_mod n (2 ^ s)
    rw [hq] at h1
    generalize (2 * n + st.toNat) % (2 ^ (s + 1)) = X at *
    rw [e1] at h1
    generalize n % 2 ^ s = r at *
    generalize n / 2 ^ s = q at *
    generalize 2 ^ s = P at *
    have : 2 * P * q = 2 * (P * q) := by rw [Nat.mul_assoc]
    omega
  unfold rnd rndS
  rw [hq, hr, Nat.add_sub_cancel]
  have hrl : n % 2 ^ s < 2 ^ s := Nat.mod_lt _ (two_pow_pos s)
  generalize n % 2 ^ s = r at *
  generalize n / 2 ^ s = q
  rw [e2] at hrl ⊢
  generalize 2 ^ (s - 1) = hf at *
  cases st
  · simp only [Bool.toNat_false, Nat.add_zero, Bool.false_or]
    by_cases c1 : r > hf
    · have : 2 * r > 2 * hf := by omega
      simp [c1, this]
    · by_cases c2 : r < hf
      · have a1 : ¬ 2 * r > 2 * hf := by omega
        have a2 : 2 * r < 2 * hf := by omega
        simp [c1, c2, a1, a2]
      · have a1 : ¬ 2 * r > 2 * hf := by omega
        have a2 : ¬ 2 * r < 2 * hf := by omega
        simp [c1, c2, a1, a2]
  · simp only [Bool.toNat_true, Bool.true_or, if_true]
    by_cases c1 : r > hf
    · have : 2 * r + 1 > 2 * hf := by omega
      simp [c1, this]
    · by_cases c2 : r < hf
      · have a1 : ¬ 2 * r + 1 > 2 * hf := by omega
        have a2 : 2 * r + 1 < 2 * hf := by omega
        simp [c1, c2, a1, a2]
      · have a1 : 2 * r + 1 > 2 * hf := by omega
        simp [c1, c2, a1]

/-- **sticky bit**: when at least one bit is shifted out, `(n+ε)·2^e` rounds like `(2n+1)·2^(e−1)`. -/
theorem roundPos_sticky (n : Nat) (e : Int) (st : Bool) (h0 : n ≠ 0) (h : e < etOf n e) :
    roundPos n e st = roundPos (2 * n + st.toNat) (e - 1) false := by
  have h0' : 2 * n + st.toNat ≠ 0 := by omega
  have het : etOf (2 * n + st.toNat) (e - 1) = etOf n e := by
    cases st
    · simpa using etOf_double n e h0
    · simpa using etOf_double1 n e h0
  rw [roundPos_shr n e st h0 h, roundPos_shr _ _ false h0' (by omega), het]
  have : (etOf n e - (e - 1)).toNat = (etOf n e - e).toNat + 1 := by omega
  rw [this]
  exact congrArg (fun x => finish x _) (rndS_double n _ st (by omega)).symm

theorem rnd_one_double (n : Nat) : rnd (2 * n) 1 = n := by
  unfold rnd rndS
  have h1 : 2 * n % 2 ^ 1 = 0 := by omega
  have h2 : 2 * n / 2 ^ 1 = n := by omega
  rw [h1, h2]
  simp

/-- `roundPos` depends only on the value `n·2^e` (one step) -/
theorem roundPos_double (n : Nat) (e : Int) (h0 : n ≠ 0) :
    roundPos (2 * n) (e - 1) false = roundPos n e false := by
  have h0' : 2 * n ≠ 0 := by omega
  have het := etOf_double n e h0
  by_cases h : e < etOf n e
  · have := roundPos_sticky n e false h0 h
    simpa using this.symm
  · by_cases h' : etOf n e = e
    · rw [roundPos_shl n e false h0 (by omega), roundPos_shr _ _ false h0' (by omega), het]
      have e1 : (etOf n e - (e - 1)).toNat = 1 := by omega
      have e2 : (e - etOf n e).toNat = 0 := by omega
      rw [e1, e2]
      have := rnd_one_double n
      unfold rnd at this
      rw [this]; simp
    · rw [roundPos_shl n e false h0 (by omega), roundPos_shl _ _ false h0' (by omega), het]
      have e1 : (e - etOf n e).toNat = (e - 1 - etOf n e).toNat + 1 := by omega
      rw [e1, Nat.pow_succ]
      congr 1
      rw [Nat.mul_comm (2 ^ _) 2, ← Nat.mul_assoc, Nat.mul_comm n 2]

theorem roundPos_scale (n j : Nat) (e : Int) (h0 : n ≠ 0) :
    roundPos (n * 2 ^ j) (e - j) false = roundPos n e false := by
  induction j generalizing e with
  | zero => simp
  | succ j ih =>
    have hp := two_pow_pos j
    have h1 : n * 2 ^ j ≠ 0 := Nat.mul_ne_zero h0 (by omega)
    have e1 : n * 2 ^ (j + 1) = 2 * (n * 2 ^ j) := by rw [Nat.pow_succ]; ac_rfl
    have e2 : e - ((j + 1 : Nat) : Int) = (e - (j : Int)) - 1 := by omega
    rw [e1, e2, roundPos_double _ _ h1, ih]

/-! ## 4. Lemma R -/

/-- rounding `n/2^s` gives `q` when `n` lies between `(q−½)·2^s` and `(q+½)·2^s` (ends only for even `q`) -/
theorem rnd_eq_of_interval (n s q H P : Nat) (hs : 1 ≤ s) (hq : 1 ≤ q)
    (hH : 2 ^ s = 2 * H) (hP : P = q * H)
    (hlo : 2 * P ≤ n + H) (hhi : n ≤ 2 * P + H)
    (hodd : q % 2 = 1 → 2 * P < n + H ∧ n < 2 * P + H) : rnd n s = q := by
  have hH' : 2 ^ (s - 1) = H := by have := pow_pred_double s hs; omega
  have hHpos : 0 < H := by rw [← hH']; exact two_pow_pos _
  obtain ⟨q', rfl⟩ : ∃ q', q = q' + 1 := ⟨q - 1, by omega⟩
  have e1 : (q' + 1) * H = q' * H + H := by rw [Nat.add_mul, Nat.one_mul]
  have e2 : q' * (2 * H) = 2 * (q' * H) := by ac_rfl
  have e3 : (q' + 1) * (2 * H) = 2 * (q' * H) + 2 * H := by rw [Nat.add_mul, Nat.one_mul, e2]
  have e4 : (q' + 1 + 1) * (2 * H) = 2 * (q' * H) + 4 * H := by rw [Nat.add_mul, Nat.one_mul, e3]; omega
  have e5 : 2 * H * q' = 2 * (q' * H) := by ac_rfl
  have e6 : 2 * H * (q' + 1) = 2 * (q' * H) + 2 * H := by rw [Nat.mul_comm, e3]
  rw [e1] at hP
  unfold rnd rndS
  rw [hH', hH]
  have hdm := Nat.div_add_mod n (2 * H)
  by_cases c : n < 2 * P
  · have hk : n / (2 * H) = q' := by
      apply Nat.div_eq_of_lt_le
      · rw [e2]; omega
      · rw [e3]; omega
    rw [hk] at hdm ⊢
    rw [e5] at hdm
    generalize n % (2 * H) = r at *
    generalize q' * H = Q at *
    simp only [Bool.false_or, beq_iff_eq]
    split
    · rfl
    · split
      · omega
      · split
        · rfl
        · omega
  · have hk : n / (2 * H) = q' + 1 := by
      apply Nat.div_eq_of_lt_le
      · rw [e3]; omega
      · rw [e4]; omega
    rw [hk] at hdm ⊢
    rw [e6] at hdm
    generalize n % (2 * H) = r at *
    generalize q' * H = Q at *
    simp only [Bool.false_or, beq_iff_eq]
    split
    · omega
    · split
      · rfl
      · split
        · omega
        · rfl

/-! ## 5. Interval form of correct rounding -/

/-- mantissa, exponent of the finite non-negative binary64 with biased exponent `ex`, fraction `fr` -/
def mantOf (ex fr : Nat) : Nat := if ex = 0 then fr else fr + 2 ^ 52
def expOf (ex : Nat) : Int := if ex = 0 then -1074 else (ex : Int) - 1075
/-- the lower neighbour is half as far -/
def lcOf (ex fr : Nat) : Bool := fr == 0 && decide (ex > 1)
/-- the half-way points to the neighbours, in units of `2^(expOf ex − 2)` -/
def loNum (ex fr : Nat) : Nat := if lcOf ex fr then 4 * mantOf ex fr - 1 else 4 * mantOf ex fr - 2
def hiNum (ex fr : Nat) : Nat := 4 * mantOf ex fr + 2
def bitsOf (ex fr : Nat) : UInt64 := UInt64.ofNat (ex * 2 ^ 52 + fr)

theorem finish_sub (fr : Nat) (h : fr < 2 ^ 52) : finish fr (-1074) = some (bitsOf 0 fr) := by
  rw [finish_split, if_neg (by omega)]
  unfold finish2 bitsOf
  rw [if_pos h]; simp

theorem finish_norm (ex m : Nat) (h1 : 1 ≤ ex) (h2 : ex < 2047) (hm : 2 ^ 52 ≤ m) (hm2 : m < 2 ^ 53) :
    finish m ((ex : Int) - 1075) = some (bitsOf ex (m - 2 ^ 52)) := by
  rw [finish_split, if_neg (by omega)]
  unfold finish2 bitsOf
  rw [if_neg (by omega), if_neg (by omega)]
  have : ((ex : Int) - 1075 + 1075).toNat = ex := by omega
  rw [this]

theorem finish_carry (ex : Nat) (h1 : 2 ≤ ex) (h2 : ex < 2047) :
    finish (2 ^ 53) ((ex : Int) - 1075 - 1) = some (bitsOf ex 0) := by
  rw [finish_split, if_pos rfl]
  have : (ex : Int) - 1075 - 1 + 1 = (ex : Int) - 1075 := by omega
  rw [this, ← finish_norm ex (2 ^ 52) (by omega) h2 (Nat.le_refl _) (by decide)]
  rw [finish_split, if_neg (by decide)]

theorem etOf_eq (n a : Nat) (e : Int) (h1 : 2 ^ a ≤ n) (h2 : n < 2 ^ (a + 1)) :
    etOf n e = max (e + a - 52) (-1074) := by
  unfold etOf; rw [log2_eq_of_bounds h1 h2]; omega

theorem etOf_sub (n a : Nat) (e : Int) (h0 : n ≠ 0) (h2 : n < 2 ^ a) (he : e + a - 53 ≤ -1074) :
    etOf n e = -1074 := by
  have := (Nat.log2_lt h0).mpr h2
  unfold etOf; omega

/-- **Interval form of correct rounding** (T2'): every `n·2^e` between the half-way points to the neighbours
    of the finite positive binary64 `(ex, fr)` rounds to it; the half-way points themselves do when the
    mantissa is even.  `e` is at least two binary places below the exponent of the float
    (`roundPos_scale` provides this). -/
theorem roundPos_interval (ex fr n t : Nat) (e : Int) (hex : ex < 2047) (hfr : fr < 2 ^ 52)
    (hne : mantOf ex fr ≠ 0) (he : e = expOf ex - ((t + 2 : Nat) : Int))
    (hlo : loNum ex fr * 2 ^ t ≤ n) (hhi : n ≤ hiNum ex fr * 2 ^ t)
    (hodd : mantOf ex fr % 2 = 1 → loNum ex fr * 2 ^ t < n ∧ n < hiNum ex fr * 2 ^ t) :
    roundPos n e false = some (bitsOf ex fr) := by
  have hHpos := two_pow_pos t
  have p1 : 2 ^ (t + 1) = 2 * 2 ^ t := by rw [Nat.pow_succ]; omega
  have p2 : 2 ^ (t + 2) = 2 * (2 * 2 ^ t) := by rw [Nat.pow_succ, p1]; omega
  have p52 : 2 ^ (52 + t + 1) = 2 ^ 53 * 2 ^ t := by rw [← Nat.pow_add]; congr 1; omega
  have p53 : 2 ^ (53 + t + 1) = 2 ^ 54 * 2 ^ t := by rw [← Nat.pow_add]; congr 1; omega
  have p54 : 2 ^ (54 + t + 1) = 2 ^ 55 * 2 ^ t := by rw [← Nat.pow_add]; congr 1; omega
  generalize hH : 2 ^ t = H at *
  have hmul : ∀ a : Nat, (4 * a + 2) * H = 4 * (a * H) + 2 * H := by
    intro a; rw [Nat.add_mul, Nat.mul_assoc]
  have hmul1 : ∀ a : Nat, 1 ≤ a → (4 * a - 1) * H = 4 * (a * H) - H := by
    intro a _; rw [Nat.sub_mul, Nat.mul_assoc, Nat.one_mul]
  have hmul2 : ∀ a : Nat, 1 ≤ a → (4 * a - 2) * H = 4 * (a * H) - 2 * H := by
    intro a _; rw [Nat.sub_mul, Nat.mul_assoc]
  have hmul3 : ∀ a : Nat, a * (2 * H) = 2 * (a * H) := by intro a; ac_rfl
  by_cases h0 : ex = 0
  · -- subnormal
    subst h0
    simp only [mantOf, if_true] at hne hodd
    simp only [loNum, hiNum, lcOf, mantOf, expOf, if_true, Bool.and_eq_true, decide_eq_true_eq,
      and_false, if_false, gt_iff_lt,
      show ¬ (0 > 1) by decide] at hlo hhi hodd he
    rw [hmul] at hhi hodd
    rw [hmul2 _ (by omega)] at hlo hodd
    have hP1 : H ≤ fr * H := Nat.le_mul_of_pos_left H (by omega)
    have hP2 : fr * H + H ≤ 2 ^ 52 * H := by
      have : (fr + 1) * H ≤ 2 ^ 52 * H := Nat.mul_le_mul_right H (by omega)
      rw [Nat.add_mul, Nat.one_mul] at this; exact this
    generalize hP : fr * H = P at *
    have hn0 : n ≠ 0 := by omega
    have het : etOf n e = -1074 := by
      apply etOf_sub n (53 + t + 1) e hn0
      · rw [p53]; omega
      · omega
    have hsh : (etOf n e - e).toNat = t + 2 := by omega
    rw [roundPos_shr n e false hn0 (by omega), hsh, het]
    have := rnd_eq_of_interval n (t + 2) fr (2 * H) (2 * P) (by omega) (by omega) p2
      (by rw [← hP, hmul3]) (by omega) (by omega) (by omega)
    unfold rnd at this
    rw [this, finish_sub fr hfr]
  · -- normal
    have hex1 : 1 ≤ ex := by omega
    have hexp : expOf ex = (ex : Int) - 1075 := by simp [expOf, h0]
    rw [hexp] at he
    simp only [mantOf, h0, if_false] at hne hodd
    simp only [hiNum, mantOf, h0, if_false] at hhi hodd
    rw [hmul] at hhi hodd
    have hP1 : 2 ^ 52 * H ≤ (fr + 2 ^ 52) * H := Nat.mul_le_mul_right H (by omega)
    have hP2 : (fr + 2 ^ 52) * H + H ≤ 2 ^ 53 * H := by
      have : (fr + 2 ^ 52 + 1) * H ≤ 2 ^ 53 * H := Nat.mul_le_mul_right H (by omega)
      rw [Nat.add_mul _ 1, Nat.one_mul] at this; exact this
    have hP3 : fr ≠ 0 → 2 ^ 52 * H + H ≤ (fr + 2 ^ 52) * H := by
      intro hf
      have : (2 ^ 52 + 1) * H ≤ (fr + 2 ^ 52) * H := Nat.mul_le_mul_right H (by omega)
      rw [Nat.add_mul _ 1, Nat.one_mul] at this; exact this
    have hP4 : fr = 0 → (fr + 2 ^ 52) * H = 2 ^ 52 * H := by intro hf; rw [hf, Nat.zero_add]
    have hmant : (fr + 2 ^ 52) * (2 * H) = 2 * ((fr + 2 ^ 52) * H) := hmul3 _
    -- the generic case: `n` has the same binade as the float
    have upper : 2 ^ 54 * H ≤ n → 4 * ((fr + 2 ^ 52) * H) ≤ n + 2 * H →
        ((fr + 2 ^ 52) % 2 = 1 → 4 * ((fr + 2 ^ 52) * H) < n + 2 * H) →
        roundPos n e false = some (bitsOf ex fr) := by
      intro hge hl hls
      generalize hP : (fr + 2 ^ 52) * H = P at *
      have hn0 : n ≠ 0 := by omega
      have het : etOf n e = (ex : Int) - 1075 := by
        rw [etOf_eq n (54 + t) e (by rw [Nat.pow_add, hH]; exact hge) (by rw [p54]; omega)]
        omega
      have hsh : (etOf n e - e).toNat = t + 2 := by omega
      rw [roundPos_shr n e false hn0 (by omega), hsh, het]
      have := rnd_eq_of_interval n (t + 2) (fr + 2 ^ 52) (2 * H) (2 * P) (by omega) (by omega) p2
        (by rw [← hP, hmul3]) (by omega) (by omega) (by omega)
      unfold rnd at this
      rw [this, finish_norm ex _ hex1 hex (by omega) (by omega), Nat.add_sub_cancel]
    by_cases hfr0 : fr = 0
    · have hPe := hP4 hfr0
      by_cases hup : 2 ^ 54 * H ≤ n
      · exact upper hup (by omega) (by omega)
      · by_cases hx : 1 < ex
        · -- the lower neighbour is in the binade below: exponent one less, mantissa carries to 2^53
          have hlc : lcOf ex fr = true := by simp [lcOf, hfr0, hx]
          simp only [loNum, hlc, if_true, mantOf, h0, if_false] at hlo
          rw [hmul1 _ (by omega)] at hlo
          have hn0 : n ≠ 0 := by omega
          have het : etOf n e = (ex : Int) - 1075 - 1 := by
            rw [etOf_eq n (53 + t) e (by rw [Nat.pow_add, hH]; omega) (by rw [p53]; omega)]
            omega
          have hsh : (etOf n e - e).toNat = t + 1 := by omega
          rw [roundPos_shr n e false hn0 (by omega), hsh, het]
          have := rnd_eq_of_interval n (t + 1) (2 ^ 53) H (2 ^ 53 * H) (by omega) (by omega) p1
            rfl (by omega) (by omega) (by omega)
          unfold rnd at this
          rw [this, finish_carry ex hx hex, hfr0]
        · -- ex = 1: the lower neighbour is the largest subnormal, same spacing
          have hx1 : ex = 1 := by omega
          have hlc : lcOf ex fr = false := by simp [lcOf, hx1]
          simp only [loNum, hlc, Bool.false_eq_true, if_false, mantOf, h0] at hlo hodd
          rw [hmul2 _ (by omega)] at hlo hodd
          have hn0 : n ≠ 0 := by omega
          have het : etOf n e = -1074 := by
            apply etOf_sub n (53 + t + 1) e hn0
            · rw [p53]; omega
            · omega
          have hsh : (etOf n e - e).toNat = t + 2 := by omega
          rw [roundPos_shr n e false hn0 (by omega), hsh, het]
          have := rnd_eq_of_interval n (t + 2) (2 ^ 52) (2 * H) (2 * (2 ^ 52 * H)) (by omega) (by omega) p2
            (by rw [hmul3]) (by omega) (by omega) (by omega)
          unfold rnd at this
          rw [this]
          have := finish_norm 1 (2 ^ 52) (by omega) (by omega) (Nat.le_refl _) (by decide)
          rw [hx1, hfr0]
          exact this
    · have hlc : lcOf ex fr = false := by simp [lcOf, hfr0]
      simp only [loNum, hlc, Bool.false_eq_true, if_false, mantOf, h0] at hlo hodd
      rw [hmul2 _ (by omega)] at hlo hodd
      have := hP3 hfr0
      exact upper (by omega) (by omega) (by omega)

/-! ## 6. Bit patterns -/

theorem decode_bitsOf (ex fr : Nat) (hex : ex < 2047) (hfr : fr < 2 ^ 52) :
    decode (bitsOf ex fr) = .fin false (mantOf ex fr) (expOf ex) := by
  unfold bitsOf
  rw [decode_ofNat_lt _ (by omega)]
  have h1 : (ex * 2 ^ 52 + fr) / 2 ^ 52 % 2 ^ 11 = ex := by omega
  have h2 : (ex * 2 ^ 52 + fr) % 2 ^ 52 = fr := by omega
  have h3 : ¬ (2 ^ 63 ≤ ex * 2 ^ 52 + fr) := by omega
  unfold decodeN mantOf expOf
  rw [h1, h2]
  simp only [h3, decide_false]
  rw [if_neg (by omega)]
  by_cases h0 : ex = 0
  · simp [h0]
  · simp [h0]

theorem bitsOf_toNat (ex fr : Nat) (hex : ex < 2047) (hfr : fr < 2 ^ 52) :
    (bitsOf ex fr).toNat = ex * 2 ^ 52 + fr := by
  unfold bitsOf; exact UInt64.toNat_ofNat_of_lt' (by show _ < 2 ^ 64; omega)

theorem isFinite_bitsOf (ex fr : Nat) (hex : ex < 2047) (hfr : fr < 2 ^ 52) :
    isFinite (bitsOf ex fr) = true := by
  unfold isFinite
  have h := Numeric.ex_toNat (bitsOf ex fr)
  rw [bitsOf_toNat ex fr hex hfr] at h
  have h1 : (ex * 2 ^ 52 + fr) / 2 ^ 52 % 2 ^ 11 = ex := by omega
  rw [h1] at h
  simp only [bne_iff_ne, ne_eq]
  intro hc
  rw [hc] at h
  have : (0x7ff : UInt64).toNat = 2047 := by decide
  omega

/-- every finite non-negative bit pattern is `bitsOf ex fr` -/
theorem bits_cases (b : UInt64) (hb : b.toNat < 2 ^ 63) (hfin : isFinite b = true) :
    b = bitsOf (b.toNat / 2 ^ 52) (b.toNat % 2 ^ 52) ∧ b.toNat / 2 ^ 52 < 2047 ∧ b.toNat % 2 ^ 52 < 2 ^ 52 := by
  refine ⟨?_, ?_, Nat.mod_lt _ (by decide)⟩
  · unfold bitsOf
    rw [Nat.div_add_mod']
    exact (Numeric.ofNat_toNat b).symm
  · unfold isFinite at hfin
    have h := Numeric.ex_toNat b
    have h2 : b.toNat / 2 ^ 52 % 2 ^ 11 = b.toNat / 2 ^ 52 := Nat.mod_eq_of_lt (by omega)
    rw [h2] at h
    have : b.toNat / 2 ^ 52 ≠ 2047 := by
      intro hc
      rw [hc] at h
      have : (b >>> 52 &&& 0x7ff) = 0x7ff := UInt64.toNat_inj.mp (by rw [h]; rfl)
      simp [this] at hfin
    omega

/-! ## 7. T1: representable values are fixed points -/

/-- `roundPos` returns the float `(ex, fr)` on its own mantissa and exponent. -/
theorem roundPos_bitsOf (ex fr : Nat) (hex : ex < 2047) (hfr : fr < 2 ^ 52) (hne : mantOf ex fr ≠ 0) :
    roundPos (mantOf ex fr) (expOf ex) false = some (bitsOf ex fr) := by
  rw [← roundPos_scale (mantOf ex fr) 2 (expOf ex) hne]
  apply roundPos_interval ex fr _ 0 _ hex hfr hne
  · rfl
  · unfold loNum; split <;> omega
  · unfold hiNum; omega
  · intro _; unfold loNum hiNum; split <;> omega

/-- **T1 (converse form)**: for every finite positive binary64 `b = m·2^e`, `roundPos m e false = some b`. -/
theorem roundPos_decode (b : UInt64) (m : Nat) (e : Int) (h : decode b = .fin false m e) (hm : m ≠ 0) :
    roundPos m e false = some b := by
  have hb : b.toNat < 2 ^ 63 := by rw [decode_eq] at h; exact decodeN_fin_false h
  have hfin : isFinite b = true := by
    unfold decode at h
    unfold isFinite
    by_cases hc : (b >>> 52 &&& 0x7ff) = 0x7ff
    · rw [hc] at h; simp at h; split at h <;> cases h
    · simpa using hc
  obtain ⟨hbe, hex, hfr⟩ := bits_cases b hb hfin
  have hd := decode_bitsOf _ _ hex hfr
  rw [← hbe, h] at hd
  injection hd with _ h1 h2
  subst h1 h2
  rw [roundPos_bitsOf _ _ hex hfr hm, ← hbe]

/-- **T1**: a value `m·2^e` with `m < 2^53` in the finite range is a fixed point of rounding: the result is a
    finite binary64 whose decoded value `m'·2^e'` is exactly `m·2^e`. -/
theorem roundPos_exact (m : Nat) (e : Int) (hm0 : 0 < m) (hm : m < 2 ^ 53) (he : -1074 ≤ e)
    (hhi : e + ((m.log2 + 1 : Nat) : Int) ≤ 1024) :
    ∃ b m' e', roundPos m e false = some b ∧ isFinite b = true ∧ decode b = .fin false m' e' ∧
      e' ≤ e ∧ m' = m * 2 ^ (e - e').toNat := by
  have h0 : m ≠ 0 := by omega
  obtain ⟨h1, h2⟩ := log2_bounds m h0
  have hL : m.log2 < 53 := (Nat.log2_lt h0).mpr hm
  by_cases hc : -1074 ≤ e + ((m.log2 + 1 : Nat) : Int) - 53
  · -- normal
    obtain ⟨ex, hexd⟩ : ∃ ex : Nat, (ex : Int) = e + ((m.log2 + 1 : Nat) : Int) - 53 + 1075 :=
      ⟨(e + ((m.log2 + 1 : Nat) : Int) - 53 + 1075).toNat, by omega⟩
    have hex1 : 1 ≤ ex := by omega
    have hex : ex < 2047 := by omega
    have hp1 : 2 ^ 52 ≤ m * 2 ^ (52 - m.log2) := by
      have : 2 ^ 52 = 2 ^ m.log2 * 2 ^ (52 - m.log2) := by rw [← Nat.pow_add]; congr 1; omega
      rw [this]; exact Nat.mul_le_mul_right _ h1
    have hp2 : m * 2 ^ (52 - m.log2) < 2 ^ 53 := by
      have : 2 ^ 53 = 2 ^ (m.log2 + 1) * 2 ^ (52 - m.log2) := by rw [← Nat.pow_add]; congr 1; omega
      rw [this]; exact Nat.mul_lt_mul_of_pos_right h2 (two_pow_pos _)
    have hfr : m * 2 ^ (52 - m.log2) - 2 ^ 52 < 2 ^ 52 := by omega
    have hmant : mantOf ex (m * 2 ^ (52 - m.log2) - 2 ^ 52) = m * 2 ^ (52 - m.log2) := by
      unfold mantOf; rw [if_neg (by omega)]; omega
    have hexp : expOf ex = e - ((52 - m.log2 : Nat) : Int) := by
      unfold expOf; rw [if_neg (by omega)]; omega
    refine ⟨bitsOf ex (m * 2 ^ (52 - m.log2) - 2 ^ 52), m * 2 ^ (52 - m.log2), e - ((52 - m.log2 : Nat) : Int),
      ?_, isFinite_bitsOf _ _ hex hfr, ?_, by omega, ?_⟩
    · have := roundPos_bitsOf _ _ hex hfr (by rw [hmant]; omega)
      rw [hmant, hexp, roundPos_scale m (52 - m.log2) e h0] at this
      exact this
    · rw [decode_bitsOf _ _ hex hfr, hmant, hexp]
    · congr 2; omega
  · -- subnormal
    obtain ⟨j, hj⟩ : ∃ j : Nat, (j : Int) = e + 1074 := ⟨(e + 1074).toNat, by omega⟩
    have hp : m * 2 ^ j < 2 ^ 52 := by
      have h3 : m * 2 ^ j < 2 ^ (m.log2 + 1) * 2 ^ j := Nat.mul_lt_mul_of_pos_right h2 (two_pow_pos _)
      have h4 : 2 ^ (m.log2 + 1) * 2 ^ j ≤ 2 ^ 52 := by
        rw [← Nat.pow_add]; exact Nat.pow_le_pow_right (by decide) (by omega)
      omega
    have hpos : m * 2 ^ j ≠ 0 := Nat.mul_ne_zero h0 (by have := two_pow_pos j; omega)
    have hmant : mantOf 0 (m * 2 ^ j) = m * 2 ^ j := by simp [mantOf]
    have hexp : expOf 0 = e - (j : Int) := by simp [expOf]; omega
    refine ⟨bitsOf 0 (m * 2 ^ j), m * 2 ^ j, e - (j : Int), ?_, isFinite_bitsOf 0 _ (by omega) hp, ?_,
      by omega, ?_⟩
    · have := roundPos_bitsOf 0 (m * 2 ^ j) (by omega) hp (by rw [hmant]; exact hpos)
      rw [hmant, hexp, roundPos_scale m j e h0] at this
      exact this
    · rw [decode_bitsOf 0 _ (by omega) hp, hmant, hexp]
    · congr 2; omega

end SJ.F64Round
