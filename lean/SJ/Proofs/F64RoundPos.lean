import SJ.Proofs.Numeric
import SJ.Proofs.FloatFmt
/-
`roundPos` analysed in exact integer arithmetic (no rationals).

* `roundPos_shl`, `roundPos_shr`: the two branches of `roundPos` in closed form (`rndS`).
* `roundPos_double`, `roundPos_scale`: `roundPos (n·2^j) (e−j) false = roundPos n e false`.
* `roundPos_sticky`: `roundPos n e true = roundPos (2n+1) (e−1) false` when bits are shifted out.
* `rnd_eq_of_interval` (Lemma R) and `roundPos_interval` (interval form of correct rounding, T2').
-/
namespace SJ.F64Round
open SJ SJ.F64 SJ.Numeric

/-! ## 1. `roundPos` in closed form -/

/-- round `(n+ε)/2^s` to nearest, ties to even (`s ≥ 1`; ε > 0 iff `st`) -/
def rndS (n s : Nat) (st : Bool) : Nat :=
  if n % 2^s > 2^(s-1) then n / 2^s + 1
  else if n % 2^s < 2^(s-1) then n / 2^s
  else if st || (n / 2^s % 2 == 1) then n / 2^s + 1 else n / 2^s

/-- round `n/2^s` to nearest, ties to even -/
def rnd (n s : Nat) : Nat := rndS n s false

/-- the exponent `roundPos` selects -/
def etOf (n : Nat) (e : Int) : Int := max (e + ((n.log2 + 1 : Nat) : Int) - 53) (-1074)

theorem roundPos_shl (n : Nat) (e : Int) (st : Bool) (h0 : n ≠ 0) (h : etOf n e ≤ e) :
    roundPos n e st = finish (n * 2 ^ (e - etOf n e).toNat) (etOf n e) := by
  apply roundPos_eq n e st h0 (etOf n e) (etOf n e - e) (n * 2 ^ (e - etOf n e).toNat) _ false
  · rfl
  · rfl
  · rw [if_pos (by omega), Nat.shiftLeft_eq]
    congr 2; omega
  · rw [if_pos (by omega)]
  · simp

theorem roundPos_shr (n : Nat) (e : Int) (st : Bool) (h0 : n ≠ 0) (h : e < etOf n e) :
    roundPos n e st = finish (rndS n (etOf n e - e).toNat st) (etOf n e) := by
  have hs : ¬ (etOf n e - e ≤ 0) := by omega
  apply roundPos_eq n e st h0 (etOf n e) (etOf n e - e) (n >>> (etOf n e - e).toNat) _ _
  · rfl
  · rfl
  · rw [if_neg hs]
  · rfl
  · rw [if_neg hs]
    simp only [Nat.shiftRight_eq_div_pow]
    unfold rndS
    generalize n % 2 ^ (etOf n e - e).toNat = r
    generalize 2 ^ ((etOf n e - e).toNat - 1) = hf
    generalize n / 2 ^ (etOf n e - e).toNat = q
    by_cases c1 : r > hf
    · simp [c1]
    · by_cases c2 : r < hf
      · simp [c1, c2]
      · simp only [c1, c2, if_false]

/-! ## 2. `log2` -/

theorem two_pow_pos (a : Nat) : 0 < 2 ^ a := Nat.pow_pos (by decide)

theorem log2_eq_of_bounds {n a : Nat} (h1 : 2 ^ a ≤ n) (h2 : n < 2 ^ (a + 1)) : n.log2 = a := by
  have h0 : n ≠ 0 := by have := two_pow_pos a; omega
  have := (Nat.le_log2 h0).mpr h1
  have := (Nat.log2_lt h0).mpr h2
  omega

theorem log2_double (n : Nat) (h0 : n ≠ 0) : (2 * n).log2 = n.log2 + 1 := by
  obtain ⟨h1, h2⟩ := log2_bounds n h0
  apply log2_eq_of_bounds
  · rw [Nat.pow_succ]; omega
  · rw [Nat.pow_succ]; omega

theorem log2_double1 (n : Nat) (h0 : n ≠ 0) : (2 * n + 1).log2 = n.log2 + 1 := by
  obtain ⟨h1, h2⟩ := log2_bounds n h0
  apply log2_eq_of_bounds
  · rw [Nat.pow_succ]; omega
  · rw [Nat.pow_succ]; omega

theorem etOf_double (n : Nat) (e : Int) (h0 : n ≠ 0) : etOf (2 * n) (e - 1) = etOf n e := by
  unfold etOf; rw [log2_double n h0]; omega

theorem etOf_double1 (n : Nat) (e : Int) (h0 : n ≠ 0) : etOf (2 * n + 1) (e - 1) = etOf n e := by
  unfold etOf; rw [log2_double1 n h0]; omega

/-! ## 3. Scaling and the sticky bit -/

theorem pow_pred_double (s : Nat) (hs : 1 ≤ s) : 2 ^ s = 2 * 2 ^ (s - 1) := by
  rw [← Nat.pow_succ']; congr 1; omega

/-- one more (zero or sticky) bit below does not change the rounding -/
theorem rndS_double (n s : Nat) (st : Bool) (hs : 1 ≤ s) :
    rnd (2 * n + st.toNat) (s + 1) = rndS n s st := by
  have hp := two_pow_pos (s - 1)
  have e1 : 2 ^ (s + 1) = 2 * 2 ^ s := by rw [Nat.pow_succ']
  have e2 : 2 ^ s = 2 * 2 ^ (s - 1) := pow_pred_double s hs
  have hb : st.toNat < 2 := by cases st <;> decide
  have hq : (2 * n + st.toNat) / 2 ^ (s + 1) = n / 2 ^ s := by
    rw [e1, ← Nat.div_div_eq_div_mul]
    congr 1; omega
  have hr : (2 * n + st.toNat) % 2 ^ (s + 1) = 2 * (n % 2 ^ s) + st.toNat := by
    have h1 := Nat.div_add_mod (2 * n + st.toNat) (2 ^ (s + 1))
    have h2 := Nat.div_add_mod n (2 ^ s)
    rw [hq] at h1
    generalize (2 * n + st.toNat) % (2 ^ (s + 1)) = X at *
    rw [e1] at h1
    generalize n % 2 ^ s = r at *
    generalize n / 2 ^ s = q at *
    generalize 2 ^ s = P at *
    have : 2 * P * q = 2 * (P * q) := by rw [Nat.mul_assoc]
    omega
  unfold rnd rndS
  rw [hq, hr, Nat.add_sub_cancel]
  have hrl : n % 2 ^ s < 2 ^ s := Nat.mod_lt _ (two_pow_pos s)
  generalize n % 2 ^ s = r at *
  generalize n / 2 ^ s = q
  rw [e2] at hrl ⊢
  generalize 2 ^ (s - 1) = hf at *
  cases st
  · simp only [Bool.toNat_false, Nat.add_zero, Bool.false_or]
    by_cases c1 : r > hf
    · have : 2 * r > 2 * hf := by omega
      simp [c1, this]
    · by_cases c2 : r < hf
      · have a1 : ¬ 2 * r > 2 * hf := by omega
        have a2 : 2 * r < 2 * hf := by omega
        simp [c1, c2, a1, a2]
      · have a1 : ¬ 2 * r > 2 * hf := by omega
        have a2 : ¬ 2 * r < 2 * hf := by omega
        simp [c1, c2, a1, a2]
  · simp only [Bool.toNat_true, Bool.true_or, if_true]
    by_cases c1 : r > hf
    · have : 2 * r + 1 > 2 * hf := by omega
      simp [c1, this]
    · by_cases c2 : r < hf
      · have a1 : ¬ 2 * r + 1 > 2 * hf := by omega
        have a2 : 2 * r + 1 < 2 * hf := by omega
        simp [c1, c2, a1, a2]
      · have a1 : 2 * r + 1 > 2 * hf := by omega
        simp [c1, c2, a1]

/-- **sticky bit**: when at least one bit is shifted out, `(n+ε)·2^e` rounds like `(2n+1)·2^(e−1)`. -/
theorem roundPos_sticky (n : Nat) (e : Int) (st : Bool) (h0 : n ≠ 0) (h : e < etOf n e) :
    roundPos n e st = roundPos (2 * n + st.toNat) (e - 1) false := by
  have h0' : 2 * n + st.toNat ≠ 0 := by omega
  have het : etOf (2 * n + st.toNat) (e - 1) = etOf n e := by
    cases st
    · simpa using etOf_double n e h0
    · simpa using etOf_double1 n e h0
  rw [roundPos_shr n e st h0 h, roundPos_shr _ _ false h0' (by omega), het]
  have : (etOf n e - (e - 1)).toNat = (etOf n e - e).toNat + 1 := by omega
  rw [this]
  exact congrArg (fun x => finish x _) (rndS_double n _ st (by omega)).symm

theorem rnd_one_double (n : Nat) : rnd (2 * n) 1 = n := by
  unfold rnd rndS
  have h1 : 2 * n % 2 ^ 1 = 0 := by omega
  have h2 : 2 * n / 2 ^ 1 = n := by omega
  rw [h1, h2]
  simp

/-- `roundPos` depends only on the value `n·2^e` (one step) -/
theorem roundPos_double (n : Nat) (e : Int) (h0 : n ≠ 0) :
    roundPos (2 * n) (e - 1) false = roundPos n e false := by
  have h0' : 2 * n ≠ 0 := by omega
  have het := etOf_double n e h0
  by_cases h : e < etOf n e
  · have := roundPos_sticky n e false h0 h
    simpa using this.symm
  · by_cases h' : etOf n e = e
    · rw [roundPos_shl n e false h0 (by omega), roundPos_shr _ _ false h0' (by omega), het]
      have e1 : (etOf n e - (e - 1)).toNat = 1 := by omega
      have e2 : (e - etOf n e).toNat = 0 := by omega
      rw [e1, e2]
      have := rnd_one_double n
      unfold rnd at this
      rw [this]; simp
    · rw [roundPos_shl n e false h0 (by omega), roundPos_shl _ _ false h0' (by omega), het]
      have e1 : (e - etOf n e).toNat = (e - 1 - etOf n e).toNat + 1 := by omega
      rw [e1, Nat.pow_succ]
      congr 1
      rw [Nat.mul_comm (2 ^ _) 2, ← Nat.mul_assoc, Nat.mul_comm n 2]

theorem roundPos_scale (n j : Nat) (e : Int) (h0 : n ≠ 0) :
    roundPos (n * 2 ^ j) (e - j) false = roundPos n e false := by
  induction j generalizing e with
  | zero => simp
  | succ j ih =>
    have hp := two_pow_pos j
    have h1 : n * 2 ^ j ≠ 0 := Nat.mul_ne_zero h0 (by omega)
    have e1 : n * 2 ^ (j + 1) = 2 * (n * 2 ^ j) := by rw [Nat.pow_succ]; ac_rfl
    have e2 : e - ((j + 1 : Nat) : Int) = (e - (j : Int)) - 1 := by omega
    rw [e1, e2, roundPos_double _ _ h1, ih]

end SJ.F64Round
