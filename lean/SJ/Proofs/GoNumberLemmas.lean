import SJ.Generated.GoSrc
import SJ.Proofs.Number
import SJ.Proofs.GoRebuildLemmas
set_option linter.unusedVariables false
set_option linter.unusedSimpArgs false
/-
GoNumberLemmas — vocabulary for `GoNumber.lean`: little-endian loads of the interpreter (`leU32`, `leU64`: or-ed shifted
bytes) against the model's `le32`/`le64` (sums), the follow-byte table, the number-rune table as bytes.
-/
namespace SJ.GoNumber
open SJ SJ.GoSem SJ.Generated SJ.Tables

/-! ## little-endian loads -/

theorem nat_or_step (x y k : Nat) (hx : x < 2^k) : x ||| y <<< k = x + y * 2^k := by
  rw [Nat.or_comm, ← Nat.shiftLeft_add_eq_or_of_lt hx, Nat.shiftLeft_eq]; omega

/-- `binary.LittleEndian.Uint32` as a sum -/
theorem leU32_nat (b : Bytes) : leU32 b = UInt64.ofNat ((b.getD 0 0).toNat + (b.getD 1 0).toNat * 2^8 +
    (b.getD 2 0).toNat * 2^16 + (b.getD 3 0).toNat * 2^24) := by
  apply UInt64.toNat_inj.mp
  have h0 := (b.getD 0 0).toNat_lt
  have h1 := (b.getD 1 0).toNat_lt
  have h2 := (b.getD 2 0).toNat_lt
  have h3 := (b.getD 3 0).toNat_lt
  simp only [leU32, List.range, List.range.loop, List.foldl, UInt64.toNat_or, UInt64.toNat_shiftLeft, UInt8.toNat_toUInt64,
    UInt64.toNat_ofNat']
  simp only [Nat.reduceMul, Nat.reduceMod, Nat.reducePow, UInt64.toNat_zero, Nat.zero_or, Nat.shiftLeft_zero]
  generalize (b.getD 0 0).toNat = x0 at *
  generalize (b.getD 1 0).toNat = x1 at *
  generalize (b.getD 2 0).toNat = x2 at *
  generalize (b.getD 3 0).toNat = x3 at *
  simp only [Nat.shiftLeft_eq]
  rw [Nat.mod_eq_of_lt (a := x0) (by omega), Nat.mod_eq_of_lt (a := x1 * _) (by omega), Nat.mod_eq_of_lt (a := x2 * _) (by omega),
    Nat.mod_eq_of_lt (a := x3 * _) (by omega)]
  simp only [← Nat.shiftLeft_eq]
  rw [nat_or_step x0 x1 8 (by omega), nat_or_step _ x2 16 (by omega), nat_or_step _ x3 24 (by omega)]
  omega

/-- `binary.LittleEndian.Uint64` as a sum -/
theorem leU64_nat (b : Bytes) : leU64 b = UInt64.ofNat ((b.getD 0 0).toNat + (b.getD 1 0).toNat * 2^8 +
    (b.getD 2 0).toNat * 2^16 + (b.getD 3 0).toNat * 2^24 + (b.getD 4 0).toNat * 2^32 + (b.getD 5 0).toNat * 2^40 +
    (b.getD 6 0).toNat * 2^48 + (b.getD 7 0).toNat * 2^56) := by
  apply UInt64.toNat_inj.mp
  have h0 := (b.getD 0 0).toNat_lt
  have h1 := (b.getD 1 0).toNat_lt
  have h2 := (b.getD 2 0).toNat_lt
  have h3 := (b.getD 3 0).toNat_lt
  have h4 := (b.getD 4 0).toNat_lt
  have h5 := (b.getD 5 0).toNat_lt
  have h6 := (b.getD 6 0).toNat_lt
  have h7 := (b.getD 7 0).toNat_lt
  simp only [leU64, List.range, List.range.loop, List.foldl, UInt64.toNat_or, UInt64.toNat_shiftLeft, UInt8.toNat_toUInt64,
    UInt64.toNat_ofNat']
  simp only [Nat.reduceMul, Nat.reduceMod, Nat.reducePow, UInt64.toNat_zero, Nat.zero_or, Nat.shiftLeft_zero]
  generalize (b.getD 0 0).toNat = x0 at *
  generalize (b.getD 1 0).toNat = x1 at *
  generalize (b.getD 2 0).toNat = x2 at *
  generalize (b.getD 3 0).toNat = x3 at *
  generalize (b.getD 4 0).toNat = x4 at *
  generalize (b.getD 5 0).toNat = x5 at *
  generalize (b.getD 6 0).toNat = x6 at *
  generalize (b.getD 7 0).toNat = x7 at *
  simp only [Nat.shiftLeft_eq]
  rw [Nat.mod_eq_of_lt (a := x0) (by omega), Nat.mod_eq_of_lt (a := x1 * _) (by omega), Nat.mod_eq_of_lt (a := x2 * _) (by omega),
    Nat.mod_eq_of_lt (a := x3 * _) (by omega), Nat.mod_eq_of_lt (a := x4 * _) (by omega), Nat.mod_eq_of_lt (a := x5 * _) (by omega),
    Nat.mod_eq_of_lt (a := x6 * _) (by omega), Nat.mod_eq_of_lt (a := x7 * _) (by omega)]
  simp only [← Nat.shiftLeft_eq]
  rw [nat_or_step x0 x1 8 (by omega), nat_or_step _ x2 16 (by omega), nat_or_step _ x3 24 (by omega),
    nat_or_step _ x4 32 (by omega), nat_or_step _ x5 40 (by omega), nat_or_step _ x6 48 (by omega), nat_or_step _ x7 56 (by omega)]
  omega

/-- a byte of the slice `buf[start:]` -/
theorem getD_suffix (buf : Bytes) (start k : Nat) (h : start + k < buf.size) :
    (buf.extract start buf.size).getD k 0 = buf.getD (start + k) 0 :=
  GoRebuild.getD_extract buf start buf.size k h (Nat.le_refl _)

theorem size_suffix (buf : Bytes) (start : Nat) : (buf.extract start buf.size).size = buf.size - start := by
  simp [Array.size_extract]

theorem le32_lt (buf : Bytes) (i : Nat) : le32 buf i < 2^32 := by
  unfold le32
  have h0 := (buf.getD i 0).toNat_lt
  have h1 := (buf.getD (i+1) 0).toNat_lt
  have h2 := (buf.getD (i+2) 0).toNat_lt
  have h3 := (buf.getD (i+3) 0).toNat_lt
  omega

theorem le64_lt (buf : Bytes) (i : Nat) : le64 buf i < 2^64 := by
  unfold le64
  have h0 := le32_lt buf i
  have h1 := le32_lt buf (i + 4)
  omega

/-- `binary.LittleEndian.Uint32(buf[start:])` is the model's `le32 buf start` (four bytes remain) -/
theorem leU32_suffix (buf : Bytes) (start : Nat) (h : start + 4 ≤ buf.size) :
    leU32 (buf.extract start buf.size) = UInt64.ofNat (le32 buf start) := by
  rw [leU32_nat, getD_suffix buf start 0 (by omega), getD_suffix buf start 1 (by omega), getD_suffix buf start 2 (by omega),
    getD_suffix buf start 3 (by omega)]
  rfl

/-- `binary.LittleEndian.Uint64(buf[start:])` is the model's `le64 buf start` (eight bytes remain) -/
theorem leU64_suffix (buf : Bytes) (start : Nat) (h : start + 8 ≤ buf.size) :
    leU64 (buf.extract start buf.size) = UInt64.ofNat (le64 buf start) := by
  rw [leU64_nat, getD_suffix buf start 0 (by omega), getD_suffix buf start 1 (by omega), getD_suffix buf start 2 (by omega),
    getD_suffix buf start 3 (by omega), getD_suffix buf start 4 (by omega), getD_suffix buf start 5 (by omega),
    getD_suffix buf start 6 (by omega), getD_suffix buf start 7 (by omega)]
  congr 1
  have e5 : start + 4 + 1 = start + 5 := rfl
  have e6 : start + 4 + 2 = start + 6 := rfl
  have e7 : start + 4 + 3 = start + 7 := rfl
  simp only [le64, le32, Nat.add_zero, e5, e6, e7]
  omega

theorem ofNat_eq_iff (n k : Nat) (hn : n < 2^64) (hk : k < 2^64) : UInt64.ofNat n = UInt64.ofNat k ↔ n = k := by
  constructor
  · intro h
    have := congrArg UInt64.toNat h
    simp only [UInt64.toNat_ofNat'] at this
    omega
  · intro h; rw [h]

/-- the masked comparison of `isValidFalseAtom`, on `uint64` and on `Nat` -/
theorem ofNat_and_eq_iff (n m k : Nat) (hn : n < 2^64) (hm : m < 2^64) (hk : k < 2^64) :
    UInt64.ofNat n &&& UInt64.ofNat m = UInt64.ofNat k ↔ n &&& m = k := by
  rw [← UInt64.toNat_inj, UInt64.toNat_and]
  simp only [UInt64.toNat_ofNat']
  rw [Nat.mod_eq_of_lt hn, Nat.mod_eq_of_lt hm, Nat.mod_eq_of_lt hk]

/-! ## the tables as the interpreter reads them -/

/-- `isNotStructuralOrWhitespace(c) == 0` -/
theorem follow_tbl : ∀ c : UInt8, ((tStructuralOrWhitespaceNegated.getD c.toNat 0).toUInt8 == 0) = isFollow c :=
  forall_u8 (by decide +kernel)

/-- `uint64(isNotStructuralOrWhitespace(c)) == 0` -/
theorem follow_tbl64 : ∀ c : UInt8, ((tStructuralOrWhitespaceNegated.getD c.toNat 0).toUInt8.toUInt64 == 0) = isFollow c :=
  forall_u8 (by decide +kernel)

/-- `isNumberRune[v]` as the interpreter reads it -/
def runeU8 (x : UInt8) : UInt8 := (tIsNumberRune.getD x.toNat 0).toUInt8

theorem runeU8_toNat : ∀ x : UInt8, (runeU8 x).toNat = numRune x := forall_u8 (by decide +kernel)
theorem runeU8_zero : ∀ x : UInt8, (runeU8 x = 0) ↔ numRune x = 0 := forall_u8 (by decide +kernel)
theorem runeU8_eov : ∀ x : UInt8, (runeU8 x = 8) ↔ numRune x = 8 := forall_u8 (by decide +kernel)
theorem runeU8_must : ∀ x : UInt8, (0 < runeU8 x &&& 32) ↔ numRune x &&& 32 > 0 := forall_u8 (by decide +kernel)
theorem runeU8_digit : ∀ x : UInt8, (runeU8 x &&& 16 = 0) ↔ numRune x &&& 16 = 0 := forall_u8 (by decide +kernel)
theorem runeU8_float : ∀ x : UInt8, (runeU8 x &&& 2 = 0) ↔ numRune x &&& 2 = 0 := forall_u8 (by decide +kernel)

theorem runeU8_minus : ∀ x : UInt8, (runeU8 x &&& 4 = 0) ↔ numRune x &&& 4 = 0 := forall_u8 (by decide +kernel)
theorem numRune_lt : ∀ x : UInt8, numRune x < 256 := forall_u8 (by decide +kernel)

end SJ.GoNumber
