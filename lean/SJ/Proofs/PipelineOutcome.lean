import SJ.Proofs.PipelineLive
import SJ.Model.Stage2
/-
Composition of the hand-off protocol with stage 2: whatever the schedule, a complete run in which stage 1
filled the buffers `bufs` (stamp `k` = contents `bufs[k]`) hands stage 2 exactly `bufs`, so the outcome of the
concurrent pipeline is the outcome of the sequential composition `stage2 cfg buf bufs`.
-/
namespace SJ.Pipeline
open SJ

/-- what the consumer read, in order, when slot contents are interpreted through `bufs` (stamp `k` ↦ `bufs[k]`);
    a slot found with a foreign or no stamp reads as the empty buffer -/
def consumed (bufs : Array (Array Nat)) (s : St) : List (Array Nat) :=
  s.seen.reverse.map fun p => match p.2 with
    | some k => bufs.getD k #[]
    | none => #[]

theorem consumed_eq (c : Cfg) (hc : c.cap + 2 ≤ c.slots) (evs : List Ev) (s : St) (hr : run c {} evs = some s)
    (bufs : Array (Array Nat)) : consumed bufs s = (List.range s.recvd).map fun k => bufs.getD k #[] := by
  unfold consumed
  rw [seen_exact c hc evs s hr]
  simp [List.map_map, Function.comp_def]

theorem range_getD (bufs : Array (Array Nat)) : (List.range bufs.size).map (fun k => bufs.getD k #[]) = bufs.toList := by
  apply List.ext_getElem
  · simp
  · intro i h1 h2
    simp at h1
    simp [Array.getD, h1]

/-- **The concurrent pipeline computes the sequential result, for every schedule.** If stage 1 sent all of
    `bufs` and the terminator was received, the sequence of buffers stage 2 worked on is `bufs`, and therefore its
    outcome (failure, or tape and strings) is `stage2 cfg buf bufs`. -/
theorem outcome_sequential (c : Cfg) (hc : c.cap + 2 ≤ c.slots) (evs : List Ev) (s : St) (hr : run c {} evs = some s)
    (ht : s.termRecv = true) (bufs : Array (Array Nat)) (hn : s.sent = bufs.size) (cfg : SJ.Cfg) (buf : Bytes) :
    consumed bufs s = bufs.toList ∧ stage2 cfg buf (consumed bufs s).toArray = stage2 cfg buf bufs := by
  have hterm := (all_run c hc evs {} s (inv_init c) (by simp [SeenExact]) ⟨by simp⟩ hr).2
  have hrecv : s.recvd = bufs.size := by rw [← hn]; exact (hterm.recvT ht).2
  have h1 : consumed bufs s = bufs.toList := by
    rw [consumed_eq c hc evs s hr, hrecv, range_getD]
  exact ⟨h1, by rw [h1]⟩

/-- Early failure of stage 2 (it stops looking at buffer contents and only drains): the buffers it did look at are
    a prefix of `bufs`, again for every schedule. -/
theorem consumed_prefix (c : Cfg) (hc : c.cap + 2 ≤ c.slots) (evs : List Ev) (s : St) (hr : run c {} evs = some s)
    (bufs : Array (Array Nat)) (hn : s.sent ≤ bufs.size) : consumed bufs s = bufs.toList.take s.recvd := by
  have hi := inv_run c hc evs {} s (inv_init c) hr
  rw [consumed_eq c hc evs s hr]
  have hle : s.recvd ≤ bufs.size := Nat.le_trans hi.rcv hn
  apply List.ext_getElem
  · simp [hle]
  · intro i h1 h2
    simp at h1
    simp [Array.getD, Nat.lt_of_lt_of_le h1 hle]

end SJ.Pipeline
