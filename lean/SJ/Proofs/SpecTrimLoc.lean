import SJ.Proofs.SpecTrimStr
namespace SJ.SpecTrim
open SJ SJ.Spec SJ.NumberProofs

/-! ## 4. the three mutually recursive productions, one step at a time -/

def strOut : Out (List UInt8) → Out JVal
  | .acc b rest => .acc (.str b) rest
  | .rej => .rej
  | .out => .out

def numOut : Option (NumLit × List UInt8) → Out JVal
  | none => .rej
  | some (l, rest) =>
    match numValue l with
    | some n => .acc (.num n) rest
    | none => .rej

/-- after a value of an array, white space skipped -/
def elemsNext (f : Nat) (acc : List JVal) : List UInt8 → Out JVal
  | 0x2C :: r => elements f (skipWs r) acc false
  | 0x5D :: r => .acc (.arr acc.reverse) r
  | _ => .rej

def elemsAfter (f : Nat) (acc : List JVal) : Out JVal → Out JVal
  | .acc v rest => elemsNext f (v :: acc) (skipWs rest)
  | .rej => .rej
  | .out => .out

/-- after a member of an object, white space skipped -/
def memsNext (f : Nat) (acc : List (List UInt8 × JVal)) : List UInt8 → Out JVal
  | 0x2C :: r => members f (skipWs r) acc false
  | 0x7D :: r => .acc (.obj acc.reverse) r
  | _ => .rej

def memsAfterVal (f : Nat) (k : List UInt8) (acc : List (List UInt8 × JVal)) : Out JVal → Out JVal
  | .acc v rest => memsNext f ((k, v) :: acc) (skipWs rest)
  | .rej => .rej
  | .out => .out

/-- after the key of a member, white space skipped -/
def memsColon (f : Nat) (k : List UInt8) (acc : List (List UInt8 × JVal)) : List UInt8 → Out JVal
  | 0x3A :: r => memsAfterVal f k acc (value f (skipWs r))
  | _ => .rej

def memsAfterKey (f : Nat) (acc : List (List UInt8 × JVal)) : Out (List UInt8) → Out JVal
  | .acc k rest => memsColon f k acc (skipWs rest)
  | .rej => .rej
  | .out => .out

theorem memsColon_colon (f : Nat) (k : List UInt8) (acc : List (List UInt8 × JVal)) (r : List UInt8) :
    memsColon f k acc (0x3A :: r) = memsAfterVal f k acc (value f (skipWs r)) := by simp only [memsColon]

theorem memsColon_other (f : Nat) (k : List UInt8) (acc : List (List UInt8 × JVal)) (t : List UInt8)
    (h : ∀ r, t ≠ 0x3A :: r) : memsColon f k acc t = .rej := by
  unfold memsColon
  split
  · exact absurd rfl (h _)
  · rfl

theorem elemsNext_comma (f : Nat) (acc : List JVal) (r : List UInt8) :
    elemsNext f acc (0x2C :: r) = elements f (skipWs r) acc false := by simp only [elemsNext]
theorem elemsNext_close (f : Nat) (acc : List JVal) (r : List UInt8) :
    elemsNext f acc (0x5D :: r) = .acc (.arr acc.reverse) r := by simp only [elemsNext]
theorem elemsNext_other (f : Nat) (acc : List JVal) (t : List UInt8)
    (h1 : ∀ r, t ≠ 0x2C :: r) (h2 : ∀ r, t ≠ 0x5D :: r) : elemsNext f acc t = .rej := by
  unfold elemsNext
  split
  · exact absurd rfl (h1 _)
  · exact absurd rfl (h2 _)
  · rfl

theorem memsNext_comma (f : Nat) (acc : List (List UInt8 × JVal)) (r : List UInt8) :
    memsNext f acc (0x2C :: r) = members f (skipWs r) acc false := by simp only [memsNext]
theorem memsNext_close (f : Nat) (acc : List (List UInt8 × JVal)) (r : List UInt8) :
    memsNext f acc (0x7D :: r) = .acc (.obj acc.reverse) r := by simp only [memsNext]
theorem memsNext_other (f : Nat) (acc : List (List UInt8 × JVal)) (t : List UInt8)
    (h1 : ∀ r, t ≠ 0x2C :: r) (h2 : ∀ r, t ≠ 0x7D :: r) : memsNext f acc t = .rej := by
  unfold memsNext
  split
  · exact absurd rfl (h1 _)
  · exact absurd rfl (h2 _)
  · rfl

theorem ite_both {α} (p : Prop) [Decidable p] (a b a' b' : α) (h1 : a = a') (h2 : b = b') :
    (if p then a else b) = (if p then a' else b') := by rw [h1, h2]

theorem value_zero (s : List UInt8) : value 0 s = .rej := by rw [value]
theorem elements_zero (s : List UInt8) (acc : List JVal) (first : Bool) : elements 0 s acc first = .rej := by rw [elements]
theorem members_zero (s : List UInt8) (acc : List (List UInt8 × JVal)) (first : Bool) : members 0 s acc first = .rej := by
  rw [members]

theorem value_nil (f : Nat) : value f [] = .rej := by cases f <;> rw [value]

theorem value_cons (f : Nat) (c : UInt8) (r : List UInt8) :
    value (f + 1) (c :: r) =
      if c == 0x7B then members f (skipWs r) [] true
      else if c == 0x5B then elements f (skipWs r) [] true
      else if c == 0x22 then strOut (stringBody ((c :: r).length + 1) r [] false)
      else if c == 0x74 then literal "true".toUTF8.data.toList (.bool true) (c :: r)
      else if c == 0x66 then literal "false".toUTF8.data.toList (.bool false) (c :: r)
      else if c == 0x6E then literal "null".toUTF8.data.toList .null (c :: r)
      else if c == 0x2D ∨ Spec.isDigit c then numOut (numberLit (c :: r))
      else .rej := by
  rw [value]
  rfl

theorem elements_close (f : Nat) (r : List UInt8) (acc : List JVal) (first : Bool) :
    elements (f + 1) (0x5D :: r) acc first = if first then .acc (.arr acc.reverse) r else .rej := by
  rw [elements]

theorem elements_step (f : Nat) (s : List UInt8) (acc : List JVal) (first : Bool) (h : ∀ r, s ≠ 0x5D :: r) :
    elements (f + 1) s acc first = elemsAfter f acc (value f s) := by
  rw [elements]
  · cases value f s with
    | acc v rest =>
      simp only [elemsAfter]
      unfold elemsNext
      rfl
    | rej => rfl
    | out => rfl
  · intro r hr; exact h r hr

theorem members_close (f : Nat) (r : List UInt8) (acc : List (List UInt8 × JVal)) (first : Bool) :
    members (f + 1) (0x7D :: r) acc first = if first then .acc (.obj acc.reverse) r else .rej := by
  rw [members]

theorem members_key (f : Nat) (r : List UInt8) (acc : List (List UInt8 × JVal)) (first : Bool) :
    members (f + 1) (0x22 :: r) acc first =
      memsAfterKey f acc (stringBody ((0x22 :: r).length + 1) r [] false) := by
  rw [members]
  cases stringBody ((0x22 :: r).length + 1) r [] false with
  | acc k rest =>
    simp only [memsAfterKey]
    generalize skipWs rest = t
    split
    · rename_i r2
      rw [memsColon_colon]
      cases value f (skipWs r2) with
      | acc v rest2 => simp only [memsAfterVal]; unfold memsNext; rfl
      | rej => rfl
      | out => rfl
    · rename_i h
      rw [memsColon_other _ _ _ _ (fun r e => h r e)]
  | rej => rfl
  | out => rfl

theorem members_other (f : Nat) (s : List UInt8) (acc : List (List UInt8 × JVal)) (first : Bool)
    (h1 : ∀ r, s ≠ 0x7D :: r) (h2 : ∀ r, s ≠ 0x22 :: r) : members (f + 1) s acc first = .rej := by
  rw [members]
  · intro r hr; exact h1 r hr
  · intro r hr; exact h2 r hr

theorem elements_nil (f : Nat) (acc : List JVal) (first : Bool) : elements f [] acc first = .rej := by
  cases f with
  | zero => exact elements_zero _ _ _
  | succ f => rw [elements_step _ _ _ _ (fun r h => by cases h), value_nil]; rfl

theorem members_nil (f : Nat) (acc : List (List UInt8 × JVal)) (first : Bool) : members f [] acc first = .rej := by
  cases f with
  | zero => exact members_zero _ _ _
  | succ f => exact members_other _ _ _ _ (fun r h => by cases h) (fun r h => by cases h)

/-! ## 5. white space behind the text: every outcome is kept, the rest grows by the white space -/

theorem value_wsHead {b : List UInt8} (hb : WsHead b) (f : Nat) : value f b = .rej := by
  cases b with
  | nil => exact value_nil f
  | cons w b' =>
    cases f with
    | zero => exact value_zero _
    | succ f =>
      obtain ⟨h1, h2, h3, h4, h5, h6, h7, h8, _⟩ := ws_facts w (hb w b' rfl)
      rw [value_cons]
      simp [h1, h2, h3, h4, h5, h6, h7, h8]

theorem elements_wsHead {b : List UInt8} (hb : WsHead b) (f : Nat) (acc : List JVal) (first : Bool) :
    elements f b acc first = .rej := by
  cases f with
  | zero => exact elements_zero _ _ _
  | succ f =>
    rw [elements_step _ _ _ _ (fun r h => (ws_facts _ (hb _ _ h)).2.2.2.2.2.2.2.2.1 rfl), value_wsHead hb]; rfl

theorem members_wsHead {b : List UInt8} (hb : WsHead b) (f : Nat) (acc : List (List UInt8 × JVal)) (first : Bool) :
    members f b acc first = .rej := by
  cases f with
  | zero => exact members_zero _ _ _
  | succ f =>
    exact members_other _ _ _ _ (fun r h => (ws_facts _ (hb _ _ h)).2.2.2.2.2.2.2.2.2.1 rfl)
      (fun r h => (ws_facts _ (hb _ _ h)).2.2.2.2.2.2.2.2.2.2.2.2.2.2.2.2.2.2.1 rfl)

theorem ite_same {α} {b : List UInt8} (p : Prop) [Decidable p] (x y x' y' : Out α) (h1 : p → Same b x x') (h2 : ¬ p → Same b y y') :
    Same b (if p then x else y) (if p then x' else y') := by
  split
  · exact h1 ‹_›
  · exact h2 ‹_›

/-- a production run after `skipWs` -/
theorem skip_same {α} {b : List UInt8} (hb : b.all isWs = true) (g : List UInt8 → Out α)
    (hg : ∀ t, Same b (g t) (g (t ++ b))) (hnil : g [] = .rej) (r : List UInt8) :
    Same b (g (skipWs r)) (g (skipWs (r ++ b))) := by
  cases h : skipWs r with
  | nil => rw [skipWs_app_nil hb h, hnil]; trivial
  | cons x t => rw [skipWs_app_cons r b x t h]; exact hg (x :: t)

theorem strOut_same {b : List UInt8} {x y : Out (List UInt8)} (h : Same b x y) : Same b (strOut x) (strOut y) := by
  cases x <;> cases y <;> simp_all [Same, strOut]

theorem numOut_same {b : List UInt8} (o : Option (NumLit × List UInt8)) :
    Same b (numOut o) (numOut (o.map (fun lr => (lr.1, lr.2 ++ b)))) := by
  cases o with
  | none => trivial
  | some p =>
    obtain ⟨l, rest⟩ := p
    simp only [Option.map_some, numOut]
    cases numValue l with
    | none => trivial
    | some n => exact ⟨rfl, rfl⟩

/-- the statement for one amount of fuel -/
structure Loc (b : List UInt8) (f : Nat) : Prop where
  v : ∀ s, Same b (value f s) (value f (s ++ b))
  e : ∀ s acc first, Same b (elements f s acc first) (elements f (s ++ b) acc first)
  m : ∀ s acc first, Same b (members f s acc first) (members f (s ++ b) acc first)

theorem elemsNext_same {b : List UInt8} (hb : b.all isWs = true) {f : Nat} (L : Loc b f) (acc : List JVal) (rest : List UInt8) :
    Same b (elemsNext f acc (skipWs rest)) (elemsNext f acc (skipWs (rest ++ b))) := by
  cases h : skipWs rest with
  | nil => rw [skipWs_app_nil hb h, elemsNext_other _ _ _ (fun r e => by cases e) (fun r e => by cases e)]; trivial
  | cons x t =>
    rw [skipWs_app_cons rest b x t h]
    by_cases h1 : x = 0x2C
    · subst h1
      rw [elemsNext_comma, elemsNext_comma]
      exact skip_same hb (fun t => elements f t acc false) (fun t => L.e t acc false) (elements_nil _ _ _) t
    · by_cases h2 : x = 0x5D
      · subst h2
        rw [elemsNext_close, elemsNext_close]; exact ⟨rfl, rfl⟩
      · rw [elemsNext_other _ _ _ (fun r e => h1 (List.cons.inj e).1) (fun r e => h2 (List.cons.inj e).1),
          elemsNext_other _ _ _ (fun r e => h1 (List.cons.inj e).1) (fun r e => h2 (List.cons.inj e).1)]
        trivial

theorem elemsAfter_same {b : List UInt8} (hb : b.all isWs = true) {f : Nat} (L : Loc b f) (acc : List JVal) {x y : Out JVal}
    (h : Same b x y) : Same b (elemsAfter f acc x) (elemsAfter f acc y) := by
  cases x <;> cases y <;> try (first | exact h | exact absurd h id)
  obtain ⟨rfl, rfl⟩ := h
  exact elemsNext_same hb L _ _

theorem memsNext_same {b : List UInt8} (hb : b.all isWs = true) {f : Nat} (L : Loc b f) (acc : List (List UInt8 × JVal))
    (rest : List UInt8) : Same b (memsNext f acc (skipWs rest)) (memsNext f acc (skipWs (rest ++ b))) := by
  cases h : skipWs rest with
  | nil => rw [skipWs_app_nil hb h, memsNext_other _ _ _ (fun r e => by cases e) (fun r e => by cases e)]; trivial
  | cons x t =>
    rw [skipWs_app_cons rest b x t h]
    by_cases h1 : x = 0x2C
    · subst h1
      rw [memsNext_comma, memsNext_comma]
      exact skip_same hb (fun t => members f t acc false) (fun t => L.m t acc false) (members_nil _ _ _) t
    · by_cases h2 : x = 0x7D
      · subst h2
        rw [memsNext_close, memsNext_close]; exact ⟨rfl, rfl⟩
      · rw [memsNext_other _ _ _ (fun r e => h1 (List.cons.inj e).1) (fun r e => h2 (List.cons.inj e).1),
          memsNext_other _ _ _ (fun r e => h1 (List.cons.inj e).1) (fun r e => h2 (List.cons.inj e).1)]
        trivial

theorem memsAfterVal_same {b : List UInt8} (hb : b.all isWs = true) {f : Nat} (L : Loc b f) (k : List UInt8)
    (acc : List (List UInt8 × JVal)) {x y : Out JVal} (h : Same b x y) :
    Same b (memsAfterVal f k acc x) (memsAfterVal f k acc y) := by
  cases x <;> cases y <;> try (first | exact h | exact absurd h id)
  obtain ⟨rfl, rfl⟩ := h
  exact memsNext_same hb L _ _

theorem memsColon_same {b : List UInt8} (hb : b.all isWs = true) {f : Nat} (L : Loc b f) (k : List UInt8)
    (acc : List (List UInt8 × JVal)) (rest : List UInt8) :
    Same b (memsColon f k acc (skipWs rest)) (memsColon f k acc (skipWs (rest ++ b))) := by
  cases h : skipWs rest with
  | nil => rw [skipWs_app_nil hb h, memsColon_other _ _ _ _ (fun r e => by cases e)]; trivial
  | cons x t =>
    rw [skipWs_app_cons rest b x t h]
    by_cases h1 : x = 0x3A
    · subst h1
      rw [memsColon_colon, memsColon_colon]
      exact memsAfterVal_same hb L k acc (skip_same hb (fun t => value f t) L.v (value_nil _) t)
    · rw [memsColon_other _ _ _ _ (fun r e => h1 (List.cons.inj e).1),
        memsColon_other _ _ _ _ (fun r e => h1 (List.cons.inj e).1)]
      trivial

theorem memsAfterKey_same {b : List UInt8} (hb : b.all isWs = true) {f : Nat} (L : Loc b f)
    (acc : List (List UInt8 × JVal)) {x y : Out (List UInt8)} (h : Same b x y) :
    Same b (memsAfterKey f acc x) (memsAfterKey f acc y) := by
  cases x <;> cases y <;> try (first | exact h | exact absurd h id)
  obtain ⟨rfl, rfl⟩ := h
  exact memsColon_same hb L _ _ _

/-- the string after an opening quotation mark, with the fuel the specification gives it -/
theorem string_same {b : List UInt8} (hb : b.all isWs = true) (c : UInt8) (r : List UInt8) :
    Same b (stringBody ((c :: r).length + 1) r [] false) (stringBody ((c :: (r ++ b)).length + 1) (r ++ b) [] false) := by
  rw [stringBody_fuel ((c :: r).length + 1) ((c :: (r ++ b)).length + 1) r [] false
    (by simp only [List.length_cons]; omega) (by simp only [List.length_cons, List.length_append]; omega)]
  exact stringBody_app hb _ _ _ _

theorem loc {b : List UInt8} (hb : b.all isWs = true) : ∀ f, Loc b f
  | 0 => ⟨fun s => by rw [value_zero, value_zero]; trivial,
          fun s acc first => by rw [elements_zero, elements_zero]; trivial,
          fun s acc first => by rw [members_zero, members_zero]; trivial⟩
  | f + 1 => by
    have L := loc hb f
    have hw := wsHead_of_all hb
    refine ⟨?_, ?_, ?_⟩
    · intro s
      cases s with
      | nil => rw [value_nil, List.nil_append, value_wsHead hw]; trivial
      | cons c r =>
        rw [List.cons_append, value_cons, value_cons]
        refine ite_same _ _ _ _ _ (fun _ => ?_) (fun _ => ?_)
        · exact skip_same hb (fun t => members f t [] true) (fun t => L.m t [] true) (members_nil _ _ _) r
        refine ite_same _ _ _ _ _ (fun _ => ?_) (fun _ => ?_)
        · exact skip_same hb (fun t => elements f t [] true) (fun t => L.e t [] true) (elements_nil _ _ _) r
        refine ite_same _ _ _ _ _ (fun _ => ?_) (fun _ => ?_)
        · exact strOut_same (string_same hb c r)
        refine ite_same _ _ _ _ _ (fun _ => ?_) (fun _ => ?_)
        · exact literal_app _ _ (c :: r) b (by rw [true_list]; decide) hw
        refine ite_same _ _ _ _ _ (fun _ => ?_) (fun _ => ?_)
        · exact literal_app _ _ (c :: r) b (by rw [false_list]; decide) hw
        refine ite_same _ _ _ _ _ (fun _ => ?_) (fun _ => ?_)
        · exact literal_app _ _ (c :: r) b (by rw [null_list]; decide) hw
        refine ite_same _ _ _ _ _ (fun _ => ?_) (fun _ => trivial)
        rw [← List.cons_append, numberLit_app hw]
        exact numOut_same _
    · intro s acc first
      cases s with
      | nil => rw [elements_nil, List.nil_append, elements_wsHead hw]; trivial
      | cons c r =>
        by_cases hc : c = 0x5D
        · subst hc
          rw [List.cons_append, elements_close, elements_close]
          cases first
          · trivial
          · exact ⟨rfl, rfl⟩
        · rw [List.cons_append, elements_step _ _ _ _ (fun r e => hc (List.cons.inj e).1),
            elements_step _ _ _ _ (fun r e => hc (List.cons.inj e).1)]
          exact elemsAfter_same hb L acc (L.v (c :: r))
    · intro s acc first
      cases s with
      | nil => rw [members_nil, List.nil_append, members_wsHead hw]; trivial
      | cons c r =>
        by_cases hc : c = 0x7D
        · subst hc
          rw [List.cons_append, members_close, members_close]
          cases first
          · trivial
          · exact ⟨rfl, rfl⟩
        · by_cases hq : c = 0x22
          · subst hq
            rw [List.cons_append, members_key, members_key]
            exact memsAfterKey_same hb L acc (string_same hb _ r)
          · rw [List.cons_append, members_other _ _ _ _ (fun r e => hc (List.cons.inj e).1) (fun r e => hq (List.cons.inj e).1),
              members_other _ _ _ _ (fun r e => hc (List.cons.inj e).1) (fun r e => hq (List.cons.inj e).1)]
            trivial

end SJ.SpecTrim
