import SJ.Proofs.GoObject
import SJ.Proofs.GoNum
import SJ.Proofs.WalkSafe
set_option linter.unusedVariables false
set_option linter.unusedSimpArgs false
/-
GoMarshalLemmas — groundwork for GoMarshal.lean (`Iter.MarshalJSONBuffer` against `Model/Marshal.lean`).

1. Calls from an ABSTRACT caller store (`iterAt s.env "i" = some j`, `Keeps pj s`):
   `callFun_i` / `backI_ret` (the frame `callFun` builds for a receiver-only callee is `envOf "i" j ++ bufEnv pj`; fields
   and the two shared buffers are copied back: `afterCall`), then
     `call_peek`  (`t = i.PeekNextTag()`, from `peekTag_body`/`peekTag_loopK`: GoIter's loop lemma, carrying `Keeps`),
     `call_val`   (`v, err = i.F()` for `StringBytes` (`sb_simK` = `GoObject.stringBytes_sim`), `Int`, `Uint`, `Float`),
     `call_adv`   (the statement `i.AdvanceInto()`: `.call` copies the receiver only, so `GoIter.advanceInto_sim` applies as is).
   `int_simK`/`uint_simK`/`float_simK` repeat the proofs of `GoNum.int_sim` … on the frame WITH the buffers (GoNum states
   them for the bare `envOf "i" i`; `callFun` adds `Strings.B`/`Message` to every callee's frame).
2. `Rep pj e s`: the store `e` represents the model state `s` (receiver, `stack`, `dst`, buffers, `tmpBuf`, and the flag
   `#break:tagswitch` not set); everything else is scratch.  `Inv pj s`: view inside the tape, `cur < 2^63`, and the
   bottom of the stack is `stackNone` (so the stack is never empty).  `advanceInto_inv`: `AdvanceInto` keeps `lim` and
   `cur < 2^63`.
3. The loop body cut by `rfl` lemmas (`body_eq`, `keyStmt_eq`, `keyBody_eq`, `postSec_eq`, `tagSwitch_eq`), and
   `key_sim` (key-name prefix = `WalkSafe.keyPart`), `post_sim` (after the switch = `WalkSafe.contF`/`Iter.marshalPost`),
   `sw_root` … `sw_end`, `sw_other` (which `case` of the labelled switch runs; `catchL` = its `break tagswitch` handler).
-/
namespace SJ.GoMarshal
open SJ SJ.GoSem SJ.Generated SJ.GoIter SJ.GoObject

attribute [local simp] exec exec1 execCases evalE evalEs isOneOf binop convert ofE copyFields bindParams
  iterFields runFun tblLookup

theorem runFun_ret_inv {funs : String → Option FunDef} {fd : FunDef} {fuel : Nat} {s s' : St} {vs : List Val}
    (h : runFun funs fd fuel s = .ret s' vs) (hne : vs ≠ []) : exec funs fuel fd.body s = .ret s' vs := by
  unfold runFun at h
  cases hh : exec funs fuel fd.body s <;> rw [hh] at h <;> simp only [] at h
  · injection h with h1 h2; exact absurd h2.symm hne
  · cases h
  · cases h
  · exact h
  · cases h
  · cases h
  · cases h

theorem runFun_panic_inv {funs : String → Option FunDef} {fd : FunDef} {fuel : Nat} {s : St}
    (h : runFun funs fd fuel s = .panic) : exec funs fuel fd.body s = .panic := by
  unfold runFun at h
  cases hh : exec funs fuel fd.body s <;> rw [hh] at h <;> simp only [] at h <;> first | rfl | cases h

/-- the caller's store after a call on the receiver `i` -/
def afterCall (e : Env) (pj : PJ) (j : Iter) : Env :=
  ((setIter e "i" j).set "Strings.B" (.bytes pj.strings)).set "Message" (.bytes pj.msg)

def backI (s : St) : Out → Out
  | .ret s' rs =>
    (match copyFields s'.env "i" s.env "i" iterFields with
     | some e2 => .ret { env := copyGlobals s'.env e2 globalVars, tape := s'.tape } rs
     | none => .stuck "receiver back")
  | .normal s' =>
    (match copyFields s'.env "i" s.env "i" iterFields with
     | some e2 => .ret { env := copyGlobals s'.env e2 globalVars, tape := s'.tape } []
     | none => .stuck "receiver back")
  | .brk _ | .cont _ => .stuck "break outside loop"
  | o => o

theorem callFun_i (s : St) (pj : PJ) (fn : String) (body : List Stmt) (j : Iter) (f : Nat)
    (hfn : goFuns fn = some { recv := "i", params := [], body := body })
    (hI : iterAt s.env "i" = some j) (hS : s.env.get "Strings.B" = some (.bytes pj.strings))
    (hM : s.env.get "Message" = some (.bytes pj.msg)) :
    callFun goFuns f "i" fn [] [] s = backI s (exec goFuns f body ⟨envOf "i" j ++ bufEnv pj, s.tape⟩) := by
  obtain ⟨d1, d2, d3, d4, d5⟩ := iterAt_get_i _ _ hI
  rw [callFun]
  simp [hfn, d1, d2, d3, d4, d5, hS, hM, copyPtrs, copyGlobals, globalVars, copyPtrsBack,
    Env.set, Env.get, -exec, -exec1, envOf, bufEnv]
  generalize exec goFuns f _ _ = out
  cases out <;> rfl

theorem backI_ret (s s' : St) (rs : List Val) (pj : PJ) (j' : Iter) (hI : iterAt s'.env "i" = some j')
    (hk : Keeps pj s') : backI s (.ret s' rs) = .ret ⟨afterCall s.env pj j', pj.tape⟩ rs := by
  obtain ⟨d1, d2, d3, d4, d5⟩ := iterAt_get_i _ _ hI
  obtain ⟨ht, hS, hM⟩ := hk
  simp [backI, d1, d2, d3, d4, d5, hS, hM, ht, copyGlobals, globalVars, afterCall, setIter]


/-! ## the callees on the frame `callFun` builds: `envOf "i" j ++ bufEnv pj` -/

/-- a callee that returns one byte-sized value and leaves receiver and document alone -/
def SimVK (pj : PJ) (i : Iter) (o : Out) (r : Res UInt8) : Prop :=
  match r with
  | .ok t => ∃ s, o = .ret s [.u8 t] ∧ Keeps pj s ∧ iterAt s.env "i" = some i
  | .panic => o = .panic
  | _ => False

theorem SimVK.final {pj : PJ} {i : Iter} {o : Out} {r : Res UInt8} (h : SimVK pj i o r) : Out.final o = true := by
  unfold SimVK at h
  split at h
  · obtain ⟨s, h, _⟩ := h; rw [h]; rfl
  · rw [h]; rfl
  · exact h.elim

theorem keeps_set {pj : PJ} {e : Env} {t : Array UInt64} (h : Keeps pj ⟨e, t⟩) (k : String) (v : Val)
    (h1 : k ≠ "Strings.B") (h2 : k ≠ "Message") : Keeps pj ⟨e.set k v, t⟩ := by
  obtain ⟨a, b, c⟩ := h
  exact ⟨a, by simpa [Env.get_set, h1] using b, by simpa [Env.get_set, h2] using c⟩

theorem peekTag_loopK (pj : PJ) (i : Iter) (hl : i.lim ≤ pj.tape.size) :
    ∀ (n off fuel : Nat) (e : Env), i.lim - off ≤ n → n < fuel → iterAt e "i" = some i →
      e.get "off" = some (.int off) → Keeps pj ⟨e, pj.tape⟩ →
      SimVK pj i (exec1 goFuns fuel (.loop (firstLoop goIter_PeekNextTag.body)) ⟨e, pj.tape⟩)
        (Iter.peekLoop pj i.lim off) := by
  intro n
  induction n with
  | zero =>
    intro off fuel e hn hf hI hoff hK
    obtain ⟨fuel, rfl⟩ : ∃ f, fuel = f + 1 := ⟨fuel - 1, by omega⟩
    have hlim := (iterAt_get e "i" i hI).2.2.2.2
    simp only [String.reduceAppend] at hlim
    rw [exec1, peekTag_body e pj.tape fuel off i.lim hoff hlim hl, Iter.peekLoop]
    have : off ≥ i.lim := by omega
    simp only [this, dif_pos, SimVK, tagEnd]
    exact ⟨_, rfl, hK, hI⟩
  | succ n ih =>
    intro off fuel e hn hf hI hoff hK
    obtain ⟨fuel, rfl⟩ : ∃ f, fuel = f + 1 := ⟨fuel - 1, by omega⟩
    have hlim := (iterAt_get e "i" i hI).2.2.2.2
    simp only [String.reduceAppend] at hlim
    rw [exec1, peekTag_body e pj.tape fuel off i.lim hoff hlim hl, Iter.peekLoop]
    by_cases h : off ≥ i.lim
    · simp only [h, dif_pos, SimVK, tagEnd]
      exact ⟨_, rfl, hK, hI⟩
    · have h2 : pj.tape[off]? = some (pj.tape[off]'(by omega)) := by simp
      simp only [h, dif_neg, not_false_eq_true, Iter.rdT, rd, h2, Res.bind_ok]
      generalize pj.tape[off] = v
      by_cases hn : tagOf v = tagNop
      · by_cases hz : payloadOf v = 0
        · simp only [hn, hz, SimVK, tagEnd, if_true, beq_self_eq_true, UInt64.toNat_zero]
          refine ⟨_, rfl, ?_, ?_⟩
          · exact keeps_set (keeps_set (keeps_set hK _ _ (by decide) (by decide)) _ _ (by decide) (by decide)) _ _
              (by decide) (by decide)
          · simp (disch := decide) only [iterAt_set_ne, hI]
        · have hz' := payload_toNat_ne v hz
          simp only [hn, hz, hz', if_true, if_false, beq_self_eq_true]
          exact ih (off + (payloadOf v).toNat) fuel _ (by omega) (by omega)
            (by simp (disch := decide) only [iterAt_set_ne, hI]) (by simp [Env.get_set])
            (keeps_set (keeps_set (keeps_set (keeps_set hK _ _ (by decide) (by decide)) _ _ (by decide) (by decide)) _ _
              (by decide) (by decide)) _ _ (by decide) (by decide))
      · have hb : (tagOf v == tagNop) = false := by simp [hn]
        simp only [hn, hb, SimVK, if_false]
        refine ⟨_, rfl, ?_, ?_⟩
        · exact keeps_set (keeps_set hK _ _ (by decide) (by decide)) _ _ (by decide) (by decide)
        · simp (disch := decide) only [iterAt_set_ne, hI]

/-- `PeekNextTag` on any store holding the receiver and the buffers -/
theorem peek_exec (pj : PJ) (i : Iter) (e : Env) (hl : i.lim ≤ pj.tape.size) (fuel : Nat) (hf : fuelFor i ≤ fuel)
    (hI : iterAt e "i" = some i) (hK : Keeps pj ⟨e, pj.tape⟩) :
    SimVK pj i (exec goFuns fuel goIter_PeekNextTag.body ⟨e, pj.tape⟩) (i.peekNextTag pj) := by
  obtain ⟨g1, g2, g3, g4, g5⟩ := iterAt_get_i _ _ hI
  have hbody : goIter_PeekNextTag.body = [.assign "off" (.bin .add (.v "i.off") (.v "i.addNext")),
      .loop (firstLoop goIter_PeekNextTag.body)] := rfl
  have h1 : exec1 goFuns fuel (.assign "off" (.bin .add (.v "i.off") (.v "i.addNext"))) ⟨e, pj.tape⟩ =
      .normal ⟨e.set "off" (.int ((i.off : Int) + i.addNext)), pj.tape⟩ := by
    simp [g1, g2]
  have hI' : iterAt (e.set "off" (.int ((i.off : Int) + i.addNext))) "i" = some i := by
    simp (disch := decide) only [iterAt_set_ne, hI]
  have hK' : Keeps pj ⟨e.set "off" (.int ((i.off : Int) + i.addNext)), pj.tape⟩ :=
    keeps_set hK _ _ (by decide) (by decide)
  have hloop : SimVK pj i (exec1 goFuns fuel (.loop (firstLoop goIter_PeekNextTag.body))
      ⟨e.set "off" (.int ((i.off : Int) + i.addNext)), pj.tape⟩) (i.peekNextTag pj) := by
    unfold Iter.peekNextTag Iter.bump
    unfold fuelFor at hf
    by_cases ho : (i.off : Int) + i.addNext < 0
    · obtain ⟨f, rfl⟩ : ∃ f, fuel = f + 1 := ⟨fuel - 1, by omega⟩
      have hlim := (iterAt_get _ "i" i hI').2.2.2.2
      simp only [String.reduceAppend] at hlim
      rw [exec1, peekTag_body_neg _ pj.tape f _ i.lim ho (Env.get_set_self _ _ _) hlim]
      simp [ho, SimVK]
    · simp only [ho, if_false, Res.bind_ok]
      exact peekTag_loopK pj i hl i.lim ((i.off : Int) + i.addNext).toNat fuel _ (by omega) (by omega) hI'
        (by rw [Env.get_set_self, Int.toNat_of_nonneg (by omega)]) hK'
  rw [hbody, exec, h1]
  simp only []
  rw [exec_cons_final _ _ _ _ _ hloop.final]
  exact hloop


theorem frame_iter (pj : PJ) (j : Iter) : iterAt (envOf "i" j ++ bufEnv pj) "i" = some j := by
  simp [envOf, bufEnv, Env.get, iterAt]

theorem frame_keeps (pj : PJ) (j : Iter) : Keeps pj ⟨envOf "i" j ++ bufEnv pj, pj.tape⟩ := by
  refine ⟨rfl, ?_, ?_⟩ <;> simp [envOf, bufEnv, Env.get]

/-- `tgt = i.PeekNextTag()` from any caller -/
theorem call_peek (pj : PJ) (s : St) (j : Iter) (tgt : String) (htgt : (tgt == "_") = false) (f : Nat)
    (hf : fuelFor j ≤ f) (hl : j.lim ≤ pj.tape.size) (hI : iterAt s.env "i" = some j) (hK : Keeps pj s) :
    match j.peekNextTag pj with
    | .ok t => exec1 goFuns (f + 1) (.callAssign [tgt] "i" "Iter.PeekNextTag" [] []) s =
        .normal ⟨(afterCall s.env pj j).set tgt (.u8 t), pj.tape⟩
    | .panic => exec1 goFuns (f + 1) (.callAssign [tgt] "i" "Iter.PeekNextTag" [] []) s = .panic
    | _ => False := by
  have hx := peek_exec pj j _ hl f hf (frame_iter pj j) (frame_keeps pj j)
  rw [exec1, callFun_i s pj _ goIter_PeekNextTag.body j f rfl hI hK.2.1 hK.2.2, hK.1]
  generalize exec goFuns f goIter_PeekNextTag.body _ = out at hx ⊢
  cases hr : j.peekNextTag pj with
  | ok t =>
    rw [hr] at hx
    obtain ⟨s', rfl, hK', hI'⟩ := hx
    simp only []
    rw [backI_ret s s' _ pj j hI' hK']
    simp [assignTargets, htgt]
  | panic =>
    rw [hr] at hx
    simp only [SimVK] at hx
    subst hx
    rfl
  | error e => rw [hr] at hx; exact hx.elim
  | diverge => rw [hr] at hx; exact hx.elim


/-- a callee returning `(value, error)` that leaves receiver and document alone -/
def SimRK {α : Type} (pj : PJ) (i : Iter) (enc : α → Val) (zero : Val) (o : Out) (r : Res α) : Prop :=
  match r with
  | .ok a => ∃ s, o = .ret s [enc a, .bool false] ∧ Keeps pj s ∧ iterAt s.env "i" = some i
  | .error _ => ∃ s, o = .ret s [zero, .bool true] ∧ Keeps pj s ∧ iterAt s.env "i" = some i
  | .panic => o = .panic
  | .diverge => False

/-- what the caller sees of `t1, t2 = i.fn()` -/
def CallPost {α : Type} (o : Out) (e : Env) (t1 t2 : String) (enc : α → Val) (zero : Val) (tape : Array UInt64) :
    Res α → Prop
  | .ok a => o = .normal ⟨(e.set t1 (enc a)).set t2 (.bool false), tape⟩
  | .error _ => o = .normal ⟨(e.set t1 zero).set t2 (.bool true), tape⟩
  | .panic => o = .panic
  | .diverge => False

/-- `t1, t2 = i.fn()` from any caller, for a callee `fn` proved on the frame -/
theorem call_val {α : Type} (pj : PJ) (s : St) (j : Iter) (fn : String) (body : List Stmt) (enc : α → Val) (zero : Val)
    (t1 t2 : String) (h1 : (t1 == "_") = false) (h2 : (t2 == "_") = false) (f : Nat) (r : Res α)
    (hfn : goFuns fn = some { recv := "i", params := [], body := body })
    (hsim : SimRK pj j enc zero
      (runFun goFuns { recv := "i", params := [], body := body } f ⟨envOf "i" j ++ bufEnv pj, pj.tape⟩) r)
    (hI : iterAt s.env "i" = some j) (hK : Keeps pj s) :
    CallPost (exec1 goFuns (f + 1) (.callAssign [t1, t2] "i" fn [] []) s) (afterCall s.env pj j) t1 t2 enc zero
      pj.tape r := by
  unfold CallPost
  rw [exec1, callFun_i s pj _ body j f hfn hI hK.2.1 hK.2.2, hK.1]
  cases r with
  | ok a =>
    obtain ⟨s', hx, hK', hI'⟩ := hsim
    have hx' := runFun_ret_inv hx (by simp)
    simp only [] at hx' ⊢
    rw [hx', backI_ret s s' _ pj j hI' hK']
    simp [assignTargets, h1, h2]
  | error e =>
    obtain ⟨s', hx, hK', hI'⟩ := hsim
    have hx' := runFun_ret_inv hx (by simp)
    simp only [] at hx' ⊢
    rw [hx', backI_ret s s' _ pj j hI' hK']
    simp [assignTargets, h1, h2]
  | panic =>
    simp only [SimRK] at hsim
    have hx' := runFun_panic_inv hsim
    simp only [] at hx' ⊢
    rw [hx']
    rfl
  | diverge => exact hsim.elim

/-- `StringBytes` in this form -/
theorem sb_simK (pj : PJ) (i : Iter) (hl : i.lim ≤ pj.tape.size) (hb : BufOK pj) (fuel : Nat) (hf : 1 ≤ fuel) :
    SimRK pj i Val.bytes (.bytes #[])
      (runFun goFuns goIter_StringBytes fuel ⟨envOf "i" i ++ bufEnv pj, pj.tape⟩) (i.stringBytes pj) := by
  have h := stringBytes_sim pj i hl hb fuel hf
  cases hr : i.stringBytes pj <;> rw [hr] at h <;> exact h


/-! ### `Int`, `Uint`, `Float` on the frame with the buffers (the proofs of `GoNum`, on the larger store) -/
section Num
open SJ.GoNum
attribute [local simp] Env.get Env.set

theorem int_simK (pj : PJ) (i : Iter) (fuel : Nat) :
    SimRK pj i Val.int (.int 0)
      (runFun goFuns goIter_Int fuel ⟨envOf "i" i ++ bufEnv pj, pj.tape⟩) (i.int pj) := by
  simp only [goIter_Int, envOf, bufEnv, Iter.int, Iter.valWord, Iter.rdT, rd, SimRK, tagFloat, tagInteger, tagUint]
  simp [fcmp, constAsFloat_maxInt64, constAsFloat_minInt64, Keeps]
  simp only [← UInt8.toNat_inj, UInt8.reduceToNat, @eq_comm Nat _ i.t.toNat]
  by_cases hb : i.lim ≤ i.off
  · by_cases h1 : i.t.toNat = 100
    · simp [h1, hb, iterAt, Res.bind, bind]
    · by_cases h2 : i.t.toNat = 108
      · simp [h1, h2, hb, iterAt, Res.bind, bind]
      · by_cases h3 : i.t.toNat = 117
        · simp [h1, h2, h3, hb, iterAt, Res.bind, bind]
        · simp [h1, h2, h3, iterAt]
  · have h5 : (i.off : Int) < i.lim := by omega
    by_cases h4 : i.off < pj.tape.size
    · by_cases h1 : i.t.toNat = 100
      · by_cases hg : F64.geInt pj.tape[i.off] 9223372036854775808 = true
        · simp [h1, hb, h4, h5, iterAt, Res.bind, bind, hg]
        · by_cases hlt : F64.ltInt pj.tape[i.off] (-9223372036854775808) = true
          · simp [h1, hb, h4, h5, iterAt, Res.bind, bind, hg, hlt]
          · simp [h1, hb, h4, h5, iterAt, Res.bind, bind, hg, hlt]
      · by_cases h2 : i.t.toNat = 108
        · simp [h1, h2, hb, h4, h5, iterAt, Res.bind, bind]
        · by_cases h3 : i.t.toNat = 117
          · simp [h1, h2, h3, hb, h4, h5, iterAt, Res.bind, bind, maxInt64_lt]
            generalize pj.tape[i.off] = w
            by_cases hw : 9223372036854775807 < w.toNat
            · simp [hw]
            · simp [hw, toInt64_small w (by omega)]
          · simp [h1, h2, h3, iterAt]
    · have hn : pj.tape[i.off]? = none := by simp; omega
      by_cases h1 : i.t.toNat = 100
      · simp [h1, hb, hn, h5, Res.bind, bind]
      · by_cases h2 : i.t.toNat = 108
        · simp [h1, h2, hb, hn, h5, Res.bind, bind]
        · by_cases h3 : i.t.toNat = 117
          · simp [h1, h2, h3, hb, hn, h5, Res.bind, bind]
          · simp [h1, h2, h3, iterAt]

theorem uint_simK (pj : PJ) (i : Iter) (fuel : Nat) :
    SimRK pj i (fun n => Val.u64 (UInt64.ofNat n)) (.u64 0)
      (runFun goFuns goIter_Uint fuel ⟨envOf "i" i ++ bufEnv pj, pj.tape⟩) (i.uint pj) := by
  simp only [goIter_Uint, envOf, bufEnv, Iter.uint, Iter.valWord, Iter.rdT, rd, SimRK, tagFloat, tagInteger, tagUint]
  simp [fcmp, constAsFloat_maxUint64, constAsFloat_zero, Keeps]
  simp only [← UInt8.toNat_inj, UInt8.reduceToNat, @eq_comm Nat _ i.t.toNat]
  by_cases hb : i.lim ≤ i.off
  · by_cases h1 : i.t.toNat = 100
    · simp [h1, hb, iterAt, Res.bind, bind]
    · by_cases h2 : i.t.toNat = 108
      · simp [h1, h2, hb, iterAt, Res.bind, bind]
      · by_cases h3 : i.t.toNat = 117
        · simp [h1, h2, h3, hb, iterAt, Res.bind, bind]
        · simp [h1, h2, h3, iterAt]
  · have h5 : (i.off : Int) < i.lim := by omega
    by_cases h4 : i.off < pj.tape.size
    · by_cases h1 : i.t.toNat = 100
      · by_cases hg : F64.geInt pj.tape[i.off] 18446744073709551616 = true
        · simp [h1, hb, h4, h5, iterAt, Res.bind, bind, hg]
        · by_cases hlt : F64.ltInt pj.tape[i.off] 0 = true
          · simp [h1, hb, h4, h5, iterAt, Res.bind, bind, hg, hlt]
          · simp [h1, hb, h4, h5, iterAt, Res.bind, bind, hg, hlt]
      · by_cases h2 : i.t.toNat = 108
        · by_cases hneg : toInt64 pj.tape[i.off] < 0
          · simp [h1, h2, hb, h4, h5, iterAt, Res.bind, bind, hneg]
          · simp [h1, h2, hb, h4, h5, iterAt, Res.bind, bind, hneg, ofInt_toInt64]
        · by_cases h3 : i.t.toNat = 117
          · simp [h1, h2, h3, hb, h4, h5, iterAt, Res.bind, bind]
          · simp [h1, h2, h3, iterAt]
    · have hn : pj.tape[i.off]? = none := by simp; omega
      by_cases h1 : i.t.toNat = 100
      · simp [h1, hb, hn, h5, Res.bind, bind]
      · by_cases h2 : i.t.toNat = 108
        · simp [h1, h2, hb, hn, h5, Res.bind, bind]
        · by_cases h3 : i.t.toNat = 117
          · simp [h1, h2, h3, hb, hn, h5, Res.bind, bind]
          · simp [h1, h2, h3, iterAt]

theorem float_simK (pj : PJ) (i : Iter) (fuel : Nat) :
    SimRK pj i Val.u64 (.u64 0)
      (runFun goFuns goIter_Float fuel ⟨envOf "i" i ++ bufEnv pj, pj.tape⟩) (i.float pj) := by
  simp only [goIter_Float, envOf, bufEnv, Iter.float, Iter.valWord, Iter.rdT, rd, SimRK, tagFloat, tagInteger, tagUint]
  simp [Keeps]
  simp only [← UInt8.toNat_inj, UInt8.reduceToNat, @eq_comm Nat _ i.t.toNat]
  by_cases hb : i.lim ≤ i.off
  · by_cases h1 : i.t.toNat = 100
    · simp [h1, hb, iterAt]
    · by_cases h2 : i.t.toNat = 108
      · simp [h1, h2, hb, iterAt, Res.bind, bind]
      · by_cases h3 : i.t.toNat = 117
        · simp [h1, h2, h3, hb, iterAt, Res.bind, bind]
        · simp [h1, h2, h3, iterAt]
  · have h5 : (i.off : Int) < i.lim := by omega
    by_cases h4 : i.off < pj.tape.size
    · by_cases h1 : i.t.toNat = 100
      · simp [h1, hb, h4, h5, iterAt]
      · by_cases h2 : i.t.toNat = 108
        · simp [h1, h2, hb, h4, h5, iterAt, Res.bind, bind]
        · by_cases h3 : i.t.toNat = 117
          · simp [h1, h2, h3, hb, h4, h5, iterAt, Res.bind, bind]
          · simp [h1, h2, h3, iterAt]
    · have hn : pj.tape[i.off]? = none := by simp; omega
      by_cases h1 : i.t.toNat = 100
      · simp [h1, hb, hn, h5]
      · by_cases h2 : i.t.toNat = 108
        · simp [h1, h2, hb, hn, h5, Res.bind, bind]
        · by_cases h3 : i.t.toNat = 117
          · simp [h1, h2, h3, hb, hn, h5, Res.bind, bind]
          · simp [h1, h2, h3, iterAt]
end Num


/-- the statement `i.AdvanceInto()` from any caller (result discarded; `.call` copies only the receiver) -/
theorem call_adv (pj : PJ) (s : St) (j : Iter) (f : Nat) (hf : fuelFor j ≤ f) (hl : j.lim ≤ pj.tape.size)
    (hI : iterAt s.env "i" = some j) (ht : s.tape = pj.tape) :
    match j.advanceInto pj with
    | .ok (j', _) => exec1 goFuns (f + 1) (.call "i" "Iter.AdvanceInto" []) s = .normal ⟨setIter s.env "i" j', pj.tape⟩
    | .panic => exec1 goFuns (f + 1) (.call "i" "Iter.AdvanceInto" []) s = .panic
    | _ => False := by
  obtain ⟨h1, h2, h3, h4, h5⟩ := iterAt_get_i _ _ hI
  have hsim := advanceInto_sim pj j hl f hf
  have hpre : exec1 goFuns (f + 1) (.call "i" "Iter.AdvanceInto" []) s =
      match exec goFuns f goIter_AdvanceInto.body ⟨envOf "i" j, pj.tape⟩ with
      | .normal s' | .ret s' _ =>
        (match copyFields s'.env "i" s.env "i" iterFields with
         | some e2 => .normal { env := e2, tape := s'.tape }
         | none => .stuck "receiver back")
      | .brk _ | .cont _ => .stuck "break outside loop"
      | o => o := by
    rw [exec1]
    have hfn : goFuns "Iter.AdvanceInto" = some goIter_AdvanceInto := rfl
    simp [hfn, h1, h2, h3, h4, h5, Env.set, Env.get, -exec, -exec1, envOf, ht]
    rfl
  rw [hpre]
  cases hr : j.advanceInto pj with
  | ok r =>
    obtain ⟨j', tg⟩ := r
    rw [hr] at hsim
    obtain ⟨s', hx, hst, hI'⟩ := hsim
    have hx' := runFun_ret_inv hx (by simp)
    obtain ⟨d1, d2, d3, d4, d5⟩ := iterAt_get_i _ _ hI'
    simp only []
    rw [hx']
    simp [d1, d2, d3, d4, d5, setIter, hst]
  | panic =>
    rw [hr] at hsim
    simp only [SimT] at hsim
    have hx' := runFun_panic_inv hsim
    simp only []
    rw [hx']
  | error e => rw [hr] at hsim; exact hsim.elim
  | diverge => rw [hr] at hsim; exact hsim.elim

/-! ## the loop body, cut into pieces -/

def bodyL : List Stmt := firstLoop goIter_MarshalJSONBuffer.body
def keyStmt : Stmt := (bodyL.drop 1).headD .brk
def tagSwitch : Stmt := (bodyL.drop 2).headD .brk
def postSec : List Stmt := bodyL.drop 3
theorem body_eq : bodyL = .assign "valueDone" (.bool false) :: keyStmt :: tagSwitch :: postSec := rfl

def topE : Expr := .idxB (.v "stack") (.bin .sub (.lenB (.v "stack")) (.int 1))

theorem back_getD (b : Array UInt8) : b.getD (b.size - 1) 0 = b.back! := by
  simp only [Array.back!, Array.getD_eq_getD_getElem?, getElem!_def]
  cases b[b.size - 1]? <;> rfl

theorem eval_top (e : Env) (tape : Array UInt64) (st : Array UInt8) (hS : e.get "stack" = some (.bytes st))
    (hsz : 0 < st.size) : evalE ⟨e, tape⟩ topE = .val (.u8 st.back!) := by
  have h1 : (0 : Int) ≤ (st.size : Int) - 1 := by omega
  have h2 : ((st.size : Int) - 1).toNat = st.size - 1 := by omega
  have h3 : (1 : Int) ≤ st.size := by omega
  have h4 : (st.size : Int) - 1 < st.size := by omega
  simp [topE, hS, h1, h2, h3, h4, ← back_getD]

def keyCond : Expr := .land (.bin .eq topE (.u8 2)) (.bin .ne (.v "i.t") (.u8 125))
def keyBody : List Stmt := match keyStmt with | .ite _ t _ => t | _ => []
theorem keyStmt_eq : keyStmt = .ite keyCond keyBody [] := rfl

theorem eval_keyCond (e : Env) (tape : Array UInt64) (st : Array UInt8) (t : UInt8)
    (hS : e.get "stack" = some (.bytes st)) (ht : e.get "i.t" = some (.u8 t)) (hsz : 0 < st.size) :
    evalE ⟨e, tape⟩ keyCond = .val (.bool (st.back! == 2 && t != 125)) := by
  have := eval_top e tape st hS hsz
  rw [keyCond, evalE, evalE, this]
  by_cases h : st.back! = 2
  · simp [h, ht]
  · have hb : (st.back! == 2) = false := by simp [h]
    simp [hb]

/-! ## representation -/

structure Rep (pj : PJ) (e : Env) (s : MState) : Prop where
  it : iterAt e "i" = some s.i
  stack : e.get "stack" = some (.bytes s.stack)
  dst : e.get "dst" = some (.bytes s.dst)
  strs : e.get "Strings.B" = some (.bytes pj.strings)
  msg : e.get "Message" = some (.bytes pj.msg)
  tmp : e.get "tmpBuf" = some (.bytes #[])
  nobrk : e.get "#break:tagswitch" ≠ some (.bool true)

def repKeys : List String :=
  ["i.off", "i.addNext", "i.cur", "i.t", "i.lim", "stack", "dst", "Strings.B", "Message", "tmpBuf", "#break:tagswitch"]

theorem Rep.keeps {pj : PJ} {e : Env} {s : MState} (h : Rep pj e s) : Keeps pj ⟨e, pj.tape⟩ := ⟨rfl, h.strs, h.msg⟩

/-- a store that agrees with `e` on the represented variables, except that it holds `i'`, `stack'`, `dst'` -/
theorem Rep.of_gets {pj : PJ} {e e' : Env} {s s' : MState} (h : Rep pj e s)
    (hi : iterAt e' "i" = some s'.i) (hst : e'.get "stack" = some (.bytes s'.stack))
    (hd : e'.get "dst" = some (.bytes s'.dst))
    (h1 : e'.get "Strings.B" = e.get "Strings.B") (h2 : e'.get "Message" = e.get "Message")
    (h3 : e'.get "tmpBuf" = e.get "tmpBuf") (h4 : e'.get "#break:tagswitch" = e.get "#break:tagswitch") : Rep pj e' s' :=
  ⟨hi, hst, hd, h1 ▸ h.strs, h2 ▸ h.msg, h3 ▸ h.tmp, h4 ▸ h.nobrk⟩

theorem Rep.set {pj : PJ} {e : Env} {s : MState} (h : Rep pj e s) (k : String) (v : Val) (hk : k ∉ repKeys) :
    Rep pj (e.set k v) s := by
  simp only [repKeys, List.mem_cons, List.not_mem_nil, or_false, not_or] at hk
  obtain ⟨k1, k2, k3, k4, k5, k6, k7, k8, k9, k10, k11⟩ := hk
  obtain ⟨d1, d2, d3, d4, d5⟩ := iterAt_get_i _ _ h.it
  refine h.of_gets ?_ ?_ ?_ ?_ ?_ ?_ ?_
  · apply iterAt_of_gets <;> simp [Env.get_set, *]
  all_goals simp [Env.get_set, *]
  · exact h.stack
  · exact h.dst

theorem Rep.setDst {pj : PJ} {e : Env} {s : MState} (h : Rep pj e s) (d : Bytes) :
    Rep pj (e.set "dst" (.bytes d)) { s with dst := d } := by
  obtain ⟨d1, d2, d3, d4, d5⟩ := iterAt_get_i _ _ h.it
  refine h.of_gets ?_ ?_ ?_ ?_ ?_ ?_ ?_
  · apply iterAt_of_gets <;> simp [Env.get_set, *]
  all_goals simp [Env.get_set]
  · exact h.stack

theorem Rep.setStack {pj : PJ} {e : Env} {s : MState} (h : Rep pj e s) (st : Bytes) :
    Rep pj (e.set "stack" (.bytes st)) { s with stack := st } := by
  obtain ⟨d1, d2, d3, d4, d5⟩ := iterAt_get_i _ _ h.it
  refine h.of_gets ?_ ?_ ?_ ?_ ?_ ?_ ?_
  · apply iterAt_of_gets <;> simp [Env.get_set, *]
  all_goals simp [Env.get_set]
  · exact h.dst

theorem Rep.withIter {pj : PJ} {e : Env} {s : MState} (h : Rep pj e s) (j : Iter) :
    Rep pj (setIter e "i" j) { s with i := j } := by
  refine h.of_gets (iterAt_setIter_i _ _) ?_ ?_ ?_ ?_ ?_ ?_
  all_goals simp [setIter, Env.get_set]
  · exact h.stack
  · exact h.dst

theorem Rep.called {pj : PJ} {e : Env} {s : MState} (h : Rep pj e s) : Rep pj (afterCall e pj s.i) s := by
  obtain ⟨d1, d2, d3, d4, d5⟩ := iterAt_get_i _ _ h.it
  refine h.of_gets ?_ ?_ ?_ ?_ ?_ ?_ ?_
  · apply iterAt_of_gets <;> simp [afterCall, setIter, Env.get_set, *]
  all_goals simp [afterCall, setIter, Env.get_set]
  · exact h.stack
  · exact h.dst
  · exact h.strs.symm
  · exact h.msg.symm


/-! ## invariants of the model state -/

theorem advanceIntoLoop_inv (pj : PJ) (i : Iter) (off : Nat) (i' : Iter) (b : Bool)
    (h : Iter.advanceIntoLoop pj i off = .ok (i', b)) :
    i'.lim = i.lim ∧ (i.cur.toNat < 2^63 → i'.cur.toNat < 2^63) := by
  fun_induction Iter.advanceIntoLoop pj i off with
  | case1 i off hge =>
    simp only [Res.ok.injEq, Prod.mk.injEq] at h
    obtain ⟨rfl, _⟩ := h
    exact ⟨rfl, fun h => h⟩
  | case2 i off hlt ih =>
    cases hr : Iter.rdT pj off with
    | ok v =>
      rw [hr] at h
      simp only [Res.bind_ok] at h
      have hp := payload_lt v
      split at h
      · split at h
        · simp only [Res.ok.injEq, Prod.mk.injEq] at h
          obtain ⟨rfl, _⟩ := h
          exact ⟨rfl, fun _ => by simp only [Iter.moveToEnd]; omega⟩
        · rename_i hc
          obtain ⟨a, b⟩ := ih v hc h
          exact ⟨a, fun _ => b (by simp only; omega)⟩
      · simp only [Res.ok.injEq, Prod.mk.injEq] at h
        obtain ⟨rfl, _⟩ := h
        exact ⟨rfl, fun _ => by simp only; omega⟩
    | error e => rw [hr] at h; cases h
    | panic => rw [hr] at h; cases h
    | diverge => rw [hr] at h; cases h

theorem advanceInto_inv (pj : PJ) (i i' : Iter) (t : UInt8) (h : i.advanceInto pj = .ok (i', t)) :
    i'.lim = i.lim ∧ (i.cur.toNat < 2^63 → i'.cur.toNat < 2^63) := by
  unfold Iter.advanceInto at h
  cases hb : i.bump with
  | ok o =>
    rw [hb] at h
    simp only [Res.bind_ok] at h
    cases hl : Iter.advanceIntoLoop pj i o with
    | ok r =>
      obtain ⟨j, live⟩ := r
      rw [hl] at h
      simp only [Res.bind_ok] at h
      obtain ⟨a, b⟩ := advanceIntoLoop_inv pj i o j live hl
      obtain ⟨c1, c2, c3, c4⟩ := calcNext_fields j true
      split at h
      · simp only [Res.ok.injEq, Prod.mk.injEq] at h
        obtain ⟨rfl, _⟩ := h
        exact ⟨a, b⟩
      · split at h
        · simp only [Res.ok.injEq, Prod.mk.injEq] at h
          obtain ⟨rfl, _⟩ := h
          simp only [Iter.moveToEnd, c1, c3]
          exact ⟨a, b⟩
        · simp only [Res.ok.injEq, Prod.mk.injEq] at h
          obtain ⟨rfl, _⟩ := h
          rw [c1, c3]
          exact ⟨a, b⟩
    | error e => rw [hl] at h; cases h
    | panic => rw [hl] at h; cases h
    | diverge => rw [hl] at h; cases h
  | error e => rw [hb] at h; cases h
  | panic => rw [hb] at h; cases h
  | diverge => rw [hb] at h; cases h


structure Inv (pj : PJ) (s : MState) : Prop where
  lim : s.i.lim ≤ pj.tape.size
  cur : s.i.cur.toNat < 2^63
  bot : s.stack[0]? = some 0

theorem Inv.pos {pj : PJ} {s : MState} (h : Inv pj s) : 0 < s.stack.size := by
  have := h.bot
  by_cases h0 : 0 < s.stack.size
  · exact h0
  · simp at h0; simp [h0] at this

/-- the function returned `(_, err)` with `err != nil` -/
def ErrOut (o : Out) : Prop := ∃ st v, o = .ret st [v, .bool true]

/-- a section of the loop body against a section of the model -/
def SimS (pj : PJ) (P : Env → MState → Prop) (o : Out) (r : Res MState) : Prop :=
  match r with
  | .ok s1 => ∃ e1, o = .normal ⟨e1, pj.tape⟩ ∧ P e1 s1
  | .error _ => ErrOut o
  | .panic => o = .panic
  | .diverge => False

/-! ## the key-name prefix -/

def keyA : Stmt := keyBody.headD .brk
def keyB : List Stmt := (keyBody.drop 1).take 4
def keyD : Stmt := (keyBody.drop 6).headD .brk
theorem keyBody_eq : keyBody = keyA :: (keyB ++ [.callAssign ["#c1"] "i" "Iter.PeekNextTag" [] [], keyD,
    .call "i" "Iter.AdvanceInto" []]) := rfl
theorem keyA_eq : keyA = .callAssign ["sb", "err"] "i" "Iter.StringBytes" [] [] := rfl

theorem keyB_ok (e : Env) (tape : Array UInt64) (f : Nat) (d b : Bytes) (hd : e.get "dst" = some (.bytes d))
    (hsb : e.get "sb" = some (.bytes b)) (herr : e.get "err" = some (.bool false)) :
    exec goFuns f keyB ⟨e, tape⟩ =
      .normal ⟨((e.set "dst" (.bytes (d.push 34))).set "dst" (.bytes (escapeBytes (d.push 34) b))).set "dst"
        (.bytes ((Iter.quoted d b).push 58)), tape⟩ := by
  simp [keyB, keyBody, keyStmt, bodyL, firstLoop, goIter_MarshalJSONBuffer, hd, hsb, herr, Env.get_set, extCall,
    assignTargets, Iter.quoted]

theorem keyB_err (e : Env) (tape : Array UInt64) (f : Nat) (herr : e.get "err" = some (.bool true)) :
    exec goFuns f keyB ⟨e, tape⟩ = .ret ⟨e, tape⟩ [.bytes #[], .bool true] := by
  simp [keyB, keyBody, keyStmt, bodyL, firstLoop, goIter_MarshalJSONBuffer, herr]

theorem keyD_run (e : Env) (tape : Array UInt64) (f : Nat) (t : UInt8) (hc : e.get "#c1" = some (.u8 t)) :
    exec1 goFuns f keyD ⟨e, tape⟩ = if t = 0 then .ret ⟨e, tape⟩ [.bytes #[], .bool true] else .normal ⟨e, tape⟩ := by
  by_cases h : t = 0
  · simp [keyD, keyBody, keyStmt, bodyL, firstLoop, goIter_MarshalJSONBuffer, hc, h]
  · have hb : (t == 0) = false := by simp [h]
    simp [keyD, keyBody, keyStmt, bodyL, firstLoop, goIter_MarshalJSONBuffer, hc, h, hb]


theorem get_afterCall_ne (e : Env) (pj : PJ) (j : Iter) (k : String) (hk : k ∉ fieldsOf "i") (h1 : k ≠ "Strings.B")
    (h2 : k ≠ "Message") : (afterCall e pj j).get k = e.get k := by
  simp only [afterCall, Env.get_set, if_neg (Ne.symm h1), if_neg (Ne.symm h2)]
  exact get_setIter_ne _ _ _ _ hk

theorem key_sim (pj : PJ) (hb : BufOK pj) (e : Env) (s : MState) (f : Nat) (hR : Rep pj e s) (hI : Inv pj s)
    (hv : e.get "valueDone" = some (.bool false)) (hf : s.i.lim + 8 ≤ f) :
    SimS pj (fun e1 s1 => Rep pj e1 s1 ∧ Inv pj s1 ∧ s1.i.lim = s.i.lim ∧ s1.stack = s.stack ∧
        e1.get "valueDone" = some (.bool false))
      (exec1 goFuns (f + 1) keyStmt ⟨e, pj.tape⟩) (WalkSafe.keyPart pj s) := by
  obtain ⟨d1, d2, d3, d4, d5⟩ := iterAt_get_i _ _ hR.it
  have hc := eval_keyCond e pj.tape s.stack s.i.t hR.stack d4 hI.pos
  rw [keyStmt_eq, exec1, hc]
  unfold WalkSafe.keyPart
  by_cases hcond : s.stack.back! = 2 ∧ s.i.t ≠ 125
  · have hc1 : (s.stack.back! == 2 && s.i.t != 125) = true := by simp [hcond.1, hcond.2]
    have hc2 : (s.stack.back! == stackObject) = true ∧ (s.i.t != tagObjectEnd) = true := by
      simp [stackObject, tagObjectEnd, hcond.1, hcond.2]
    simp only [hc1, hc2, and_self, if_true]
    rw [keyBody_eq, exec, keyA_eq]
    have hsb := call_val pj ⟨e, pj.tape⟩ s.i "Iter.StringBytes" goIter_StringBytes.body Val.bytes (.bytes #[]) "sb" "err"
      (by decide) (by decide) f (s.i.stringBytes pj) rfl (sb_simK pj s.i hI.lim hb f (by omega)) hR.it hR.keeps
    cases hr : s.i.stringBytes pj with
    | ok b =>
      rw [hr] at hsb
      simp only [CallPost] at hsb
      rw [hsb]
      simp only [Res.bind_ok]
      have hR1 : Rep pj (((afterCall e pj s.i).set "sb" (.bytes b)).set "err" (.bool false)) s :=
        (hR.called.set "sb" _ (by decide)).set "err" _ (by decide)
      have hv1 : (((afterCall e pj s.i).set "sb" (.bytes b)).set "err" (.bool false)).get "valueDone" =
          some (.bool false) := by
        rw [Env.get_set_ne _ _ (by decide), Env.get_set_ne _ _ (by decide),
          get_afterCall_ne _ _ _ _ (by decide) (by decide) (by decide), hv]
      have hsb1 : (((afterCall e pj s.i).set "sb" (.bytes b)).set "err" (.bool false)).get "sb" = some (.bytes b) := by
        simp [Env.get_set]
      have herr1 : (((afterCall e pj s.i).set "sb" (.bytes b)).set "err" (.bool false)).get "err" =
          some (.bool false) := by simp [Env.get_set]
      generalize ((afterCall e pj s.i).set "sb" (.bytes b)).set "err" (.bool false) = e1 at hR1 hv1 hsb1 herr1
      rw [exec_append, keyB_ok e1 pj.tape (f + 1) s.dst b hR1.dst hsb1 herr1]
      simp only []
      have hR2 := ((hR1.setDst (s.dst.push 34)).setDst (escapeBytes (s.dst.push 34) b)).setDst
        ((Iter.quoted s.dst b).push 58)
      simp only [] at hR2
      have hv2 : (((e1.set "dst" (.bytes (s.dst.push 34))).set "dst" (.bytes (escapeBytes (s.dst.push 34) b))).set "dst"
          (.bytes ((Iter.quoted s.dst b).push 58))).get "valueDone" = some (.bool false) := by
        rw [Env.get_set_ne _ _ (by decide), Env.get_set_ne _ _ (by decide), Env.get_set_ne _ _ (by decide), hv1]
      generalize ((e1.set "dst" (.bytes (s.dst.push 34))).set "dst" (.bytes (escapeBytes (s.dst.push 34) b))).set "dst"
          (.bytes ((Iter.quoted s.dst b).push 58)) = e2 at hR2 hv2
      have hpk := call_peek pj ⟨e2, pj.tape⟩ s.i "#c1" (by decide) f (by unfold fuelFor; omega) hI.lim hR2.it hR2.keeps
      rw [exec]
      cases hp : s.i.peekNextTag pj with
      | ok nt =>
        rw [hp] at hpk
        simp only [] at hpk
        rw [hpk]
        simp only [Res.bind_ok]
        have hR3 : Rep pj ((afterCall e2 pj s.i).set "#c1" (.u8 nt)) { s with dst := (Iter.quoted s.dst b).push 58 } :=
          (Rep.called hR2).set "#c1" _ (by decide)
        have hv3 : ((afterCall e2 pj s.i).set "#c1" (.u8 nt)).get "valueDone" = some (.bool false) := by
          rw [Env.get_set_ne _ _ (by decide), get_afterCall_ne _ _ _ _ (by decide) (by decide) (by decide), hv2]
        have hc3 : ((afterCall e2 pj s.i).set "#c1" (.u8 nt)).get "#c1" = some (.u8 nt) := Env.get_set_self _ _ _
        generalize (afterCall e2 pj s.i).set "#c1" (.u8 nt) = e3 at hR3 hv3 hc3
        rw [exec, keyD_run e3 pj.tape (f + 1) nt hc3]
        by_cases hnt : nt = 0
        · simp only [hnt, if_true, tagEnd, beq_self_eq_true, SimS, ErrOut]
          exact ⟨_, _, rfl⟩
        · have hnb : (nt == tagEnd) = false := by simp [tagEnd, hnt]
          simp only [hnt, if_false, hnb, Bool.false_eq_true]
          have hadv := call_adv pj ⟨e3, pj.tape⟩ s.i f (by unfold fuelFor; omega) hI.lim hR3.it rfl
          rw [exec]
          cases ha : s.i.advanceInto pj with
          | ok r =>
            obtain ⟨j', tg⟩ := r
            rw [ha] at hadv
            simp only [] at hadv
            rw [hadv]
            simp only [exec, Res.bind_ok, SimS]
            obtain ⟨l1, l2⟩ := advanceInto_inv pj s.i j' tg ha
            refine ⟨_, rfl, hR3.withIter j', ⟨?_, l2 hI.cur, hI.bot⟩, l1, trivial, ?_⟩
            · simp only; rw [l1]; exact hI.lim
            · rw [get_setIter_ne _ _ _ _ (by decide), hv3]
          | panic =>
            rw [ha] at hadv
            simp only [] at hadv
            rw [hadv]
            simp [SimS]
          | error e => rw [ha] at hadv; exact hadv.elim
          | diverge => rw [ha] at hadv; exact hadv.elim
      | panic =>
        rw [hp] at hpk
        simp only [] at hpk
        rw [hpk]
        simp [SimS]
      | error e => rw [hp] at hpk; exact hpk.elim
      | diverge => rw [hp] at hpk; exact hpk.elim
    | error er =>
      rw [hr] at hsb
      simp only [CallPost] at hsb
      rw [hsb]
      simp only []
      rw [exec_append, keyB_err _ pj.tape (f + 1) (by simp [Env.get_set])]
      simp only [Res.bind_error, SimS, ErrOut]
      exact ⟨_, _, rfl⟩
    | panic =>
      rw [hr] at hsb
      simp only [CallPost] at hsb
      rw [hsb]
      simp [SimS]
    | diverge => rw [hr] at hsb; exact hsb.elim
  · have hc1 : (s.stack.back! == 2 && s.i.t != 125) = false := by
      by_cases h1 : s.stack.back! = 2
      · have h2 : s.i.t = 125 := by
          by_cases h2 : s.i.t = 125
          · exact h2
          · exact absurd ⟨h1, h2⟩ hcond
        simp [h1, h2]
      · simp [h1]
    have hc2 : ¬ ((s.stack.back! == stackObject) = true ∧ (s.i.t != tagObjectEnd) = true) := by
      simpa [stackObject, tagObjectEnd] using hcond
    simp only [hc1, hc2, if_false, exec, SimS]
    exact ⟨_, rfl, hR, hI, trivial, trivial, hv⟩

/-- one iteration of the write loop against `marshalStep`; `L` = the view length, which never changes -/
def StepSim (pj : PJ) (L : Nat) (o : Out) (r : Res (MState ⊕ MState)) : Prop :=
  match r with
  | .ok (.inl s') => ∃ e', (o = .normal ⟨e', pj.tape⟩ ∨ o = .cont ⟨e', pj.tape⟩) ∧ Rep pj e' s' ∧ Inv pj s' ∧ s'.i.lim = L
  | .ok (.inr s') => ∃ e', o = .brk ⟨e', pj.tape⟩ ∧ Rep pj e' s' ∧ Inv pj s' ∧ s'.i.lim = L
  | .error _ => ErrOut o
  | .panic => o = .panic
  | .diverge => False

theorem Rep.congr_dst {pj : PJ} {e e' : Env} {s : MState} (h : Rep pj e s) (d : Bytes)
    (hd : e'.get "dst" = some (.bytes d)) (hk : ∀ k, k ≠ "dst" → e'.get k = e.get k) :
    Rep pj e' { s with dst := d } := by
  refine h.of_gets ?_ ?_ hd (hk _ (by decide)) (hk _ (by decide)) (hk _ (by decide)) (hk _ (by decide))
  · rw [iterAt_congr e e' "i" (fun k hk' => hk k (by revert k; decide))]
    exact h.it
  · rw [hk _ (by decide)]; exact h.stack

/-! ## after the switch -/

def postA : Stmt := postSec.headD .brk
def postC : Stmt := (postSec.drop 2).headD .brk
def sepSw : Stmt := (postSec.drop 4).headD .brk
theorem postSec_eq : postSec = [postA, .callAssign ["#c4"] "i" "Iter.PeekNextTag" [] [], postC,
    .call "i" "Iter.AdvanceInto" [], sepSw] := rfl

theorem postA_run (e : Env) (tape : Array UInt64) (f : Nat) (st : Bytes) (done : Bool)
    (hv : e.get "valueDone" = some (.bool done)) (hS : e.get "stack" = some (.bytes st)) :
    exec1 goFuns f postA ⟨e, tape⟩ = if done = true ∧ st.size = 1 then .brk ⟨e, tape⟩ else .normal ⟨e, tape⟩ := by
  cases done
  · simp [postA, postSec, bodyL, firstLoop, goIter_MarshalJSONBuffer, hv]
  · by_cases h : st.size = 1
    · simp [postA, postSec, bodyL, firstLoop, goIter_MarshalJSONBuffer, hv, hS, h]
    · have h' : ¬ (st.size : Int) = 1 := by omega
      have hb : (((st.size : Nat) : Int) == 1) = false := by simp [h']
      simp [postA, postSec, bodyL, firstLoop, goIter_MarshalJSONBuffer, hv, hS, h, h', hb]

theorem postC_run (e : Env) (tape : Array UInt64) (f : Nat) (t : UInt8) (hc : e.get "#c4" = some (.u8 t)) :
    exec1 goFuns f postC ⟨e, tape⟩ = if t = 0 then .brk ⟨e, tape⟩ else .normal ⟨e, tape⟩ := by
  by_cases h : t = 0
  · simp [postC, postSec, bodyL, firstLoop, goIter_MarshalJSONBuffer, hc, h]
  · have hb : (t == 0) = false := by simp [h]
    simp [postC, postSec, bodyL, firstLoop, goIter_MarshalJSONBuffer, hc, h, hb]

/-- the separator the model emits after advancing -/
def sepDst (top t : UInt8) (d : Bytes) : Bytes :=
  if top == stackArray then (if t == tagArrayEnd then d else d.push 44)
  else if top == stackObject then (if t == tagObjectEnd then d else d.push 44)
  else d

theorem sep_run (e : Env) (tape : Array UInt64) (f : Nat) (st d : Bytes) (t : UInt8)
    (hS : e.get "stack" = some (.bytes st)) (ht : e.get "i.t" = some (.u8 t)) (hd : e.get "dst" = some (.bytes d))
    (hsz : 0 < st.size) :
    ∃ e', exec1 goFuns f sepSw ⟨e, tape⟩ = .normal ⟨e', tape⟩ ∧ e'.get "dst" = some (.bytes (sepDst st.back! t d)) ∧
      ∀ k, k ≠ "dst" → e'.get k = e.get k := by
  have htop := eval_top e tape st hS hsz
  have hsw : sepSw = .switch topE [([.u8 1], [.switch (.v "i.t") [([.u8 93], [])] [.assign "dst" (.pushB (.v "dst") (.u8 44))]]),
      ([.u8 2], [.switch (.v "i.t") [([.u8 125], [])] [.assign "dst" (.pushB (.v "dst") (.u8 44))]])] [] := rfl
  rw [hsw, exec1, htop]
  simp only [sepDst, stackArray, stackObject, tagArrayEnd, tagObjectEnd]
  by_cases h1 : st.back! = 1
  · by_cases h2 : t = 93
    · refine ⟨e, ?_, ?_, fun _ _ => rfl⟩
      · simp [h1, h2, ht]
      · simp [h1, h2, hd]
    · have hb : (t == 93) = false := by simp [h2]
      have hb' : ¬ (93 : UInt8) = t := fun h => h2 h.symm
      refine ⟨e.set "dst" (.bytes (d.push 44)), ?_, ?_, fun k hk => Env.get_set_ne _ _ (Ne.symm hk)⟩
      · simp [h1, h2, ht, hd, hb, hb']
      · simp [h1, h2, hb, Env.get_set]
  · have hb1 : (st.back! == 1) = false := by simp [h1]
    have hb1' : ¬ (1 : UInt8) = st.back! := fun h => h1 h.symm
    by_cases h3 : st.back! = 2
    · by_cases h2 : t = 125
      · refine ⟨e, ?_, ?_, fun _ _ => rfl⟩
        · simp [h3, h2, ht]
        · simp [h3, h2, hd]
      · have hb : (t == 125) = false := by simp [h2]
        have hb' : ¬ (125 : UInt8) = t := fun h => h2 h.symm
        refine ⟨e.set "dst" (.bytes (d.push 44)), ?_, ?_, fun k hk => Env.get_set_ne _ _ (Ne.symm hk)⟩
        · simp [h3, h2, ht, hd, hb, hb']
        · simp [h3, h2, hb, Env.get_set]
    · have hb3 : (st.back! == 2) = false := by simp [h3]
      have hb3' : ¬ (2 : UInt8) = st.back! := fun h => h3 h.symm
      refine ⟨e, ?_, ?_, fun _ _ => rfl⟩
      · simp [h1, h3, hb1, hb3, hb1', hb3']
      · simp [h1, h3, hb1, hb3, hd]


theorem post_sim (pj : PJ) (e : Env) (s : MState) (done : Bool) (f : Nat) (hR : Rep pj e s) (hI : Inv pj s)
    (hv : e.get "valueDone" = some (.bool done)) (hf : s.i.lim + 8 ≤ f) :
    StepSim pj s.i.lim (exec goFuns (f + 1) postSec ⟨e, pj.tape⟩) (WalkSafe.contF pj s done) := by
  rw [postSec_eq, exec, postA_run e pj.tape (f + 1) s.stack done hv hR.stack]
  unfold WalkSafe.contF
  by_cases hd : done = true ∧ s.stack.size = 1
  · have hd' : (done = true ∧ (s.stack.size == 1) = true) := by simpa using hd
    simp only [hd, hd', and_self, if_true, StepSim]
    exact ⟨e, rfl, hR, hI, rfl⟩
  · have hd' : ¬ (done = true ∧ (s.stack.size == 1) = true) := by simpa using hd
    simp only [hd, hd', if_false]
    have hpk := call_peek pj ⟨e, pj.tape⟩ s.i "#c4" (by decide) f (by unfold fuelFor; omega) hI.lim hR.it hR.keeps
    rw [exec]
    unfold Iter.marshalPost
    cases hp : s.i.peekNextTag pj with
    | ok nt =>
      rw [hp] at hpk
      simp only [] at hpk
      rw [hpk]
      simp only [Res.bind_ok]
      have hR3 : Rep pj ((afterCall e pj s.i).set "#c4" (.u8 nt)) s := (Rep.called hR).set "#c4" _ (by decide)
      have hc3 : ((afterCall e pj s.i).set "#c4" (.u8 nt)).get "#c4" = some (.u8 nt) := Env.get_set_self _ _ _
      generalize (afterCall e pj s.i).set "#c4" (.u8 nt) = e3 at hR3 hc3
      rw [exec, postC_run e3 pj.tape (f + 1) nt hc3]
      by_cases hnt : nt = 0
      · simp only [hnt, if_true, tagEnd, beq_self_eq_true, StepSim, Res.bind_ok]
        exact ⟨e3, rfl, hR3, hI, trivial⟩
      · have hnb : (nt == tagEnd) = false := by simp [tagEnd, hnt]
        simp only [hnt, if_false, hnb, Bool.false_eq_true]
        have hadv := call_adv pj ⟨e3, pj.tape⟩ s.i f (by unfold fuelFor; omega) hI.lim hR3.it rfl
        rw [exec]
        cases ha : s.i.advanceInto pj with
        | ok r =>
          obtain ⟨j', tg⟩ := r
          rw [ha] at hadv
          simp only [] at hadv
          rw [hadv]
          simp only [Res.bind_ok]
          obtain ⟨l1, l2⟩ := advanceInto_inv pj s.i j' tg ha
          have hR4 := hR3.withIter j'
          obtain ⟨g1, g2, g3, g4, g5⟩ := iterAt_get_i _ _ hR4.it
          obtain ⟨e', he', hd', hk'⟩ := sep_run (setIter e3 "i" j') pj.tape (f + 1) s.stack s.dst j'.t hR4.stack g4 hR4.dst
            hI.pos
          rw [exec, he']
          simp only [exec, StepSim]
          refine ⟨e', Or.inl rfl, ?_, ⟨?_, l2 hI.cur, hI.bot⟩, l1⟩
          · have := hR4.congr_dst _ hd' hk'
            simpa [sepDst] using this
          · simp only; rw [l1]; exact hI.lim
        | panic =>
          rw [ha] at hadv
          simp only [] at hadv
          rw [hadv]
          simp [StepSim]
        | error e => rw [ha] at hadv; exact hadv.elim
        | diverge => rw [ha] at hadv; exact hadv.elim
    | panic =>
      rw [hp] at hpk
      simp only [] at hpk
      rw [hpk]
      simp [StepSim]
    | error e => rw [hp] at hpk; exact hpk.elim
    | diverge => rw [hp] at hpk; exact hpk.elim


/-! ## the tag switch -/

/-- the statements of the `k`-th `case` of `switch i.t` -/
def tcase (k : Nat) : List Stmt :=
  match tagSwitch with
  | .switchL _ _ cs _ => ((cs.drop k).headD ([], [])).2
  | _ => []

/-- what the labelled switch does with the outcome of its case -/
def catchL (o : Out) : Out :=
  match o with
  | .brk s' =>
    (match s'.env.get "#break:tagswitch" with
     | some (.bool true) => .normal { s' with env := s'.env.set "#break:tagswitch" (.bool false) }
     | _ => .brk s')
  | o => o

def tcases : List (List Expr × List Stmt) := match tagSwitch with | .switchL _ _ cs _ => cs | _ => []
theorem tagSwitch_eq : tagSwitch = .switchL "tagswitch" (.v "i.t") tcases [] := rfl

theorem sw_root (e : Env) (tape : Array UInt64) (f : Nat) (ht : e.get "i.t" = some (.u8 114)) :
    exec1 goFuns f tagSwitch ⟨e, tape⟩ = catchL (exec goFuns f (tcase 0) ⟨e, tape⟩) := by
  rw [tagSwitch_eq, exec1]
  simp [tcases, tcase, tagSwitch, bodyL, firstLoop, goIter_MarshalJSONBuffer, ht, -exec, -exec1]
  rfl

theorem sw_string (e : Env) (tape : Array UInt64) (f : Nat) (ht : e.get "i.t" = some (.u8 34)) :
    exec1 goFuns f tagSwitch ⟨e, tape⟩ = catchL (exec goFuns f (tcase 1) ⟨e, tape⟩) := by
  rw [tagSwitch_eq, exec1]
  simp [tcases, tcase, tagSwitch, bodyL, firstLoop, goIter_MarshalJSONBuffer, ht, -exec, -exec1]
  rfl

theorem sw_int (e : Env) (tape : Array UInt64) (f : Nat) (ht : e.get "i.t" = some (.u8 108)) :
    exec1 goFuns f tagSwitch ⟨e, tape⟩ = catchL (exec goFuns f (tcase 2) ⟨e, tape⟩) := by
  rw [tagSwitch_eq, exec1]
  simp [tcases, tcase, tagSwitch, bodyL, firstLoop, goIter_MarshalJSONBuffer, ht, -exec, -exec1]
  rfl

theorem sw_uint (e : Env) (tape : Array UInt64) (f : Nat) (ht : e.get "i.t" = some (.u8 117)) :
    exec1 goFuns f tagSwitch ⟨e, tape⟩ = catchL (exec goFuns f (tcase 3) ⟨e, tape⟩) := by
  rw [tagSwitch_eq, exec1]
  simp [tcases, tcase, tagSwitch, bodyL, firstLoop, goIter_MarshalJSONBuffer, ht, -exec, -exec1]
  rfl

theorem sw_float (e : Env) (tape : Array UInt64) (f : Nat) (ht : e.get "i.t" = some (.u8 100)) :
    exec1 goFuns f tagSwitch ⟨e, tape⟩ = catchL (exec goFuns f (tcase 4) ⟨e, tape⟩) := by
  rw [tagSwitch_eq, exec1]
  simp [tcases, tcase, tagSwitch, bodyL, firstLoop, goIter_MarshalJSONBuffer, ht, -exec, -exec1]
  rfl

theorem sw_null (e : Env) (tape : Array UInt64) (f : Nat) (ht : e.get "i.t" = some (.u8 110)) :
    exec1 goFuns f tagSwitch ⟨e, tape⟩ = catchL (exec goFuns f (tcase 5) ⟨e, tape⟩) := by
  rw [tagSwitch_eq, exec1]
  simp [tcases, tcase, tagSwitch, bodyL, firstLoop, goIter_MarshalJSONBuffer, ht, -exec, -exec1]
  rfl

theorem sw_true (e : Env) (tape : Array UInt64) (f : Nat) (ht : e.get "i.t" = some (.u8 116)) :
    exec1 goFuns f tagSwitch ⟨e, tape⟩ = catchL (exec goFuns f (tcase 6) ⟨e, tape⟩) := by
  rw [tagSwitch_eq, exec1]
  simp [tcases, tcase, tagSwitch, bodyL, firstLoop, goIter_MarshalJSONBuffer, ht, -exec, -exec1]
  rfl

theorem sw_false (e : Env) (tape : Array UInt64) (f : Nat) (ht : e.get "i.t" = some (.u8 102)) :
    exec1 goFuns f tagSwitch ⟨e, tape⟩ = catchL (exec goFuns f (tcase 7) ⟨e, tape⟩) := by
  rw [tagSwitch_eq, exec1]
  simp [tcases, tcase, tagSwitch, bodyL, firstLoop, goIter_MarshalJSONBuffer, ht, -exec, -exec1]
  rfl

theorem sw_objStart (e : Env) (tape : Array UInt64) (f : Nat) (ht : e.get "i.t" = some (.u8 123)) :
    exec1 goFuns f tagSwitch ⟨e, tape⟩ = catchL (exec goFuns f (tcase 8) ⟨e, tape⟩) := by
  rw [tagSwitch_eq, exec1]
  simp [tcases, tcase, tagSwitch, bodyL, firstLoop, goIter_MarshalJSONBuffer, ht, -exec, -exec1]
  rfl

theorem sw_objEnd (e : Env) (tape : Array UInt64) (f : Nat) (ht : e.get "i.t" = some (.u8 125)) :
    exec1 goFuns f tagSwitch ⟨e, tape⟩ = catchL (exec goFuns f (tcase 9) ⟨e, tape⟩) := by
  rw [tagSwitch_eq, exec1]
  simp [tcases, tcase, tagSwitch, bodyL, firstLoop, goIter_MarshalJSONBuffer, ht, -exec, -exec1]
  rfl

theorem sw_arrStart (e : Env) (tape : Array UInt64) (f : Nat) (ht : e.get "i.t" = some (.u8 91)) :
    exec1 goFuns f tagSwitch ⟨e, tape⟩ = catchL (exec goFuns f (tcase 10) ⟨e, tape⟩) := by
  rw [tagSwitch_eq, exec1]
  simp [tcases, tcase, tagSwitch, bodyL, firstLoop, goIter_MarshalJSONBuffer, ht, -exec, -exec1]
  rfl

theorem sw_arrEnd (e : Env) (tape : Array UInt64) (f : Nat) (ht : e.get "i.t" = some (.u8 93)) :
    exec1 goFuns f tagSwitch ⟨e, tape⟩ = catchL (exec goFuns f (tcase 11) ⟨e, tape⟩) := by
  rw [tagSwitch_eq, exec1]
  simp [tcases, tcase, tagSwitch, bodyL, firstLoop, goIter_MarshalJSONBuffer, ht, -exec, -exec1]
  rfl

theorem sw_end (e : Env) (tape : Array UInt64) (f : Nat) (ht : e.get "i.t" = some (.u8 0)) :
    exec1 goFuns f tagSwitch ⟨e, tape⟩ = catchL (exec goFuns f (tcase 12) ⟨e, tape⟩) := by
  rw [tagSwitch_eq, exec1]
  simp [tcases, tcase, tagSwitch, bodyL, firstLoop, goIter_MarshalJSONBuffer, ht, -exec, -exec1]
  rfl

theorem sw_other (e : Env) (tape : Array UInt64) (f : Nat) (t : UInt8) (ht : e.get "i.t" = some (.u8 t))
    (h : t ∉ [114, 34, 108, 117, 100, 110, 116, 102, 123, 125, 91, 93, (0 : UInt8)]) :
    exec1 goFuns f tagSwitch ⟨e, tape⟩ = .normal ⟨e, tape⟩ := by
  simp only [List.mem_cons, List.not_mem_nil, or_false, not_or] at h
  obtain ⟨h1, h2, h3, h4, h5, h6, h7, h8, h9, h10, h11, h12, h13⟩ := h
  rw [tagSwitch_eq, exec1]
  simp [tcases, tagSwitch, bodyL, firstLoop, goIter_MarshalJSONBuffer, ht, -exec, -exec1, Ne.symm h1, Ne.symm h2,
    Ne.symm h3, Ne.symm h4, Ne.symm h5, Ne.symm h6, Ne.symm h7, Ne.symm h8, Ne.symm h9, Ne.symm h10, Ne.symm h11,
    Ne.symm h12, Ne.symm h13]
  simp

end SJ.GoMarshal
