import SJ.Proofs.GoIter
import SJ.Proofs.GoSetLemmas
import SJ.Model.Object
set_option linter.unusedVariables false
set_option linter.unusedSimpArgs false
/-
GoObjectLemmas — vocabulary and call lemmas for `GoObject.lean`
(`ParsedJson.stringByteAt`, `Iter.StringBytes`, `Iter.Bool`, `Object.NextElementBytes`).

* `BufOK`: the one hypothesis about the document — `len(pj.Message)` and `len(pj.Strings.B)` are Go `int`s.
* `stringByteAt_exec`: the body of `stringByteAt` on its frame, for every input.
* `callFun_sb`: `recv.stringByteAt(a1, a2)` through `callFun` from any caller store.
* `viewAt`/`NEInit`/`callFun_neb`/`backNEB_ret`: the frame `callFun` builds for `o.NextElementBytes(dst)` and how
  the receiver, `*dst` and the shared buffers come back.
-/
namespace SJ.GoObject
open SJ SJ.GoSem SJ.Generated SJ.GoIter

attribute [local simp] exec exec1 execCases evalE evalEs isOneOf binop convert ofE copyFields bindParams
  iterFields runFun tblLookup

/-! ## `stringByteAt` -/

/-- Go's `len` is an `int`: the two buffers are shorter than `2^63` bytes.  (The model compares natural numbers; the
    code compares `uint64(len(..))` and converts the slice bounds with `int(..)`.) -/
def BufOK (pj : PJ) : Prop := pj.msg.size < 2^63 ∧ pj.strings.size < 2^63

/-- the frame of `pj.stringByteAt(offset, length)`; `n = len(pj.Tape)` is carried along and never read -/
def sbEnv (n : Int) (pj : PJ) (off len : UInt64) : Env :=
  [("pj.lim", .int n), ("Strings.B", .bytes pj.strings), ("Message", .bytes pj.msg), ("offset", .u64 off),
   ("length", .u64 len)]

/-- the parameter `offset` when the function returns (`offset = offset & STRINGBUFMASK` on the string-buffer path) -/
def sbOff (off : UInt64) : UInt64 := if off &&& wSTRINGBUFBIT = 0 then off else off &&& wSTRINGBUFMASK

/-- the values `([]byte, error)` returned for a result of the model -/
def sbVals : Res Bytes → List Val
  | .ok b => [.bytes b, .bool false]
  | _ => [.bytes #[], .bool true]

theorem gt_ofInt_size (e : UInt64) (n : Nat) (h : n < 2^63) : (e > UInt64.ofInt (n : Int)) ↔ e.toNat > n := by
  rw [GoSet.ofInt_natCast]
  show UInt64.ofNat n < e ↔ _
  rw [UInt64.lt_iff_toNat_lt]
  simp
  have : n % 18446744073709551616 = n := Nat.mod_eq_of_lt (by omega)
  rw [this]

/-- the model of `stringByteAt` returns bytes or an error: it has no panic (and no loop) -/
theorem stringByteAt_cases (pj : PJ) (off len : UInt64) :
    (∃ b, stringByteAt pj off len = .ok b) ∨ stringByteAt pj off len = .error .generic := by
  unfold stringByteAt
  split
  · simp only []; split
    · exact Or.inr rfl
    · exact Or.inl ⟨_, rfl⟩
  · simp only []; split
    · exact Or.inr rfl
    · exact Or.inl ⟨_, rfl⟩

/-- `stringByteAt` as translated, on its frame: returns what the model says; the frame keeps the buffers -/
theorem stringByteAt_exec (pj : PJ) (n : Int) (off len : UInt64) (tape : Array UInt64) (fuel : Nat) (hb : BufOK pj) :
    exec goFuns fuel goParsedJson_stringByteAt.body ⟨sbEnv n pj off len, tape⟩ =
      .ret ⟨sbEnv n pj (sbOff off) len, tape⟩ (sbVals (stringByteAt pj off len)) := by
  obtain ⟨hm, hs⟩ := hb
  simp only [goParsedJson_stringByteAt, sbEnv, stringByteAt, sbOff, wSTRINGBUFBIT, wSTRINGBUFMASK]
  by_cases h0 : off &&& 36028797018963968 = 0
  · by_cases h1 : (off + len).toNat > pj.msg.size
    · simp [h0, h1, Env.get, Env.set, gt_ofInt_size _ _ hm, -UInt64.toNat_add, sbVals]
    · by_cases h2 : off + len < off
      · simp [h0, h1, h2, Env.get, Env.set, gt_ofInt_size _ _ hm, -UInt64.toNat_add, sbVals]
      · have h3 : off.toNat ≤ (off + len).toNat := by
          rw [UInt64.lt_iff_toNat_lt] at h2; omega
        have h4 : toInt64 off = (off.toNat : Int) := toInt64_small _ (by omega)
        have h5 : toInt64 (off + len) = ((off + len).toNat : Int) := toInt64_small _ (by omega)
        have h6 : (off + len).toNat ≤ pj.msg.size := by omega
        simp [h0, h1, h2, Env.get, Env.set, gt_ofInt_size _ _ hm, -UInt64.toNat_add, sbVals, h4, h5, h3, h6, slice]
  · have hb0 : (off &&& 36028797018963968 == 0) = false := by simp [h0]
    by_cases h1 : ((off &&& 36028797018963967) + len).toNat > pj.strings.size
    · simp [h0, hb0, h1, Env.get, Env.set, gt_ofInt_size _ _ hs, -UInt64.toNat_add, -UInt64.toNat_and, sbVals]
    · by_cases h2 : (off &&& 36028797018963967) + len < (off &&& 36028797018963967)
      · simp [h0, hb0, h1, h2, Env.get, Env.set, gt_ofInt_size _ _ hs, -UInt64.toNat_add, -UInt64.toNat_and, sbVals]
      · have h3 : (off &&& 36028797018963967).toNat ≤ ((off &&& 36028797018963967) + len).toNat := by
          rw [UInt64.lt_iff_toNat_lt] at h2; omega
        have h4 : toInt64 (off &&& 36028797018963967) = ((off &&& 36028797018963967).toNat : Int) :=
          toInt64_small _ (by omega)
        have h5 : toInt64 ((off &&& 36028797018963967) + len) = (((off &&& 36028797018963967) + len).toNat : Int) :=
          toInt64_small _ (by omega)
        have h6 : ((off &&& 36028797018963967) + len).toNat ≤ pj.strings.size := by omega
        simp [h0, hb0, h1, h2, Env.get, Env.set, gt_ofInt_size _ _ hs, -UInt64.toNat_add, -UInt64.toNat_and, sbVals,
          h4, h5, h3, h6, slice]

/-- `recv.stringByteAt(a1, a2)` from any caller: the callee's frame is `sbEnv`; the caller gets the values the model
    says and its own store back (the receiver's view length and the two buffers are re-assigned their old values) -/
theorem callFun_sb (s : St) (pj : PJ) (recv : String) (n : Int) (a1 a2 : Expr) (off len : UInt64) (f : Nat)
    (hb : BufOK pj) (hl : s.env.get (recv ++ "." ++ "lim") = some (.int n))
    (hS : s.env.get "Strings.B" = some (.bytes pj.strings)) (hM : s.env.get "Message" = some (.bytes pj.msg))
    (h1 : evalE s a1 = .val (.u64 off)) (h2 : evalE s a2 = .val (.u64 len)) :
    callFun goFuns f recv "ParsedJson.stringByteAt" [] [a1, a2] s =
      .ret ⟨((s.env.set (recv ++ "." ++ "lim") (.int n)).set "Strings.B" (.bytes pj.strings)).set "Message"
        (.bytes pj.msg), s.tape⟩ (sbVals (stringByteAt pj off len)) := by
  have he := stringByteAt_exec pj n off len s.tape f hb
  simp only [sbEnv, goParsedJson_stringByteAt] at he
  rw [callFun]
  simp [goFuns, goParsedJson_stringByteAt, h1, h2, hl, hS, hM, copyPtrs, copyGlobals, globalVars, copyPtrsBack,
    Env.set, Env.get, -exec, -exec1]
  rw [he]
  simp [sbEnv, Env.get, copyPtrsBack, copyGlobals]

/-! ## `Object` views in a store -/

/-- read an `Object` (view length and read offset) back out of a store -/
def viewAt (e : Env) (pfx : String) : Option View :=
  match e.get (pfx ++ ".off"), e.get (pfx ++ ".lim") with
  | some (.int o), some (.int l) => if 0 ≤ o ∧ 0 ≤ l then some { lim := l.toNat, off := o.toNat } else none
  | _, _ => none

theorem viewAt_get (e : Env) (pfx : String) (v : View) (h : viewAt e pfx = some v) :
    e.get (pfx ++ ".off") = some (.int v.off) ∧ e.get (pfx ++ ".lim") = some (.int v.lim) := by
  unfold viewAt at h
  split at h
  · rename_i o l h1 h2
    split at h
    · rename_i hh
      simp only [Option.some.injEq] at h
      subst h
      simp [h1, h2, Int.toNat_of_nonneg hh.1, Int.toNat_of_nonneg hh.2]
    · cases h
  · cases h

theorem viewAt_get_o (e : Env) (v : View) (h : viewAt e "o" = some v) :
    e.get "o.off" = some (.int v.off) ∧ e.get "o.lim" = some (.int v.lim) := viewAt_get e "o" v h

theorem viewAt_of_gets (e : Env) (pfx : String) (v : View) (h1 : e.get (pfx ++ ".off") = some (.int v.off))
    (h2 : e.get (pfx ++ ".lim") = some (.int v.lim)) : viewAt e pfx = some v := by
  simp [viewAt, h1, h2]

/-- the document's two shared buffers, as the store holds them -/
def bufEnv (pj : PJ) : Env := [("Strings.B", .bytes pj.strings), ("Message", .bytes pj.msg)]

/-- the store of `o.NextElementBytes(dst)`: the receiver, `*dst`, the shared buffers — the conventional initial store,
    and exactly the frame `callFun` builds for the recursive call -/
def neEnv (v : View) (d : Iter) (pj : PJ) : Env :=
  [("o.off", .int v.off), ("o.lim", .int v.lim)] ++ envOf "dst" d ++ bufEnv pj

/-- what `NextElementBytes` needs of a store: the document, the receiver `o`, a complete `*dst` -/
structure NEInit (pj : PJ) (v : View) (d : Iter) (s : St) : Prop where
  tape : s.tape = pj.tape
  view : viewAt s.env "o" = some v
  dst : iterAt s.env "dst" = some d
  strs : s.env.get "Strings.B" = some (.bytes pj.strings)
  msg : s.env.get "Message" = some (.bytes pj.msg)

theorem NEInit_neEnv (pj : PJ) (v : View) (d : Iter) : NEInit pj v d ⟨neEnv v d pj, pj.tape⟩ := by
  constructor <;> simp [neEnv, envOf, bufEnv, viewAt, iterAt, Env.get]

/-- how `callFun` hands the outcome of the callee `Object.NextElementBytes` back to the caller `s`: receiver fields,
    the fields of `*dst`, the shared buffers (this is `callFun`'s own code, specialised to the callee's `FunDef`) -/
def backNEB (s : St) : Out → Out
  | .ret s' rs =>
    (match copyFields s'.env "o" s.env "o" ["off", "lim"] with
     | some e2 =>
       (match copyPtrsBack s'.env e2 ["dst"] [("dst", ["off", "addNext", "cur", "t", "lim"])] with
        | some e3 => .ret { env := copyGlobals s'.env e3 globalVars, tape := s'.tape } rs
        | none => .stuck "pointer arguments back")
     | none => .stuck "receiver back")
  | .normal s' =>
    (match copyFields s'.env "o" s.env "o" ["off", "lim"] with
     | some e2 =>
       (match copyPtrsBack s'.env e2 ["dst"] [("dst", ["off", "addNext", "cur", "t", "lim"])] with
        | some e3 => .ret { env := copyGlobals s'.env e3 globalVars, tape := s'.tape } []
        | none => .stuck "pointer arguments back")
     | none => .stuck "receiver back")
  | .brk _ | .cont _ => .stuck "break outside loop"
  | o => o

/-- `o.NextElementBytes(dst)` from any caller holding `o`, `*dst` and the buffers: the callee's frame is `neEnv`
    (the old content of the caller's other variables does not reach the callee) -/
theorem callFun_neb (s : St) (pj : PJ) (v : View) (d : Iter) (f : Nat) (h : NEInit pj v d s) :
    callFun goFuns f "o" "Object.NextElementBytes" ["dst"] [] s =
      backNEB s (exec goFuns f goObject_NextElementBytes.body ⟨neEnv v d pj, pj.tape⟩) := by
  obtain ⟨ht, hv, hd, hS, hM⟩ := h
  obtain ⟨v1, v2⟩ := viewAt_get_o _ _ hv
  obtain ⟨d1, d2, d3, d4, d5⟩ := iterAt_get_dst _ _ hd
  rw [callFun]
  simp [goFuns, goObject_NextElementBytes, v1, v2, d1, d2, d3, d4, d5, hS, hM, copyPtrs, copyGlobals, globalVars,
    Env.set, Env.get, -exec, -exec1, neEnv, envOf, bufEnv, ht]
  generalize exec goFuns f _ _ = out
  cases out <;> rfl

/-- the caller's store after the call: `o`, `*dst` and the buffers are the callee's, everything else is the caller's -/
def backEnv (e : Env) (pj : PJ) (v' : View) (d' : Iter) : Env :=
  ((setIter ((e.set "o.off" (.int v'.off)).set "o.lim" (.int v'.lim)) "dst" d').set "Strings.B"
    (.bytes pj.strings)).set "Message" (.bytes pj.msg)

theorem backNEB_ret (s s' : St) (rs : List Val) (pj : PJ) (v' : View) (d' : Iter) (h : NEInit pj v' d' s') :
    backNEB s (.ret s' rs) = .ret ⟨backEnv s.env pj v' d', pj.tape⟩ rs := by
  obtain ⟨ht, hv, hd, hS, hM⟩ := h
  obtain ⟨v1, v2⟩ := viewAt_get_o _ _ hv
  obtain ⟨d1, d2, d3, d4, d5⟩ := iterAt_get_dst _ _ hd
  simp [backNEB, v1, v2, d1, d2, d3, d4, d5, hS, hM, ht, copyPtrsBack, copyGlobals, globalVars, backEnv, setIter]

theorem NEInit_backEnv (e : Env) (pj : PJ) (v' : View) (d' : Iter) : NEInit pj v' d' ⟨backEnv e pj v' d', pj.tape⟩ := by
  constructor
  · rfl
  · apply viewAt_of_gets <;> simp [backEnv, setIter, Env.get_set]
  · apply iterAt_of_gets <;> simp [backEnv, setIter, Env.get_set]
  · simp [backEnv, Env.get_set]
  · simp [backEnv, Env.get_set]

/-- the variables `NextElementBytes` shares with its caller -/
def neKeys : List String :=
  ["o.off", "o.lim", "dst.off", "dst.addNext", "dst.cur", "dst.t", "dst.lim", "Strings.B", "Message"]

theorem NEInit.set {pj : PJ} {v : View} {d : Iter} {e : Env} {t : Array UInt64} (h : NEInit pj v d ⟨e, t⟩) (k : String)
    (x : Val) (hk : k ∉ neKeys) : NEInit pj v d ⟨e.set k x, t⟩ := by
  simp only [neKeys, List.mem_cons, List.not_mem_nil, or_false, not_or] at hk
  obtain ⟨k1, k2, k3, k4, k5, k6, k7, k8, k9⟩ := hk
  obtain ⟨ht, hv, hd, hS, hM⟩ := h
  obtain ⟨v1, v2⟩ := viewAt_get_o _ _ hv
  obtain ⟨d1, d2, d3, d4, d5⟩ := iterAt_get_dst _ _ hd
  constructor
  · exact ht
  · apply viewAt_of_gets <;> simp [Env.get_set, *]
  · apply iterAt_of_gets <;> simp [Env.get_set, *]
  · simp [Env.get_set, *]
  · simp [Env.get_set, *]

/-- `o.off = o'` -/
theorem NEInit.setOff {pj : PJ} {v : View} {d : Iter} {e : Env} {t : Array UInt64} (h : NEInit pj v d ⟨e, t⟩) (o' : Nat) :
    NEInit pj { v with off := o' } d ⟨e.set "o.off" (.int o'), t⟩ := by
  obtain ⟨ht, hv, hd, hS, hM⟩ := h
  obtain ⟨v1, v2⟩ := viewAt_get_o _ _ hv
  obtain ⟨d1, d2, d3, d4, d5⟩ := iterAt_get_dst _ _ hd
  constructor
  · exact ht
  · apply viewAt_of_gets <;> simp [Env.get_set, *]
  · apply iterAt_of_gets <;> simp [Env.get_set, *]
  · simp [Env.get_set, *]
  · simp [Env.get_set, *]

/-- re-assigning a shared variable its own value -/
theorem NEInit.reset {pj : PJ} {v : View} {d : Iter} {e : Env} {t : Array UInt64} (h : NEInit pj v d ⟨e, t⟩) (k : String)
    (x : Val) (hx : e.get k = some x) : NEInit pj v d ⟨e.set k x, t⟩ := by
  obtain ⟨ht, hv, hd, hS, hM⟩ := h
  have hg : ∀ k', (e.set k x).get k' = e.get k' := by
    intro k'
    rw [Env.get_set]
    by_cases hk : k = k'
    · subst hk; simp [hx]
    · simp [hk]
  constructor
  · exact ht
  · simp only [viewAt, hg]; exact hv
  · simp only [iterAt, hg]; exact hd
  · simp only [hg]; exact hS
  · simp only [hg]; exact hM

/-- `*dst = j` -/
theorem NEInit.setDst {pj : PJ} {v : View} {d : Iter} {e : Env} {t : Array UInt64} (h : NEInit pj v d ⟨e, t⟩) (j : Iter) :
    NEInit pj v j ⟨setIter e "dst" j, t⟩ := by
  obtain ⟨ht, hv, hd, hS, hM⟩ := h
  obtain ⟨v1, v2⟩ := viewAt_get_o _ _ hv
  constructor
  · exact ht
  · apply viewAt_of_gets <;> simp [setIter, Env.get_set, *]
  · exact iterAt_setIter_dst _ _
  · simp [setIter, Env.get_set, *]
  · simp [setIter, Env.get_set, *]

/-! ## the syntax tree of `NextElementBytes`, cut into pieces -/

/-- named results, the end-of-view test, the first read -/
def nebPre : List Stmt := goObject_NextElementBytes.body.take 5
/-- `switch Tag(v >> 56)` -/
def nebSwitch : Stmt := (goObject_NextElementBytes.body.drop 5).headD .brk
/-- from `v = o.tape.Tape[o.off]` (the value word) to the end -/
def nebTail : List Stmt := goObject_NextElementBytes.body.drop 6

def swCase (st : Stmt) (k : Nat) : List Stmt :=
  match st with
  | .switch _ cs _ => ((cs.drop k).headD ([], [])).2
  | _ => []

/-- `case TagString:` -/
def nebStr : List Stmt := swCase nebSwitch 0
/-- `case TagNop:` -/
def nebNop : List Stmt := swCase nebSwitch 2

theorem neb_split : goObject_NextElementBytes.body = nebPre ++ nebSwitch :: nebTail := rfl

theorem neb_pre (e : Env) (tape : Array UInt64) (fuel : Nat) (off lim : Nat) (h1 : e.get "o.off" = some (.int off))
    (h2 : e.get "o.lim" = some (.int lim)) (hsz : lim ≤ tape.size) :
    exec goFuns fuel nebPre ⟨e, tape⟩ =
      if h : off ≥ lim then
        .ret ⟨((e.set "name" (.bytes #[])).set "t" (.u8 0)).set "err" (.bool false), tape⟩
          [.bytes #[], .u8 0, .bool false]
      else
        .normal ⟨(((e.set "name" (.bytes #[])).set "t" (.u8 0)).set "err" (.bool false)).set "v"
          (.u64 (tape[off]'(by omega))), tape⟩ := by
  simp only [nebPre, goObject_NextElementBytes, List.take]
  by_cases h : off ≥ lim
  · have h' : (lim : Int) ≤ off := by omega
    simp [h1, h2, h, h', Env.get_set]
  · have h' : ¬ (lim : Int) ≤ off := by omega
    have hlt : off < lim := by omega
    have hr : tape[off]? = some (tape[off]'(by omega)) := by simp
    simp [h1, h2, h, h', hlt, hr, Env.get_set]

theorem neb_switch (e : Env) (tape : Array UInt64) (fuel : Nat) (w : UInt64) (hv : e.get "v" = some (.u64 w)) :
    exec1 goFuns fuel nebSwitch ⟨e, tape⟩ =
      if tagOf w = 34 then exec goFuns fuel nebStr ⟨e, tape⟩
      else if tagOf w = 125 then .ret ⟨e, tape⟩ [.bytes #[], .u8 0, .bool false]
      else if tagOf w = 78 then exec goFuns fuel nebNop ⟨e, tape⟩
      else .ret ⟨e, tape⟩ [.bytes #[], .u8 0, .bool true] := by
  have ht : (w >>> 56).toUInt8 = tagOf w := rfl
  simp only [nebSwitch, nebStr, nebNop, swCase, goObject_NextElementBytes, List.drop, List.headD]
  rw [exec1]
  by_cases h1 : tagOf w = 34
  · simp [hv, ht, h1, -exec, -exec1]
  · have h1' : ¬ (34 : UInt8) = tagOf w := fun h => h1 h.symm
    by_cases h2 : tagOf w = 125
    · simp [hv, ht, h1, h2, -exec, -exec1]
      simp
    · have h2' : ¬ (125 : UInt8) = tagOf w := fun h => h2 h.symm
      by_cases h3 : tagOf w = 78
      · simp [hv, ht, h1, h2, h3, -exec, -exec1]
      · have h3' : ¬ (78 : UInt8) = tagOf w := fun h => h3 h.symm
        simp [hv, ht, h1, h2, h3, h1', h2', h3', -exec, -exec1]
        simp

/-! ### `case TagNop:` -/

theorem neb_nop (e : Env) (tape : Array UInt64) (f : Nat) (off : Nat) (w : UInt64)
    (h1 : e.get "o.off" = some (.int off)) (hv : e.get "v" = some (.u64 w)) :
    exec goFuns (f + 1) nebNop ⟨e, tape⟩ =
      if payloadOf w = 0 then .ret ⟨e.set "skip" (.int 0), tape⟩ [.bytes #[], .u8 0, .bool true]
      else callFun goFuns f "o" "Object.NextElementBytes" ["dst"] []
        ⟨(e.set "skip" (.int (payloadOf w).toNat)).set "o.off" (.int ((off + (payloadOf w).toNat : Nat) : Int)), tape⟩ := by
  have hp : w &&& 72057594037927935 = payloadOf w := rfl
  have hz : (payloadOf w = 0) ↔ (payloadOf w).toNat = 0 := by rw [← UInt64.toNat_inj]; rfl
  simp only [nebNop, nebSwitch, swCase, goObject_NextElementBytes, List.drop, List.headD]
  by_cases h0 : (payloadOf w).toNat = 0
  · simp [h1, hv, hp, hz, h0, toInt64_payload, Env.get_set]
  · simp [h1, hv, hp, hz, h0, toInt64_payload, Env.get_set]
    generalize callFun goFuns f _ _ _ _ _ = out
    cases out <;> rfl

/-! ### `case TagString:` -/

def nebStrA : List Stmt := nebStr.take 3
def nebStrC : List Stmt := nebStr.drop 4

theorem nebStr_split : nebStr = nebStrA ++
    .callAssign ["name", "err"] "o" "ParsedJson.stringByteAt" [] [.v "offset", .v "length"] :: nebStrC := rfl

theorem neb_strA (e : Env) (tape : Array UInt64) (fuel : Nat) (off lim : Nat) (w : UInt64)
    (h1 : e.get "o.off" = some (.int off)) (h2 : e.get "o.lim" = some (.int lim)) (hv : e.get "v" = some (.u64 w))
    (hsz : lim ≤ tape.size) :
    exec goFuns fuel nebStrA ⟨e, tape⟩ =
      if h : off + 2 ≥ lim then .ret ⟨e, tape⟩ [.bytes #[], .u8 0, .bool true]
      else .normal ⟨(e.set "length" (.u64 (tape[off + 1]'(by omega)))).set "offset" (.u64 (payloadOf w)), tape⟩ := by
  have hp : w &&& 72057594037927935 = payloadOf w := rfl
  simp only [nebStrA, nebStr, nebSwitch, swCase, goObject_NextElementBytes, List.drop, List.headD, List.take]
  by_cases h : off + 2 ≥ lim
  · have h' : (lim : Int) ≤ off + 2 := by omega
    simp [h1, h2, hv, h, h', Env.get_set]
  · have h' : ¬ (lim : Int) ≤ off + 2 := by omega
    have hlt : (off : Int) + 1 < lim := by omega
    have hr : tape[off + 1]? = some (tape[off + 1]'(by omega)) := by simp
    have hn : ((off : Int) + 1).toNat = off + 1 := by omega
    have h0 : (0 : Int) ≤ off + 1 := by omega
    simp [h1, h2, hv, hp, h, h', hlt, hr, hn, h0, Env.get_set]

theorem neb_strC (e : Env) (tape : Array UInt64) (fuel : Nat) (off : Nat) (b : Bool)
    (h1 : e.get "o.off" = some (.int off)) (he : e.get "err" = some (.bool b)) :
    exec goFuns fuel nebStrC ⟨e, tape⟩ =
      if b then .ret ⟨e, tape⟩ [.bytes #[], .u8 0, .bool true]
      else .normal ⟨e.set "o.off" (.int ((off + 2 : Nat) : Int)), tape⟩ := by
  simp only [nebStrC, nebStr, nebSwitch, swCase, goObject_NextElementBytes, List.drop, List.headD]
  cases b <;> simp [h1, he, Env.get_set]

end SJ.GoObject
