import SJ.Proofs.GoIter
import SJ.Proofs.GoSetLemmas
import SJ.Model.Object
set_option linter.unusedVariables false
set_option linter.unusedSimpArgs false
/-
GoObjectLemmas — vocabulary and call lemmas for `GoObject.lean`
(`ParsedJson.stringByteAt`, `Iter.StringBytes`, `Iter.Bool`, `Object.NextElementBytes`).

* `BufOK`: the one hypothesis about the document — `len(pj.Message)` and `len(pj.Strings.B)` are Go `int`s.
* `stringByteAt_exec`: the body of `stringByteAt` on its frame, for every input.
* `callFun_sb`: `recv.stringByteAt(a1, a2)` through `callFun` from any caller store.
* `viewAt`/`NEInit`/`callFun_neb`/`backNEB_ret`: the frame `callFun` builds for `o.NextElementBytes(dst)` and how
  the receiver, `*dst` and the shared buffers come back.
-/
namespace SJ.GoObject
open SJ SJ.GoSem SJ.Generated SJ.GoIter

attribute [local simp] exec exec1 execCases evalE evalEs isOneOf binop convert ofE copyFields bindParams
  iterFields runFun tblLookup

/-! ## `stringByteAt` -/

/-- Go's `len` is an `int`: the two buffers are shorter than `2^63` bytes.  (The model compares natural numbers; the
    code compares `uint64(len(..))` and converts the slice bounds with `int(..)`.) -/
def BufOK (pj : PJ) : Prop := pj.msg.size < 2^63 ∧ pj.strings.size < 2^63

/-- the frame of `pj.stringByteAt(offset, length)`; `n = len(pj.Tape)` is carried along and never read -/
def sbEnv (n : Int) (pj : PJ) (off len : UInt64) : Env :=
  [("pj.lim", .int n), ("Strings.B", .bytes pj.strings), ("Message", .bytes pj.msg), ("offset", .u64 off),
   ("length", .u64 len)]

/-- the parameter `offset` when the function returns (`offset = offset & STRINGBUFMASK` on the string-buffer path) -/
def sbOff (off : UInt64) : UInt64 := if off &&& wSTRINGBUFBIT = 0 then off else off &&& wSTRINGBUFMASK

/-- the values `([]byte, error)` returned for a result of the model -/
def sbVals : Res Bytes → List Val
  | .ok b => [.bytes b, .bool false]
  | _ => [.bytes #[], .bool true]

theorem gt_ofInt_size (e : UInt64) (n : Nat) (h : n < 2^63) : (e > UInt64.ofInt (n : Int)) ↔ e.toNat > n := by
  rw [GoSet.ofInt_natCast]
  show UInt64.ofNat n < e ↔ _
  rw [UInt64.lt_iff_toNat_lt]
  simp
  have : n % 18446744073709551616 = n := Nat.mod_eq_of_lt (by omega)
  rw [this]

/-- the model of `stringByteAt` returns bytes or an error: it has no panic (and no loop) -/
theorem stringByteAt_cases (pj : PJ) (off len : UInt64) :
    (∃ b, stringByteAt pj off len = .ok b) ∨ stringByteAt pj off len = .error .generic := by
  unfold stringByteAt
  split
  · simp only []; split
    · exact Or.inr rfl
    · exact Or.inl ⟨_, rfl⟩
  · simp only []; split
    · exact Or.inr rfl
    · exact Or.inl ⟨_, rfl⟩

/-- `stringByteAt` as translated, on its frame: returns what the model says; the frame keeps the buffers -/
theorem stringByteAt_exec (pj : PJ) (n : Int) (off len : UInt64) (tape : Array UInt64) (fuel : Nat) (hb : BufOK pj) :
    exec goFuns fuel goParsedJson_stringByteAt.body ⟨sbEnv n pj off len, tape⟩ =
      .ret ⟨sbEnv n pj (sbOff off) len, tape⟩ (sbVals (stringByteAt pj off len)) := by
  obtain ⟨hm, hs⟩ := hb
  simp only [goParsedJson_stringByteAt, sbEnv, stringByteAt, sbOff, wSTRINGBUFBIT, wSTRINGBUFMASK]
  by_cases h0 : off &&& 36028797018963968 = 0
  · by_cases h1 : (off + len).toNat > pj.msg.size
    · simp [h0, h1, Env.get, Env.set, gt_ofInt_size _ _ hm, -UInt64.toNat_add, sbVals]
    · by_cases h2 : off + len < off
      · simp [h0, h1, h2, Env.get, Env.set, gt_ofInt_size _ _ hm, -UInt64.toNat_add, sbVals]
      · have h3 : off.toNat ≤ (off + len).toNat := by
          rw [UInt64.lt_iff_toNat_lt] at h2; omega
        have h4 : toInt64 off = (off.toNat : Int) := toInt64_small _ (by omega)
        have h5 : toInt64 (off + len) = ((off + len).toNat : Int) := toInt64_small _ (by omega)
        have h6 : (off + len).toNat ≤ pj.msg.size := by omega
        simp [h0, h1, h2, Env.get, Env.set, gt_ofInt_size _ _ hm, -UInt64.toNat_add, sbVals, h4, h5, h3, h6, slice]
  · have hb0 : (off &&& 36028797018963968 == 0) = false := by simp [h0]
    by_cases h1 : ((off &&& 36028797018963967) + len).toNat > pj.strings.size
    · simp [h0, hb0, h1, Env.get, Env.set, gt_ofInt_size _ _ hs, -UInt64.toNat_add, -UInt64.toNat_and, sbVals]
    · by_cases h2 : (off &&& 36028797018963967) + len < (off &&& 36028797018963967)
      · simp [h0, hb0, h1, h2, Env.get, Env.set, gt_ofInt_size _ _ hs, -UInt64.toNat_add, -UInt64.toNat_and, sbVals]
      · have h3 : (off &&& 36028797018963967).toNat ≤ ((off &&& 36028797018963967) + len).toNat := by
          rw [UInt64.lt_iff_toNat_lt] at h2; omega
        have h4 : toInt64 (off &&& 36028797018963967) = ((off &&& 36028797018963967).toNat : Int) :=
          toInt64_small _ (by omega)
        have h5 : toInt64 ((off &&& 36028797018963967) + len) = (((off &&& 36028797018963967) + len).toNat : Int) :=
          toInt64_small _ (by omega)
        have h6 : ((off &&& 36028797018963967) + len).toNat ≤ pj.strings.size := by omega
        simp [h0, hb0, h1, h2, Env.get, Env.set, gt_ofInt_size _ _ hs, -UInt64.toNat_add, -UInt64.toNat_and, sbVals,
          h4, h5, h3, h6, slice]

/-- `recv.stringByteAt(a1, a2)` from any caller: the callee's frame is `sbEnv`; the caller gets the values the model
    says and its own store back (the receiver's view length and the two buffers are re-assigned their old values) -/
theorem callFun_sb (s : St) (pj : PJ) (recv : String) (n : Int) (a1 a2 : Expr) (off len : UInt64) (f : Nat)
    (hb : BufOK pj) (hl : s.env.get (recv ++ "." ++ "lim") = some (.int n))
    (hS : s.env.get "Strings.B" = some (.bytes pj.strings)) (hM : s.env.get "Message" = some (.bytes pj.msg))
    (h1 : evalE s a1 = .val (.u64 off)) (h2 : evalE s a2 = .val (.u64 len)) :
    callFun goFuns f recv "ParsedJson.stringByteAt" [] [a1, a2] s =
      .ret ⟨((s.env.set (recv ++ "." ++ "lim") (.int n)).set "Strings.B" (.bytes pj.strings)).set "Message"
        (.bytes pj.msg), s.tape⟩ (sbVals (stringByteAt pj off len)) := by
  have he := stringByteAt_exec pj n off len s.tape f hb
  simp only [sbEnv, goParsedJson_stringByteAt] at he
  rw [callFun]
  simp [goFuns, goParsedJson_stringByteAt, h1, h2, hl, hS, hM, copyPtrs, copyGlobals, globalVars, copyPtrsBack,
    Env.set, Env.get, -exec, -exec1]
  rw [he]
  simp [sbEnv, Env.get, copyPtrsBack, copyGlobals]

/-! ## `Object` views in a store -/

/-- read an `Object` (view length and read offset) back out of a store -/
def viewAt (e : Env) (pfx : String) : Option View :=
  match e.get (pfx ++ ".off"), e.get (pfx ++ ".lim") with
  | some (.int o), some (.int l) => if 0 ≤ o ∧ 0 ≤ l then some { lim := l.toNat, off := o.toNat } else none
  | _, _ => none

theorem viewAt_get (e : Env) (pfx : String) (v : View) (h : viewAt e pfx = some v) :
    e.get (pfx ++ ".off") = some (.int v.off) ∧ e.get (pfx ++ ".lim") = some (.int v.lim) := by
  unfold viewAt at h
  split at h
  · rename_i o l h1 h2
    split at h
    · rename_i hh
      simp only [Option.some.injEq] at h
      subst h
      simp [h1, h2, Int.toNat_of_nonneg hh.1, Int.toNat_of_nonneg hh.2]
    · cases h
  · cases h

theorem viewAt_get_o (e : Env) (v : View) (h : viewAt e "o" = some v) :
    e.get "o.off" = some (.int v.off) ∧ e.get "o.lim" = some (.int v.lim) := viewAt_get e "o" v h

theorem viewAt_of_gets (e : Env) (pfx : String) (v : View) (h1 : e.get (pfx ++ ".off") = some (.int v.off))
    (h2 : e.get (pfx ++ ".lim") = some (.int v.lim)) : viewAt e pfx = some v := by
  simp [viewAt, h1, h2]

/-- the document's two shared buffers, as the store holds them -/
def bufEnv (pj : PJ) : Env := [("Strings.B", .bytes pj.strings), ("Message", .bytes pj.msg)]

/-- the store of `o.NextElementBytes(dst)`: the receiver, `*dst`, the shared buffers — the conventional initial store,
    and exactly the frame `callFun` builds for the recursive call -/
def neEnv (v : View) (d : Iter) (pj : PJ) : Env :=
  [("o.off", .int v.off), ("o.lim", .int v.lim)] ++ envOf "dst" d ++ bufEnv pj

/-- what `NextElementBytes` needs of a store: the document, the receiver `o`, a complete `*dst` -/
structure NEInit (pj : PJ) (v : View) (d : Iter) (s : St) : Prop where
  tape : s.tape = pj.tape
  view : viewAt s.env "o" = some v
  dst : iterAt s.env "dst" = some d
  strs : s.env.get "Strings.B" = some (.bytes pj.strings)
  msg : s.env.get "Message" = some (.bytes pj.msg)

theorem NEInit_neEnv (pj : PJ) (v : View) (d : Iter) : NEInit pj v d ⟨neEnv v d pj, pj.tape⟩ := by
  constructor <;> simp [neEnv, envOf, bufEnv, viewAt, iterAt, Env.get]

/-- how `callFun` hands the outcome of the callee `Object.NextElementBytes` back to the caller `s`: receiver fields,
    the fields of `*dst`, the shared buffers (this is `callFun`'s own code, specialised to the callee's `FunDef`) -/
def backNEB (s : St) : Out → Out
  | .ret s' rs =>
    (match copyFields s'.env "o" s.env "o" ["off", "lim"] with
     | some e2 =>
       (match copyPtrsBack s'.env e2 ["dst"] [("dst", ["off", "addNext", "cur", "t", "lim"])] with
        | some e3 => .ret { env := copyGlobals s'.env e3 globalVars, tape := s'.tape } rs
        | none => .stuck "pointer arguments back")
     | none => .stuck "receiver back")
  | .normal s' =>
    (match copyFields s'.env "o" s.env "o" ["off", "lim"] with
     | some e2 =>
       (match copyPtrsBack s'.env e2 ["dst"] [("dst", ["off", "addNext", "cur", "t", "lim"])] with
        | some e3 => .ret { env := copyGlobals s'.env e3 globalVars, tape := s'.tape } []
        | none => .stuck "pointer arguments back")
     | none => .stuck "receiver back")
  | .brk _ | .cont _ => .stuck "break outside loop"
  | o => o

/-- `o.NextElementBytes(dst)` from any caller holding `o`, `*dst` and the buffers: the callee's frame is `neEnv`
    (the old content of the caller's other variables does not reach the callee) -/
theorem callFun_neb (s : St) (pj : PJ) (v : View) (d : Iter) (f : Nat) (h : NEInit pj v d s) :
    callFun goFuns f "o" "Object.NextElementBytes" ["dst"] [] s =
      backNEB s (exec goFuns f goObject_NextElementBytes.body ⟨neEnv v d pj, pj.tape⟩) := by
  obtain ⟨ht, hv, hd, hS, hM⟩ := h
  obtain ⟨v1, v2⟩ := viewAt_get_o _ _ hv
  obtain ⟨d1, d2, d3, d4, d5⟩ := iterAt_get_dst _ _ hd
  rw [callFun]
  simp [goFuns, goObject_NextElementBytes, v1, v2, d1, d2, d3, d4, d5, hS, hM, copyPtrs, copyGlobals, globalVars,
    Env.set, Env.get, -exec, -exec1, neEnv, envOf, bufEnv, ht]
  generalize exec goFuns f _ _ = out
  cases out <;> rfl

/-- the caller's store after the call: `o`, `*dst` and the buffers are the callee's, everything else is the caller's -/
def backEnv (e : Env) (pj : PJ) (v' : View) (d' : Iter) : Env :=
  ((setIter ((e.set "o.off" (.int v'.off)).set "o.lim" (.int v'.lim)) "dst" d').set "Strings.B"
    (.bytes pj.strings)).set "Message" (.bytes pj.msg)

theorem backNEB_ret (s s' : St) (rs : List Val) (pj : PJ) (v' : View) (d' : Iter) (h : NEInit pj v' d' s') :
    backNEB s (.ret s' rs) = .ret ⟨backEnv s.env pj v' d', pj.tape⟩ rs := by
  obtain ⟨ht, hv, hd, hS, hM⟩ := h
  obtain ⟨v1, v2⟩ := viewAt_get_o _ _ hv
  obtain ⟨d1, d2, d3, d4, d5⟩ := iterAt_get_dst _ _ hd
  simp [backNEB, v1, v2, d1, d2, d3, d4, d5, hS, hM, ht, copyPtrsBack, copyGlobals, globalVars, backEnv, setIter]

theorem NEInit_backEnv (e : Env) (pj : PJ) (v' : View) (d' : Iter) : NEInit pj v' d' ⟨backEnv e pj v' d', pj.tape⟩ := by
  constructor
  · rfl
  · apply viewAt_of_gets <;> simp [backEnv, setIter, Env.get_set]
  · apply iterAt_of_gets <;> simp [backEnv, setIter, Env.get_set]
  · simp [backEnv, Env.get_set]
  · simp [backEnv, Env.get_set]

/-- the variables `NextElementBytes` shares with its caller -/
def neKeys : List String :=
  ["o.off", "o.lim", "dst.off", "dst.addNext", "dst.cur", "dst.t", "dst.lim", "Strings.B", "Message"]

theorem NEInit.set {pj : PJ} {v : View} {d : Iter} {e : Env} {t : Array UInt64} (h : NEInit pj v d ⟨e, t⟩) (k : String)
    (x : Val) (hk : k ∉ neKeys) : NEInit pj v d ⟨e.set k x, t⟩ := by
  simp only [neKeys, List.mem_cons, List.not_mem_nil, or_false, not_or] at hk
  obtain ⟨k1, k2, k3, k4, k5, k6, k7, k8, k9⟩ := hk
  obtain ⟨ht, hv, hd, hS, hM⟩ := h
  obtain ⟨v1, v2⟩ := viewAt_get_o _ _ hv
  obtain ⟨d1, d2, d3, d4, d5⟩ := iterAt_get_dst _ _ hd
  constructor
  · exact ht
  · apply viewAt_of_gets <;> simp [Env.get_set, *]
  · apply iterAt_of_gets <;> simp [Env.get_set, *]
  · simp [Env.get_set, *]
  · simp [Env.get_set, *]

/-- `o.off = o'` -/
theorem NEInit.setOff {pj : PJ} {v : View} {d : Iter} {e : Env} {t : Array UInt64} (h : NEInit pj v d ⟨e, t⟩) (o' : Nat) :
    NEInit pj { v with off := o' } d ⟨e.set "o.off" (.int o'), t⟩ := by
  obtain ⟨ht, hv, hd, hS, hM⟩ := h
  obtain ⟨v1, v2⟩ := viewAt_get_o _ _ hv
  obtain ⟨d1, d2, d3, d4, d5⟩ := iterAt_get_dst _ _ hd
  constructor
  · exact ht
  · apply viewAt_of_gets <;> simp [Env.get_set, *]
  · apply iterAt_of_gets <;> simp [Env.get_set, *]
  · simp [Env.get_set, *]
  · simp [Env.get_set, *]

/-- re-assigning a shared variable its own value -/
theorem NEInit.reset {pj : PJ} {v : View} {d : Iter} {e : Env} {t : Array UInt64} (h : NEInit pj v d ⟨e, t⟩) (k : String)
    (x : Val) (hx : e.get k = some x) : NEInit pj v d ⟨e.set k x, t⟩ := by
  obtain ⟨ht, hv, hd, hS, hM⟩ := h
  have hg : ∀ k', (e.set k x).get k' = e.get k' := by
    intro k'
    rw [Env.get_set]
    by_cases hk : k = k'
    · subst hk; simp [hx]
    · simp [hk]
  constructor
  · exact ht
  · simp only [viewAt, hg]; exact hv
  · simp only [iterAt, hg]; exact hd
  · simp only [hg]; exact hS
  · simp only [hg]; exact hM

/-- `*dst = j` -/
theorem NEInit.setDst {pj : PJ} {v : View} {d : Iter} {e : Env} {t : Array UInt64} (h : NEInit pj v d ⟨e, t⟩) (j : Iter) :
    NEInit pj v j ⟨setIter e "dst" j, t⟩ := by
  obtain ⟨ht, hv, hd, hS, hM⟩ := h
  obtain ⟨v1, v2⟩ := viewAt_get_o _ _ hv
  constructor
  · exact ht
  · apply viewAt_of_gets <;> simp [setIter, Env.get_set, *]
  · exact iterAt_setIter_dst _ _
  · simp [setIter, Env.get_set, *]
  · simp [setIter, Env.get_set, *]

/-! ## the syntax tree of `NextElementBytes`, cut into pieces -/

/-- named results, the end-of-view test, the first read -/
def nebPre : List Stmt := goObject_NextElementBytes.body.take 5
/-- `switch Tag(v >> 56)` -/
def nebSwitch : Stmt := (goObject_NextElementBytes.body.drop 5).headD .brk
/-- from `v = o.tape.Tape[o.off]` (the value word) to the end -/
def nebTail : List Stmt := goObject_NextElementBytes.body.drop 6

def swCase (st : Stmt) (k : Nat) : List Stmt :=
  match st with
  | .switch _ cs _ => ((cs.drop k).headD ([], [])).2
  | _ => []

/-- `case TagString:` -/
def nebStr : List Stmt := swCase nebSwitch 0
/-- `case TagNop:` -/
def nebNop : List Stmt := swCase nebSwitch 2

theorem neb_split : goObject_NextElementBytes.body = nebPre ++ nebSwitch :: nebTail := rfl

theorem neb_pre (e : Env) (tape : Array UInt64) (fuel : Nat) (off lim : Nat) (h1 : e.get "o.off" = some (.int off))
    (h2 : e.get "o.lim" = some (.int lim)) (hsz : lim ≤ tape.size) :
    exec goFuns fuel nebPre ⟨e, tape⟩ =
      if h : off ≥ lim then
        .ret ⟨((e.set "name" (.bytes #[])).set "t" (.u8 0)).set "err" (.bool false), tape⟩
          [.bytes #[], .u8 0, .bool false]
      else
        .normal ⟨(((e.set "name" (.bytes #[])).set "t" (.u8 0)).set "err" (.bool false)).set "v"
          (.u64 (tape[off]'(by omega))), tape⟩ := by
  simp only [nebPre, goObject_NextElementBytes, List.take]
  by_cases h : off ≥ lim
  · have h' : (lim : Int) ≤ off := by omega
    simp [h1, h2, h, h', Env.get_set]
  · have h' : ¬ (lim : Int) ≤ off := by omega
    have hlt : off < lim := by omega
    have hr : tape[off]? = some (tape[off]'(by omega)) := by simp
    simp [h1, h2, h, h', hlt, hr, Env.get_set]

theorem neb_switch (e : Env) (tape : Array UInt64) (fuel : Nat) (w : UInt64) (hv : e.get "v" = some (.u64 w)) :
    exec1 goFuns fuel nebSwitch ⟨e, tape⟩ =
      if tagOf w = 34 then exec goFuns fuel nebStr ⟨e, tape⟩
      else if tagOf w = 125 then .ret ⟨e, tape⟩ [.bytes #[], .u8 0, .bool false]
      else if tagOf w = 78 then exec goFuns fuel nebNop ⟨e, tape⟩
      else .ret ⟨e, tape⟩ [.bytes #[], .u8 0, .bool true] := by
  have ht : (w >>> 56).toUInt8 = tagOf w := rfl
  simp only [nebSwitch, nebStr, nebNop, swCase, goObject_NextElementBytes, List.drop, List.headD]
  rw [exec1]
  by_cases h1 : tagOf w = 34
  · simp [hv, ht, h1, -exec, -exec1]
  · have h1' : ¬ (34 : UInt8) = tagOf w := fun h => h1 h.symm
    by_cases h2 : tagOf w = 125
    · simp [hv, ht, h1, h2, -exec, -exec1]
      simp
    · have h2' : ¬ (125 : UInt8) = tagOf w := fun h => h2 h.symm
      by_cases h3 : tagOf w = 78
      · simp [hv, ht, h1, h2, h3, -exec, -exec1]
      · have h3' : ¬ (78 : UInt8) = tagOf w := fun h => h3 h.symm
        simp [hv, ht, h1, h2, h3, h1', h2', h3', -exec, -exec1]
        simp

/-! ### `case TagNop:` -/

theorem neb_nop (e : Env) (tape : Array UInt64) (f : Nat) (off : Nat) (w : UInt64)
    (h1 : e.get "o.off" = some (.int off)) (hv : e.get "v" = some (.u64 w)) :
    exec goFuns (f + 1) nebNop ⟨e, tape⟩ =
      if payloadOf w = 0 then .ret ⟨e.set "skip" (.int 0), tape⟩ [.bytes #[], .u8 0, .bool true]
      else callFun goFuns f "o" "Object.NextElementBytes" ["dst"] []
        ⟨(e.set "skip" (.int (payloadOf w).toNat)).set "o.off" (.int ((off + (payloadOf w).toNat : Nat) : Int)), tape⟩ := by
  have hp : w &&& 72057594037927935 = payloadOf w := rfl
  have hz : (payloadOf w = 0) ↔ (payloadOf w).toNat = 0 := by rw [← UInt64.toNat_inj]; rfl
  simp only [nebNop, nebSwitch, swCase, goObject_NextElementBytes, List.drop, List.headD]
  by_cases h0 : (payloadOf w).toNat = 0
  · simp [h1, hv, hp, hz, h0, toInt64_payload, Env.get_set]
  · simp [h1, hv, hp, hz, h0, toInt64_payload, Env.get_set]
    generalize callFun goFuns f _ _ _ _ _ = out
    cases out <;> rfl

/-! ### `case TagString:` -/

def nebStrA : List Stmt := nebStr.take 3
def nebStrC : List Stmt := nebStr.drop 4

theorem nebStr_split : nebStr = nebStrA ++
    .callAssign ["name", "err"] "o" "ParsedJson.stringByteAt" [] [.v "offset", .v "length"] :: nebStrC := rfl

theorem neb_strA (e : Env) (tape : Array UInt64) (fuel : Nat) (off lim : Nat) (w : UInt64)
    (h1 : e.get "o.off" = some (.int off)) (h2 : e.get "o.lim" = some (.int lim)) (hv : e.get "v" = some (.u64 w))
    (hsz : lim ≤ tape.size) :
    exec goFuns fuel nebStrA ⟨e, tape⟩ =
      if h : off + 2 ≥ lim then .ret ⟨e, tape⟩ [.bytes #[], .u8 0, .bool true]
      else .normal ⟨(e.set "length" (.u64 (tape[off + 1]'(by omega)))).set "offset" (.u64 (payloadOf w)), tape⟩ := by
  have hp : w &&& 72057594037927935 = payloadOf w := rfl
  simp only [nebStrA, nebStr, nebSwitch, swCase, goObject_NextElementBytes, List.drop, List.headD, List.take]
  by_cases h : off + 2 ≥ lim
  · have h' : (lim : Int) ≤ off + 2 := by omega
    simp [h1, h2, hv, h, h', Env.get_set]
  · have h' : ¬ (lim : Int) ≤ off + 2 := by omega
    have hlt : (off : Int) + 1 < lim := by omega
    have hr : tape[off + 1]? = some (tape[off + 1]'(by omega)) := by simp
    have hn : ((off : Int) + 1).toNat = off + 1 := by omega
    have h0 : (0 : Int) ≤ off + 1 := by omega
    simp [h1, h2, hv, hp, h, h', hlt, hr, hn, h0, Env.get_set]

theorem neb_strC (e : Env) (tape : Array UInt64) (fuel : Nat) (off : Nat) (b : Bool)
    (h1 : e.get "o.off" = some (.int off)) (he : e.get "err" = some (.bool b)) :
    exec goFuns fuel nebStrC ⟨e, tape⟩ =
      if b then .ret ⟨e, tape⟩ [.bytes #[], .u8 0, .bool true]
      else .normal ⟨e.set "o.off" (.int ((off + 2 : Nat) : Int)), tape⟩ := by
  simp only [nebStrC, nebStr, nebSwitch, swCase, goObject_NextElementBytes, List.drop, List.headD]
  cases b <;> simp [h1, he, Env.get_set]

/-- what `case TagString:` leaves: the name in `name` and `o.off` after the two name words, or an error return -/
def StrPost (pj : PJ) (lim off : Nat) (d : Iter) (o : Out) (r : Res Bytes) : Prop :=
  match r with
  | .ok nm => ∃ e', o = .normal ⟨e', pj.tape⟩ ∧ NEInit pj ⟨lim, off + 2⟩ d ⟨e', pj.tape⟩ ∧
      e'.get "name" = some (.bytes nm)
  | _ => ∃ e', o = .ret ⟨e', pj.tape⟩ [.bytes #[], .u8 0, .bool true] ∧ NEInit pj ⟨lim, off⟩ d ⟨e', pj.tape⟩

theorem neb_str_short (pj : PJ) (e : Env) (fuel : Nat) (off lim : Nat) (d : Iter) (w : UInt64)
    (hi : NEInit pj ⟨lim, off⟩ d ⟨e, pj.tape⟩) (hv : e.get "v" = some (.u64 w)) (hsz : lim ≤ pj.tape.size)
    (h : off + 2 ≥ lim) :
    exec goFuns fuel nebStr ⟨e, pj.tape⟩ = .ret ⟨e, pj.tape⟩ [.bytes #[], .u8 0, .bool true] := by
  obtain ⟨v1, v2⟩ := viewAt_get_o _ _ hi.view
  rw [nebStr_split, exec_append, neb_strA e pj.tape fuel off lim w v1 v2 hv hsz, dif_pos h]

theorem neb_str_long (pj : PJ) (e : Env) (f : Nat) (off lim : Nat) (d : Iter) (w len : UInt64) (hb : BufOK pj)
    (hi : NEInit pj ⟨lim, off⟩ d ⟨e, pj.tape⟩) (hv : e.get "v" = some (.u64 w)) (hsz : lim ≤ pj.tape.size)
    (h : ¬ off + 2 ≥ lim) (hlen : pj.tape[off + 1]? = some len) :
    StrPost pj lim off d (exec goFuns (f + 1) nebStr ⟨e, pj.tape⟩) (stringByteAt pj (payloadOf w) len) := by
  obtain ⟨v1, v2⟩ := viewAt_get_o _ _ hi.view
  have hlen' : pj.tape[off + 1]'(by omega) = len := by
    have : pj.tape[off + 1]? = some (pj.tape[off + 1]'(by omega)) := by simp
    rw [this] at hlen
    exact Option.some.inj hlen
  rw [nebStr_split, exec_append, neb_strA e pj.tape f.succ off lim w v1 v2 hv hsz, dif_neg h, hlen']
  simp only []
  have hi2 : NEInit pj ⟨lim, off⟩ d ⟨(e.set "length" (.u64 len)).set "offset" (.u64 (payloadOf w)), pj.tape⟩ :=
    (hi.set "length" _ (by decide)).set "offset" _ (by decide)
  have h1 : ((e.set "length" (.u64 len)).set "offset" (.u64 (payloadOf w))).get "offset" = some (.u64 (payloadOf w)) := by
    simp [Env.get_set]
  have h2 : ((e.set "length" (.u64 len)).set "offset" (.u64 (payloadOf w))).get "length" = some (.u64 len) := by
    simp [Env.get_set]
  generalize (e.set "length" (.u64 len)).set "offset" (.u64 (payloadOf w)) = e2 at hi2 h1 h2 ⊢
  obtain ⟨w1, w2⟩ := viewAt_get_o _ _ hi2.view
  have hcall := callFun_sb ⟨e2, pj.tape⟩ pj "o" lim (.v "offset") (.v "length") (payloadOf w) len f hb
    (by simpa using w2) hi2.strs hi2.msg (by simp [h1]) (by simp [h2])
  simp only [String.reduceAppend] at hcall
  have hi3 : NEInit pj ⟨lim, off⟩ d ⟨((e2.set "o.lim" (.int lim)).set "Strings.B" (.bytes pj.strings)).set "Message"
      (.bytes pj.msg), pj.tape⟩ := by
    refine ((hi2.reset "o.lim" _ w2).reset "Strings.B" _ ?_).reset "Message" _ ?_
    · simp [Env.get_set]; exact hi2.strs
    · simp [Env.get_set]; exact hi2.msg
  generalize ((e2.set "o.lim" (.int lim)).set "Strings.B" (.bytes pj.strings)).set "Message" (.bytes pj.msg) = e3
    at hcall hi3
  rw [exec, exec1, hcall]
  rcases stringByteAt_cases pj (payloadOf w) len with ⟨nm, hr⟩ | hr
  · rw [hr]
    simp only [sbVals, assignTargets, StrPost]
    simp only [show ("err" == "_") = false from by decide, show ("name" == "_") = false from by decide,
      Bool.false_eq_true, if_false]
    have hi4 : NEInit pj ⟨lim, off⟩ d ⟨(e3.set "name" (.bytes nm)).set "err" (.bool false), pj.tape⟩ :=
      (hi3.set "name" _ (by decide)).set "err" _ (by decide)
    obtain ⟨x1, x2⟩ := viewAt_get_o _ _ hi4.view
    rw [neb_strC _ pj.tape (f + 1) off false x1 (by simp [Env.get_set])]
    simp only [Bool.false_eq_true, if_false]
    refine ⟨_, rfl, hi4.setOff (off + 2), ?_⟩
    simp [Env.get_set]
  · rw [hr]
    simp only [sbVals, assignTargets, StrPost]
    simp only [show ("err" == "_") = false from by decide, show ("name" == "_") = false from by decide,
      Bool.false_eq_true, if_false]
    have hi4 : NEInit pj ⟨lim, off⟩ d ⟨(e3.set "name" (.bytes #[])).set "err" (.bool true), pj.tape⟩ :=
      (hi3.set "name" _ (by decide)).set "err" _ (by decide)
    obtain ⟨x1, x2⟩ := viewAt_get_o _ _ hi4.view
    rw [neb_strC _ pj.tape (f + 1) off true x1 (by simp [Env.get_set])]
    simp only [if_true]
    exact ⟨_, rfl, hi4⟩

/-! ### the value word: `*dst`, `elemSize`, the restriction of `dst`, the return -/

/-- outcome of `o.NextElementBytes(dst)` against a result of the model (`d0`: the caller's `*dst` before the call):
    * model `.ok (v', none)`: returns `(nil, TypeNone, nil)`, the receiver is `v'`, `*dst` is untouched;
    * model `.ok (v', some (name, d, ty))`: returns `(name, ty, nil)`, the receiver is `v'`, `*dst` is `d`;
    * model `.error _`: returns `(nil, TypeNone, non-nil)` (receiver and `*dst` are then unspecified, but present);
    * model `.panic`: the interpreter panics;
    in every returning case the document (tape, string buffer, message) is untouched (`NEInit`);
    the interpreter is never stuck and never out of fuel. -/
def SimNE (pj : PJ) (d0 : Iter) (o : Out) (r : Res (View × Option (Bytes × Iter × UInt8))) : Prop :=
  match r with
  | .ok (v', none) => ∃ s, o = .ret s [.bytes #[], .u8 typeNone, .bool false] ∧ NEInit pj v' d0 s
  | .ok (v', some (name, d, ty)) => ∃ s, o = .ret s [.bytes name, .u8 ty, .bool false] ∧ NEInit pj v' d s
  | .error _ => ∃ s v' d', o = .ret s [.bytes #[], .u8 typeNone, .bool true] ∧ NEInit pj v' d' s
  | .panic => o = .panic
  | .diverge => False

/-- the model's continuation after the name (value word `w` at offset `off`) -/
def tailModel (lim off : Nat) (nm : Bytes) (w : UInt64) : Res (View × Option (Bytes × Iter × UInt8)) :=
  let off1 := off + 1
  let d0 : Iter := { lim := lim, off := off1, addNext := 0, cur := payloadOf w, t := tagOf w }
  let elemSize := (d0.calcNext false).addNext
  let dd := d0.calcNext true
  let e : Int := (off1 : Int) + elemSize
  if elemSize < 0 then .error .generic
  else if e > lim then .error .generic
  else .ok ({ lim := lim, off := e.toNat }, some (nm, { dd with lim := e.toNat }, tagToType dd.t))

/-- `calcNext` reads `t`, `cur`, `off` and overwrites `addNext`: the old `addNext` does not matter -/
theorem calcNext_congr (x y : Iter) (b : Bool) (h1 : x.lim = y.lim) (h2 : x.off = y.off) (h3 : x.cur = y.cur)
    (h4 : x.t = y.t) : x.calcNext b = y.calcNext b := by
  obtain ⟨xl, xo, xa, xc, xt⟩ := x
  obtain ⟨yl, yo, ya, yc, yt⟩ := y
  simp only at h1 h2 h3 h4
  subst h1 h2 h3 h4
  unfold Iter.calcNext
  simp only []

theorem calcNext_fields (x : Iter) (b : Bool) :
    (x.calcNext b).lim = x.lim ∧ (x.calcNext b).off = x.off ∧ (x.calcNext b).cur = x.cur ∧ (x.calcNext b).t = x.t := by
  unfold Iter.calcNext
  split
  · exact ⟨rfl, rfl, rfl, rfl⟩
  · split
    · cases b <;> exact ⟨rfl, rfl, rfl, rfl⟩
    · exact ⟨rfl, rfl, rfl, rfl⟩

/-- `*dst` after the four field assignments (`addNext` still the caller's) -/
def dstWord (lim off1 : Nat) (a : Int) (w : UInt64) : Iter :=
  { lim := lim, off := off1, addNext := a, cur := payloadOf w, t := tagOf w }

def nebTailA : List Stmt := nebTail.take 6
def nebTailD : List Stmt := nebTail.drop 9

theorem nebTail_split : nebTail = nebTailA ++ .call "dst" "Iter.calcNext" [.bool false] ::
    .assign "elemSize" (.v "dst.addNext") :: .call "dst" "Iter.calcNext" [.bool true] :: nebTailD := rfl

theorem neb_tailA (pj : PJ) (e : Env) (fuel : Nat) (off lim : Nat) (d : Iter)
    (hi : NEInit pj ⟨lim, off⟩ d ⟨e, pj.tape⟩) (hlt : off < lim) (hsz : lim ≤ pj.tape.size) :
    ∃ e6, exec goFuns fuel nebTailA ⟨e, pj.tape⟩ = .normal ⟨e6, pj.tape⟩ ∧
      NEInit pj ⟨lim, off + 1⟩ (dstWord lim (off + 1) d.addNext (pj.tape[off]'(by omega))) ⟨e6, pj.tape⟩ ∧
      e6.get "name" = e.get "name" := by
  obtain ⟨ht, hv, hd, hS, hM⟩ := hi
  obtain ⟨v1, v2⟩ := viewAt_get_o _ _ hv
  obtain ⟨d1, d2, d3, d4, d5⟩ := iterAt_get_dst _ _ hd
  simp only at v1 v2
  have hr : pj.tape[off]? = some (pj.tape[off]'(by omega)) := by simp
  generalize pj.tape[off]'(by omega) = w at hr
  have htg : (w >>> 56).toUInt8 = tagOf w := rfl
  have hp : w &&& 72057594037927935 = payloadOf w := rfl
  refine ⟨(((((e.set "v" (.u64 w)).set "o.off" (.int ((off + 1 : Nat) : Int))).set "dst.cur" (.u64 (payloadOf w))).set
    "dst.t" (.u8 (tagOf w))).set "dst.off" (.int ((off + 1 : Nat) : Int))).set "dst.lim" (.int lim), ?_, ?_, ?_⟩
  · simp only [nebTailA, nebTail, goObject_NextElementBytes, List.drop, List.take]
    simp [v1, v2, hlt, hr, htg, hp, Env.get_set]
  · constructor
    · rfl
    · apply viewAt_of_gets <;> simp [Env.get_set, v2]
    · apply iterAt_of_gets <;> simp [Env.get_set, d2, dstWord]
    · simp [Env.get_set, hS]
    · simp [Env.get_set, hM]
  · simp [Env.get_set]

theorem neb_tailD (pj : PJ) (e : Env) (fuel : Nat) (off1 lim : Nat) (dd : Iter) (es : Int) (nm : Bytes)
    (hi : NEInit pj ⟨lim, off1⟩ dd ⟨e, pj.tape⟩) (hes : e.get "elemSize" = some (.int es))
    (hnm : e.get "name" = some (.bytes nm)) :
    exec goFuns fuel nebTailD ⟨e, pj.tape⟩ =
      if es < 0 then .ret ⟨e, pj.tape⟩ [.bytes #[], .u8 0, .bool true]
      else if (dd.off : Int) + es > dd.lim then .ret ⟨e, pj.tape⟩ [.bytes #[], .u8 0, .bool true]
      else .ret ⟨(e.set "dst.lim" (.int ((dd.off : Int) + es))).set "o.off" (.int ((off1 : Int) + es)), pj.tape⟩
        [.bytes nm, .u8 (tagToType dd.t), .bool false] := by
  obtain ⟨ht, hv, hd, hS, hM⟩ := hi
  obtain ⟨v1, v2⟩ := viewAt_get_o _ _ hv
  obtain ⟨d1, d2, d3, d4, d5⟩ := iterAt_get_dst _ _ hd
  simp only at v1 v2
  simp only [nebTailD, nebTail, goObject_NextElementBytes, List.drop]
  by_cases h1 : es < 0
  · simp [v1, v2, d1, d2, d3, d4, d5, hes, hnm, h1, Env.get_set]
  · by_cases h2 : (dd.off : Int) + es > dd.lim
    · simp [v1, v2, d1, d2, d3, d4, d5, hes, hnm, h1, h2, Env.get_set]
    · have h3 : (dd.off : Int) + es ≤ dd.lim := by omega
      have h4 : (0 : Int) ≤ dd.off + es := by omega
      simp [v1, v2, d1, d2, d3, d4, d5, hes, hnm, h1, h2, h3, h4, Env.get_set, tagToType]

theorem exec1_assign_v (funs : String → Option FunDef) (fuel : Nat) (n k : String) (e : Env) (t : Array UInt64) (x : Val)
    (h : e.get k = some x) : exec1 funs fuel (.assign n (.v k)) ⟨e, t⟩ = .normal ⟨e.set n x, t⟩ := by
  simp [h]

theorem neb_tail (pj : PJ) (e : Env) (f : Nat) (off lim : Nat) (d : Iter) (nm : Bytes)
    (hi : NEInit pj ⟨lim, off⟩ d ⟨e, pj.tape⟩) (hnm : e.get "name" = some (.bytes nm)) (hlt : off < lim)
    (hsz : lim ≤ pj.tape.size) :
    SimNE pj d (exec goFuns (f + 1) nebTail ⟨e, pj.tape⟩) (tailModel lim off nm (pj.tape[off]'(by omega))) := by
  obtain ⟨e6, h6, hi6, hn6⟩ := neb_tailA pj e (f + 1) off lim d hi hlt hsz
  rw [nebTail_split, exec_append, h6]
  simp only []
  generalize pj.tape[off]'(by omega) = w at hi6 ⊢
  rw [hnm] at hn6
  -- dst.calcNext(false)
  have hc0 : (dstWord lim (off + 1) d.addNext w).cur.toNat < 2^63 := by
    have := payload_lt w; simp only [dstWord]; omega
  rw [exec, call_calcNext_dst ⟨e6, pj.tape⟩ _ false f hi6.dst hc0]
  simp only []
  have hi7 := hi6.setDst ((dstWord lim (off + 1) d.addNext w).calcNext false)
  have hn7 : (setIter e6 "dst" ((dstWord lim (off + 1) d.addNext w).calcNext false)).get "name" = some (.bytes nm) := by
    rw [get_setIter_ne _ _ _ _ (by decide)]; exact hn6
  obtain ⟨q1, q2, q3, q4⟩ := calcNext_fields (dstWord lim (off + 1) d.addNext w) false
  have hes0 : ((dstWord lim (off + 1) d.addNext w).calcNext false).addNext =
      ((dstWord lim (off + 1) 0 w).calcNext false).addNext := by
    rw [calcNext_congr (dstWord lim (off + 1) d.addNext w) (dstWord lim (off + 1) 0 w) false rfl rfl rfl rfl]
  have hc1 : ((dstWord lim (off + 1) d.addNext w).calcNext false).cur.toNat < 2^63 := by rw [q3]; exact hc0
  have hdd : ((dstWord lim (off + 1) d.addNext w).calcNext false).calcNext true =
      (dstWord lim (off + 1) 0 w).calcNext true :=
    calcNext_congr _ _ true q1 q2 q3 q4
  generalize (dstWord lim (off + 1) d.addNext w).calcNext false = dA at hi7 hn7 hes0 hc1 hdd ⊢
  generalize setIter e6 "dst" dA = e7 at hi7 hn7 ⊢
  -- elemSize := dst.addNext
  have ha7 := (iterAt_get_dst _ _ hi7.dst).2.1
  rw [exec, exec1_assign_v _ _ _ _ _ _ _ ha7]
  simp only []
  have hi8 := hi7.set "elemSize" (.int dA.addNext) (by decide)
  have hn8 : (e7.set "elemSize" (.int dA.addNext)).get "name" = some (.bytes nm) := by
    rw [Env.get_set_ne _ _ (by decide)]; exact hn7
  have he8 : (e7.set "elemSize" (.int dA.addNext)).get "elemSize" = some (.int dA.addNext) := Env.get_set_self _ _ _
  generalize e7.set "elemSize" (.int dA.addNext) = e8 at hi8 hn8 he8 ⊢
  -- dst.calcNext(true)
  rw [exec, call_calcNext_dst ⟨e8, pj.tape⟩ dA true f hi8.dst hc1]
  simp only []
  have hi9 := hi8.setDst (dA.calcNext true)
  have hn9 : (setIter e8 "dst" (dA.calcNext true)).get "name" = some (.bytes nm) := by
    rw [get_setIter_ne _ _ _ _ (by decide)]; exact hn8
  have he9 : (setIter e8 "dst" (dA.calcNext true)).get "elemSize" = some (.int dA.addNext) := by
    rw [get_setIter_ne _ _ _ _ (by decide)]; exact he8
  rw [hdd] at hi9 hn9 he9 ⊢
  rw [hes0] at he9
  obtain ⟨r1, r2, r3, r4⟩ := calcNext_fields (dstWord lim (off + 1) 0 w) true
  simp only [dstWord] at r1 r2 r3 r4 hi9 hn9 he9 ⊢
  generalize setIter e8 "dst" _ = e9 at hi9 hn9 he9 ⊢
  rw [neb_tailD pj e9 (f + 1) (off + 1) lim _ _ nm hi9 he9 hn9]
  unfold tailModel
  simp only [r1, r2]
  generalize (Iter.calcNext { lim := lim, off := off + 1, addNext := 0, cur := payloadOf w, t := tagOf w } false).addNext
    = es at he9 ⊢
  generalize Iter.calcNext { lim := lim, off := off + 1, addNext := 0, cur := payloadOf w, t := tagOf w } true
    = dT at r1 r2 r3 r4 hi9 ⊢
  by_cases h1 : es < 0
  · simp only [h1, if_true, SimNE]
    exact ⟨_, _, _, rfl, hi9⟩
  · by_cases h2 : ((off + 1 : Nat) : Int) + es > lim
    · simp only [h1, h2, if_true, if_false, SimNE]
      exact ⟨_, _, _, rfl, hi9⟩
    · simp only [h1, h2, if_false, SimNE]
      refine ⟨_, rfl, ?_⟩
      obtain ⟨ht, hv, hd, hS, hM⟩ := hi9
      obtain ⟨v1, v2⟩ := viewAt_get_o _ _ hv
      obtain ⟨d1, d2, d3, d4, d5⟩ := iterAt_get_dst _ _ hd
      simp only at v1 v2
      have hnn : (0 : Int) ≤ ((off + 1 : Nat) : Int) + es := by omega
      constructor
      · rfl
      · apply viewAt_of_gets <;> (simp [Env.get_set, v2]; try omega)
      · apply iterAt_of_gets <;> (simp [Env.get_set, d1, d2, d3, d4, r2]; try omega)
      · simp [Env.get_set, hS]
      · simp [Env.get_set, hM]

end SJ.GoObject
