import SJ.Model.Pipeline
/-
Safety of the index-buffer ring for every schedule: with `cap + 2 ≤ slots` no buffer that the
consumer may still read is ever overwritten, and the consumer receives the buffers in order.
-/
namespace SJ.Pipeline

/-- the invariant carried through every reachable state -/
structure Inv (c : Cfg) (s : St) : Prop where
  acq_lo : s.sent ≤ s.acquired
  acq_hi : s.acquired ≤ s.sent + 1
  rcv    : s.recvd ≤ s.sent
  rel_lo : s.recvd ≤ s.released
  rel_hi : s.released ≤ s.recvd + 1
  queue  : s.sent - s.recvd ≤ c.cap
  stamps : ∀ j, s.released ≤ j + 1 → j < s.acquired → s.stamp (j % c.slots) = some j
  seen   : ∀ p ∈ s.seen, p.2 = some p.1 ∧ p.1 < s.recvd

theorem mod_ne_of_lt {n j k : Nat} (hjk : j < k) (hd : k - j < n) : j % n ≠ k % n := by
  intro h
  have hk : k = j + (k - j) := by omega
  have h0 : (k - j) % n = 0 := Nat.sub_mod_eq_zero_of_mod_eq h.symm
  have : (k - j) % n = k - j := Nat.mod_eq_of_lt hd
  omega

theorem inv_init (c : Cfg) : Inv c {} := by
  constructor <;> simp

theorem inv_step (c : Cfg) (hc : c.cap + 2 ≤ c.slots) (s s' : St) (e : Ev) (h : Inv c s)
    (hs : step c s e = some s') : Inv c s' := by
  obtain ⟨h1, h2, h3, h4, h5, h6, h7, h8⟩ := h
  cases e <;> simp only [step] at hs
  · -- acquire
    split at hs
    · rename_i hg
      obtain ⟨hg1, hg2⟩ := hg
      cases hs
      refine ⟨by simp; omega, by simp; omega, h3, h4, h5, h6, ?_, h8⟩
      intro j hj1 hj2
      simp only at hj1 hj2 ⊢
      by_cases hjk : j = s.acquired
      · subst hjk; simp
      · have hlt : j < s.acquired := by omega
        have hne : j % c.slots ≠ s.acquired % c.slots := mod_ne_of_lt hlt (by omega)
        simp [hne]
        exact h7 j hj1 hlt
    · cases hs
  · -- send
    split at hs
    · rename_i hg
      obtain ⟨hg1, _, hg2⟩ := hg
      cases hs
      simp only [queued] at hg2
      refine ⟨by simp; omega, by simp; omega, by simp; omega, h4, h5, ?_, h7, h8⟩
      simp only
      split at hg2 <;> omega
    · cases hs
  · -- term
    split at hs
    · cases hs
      exact ⟨h1, h2, h3, h4, h5, h6, h7, h8⟩
    · cases hs
  · -- release
    split at hs
    · rename_i hg
      cases hs
      refine ⟨h1, h2, h3, by simp; omega, by simp; omega, h6, ?_, h8⟩
      intro j hj1 hj2
      exact h7 j (by simp at hj1; omega) hj2
    · cases hs
  · -- recv
    split at hs
    · rename_i hg
      obtain ⟨hg1, hg2⟩ := hg
      cases hs
      refine ⟨h1, h2, by simp; omega, by simp; omega, by simp; omega, by simp; omega, h7, ?_⟩
      intro p hp
      simp only [List.mem_cons] at hp
      rcases hp with hp | hp
      · subst hp
        simp only
        exact ⟨h7 s.recvd (by omega) (by omega), by omega⟩
      · obtain ⟨a, b⟩ := h8 p hp
        exact ⟨a, by simp; omega⟩
    · cases hs
  · -- recvTerm
    split at hs
    · cases hs
      exact ⟨h1, h2, h3, h4, h5, h6, h7, h8⟩
    · cases hs

theorem inv_run (c : Cfg) (hc : c.cap + 2 ≤ c.slots) (evs : List Ev) :
    ∀ s s', Inv c s → run c s evs = some s' → Inv c s' := by
  induction evs with
  | nil => intro s s' h hr; simp [run] at hr; subst hr; exact h
  | cons e es ih =>
    intro s s' h hr
    simp only [run] at hr
    split at hr
    · rename_i s1 hs1
      exact ih s1 s' (inv_step c hc s s1 e h hs1) hr
    · cases hr

theorem safe_of_inv {c : Cfg} {s : St} (h : Inv c s) : Safe c s := by
  intro j hj1 hj2
  exact h.stamps j hj1 (Nat.lt_of_lt_of_le hj2 h.acq_lo)

end SJ.Pipeline
