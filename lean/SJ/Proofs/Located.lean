import SJ.Proofs.Layout
/-
Located documents: a document tree that records, for every value, the tape positions it occupies.
`Ok pj lv` says the tape really holds `lv` at those positions (gaps allowed between siblings).
Edits become plain functions on located trees, and "the edit changes exactly the addressed value" is a
structural induction.  `Ok pj lv → ValAt pj (erase lv) lv.pos lv.fin` ties this to the Layout relation.
-/
namespace SJ.Layout
open SJ SJ.Generated

mutual
inductive LVal where
  | null (p : Nat)
  | bool (b : Bool) (p : Nat)
  | int (w : UInt64) (p : Nat)
  | uint (w : UInt64) (p : Nat)
  | float (bits flags : UInt64) (p : Nat)
  | str (s : List UInt8) (p : Nat)
  | arr (p e : Nat) (es : LVals)
  | obj (p e : Nat) (ms : LMems)
inductive LVals where
  | nil
  | cons (v : LVal) (vs : LVals)
inductive LMems where
  | nil
  | cons (pk : Nat) (k : List UInt8) (v : LVal) (ms : LMems)
end

/-- first word of the value -/
def LVal.pos : LVal → Nat
  | .null p | .bool _ p | .int _ p | .uint _ p | .float _ _ p | .str _ p => p
  | .arr p _ _ | .obj p _ _ => p

/-- one past the last word of the value -/
def LVal.fin : LVal → Nat
  | .null p | .bool _ p => p + 1
  | .int _ p | .uint _ p | .float _ _ p | .str _ p => p + 2
  | .arr _ e _ | .obj _ e _ => e

mutual
def erase : LVal → JVal
  | .null _ => .null
  | .bool b _ => .bool b
  | .int w _ => .int w
  | .uint w _ => .uint w
  | .float b f _ => .float b f
  | .str s _ => .str s
  | .arr _ _ es => .arr (eraseVals es)
  | .obj _ _ ms => .obj (eraseMems ms)
def eraseVals : LVals → JVals
  | .nil => .nil
  | .cons v vs => .cons (erase v) (eraseVals vs)
def eraseMems : LMems → JMems
  | .nil => .nil
  | .cons _ k v ms => .cons k (erase v) (eraseMems ms)
end

mutual
/-- the tape holds `lv` at the positions it records -/
def Ok (pj : PJ) : LVal → Prop
  | .null p => ∃ w, word pj p = some w ∧ tagOf w = tagNull
  | .bool b p => ∃ w, word pj p = some w ∧ tagOf w = (if b then tagBoolTrue else tagBoolFalse)
  | .int v p => ∃ w, word pj p = some w ∧ tagOf w = tagInteger ∧ word pj (p + 1) = some v
  | .uint v p => ∃ w, word pj p = some w ∧ tagOf w = tagUint ∧ word pj (p + 1) = some v
  | .float b f p => ∃ w, word pj p = some w ∧ tagOf w = tagFloat ∧ payloadOf w = f ∧ word pj (p + 1) = some b
  | .str s p => StrAt pj s p
  | .arr p e es => p + 2 ≤ e ∧ (∃ w, word pj p = some w ∧ tagOf w = tagArrayStart ∧ (payloadOf w).toNat = e) ∧
      (∃ c, word pj (e - 1) = some c ∧ tagOf c = tagArrayEnd ∧ (payloadOf c).toNat = p) ∧ OkElems pj es (p + 1) (e - 1)
  | .obj p e ms => p + 2 ≤ e ∧ (∃ w, word pj p = some w ∧ tagOf w = tagObjectStart ∧ (payloadOf w).toNat = e) ∧
      (∃ c, word pj (e - 1) = some c ∧ tagOf c = tagObjectEnd ∧ (payloadOf c).toNat = p) ∧ OkMems pj ms (p + 1) (e - 1)
def OkElems (pj : PJ) : LVals → Nat → Nat → Prop
  | .nil, lo, hi => Gap pj lo hi
  | .cons v vs, lo, hi => Gap pj lo v.pos ∧ Ok pj v ∧ v.fin ≤ hi ∧ OkElems pj vs v.fin hi
def OkMems (pj : PJ) : LMems → Nat → Nat → Prop
  | .nil, lo, hi => Gap pj lo hi
  | .cons pk k v ms, lo, hi => Gap pj lo pk ∧ StrAt pj k pk ∧ Gap pj (pk + 2) v.pos ∧ Ok pj v ∧ v.fin ≤ hi ∧ OkMems pj ms v.fin hi
end

theorem pos_lt_fin (v : LVal) (pj : PJ) (h : Ok pj v) : v.pos < v.fin := by
  cases v <;> simp only [LVal.pos, LVal.fin, Ok] at * <;> omega

mutual
/-- a located tree that is `Ok` witnesses the Layout relation for the document it erases to -/
theorem ok_valAt (pj : PJ) : ∀ v : LVal, Ok pj v → ValAt pj (erase v) v.pos v.fin
  | .null p, h => by simpa [Ok, ValAt, erase, LVal.pos, LVal.fin] using h
  | .bool b p, h => by simpa [Ok, ValAt, erase, LVal.pos, LVal.fin] using h
  | .int w p, h => by simpa [Ok, ValAt, erase, LVal.pos, LVal.fin] using h
  | .uint w p, h => by simpa [Ok, ValAt, erase, LVal.pos, LVal.fin] using h
  | .float b f p, h => by simpa [Ok, ValAt, erase, LVal.pos, LVal.fin] using h
  | .str s p, h => by simpa [Ok, ValAt, erase, LVal.pos, LVal.fin] using h
  | .arr p e es, h => by
    simp only [Ok] at h
    simp only [ValAt, erase, LVal.pos, LVal.fin]
    exact ⟨h.1, h.2.1, h.2.2.1, ok_elemsAt pj es _ _ h.2.2.2⟩
  | .obj p e ms, h => by
    simp only [Ok] at h
    simp only [ValAt, erase, LVal.pos, LVal.fin]
    exact ⟨h.1, h.2.1, h.2.2.1, ok_memsAt pj ms _ _ h.2.2.2⟩
theorem ok_elemsAt (pj : PJ) : ∀ (vs : LVals) (lo hi : Nat), OkElems pj vs lo hi → ElemsAt pj (eraseVals vs) lo hi
  | .nil, lo, hi, h => by simpa [OkElems, ElemsAt, eraseVals] using h
  | .cons v vs, lo, hi, h => by
    simp only [OkElems] at h
    simp only [ElemsAt, eraseVals]
    exact ⟨v.pos, v.fin, h.1, ok_valAt pj v h.2.1, h.2.2.1, ok_elemsAt pj vs _ _ h.2.2.2⟩
theorem ok_memsAt (pj : PJ) : ∀ (ms : LMems) (lo hi : Nat), OkMems pj ms lo hi → MemsAt pj (eraseMems ms) lo hi
  | .nil, lo, hi, h => by simpa [OkMems, MemsAt, eraseMems] using h
  | .cons pk k v ms, lo, hi, h => by
    simp only [OkMems] at h
    simp only [MemsAt, eraseMems]
    exact ⟨pk, v.pos, v.fin, h.1, h.2.1, h.2.2.1, ok_valAt pj v h.2.2.2.1, h.2.2.2.2.1, ok_memsAt pj ms _ _ h.2.2.2.2.2⟩
end

-- Frame for located trees ---------------------------------------------------------------------------------------

mutual
theorem ok_frame {pj pj' : PJ} {lo hi : Nat} (h : Agree pj pj' lo hi) :
    ∀ v : LVal, lo ≤ v.pos → v.fin ≤ hi → Ok pj v → Ok pj' v
  | .null p, hp, he, hv => by
    simp only [Ok, LVal.pos, LVal.fin] at *
    obtain ⟨w, h2, h3⟩ := hv
    exact ⟨w, by rw [h.words p hp (by omega)]; exact h2, h3⟩
  | .bool b p, hp, he, hv => by
    simp only [Ok, LVal.pos, LVal.fin] at *
    obtain ⟨w, h2, h3⟩ := hv
    exact ⟨w, by rw [h.words p hp (by omega)]; exact h2, h3⟩
  | .int v p, hp, he, hv => by
    simp only [Ok, LVal.pos, LVal.fin] at *
    obtain ⟨w, h2, h3, h4⟩ := hv
    exact ⟨w, by rw [h.words p hp (by omega)]; exact h2, h3, by rw [h.words (p+1) (by omega) (by omega)]; exact h4⟩
  | .uint v p, hp, he, hv => by
    simp only [Ok, LVal.pos, LVal.fin] at *
    obtain ⟨w, h2, h3, h4⟩ := hv
    exact ⟨w, by rw [h.words p hp (by omega)]; exact h2, h3, by rw [h.words (p+1) (by omega) (by omega)]; exact h4⟩
  | .float b f p, hp, he, hv => by
    simp only [Ok, LVal.pos, LVal.fin] at *
    obtain ⟨w, h2, h3, h4, h5⟩ := hv
    exact ⟨w, by rw [h.words p hp (by omega)]; exact h2, h3, h4, by rw [h.words (p+1) (by omega) (by omega)]; exact h5⟩
  | .str s p, hp, he, hv => by
    simp only [Ok, LVal.pos, LVal.fin] at *
    exact strAt_frame h hp (by omega) hv
  | .arr p e es, hp, he, hv => by
    simp only [Ok, LVal.pos, LVal.fin] at *
    obtain ⟨h1, ⟨w, h2, h3, h4⟩, ⟨c, h5, h6, h7⟩, h8⟩ := hv
    exact ⟨h1, ⟨w, by rw [h.words p hp (by omega)]; exact h2, h3, h4⟩,
      ⟨c, by rw [h.words (e-1) (by omega) (by omega)]; exact h5, h6, h7⟩,
      okElems_frame h es (p+1) (e-1) (by omega) (by omega) h8⟩
  | .obj p e ms, hp, he, hv => by
    simp only [Ok, LVal.pos, LVal.fin] at *
    obtain ⟨h1, ⟨w, h2, h3, h4⟩, ⟨c, h5, h6, h7⟩, h8⟩ := hv
    exact ⟨h1, ⟨w, by rw [h.words p hp (by omega)]; exact h2, h3, h4⟩,
      ⟨c, by rw [h.words (e-1) (by omega) (by omega)]; exact h5, h6, h7⟩,
      okMems_frame h ms (p+1) (e-1) (by omega) (by omega) h8⟩
theorem okElems_frame {pj pj' : PJ} {lo hi : Nat} (h : Agree pj pj' lo hi) :
    ∀ (vs : LVals) (a b : Nat), lo ≤ a → b ≤ hi → OkElems pj vs a b → OkElems pj' vs a b
  | .nil, a, b, ha, hb, hv => by
    simp only [OkElems] at hv ⊢
    exact gap_frame h ha hb hv
  | .cons v vs, a, b, ha, hb, hv => by
    simp only [OkElems] at hv ⊢
    obtain ⟨g, hv1, he, rest⟩ := hv
    have hap := gap_le g
    have hpe := pos_lt_fin v pj hv1
    exact ⟨gap_frame h ha (by omega) g, ok_frame h v (by omega) (by omega) hv1, he,
      okElems_frame h vs v.fin b (by omega) hb rest⟩
theorem okMems_frame {pj pj' : PJ} {lo hi : Nat} (h : Agree pj pj' lo hi) :
    ∀ (ms : LMems) (a b : Nat), lo ≤ a → b ≤ hi → OkMems pj ms a b → OkMems pj' ms a b
  | .nil, a, b, ha, hb, hv => by
    simp only [OkMems] at hv ⊢
    exact gap_frame h ha hb hv
  | .cons pk k v ms, a, b, ha, hb, hv => by
    simp only [OkMems] at hv ⊢
    obtain ⟨g1, hs, g2, hv1, he, rest⟩ := hv
    have h1 := gap_le g1
    have h2 := gap_le g2
    have h3 := pos_lt_fin v pj hv1
    exact ⟨gap_frame h ha (by omega) g1, strAt_frame h (by omega) (by omega) hs, gap_frame h (by omega) (by omega) g2,
      ok_frame h v (by omega) (by omega) hv1, he, okMems_frame h ms v.fin b (by omega) hb rest⟩
end

end SJ.Layout
