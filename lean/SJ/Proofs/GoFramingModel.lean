import SJ.Proofs.GoFraming
import SJ.Proofs.Framing
import SJ.Proofs.GoRebuild
set_option linter.unusedVariables false
set_option linter.unusedSimpArgs false
/-
GoFramingModel — the header model of `GoFraming` (`headerP`, the decompressors taken out, the allocation of declared
sizes put in) against the hand model `SJ.deserialize`: when no declared size reaches 2^63 the two agree
(`deserialize_eq_header`); when one does, the Go source panics (`make`) and the hand model returns an error or goes on —
the idealisation "allocation of declared sizes" (`declared_size_difference`).
-/
namespace SJ.GoFraming
open SJ SJ.GoSem SJ.Generated

/-- a block of the hand model, through `decBlockP` -/
theorem decBlock_pair (codec : Codec) (b : Bytes) (pos want : Nat) :
    decBlock codec b pos want =
      match decBlockP b pos want with
      | none => (BlockRes.fail, (decBlock codec b pos want).2)
      | some (p, pos') => (p.resolve codec, pos') := by
  obtain ⟨h1, h2⟩ := decBlock_eq codec b pos want
  cases hP : decBlockP b pos want with
  | none =>
    rw [hP] at h1
    simp only [] at h1 ⊢
    exact Prod.ext h1 rfl
  | some r =>
    obtain ⟨p, pos'⟩ := r
    rw [hP] at h1
    simp only [] at h1 ⊢
    exact Prod.ext h1 (h2 p pos' hP)

/-- the hand model against the header model -/
def LinkPost (codec : Codec) (prior : Array UInt64) (r : HdrRes) (res : Res PJ) : Prop :=
  match r with
  | .err => res = .error .generic
  | .tooBig => True
  | .ok h => res = finish codec prior h

/-- one block of the hand model, as the header model sees it -/
theorem decBlock_cases (codec : Codec) (b : Bytes) (pos want : Nat) :
    (decBlockP b pos want = none ∧ (decBlock codec b pos want).1 = .fail) ∨
    (∃ p pos', decBlockP b pos want = some (p, pos') ∧ decBlock codec b pos want = (p.resolve codec, pos') ∧
      p.resolve codec ≠ .fail) := by
  have h := decBlock_pair codec b pos want
  cases hP : decBlockP b pos want with
  | none =>
    rw [hP] at h
    exact Or.inl ⟨rfl, by rw [h]⟩
  | some r =>
    obtain ⟨p, pos'⟩ := r
    rw [hP] at h
    exact Or.inr ⟨p, pos', rfl, h, resolve_ne_fail codec p⟩

/-! ## the idealisation: allocation of declared sizes

`src` = version 3, compressed size 0, tape size 2^63 (ten bytes `80 80 80 80 80 80 80 80 80 01`), nothing else.
Go: `uint64(cap(dst.Tape)) < ts` holds for every destination, `make([]uint64, 1<<63)` panics
(`runtime error: makeslice: len out of range`) — the header model says `tooBig`, and by `go_framing_source_tie` the
translated source panics.  The hand model `SJ.deserialize` reads on, finds no string size and returns an error. -/

def bigTapeSrc : Bytes := #[3, 0, 0x80, 0x80, 0x80, 0x80, 0x80, 0x80, 0x80, 0x80, 0x80, 0x01]

theorem bigTape_r1 : readUvarint bigTapeSrc 1 = some (0, 2) := by rw [SJ.Framing.readUvarint_rec]; decide
theorem bigTape_r2 : readUvarint bigTapeSrc 2 = some (9223372036854775808, 12) := by rw [SJ.Framing.readUvarint_rec]; decide
theorem bigTape_r3 : readUvarint bigTapeSrc 12 = none := by rw [SJ.Framing.readUvarint_rec]; decide

theorem bigTape_header : headerP bigTapeSrc = .tooBig := by
  have h0 : (bigTapeSrc.size == 0) = false := by decide
  have hv : ¬ ((bigTapeSrc.getD 0 0).toNat > cserializedVersion) := by decide
  have hc : ¬ (toInt64 0 > ((bigTapeSrc.size - 2 : Nat) : Int)) := by decide
  have hb : 2^63 ≤ (9223372036854775808 : UInt64).toNat := by decide
  unfold headerP restP
  simp only [h0, Bool.false_eq_true, if_false, hv, bigTape_r1, bigTape_r2, hc, hb, if_true]

theorem bigTape_model (codec : Codec) (prior : Array UInt64) : deserialize codec bigTapeSrc prior = .error .generic := by
  have h0 : (bigTapeSrc.size == 0) = false := by decide
  have hv : ¬ ((bigTapeSrc.getD 0 0).toNat > cserializedVersion) := by decide
  have hc : ¬ (toInt64 0 > ((bigTapeSrc.size - 2 : Nat) : Int)) := by decide
  unfold deserialize
  simp only [h0, Bool.false_eq_true, if_false, hv, bigTape_r1, bigTape_r2, bigTape_r3, hc]

/-- … and the translated source panics on it, whatever the destination -/
theorem bigTape_go_panics (f : FS) (prior : Array UInt64) (fuel : Nat) (hsrc : f.src = bigTapeSrc) (hprior : prior.size < 2^63)
    (hSc : f.sB.size < 2^63) (hMc : f.mB.size < 2^63) (hT : f.tB.size < 2^63) (hV : f.vB.size < 2^63) :
    runFun goFuns goDeserialize_header (fuel + 1) ⟨f.env, prior⟩ = .panic :=
  (go_framing_no_panic f prior fuel (by rw [hsrc]; decide) hprior hSc hMc hT hV).mpr (by rw [hsrc]; exact bigTape_header)

/-- **the header model and the hand model agree** whenever no declared size reaches 2^63: `deserialize codec src prior`
    fails when the header fails, and otherwise is the joins and the reconstruction (`finish`) on what the header left. -/
theorem deserialize_eq_header (codec : Codec) (src : Bytes) (prior : Array UInt64) :
    LinkPost codec prior (headerP src) (deserialize codec src prior) := by
  unfold headerP deserialize
  by_cases h0 : (src.size == 0) = true
  · simp only [h0, if_true, LinkPost]
  · simp only [h0, Bool.false_eq_true, if_false]
    by_cases hv : (src.getD 0 0).toNat > cserializedVersion
    · simp only [hv, if_true, LinkPost]
    · simp only [hv, if_false]
      unfold restP
      cases h1 : readUvarint src 1 with
      | none => simp only [LinkPost]
      | some r =>
        obtain ⟨c, pc⟩ := r
        (try simp only [])
        by_cases hc : toInt64 c > ((src.size - pc : Nat) : Int)
        · simp only [hc, if_true, LinkPost]
        · simp only [hc, if_false]
          cases h2 : readUvarint src pc with
          | none => simp only [LinkPost]
          | some r =>
            obtain ⟨ts, p2⟩ := r
            (try simp only [])
            by_cases hb2 : 2^63 ≤ ts.toNat
            · simp only [hb2, if_true, LinkPost]
            · simp only [hb2, if_false]
              unfold restS
              cases h3 : readUvarint src p2 with
              | none => simp only [LinkPost]
              | some r =>
                obtain ⟨ss, p3⟩ := r
                (try simp only [])
                by_cases hb3 : 2^63 ≤ ss.toNat
                · simp only [hb3, if_true, LinkPost]
                · simp only [hb3, if_false]
                  rcases decBlock_cases codec src p3 ss.toNat with ⟨hP, hF⟩ | ⟨pS, p4, hP, hD, hN⟩
                  · rw [hP]
                    generalize decBlock codec src p3 ss.toNat = R at hF
                    obtain ⟨rS, q⟩ := R
                    simp only [] at hF
                    subst hF
                    simp only [LinkPost]
                  · rw [hP, hD]
                    (try simp only [])
                    cases hrS : pS.resolve codec with
                    | fail => exact absurd hrS hN
                    | data x4 =>
                      (try simp only [])
                      unfold restM
                      cases h5 : readUvarint src p4 with
                      | none => simp only [LinkPost]
                      | some r =>
                        obtain ⟨ms, q5⟩ := r
                        (try simp only [])
                        by_cases hb5 : 2^63 ≤ ms.toNat
                        · simp only [hb5, if_true, LinkPost]
                        · simp only [hb5, if_false]
                          rcases decBlock_cases codec src q5 ms.toNat with ⟨hP, hF⟩ | ⟨pM, p5, hP, hD, hN5⟩
                          · rw [hP]
                            generalize decBlock codec src q5 ms.toNat = R at hF
                            obtain ⟨rr, q⟩ := R
                            simp only [] at hF
                            subst hF
                            simp only [LinkPost]
                          · rw [hP, hD]
                            (try simp only [])
                            cases hrM : pM.resolve codec with
                            | fail => exact absurd hrM hN5
                            | data x5 =>
                              (try simp only [])
                              unfold restT
                              cases h6 : readUvarint src p5 with
                              | none => simp only [LinkPost]
                              | some r =>
                                obtain ⟨tgs, q6⟩ := r
                                (try simp only [])
                                by_cases hb6 : 2^63 ≤ tgs.toNat
                                · simp only [hb6, if_true, LinkPost]
                                · simp only [hb6, if_false]
                                  rcases decBlock_cases codec src q6 tgs.toNat with ⟨hP, hF⟩ | ⟨pT, p6, hP, hD, hN6⟩
                                  · rw [hP]
                                    generalize decBlock codec src q6 tgs.toNat = R at hF
                                    obtain ⟨rr, q⟩ := R
                                    simp only [] at hF
                                    subst hF
                                    simp only [LinkPost]
                                  · rw [hP, hD]
                                    (try simp only [])
                                    cases hrT : pT.resolve codec with
                                    | fail => exact absurd hrT hN6
                                    | data x6 =>
                                      (try simp only [])
                                      unfold restV
                                      cases h7 : readUvarint src p6 with
                                      | none => simp only [LinkPost]
                                      | some r =>
                                        obtain ⟨vs, q7⟩ := r
                                        (try simp only [])
                                        by_cases hb7 : 2^63 ≤ vs.toNat
                                        · simp only [hb7, if_true, LinkPost]
                                        · simp only [hb7, if_false]
                                          rcases decBlock_cases codec src q7 vs.toNat with ⟨hP, hF⟩ | ⟨pV, p7, hP, hD, hN7⟩
                                          · rw [hP]
                                            generalize decBlock codec src q7 vs.toNat = R at hF
                                            obtain ⟨rr, q⟩ := R
                                            simp only [] at hF
                                            subst hF
                                            simp only [LinkPost]
                                          · rw [hP, hD]
                                            (try simp only [])
                                            simp only [LinkPost, finish, hrS, hrM, hrT]
                                            try (first | rfl | (cases pV.resolve codec <;> rfl))
                                    | codecErr =>
                                      (try simp only [])
                                      unfold restV
                                      cases h7 : readUvarint src p6 with
                                      | none => simp only [LinkPost]
                                      | some r =>
                                        obtain ⟨vs, q7⟩ := r
                                        (try simp only [])
                                        by_cases hb7 : 2^63 ≤ vs.toNat
                                        · simp only [hb7, if_true, LinkPost]
                                        · simp only [hb7, if_false]
                                          rcases decBlock_cases codec src q7 vs.toNat with ⟨hP, hF⟩ | ⟨pV, p7, hP, hD, hN7⟩
                                          · rw [hP]
                                            generalize decBlock codec src q7 vs.toNat = R at hF
                                            obtain ⟨rr, q⟩ := R
                                            simp only [] at hF
                                            subst hF
                                            simp only [LinkPost]
                                          · rw [hP, hD]
                                            (try simp only [])
                                            simp only [LinkPost, finish, hrS, hrM, hrT]
                                            try (first | rfl | (cases pV.resolve codec <;> rfl))
                            | codecErr =>
                              (try simp only [])
                              unfold restT
                              cases h6 : readUvarint src p5 with
                              | none => simp only [LinkPost]
                              | some r =>
                                obtain ⟨tgs, q6⟩ := r
                                (try simp only [])
                                by_cases hb6 : 2^63 ≤ tgs.toNat
                                · simp only [hb6, if_true, LinkPost]
                                · simp only [hb6, if_false]
                                  rcases decBlock_cases codec src q6 tgs.toNat with ⟨hP, hF⟩ | ⟨pT, p6, hP, hD, hN6⟩
                                  · rw [hP]
                                    generalize decBlock codec src q6 tgs.toNat = R at hF
                                    obtain ⟨rr, q⟩ := R
                                    simp only [] at hF
                                    subst hF
                                    simp only [LinkPost]
                                  · rw [hP, hD]
                                    (try simp only [])
                                    cases hrT : pT.resolve codec with
                                    | fail => exact absurd hrT hN6
                                    | data x6 =>
                                      (try simp only [])
                                      unfold restV
                                      cases h7 : readUvarint src p6 with
                                      | none => simp only [LinkPost]
                                      | some r =>
                                        obtain ⟨vs, q7⟩ := r
                                        (try simp only [])
                                        by_cases hb7 : 2^63 ≤ vs.toNat
                                        · simp only [hb7, if_true, LinkPost]
                                        · simp only [hb7, if_false]
                                          rcases decBlock_cases codec src q7 vs.toNat with ⟨hP, hF⟩ | ⟨pV, p7, hP, hD, hN7⟩
                                          · rw [hP]
                                            generalize decBlock codec src q7 vs.toNat = R at hF
                                            obtain ⟨rr, q⟩ := R
                                            simp only [] at hF
                                            subst hF
                                            simp only [LinkPost]
                                          · rw [hP, hD]
                                            (try simp only [])
                                            simp only [LinkPost, finish, hrS, hrM, hrT]
                                            try (first | rfl | (cases pV.resolve codec <;> rfl))
                                    | codecErr =>
                                      (try simp only [])
                                      unfold restV
                                      cases h7 : readUvarint src p6 with
                                      | none => simp only [LinkPost]
                                      | some r =>
                                        obtain ⟨vs, q7⟩ := r
                                        (try simp only [])
                                        by_cases hb7 : 2^63 ≤ vs.toNat
                                        · simp only [hb7, if_true, LinkPost]
                                        · simp only [hb7, if_false]
                                          rcases decBlock_cases codec src q7 vs.toNat with ⟨hP, hF⟩ | ⟨pV, p7, hP, hD, hN7⟩
                                          · rw [hP]
                                            generalize decBlock codec src q7 vs.toNat = R at hF
                                            obtain ⟨rr, q⟩ := R
                                            simp only [] at hF
                                            subst hF
                                            simp only [LinkPost]
                                          · rw [hP, hD]
                                            (try simp only [])
                                            simp only [LinkPost, finish, hrS, hrM, hrT]
                                            try (first | rfl | (cases pV.resolve codec <;> rfl))
                    | codecErr =>
                      (try simp only [])
                      unfold restM
                      cases h5 : readUvarint src p4 with
                      | none => simp only [LinkPost]
                      | some r =>
                        obtain ⟨ms, q5⟩ := r
                        (try simp only [])
                        by_cases hb5 : 2^63 ≤ ms.toNat
                        · simp only [hb5, if_true, LinkPost]
                        · simp only [hb5, if_false]
                          rcases decBlock_cases codec src q5 ms.toNat with ⟨hP, hF⟩ | ⟨pM, p5, hP, hD, hN5⟩
                          · rw [hP]
                            generalize decBlock codec src q5 ms.toNat = R at hF
                            obtain ⟨rr, q⟩ := R
                            simp only [] at hF
                            subst hF
                            simp only [LinkPost]
                          · rw [hP, hD]
                            (try simp only [])
                            cases hrM : pM.resolve codec with
                            | fail => exact absurd hrM hN5
                            | data x5 =>
                              (try simp only [])
                              unfold restT
                              cases h6 : readUvarint src p5 with
                              | none => simp only [LinkPost]
                              | some r =>
                                obtain ⟨tgs, q6⟩ := r
                                (try simp only [])
                                by_cases hb6 : 2^63 ≤ tgs.toNat
                                · simp only [hb6, if_true, LinkPost]
                                · simp only [hb6, if_false]
                                  rcases decBlock_cases codec src q6 tgs.toNat with ⟨hP, hF⟩ | ⟨pT, p6, hP, hD, hN6⟩
                                  · rw [hP]
                                    generalize decBlock codec src q6 tgs.toNat = R at hF
                                    obtain ⟨rr, q⟩ := R
                                    simp only [] at hF
                                    subst hF
                                    simp only [LinkPost]
                                  · rw [hP, hD]
                                    (try simp only [])
                                    cases hrT : pT.resolve codec with
                                    | fail => exact absurd hrT hN6
                                    | data x6 =>
                                      (try simp only [])
                                      unfold restV
                                      cases h7 : readUvarint src p6 with
                                      | none => simp only [LinkPost]
                                      | some r =>
                                        obtain ⟨vs, q7⟩ := r
                                        (try simp only [])
                                        by_cases hb7 : 2^63 ≤ vs.toNat
                                        · simp only [hb7, if_true, LinkPost]
                                        · simp only [hb7, if_false]
                                          rcases decBlock_cases codec src q7 vs.toNat with ⟨hP, hF⟩ | ⟨pV, p7, hP, hD, hN7⟩
                                          · rw [hP]
                                            generalize decBlock codec src q7 vs.toNat = R at hF
                                            obtain ⟨rr, q⟩ := R
                                            simp only [] at hF
                                            subst hF
                                            simp only [LinkPost]
                                          · rw [hP, hD]
                                            (try simp only [])
                                            simp only [LinkPost, finish, hrS, hrM, hrT]
                                            try (first | rfl | (cases pV.resolve codec <;> rfl))
                                    | codecErr =>
                                      (try simp only [])
                                      unfold restV
                                      cases h7 : readUvarint src p6 with
                                      | none => simp only [LinkPost]
                                      | some r =>
                                        obtain ⟨vs, q7⟩ := r
                                        (try simp only [])
                                        by_cases hb7 : 2^63 ≤ vs.toNat
                                        · simp only [hb7, if_true, LinkPost]
                                        · simp only [hb7, if_false]
                                          rcases decBlock_cases codec src q7 vs.toNat with ⟨hP, hF⟩ | ⟨pV, p7, hP, hD, hN7⟩
                                          · rw [hP]
                                            generalize decBlock codec src q7 vs.toNat = R at hF
                                            obtain ⟨rr, q⟩ := R
                                            simp only [] at hF
                                            subst hF
                                            simp only [LinkPost]
                                          · rw [hP, hD]
                                            (try simp only [])
                                            simp only [LinkPost, finish, hrS, hrM, hrT]
                                            try (first | rfl | (cases pV.resolve codec <;> rfl))
                            | codecErr =>
                              (try simp only [])
                              unfold restT
                              cases h6 : readUvarint src p5 with
                              | none => simp only [LinkPost]
                              | some r =>
                                obtain ⟨tgs, q6⟩ := r
                                (try simp only [])
                                by_cases hb6 : 2^63 ≤ tgs.toNat
                                · simp only [hb6, if_true, LinkPost]
                                · simp only [hb6, if_false]
                                  rcases decBlock_cases codec src q6 tgs.toNat with ⟨hP, hF⟩ | ⟨pT, p6, hP, hD, hN6⟩
                                  · rw [hP]
                                    generalize decBlock codec src q6 tgs.toNat = R at hF
                                    obtain ⟨rr, q⟩ := R
                                    simp only [] at hF
                                    subst hF
                                    simp only [LinkPost]
                                  · rw [hP, hD]
                                    (try simp only [])
                                    cases hrT : pT.resolve codec with
                                    | fail => exact absurd hrT hN6
                                    | data x6 =>
                                      (try simp only [])
                                      unfold restV
                                      cases h7 : readUvarint src p6 with
                                      | none => simp only [LinkPost]
                                      | some r =>
                                        obtain ⟨vs, q7⟩ := r
                                        (try simp only [])
                                        by_cases hb7 : 2^63 ≤ vs.toNat
                                        · simp only [hb7, if_true, LinkPost]
                                        · simp only [hb7, if_false]
                                          rcases decBlock_cases codec src q7 vs.toNat with ⟨hP, hF⟩ | ⟨pV, p7, hP, hD, hN7⟩
                                          · rw [hP]
                                            generalize decBlock codec src q7 vs.toNat = R at hF
                                            obtain ⟨rr, q⟩ := R
                                            simp only [] at hF
                                            subst hF
                                            simp only [LinkPost]
                                          · rw [hP, hD]
                                            (try simp only [])
                                            simp only [LinkPost, finish, hrS, hrM, hrT]
                                            try (first | rfl | (cases pV.resolve codec <;> rfl))
                                    | codecErr =>
                                      (try simp only [])
                                      unfold restV
                                      cases h7 : readUvarint src p6 with
                                      | none => simp only [LinkPost]
                                      | some r =>
                                        obtain ⟨vs, q7⟩ := r
                                        (try simp only [])
                                        by_cases hb7 : 2^63 ≤ vs.toNat
                                        · simp only [hb7, if_true, LinkPost]
                                        · simp only [hb7, if_false]
                                          rcases decBlock_cases codec src q7 vs.toNat with ⟨hP, hF⟩ | ⟨pV, p7, hP, hD, hN7⟩
                                          · rw [hP]
                                            generalize decBlock codec src q7 vs.toNat = R at hF
                                            obtain ⟨rr, q⟩ := R
                                            simp only [] at hF
                                            subst hF
                                            simp only [LinkPost]
                                          · rw [hP, hD]
                                            (try simp only [])
                                            simp only [LinkPost, finish, hrS, hrM, hrT]
                                            try (first | rfl | (cases pV.resolve codec <;> rfl))

/-! ## header, then reconstruction, for a nil destination

`Deserialize(src, nil)`: the three ties side by side.  The framing block leaves a zeroed tape of the declared size; the
hand model is the joins and the reconstruction on what the block recorded (`finish`); and the reconstruction block run on
that tape with the joined tag and value streams is `rebuild` (`GoRebuild.rebuild_source_tie`).  What is between the two
blocks in the source and translated by neither: the join `wg.Wait()` and the `switch` on `tagsErr`/`valsErr` (in `finish`:
the first match), and at the end `if stringsErr != nil` (in `finish`: the match on the strings block). -/

theorem hdrTape_nil (ts : UInt64) : hdrTape #[] ts = Array.replicate ts.toNat 0 := by
  unfold hdrTape
  by_cases h : (#[] : Array UInt64).size < ts.toNat
  · rw [if_pos h]
  · rw [if_neg h]
    have : ts.toNat = 0 := by simpa using h
    rw [this]; rfl

theorem framing_then_rebuild_nil (codec : Codec) (f : FS) (prior : Array UInt64) (fuel fuel2 : Nat) (h : Hdr)
    (hdn : f.dn = true) (hh : headerP f.src = .ok h)
    (hsz : f.src.size < 2^63) (hprior : prior.size < 2^63)
    (hSc : f.sB.size < 2^63) (hMc : f.mB.size < 2^63) (hT : f.tB.size < 2^63) (hV : f.vB.size < 2^63) :
    (∃ f' : FS, runFun goFuns goDeserialize_header (fuel + 1) ⟨f.env, prior⟩ =
        .ret ⟨f'.env, Array.replicate h.ts.toNat 0⟩ [] ∧ Good f' h) ∧
    deserialize codec f.src #[] = finish codec #[] h ∧
    (∀ tags values, h.ts.toNat < 2^56 → h.ts.toNat + 8 ≤ fuel2 →
      SJ.GoRebuild.SimReb
        (runFun goFuns goDeserialize_rebuild fuel2 (SJ.GoRebuild.rebStore (Array.replicate h.ts.toNat 0) tags values))
        (rebuild (Array.replicate h.ts.toNat 0) tags values)) := by
  refine ⟨?_, ?_, ?_⟩
  · have key := go_framing_source_tie f prior fuel hsz hprior hSc hMc hT hV
    unfold HdrPost at key
    rw [hh, hdn] at key
    simp only [RunPost, if_true] at key
    rw [hdrTape_nil] at key
    exact key
  · have key := deserialize_eq_header codec f.src #[]
    rw [hh] at key
    exact key
  · intro tags values h56 hf
    exact SJ.GoRebuild.rebuild_source_tie _ tags values (by simpa using h56) fuel2 (by simpa using hf)

end SJ.GoFraming
