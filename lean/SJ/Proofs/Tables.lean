import SJ.Model.Marshal
import SJ.Model.Stage2
import SJ.Model.Stage1Bits
/-
Finite-table facts about the constants, lookup tables and assembly DATA regenerated from /repo.
Each is proved by `decide +kernel` over all 256 (or 16) entries and lifted to `∀ b : UInt8`.
-/
namespace SJ.Tables
open SJ SJ.Generated

/-- lift a statement checked for every `Fin 256` to every byte -/
theorem forall_u8 {P : UInt8 → Prop} (h : ∀ n : Fin 256, P (UInt8.ofNat n.val)) (b : UInt8) : P b := by
  have := h ⟨b.toNat, b.toNat_lt⟩
  simpa using this

theorem forall_u8_nat {P : UInt8 → Prop} (h : ∀ n : Fin 256, P (UInt8.ofNat n.val)) : ∀ b, P b := forall_u8 h

-- Go tables --------------------------------------------------------------------------------------------

/-- bytes that may follow `true`, `false`, `null`: the six structural characters and the four JSON
    white-space characters -/
def followSet (b : UInt8) : Bool :=
  b == 9 || b == 10 || b == 13 || b == 32 || b == 44 || b == 58 || b == 91 || b == 93 || b == 123 || b == 125

theorem follow_spec : ∀ b : UInt8, isFollow b = followSet b :=
  forall_u8 (by decide +kernel)

theorem markup_spec : ∀ b : UInt8, isMarkup b = (b == 123 || b == 125 || b == 91 || b == 93 || b == 44 || b == 58) :=
  forall_u8 (by decide +kernel)

/-- the number-rune classes as the RFC's number grammar needs them -/
def numRuneSpec (b : UInt8) : Nat :=
  if 48 ≤ b ∧ b ≤ 57 then 1 + 16          -- digit
  else if b == 46 then 1 + 2 + 32          -- '.'  float only, digit must follow
  else if b == 43 then 1                   -- '+'
  else if b == 45 then 1 + 4 + 32          -- '-'  minus, digit must follow
  else if b == 101 ∨ b == 69 then 1 + 2    -- 'e' 'E' float only
  else if followSet b ∧ b ≠ 91 ∧ b ≠ 123 then 8   -- end of value: , } ] space tab CR LF :
  else 0

theorem numRune_spec : ∀ b : UInt8, numRune b = numRuneSpec b :=
  forall_u8 (by decide +kernel)

theorem shouldEscape_spec : ∀ b : UInt8, shouldEscape b = (b < 0x20 || b == 34 || b == 92) :=
  forall_u8 (by decide +kernel)

theorem valToHex_spec : ∀ n : Fin 16, valToHex (UInt8.ofNat n.val) = (if n.val < 10 then UInt8.ofNat (48 + n.val) else UInt8.ofNat (87 + n.val)) := by
  decide +kernel

def tagToTypeSpec (t : UInt8) : UInt8 :=
  if t == tagString then typeString else if t == tagInteger then typeInt else if t == tagUint then typeUint
  else if t == tagFloat then typeFloat else if t == tagNull then typeNull
  else if t == tagBoolTrue ∨ t == tagBoolFalse then typeBool
  else if t == tagObjectStart then typeObject else if t == tagArrayStart then typeArray
  else if t == tagRoot then typeRoot else typeNone

theorem tagToType_spec : ∀ t : UInt8, tagToType t = tagToTypeSpec t :=
  forall_u8 (by decide +kernel)

theorem openToClose_spec : ∀ t : UInt8, openToClose t =
    (if t == tagObjectStart then tagObjectEnd else if t == tagArrayStart then tagArrayEnd else if t == tagRoot then tagRoot else 0) :=
  forall_u8 (by decide +kernel)

/-- the tag constants are pairwise distinct and the two-word tags are exactly string and the numbers -/
theorem tags_distinct :
    [tagString, tagInteger, tagUint, tagFloat, tagNull, tagBoolTrue, tagBoolFalse, tagObjectStart, tagObjectEnd,
     tagArrayStart, tagArrayEnd, tagRoot, tagNop, tagEnd, tagFloatWithFlag].Nodup := by decide

-- assembly DATA -----------------------------------------------------------------------------------------

/-- `digittoval`: hex digit value, or −1 (as a sign-extended 32-bit value) -/
def hexValSpec (b : UInt8) : UInt32 :=
  if 48 ≤ b ∧ b ≤ 57 then (b - 48).toUInt32
  else if 65 ≤ b ∧ b ≤ 70 then (b - 55).toUInt32
  else if 97 ≤ b ∧ b ≤ 102 then (b - 87).toUInt32
  else 0xFFFFFFFF

theorem digitToVal_spec : ∀ b : UInt8, digitToVal b = hexValSpec b :=
  forall_u8 (by decide +kernel)

/-- `escape_map`: the eight two-character escapes of RFC 8259 §7, 0 for everything else -/
def escapeSpec (b : UInt8) : UInt8 :=
  if b == 34 then 34 else if b == 92 then 92 else if b == 47 then 47 else if b == 98 then 8
  else if b == 102 then 12 else if b == 110 then 10 else if b == 114 then 13 else if b == 116 then 9 else 0

theorem escapeMap_spec : ∀ b : UInt8, escapeMap b = escapeSpec b :=
  forall_u8 (by decide +kernel)

/-- nibble-table classification = the six structural characters / the four white-space characters -/
theorem classify_struct : ∀ b : UInt8, isStructByte b = (b == 44 || b == 58 || b == 91 || b == 93 || b == 123 || b == 125) :=
  forall_u8 (by decide +kernel)
theorem classify_ws : ∀ b : UInt8, isWsByte b = (b == 32 || b == 9 || b == 10 || b == 13) :=
  forall_u8 (by decide +kernel)
/-- `(b xor 0x80) <s 0xa0` selects exactly the control characters -/
theorem classify_ctrl : ∀ b : UInt8, isCtrlByte b = (b < 0x20) :=
  forall_u8 (by decide +kernel)
theorem classify_quote : ∀ b : UInt8, isQuoteByte b = (b == 34) := forall_u8 (by decide +kernel)
theorem classify_backslash : ∀ b : UInt8, isBackslashByte b = (b == 92) := forall_u8 (by decide +kernel)
theorem classify_newline : ∀ b : UInt8, isNewlineByte b = (b == 10) := forall_u8 (by decide +kernel)

/-- both kernel files carry the same tail-mask table, padding byte and broadcast constants -/
theorem asm_tables_shared :
    aMaskTable = aMaskTable512 ∧ aNewlineByte = aNewlineByte512 ∧ aBackslashByte512 = aOddBackslash.getD 0 0 ∧
    aWhitespacePad = #[32, 32, 32, 32, 32, 32, 32, 32] ∧
    (∀ i : Fin 32, aOddBackslash.getD i.val 0 = 92) ∧
    (∀ i : Fin 64, aQuoteMask.getD i.val 0 = 34 ∧ aQuoteMask.getD (64 + i.val) 0 = 128 ∧ aQuoteMask.getD (128 + i.val) 0 = 160) ∧
    (∀ i : Fin 32, aParseString.getD i.val 0 = 92 ∧ aParseString.getD (32 + i.val) 0 = 34) := by
  decide +kernel

/-- the tail mask keeps the first `n` bytes: `MASKTABLE[0x1f - n + i]`, i < 32, is 0xff iff i < n (n ≤ 31) -/
theorem maskTable_spec : ∀ n : Fin 32, ∀ i : Fin 32,
    aMaskTable.getD (31 - n.val + i.val) 0 = (if i.val < n.val then 255 else 0) := by
  decide +kernel

-- Go constants ---------------------------------------------------------------------------------------------

theorem word_layout :
    cJSONTAGOFFSET = 56 ∧ cJSONVALUEMASK = 2^56 - 1 ∧ cJSONTAGMASK = 255 * 2^56 ∧
    cSTRINGBUFBIT = 2^55 ∧ cSTRINGBUFMASK = 2^55 - 1 := by decide

theorem ret_addresses :
    cretAddressShift = 2 ∧ cretAddressStartConst < 4 ∧ cretAddressObjectConst < 4 ∧ cretAddressArrayConst < 4 ∧
    [cretAddressStartConst, cretAddressObjectConst, cretAddressArrayConst].Nodup := by decide

end SJ.Tables
