import SJ.Proofs.GoFindElem
import SJ.Proofs.GoArrMarshalLemmas
set_option linter.unusedVariables false
set_option linter.unusedSimpArgs false
/-
GoArrStr — `Array.AsString` / `Array.AsStringCvt` (parsed_array.go l.293, l.325), as printed by the translator
(`Generated/GoSrc.lean`: `goArray_AsString`, `goArray_AsStringCvt`) and run by `GoSem.exec`, against the hand model.
`View.asString` exists in `Model/Object.lean` (`asString pj i acc fuel`, started on `v.iter` with `#[]`).  For `AsStringCvt`
NO hand model existed: `asStringCvt` is defined HERE, `View.asString` with `GoApi.stringCvt` (the model of `Iter.StringCvt`
defined in GoApi.lean) in place of `Iter.stringBytes` and without the `TypeString` test.  Both are instances of one loop
(`strLoop`, "the string of an element" a parameter: `asString_eq`, `asStringCvt_eq`), and so are the two proofs (`str_loop`).
A `[]string` travels as `Val.keys` (the list of the byte strings): `.nilK`, `.pushK`.
The callees are not re-proved: `Iter.AdvanceIter` (`GoPJForEach.callAssign_ai`, `GoArrMarshal.callAssign_ai_pres`),
`Iter.String` (`GoApi.string_sim`), `Iter.StringCvt` (`GoApi.stringCvt_sim`).  Trees cut by `rfl` (`asString_body`,
`asStringCvt_body`).

  `asString_sim`, `asStringCvt_sim` (`LoopPost`), any store with the receiver `a` and the two buffers (`GoDelete.RecvIn`),
  model fuel `n`, interpreter fuel `F ≥ n + v.lim + 13` (resp. `n + v.lim + cvtBound pj + 11`):
      model `.ok strs`  ⇔ returns `[.keys strs.toList, .bool false]`, tape unchanged
      model `.error _`  ⇔ returns `[.keys [], .bool true]`   (`return nil, err`)
      model `.panic`    ⇔ panics        model `.diverge` (its fuel `n` ran out): nothing claimed
  `asString_safe`, `asStringCvt_safe`: with `n > v.lim - v.off` the model returns strings or an error (every turn that goes
  round again moved the cursor forward) — so `fuelOf pj` is enough.
  `go_arrstr_source_tie` (`StrTie`): on `arrStore`, model fuel `fuelOf pj`: each line an equivalence, NEITHER side panics,
  the model does not run out of fuel, the interpreter is never stuck nor out of fuel.

Fuel.  GoArrNum runs model and interpreter on THE SAME fuel because its loops call nothing; here every turn calls
`AdvanceIter` (`lim + 9`) and `String` (3) or `StringCvt` (`GoApi.cvtFuel`, which depends on the float under the cursor), so
the convention is that of GoArrMarshal: `n` model turns cost `n + v.lim + K + 10`.  `cvtBound pj` bounds `cvtFuel` for EVERY
iterator over `pj` (`cvtFuel_le`: the maximum over the tape words of what `appendFloat` needs for the word read as a float,
an int64 or a uint64), so the hypothesis mentions the document only.

HYPOTHESES: `BufOK pj` (`stringByteAt`), `v.lim ≤ pj.tape.size` (the view is a view of the tape).
DIFFERENCES between model and source: NONE found.  Checked: `a.Iter()` = `View.iter`; the Go loop re-uses `elem` where the
model passes `default` (`advanceIter_indep`); `TypeNone` ends the loop with `(dst, nil)`; `AsString` refuses every type but
`TypeString` (and `String()` refuses every tag but `TagString`: same error); the value beside an error is `nil` in both
functions (the `"0"`/`""` of `StringCvt` is dropped); the dead capacity estimate `lenEst` has no effect.
-/
namespace SJ.GoArrStr
open SJ SJ.GoSem SJ.Generated SJ.GoIter SJ.GoObject
open SJ.GoFindElem (callFun_recv backR_ret recv_back)

/-- Hand model of `a.AsStringCvt()` (there was none): `View.asString` with `GoApi.stringCvt` in place of `Iter.stringBytes`
    and without the type test -/
def asStringCvt (pj : PJ) (i : Iter) (acc : Array Bytes) : (fuel : Nat) → Res (Array Bytes)
  | 0 => .diverge
  | fuel + 1 => do
    let (i, elem, t) ← i.advanceIter pj default
    if t == typeNone then .ok acc
    else do
      let s ← GoApi.stringCvt pj elem
      asStringCvt pj i (acc.push s) fuel

/-! ## `s, err := elem.String()` / `s, err := elem.StringCvt()` from any store holding `elem` and the buffers -/

/-- what the caller sees of `s, err := elem.fn()` -/
def StrPost (pj : PJ) (e : Env) (el : Iter) (o : Out) : Res Bytes → Prop
  | .ok b => ∃ e', o = .normal ⟨e', pj.tape⟩ ∧ e'.get "s" = some (.bytes b) ∧ e'.get "err" = some (.bool false) ∧
      iterAt e' "elem" = some el ∧ (∀ k, k ∉ "s" :: "err" :: fieldsOf "elem" → e'.get k = e.get k)
  | .error _ => ∃ e', o = .normal ⟨e', pj.tape⟩ ∧ e'.get "err" = some (.bool true)
  | .panic => o = .panic
  | .diverge => False

theorem intoFrame_buf (pj : PJ) (e : Env) (el : Iter) (hS : e.get "Strings.B" = some (.bytes pj.strings))
    (hM : e.get "Message" = some (.bytes pj.msg)) :
    (GoApi.intoFrame e el).get "Strings.B" = some (.bytes pj.strings) ∧
    (GoApi.intoFrame e el).get "Message" = some (.bytes pj.msg) := by
  unfold GoApi.intoFrame
  constructor
  · rw [GoApi.copyGlobals_get, if_pos (Or.inl rfl), hS]
  · rw [GoApi.copyGlobals_get, if_pos (Or.inr rfl), hM]

theorem call_str (pj : PJ) (e : Env) (f : Nat) (el : Iter) (fn : String) (fd : FunDef) (errStr : Bytes) (r : Res Bytes)
    (hfn : goFuns fn = some { recv := "i", params := [], body := fd.body })
    (hE : iterAt e "elem" = some el) (hS : e.get "Strings.B" = some (.bytes pj.strings))
    (hM : e.get "Message" = some (.bytes pj.msg))
    (hsim : GoApi.SimCvtE pj el errStr (runFun goFuns fd f ⟨GoApi.intoFrame e el, pj.tape⟩) r) :
    StrPost pj e el (exec1 goFuns (f + 1) (.callAssign ["s", "err"] "elem" fn [] []) ⟨e, pj.tape⟩) r := by
  obtain ⟨hS0, hM0⟩ := intoFrame_buf pj e el hS hM
  rw [exec1, callFun_recv e pj.tape "elem" fn fd.body el f hfn hE]
  have hback : ∀ (s : St) (x y : Val), Keeps pj s → iterAt s.env "i" = some el →
      ∃ e', (match GoFindElem.backR e "elem" (Out.ret s [x, y]) with
          | Out.ret s' vs => (match assignTargets ["s", "err"] vs s'.env with
              | some e => Out.normal { s' with env := e }
              | none => Out.stuck "result arity")
          | o => o) = Out.normal ⟨e', pj.tape⟩ ∧ e'.get "s" = some x ∧ e'.get "err" = some y ∧
        iterAt e' "elem" = some el ∧ (∀ k, k ∉ "s" :: "err" :: fieldsOf "elem" → e'.get k = e.get k) := by
    intro s x y hK hI
    obtain ⟨k1, k2⟩ := recv_back e "elem" el el s.env (fun k hk => by
      rcases hk with rfl | rfl
      · rw [hK.2.1, hS0]
      · rw [hK.2.2, hM0]) (by decide) (by decide)
    rw [backR_ret e "elem" s _ el hI]
    simp only [assignTargets, hK.1, show ("s" == "_") = false from by decide, show ("err" == "_") = false from by decide,
      Bool.false_eq_true, if_false]
    refine ⟨_, rfl, ?_, Env.get_set_self _ _ _, ?_, ?_⟩
    · rw [Env.get_set_ne _ _ (by decide)]; exact Env.get_set_self _ _ _
    · rw [iterAt_set_ne _ _ _ _ (by decide), iterAt_set_ne _ _ _ _ (by decide)]; exact k1
    · intro k hk
      simp only [List.mem_cons, not_or] at hk
      rw [Env.get_set_ne _ _ (Ne.symm hk.2.1), Env.get_set_ne _ _ (Ne.symm hk.1)]
      exact k2 k (by simpa using hk.2.2)
  cases r with
  | ok b =>
    obtain ⟨s, hrun, hK, hI⟩ := hsim
    have hx : exec goFuns f fd.body ⟨GoApi.intoFrame e el, pj.tape⟩ = .ret s [.bytes b, .bool false] :=
      GoMarshal.runFun_ret_inv hrun (by simp)
    rw [hx]
    obtain ⟨e', h1, h2, h3, h4, h5⟩ := hback s _ _ hK hI
    exact ⟨e', h1, h2, h3, h4, h5⟩
  | error err =>
    obtain ⟨s, hrun, hK, hI⟩ := hsim
    have hx : exec goFuns f fd.body ⟨GoApi.intoFrame e el, pj.tape⟩ = .ret s [.bytes errStr, .bool true] :=
      GoMarshal.runFun_ret_inv hrun (by simp)
    rw [hx]
    obtain ⟨e', h1, h2, h3, h4, h5⟩ := hback s _ _ hK hI
    exact ⟨e', h1, h3⟩
  | panic =>
    simp only [GoApi.SimCvtE] at hsim
    have hx : exec goFuns f fd.body ⟨GoApi.intoFrame e el, pj.tape⟩ = .panic := GoMarshal.runFun_panic_inv hsim
    rw [hx]
    rfl
  | diverge => exact hsim.elim

/-! ## the syntax trees of `Array.AsString` / `Array.AsStringCvt` (pinned by `rfl`) -/

def strPre : List Stmt := goArray_AsString.body.take 13
def sAI : Stmt := .callAssign ["t", "err"] "i" "Iter.AdvanceIter" ["elem"] [(.bool true)]
def sErrK : Stmt := .ite (.bin .ne (.v "err") (.bool false)) [.ret [.nilK, (.v "err")]] []
def sRetDst : Stmt := .ret [(.v "dst"), (.bool false)]
def sStr : Stmt := .callAssign ["s", "err"] "elem" "Iter.String" [] []
def sCvt : Stmt := .callAssign ["s", "err"] "elem" "Iter.StringCvt" [] []
def sPush : Stmt := .assign "dst" (.pushK (.v "dst") (.v "s"))
def sRetErr : Stmt := .ret [.nilK, (.bool true)]

def strBody : List Stmt := [sAI, sErrK, .switch (.v "t") [([.u8 0], [sRetDst]), ([.u8 2], [sStr, sErrK, sPush])] [sRetErr]]
def cvtBody : List Stmt := [sAI, sErrK, .switch (.v "t") [([.u8 0], [sRetDst])] [sCvt, sErrK, sPush]]

theorem asString_body : goArray_AsString.body = strPre ++ [.loop strBody] := rfl
theorem asStringCvt_body : goArray_AsStringCvt.body = strPre ++ [.loop cvtBody] := rfl

/-! ## the store of the loops -/

structure SInv (pj : PJ) (e : Env) (i : Iter) (acc : Array Bytes) : Prop where
  it : iterAt e "i" = some i
  el : ∃ el, iterAt e "elem" = some el
  dst : e.get "dst" = some (.keys acc.toList)
  strs : e.get "Strings.B" = some (.bytes pj.strings)
  msg : e.get "Message" = some (.bytes pj.msg)

section pieces
attribute [local simp] exec exec1 execCases evalE evalEs isOneOf binop convert ofE copyFields bindParams
  iterFields runFun tblLookup Env.get_set

theorem sErrK_run (e : Env) (tape : Array UInt64) (F : Nat) (b : Bool) (hc : e.get "err" = some (.bool b)) :
    exec1 goFuns F sErrK ⟨e, tape⟩ = if b then .ret ⟨e, tape⟩ [.keys [], .bool true] else .normal ⟨e, tape⟩ := by
  cases b <;> simp [sErrK, hc]

theorem sRetDst_run (e : Env) (tape : Array UInt64) (F : Nat) (l : List Bytes) (hd : e.get "dst" = some (.keys l)) :
    exec goFuns F [sRetDst] ⟨e, tape⟩ = .ret ⟨e, tape⟩ [.keys l, .bool false] := by
  simp [sRetDst, hd]

theorem sRetErr_run (e : Env) (tape : Array UInt64) (F : Nat) :
    exec goFuns F [sRetErr] ⟨e, tape⟩ = .ret ⟨e, tape⟩ [.keys [], .bool true] := by
  simp [sRetErr]

theorem sPush_run (e : Env) (tape : Array UInt64) (F : Nat) (l : List Bytes) (b : Bytes)
    (hd : e.get "dst" = some (.keys l)) (hs : e.get "s" = some (.bytes b)) :
    exec goFuns F [sPush] ⟨e, tape⟩ = .normal ⟨e.set "dst" (.keys (l ++ [b])), tape⟩ := by
  simp [sPush, hd, hs]

/-- the `switch t` of `AsString` -/
theorem str_switch (e : Env) (tape : Array UInt64) (F : Nat) (t : UInt8) (hT : e.get "t" = some (.u8 t)) :
    exec goFuns F [.switch (.v "t") [([.u8 0], [sRetDst]), ([.u8 2], [sStr, sErrK, sPush])] [sRetErr]] ⟨e, tape⟩ =
      if t = 0 then exec goFuns F [sRetDst] ⟨e, tape⟩
      else if t = 2 then exec goFuns F [sStr, sErrK, sPush] ⟨e, tape⟩
      else exec goFuns F [sRetErr] ⟨e, tape⟩ := by
  rw [GoFindElem.exec_one, exec1]
  by_cases h1 : t = 0
  · subst h1; simp [hT, -exec, -exec1]
  · by_cases h2 : t = 2
    · subst h2; simp [hT, -exec, -exec1]
    · have a1 : (Val.u8 (UInt8.ofNat 0) == Val.u8 t) = false := by
        simp only [beq_eq_false_iff_ne, ne_eq, Val.u8.injEq]; exact fun h => h1 h.symm
      have a2 : (Val.u8 (UInt8.ofNat 2) == Val.u8 t) = false := by
        simp only [beq_eq_false_iff_ne, ne_eq, Val.u8.injEq]; exact fun h => h2 h.symm
      simp only [evalE, hT, execCases, evalEs, isOneOf, if_neg h1, if_neg h2, a1, a2, Bool.or_false, Bool.false_eq_true,
        if_false]

/-- the `switch t` of `AsStringCvt` -/
theorem cvt_switch (e : Env) (tape : Array UInt64) (F : Nat) (t : UInt8) (hT : e.get "t" = some (.u8 t)) :
    exec goFuns F [.switch (.v "t") [([.u8 0], [sRetDst])] [sCvt, sErrK, sPush]] ⟨e, tape⟩ =
      if t = 0 then exec goFuns F [sRetDst] ⟨e, tape⟩
      else exec goFuns F [sCvt, sErrK, sPush] ⟨e, tape⟩ := by
  rw [GoFindElem.exec_one, exec1]
  by_cases h1 : t = 0
  · subst h1; simp [hT, -exec, -exec1]
  · have a1 : (Val.u8 (UInt8.ofNat 0) == Val.u8 t) = false := by
      simp only [beq_eq_false_iff_ne, ne_eq, Val.u8.injEq]; exact fun h => h1 h.symm
    simp only [evalE, hT, execCases, evalEs, isOneOf, if_neg h1, a1, Bool.or_false, Bool.false_eq_true, if_false]

end pieces

/-! ## the model, with the string of an element as a parameter -/

/-- `View.asString` / `asStringCvt` with "the string of the element `el` of type `t`" as a parameter -/
def strLoop (pj : PJ) (elemStr : Iter → UInt8 → Res Bytes) (i : Iter) (acc : Array Bytes) : (fuel : Nat) → Res (Array Bytes)
  | 0 => .diverge
  | fuel + 1 => do
    let (i, elem, t) ← i.advanceIter pj default
    if t == typeNone then .ok acc
    else do
      let s ← elemStr elem t
      strLoop pj elemStr i (acc.push s) fuel

/-- `AsString`: `elem.String()` for `TypeString`, an error for every other type -/
def strOf (pj : PJ) (el : Iter) (t : UInt8) : Res Bytes := if t == typeString then el.stringBytes pj else .error .generic
/-- `AsStringCvt`: `elem.StringCvt()` whatever the type -/
def cvtOf (pj : PJ) (el : Iter) (_t : UInt8) : Res Bytes := GoApi.stringCvt pj el

theorem asString_eq (pj : PJ) : ∀ (n : Nat) (i : Iter) (acc : Array Bytes),
    View.asString pj i acc n = strLoop pj (strOf pj) i acc n := by
  intro n
  induction n with
  | zero => intro i acc; rfl
  | succ n ih =>
    intro i acc
    rw [View.asString, strLoop]
    cases i.advanceIter pj default with
    | ok r =>
      obtain ⟨i', el, t⟩ := r
      simp only [Res.bind_ok, strOf]
      split
      · rfl
      · split
        · cases el.stringBytes pj with
          | ok b => simp only [Res.bind_ok]; exact ih _ _
          | error e => rfl
          | panic => rfl
          | diverge => rfl
        · rfl
    | error e => rfl
    | panic => rfl
    | diverge => rfl

theorem asStringCvt_eq (pj : PJ) : ∀ (n : Nat) (i : Iter) (acc : Array Bytes),
    asStringCvt pj i acc n = strLoop pj (cvtOf pj) i acc n := by
  intro n
  induction n with
  | zero => intro i acc; rfl
  | succ n ih =>
    intro i acc
    rw [asStringCvt, strLoop]
    cases i.advanceIter pj default with
    | ok r =>
      obtain ⟨i', el, t⟩ := r
      simp only [Res.bind_ok, cvtOf]
      split
      · rfl
      · cases GoApi.stringCvt pj el with
        | ok b => simp only [Res.bind_ok]; exact ih _ _
        | error e => rfl
        | panic => rfl
        | diverge => rfl
    | error e => rfl
    | panic => rfl
    | diverge => rfl

/-! ## `s, err := elem.fn(); if err != nil { return nil, err }; dst = append(dst, s)` -/

/-- what the part of a turn after `AdvanceIter` returned an element does -/
def TailPost (pj : PJ) (i' : Iter) (acc : Array Bytes) (o : Out) : Res Bytes → Prop
  | .ok b => ∃ e', o = .normal ⟨e', pj.tape⟩ ∧ SInv pj e' i' (acc.push b)
  | .error _ => ∃ st, o = .ret st [.keys [], .bool true]
  | .panic => o = .panic
  | .diverge => False

theorem elem_tail (pj : PJ) (e : Env) (f : Nat) (i' : Iter) (acc : Array Bytes) (el : Iter) (fn : String) (fd : FunDef)
    (errStr : Bytes) (r : Res Bytes) (hfn : goFuns fn = some { recv := "i", params := [], body := fd.body })
    (hA : SInv pj e i' acc) (hE : iterAt e "elem" = some el)
    (hsim : GoApi.SimCvtE pj el errStr (runFun goFuns fd f ⟨GoApi.intoFrame e el, pj.tape⟩) r) :
    TailPost pj i' acc (exec goFuns (f + 1) [.callAssign ["s", "err"] "elem" fn [] [], sErrK, sPush] ⟨e, pj.tape⟩) r := by
  have hcall := call_str pj e f el fn fd errStr r hfn hE hA.strs hA.msg hsim
  rw [GoPJForEach.exec_cons']
  cases r with
  | ok b =>
    obtain ⟨e3, hx, hs3, herr3, hE3, hfr3⟩ := hcall
    rw [hx]
    simp only []
    rw [GoPJForEach.exec_cons', sErrK_run e3 pj.tape _ false herr3]
    simp only [Bool.false_eq_true, if_false]
    have hd3 : e3.get "dst" = some (.keys acc.toList) := by rw [hfr3 _ (by decide)]; exact hA.dst
    rw [sPush_run e3 pj.tape _ acc.toList b hd3 hs3]
    refine ⟨_, rfl, ?_, ⟨el, ?_⟩, ?_, ?_, ?_⟩
    · rw [iterAt_set_ne _ _ _ _ (by decide), iterAt_congr e e3 "i" (fun k hk => hfr3 k (by revert k; decide))]
      exact hA.it
    · rw [iterAt_set_ne _ _ _ _ (by decide)]; exact hE3
    · rw [Env.get_set_self]; simp
    · rw [Env.get_set_ne _ _ (by decide), hfr3 _ (by decide)]; exact hA.strs
    · rw [Env.get_set_ne _ _ (by decide), hfr3 _ (by decide)]; exact hA.msg
  | error err =>
    obtain ⟨e3, hx, herr3⟩ := hcall
    rw [hx]
    simp only []
    rw [GoPJForEach.exec_cons', sErrK_run e3 pj.tape _ true herr3]
    exact ⟨_, rfl⟩
  | panic =>
    simp only [StrPost] at hcall
    rw [hcall]
    rfl
  | diverge => exact hcall.elim

/-! ## the loop, for either function -/

/-- the loop against the model run with fuel `n`; nothing is claimed when the MODEL's fuel runs out -/
def LoopPost (pj : PJ) (o : Out) : Res (Array Bytes) → Prop
  | .ok strs => ∃ st, o = .ret st [.keys strs.toList, .bool false] ∧ st.tape = pj.tape
  | .error _ => ∃ st, o = .ret st [.keys [], .bool true]
  | .panic => o = .panic
  | .diverge => True

theorem str_loop (pj : PJ) (elemStr : Iter → UInt8 → Res Bytes) (sw : Stmt) (K : Nat)
    (hret0 : ∀ (e : Env) (F : Nat) (l : List Bytes), e.get "t" = some (.u8 0) → e.get "dst" = some (.keys l) →
      exec goFuns F [sw] ⟨e, pj.tape⟩ = .ret ⟨e, pj.tape⟩ [.keys l, .bool false])
    (hsw : ∀ (e : Env) (F : Nat) (i' : Iter) (acc : Array Bytes) (el : Iter) (t : UInt8), SInv pj e i' acc →
      iterAt e "elem" = some el → e.get "t" = some (.u8 t) → t ≠ 0 → el.lim ≤ pj.tape.size → K ≤ F →
      TailPost pj i' acc (exec goFuns F [sw] ⟨e, pj.tape⟩) (elemStr el t)) :
    ∀ (n : Nat) (e : Env) (i : Iter) (acc : Array Bytes) (F : Nat), SInv pj e i acc → WalkSafe.Iter.Valid pj i →
      n + i.lim + K + 10 ≤ F →
      LoopPost pj (exec1 goFuns F (.loop [sAI, sErrK, sw]) ⟨e, pj.tape⟩) (strLoop pj elemStr i acc n) := by
  intro n
  induction n with
  | zero => intro e i acc F _ _ _; rw [strLoop]; trivial
  | succ n ih =>
    intro e i acc F hA hv hF
    obtain ⟨F', rfl⟩ : ∃ F', F = F' + 1 := ⟨F - 1, by omega⟩
    obtain ⟨el0, hE0⟩ := hA.el
    have hG := GoPJForEach.callAssign_ai pj e F' i el0 hA.it hE0 hv.1 (by unfold fuelFor; omega)
    have hind := GoPJForEach.advanceIter_indep pj i default el0
    obtain ⟨_, hpost⟩ := WalkSafe.advanceIter_safe pj i default hv
    rw [GoPJForEach.loop_succ, strLoop, GoPJForEach.exec_cons', sAI]
    cases hM : i.advanceIter pj default with
    | ok r =>
      obtain ⟨i', d', t⟩ := r
      rw [hM] at hind
      simp only [] at hind
      have hG' : ∃ d'', i.advanceIter pj el0 = .ok (i', d'', t) ∧ (t ≠ typeNone → d'' = d') := by
        rcases hind with h | ⟨ht, _, h⟩
        · exact ⟨d', h, fun _ => rfl⟩
        · exact ⟨el0, h, fun hne => absurd ht hne⟩
      obtain ⟨d'', hG2, hdd⟩ := hG'
      rw [hG2] at hG
      simp only [] at hG
      obtain ⟨e2, hx2, hI2, hE2, hT2, hErr2, hfr2⟩ := hG
      have hS2 := GoArrMarshal.callAssign_ai_pres "Strings.B" (by decide) e pj.tape F' i el0 hA.it hE0 _ hA.strs e2 pj.tape hx2
      have hM2 := GoArrMarshal.callAssign_ai_pres "Message" (by decide) e pj.tape F' i el0 hA.it hE0 _ hA.msg e2 pj.tape hx2
      have hD2 : e2.get "dst" = some (.keys acc.toList) := by rw [hfr2 _ (by decide)]; exact hA.dst
      have hA2 : SInv pj e2 i' acc := ⟨hI2, ⟨_, hE2⟩, hD2, hS2, hM2⟩
      obtain ⟨hv', hlim', _, hcase⟩ := hpost i' d' t hM
      rw [hx2]
      simp only [Res.bind_ok]
      rw [GoPJForEach.exec_cons', sErrK_run e2 pj.tape _ false hErr2]
      simp only [Bool.false_eq_true, if_false]
      by_cases ht0 : t = 0
      · have hbt : (t == typeNone) = true := by simp [typeNone, ht0]
        subst ht0
        rw [hret0 e2 F' _ hT2 hD2]
        simp only [hbt, if_true]
        exact ⟨_, rfl, rfl⟩
      · have hbt : (t == typeNone) = false := by simp [typeNone, ht0]
        simp only [hbt, Bool.false_eq_true, if_false]
        have hde : d'' = d' := hdd (by simpa [typeNone] using ht0)
        subst hde
        rcases hcase with ⟨h0, _⟩ | ⟨hvd, _⟩
        · exact absurd h0 (by simpa [typeNone] using ht0)
        have htail := hsw e2 F' i' acc d'' t hA2 hE2 hT2 ht0 hvd.1 (by omega)
        cases hr : elemStr d'' t with
        | ok b =>
          rw [hr] at htail
          obtain ⟨e3, hx3, hA3⟩ := htail
          rw [hx3]
          simp only [Res.bind_ok]
          exact ih e3 i' (acc.push b) F' hA3 hv' (by omega)
        | error err =>
          rw [hr] at htail
          obtain ⟨st, hx3⟩ := htail
          rw [hx3]
          exact ⟨st, rfl⟩
        | panic =>
          rw [hr] at htail
          simp only [TailPost] at htail
          rw [htail]
          rfl
        | diverge => rw [hr] at htail; exact htail.elim
    | error er =>
      rw [hM] at hind
      simp only [] at hind
      rw [hind] at hG
      obtain ⟨e2, tp, hx2, hErr2⟩ := hG
      rw [hx2]
      simp only [Res.bind_error]
      rw [GoPJForEach.exec_cons', sErrK_run e2 tp _ true hErr2]
      exact ⟨_, rfl⟩
    | panic =>
      rw [hM] at hind
      simp only [] at hind
      rw [hind] at hG
      simp only [] at hG
      rw [hG]
      rfl
    | diverge =>
      rw [hM] at hind
      simp only [] at hind
      rw [hind] at hG
      exact hG.elim

/-! ## fuel for `StringCvt` on any element of a document -/

/-- what `appendFloat` may need for the float a tape word stands for (as a float, an int64 or a uint64) -/
def wordFuel (w : UInt64) : Nat :=
  max (GoFloatFmt.floatFuel w) (max (GoFloatFmt.floatFuel (F64.ofInt (toInt64 w))) (GoFloatFmt.floatFuel (F64.ofNat w.toNat)))

/-- enough fuel for `StringCvt` on any iterator over `pj` (`GoApi.cvtFuel` depends on the value the iterator stands on) -/
def cvtBound (pj : PJ) : Nat := 3 + (pj.tape.toList.map wordFuel).foldr max 0

theorem le_foldr_max (f : UInt64 → Nat) : ∀ (l : List UInt64) (w : UInt64), w ∈ l → f w ≤ (l.map f).foldr max 0 := by
  intro l
  induction l with
  | nil => intro w h; cases h
  | cons a r ih =>
    intro w h
    simp only [List.map_cons, List.foldr_cons]
    rcases List.mem_cons.mp h with rfl | h
    · exact Nat.le_max_left _ _
    · exact Nat.le_trans (ih w h) (Nat.le_max_right _ _)

theorem valWord_mem (pj : PJ) (i : Iter) (w : UInt64) (h : Iter.valWord pj i = .ok w) : w ∈ pj.tape.toList := by
  unfold Iter.valWord Iter.rdT rd at h
  split at h
  · cases h
  · cases hg : pj.tape[i.off]? with
    | none => rw [hg] at h; cases h
    | some v =>
      rw [hg] at h
      simp only [Res.ok.injEq] at h
      subst h
      exact Array.mem_toList_iff.mpr (Array.mem_of_getElem? hg)

theorem cvtFuel_le (pj : PJ) (i : Iter) : GoApi.cvtFuel pj i ≤ cvtBound pj := by
  unfold GoApi.cvtFuel cvtBound
  have key : ∀ bits, i.float pj = .ok bits → GoFloatFmt.floatFuel bits ≤ (pj.tape.toList.map wordFuel).foldr max 0 := by
    intro bits h
    have hw : ∀ w, Iter.valWord pj i = .ok w → wordFuel w ≤ (pj.tape.toList.map wordFuel).foldr max 0 :=
      fun w hw => le_foldr_max wordFuel _ w (valWord_mem pj i w hw)
    unfold Iter.float at h
    split at h
    · exact Nat.le_trans (Nat.le_max_left _ _) (hw bits h)
    · split at h
      · cases hv : Iter.valWord pj i with
        | ok w =>
          rw [hv] at h
          simp only [Res.bind_ok, Res.ok.injEq] at h
          subst h
          exact Nat.le_trans (Nat.le_trans (Nat.le_max_left _ _) (Nat.le_max_right _ _)) (hw w hv)
        | error e => rw [hv] at h; cases h
        | panic => rw [hv] at h; cases h
        | diverge => rw [hv] at h; cases h
      · split at h
        · cases hv : Iter.valWord pj i with
          | ok w =>
            rw [hv] at h
            simp only [Res.bind_ok, Res.ok.injEq] at h
            subst h
            exact Nat.le_trans (Nat.le_trans (Nat.le_max_right _ _) (Nat.le_max_right _ _)) (hw w hv)
          | error e => rw [hv] at h; cases h
          | panic => rw [hv] at h; cases h
          | diverge => rw [hv] at h; cases h
        · cases h
  cases hf : i.float pj with
  | ok bits => have := key bits hf; simp only; omega
  | error e => simp only; omega
  | panic => simp only; omega
  | diverge => simp only; omega

/-! ## the two `switch`es -/

def strSw : Stmt := .switch (.v "t") [([.u8 0], [sRetDst]), ([.u8 2], [sStr, sErrK, sPush])] [sRetErr]
def cvtSw : Stmt := .switch (.v "t") [([.u8 0], [sRetDst])] [sCvt, sErrK, sPush]

theorem simBytes_toCvtE {pj : PJ} {el : Iter} {e : Env} {o : Out} {r : Res Bytes} (hI : iterAt e "i" = some el)
    (h : SimBytes pj (fun e' => ∀ k, e'.get k = e.get k) o r) : GoApi.SimCvtE pj el #[] o r := by
  have hk : ∀ e' : Env, (∀ k, e'.get k = e.get k) → iterAt e' "i" = some el := fun e' h' => by
    rw [iterAt_congr e e' "i" (fun k _ => h' k)]; exact hI
  cases r with
  | ok b => obtain ⟨s, h1, h2, h3⟩ := h; exact ⟨s, h1, h2, hk _ h3⟩
  | error err => obtain ⟨s, h1, h2, h3⟩ := h; exact ⟨s, h1, h2, hk _ h3⟩
  | panic => exact h
  | diverge => exact h

theorem str_sw_tail (pj : PJ) (hb : BufOK pj) (e : Env) (F : Nat) (i' : Iter) (acc : Array Bytes) (el : Iter) (t : UInt8)
    (hA : SInv pj e i' acc) (hE : iterAt e "elem" = some el) (hT : e.get "t" = some (.u8 t)) (ht : t ≠ 0)
    (hl : el.lim ≤ pj.tape.size) (hF : 3 ≤ F) :
    TailPost pj i' acc (exec goFuns F [strSw] ⟨e, pj.tape⟩) (strOf pj el t) := by
  obtain ⟨f, rfl⟩ : ∃ f, F = f + 1 := ⟨F - 1, by omega⟩
  rw [strSw, str_switch e pj.tape _ t hT, if_neg ht]
  unfold strOf
  by_cases h2 : t = 2
  · have hb2 : (t == typeString) = true := by simp [typeString, h2]
    rw [if_pos h2, sStr]
    simp only [hb2, if_true]
    obtain ⟨hS0, hM0⟩ := intoFrame_buf pj e el hA.strs hA.msg
    exact elem_tail pj e f i' acc el "Iter.String" goIter_String #[] _ rfl hA hE
      (simBytes_toCvtE (GoApi.intoFrame_iter e el)
        (GoApi.string_sim pj el _ hl hb f (by omega) (GoApi.intoFrame_iter e el) hS0 hM0))
  · have hb2 : (t == typeString) = false := by simp [typeString, h2]
    rw [if_neg h2, sRetErr_run]
    simp only [hb2, Bool.false_eq_true, if_false]
    exact ⟨_, rfl⟩

theorem cvt_sw_tail (pj : PJ) (hb : BufOK pj) (e : Env) (F : Nat) (i' : Iter) (acc : Array Bytes) (el : Iter) (t : UInt8)
    (hA : SInv pj e i' acc) (hE : iterAt e "elem" = some el) (hT : e.get "t" = some (.u8 t)) (ht : t ≠ 0)
    (hl : el.lim ≤ pj.tape.size) (hF : cvtBound pj + 1 ≤ F) :
    TailPost pj i' acc (exec goFuns F [cvtSw] ⟨e, pj.tape⟩) (cvtOf pj el t) := by
  obtain ⟨f, rfl⟩ : ∃ f, F = f + 1 := ⟨F - 1, by omega⟩
  rw [cvtSw, cvt_switch e pj.tape _ t hT, if_neg ht, sCvt]
  obtain ⟨hS0, hM0⟩ := intoFrame_buf pj e el hA.strs hA.msg
  exact elem_tail pj e f i' acc el "Iter.StringCvt" goIter_StringCvt (GoApi.cvtErrStr el) _ rfl hA hE
    (GoApi.stringCvt_sim pj el _ hl hb f (Nat.le_trans (cvtFuel_le pj el) (by omega)) (GoApi.intoFrame_iter e el) hS0 hM0)

/-! ## the functions -/

section fn
attribute [local simp] exec exec1 execCases evalE evalEs isOneOf binop convert ofE copyFields bindParams
  iterFields runFun tblLookup Env.get_set

def strPreA : List Stmt := strPre.take 2
def strPreB : List Stmt := strPre.drop 2
theorem strPre_split : strPre = strPreA ++ strPreB := rfl

/-- the dead capacity estimate `lenEst` -/
theorem preA_exec (e0 : Env) (tape : Array UInt64) (F : Nat) (off lim : Int) (h1 : e0.get "a.off" = some (.int off))
    (h2 : e0.get "a.lim" = some (.int lim)) :
    ∃ e1, exec goFuns F strPreA ⟨e0, tape⟩ = .normal ⟨e1, tape⟩ ∧ ∀ k, k ≠ "lenEst" → e1.get k = e0.get k := by
  by_cases h : lim - off - 1 < 0
  · refine ⟨(e0.set "lenEst" (.int (lim - off - 1))).set "lenEst" (.int 0), ?_, ?_⟩
    · simp [strPreA, strPre, goArray_AsString, h1, h2, h]
    · intro k hk; simp [Ne.symm hk]
  · refine ⟨e0.set "lenEst" (.int (lim - off - 1)), ?_, ?_⟩
    · simp [strPreA, strPre, goArray_AsString, h1, h2, h]
    · intro k hk; simp [Ne.symm hk]

theorem pre_exec (pj : PJ) (v : View) (e0 : Env) (F : Nat) (h0 : GoDelete.RecvIn pj "a" v e0) :
    ∃ e1, exec goFuns F strPre ⟨e0, pj.tape⟩ = .normal ⟨e1, pj.tape⟩ ∧ SInv pj e1 v.iter #[] := by
  obtain ⟨a1, a2, hS, hM⟩ := h0
  simp only [String.reduceAppend] at a1 a2
  obtain ⟨e1, hx, hfr⟩ := preA_exec e0 pj.tape F _ _ a1 a2
  have b1 : e1.get "a.off" = some (.int v.off) := by rw [hfr _ (by decide)]; exact a1
  have b2 : e1.get "a.lim" = some (.int v.lim) := by rw [hfr _ (by decide)]; exact a2
  have bS : e1.get "Strings.B" = some (.bytes pj.strings) := by rw [hfr _ (by decide)]; exact hS
  have bM : e1.get "Message" = some (.bytes pj.msg) := by rw [hfr _ (by decide)]; exact hM
  rw [strPre_split, GoIter.exec_append, hx]
  simp only []
  refine ⟨_, by simp [strPreB, strPre, goArray_AsString, b1, b2]; rfl, ?_, ⟨default, ?_⟩, ?_, ?_, ?_⟩
  · apply iterAt_of_gets <;> simp [View.iter, tagEnd]
  · apply iterAt_of_gets <;> simp <;> rfl
  · simp
  · simp [bS]
  · simp [bM]

end fn

/-- outcome of either function against its model run with fuel `n` (`LoopPost`: nothing is claimed when the MODEL runs out
    of fuel) -/
theorem fun_sim (pj : PJ) (fd : FunDef) (elemStr : Iter → UInt8 → Res Bytes) (sw : Stmt) (K : Nat)
    (hbody : fd.body = strPre ++ [.loop [sAI, sErrK, sw]])
    (hloop : ∀ (n : Nat) (e : Env) (i : Iter) (acc : Array Bytes) (F : Nat), SInv pj e i acc → WalkSafe.Iter.Valid pj i →
      n + i.lim + K + 10 ≤ F →
      LoopPost pj (exec1 goFuns F (.loop [sAI, sErrK, sw]) ⟨e, pj.tape⟩) (strLoop pj elemStr i acc n))
    (v : View) (hl : v.lim ≤ pj.tape.size) (e0 : Env) (h0 : GoDelete.RecvIn pj "a" v e0) (n F : Nat)
    (hF : n + v.lim + K + 10 ≤ F) :
    LoopPost pj (runFun goFuns fd F ⟨e0, pj.tape⟩) (strLoop pj elemStr v.iter #[] n) := by
  obtain ⟨e1, hpre, hA⟩ := pre_exec pj v e0 F h0
  have hlp := hloop n e1 v.iter #[] F hA (WalkSafe.iter_valid pj v hl) hF
  have hx : exec goFuns F fd.body ⟨e0, pj.tape⟩ = exec1 goFuns F (.loop [sAI, sErrK, sw]) ⟨e1, pj.tape⟩ := by
    rw [hbody, GoIter.exec_append, hpre]
    simp only []
    rw [GoFindElem.exec_one]
  cases hr : strLoop pj elemStr v.iter #[] n with
  | ok strs =>
    rw [hr] at hlp
    obtain ⟨st, ho, hst⟩ := hlp
    rw [runFun_final _ _ _ _ (by rw [hx, ho]; rfl), hx, ho]
    exact ⟨st, rfl, hst⟩
  | error err =>
    rw [hr] at hlp
    obtain ⟨st, ho⟩ := hlp
    rw [runFun_final _ _ _ _ (by rw [hx, ho]; rfl), hx, ho]
    exact ⟨st, rfl⟩
  | panic =>
    rw [hr] at hlp
    simp only [LoopPost] at hlp
    rw [runFun_final _ _ _ _ (by rw [hx, hlp]; rfl), hx, hlp]
    rfl
  | diverge => trivial

/-- **`Array.AsString` IS `View.asString`**: for any model fuel `n` and `F ≥ n + v.lim + 13` -/
theorem asString_sim (pj : PJ) (hb : BufOK pj) (v : View) (hl : v.lim ≤ pj.tape.size) (e0 : Env)
    (h0 : GoDelete.RecvIn pj "a" v e0) (n F : Nat) (hF : n + v.lim + 13 ≤ F) :
    LoopPost pj (runFun goFuns goArray_AsString F ⟨e0, pj.tape⟩) (View.asString pj v.iter #[] n) := by
  rw [asString_eq]
  exact fun_sim pj goArray_AsString (strOf pj) strSw 3 asString_body
    (str_loop pj (strOf pj) strSw 3
      (fun e F l hT hD => by rw [strSw, str_switch e pj.tape F 0 hT, if_pos rfl, sRetDst_run e pj.tape F l hD])
      (fun e F i' acc el t hA hE hT ht hl' hF' => str_sw_tail pj hb e F i' acc el t hA hE hT ht hl' hF'))
    v hl e0 h0 n F (by omega)

/-- **`Array.AsStringCvt` IS `asStringCvt`**: for any model fuel `n` and `F ≥ n + v.lim + cvtBound pj + 11` -/
theorem asStringCvt_sim (pj : PJ) (hb : BufOK pj) (v : View) (hl : v.lim ≤ pj.tape.size) (e0 : Env)
    (h0 : GoDelete.RecvIn pj "a" v e0) (n F : Nat) (hF : n + v.lim + cvtBound pj + 11 ≤ F) :
    LoopPost pj (runFun goFuns goArray_AsStringCvt F ⟨e0, pj.tape⟩) (asStringCvt pj v.iter #[] n) := by
  rw [asStringCvt_eq]
  exact fun_sim pj goArray_AsStringCvt (cvtOf pj) cvtSw (cvtBound pj + 1) asStringCvt_body
    (str_loop pj (cvtOf pj) cvtSw (cvtBound pj + 1)
      (fun e F l hT hD => by rw [cvtSw, cvt_switch e pj.tape F 0 hT, if_pos rfl, sRetDst_run e pj.tape F l hD])
      (fun e F i' acc el t hA hE hT ht hl' hF' => cvt_sw_tail pj hb e F i' acc el t hA hE hT ht hl' hF'))
    v hl e0 h0 n F (by omega)

/-! ## the model neither panics nor runs out of fuel on a view of the tape -/

open SJ.WalkSafe (OkOrErr) in
theorem strLoop_safe (pj : PJ) (elemStr : Iter → UInt8 → Res Bytes)
    (hes : ∀ el t, WalkSafe.Iter.Valid pj el → OkOrErr (elemStr el t)) :
    ∀ (n : Nat) (i : Iter) (acc : Array Bytes), WalkSafe.Iter.Valid pj i → i.lim - i.off < n →
      OkOrErr (strLoop pj elemStr i acc n) := by
  intro n
  induction n with
  | zero => intro i acc _ h; omega
  | succ n ih =>
    intro i acc hv hn
    rw [strLoop]
    obtain ⟨hsafe, hpost⟩ := WalkSafe.advanceIter_safe pj i default hv
    rcases hsafe with ⟨⟨i2, d2, ty⟩, he⟩ | ⟨er, he⟩
    · obtain ⟨hv2, hlim2, _, hcase⟩ := hpost i2 d2 ty he
      rw [he]
      simp only [Res.bind_ok]
      split
      · exact Or.inl ⟨_, rfl⟩
      · next hty =>
        rcases hcase with ⟨h0, _⟩ | ⟨hvd, hdl, hprog, hdo, hdle, _, _⟩
        · exact absurd (by rw [h0]; rfl) hty
        rcases hes d2 ty hvd with ⟨b, hB⟩ | ⟨er, hB⟩
        · rw [hB]
          simp only [Res.bind_ok]
          exact ih i2 _ hv2 (by omega)
        · rw [hB]
          exact Or.inr ⟨_, rfl⟩
    · rw [he]
      exact Or.inr ⟨_, rfl⟩

open SJ.WalkSafe (OkOrErr) in
theorem stringCvt_safe (pj : PJ) (el : Iter) (hv : WalkSafe.Iter.Valid pj el) : OkOrErr (GoApi.stringCvt pj el) := by
  unfold GoApi.stringCvt
  split
  · exact WalkSafe.stringBytes_safe pj el hv
  · split
    · exact (WalkSafe.int_safe pj el hv.1).bind (fun _ _ => Or.inl ⟨_, rfl⟩)
    · split
      · exact (WalkSafe.uint_safe pj el hv.1).bind (fun _ _ => Or.inl ⟨_, rfl⟩)
      · split
        · refine (WalkSafe.float_safe pj el hv.1).bind (fun bits _ => ?_)
          cases FloatFmt.appendFloat bits with
          | some b => exact Or.inl ⟨_, rfl⟩
          | none => exact Or.inr ⟨_, rfl⟩
        · split
          · exact Or.inl ⟨_, rfl⟩
          · split
            · exact Or.inl ⟨_, rfl⟩
            · split
              · exact Or.inl ⟨_, rfl⟩
              · exact Or.inr ⟨_, rfl⟩

theorem strOf_safe (pj : PJ) (el : Iter) (t : UInt8) (hv : WalkSafe.Iter.Valid pj el) :
    WalkSafe.OkOrErr (strOf pj el t) := by
  unfold strOf
  split
  · exact WalkSafe.stringBytes_safe pj el hv
  · exact Or.inr ⟨_, rfl⟩

/-- on a view of the tape `View.asString` with `lim - off + 1` units of fuel returns strings or an error -/
theorem asString_safe (pj : PJ) (v : View) (hl : v.lim ≤ pj.tape.size) (n : Nat) (hn : v.lim - v.off < n) :
    WalkSafe.OkOrErr (View.asString pj v.iter #[] n) := by
  rw [asString_eq]
  exact strLoop_safe pj _ (strOf_safe pj) n v.iter #[] (WalkSafe.iter_valid pj v hl) hn

theorem asStringCvt_safe (pj : PJ) (v : View) (hl : v.lim ≤ pj.tape.size) (n : Nat) (hn : v.lim - v.off < n) :
    WalkSafe.OkOrErr (asStringCvt pj v.iter #[] n) := by
  rw [asStringCvt_eq]
  exact strLoop_safe pj _ (fun el _ hv => stringCvt_safe pj el hv) n v.iter #[] (WalkSafe.iter_valid pj v hl) hn

/-! ## the relation read as equivalences -/

/-- model `.ok strs` ⇔ the function returns `(strs, nil)` (a `[]string` as the list of its byte strings), tape unchanged;
    model `.error _` ⇔ it returns `(nil, err)`; panic ⇔ panic — and neither side panics; the model does not run out of
    fuel; the interpreter is never stuck and never out of fuel -/
def StrTie (pj : PJ) (o : Out) (r : Res (Array Bytes)) : Prop :=
  (∀ strs, r = .ok strs ↔ ∃ st, o = .ret st [.keys strs.toList, .bool false] ∧ st.tape = pj.tape) ∧
  ((∃ er, r = .error er) ↔ ∃ st, o = .ret st [.keys [], .bool true]) ∧
  (r = .panic ↔ o = .panic) ∧ r ≠ .panic ∧ r ≠ .diverge ∧ o ≠ .panic ∧ o ≠ .diverge ∧ (∀ w, o ≠ .stuck w)

theorem LoopPost.tie {pj : PJ} {o : Out} {r : Res (Array Bytes)} (h : LoopPost pj o r) (hs : WalkSafe.OkOrErr r) :
    StrTie pj o r := by
  rcases hs with ⟨strs0, rfl⟩ | ⟨er, rfl⟩
  · obtain ⟨st, rfl, hst⟩ := h
    refine ⟨fun strs => ⟨?_, ?_⟩, ⟨?_, ?_⟩, ⟨?_, ?_⟩, ?_, ?_, ?_, ?_, ?_⟩
    · intro h'; injection h' with h'; subst h'; exact ⟨st, rfl, hst⟩
    · rintro ⟨st', h', _⟩
      simp only [Out.ret.injEq, List.cons.injEq, Val.keys.injEq, and_true] at h'
      rw [Array.toList_inj.mp h'.2]
    · rintro ⟨er, h'⟩; cases h'
    · rintro ⟨st', h'⟩; simp at h'
    · intro h'; cases h'
    · intro h'; cases h'
    · intro h'; cases h'
    · intro h'; cases h'
    · intro h'; cases h'
    · intro h'; cases h'
    · intro w h'; cases h'
  · obtain ⟨st, rfl⟩ := h
    refine ⟨fun strs => ⟨?_, ?_⟩, ⟨?_, ?_⟩, ⟨?_, ?_⟩, ?_, ?_, ?_, ?_, ?_⟩
    · intro h'; cases h'
    · rintro ⟨st', h', _⟩; simp at h'
    · intro _; exact ⟨st, rfl⟩
    · intro _; exact ⟨er, rfl⟩
    · intro h'; cases h'
    · intro h'; cases h'
    · intro h'; cases h'
    · intro h'; cases h'
    · intro h'; cases h'
    · intro h'; cases h'
    · intro w h'; cases h'

/-- the store a method of `Array` starts in: the receiver's two fields, the shared buffers, anything else (as
    `GoDelete.arrStore`) -/
def arrStore (pj : PJ) (v : View) (extra : Env) : Env :=
  [("a.off", .int v.off), ("a.lim", .int v.lim)] ++ bufEnv pj ++ extra

theorem RecvIn_arrStore (pj : PJ) (v : View) (extra : Env) : GoDelete.RecvIn pj "a" v (arrStore pj v extra) := by
  refine ⟨?_, ?_, ?_, ?_⟩ <;> simp [arrStore, bufEnv, Env.get]

/-- **`Array.AsString` and `Array.AsStringCvt` of /repo, as translated, ARE `View.asString` and `asStringCvt`**
    (the latter defined in this file from `GoApi.stringCvt`: no hand model existed): for every document whose buffer
    lengths are Go `int`s, every view inside the tape, any other variables `extra` in the store, the model's usual fuel
    `fuelOf pj`, and `fuelOf pj + v.lim + cvtBound pj + 13` units of interpreter fuel (`+ 13` alone for `AsString`). -/
theorem go_arrstr_source_tie (pj : PJ) (hb : BufOK pj) (v : View) (hl : v.lim ≤ pj.tape.size) (extra : Env) (F : Nat)
    (hF : fuelOf pj + v.lim + cvtBound pj + 13 ≤ F) :
    StrTie pj (runFun goFuns goArray_AsString F ⟨arrStore pj v extra, pj.tape⟩)
      (View.asString pj v.iter #[] (fuelOf pj)) ∧
    StrTie pj (runFun goFuns goArray_AsStringCvt F ⟨arrStore pj v extra, pj.tape⟩)
      (asStringCvt pj v.iter #[] (fuelOf pj)) := by
  have hn : v.lim - v.off < fuelOf pj := by unfold fuelOf; omega
  exact ⟨(asString_sim pj hb v hl _ (RecvIn_arrStore pj v extra) (fuelOf pj) F (by omega)).tie
      (asString_safe pj v hl _ hn),
    (asStringCvt_sim pj hb v hl _ (RecvIn_arrStore pj v extra) (fuelOf pj) F (by omega)).tie
      (asStringCvt_safe pj v hl _ hn)⟩

end SJ.GoArrStr

#print axioms SJ.GoArrStr.go_arrstr_source_tie
