import SJ.Proofs.GoMarshalStep
set_option linter.unusedVariables false
set_option linter.unusedSimpArgs false
/-
GoMarshal — `Iter.MarshalJSONBuffer` (parsed_json.go l.404-586), as printed by the translator
(`Generated/GoSrc.lean`: `goIter_MarshalJSONBuffer`) and run by `GoSem.exec`, against the hand model
`Model/Marshal.lean` (`Iter.marshalStep`, `Iter.marshalLoop`, `Iter.marshalBuf`) on which the C10 theorems rest.
The proofs run the syntax tree piece by piece (`body_eq`, `keyBody_eq`, `tagSwitch_eq`, `tcase k`, `postSec_eq`, `fn_eq` …
are `rfl`): any edit of the Go function changes `Generated/GoSrc.lean` and breaks them.

Files: GoMarshalLemmas (the six callees from an ABSTRACT caller store; `Rep`, `Inv`; key-name prefix `key_sim`;
section after the switch `post_sim`; the labelled switch per tag `sw_*`), GoMarshalStep (one lemma per `case`,
`root_sim`, `body_sim`), this file (`step_sim`, `loop_sim`, `marshal_sim`, `go_marshal_source_tie`).

MAIN RESULT.  For every `pj` with `BufOK pj`, every `i` with `i.lim ≤ pj.tape.size` and `i.cur < 2^63`, every `dst`,
the store `initEnv pj i dst = envOf "i" i ++ bufEnv pj ++ [("dst", dst)]`, tape `pj.tape`:

  `marshal_sim` : for every model fuel `n` and interpreter fuel `F ≥ n + i.lim + 9`, with the model's write loop
      run on `n` units of fuel (`marshalBufN`; `Iter.marshalBuf = marshalBufN … (fuelOf pj)` by `rfl`):
        model `.ok out`   ⇒ interpreter returns `[out, nil]`, tape unchanged
        model `.error _`  ⇒ interpreter returns `[_, non-nil]`
        model `.panic`    ⇒ interpreter panics
        model `.diverge`  ⇒ nothing is claimed (the MODEL ran out of its fuel `n`; with more fuel it is one of the above)
  `go_marshal_source_tie` : with `F ≥ fuelOf pj + i.lim + 9` and `i.marshalBuf pj dst ≠ .diverge`, the three lines are
      equivalences (the outcome shapes exclude one another) — the interpreter is never stuck and never out of fuel.
  `go_marshal_source_tie_valid` : the same with `0 ≤ i.addNext` in place of `≠ .diverge` (`WalkSafe.marshalBuf_safe`:
      from a valid cursor the model's loop needs fewer than `fuelOf pj` iterations and never panics); then the Go
      function does not panic either.

Fuel: an iteration of `for {}` costs 1; inside the body a call costs 1 and `PeekNextTag`/`AdvanceInto` need
`fuelFor i = i.lim + 8` (GoIter), `StringBytes` 1, `Int`/`Uint`/`Float` 0: `n + i.lim + 9` pays for `n` iterations.

HYPOTHESES, with the reason.
  * `BufOK pj` — as in GoObject (`stringByteAt`: buffer lengths are Go `int`s).
  * `i.lim ≤ pj.tape.size` — the view is a view of the tape (as in GoIter).
  * `i.cur.toNat < 2^63` on the INITIAL iterator — a genuine model/Go difference outside it, see the end of this file:
    `case TagRoot` computes `isOpenRoot := int(i.cur) > i.off` (two's-complement reinterpretation), the model compares the
    natural number `i.cur.toNat`.  Every `i.cur` the library produces is a 56-bit payload (`v & JSONVALUEMASK`) or 0, and
    the invariant is preserved by every iteration (`advanceInto_inv`), so this concerns hand-made iterators only.

NO OTHER DIFFERENCE FOUND.  In particular `stack[len(stack)-1]` (Go: panics on an empty slice) vs `s.stack.back!`
(model: 0 on an empty array): the stack is never empty — `Inv.bot : s.stack[0]? = some stackNone` is an invariant
(it starts as `[stackNone]`; `TagRoot` pops only when `len(stack) > 1`; `TagObjectEnd`/`TagArrayEnd` pop only when the top
is `stackObject`/`stackArray`, which the bottom entry is not: `pop_bot`).  `stackTmp[:1]`/`append` only concern capacity.
`tmpBuf` is never read.  `nil` and `[]byte{}` are the same value in GoSem; the value returned beside a non-nil error
(`nil` or `dst`) is not related to the model (`.error` carries no buffer).
-/
namespace SJ.GoMarshal
open SJ SJ.GoSem SJ.Generated SJ.GoIter SJ.GoObject

attribute [local simp] exec exec1 execCases evalE evalEs isOneOf binop convert ofE copyFields bindParams
  iterFields runFun tblLookup

/-! ## one iteration -/

theorem step_sim (pj : PJ) (hb : BufOK pj) (e : Env) (s : MState) (f : Nat) (hR : Rep pj e s) (hI : Inv pj s)
    (hf : s.i.lim + 8 ≤ f) :
    StepSim pj s.i.lim (exec goFuns (f + 1) bodyL ⟨e, pj.tape⟩) (Iter.marshalStep pj s) := by
  rw [body_eq, exec, exec1_assign _ _ _ _ _ (.bool false) (by simp)]
  simp only []
  have hR0 : Rep pj (e.set "valueDone" (.bool false)) s := hR.set _ _ (by decide)
  have hk := key_sim pj hb _ s f hR0 hI (Env.get_set_self _ _ _) hf
  rw [exec, WalkSafe.marshalStep_eq]
  refine hk.bind_step (fun e1 s1 hp => ?_)
  obtain ⟨h1, h2, h3, _, h5⟩ := hp
  rw [← h3]
  exact body_sim pj hb e1 s1 f h1 h2 h5 (by rw [h3]; exact hf)

/-! ## the loop -/

/-- the write loop against `marshalLoop` run with fuel `n`; nothing is claimed when the model's fuel runs out -/
def LoopSim (pj : PJ) (L : Nat) (o : Out) (r : Res MState) : Prop :=
  match r with
  | .ok s' => ∃ e', o = .normal ⟨e', pj.tape⟩ ∧ Rep pj e' s' ∧ Inv pj s' ∧ s'.i.lim = L
  | .error _ => ErrOut o
  | .panic => o = .panic
  | .diverge => True

theorem loop_sim (pj : PJ) (hb : BufOK pj) : ∀ (n : Nat) (e : Env) (s : MState) (F : Nat), Rep pj e s → Inv pj s →
    n + s.i.lim + 9 ≤ F →
    LoopSim pj s.i.lim (exec1 goFuns F (.loop bodyL) ⟨e, pj.tape⟩) (Iter.marshalLoop pj s n) := by
  intro n
  induction n with
  | zero => intro e s F _ _ _; rw [Iter.marshalLoop]; trivial
  | succ n ih =>
    intro e s F hR hI hF
    obtain ⟨F', rfl⟩ : ∃ F', F = F' + 1 := ⟨F - 1, by omega⟩
    obtain ⟨f, rfl⟩ : ∃ f, F' = f + 1 := ⟨F' - 1, by omega⟩
    have hs := step_sim pj hb e s f hR hI (by omega)
    rw [exec1, Iter.marshalLoop]
    cases hr : Iter.marshalStep pj s with
    | ok x =>
      rw [hr] at hs
      cases x with
      | inl s' =>
        obtain ⟨e', ho, hR', hI', hl'⟩ := hs
        simp only [Res.bind_ok]
        have := ih e' s' (f + 1) hR' hI' (by omega)
        rw [hl'] at this
        rcases ho with ho | ho <;> rw [ho] <;> exact this
      | inr s' =>
        obtain ⟨e', ho, hR', hI', hl'⟩ := hs
        rw [ho]
        exact ⟨e', rfl, hR', hI', hl'⟩
    | error er =>
      rw [hr] at hs
      obtain ⟨st, v, ho⟩ := hs
      rw [ho]
      exact ⟨st, v, rfl⟩
    | panic =>
      rw [hr] at hs
      simp only [StepSim] at hs
      rw [hs]
      rfl
    | diverge => rw [hr] at hs; exact hs.elim


/-! ## the function -/

def preL : List Stmt := goIter_MarshalJSONBuffer.body.take 4
def tailL : List Stmt := afterLoop goIter_MarshalJSONBuffer.body
theorem fn_eq : goIter_MarshalJSONBuffer.body = preL ++ .loop bodyL :: tailL := rfl

/-- the store `MarshalJSONBuffer(dst)` starts in -/
def initEnv (pj : PJ) (i : Iter) (dst : Bytes) : Env := envOf "i" i ++ bufEnv pj ++ [("dst", .bytes dst)]

theorem pre_run (pj : PJ) (i : Iter) (dst : Bytes) (F : Nat) :
    ∃ e0, exec goFuns F preL ⟨initEnv pj i dst, pj.tape⟩ = .normal ⟨e0, pj.tape⟩ ∧
      Rep pj e0 { i := i, stack := #[stackNone], dst := dst } := by
  refine ⟨(((initEnv pj i dst).set "tmpBuf" (.bytes #[])).set "stackTmp" (.bytes (Array.replicate 100 0))).set "stack"
    (.bytes #[0]), ?_, ?_⟩
  · have h : (Array.replicate 100 (0 : UInt8)).extract 0 1 = #[0] := by decide
    simp [preL, goIter_MarshalJSONBuffer, Env.get_set, h]
  · refine ⟨?_, ?_, ?_, ?_, ?_, ?_, ?_⟩
    · simp (disch := decide) only [iterAt_set_ne]
      simp [initEnv, envOf, bufEnv, iterAt, Env.get]
    all_goals simp [Env.get_set, initEnv, envOf, bufEnv, Env.get, stackNone]

theorem tail_run (e : Env) (tape : Array UInt64) (F : Nat) (st d : Bytes) (hS : e.get "stack" = some (.bytes st))
    (hd : e.get "dst" = some (.bytes d)) :
    ∃ st', exec goFuns F tailL ⟨e, tape⟩ =
      if st.size > 1 then .ret ⟨st', tape⟩ [.bytes #[], .bool true] else .ret ⟨e, tape⟩ [.bytes d, .bool false] := by
  by_cases h : st.size > 1
  · have h' : (1 : Int) < st.size := by omega
    have h2 : (1 : Int) ≤ st.size := by omega
    refine ⟨e.set "sCopy" (.bytes (st.extract 1 st.size)), ?_⟩
    simp [tailL, afterLoop, goIter_MarshalJSONBuffer, hS, hd, h, h', h2]
  · have h' : ¬ (1 : Int) < st.size := by omega
    refine ⟨e, ?_⟩
    simp [tailL, afterLoop, goIter_MarshalJSONBuffer, hS, hd, h, h']

/-- `Iter.marshalBuf` with the fuel of its write loop as a parameter (`marshalBuf` itself uses `fuelOf pj`) -/
def marshalBufN (pj : PJ) (i : Iter) (dst : Bytes) (n : Nat) : Res Bytes := do
  let s ← Iter.marshalLoop pj { i := i, stack := #[stackNone], dst := dst } n
  if s.stack.size > 1 then .error .generic else .ok s.dst

theorem marshalBuf_eq (pj : PJ) (i : Iter) (dst : Bytes) : i.marshalBuf pj dst = marshalBufN pj i dst (fuelOf pj) := rfl

/-- outcome of `MarshalJSONBuffer` against the model; nothing is claimed when the MODEL's fuel ran out -/
def MainSim (pj : PJ) (o : Out) (r : Res Bytes) : Prop :=
  match r with
  | .ok out => ∃ st, o = .ret st [.bytes out, .bool false] ∧ st.tape = pj.tape
  | .error _ => ∃ st v, o = .ret st [v, .bool true]
  | .panic => o = .panic
  | .diverge => True

theorem marshal_sim (pj : PJ) (hb : BufOK pj) (i : Iter) (hl : i.lim ≤ pj.tape.size) (hcur : i.cur.toNat < 2^63)
    (dst : Bytes) (n F : Nat) (hF : n + i.lim + 9 ≤ F) :
    MainSim pj (runFun goFuns goIter_MarshalJSONBuffer F ⟨initEnv pj i dst, pj.tape⟩) (marshalBufN pj i dst n) := by
  obtain ⟨e0, hpre, hR0⟩ := pre_run pj i dst F
  have hI0 : Inv pj { i := i, stack := #[stackNone], dst := dst } := ⟨hl, hcur, by simp [stackNone]⟩
  have hloop := loop_sim pj hb n e0 _ F hR0 hI0 hF
  have key : MainSim pj (exec goFuns F goIter_MarshalJSONBuffer.body ⟨initEnv pj i dst, pj.tape⟩)
      (marshalBufN pj i dst n) ∧
      (marshalBufN pj i dst n ≠ .diverge →
        Out.final (exec goFuns F goIter_MarshalJSONBuffer.body ⟨initEnv pj i dst, pj.tape⟩) = true) := by
    rw [fn_eq, exec_append, hpre]
    simp only []
    rw [exec]
    unfold marshalBufN
    cases hr : Iter.marshalLoop pj { i := i, stack := #[stackNone], dst := dst } n with
    | ok s' =>
      rw [hr] at hloop
      obtain ⟨e', ho, hR', hI', _⟩ := hloop
      rw [ho]
      simp only [Res.bind_ok]
      obtain ⟨st', ht⟩ := tail_run e' pj.tape F s'.stack s'.dst hR'.stack hR'.dst
      rw [ht]
      by_cases hsz : s'.stack.size > 1
      · simp only [hsz, if_true, MainSim]
        exact ⟨⟨_, _, rfl⟩, fun _ => rfl⟩
      · simp only [hsz, if_false, MainSim]
        exact ⟨⟨_, rfl, rfl⟩, fun _ => rfl⟩
    | error er =>
      rw [hr] at hloop
      obtain ⟨st, v, ho⟩ := hloop
      rw [ho]
      exact ⟨⟨st, v, rfl⟩, fun _ => rfl⟩
    | panic =>
      rw [hr] at hloop
      simp only [LoopSim] at hloop
      rw [hloop]
      exact ⟨rfl, fun _ => rfl⟩
    | diverge => exact ⟨trivial, fun h => absurd rfl h⟩
  by_cases hd : marshalBufN pj i dst n = .diverge
  · rw [hd]; trivial
  · rw [runFun_final _ _ _ _ (key.2 hd)]
    exact key.1


/-! ## the relation read as equivalences -/

/-- With enough fuel, and when the model's own fuel `fuelOf pj` suffices (`≠ .diverge`), each line is an equivalence. -/
theorem go_marshal_source_tie (pj : PJ) (hb : BufOK pj) (i : Iter) (hl : i.lim ≤ pj.tape.size)
    (hcur : i.cur.toNat < 2^63) (dst : Bytes) (F : Nat) (hF : fuelOf pj + i.lim + 9 ≤ F)
    (hnd : i.marshalBuf pj dst ≠ .diverge) :
    (∀ out, i.marshalBuf pj dst = .ok out ↔
      ∃ st, runFun goFuns goIter_MarshalJSONBuffer F ⟨initEnv pj i dst, pj.tape⟩ = .ret st [.bytes out, .bool false] ∧
        st.tape = pj.tape) ∧
    ((∃ er, i.marshalBuf pj dst = .error er) ↔
      ∃ st v, runFun goFuns goIter_MarshalJSONBuffer F ⟨initEnv pj i dst, pj.tape⟩ = .ret st [v, .bool true]) ∧
    (i.marshalBuf pj dst = .panic ↔
      runFun goFuns goIter_MarshalJSONBuffer F ⟨initEnv pj i dst, pj.tape⟩ = .panic) := by
  have h := marshal_sim pj hb i hl hcur dst (fuelOf pj) F hF
  rw [← marshalBuf_eq] at h
  generalize runFun goFuns goIter_MarshalJSONBuffer F ⟨initEnv pj i dst, pj.tape⟩ = o at h ⊢
  cases hr : i.marshalBuf pj dst with
  | ok out0 =>
    rw [hr] at h
    obtain ⟨st, rfl, hst⟩ := h
    refine ⟨fun out => ⟨?_, ?_⟩, ⟨?_, ?_⟩, ⟨?_, ?_⟩⟩
    · intro h'; injection h' with h'; subst h'; exact ⟨st, rfl, hst⟩
    · rintro ⟨st', h', _⟩
      simp only [Out.ret.injEq, List.cons.injEq, Val.bytes.injEq] at h'
      rw [h'.2.1]
    · rintro ⟨er, h'⟩; cases h'
    · rintro ⟨st', v, h'⟩; simp at h'
    · intro h'; cases h'
    · intro h'; cases h'
  | error er =>
    rw [hr] at h
    obtain ⟨st, v, rfl⟩ := h
    refine ⟨fun out => ⟨?_, ?_⟩, ⟨?_, ?_⟩, ⟨?_, ?_⟩⟩
    · intro h'; cases h'
    · rintro ⟨st', h', _⟩; simp at h'
    · intro _; exact ⟨st, v, rfl⟩
    · intro _; exact ⟨er, rfl⟩
    · intro h'; cases h'
    · intro h'; cases h'
  | panic =>
    rw [hr] at h
    simp only [MainSim] at h
    subst h
    refine ⟨fun out => ⟨?_, ?_⟩, ⟨?_, ?_⟩, ⟨?_, ?_⟩⟩
    · intro h'; cases h'
    · rintro ⟨st', h', _⟩; cases h'
    · rintro ⟨er, h'⟩; cases h'
    · rintro ⟨st', v, h'⟩; cases h'
    · intro _; rfl
    · intro _; rfl
  | diverge => exact absurd hr hnd

/-- From a valid cursor (`0 ≤ i.addNext`) the model never diverges and never panics (`WalkSafe.marshalBuf_safe`), so the
    equivalences hold outright and `MarshalJSONBuffer` does not panic. -/
theorem go_marshal_source_tie_valid (pj : PJ) (hb : BufOK pj) (i : Iter) (hl : i.lim ≤ pj.tape.size)
    (ha : 0 ≤ i.addNext) (hcur : i.cur.toNat < 2^63) (dst : Bytes) (F : Nat) (hF : fuelOf pj + i.lim + 9 ≤ F) :
    (∀ out, i.marshalBuf pj dst = .ok out ↔
      ∃ st, runFun goFuns goIter_MarshalJSONBuffer F ⟨initEnv pj i dst, pj.tape⟩ = .ret st [.bytes out, .bool false] ∧
        st.tape = pj.tape) ∧
    ((∃ er, i.marshalBuf pj dst = .error er) ↔
      ∃ st v, runFun goFuns goIter_MarshalJSONBuffer F ⟨initEnv pj i dst, pj.tape⟩ = .ret st [v, .bool true]) ∧
    runFun goFuns goIter_MarshalJSONBuffer F ⟨initEnv pj i dst, pj.tape⟩ ≠ .panic := by
  have hs := WalkSafe.marshalBuf_safe pj i dst ⟨hl, ha⟩
  have hnd : i.marshalBuf pj dst ≠ .diverge := by
    rcases hs with ⟨a, h⟩ | ⟨e, h⟩ <;> rw [h] <;> exact fun hh => by cases hh
  have hnp : i.marshalBuf pj dst ≠ .panic := by
    rcases hs with ⟨a, h⟩ | ⟨e, h⟩ <;> rw [h] <;> exact fun hh => by cases hh
  obtain ⟨h1, h2, h3⟩ := go_marshal_source_tie pj hb i hl hcur dst F hF hnd
  exact ⟨h1, h2, fun hp => hnp (h3.mpr hp)⟩

/-! ## the one difference: `int(i.cur)` for `i.cur ≥ 2^63`

`case TagRoot` evaluates `isOpenRoot := int(i.cur) > i.off`.  For `i.cur = 2^63` Go's `int(i.cur)` is `-2^63`, so
`isOpenRoot = false`; the model compares the natural number and gets `true`.  On the tape `[null, true, root|0]` with the
(hand-made: every cursor the library builds has a 56-bit `cur`) iterator `{lim 3, off 0, addNext 1, cur 2^63, t TagRoot}`
the model sets `addNext = 0`, moves onto the `null` and returns `nulltrue`; the translated Go code keeps `addNext = 1`,
moves onto the `true` and returns `true` (`#eval` of `Iter.marshalBuf` and of `runFun goFuns goIter_MarshalJSONBuffer 40`;
the two `example`s below prove the diverging step).  Hence the hypothesis `i.cur.toNat < 2^63` above; it is an invariant. -/

def diffI : Iter := { lim := 3, off := 0, addNext := 1, cur := 9223372036854775808, t := 114 }

/-- the translated statement computes `false` … -/
example : exec1 goFuns 0 (.assign "isOpenRoot" (.bin .gt (.conv .int (.v "i.cur")) (.v "i.off")))
    ⟨envOf "i" diffI, #[]⟩ = .normal ⟨(envOf "i" diffI).set "isOpenRoot" (.bool false), #[]⟩ := by
  simp [envOf, diffI, Env.get, toInt64]

/-- … where the model computes `true` -/
example : isOpen diffI = true := by decide

end SJ.GoMarshal
