import SJ.Proofs.GoElemsLemmas
set_option autoImplicit false
set_option linter.unusedVariables false
set_option linter.unusedSimpArgs false
/-
GoElems — `Object.Parse` (parsed_object.go l.60) and `Elements.MarshalJSONBuffer` (l.419), as printed by the translator
(`Generated/GoSrc.lean`: `goObject_Parse`, `goElements_MarshalJSONBuffer`) and run by `GoSem.exec`, against the hand models
`View.parse` (`Model/Object.lean`) and `View.elemsMarshal` (`Model/Marshal.lean`).  The syntax trees are cut by `rfl`
lemmas (`parse_fn_eq`, `parseHead_eq`, `parseZero_eq`, `parseBody_eq`, `parseTail_eq`, `el_fn_eq`): any edit of the Go
functions changes `Generated/GoSrc.lean` and breaks them.  The callees are not re-proved: `Object.NextElement`
(`GoApi.nextElement_sim`, through `call_ne`), `Iter.MarshalJSONBuffer` (`GoArrMarshal.mj_exec`, through `call_mjI`),
`escapeBytes` (the library form `extCall`, = the model's `escapeBytes` by definition; `GoEscape.escapeBytes_sim` ties that to
the source).

REPRESENTATION (GoElemsLemmas).  `encElems es` = (names, types, iterators × 5: `off, addNext, int(cur), int(t), lim`) —
faithful (`encElems_inj`); `indexOf es` = the association the `.mapSet` sequence `Index[name_i] = i` builds (keys in order of
first insertion, an existing key's value replaced); `assocGet` = `idx, ok := Index[key]`; `assocGet_insert` is the
map-update law; `index_lookup`: the entry of a name is its LAST position, `none` iff no element has the name — the model's
"the Index map is derived: last index per name", and what `Elements.Lookup` dereferences.

`parse_sim` / `parse_tie`.  Every `pj` with `BufOK`, every view `v` with `v.lim ≤ pj.tape.size`, ANY store `e` that binds the
receiver (`viewAt e "o" = some v`), the flag `"dst==nil"` (either value) and the two buffers — the five destination variables
may hold anything or be unbound (history independence: the head of `Parse` overwrites all five in both branches,
`parseHead_eq`, `PInv_head`) — model fuel `mf ≥ v.lim - v.off + 2`, interpreter fuel `F ≥ v.lim - v.off + 5`:
    model `.ok es`    ⇔  returns `[non-nil, nil]`; the five variables are `encElems es` / `indexOf es` (`DstIs`), flag cleared,
                         `o` stands at `parseEnd pj v mf` (the receiver where the model's recursion stops: at the closing
                         word / end of view, or after the first element of `TypeNone`), tape unchanged (buffers: `parse_sim`)
    model `.error _`  ⇔  returns `[non-nil, err]` (`return dst, err`: the pointer is never nil), tape unchanged
    neither side panics; the model does not run out of `mf`; the interpreter is never stuck and never out of `F`.
  Fuel: one turn costs 1 and moves `o.off` forward by ≥ 3 (`WalkSafe.nextElementBytes_safe'`); `NextElement` needs
  `lim - off + 2` more.  The model hands `fuel - 1` to `nextElementBytes` each turn, hence `lim - off + 2`.
`parse_facts`: every stored iterator has `lim ≤ tape.size`, `0 ≤ addNext`, `cur < 2^56` (`neb_cur`).

`elemsMarshal_sim` / `elems_tie`.  Every `es` with `∀ x ∈ es, x.iter.lim ≤ pj.tape.size ∧ x.iter.cur < 2^63`, any `dst`, ANY
store binding `e.Elements.{Name,Type,Iter}` to `encElems es` (`e.Index.*` may hold anything or be unbound: never read),
`dst` and the buffers, `F ≥ elemsFuel pj es = es.size + fuelOf pj + tape.size + 14`:
    model `.ok out`   ⇔  returns `[dst ++ out, nil]`, tape unchanged           (`elemsMarshalBuf_prefix`: only appends)
    model `.error _`  ⇔  returns `[nil, err]`
    model `.panic`    ⇔  panics
    model `.diverge` (the inner fuel `fuelOf pj` of `Iter.marshalBuf` exhausted): nothing claimed
  and in every returning case the five variables `e.*` read as before (the receiver is by value; `elem` is a copy, the call
  `elem.Iter.MarshalJSONBuffer(dst)` writes `elem.Iter.*`, `dst`, `err` and the buffers only: `mjKeys`).
`elemsMarshal_safe`: with `0 ≤ addNext` as well (everything `Parse` produces) the model returns a buffer or an error.

HYPOTHESES, with the reason.
  * `BufOK pj` — inherited from `stringByteAt` (buffer lengths are Go `int`s).
  * `v.lim ≤ pj.tape.size`, `x.iter.lim ≤ pj.tape.size` — views of the tape.  Outside (hand-made values) both sides index
    past the array; replays agree (both panic: view `{lim 6, off 3}` / iterator `{lim 5, off 3}` on a 3-word tape).
  * `x.iter.cur < 2^63` — INHERITED DIFFERENCE of `Iter.MarshalJSONBuffer` (GoMarshal: `isOpenRoot := int(i.cur) > i.off`
    is two's complement in Go, `Nat` in the model).  Replay (`#eval`, both sides): tape `[null, true, root|0]`,
    `es = [{name "a", type 1, iter {lim 3, off 0, addNext 1, cur 2^63, t 'r'}}]` (stored as `int(cur) = -2^63`):
    model `{"a":nulltrue}`, source `{"a":true}`.  Hand-made only: `Parse` stores 56-bit payloads (`parse_facts`).
DIFFERENCES between model and source: none of behaviour on the stated domain.  Of coverage:
  * the hand model `View.elemsMarshal` has no destination parameter (starts from `{`, i.e. `e.MarshalJSON()`);
    `elemsMarshalBuf` writes the parameter out, `elemsMarshalBuf_prefix` connects them — the theorems are stated on the hand
    model itself, with `dst ++ out`;
  * `View.parse` does not return the receiver (`parseEnd` follows its recursion) and, on an error, says nothing about the
    partly filled `*dst` the source returns (nothing is claimed about it).
Replays (`#eval`, both sides agree): `{"a":1,"b":2,"a":3}` (names `a b a`, Index `a ↦ 2, b ↦ 1`), with `dst == nil` and with a
recycled destination full of junk; the same object cut at `lim 11` (both error after two elements) and at `lim 9` (both ok,
two elements); marshal of the parsed elements into `dst = "A"`: `A{"a":1,"b":2,"a":3}`; no elements: `A{}`.
-/
namespace SJ.GoElems
open SJ SJ.GoSem SJ.Generated SJ.GoIter SJ.GoObject
open SJ.GoPJForEach (exec_cons' loop_succ)

/-! ## `Object.Parse`: the pieces of the syntax tree (pinned by `rfl`) -/

def parseHead : Stmt := goObject_Parse.body.headD .brk
def parseZero : List Stmt := (goObject_Parse.body.drop 1).take 5
def parseBody : List Stmt := firstLoop goObject_Parse.body
def parseTail : List Stmt := afterLoop goObject_Parse.body

theorem parse_fn_eq : goObject_Parse.body = (parseHead :: parseZero) ++ .loop parseBody :: parseTail := rfl

def clearDst : List Stmt := [
  .assign "dst.Elements.Name" .nilK, .assign "dst.Elements.Type" .nilB, .assign "dst.Elements.Iter" .nilI,
  .assign "dst.Index.k" .nilK, .assign "dst.Index.v" .nilI]

/-- the nil test at the head: both branches leave the five variables empty; the nil branch clears the flag -/
theorem parseHead_eq : parseHead = .ite (.v "dst==nil") (.assign "dst==nil" (.bool false) :: clearDst) clearDst := rfl

theorem parseZero_eq : parseZero = [.assign "tmp.off" (.int 0), .assign "tmp.addNext" (.int 0), .assign "tmp.cur" (.u64 0),
    .assign "tmp.t" (.u8 0), .assign "tmp.lim" (.int 0)] := rfl

def sErrP : Stmt := .ite (.bin .ne (.v "err") (.bool false)) [.ret [(.not (.v "dst==nil")), (.v "err")]] []
def sNoneP : Stmt := .ite (.bin .eq (.v "t") (.u8 0)) [.brk] []
def sMap : Stmt := .mapSet "dst.Index" (.v "name") (.lenK (.v "dst.Elements.Name"))
def sPush : List Stmt := [
  .assign "dst.Elements.Name" (.pushK (.v "dst.Elements.Name") (.v "name")),
  .assign "dst.Elements.Type" (.pushB (.v "dst.Elements.Type") (.v "t")),
  .assign "dst.Elements.Iter" (.pushI (.pushI (.pushI (.pushI (.pushI (.v "dst.Elements.Iter") (.v "tmp.off"))
    (.v "tmp.addNext")) (.conv .int (.v "tmp.cur"))) (.conv .int (.v "tmp.t"))) (.v "tmp.lim"))]

theorem parseBody_eq : parseBody = sNE :: sErrP :: sNoneP :: sMap :: sPush := rfl
theorem parseTail_eq : parseTail = [.ret [(.not (.v "dst==nil")), (.bool false)]] := rfl

/-! ## the store of `Parse` -/

def zeroIter : Iter := { lim := 0, off := 0, addNext := 0, cur := 0, t := 0 }

/-- what one turn of the loop needs of the store: receiver, `tmp`, buffers, the flag (cleared), the destination
    holding `acc` -/
structure PInv (pj : PJ) (e : Env) (v : View) (d : Iter) (acc : Array View.Elem) : Prop where
  view : viewAt e "o" = some v
  tmp : iterAt e "tmp" = some d
  strs : e.get "Strings.B" = some (.bytes pj.strings)
  msg : e.get "Message" = some (.bytes pj.msg)
  flag : e.get "dst==nil" = some (.bool false)
  names : e.get "dst.Elements.Name" = some (.keys (encElems acc).1)
  types : e.get "dst.Elements.Type" = some (.bytes (encElems acc).2.1)
  iters : e.get "dst.Elements.Iter" = some (.ints (encElems acc).2.2)
  idxk : e.get "dst.Index.k" = some (.keys (indexOf acc).1)
  idxv : e.get "dst.Index.v" = some (.ints (indexOf acc).2)

/-- the store after the head of `Parse` -/
def headEnv (e : Env) (b : Bool) : Env :=
  setIter (((((((if b then e.set "dst==nil" (.bool false) else e).set "dst.Elements.Name" (.keys [])).set
    "dst.Elements.Type" (.bytes #[])).set "dst.Elements.Iter" (.ints [])).set "dst.Index.k" (.keys [])).set
    "dst.Index.v" (.ints []))) "tmp" zeroIter

theorem parse_head (e : Env) (tape : Array UInt64) (F : Nat) (b : Bool) (hN : e.get "dst==nil" = some (.bool b)) :
    exec goFuns F (parseHead :: parseZero) ⟨e, tape⟩ = .normal ⟨headEnv e b, tape⟩ := by
  cases b <;>
    simp [parseHead_eq, parseZero_eq, clearDst, exec, exec1, evalE, hN, headEnv, setIter, zeroIter]

/-- history independence: whatever the five destination variables held (or whether they were bound at all) -/
theorem PInv_head (pj : PJ) (e : Env) (v : View) (b : Bool) (hv : viewAt e "o" = some v)
    (hN : e.get "dst==nil" = some (.bool b)) (hS : e.get "Strings.B" = some (.bytes pj.strings))
    (hM : e.get "Message" = some (.bytes pj.msg)) : PInv pj (headEnv e b) v zeroIter #[] := by
  obtain ⟨v1, v2⟩ := viewAt_get_o _ _ hv
  constructor
  · apply viewAt_of_gets <;> cases b <;> simp [headEnv, setIter, Env.get_set, v1, v2]
  · apply iterAt_of_gets <;> simp [headEnv, setIter, Env.get_set]
  all_goals cases b <;> simp [headEnv, setIter, Env.get_set, hS, hM, hN, encElems_empty, indexOf_empty]

theorem PInv.afterNE {pj : PJ} {e : Env} {v : View} {d : Iter} {acc : Array View.Elem} (h : PInv pj e v d acc)
    (v' : View) (d' : Iter) (a b c : Val) : PInv pj (afterNE e pj v' d' a b c) v' d' acc := by
  constructor
  · apply viewAt_of_gets <;> simp [GoElems.afterNE, setIter, Env.get_set]
  · apply iterAt_of_gets <;> simp [GoElems.afterNE, setIter, Env.get_set]
  · simp [GoElems.afterNE, setIter, Env.get_set]
  · simp [GoElems.afterNE, setIter, Env.get_set]
  · simp [GoElems.afterNE, setIter, Env.get_set, h.flag]
  · simp [GoElems.afterNE, setIter, Env.get_set, h.names]
  · simp [GoElems.afterNE, setIter, Env.get_set, h.types]
  · simp [GoElems.afterNE, setIter, Env.get_set, h.iters]
  · simp [GoElems.afterNE, setIter, Env.get_set, h.idxk]
  · simp [GoElems.afterNE, setIter, Env.get_set, h.idxv]

theorem afterNE_gets (e : Env) (pj : PJ) (v' : View) (d' : Iter) (a b c : Val) :
    (afterNE e pj v' d' a b c).get "name" = some a ∧ (afterNE e pj v' d' a b c).get "t" = some b ∧
    (afterNE e pj v' d' a b c).get "err" = some c := by
  simp [afterNE, Env.get_set]

/-! ## the rest of one turn, after the call -/

theorem sMap_run (e : Env) (tape : Array UInt64) (F : Nat) (ks ns : List Bytes) (vs : List Int) (nm : Bytes)
    (hk : e.get "dst.Index.k" = some (.keys ks)) (hv : e.get "dst.Index.v" = some (.ints vs))
    (hn : e.get "name" = some (.bytes nm)) (hns : e.get "dst.Elements.Name" = some (.keys ns)) :
    ∃ e', exec1 goFuns F sMap ⟨e, tape⟩ = .normal ⟨e', tape⟩ ∧
      e'.get "dst.Index.k" = some (.keys (idxInsert (ks, vs) nm (ns.length : Int)).1) ∧
      e'.get "dst.Index.v" = some (.ints (idxInsert (ks, vs) nm (ns.length : Int)).2) ∧
      ∀ k, k ≠ "dst.Index.k" → k ≠ "dst.Index.v" → e'.get k = e.get k := by
  cases hf : ks.findIdx? (· == nm) with
  | some j =>
    refine ⟨e.set "dst.Index.v" (.ints (vs.set j (ns.length : Int))), ?_, ?_, ?_, ?_⟩
    · simp [sMap, exec1, evalE, hk, hv, hn, hns, hf]
    · simp [idxInsert, hf, Env.get_set, hk]
    · simp [idxInsert, hf, Env.get_set]
    · intro k h1 h2; exact Env.get_set_ne _ _ (Ne.symm h2)
  | none =>
    refine ⟨(e.set "dst.Index.k" (.keys (ks ++ [nm]))).set "dst.Index.v" (.ints (vs ++ [(ns.length : Int)])), ?_, ?_, ?_, ?_⟩
    · simp [sMap, exec1, evalE, hk, hv, hn, hns, hf]
    · simp [idxInsert, hf, Env.get_set]
    · simp [idxInsert, hf, Env.get_set]
    · intro k h1 h2; rw [Env.get_set_ne _ _ (Ne.symm h2), Env.get_set_ne _ _ (Ne.symm h1)]

theorem parse_rest (pj : PJ) (e : Env) (v : View) (d : Iter) (acc : Array View.Elem) (F : Nat) (nm : Bytes) (ty : UInt8)
    (hP : PInv pj e v d acc) (hn : e.get "name" = some (.bytes nm)) (ht : e.get "t" = some (.u8 ty))
    (he : e.get "err" = some (.bool false)) :
    (ty = 0 → exec goFuns F (sErrP :: sNoneP :: sMap :: sPush) ⟨e, pj.tape⟩ = .brk ⟨e, pj.tape⟩) ∧
    (ty ≠ 0 → ∃ e2, exec goFuns F (sErrP :: sNoneP :: sMap :: sPush) ⟨e, pj.tape⟩ = .normal ⟨e2, pj.tape⟩ ∧
      PInv pj e2 v d (acc.push { name := nm, type := ty, iter := d })) := by
  have h1 : exec1 goFuns F sErrP ⟨e, pj.tape⟩ = .normal ⟨e, pj.tape⟩ := by
    simp [sErrP, exec, exec1, evalE, binop, he]
  constructor
  · intro h0
    rw [exec_cons', h1]
    simp only []
    rw [exec_cons']
    simp [sNoneP, exec, exec1, evalE, binop, ht, h0]
  · intro h0
    have hb : (ty == 0) = false := by simp [h0]
    have h2 : exec1 goFuns F sNoneP ⟨e, pj.tape⟩ = .normal ⟨e, pj.tape⟩ := by
      simp [sNoneP, exec, exec1, evalE, binop, ht, hb]
    obtain ⟨e', h3, hk', hv', hfr⟩ := sMap_run e pj.tape F _ _ _ nm hP.idxk hP.idxv hn hP.names
    obtain ⟨d1, d2, d3, d4, d5⟩ := iterAt_get _ _ _ hP.tmp
    simp only [String.reduceAppend] at d1 d2 d3 d4 d5
    have g : ∀ k, k ≠ "dst.Index.k" → k ≠ "dst.Index.v" → e'.get k = e.get k := hfr
    refine ⟨((e'.set "dst.Elements.Name" (.keys ((encElems acc).1 ++ [nm]))).set "dst.Elements.Type"
      (.bytes ((encElems acc).2.1.push ty))).set "dst.Elements.Iter" (.ints ((encElems acc).2.2 ++ iterInts d)), ?_, ?_⟩
    · rw [exec_cons', h1]
      simp only []
      rw [exec_cons', h2]
      simp only []
      rw [exec_cons', h3]
      simp [sPush, exec, exec1, evalE, convert, Env.get_set, g, hn, ht, d1, d2, d3, d4, d5, hP.names, hP.types, hP.iters,
        iterInts]
    · obtain ⟨v1, v2⟩ := viewAt_get_o _ _ hP.view
      constructor
      · apply viewAt_of_gets <;> simp [Env.get_set, g, v1, v2]
      · apply iterAt_of_gets <;> simp [Env.get_set, g, d1, d2, d3, d4, d5]
      · simp [Env.get_set, g, hP.strs]
      · simp [Env.get_set, g, hP.msg]
      · simp [Env.get_set, g, hP.flag]
      · simp [Env.get_set, encElems_push]
      · simp [Env.get_set, encElems_push]
      · simp [Env.get_set, encElems_push]
      · rw [indexOf_push, ← encElems_len acc]
        simp [Env.get_set, hk']
      · rw [indexOf_push, ← encElems_len acc]
        simp [Env.get_set, hv']

/-! ## the loop -/

/-- the receiver when `View.parse` returns: the hand model does not return it; this follows its recursion -/
def parseEnd (pj : PJ) (o : View) : (fuel : Nat) → View
  | 0 => o
  | fuel + 1 =>
    match o.nextElementBytes pj fuel with
    | .ok (o', none) => o'
    | .ok (o', some (_, _, ty)) => if ty == typeNone then o' else parseEnd pj o' fuel
    | _ => o

/-- the loop of `Parse` against `View.parse` -/
def PLoopSim (pj : PJ) (o : Out) (vEnd : View) : Res (Array View.Elem) → Prop
  | .ok es => ∃ e' d', o = .normal ⟨e', pj.tape⟩ ∧ PInv pj e' vEnd d' es
  | .error _ => ∃ e', o = .ret ⟨e', pj.tape⟩ [.bool true, .bool true]
  | .panic => o = .panic
  | .diverge => False

theorem typeNone_eq : typeNone = 0 := rfl

theorem parse_loop (pj : PJ) (hb : BufOK pj) : ∀ (n : Nat) (e : Env) (v : View) (d : Iter) (acc : Array View.Elem) (F : Nat),
    PInv pj e v d acc → v.lim ≤ pj.tape.size → v.lim - v.off + 2 ≤ n → v.lim - v.off + 5 ≤ F →
    PLoopSim pj (exec1 goFuns F (.loop parseBody) ⟨e, pj.tape⟩) (parseEnd pj v n) (View.parse pj v acc n) := by
  intro n
  induction n with
  | zero => intro e v d acc F _ _ h; omega
  | succ n ih =>
    intro e v d acc F hP hl hn hF
    obtain ⟨F', rfl⟩ : ∃ F', F = F' + 1 := ⟨F - 1, by omega⟩
    have hcall := call_ne pj hb e v d F' n hl hP.view hP.tmp hP.strs hP.msg (by omega) (by omega)
    obtain ⟨_, hsome, _⟩ := WalkSafe.nextElementBytes_safe' pj v n hl (by omega)
    rw [loop_succ, parseBody_eq, exec_cons', View.parse, parseEnd]
    cases hr : View.nextElementBytes pj v n with
    | ok p =>
      obtain ⟨v', x⟩ := p
      rw [hr] at hcall
      cases x with
      | none =>
        simp only [NEPost] at hcall
        rw [hcall]
        simp only [Res.bind_ok]
        have hP1 := hP.afterNE v' d (.bytes #[]) (.u8 typeNone) (.bool false)
        obtain ⟨g1, g2, g3⟩ := afterNE_gets e pj v' d (.bytes #[]) (.u8 typeNone) (.bool false)
        rw [(parse_rest pj _ v' d acc F' #[] typeNone hP1 g1 g2 g3).1 typeNone_eq]
        exact ⟨_, d, rfl, hP1⟩
      | some y =>
        obtain ⟨nm, d', ty⟩ := y
        simp only [NEPost] at hcall
        rw [hcall]
        simp only [Res.bind_ok]
        have hP1 := hP.afterNE v' d' (.bytes nm) (.u8 ty) (.bool false)
        obtain ⟨g1, g2, g3⟩ := afterNE_gets e pj v' d' (.bytes nm) (.u8 ty) (.bool false)
        have hrest := parse_rest pj _ v' d' acc F' nm ty hP1 g1 g2 g3
        by_cases h0 : ty = 0
        · have hbt : (ty == typeNone) = true := by simp [typeNone_eq, h0]
          rw [hrest.1 h0]
          simp only [hbt, if_true]
          exact ⟨_, d', rfl, hP1⟩
        · have hbt : (ty == typeNone) = false := by simp [typeNone_eq, h0]
          obtain ⟨e2, hx, hP2⟩ := hrest.2 h0
          rw [hx]
          simp only [hbt, Bool.false_eq_true, if_false]
          obtain ⟨p1, p2, p3, _⟩ := hsome v' (nm, d', ty) hr
          exact ih e2 v' d' _ F' hP2 (by omega) (by omega) (by omega)
    | error er =>
      rw [hr] at hcall
      obtain ⟨v', d', hcall⟩ := hcall
      rw [hcall]
      have hP1 := hP.afterNE v' d' (.bytes #[]) (.u8 typeNone) (.bool true)
      obtain ⟨g1, g2, g3⟩ := afterNE_gets e pj v' d' (.bytes #[]) (.u8 typeNone) (.bool true)
      simp only [Res.bind_error]
      rw [exec_cons']
      simp [sErrP, exec, exec1, evalE, evalEs, binop, g3, hP1.flag, PLoopSim]
    | panic =>
      rw [hr] at hcall
      simp only [NEPost] at hcall
      rw [hcall]
      rfl
    | diverge => rw [hr] at hcall; exact hcall.elim

/-! ## the function -/

/-- `Object.Parse` against `View.parse`; `vEnd` = the receiver afterwards, `b` irrelevant -/
def SimParse (pj : PJ) (o : Out) (vEnd : View) : Res (Array View.Elem) → Prop
  | .ok es => ∃ s, o = .ret s [.bool true, .bool false] ∧ s.tape = pj.tape ∧ viewAt s.env "o" = some vEnd ∧
      s.env.get "dst==nil" = some (.bool false) ∧
      s.env.get "dst.Elements.Name" = some (.keys (encElems es).1) ∧
      s.env.get "dst.Elements.Type" = some (.bytes (encElems es).2.1) ∧
      s.env.get "dst.Elements.Iter" = some (.ints (encElems es).2.2) ∧
      s.env.get "dst.Index.k" = some (.keys (indexOf es).1) ∧
      s.env.get "dst.Index.v" = some (.ints (indexOf es).2) ∧
      s.env.get "Strings.B" = some (.bytes pj.strings) ∧ s.env.get "Message" = some (.bytes pj.msg)
  | .error _ => ∃ s, o = .ret s [.bool true, .bool true] ∧ s.tape = pj.tape
  | .panic => o = .panic
  | .diverge => False

theorem parse_sim (pj : PJ) (hb : BufOK pj) (v : View) (hl : v.lim ≤ pj.tape.size) (b : Bool) (e : Env)
    (hv : viewAt e "o" = some v) (hN : e.get "dst==nil" = some (.bool b))
    (hS : e.get "Strings.B" = some (.bytes pj.strings)) (hM : e.get "Message" = some (.bytes pj.msg))
    (mf F : Nat) (hm : v.lim - v.off + 2 ≤ mf) (hF : v.lim - v.off + 5 ≤ F) :
    SimParse pj (runFun goFuns goObject_Parse F ⟨e, pj.tape⟩) (parseEnd pj v mf) (View.parse pj v #[] mf) := by
  have hloop := parse_loop pj hb mf (headEnv e b) v zeroIter #[] F (PInv_head pj e v b hv hN hS hM) hl hm hF
  rw [runFun, parse_fn_eq, GoIter.exec_append, parse_head e pj.tape F b hN]
  simp only []
  rw [exec_cons']
  generalize exec1 goFuns F (.loop parseBody) ⟨headEnv e b, pj.tape⟩ = o at hloop ⊢
  cases hr : View.parse pj v #[] mf with
  | ok es =>
    rw [hr] at hloop
    obtain ⟨e', d', rfl, hP⟩ := hloop
    simp only [parseTail_eq]
    refine ⟨⟨e', pj.tape⟩, ?_, rfl, hP.view, hP.flag, hP.names, hP.types, hP.iters, hP.idxk, hP.idxv, hP.strs, hP.msg⟩
    simp [exec, exec1, evalE, evalEs, hP.flag]
  | error er =>
    rw [hr] at hloop
    obtain ⟨e', rfl⟩ := hloop
    exact ⟨_, rfl, rfl⟩
  | panic =>
    rw [hr] at hloop
    simp only [PLoopSim] at hloop
    subst hloop
    rfl
  | diverge => rw [hr] at hloop; exact hloop.elim

/-! ## `Elements.MarshalJSONBuffer`: the model, one turn at a time, with the destination as a parameter -/

/-- one turn of the `for` loop of `Elements.MarshalJSONBuffer` -/
def elemTurn (pj : PJ) (es : Array View.Elem) (k : Nat) (dst : Bytes) : Res Bytes := do
  let d ← Iter.marshalBuf pj es[k]!.iter ((Iter.quoted dst es[k]!.name).push 58)
  .ok (if k + 1 < es.size then d.push 44 else d)

def elemsLoop (pj : PJ) (es : Array View.Elem) : List Nat → Bytes → Res Bytes
  | [], d => .ok d
  | k :: ks, d => elemTurn pj es k d >>= elemsLoop pj es ks

/-- `View.elemsMarshal` with the destination buffer as a parameter, as in the Go function (`dst = append(dst, '{')`).
    The hand model is the instance `dst = #[]` (`elemsMarshal_buf`). -/
def elemsMarshalBuf (pj : PJ) (es : Array View.Elem) (dst : Bytes) : Res Bytes := do
  let d ← elemsLoop pj es (List.range' 0 es.size) (dst.push 123)
  .ok (d.push 125)

theorem forIn_elemStep (pj : PJ) (es : Array View.Elem) : ∀ (l : List Nat) (d : Bytes),
    forIn l d (MarshalExact.elemStep pj es) = elemsLoop pj es l d
  | [], d => rfl
  | k :: ks, d => by
    rw [List.forIn_cons, elemsLoop, MarshalExact.elemStep, elemTurn]
    cases Iter.marshalBuf pj es[k]!.iter ((Iter.quoted d es[k]!.name).push 58) with
    | ok d' =>
      simp only [Res.bind_ok]
      split
      · exact forIn_elemStep pj es ks _
      · exact forIn_elemStep pj es ks _
    | error e => rfl
    | panic => rfl
    | diverge => rfl

theorem elemsMarshal_buf (pj : PJ) (es : Array View.Elem) : View.elemsMarshal pj es = elemsMarshalBuf pj es #[] := by
  rw [MarshalExact.elemsMarshal_eq, forIn_elemStep]
  rfl

theorem elemTurn_prefix (pj : PJ) (es : Array View.Elem) (k : Nat) (p d : Bytes) :
    elemTurn pj es k (p ++ d) = (elemTurn pj es k d >>= fun o => .ok (p ++ o)) := by
  unfold elemTurn
  rw [GoArrMarshal.quoted_prefix, ← Array.append_push, GoArrMarshal.marshalBuf_prefix]
  cases Iter.marshalBuf pj es[k]!.iter ((Iter.quoted d es[k]!.name).push 58) with
  | ok o =>
    simp only [Res.bind_ok]
    split <;> simp only [Array.append_push]
  | error e => rfl
  | panic => rfl
  | diverge => rfl

theorem elemsLoop_prefix (pj : PJ) (es : Array View.Elem) (p : Bytes) : ∀ (l : List Nat) (d : Bytes),
    elemsLoop pj es l (p ++ d) = (elemsLoop pj es l d >>= fun o => .ok (p ++ o))
  | [], d => rfl
  | k :: ks, d => by
    rw [elemsLoop, elemsLoop, elemTurn_prefix]
    cases elemTurn pj es k d with
    | ok o => simp only [Res.bind_ok]; exact elemsLoop_prefix pj es p ks o
    | error e => rfl
    | panic => rfl
    | diverge => rfl

/-- the model with a destination is the hand model with `dst` in front: `View.elemsMarshal` only lacks the parameter -/
theorem elemsMarshalBuf_prefix (pj : PJ) (es : Array View.Elem) (dst : Bytes) :
    elemsMarshalBuf pj es dst = (View.elemsMarshal pj es >>= fun o => .ok (dst ++ o)) := by
  rw [elemsMarshal_buf]
  unfold elemsMarshalBuf
  have h0 : dst.push 123 = dst ++ ((#[] : Bytes).push 123) := by simp
  rw [h0, elemsLoop_prefix]
  cases elemsLoop pj es (List.range' 0 es.size) ((#[] : Bytes).push 123) with
  | ok o => simp only [Res.bind_ok, Array.append_push]
  | error e => rfl
  | panic => rfl
  | diverge => rfl

/-! ## the pieces of the syntax tree (pinned by `rfl`) -/

def idxE (j : Int) : Expr := .idxI (.v "e.Elements.Iter") (.bin .add (.bin .mul (.v "i") (.int 5)) (.int j))

def elRead : List Stmt := [
  .assign "elem.Name" (.idxK (.v "e.Elements.Name") (.v "i")),
  .assign "elem.Type" (.idxB (.v "e.Elements.Type") (.v "i")),
  .assign "elem.Iter.off" (idxE 0),
  .assign "elem.Iter.addNext" (idxE 1),
  .assign "elem.Iter.cur" (.conv .u64 (idxE 2)),
  .assign "elem.Iter.t" (.conv .u8 (idxE 3)),
  .assign "elem.Iter.lim" (idxE 4)]

def elWrite : List Stmt := [
  .assign "dst" (.pushB (.v "dst") (.u8 34)),
  .extAssign ["dst"] "escapeBytes" [(.v "dst"), (.v "elem.Name")],
  .assign "dst" (.pushB (.pushB (.v "dst") (.u8 34)) (.u8 58)),
  .assign "err" (.bool false)]

def sErrE : Stmt := .ite (.bin .ne (.v "err") (.bool false)) [.ret [.nilB, (.v "err")]] []
def sCommaE : Stmt := .ite (.bin .lt (.v "i") (.bin .sub (.lenK (.v "e.Elements.Name")) (.int 1)))
  [.assign "dst" (.pushB (.v "dst") (.u8 44))] []

def elCond : Expr := .bin .lt (.v "i") (.lenK (.v "e.Elements.Name"))
def elPost : List Stmt := [.assign "i" (.bin .add (.v "i") (.int 1))]
def elBody : List Stmt := elRead ++ elWrite ++ [sMJI, sErrE, sCommaE]

theorem el_fn_eq : goElements_MarshalJSONBuffer.body = [
    .assign "dst" (.pushB (.v "dst") (.u8 123)),
    .forc [.assign "i" (.int 0)] elCond elPost elBody,
    .assign "dst" (.pushB (.v "dst") (.u8 125)),
    .ret [(.v "dst"), (.bool false)]] := rfl

/-! ## the store of `MarshalJSONBuffer` -/

/-- the receiver (by value): the five variables of `e` -/
def eVars : List String := ["e.Elements.Name", "e.Elements.Type", "e.Elements.Iter", "e.Index.k", "e.Index.v"]

structure EInv (pj : PJ) (e0 e : Env) (es : Array View.Elem) (k : Nat) (dst : Bytes) : Prop where
  names : e.get "e.Elements.Name" = some (.keys (encElems es).1)
  types : e.get "e.Elements.Type" = some (.bytes (encElems es).2.1)
  iters : e.get "e.Elements.Iter" = some (.ints (encElems es).2.2)
  idx : e.get "i" = some (.int k)
  dst : e.get "dst" = some (.bytes dst)
  strs : e.get "Strings.B" = some (.bytes pj.strings)
  msg : e.get "Message" = some (.bytes pj.msg)
  keep : ∀ key ∈ eVars, e.get key = e0.get key

/-- what reading the k-th element needs -/
structure RInv (e : Env) (es : Array View.Elem) (k : Nat) : Prop where
  names : e.get "e.Elements.Name" = some (.keys (encElems es).1)
  types : e.get "e.Elements.Type" = some (.bytes (encElems es).2.1)
  iters : e.get "e.Elements.Iter" = some (.ints (encElems es).2.2)
  idx : e.get "i" = some (.int k)

theorem RInv.set {e : Env} {es : Array View.Elem} {k : Nat} (h : RInv e es k) (key : String) (x : Val)
    (hk : key ∉ ["e.Elements.Name", "e.Elements.Type", "e.Elements.Iter", "i"]) : RInv (e.set key x) es k := by
  simp only [List.mem_cons, List.not_mem_nil, or_false, not_or] at hk
  obtain ⟨k1, k2, k3, k4⟩ := hk
  exact ⟨by rw [Env.get_set_ne _ _ k1]; exact h.names, by rw [Env.get_set_ne _ _ k2]; exact h.types,
    by rw [Env.get_set_ne _ _ k3]; exact h.iters, by rw [Env.get_set_ne _ _ k4]; exact h.idx⟩

theorem enc_name (es : Array View.Elem) (k : Nat) (hk : k < es.size) : (encElems es).1.getD k #[] = es[k].name := by
  simp [encElems, List.getD_eq_getElem?_getD, hk]

theorem enc_type (es : Array View.Elem) (k : Nat) (hk : k < es.size) : (encElems es).2.1.getD k 0 = es[k].type := by
  simp [encElems, Array.getD_eq_getD_getElem?, hk]

theorem enc_type_size (es : Array View.Elem) : (encElems es).2.1.size = es.size := by simp [encElems]

theorem enc_iter_len (es : Array View.Elem) : (encElems es).2.2.length = 5 * es.size := by
  show (es.toList.flatMap (fun e => iterInts e.iter)).length = _
  rw [flat_len]; simp

theorem enc_iter (es : Array View.Elem) (k j : Nat) (hk : k < es.size) (hj : j < 5) :
    (encElems es).2.2.getD (k * 5 + j) 0 = (iterInts es[k].iter).getD j 0 := by
  have := flat_get es.toList k j (by simpa using hk) hj
  simpa [encElems] using this

theorem exec_assign_val (F : Nat) (n : String) (ex : Expr) (rest : List Stmt) (e : Env) (tape : Array UInt64) (x : Val)
    (h : evalE ⟨e, tape⟩ ex = .val x) :
    exec goFuns F (.assign n ex :: rest) ⟨e, tape⟩ = exec goFuns F rest ⟨e.set n x, tape⟩ := by
  rw [exec_cons', exec1, h]

theorem eval_idxE (e : Env) (tape : Array UInt64) (es : Array View.Elem) (k j : Nat) (h : RInv e es k) (hk : k < es.size)
    (hj : j < 5) : evalE ⟨e, tape⟩ (idxE (j : Int)) = .val (.int ((iterInts es[k].iter).getD j 0)) := by
  have hlen := enc_iter_len es
  have hc : (0 : Int) ≤ (k : Int) * 5 + (j : Int) ∧ (k : Int) * 5 + (j : Int) < ((encElems es).2.2.length : Int) := by omega
  have ht : ((k : Int) * 5 + (j : Int)).toNat = k * 5 + j := by omega
  simp only [idxE, evalE, h.iters, h.idx, binop, hc, and_self, if_true, ht]
  rw [enc_iter es k j hk hj]

theorem eval_cur (e : Env) (tape : Array UInt64) (es : Array View.Elem) (k : Nat) (h : RInv e es k) (hk : k < es.size) :
    evalE ⟨e, tape⟩ (.conv .u64 (idxE 2)) = .val (.u64 es[k].iter.cur) := by
  rw [evalE, show (2 : Int) = ((2 : Nat) : Int) from rfl, eval_idxE e tape es k 2 h hk (by omega)]
  simp [convert, iterInts, ofInt_toInt64]

theorem eval_t (e : Env) (tape : Array UInt64) (es : Array View.Elem) (k : Nat) (h : RInv e es k) (hk : k < es.size) :
    evalE ⟨e, tape⟩ (.conv .u8 (idxE 3)) = .val (.u8 es[k].iter.t) := by
  rw [evalE, show (3 : Int) = ((3 : Nat) : Int) from rfl, eval_idxE e tape es k 3 h hk (by omega)]
  simp [convert, iterInts, u8_ofInt_toNat]

/-- reading the k-th element into `elem` (a copy) -/
theorem el_read (e : Env) (tape : Array UInt64) (F : Nat) (es : Array View.Elem) (k : Nat) (rest : List Stmt)
    (h : RInv e es k) (hk : k < es.size) :
    exec goFuns F (elRead ++ rest) ⟨e, tape⟩ = exec goFuns F rest
      ⟨setIter ((e.set "elem.Name" (.bytes es[k].name)).set "elem.Type" (.u8 es[k].type)) "elem.Iter" es[k].iter, tape⟩ := by
  have e1 : evalE ⟨e, tape⟩ (.idxK (.v "e.Elements.Name") (.v "i")) = .val (.bytes es[k].name) := by
    have hc : (0 : Int) ≤ (k : Int) ∧ (k : Int) < ((encElems es).1.length : Int) := by
      rw [encElems_len]; omega
    simp only [evalE, h.names, h.idx, hc, and_self, if_true, Int.toNat_natCast, enc_name es k hk]
  have h1 := h.set "elem.Name" (.bytes es[k].name) (by decide)
  have e2 : evalE ⟨e.set "elem.Name" (.bytes es[k].name), tape⟩ (.idxB (.v "e.Elements.Type") (.v "i")) =
      .val (.u8 es[k].type) := by
    have hc : (0 : Int) ≤ (k : Int) ∧ (k : Int) < ((encElems es).2.1.size : Int) := by
      rw [enc_type_size]; omega
    simp only [evalE, h1.types, h1.idx, hc, and_self, if_true, Int.toNat_natCast, enc_type es k hk]
  have h2 := h1.set "elem.Type" (.u8 es[k].type) (by decide)
  have e3 := eval_idxE _ tape es k 0 h2 hk (by omega)
  have h3 := h2.set "elem.Iter.off" (.int ((iterInts es[k].iter).getD 0 0)) (by decide)
  have e4 := eval_idxE _ tape es k 1 h3 hk (by omega)
  have h4 := h3.set "elem.Iter.addNext" (.int ((iterInts es[k].iter).getD 1 0)) (by decide)
  have e5 := eval_cur _ tape es k h4 hk
  have h5 := h4.set "elem.Iter.cur" (.u64 es[k].iter.cur) (by decide)
  have e6 := eval_t _ tape es k h5 hk
  have h6 := h5.set "elem.Iter.t" (.u8 es[k].iter.t) (by decide)
  have e7 := eval_idxE _ tape es k 4 h6 hk (by omega)
  simp only [elRead, List.cons_append, List.nil_append]
  refine (exec_assign_val _ _ _ _ _ _ _ e1).trans ?_
  refine (exec_assign_val _ _ _ _ _ _ _ e2).trans ?_
  refine (exec_assign_val _ _ _ _ _ _ _ e3).trans ?_
  refine (exec_assign_val _ _ _ _ _ _ _ e4).trans ?_
  refine (exec_assign_val _ _ _ _ _ _ _ e5).trans ?_
  refine (exec_assign_val _ _ _ _ _ _ _ e6).trans ?_
  refine (exec_assign_val _ _ _ _ _ _ _ e7).trans ?_
  rfl

/-- the store after the k-th element was read into `elem` -/
def readEnv (e : Env) (el : View.Elem) : Env :=
  setIter ((e.set "elem.Name" (.bytes el.name)).set "elem.Type" (.u8 el.type)) "elem.Iter" el.iter

/-- … and after `"name":` was appended -/
def writeEnv (e : Env) (d nm : Bytes) : Env :=
  (((e.set "dst" (.bytes (d.push 34))).set "dst" (.bytes (escapeBytes (d.push 34) nm))).set "dst"
    (.bytes ((Iter.quoted d nm).push 58))).set "err" (.bool false)

theorem el_write (e : Env) (tape : Array UInt64) (F : Nat) (rest : List Stmt) (d nm : Bytes)
    (hD : e.get "dst" = some (.bytes d)) (hN : e.get "elem.Name" = some (.bytes nm)) :
    exec goFuns F (elWrite ++ rest) ⟨e, tape⟩ = exec goFuns F rest ⟨writeEnv e d nm, tape⟩ := by
  simp only [elWrite, List.cons_append, List.nil_append]
  rw [exec_cons']
  have h1 : exec1 goFuns F (.assign "dst" (.pushB (.v "dst") (.u8 34))) ⟨e, tape⟩ =
      .normal ⟨e.set "dst" (.bytes (d.push 34)), tape⟩ := by simp [exec1, evalE, hD]
  rw [h1]
  simp only []
  rw [exec_cons']
  have h2 : exec1 goFuns F (.extAssign ["dst"] "escapeBytes" [(.v "dst"), (.v "elem.Name")])
      ⟨e.set "dst" (.bytes (d.push 34)), tape⟩ =
      .normal ⟨(e.set "dst" (.bytes (d.push 34))).set "dst" (.bytes (escapeBytes (d.push 34) nm)), tape⟩ := by
    simp [exec1, evalE, evalEs, extCall, assignTargets, Env.get_set, hN]
  rw [h2]
  simp only []
  rw [exec_cons']
  have h3 : exec1 goFuns F (.assign "dst" (.pushB (.pushB (.v "dst") (.u8 34)) (.u8 58)))
      ⟨(e.set "dst" (.bytes (d.push 34))).set "dst" (.bytes (escapeBytes (d.push 34) nm)), tape⟩ =
      .normal ⟨((e.set "dst" (.bytes (d.push 34))).set "dst" (.bytes (escapeBytes (d.push 34) nm))).set "dst"
        (.bytes ((Iter.quoted d nm).push 58)), tape⟩ := by
    simp [exec1, evalE, Env.get_set, Iter.quoted]
  rw [h3]
  simp only []
  rw [exec_cons']
  simp [exec1, evalE, writeEnv]

/-- one run of the loop body against one turn of the model -/
def EStepSim (pj : PJ) (e0 : Env) (es : Array View.Elem) (k : Nat) (o : Out) : Res Bytes → Prop
  | .ok d' => ∃ e', o = .normal ⟨e', pj.tape⟩ ∧ EInv pj e0 e' es k d'
  | .error _ => ∃ st, o = .ret st [.bytes #[], .bool true] ∧ ∀ key ∈ eVars, st.env.get key = e0.get key
  | .panic => o = .panic
  | .diverge => True

theorem el_turn (pj : PJ) (hb : BufOK pj) (e0 e : Env) (es : Array View.Elem) (k : Nat) (dst : Bytes) (f : Nat)
    (hE : EInv pj e0 e es k dst) (hk : k < es.size) (hl : es[k].iter.lim ≤ pj.tape.size)
    (hc : es[k].iter.cur.toNat < 2^63) (hf : fuelOf pj + es[k].iter.lim + 10 ≤ f) :
    EStepSim pj e0 es k (exec goFuns f elBody ⟨e, pj.tape⟩) (elemTurn pj es k dst) := by
  have hR : RInv e es k := ⟨hE.names, hE.types, hE.iters, hE.idx⟩
  have hgR : ∀ key, key ∉ ["elem.Name", "elem.Type"] ++ fieldsOf "elem.Iter" → (readEnv e es[k]).get key = e.get key := by
    intro key hkey
    simp only [fieldsOf, String.reduceAppend, List.cons_append, List.nil_append, List.mem_cons, List.not_mem_nil,
      or_false, not_or] at hkey
    obtain ⟨k1, k2, k3, k4, k5, k6, k7⟩ := hkey
    simp only [readEnv, setIter, String.reduceAppend]
    rw [Env.get_set_ne _ _ (Ne.symm k7), Env.get_set_ne _ _ (Ne.symm k6), Env.get_set_ne _ _ (Ne.symm k5),
      Env.get_set_ne _ _ (Ne.symm k4), Env.get_set_ne _ _ (Ne.symm k3), Env.get_set_ne _ _ (Ne.symm k2),
      Env.get_set_ne _ _ (Ne.symm k1)]
  have hRN : (readEnv e es[k]).get "elem.Name" = some (.bytes es[k].name) := by
    simp [readEnv, setIter, Env.get_set]
  have hRD : (readEnv e es[k]).get "dst" = some (.bytes dst) := by rw [hgR _ (by decide)]; exact hE.dst
  have hgW : ∀ key, key ≠ "dst" → key ≠ "err" →
      (writeEnv (readEnv e es[k]) dst es[k].name).get key = (readEnv e es[k]).get key := by
    intro key k1 k2
    simp only [writeEnv]
    rw [Env.get_set_ne _ _ (Ne.symm k2), Env.get_set_ne _ _ (Ne.symm k1), Env.get_set_ne _ _ (Ne.symm k1),
      Env.get_set_ne _ _ (Ne.symm k1)]
  have hWI : iterAt (writeEnv (readEnv e es[k]) dst es[k].name) "elem.Iter" = some es[k].iter := by
    apply iterAt_of_gets <;> simp [writeEnv, readEnv, setIter, Env.get_set]
  have hWD : (writeEnv (readEnv e es[k]) dst es[k].name).get "dst" = some (.bytes ((Iter.quoted dst es[k].name).push 58)) := by
    simp [writeEnv, Env.get_set]
  have hWS : (writeEnv (readEnv e es[k]) dst es[k].name).get "Strings.B" = some (.bytes pj.strings) := by
    rw [hgW _ (by decide) (by decide), hgR _ (by decide)]; exact hE.strs
  have hWM : (writeEnv (readEnv e es[k]) dst es[k].name).get "Message" = some (.bytes pj.msg) := by
    rw [hgW _ (by decide) (by decide), hgR _ (by decide)]; exact hE.msg
  have hmj := call_mjI pj hb _ f es[k].iter _ hWI hWD hWS hWM hl hc hf
  -- everything the turn writes lies outside the receiver's variables and `i`
  have hgE : ∀ key, key ∉ ["elem.Name", "elem.Type"] ++ fieldsOf "elem.Iter" → key ≠ "dst" → key ≠ "err" →
      (writeEnv (readEnv e es[k]) dst es[k].name).get key = e.get key := by
    intro key h1 h2 h3; rw [hgW _ h2 h3, hgR _ h1]
  rw [elBody, List.append_assoc, el_read e pj.tape f es k _ hR hk]
  change EStepSim pj e0 es k (exec goFuns f (elWrite ++ [sMJI, sErrE, sCommaE]) ⟨readEnv e es[k], pj.tape⟩) _
  rw [el_write _ pj.tape f _ dst es[k].name hRD hRN, exec_cons']
  unfold elemTurn
  rw [getElem!_pos es k hk]
  generalize hW : writeEnv (readEnv e es[k]) dst es[k].name = eW at hmj hgE
  cases hB : es[k].iter.marshalBuf pj ((Iter.quoted dst es[k].name).push 58) with
  | ok out =>
    rw [hB] at hmj
    obtain ⟨j, hx⟩ := hmj
    rw [hx]
    simp only [Res.bind_ok]
    have hgA : ∀ key, key ∉ mjKeys → (afterMJI eW pj j out).get key = eW.get key := by
      intro key hkey
      simp only [mjKeys, fieldsOf, String.reduceAppend, List.cons_append, List.nil_append, List.mem_cons,
        List.not_mem_nil, or_false, not_or] at hkey
      obtain ⟨k1, k2, k3, k4, k5, k6, k7, k8, k9⟩ := hkey
      simp only [afterMJI, setIter, String.reduceAppend]
      rw [Env.get_set_ne _ _ (Ne.symm k9), Env.get_set_ne _ _ (Ne.symm k8), Env.get_set_ne _ _ (Ne.symm k7),
        Env.get_set_ne _ _ (Ne.symm k6), Env.get_set_ne _ _ (Ne.symm k5), Env.get_set_ne _ _ (Ne.symm k4),
        Env.get_set_ne _ _ (Ne.symm k3), Env.get_set_ne _ _ (Ne.symm k2), Env.get_set_ne _ _ (Ne.symm k1)]
    have hA : EInv pj e0 (afterMJI eW pj j out) es k out := by
      refine ⟨?_, ?_, ?_, ?_, ?_, ?_, ?_, ?_⟩
      · rw [hgA _ (by decide), hgE _ (by decide) (by decide) (by decide)]; exact hE.names
      · rw [hgA _ (by decide), hgE _ (by decide) (by decide) (by decide)]; exact hE.types
      · rw [hgA _ (by decide), hgE _ (by decide) (by decide) (by decide)]; exact hE.iters
      · rw [hgA _ (by decide), hgE _ (by decide) (by decide) (by decide)]; exact hE.idx
      · simp [afterMJI, Env.get_set]
      · simp [afterMJI, Env.get_set]
      · simp [afterMJI, Env.get_set]
      · intro key hkey
        have h5 := hE.keep key hkey
        simp only [eVars, List.mem_cons, List.not_mem_nil, or_false] at hkey
        rcases hkey with rfl | rfl | rfl | rfl | rfl <;>
          rw [hgA _ (by decide), hgE _ (by decide) (by decide) (by decide)] <;> exact h5
    have hErr : (afterMJI eW pj j out).get "err" = some (.bool false) := by simp [afterMJI, Env.get_set]
    generalize afterMJI eW pj j out = eA at hA hErr
    rw [exec_cons']
    have h1 : exec1 goFuns f sErrE ⟨eA, pj.tape⟩ = .normal ⟨eA, pj.tape⟩ := by
      simp [sErrE, exec, exec1, evalE, binop, hErr]
    rw [h1]
    simp only []
    rw [exec_cons']
    have hlen : (encElems es).1.length = es.size := encElems_len es
    by_cases hlast : k + 1 < es.size
    · have hcnd : ((k : Int) < (es.size : Int) - 1) := by omega
      simp only [if_pos hlast]
      refine ⟨eA.set "dst" (.bytes (out.push 44)), ?_, ?_⟩
      · simp [sCommaE, exec, exec1, evalE, binop, hA.idx, hA.names, hA.dst, hlen, hcnd]
      · refine ⟨?_, ?_, ?_, ?_, ?_, ?_, ?_, ?_⟩
        · rw [Env.get_set_ne _ _ (by decide)]; exact hA.names
        · rw [Env.get_set_ne _ _ (by decide)]; exact hA.types
        · rw [Env.get_set_ne _ _ (by decide)]; exact hA.iters
        · rw [Env.get_set_ne _ _ (by decide)]; exact hA.idx
        · exact Env.get_set_self _ _ _
        · rw [Env.get_set_ne _ _ (by decide)]; exact hA.strs
        · rw [Env.get_set_ne _ _ (by decide)]; exact hA.msg
        · intro key hkey
          have h5 := hA.keep key hkey
          simp only [eVars, List.mem_cons, List.not_mem_nil, or_false] at hkey
          rcases hkey with rfl | rfl | rfl | rfl | rfl <;> rw [Env.get_set_ne _ _ (by decide)] <;> exact h5
    · have hcnd : ¬ ((k : Int) < (es.size : Int) - 1) := by omega
      simp only [if_neg hlast]
      refine ⟨eA, ?_, hA⟩
      simp [sCommaE, exec, exec1, evalE, binop, hA.idx, hA.names, hlen, hcnd]
  | error er =>
    rw [hB] at hmj
    obtain ⟨e', tp, hx, hErr, hfr⟩ := hmj
    rw [hx]
    simp only [Res.bind_error]
    rw [exec_cons']
    refine ⟨⟨e', tp⟩, ?_, ?_⟩
    · simp [sErrE, exec, exec1, evalE, evalEs, binop, hErr]
    · intro key hkey
      have h5 := hE.keep key hkey
      simp only [eVars, List.mem_cons, List.not_mem_nil, or_false] at hkey
      rcases hkey with rfl | rfl | rfl | rfl | rfl <;>
        rw [hfr _ (by decide), hgE _ (by decide) (by decide) (by decide)] <;> exact h5
  | panic =>
    rw [hB] at hmj
    simp only [MJPostI] at hmj
    rw [hmj]
    rfl
  | diverge => trivial

/-! ## the loop -/

theorem forc_false (F : Nat) (c : Expr) (post body : List Stmt) (s : GoSem.St) (h : evalE s c = .val (.bool false)) :
    exec1 goFuns (F + 1) (.forc [] c post body) s = .normal s := by
  rw [exec1, h]

theorem forc_true (F : Nat) (c : Expr) (post body : List Stmt) (s : GoSem.St) (h : evalE s c = .val (.bool true)) :
    exec1 goFuns (F + 1) (.forc [] c post body) s =
      match exec goFuns F body s with
      | .normal s' | .cont s' =>
        (match exec goFuns F post s' with
         | .normal s'' => exec1 goFuns F (.forc [] c post body) s''
         | .brk _ | .cont _ => .stuck "break in post statement"
         | o => o)
      | .brk s' => .normal s'
      | o => o := by
  rw [exec1, h]
  simp only []
  cases exec goFuns F body s <;> try rfl
  all_goals (cases exec goFuns F post _ <;> rfl)

/-- the `for` loop against the model's loop over the remaining indices -/
def ELoopSim (pj : PJ) (e0 : Env) (es : Array View.Elem) (o : Out) : Res Bytes → Prop
  | .ok d => ∃ e', o = .normal ⟨e', pj.tape⟩ ∧ EInv pj e0 e' es es.size d
  | .error _ => ∃ st, o = .ret st [.bytes #[], .bool true] ∧ ∀ key ∈ eVars, st.env.get key = e0.get key
  | .panic => o = .panic
  | .diverge => True

theorem el_loop (pj : PJ) (hb : BufOK pj) (e0 : Env) (es : Array View.Elem)
    (hes : ∀ x ∈ es, x.iter.lim ≤ pj.tape.size ∧ x.iter.cur.toNat < 2^63) :
    ∀ (m k : Nat) (e : Env) (dst : Bytes) (F : Nat), EInv pj e0 e es k dst → k + m = es.size →
      m + fuelOf pj + pj.tape.size + 12 ≤ F →
      ELoopSim pj e0 es (exec1 goFuns F (.forc [] elCond elPost elBody) ⟨e, pj.tape⟩)
        (elemsLoop pj es (List.range' k m) dst) := by
  intro m
  induction m with
  | zero =>
    intro k e dst F hE hk hF
    obtain ⟨F', rfl⟩ : ∃ F', F = F' + 1 := ⟨F - 1, by omega⟩
    have hlen : (encElems es).1.length = es.size := encElems_len es
    have hc : evalE ⟨e, pj.tape⟩ elCond = .val (.bool false) := by
      have : ¬ ((k : Int) < (es.size : Int)) := by omega
      simp [elCond, evalE, binop, hE.idx, hE.names, hlen, this]
    rw [forc_false _ _ _ _ _ hc]
    have hk' : k = es.size := by omega
    subst hk'
    exact ⟨e, rfl, hE⟩
  | succ m ih =>
    intro k e dst F hE hk hF
    obtain ⟨F', rfl⟩ : ∃ F', F = F' + 1 := ⟨F - 1, by omega⟩
    have hks : k < es.size := by omega
    have hlen : (encElems es).1.length = es.size := encElems_len es
    have hc : evalE ⟨e, pj.tape⟩ elCond = .val (.bool true) := by
      have : ((k : Int) < (es.size : Int)) := by omega
      simp [elCond, evalE, binop, hE.idx, hE.names, hlen, this]
    obtain ⟨hl, hcur⟩ := hes es[k] (Array.getElem_mem hks)
    have hturn := el_turn pj hb e0 e es k dst F' hE hks hl hcur (by omega)
    rw [forc_true _ _ _ _ _ hc, List.range'_succ, elemsLoop]
    cases hr : elemTurn pj es k dst with
    | ok d' =>
      rw [hr] at hturn
      obtain ⟨e', hx, hE'⟩ := hturn
      rw [hx]
      simp only [Res.bind_ok]
      have hpost : exec goFuns F' elPost ⟨e', pj.tape⟩ = .normal ⟨e'.set "i" (.int ((k + 1 : Nat) : Int)), pj.tape⟩ := by
        simp [elPost, exec, exec1, evalE, binop, hE'.idx]
      rw [hpost]
      simp only []
      refine ih (k + 1) _ d' F' ?_ (by omega) (by omega)
      refine ⟨?_, ?_, ?_, ?_, ?_, ?_, ?_, ?_⟩
      · rw [Env.get_set_ne _ _ (by decide)]; exact hE'.names
      · rw [Env.get_set_ne _ _ (by decide)]; exact hE'.types
      · rw [Env.get_set_ne _ _ (by decide)]; exact hE'.iters
      · exact Env.get_set_self _ _ _
      · rw [Env.get_set_ne _ _ (by decide)]; exact hE'.dst
      · rw [Env.get_set_ne _ _ (by decide)]; exact hE'.strs
      · rw [Env.get_set_ne _ _ (by decide)]; exact hE'.msg
      · intro key hkey
        have h5 := hE'.keep key hkey
        simp only [eVars, List.mem_cons, List.not_mem_nil, or_false] at hkey
        rcases hkey with rfl | rfl | rfl | rfl | rfl <;> rw [Env.get_set_ne _ _ (by decide)] <;> exact h5
    | error er =>
      rw [hr] at hturn
      obtain ⟨st, hx, hkeep⟩ := hturn
      rw [hx]
      exact ⟨st, rfl, hkeep⟩
    | panic =>
      rw [hr] at hturn
      simp only [EStepSim] at hturn
      rw [hturn]
      rfl
    | diverge => trivial

/-! ## the function -/

/-- `Elements.MarshalJSONBuffer` against the model with the destination parameter; `e` = the initial store -/
def SimElemsBuf (pj : PJ) (e : Env) (o : Out) : Res Bytes → Prop
  | .ok out => ∃ s, o = .ret s [.bytes out, .bool false] ∧ s.tape = pj.tape ∧ ∀ key ∈ eVars, s.env.get key = e.get key
  | .error _ => ∃ s, o = .ret s [.bytes #[], .bool true] ∧ ∀ key ∈ eVars, s.env.get key = e.get key
  | .panic => o = .panic
  | .diverge => True

def elemsFuel (pj : PJ) (es : Array View.Elem) : Nat := es.size + fuelOf pj + pj.tape.size + 14

theorem elemsMarshalBuf_sim (pj : PJ) (hb : BufOK pj) (es : Array View.Elem)
    (hes : ∀ x ∈ es, x.iter.lim ≤ pj.tape.size ∧ x.iter.cur.toNat < 2^63) (dst : Bytes) (e : Env)
    (hN : e.get "e.Elements.Name" = some (.keys (encElems es).1))
    (hT : e.get "e.Elements.Type" = some (.bytes (encElems es).2.1))
    (hI : e.get "e.Elements.Iter" = some (.ints (encElems es).2.2))
    (hD : e.get "dst" = some (.bytes dst))
    (hS : e.get "Strings.B" = some (.bytes pj.strings)) (hM : e.get "Message" = some (.bytes pj.msg))
    (F : Nat) (hF : elemsFuel pj es ≤ F) :
    SimElemsBuf pj e (runFun goFuns goElements_MarshalJSONBuffer F ⟨e, pj.tape⟩) (elemsMarshalBuf pj es dst) := by
  unfold elemsFuel at hF
  obtain ⟨F', rfl⟩ : ∃ F', F = F' + 1 := ⟨F - 1, by omega⟩
  have h1 : exec1 goFuns (F' + 1) (.assign "dst" (.pushB (.v "dst") (.u8 123))) ⟨e, pj.tape⟩ =
      .normal ⟨e.set "dst" (.bytes (dst.push 123)), pj.tape⟩ := by simp [exec1, evalE, hD]
  have hE0 : EInv pj e ((e.set "dst" (.bytes (dst.push 123))).set "i" (.int ((0 : Nat) : Int))) es 0 (dst.push 123) := by
    refine ⟨?_, ?_, ?_, ?_, ?_, ?_, ?_, ?_⟩
    · simp [Env.get_set, hN]
    · simp [Env.get_set, hT]
    · simp [Env.get_set, hI]
    · simp [Env.get_set]
    · simp [Env.get_set]
    · simp [Env.get_set, hS]
    · simp [Env.get_set, hM]
    · intro key hkey
      simp only [eVars, List.mem_cons, List.not_mem_nil, or_false] at hkey
      rcases hkey with rfl | rfl | rfl | rfl | rfl <;> simp [Env.get_set]
  have hloop := el_loop pj hb e es hes es.size 0 _ (dst.push 123) F' hE0 (by omega) (by omega)
  have h2 : exec1 goFuns (F' + 1) (.forc [.assign "i" (.int 0)] elCond elPost elBody)
      ⟨e.set "dst" (.bytes (dst.push 123)), pj.tape⟩ =
      exec1 goFuns F' (.forc [] elCond elPost elBody)
        ⟨(e.set "dst" (.bytes (dst.push 123))).set "i" (.int ((0 : Nat) : Int)), pj.tape⟩ := by
    rw [exec1]
    simp [exec, exec1, evalE]
  rw [runFun, el_fn_eq, exec_cons', h1]
  simp only []
  rw [exec_cons', h2]
  unfold elemsMarshalBuf
  generalize exec1 goFuns F' (.forc [] elCond elPost elBody) _ = o at hloop ⊢
  cases hr : elemsLoop pj es (List.range' 0 es.size) (dst.push 123) with
  | ok d =>
    rw [hr] at hloop
    obtain ⟨e', rfl, hE'⟩ := hloop
    simp only [Res.bind_ok]
    refine ⟨⟨e'.set "dst" (.bytes (d.push 125)), pj.tape⟩, ?_, rfl, ?_⟩
    · simp [exec, exec1, evalE, evalEs, hE'.dst, Env.get_set]
    · intro key hkey
      have h5 := hE'.keep key hkey
      simp only [eVars, List.mem_cons, List.not_mem_nil, or_false] at hkey
      rcases hkey with rfl | rfl | rfl | rfl | rfl <;> rw [Env.get_set_ne _ _ (by decide)] <;> exact h5
  | error er =>
    rw [hr] at hloop
    obtain ⟨st, rfl, hkeep⟩ := hloop
    exact ⟨st, rfl, hkeep⟩
  | panic =>
    rw [hr] at hloop
    simp only [ELoopSim] at hloop
    subst hloop
    rfl
  | diverge => trivial

/-- `Elements.MarshalJSONBuffer` against the hand model `View.elemsMarshal` (which starts from `{`, i.e. `dst = nil`) -/
def SimElems (pj : PJ) (e : Env) (dst : Bytes) (o : Out) : Res Bytes → Prop
  | .ok out => ∃ s, o = .ret s [.bytes (dst ++ out), .bool false] ∧ s.tape = pj.tape ∧
      ∀ key ∈ eVars, s.env.get key = e.get key
  | .error _ => ∃ s, o = .ret s [.bytes #[], .bool true] ∧ ∀ key ∈ eVars, s.env.get key = e.get key
  | .panic => o = .panic
  | .diverge => True

theorem elemsMarshal_sim (pj : PJ) (hb : BufOK pj) (es : Array View.Elem)
    (hes : ∀ x ∈ es, x.iter.lim ≤ pj.tape.size ∧ x.iter.cur.toNat < 2^63) (dst : Bytes) (e : Env)
    (hN : e.get "e.Elements.Name" = some (.keys (encElems es).1))
    (hT : e.get "e.Elements.Type" = some (.bytes (encElems es).2.1))
    (hI : e.get "e.Elements.Iter" = some (.ints (encElems es).2.2))
    (hD : e.get "dst" = some (.bytes dst))
    (hS : e.get "Strings.B" = some (.bytes pj.strings)) (hM : e.get "Message" = some (.bytes pj.msg))
    (F : Nat) (hF : elemsFuel pj es ≤ F) :
    SimElems pj e dst (runFun goFuns goElements_MarshalJSONBuffer F ⟨e, pj.tape⟩) (View.elemsMarshal pj es) := by
  have h := elemsMarshalBuf_sim pj hb es hes dst e hN hT hI hD hS hM F hF
  rw [elemsMarshalBuf_prefix] at h
  cases hr : View.elemsMarshal pj es with
  | ok out => rw [hr] at h; exact h
  | error er => rw [hr] at h; exact h
  | panic => rw [hr] at h; exact h
  | diverge => trivial

/-! ## what `View.parse` returns satisfies the hypotheses of `elemsMarshal_sim` -/

theorem neb_cur (pj : PJ) : ∀ (fuel : Nat) (o o' : View) (nm : Bytes) (it : Iter) (ty : UInt8),
    View.nextElementBytes pj o fuel = .ok (o', some (nm, it, ty)) → it.cur.toNat < 2^56 := by
  intro fuel
  induction fuel with
  | zero => intro o o' nm it ty h; cases h
  | succ n ih =>
    intro o o' nm it ty h
    rw [View.nextElementBytes] at h
    split at h
    · cases h
    · cases h0 : rd pj.tape o.off with
      | ok w =>
        rw [h0] at h
        simp only [Res.bind_ok] at h
        split at h
        · split at h
          · cases h
          · cases h1 : rd pj.tape (o.off + 1) with
            | ok len =>
              rw [h1] at h
              simp only [Res.bind_ok] at h
              cases h2 : stringByteAt pj (payloadOf w) len with
              | ok name =>
                rw [h2] at h
                simp only [Res.bind_ok] at h
                cases h3 : rd pj.tape (o.off + 2) with
                | ok w2 =>
                  rw [h3] at h
                  simp only [Res.bind_ok] at h
                  split at h
                  · cases h
                  · split at h
                    · cases h
                    · simp only [Res.ok.injEq, Prod.mk.injEq, Option.some.injEq] at h
                      obtain ⟨_, _, hit, _⟩ := h
                      rw [← hit]
                      show (Iter.calcNext _ true).cur.toNat < 2^56
                      rw [(WalkSafe.calcNext_fields _ true).2.2.1]
                      exact payload_lt w2
                | error e => rw [h3] at h; cases h
                | panic => rw [h3] at h; cases h
                | diverge => rw [h3] at h; cases h
              | error e => rw [h2] at h; cases h
              | panic => rw [h2] at h; cases h
              | diverge => rw [h2] at h; cases h
            | error e => rw [h1] at h; cases h
            | panic => rw [h1] at h; cases h
            | diverge => rw [h1] at h; cases h
        · split at h
          · cases h
          · split at h
            · split at h
              · cases h
              · exact ih _ _ _ _ _ h
            · cases h
      | error e => rw [h0] at h; cases h
      | panic => rw [h0] at h; cases h
      | diverge => rw [h0] at h; cases h

/-- every iterator `View.parse` stores is a view of the tape with a non-negative `addNext` and a 56-bit `cur`; with
    `fuel ≥ lim - off + 2` the model neither panics nor runs out of fuel -/
theorem parse_facts (pj : PJ) (fuel : Nat) : ∀ (o : View) (acc : Array View.Elem),
    o.lim ≤ pj.tape.size → o.lim - o.off + 2 ≤ fuel →
    (∀ e ∈ acc, WalkSafe.Iter.Valid pj e.iter ∧ e.iter.cur.toNat < 2^56) →
    (∃ es, View.parse pj o acc fuel = .ok es ∧ ∀ e ∈ es, WalkSafe.Iter.Valid pj e.iter ∧ e.iter.cur.toNat < 2^56) ∨
    (∃ e, View.parse pj o acc fuel = .error e) := by
  induction fuel with
  | zero => intro _ _ _ h; omega
  | succ n ih =>
    intro o acc hl hf hacc
    rw [View.parse]
    have hcur := neb_cur pj n o
    rcases WalkSafe.nextElementBytes_safe pj n o hl (by omega) with
      ⟨e, he⟩ | ⟨o', he, _⟩ | ⟨o', nm, it, ty, he, a, b, c, d, hvit, f⟩
    · rw [he]; exact Or.inr ⟨_, rfl⟩
    · rw [he]; exact Or.inl ⟨_, rfl, hacc⟩
    · rw [he]
      simp only [Res.bind_ok]
      split
      · exact Or.inl ⟨_, rfl, hacc⟩
      · refine ih o' _ (by omega) (by omega) ?_
        intro e he'
        rcases Array.mem_push.mp he' with h | h
        · exact hacc e h
        · rw [h]; exact ⟨hvit, hcur _ _ _ _ he⟩

/-- on iterators that are views of the tape with non-negative `addNext` the model of `MarshalJSONBuffer` returns a
    buffer or an error -/
theorem elemsLoop_safe (pj : PJ) (es : Array View.Elem) (hes : ∀ x ∈ es, WalkSafe.Iter.Valid pj x.iter) :
    ∀ (l : List Nat) (d : Bytes), (∀ k ∈ l, k < es.size) → WalkSafe.OkOrErr (elemsLoop pj es l d)
  | [], d, _ => Or.inl ⟨_, rfl⟩
  | k :: ks, d, hl => by
    have hk : k < es.size := hl k (by simp)
    rw [elemsLoop]
    refine WalkSafe.OkOrErr.bind ?_ (fun a _ => elemsLoop_safe pj es hes ks a (fun j hj => hl j (by simp [hj])))
    unfold elemTurn
    rw [getElem!_pos es k hk]
    refine WalkSafe.OkOrErr.bind (WalkSafe.marshalBuf_safe pj _ _ (hes _ (Array.getElem_mem hk))) (fun a _ => ?_)
    exact Or.inl ⟨_, rfl⟩

theorem elemsMarshal_safe (pj : PJ) (es : Array View.Elem) (hes : ∀ x ∈ es, WalkSafe.Iter.Valid pj x.iter) :
    WalkSafe.OkOrErr (View.elemsMarshal pj es) := by
  rw [elemsMarshal_buf]
  unfold elemsMarshalBuf
  refine WalkSafe.OkOrErr.bind (elemsLoop_safe pj es hes _ _ ?_) (fun a _ => Or.inl ⟨_, rfl⟩)
  intro k hk
  have := List.mem_range'_1.mp hk
  omega

/-! ## the relations read as equivalences -/

/-- the destination `*dst` holds exactly `es` with its index -/
def DstIs (e : Env) (es : Array View.Elem) : Prop :=
  e.get "dst.Elements.Name" = some (.keys (encElems es).1) ∧
  e.get "dst.Elements.Type" = some (.bytes (encElems es).2.1) ∧
  e.get "dst.Elements.Iter" = some (.ints (encElems es).2.2) ∧
  e.get "dst.Index.k" = some (.keys (indexOf es).1) ∧
  e.get "dst.Index.v" = some (.ints (indexOf es).2)

theorem DstIs.inj {e : Env} {es es' : Array View.Elem} (h : DstIs e es) (h' : DstIs e es') : es = es' := by
  obtain ⟨a1, a2, a3, _, _⟩ := h
  obtain ⟨b1, b2, b3, _, _⟩ := h'
  rw [a1] at b1; rw [a2] at b2; rw [a3] at b3
  simp only [Option.some.injEq, Val.keys.injEq, Val.bytes.injEq, Val.ints.injEq] at b1 b2 b3
  apply encElems_inj
  rw [Prod.ext_iff, Prod.ext_iff]
  exact ⟨b1, b2, b3⟩

/-- **`View.parse` IS the meaning of `Object.Parse`**, on any store holding the receiver, the flag and the buffers — whatever
    the five destination variables hold. -/
theorem parse_tie (pj : PJ) (hb : BufOK pj) (v : View) (hl : v.lim ≤ pj.tape.size) (b : Bool) (e : Env)
    (hv : viewAt e "o" = some v) (hN : e.get "dst==nil" = some (.bool b))
    (hS : e.get "Strings.B" = some (.bytes pj.strings)) (hM : e.get "Message" = some (.bytes pj.msg))
    (mf F : Nat) (hm : v.lim - v.off + 2 ≤ mf) (hF : v.lim - v.off + 5 ≤ F) :
    (∀ es, View.parse pj v #[] mf = .ok es ↔
      ∃ s, runFun goFuns goObject_Parse F ⟨e, pj.tape⟩ = .ret s [.bool true, .bool false] ∧ s.tape = pj.tape ∧
        viewAt s.env "o" = some (parseEnd pj v mf) ∧ s.env.get "dst==nil" = some (.bool false) ∧ DstIs s.env es) ∧
    ((∃ er, View.parse pj v #[] mf = .error er) ↔
      ∃ s, runFun goFuns goObject_Parse F ⟨e, pj.tape⟩ = .ret s [.bool true, .bool true] ∧ s.tape = pj.tape) ∧
    View.parse pj v #[] mf ≠ .panic ∧ View.parse pj v #[] mf ≠ .diverge ∧
    runFun goFuns goObject_Parse F ⟨e, pj.tape⟩ ≠ .panic ∧ runFun goFuns goObject_Parse F ⟨e, pj.tape⟩ ≠ .diverge ∧
    (∀ w, runFun goFuns goObject_Parse F ⟨e, pj.tape⟩ ≠ .stuck w) := by
  have h := parse_sim pj hb v hl b e hv hN hS hM mf F hm hF
  have hs := parse_facts pj mf v #[] hl hm (by simp)
  generalize runFun goFuns goObject_Parse F ⟨e, pj.tape⟩ = o at h ⊢
  rcases hs with ⟨es0, hr, _⟩ | ⟨er, hr⟩
  · rw [hr] at h ⊢
    obtain ⟨s, rfl, ht, hvw, hfl, d1, d2, d3, d4, d5, _, _⟩ := h
    have hd : DstIs s.env es0 := ⟨d1, d2, d3, d4, d5⟩
    refine ⟨fun es => ⟨?_, ?_⟩, ⟨?_, ?_⟩, ?_, ?_, ?_, ?_, ?_⟩
    · intro h'; injection h' with h'; subst h'; exact ⟨s, rfl, ht, hvw, hfl, hd⟩
    · rintro ⟨s', h', _, _, _, hd'⟩
      injection h' with h1 _
      subst h1
      rw [hd.inj hd']
    · rintro ⟨er, h'⟩; cases h'
    · rintro ⟨s', h', _⟩; simp at h'
    all_goals (intro h'; cases h')
    intro h'; cases h'
  · rw [hr] at h ⊢
    obtain ⟨s, rfl, ht⟩ := h
    refine ⟨fun es => ⟨?_, ?_⟩, ⟨?_, ?_⟩, ?_, ?_, ?_, ?_, ?_⟩
    · intro h'; cases h'
    · rintro ⟨s', h', _⟩; simp at h'
    · intro _; exact ⟨s, rfl, ht⟩
    · intro _; exact ⟨er, rfl⟩
    all_goals (intro h'; cases h')
    intro h'; cases h'

/-- **`View.elemsMarshal` IS the meaning of `Elements.MarshalJSONBuffer`** for elements whose iterators are views of the
    tape with `cur < 2^63`, any `dst`, on any store holding the receiver's three lists, `dst` and the buffers: wherever the
    model's inner fuel (`fuelOf pj`, in `Iter.marshalBuf`) suffices, each line is an equivalence and the interpreter is
    neither stuck nor out of fuel; the receiver's variables read afterwards as before (by-value receiver). -/
theorem elems_tie (pj : PJ) (hb : BufOK pj) (es : Array View.Elem)
    (hes : ∀ x ∈ es, x.iter.lim ≤ pj.tape.size ∧ x.iter.cur.toNat < 2^63) (dst : Bytes) (e : Env)
    (hN : e.get "e.Elements.Name" = some (.keys (encElems es).1))
    (hT : e.get "e.Elements.Type" = some (.bytes (encElems es).2.1))
    (hI : e.get "e.Elements.Iter" = some (.ints (encElems es).2.2))
    (hD : e.get "dst" = some (.bytes dst))
    (hS : e.get "Strings.B" = some (.bytes pj.strings)) (hM : e.get "Message" = some (.bytes pj.msg))
    (F : Nat) (hF : elemsFuel pj es ≤ F) (hnd : View.elemsMarshal pj es ≠ .diverge) :
    (∀ out, View.elemsMarshal pj es = .ok out ↔
      ∃ s, runFun goFuns goElements_MarshalJSONBuffer F ⟨e, pj.tape⟩ = .ret s [.bytes (dst ++ out), .bool false] ∧
        s.tape = pj.tape ∧ ∀ key ∈ eVars, s.env.get key = e.get key) ∧
    ((∃ er, View.elemsMarshal pj es = .error er) ↔
      ∃ s, runFun goFuns goElements_MarshalJSONBuffer F ⟨e, pj.tape⟩ = .ret s [.bytes #[], .bool true] ∧
        ∀ key ∈ eVars, s.env.get key = e.get key) ∧
    (View.elemsMarshal pj es = .panic ↔ runFun goFuns goElements_MarshalJSONBuffer F ⟨e, pj.tape⟩ = .panic) ∧
    runFun goFuns goElements_MarshalJSONBuffer F ⟨e, pj.tape⟩ ≠ .diverge ∧
    (∀ w, runFun goFuns goElements_MarshalJSONBuffer F ⟨e, pj.tape⟩ ≠ .stuck w) := by
  have h := elemsMarshal_sim pj hb es hes dst e hN hT hI hD hS hM F hF
  generalize runFun goFuns goElements_MarshalJSONBuffer F ⟨e, pj.tape⟩ = o at h ⊢
  cases hr : View.elemsMarshal pj es with
  | ok out0 =>
    rw [hr] at h
    obtain ⟨s, rfl, ht, hk⟩ := h
    refine ⟨fun out => ⟨?_, ?_⟩, ⟨?_, ?_⟩, ⟨?_, ?_⟩, ?_, ?_⟩
    · intro h'; injection h' with h'; subst h'; exact ⟨s, rfl, ht, hk⟩
    · rintro ⟨s', h', _⟩
      simp only [Out.ret.injEq, List.cons.injEq, Val.bytes.injEq] at h'
      rw [Array.append_right_inj dst |>.mp h'.2.1]
    · rintro ⟨er, h'⟩; cases h'
    · rintro ⟨s', h', _⟩; simp at h'
    all_goals (intro h'; cases h')
    intro h'; cases h'
  | error er =>
    rw [hr] at h
    obtain ⟨s, rfl, hk⟩ := h
    refine ⟨fun out => ⟨?_, ?_⟩, ⟨?_, ?_⟩, ⟨?_, ?_⟩, ?_, ?_⟩
    · intro h'; cases h'
    · rintro ⟨s', h', _⟩; simp at h'
    · intro _; exact ⟨s, rfl, hk⟩
    · intro _; exact ⟨er, rfl⟩
    all_goals (intro h'; cases h')
    intro h'; cases h'
  | panic =>
    rw [hr] at h
    simp only [SimElems] at h
    subst h
    refine ⟨fun out => ⟨?_, ?_⟩, ⟨?_, ?_⟩, ⟨?_, ?_⟩, ?_, ?_⟩
    · intro h'; cases h'
    · rintro ⟨s', h', _⟩; cases h'
    · rintro ⟨er, h'⟩; cases h'
    · rintro ⟨s', h', _⟩; cases h'
    · intro _; rfl
    · intro _; rfl
    · intro h'; cases h'
    · intro w h'; cases h'
  | diverge => exact absurd hr hnd

/-! ## the conventional stores, and the bundle -/

/-- the store of `o.Parse(dst)`: receiver, the destination's five variables holding ANY previous content `old`, the
    buffers, the hidden flag — what `callFun` builds for a call of the method -/
def parseEnv (pj : PJ) (v : View) (b : Bool) (old : List Bytes × Bytes × List Int × List Bytes × List Int) : Env :=
  [("o.off", .int v.off), ("o.lim", .int v.lim), ("dst.Elements.Name", .keys old.1), ("dst.Elements.Type", .bytes old.2.1),
   ("dst.Elements.Iter", .ints old.2.2.1), ("dst.Index.k", .keys old.2.2.2.1), ("dst.Index.v", .ints old.2.2.2.2)] ++
  bufEnv pj ++ [("dst==nil", .bool b)]

/-- the store of `e.MarshalJSONBuffer(dst)`: the receiver (by value) with ANY index `idx`, the buffers, `dst` -/
def elemsEnv (pj : PJ) (es : Array View.Elem) (idx : List Bytes × List Int) (dst : Bytes) : Env :=
  [("e.Elements.Name", .keys (encElems es).1), ("e.Elements.Type", .bytes (encElems es).2.1),
   ("e.Elements.Iter", .ints (encElems es).2.2), ("e.Index.k", .keys idx.1), ("e.Index.v", .ints idx.2)] ++
  bufEnv pj ++ [("dst", .bytes dst)]

/-- **The bundle.**  For every document with `BufOK`, every object view inside the tape, both values of `dst == nil`,
    any previous content of the destination, model fuel `mf ≥ lim - off + 2`, interpreter fuel `F ≥ lim - off + 5`:
    (1) `Elements.Lookup`'s map: a name's entry in the `Index` built by `Parse` is its LAST position;
    (2) `View.parse` = `Object.Parse` (five variables = `encElems es`/`indexOf es`, receiver at `parseEnd`, tape unchanged;
        error ⇔ `(dst, err)`; neither side panics, diverges or is stuck);
    (3) what `parse` returns satisfies the hypotheses of (4), even with `0 ≤ addNext` and a 56-bit `cur`;
    (4) `View.elemsMarshal` = `Elements.MarshalJSONBuffer` appended to any `dst`, for iterators inside the tape with
        `cur < 2^63`, receiver's variables unchanged;
    (5) for iterators that also have `0 ≤ addNext` (all that `Parse` produces) the model returns a buffer or an error. -/
theorem go_elems_source_tie (pj : PJ) (hb : BufOK pj) (v : View) (hl : v.lim ≤ pj.tape.size) (mf F : Nat)
    (hm : v.lim - v.off + 2 ≤ mf) (hF : v.lim - v.off + 5 ≤ F) :
    -- (1)
    (∀ (es : Array View.Elem) (k : Bytes),
      (assocGet (indexOf es) k = none ↔ ∀ x ∈ es, x.name ≠ k) ∧
      (∀ x, assocGet (indexOf es) k = some x → ∃ p : Nat, x = (p : Int)) ∧
      ∀ p : Nat, assocGet (indexOf es) k = some (p : Int) ↔
        ∃ h : p < es.size, es[p].name = k ∧ ∀ q (hq : q < es.size), p < q → es[q].name ≠ k) ∧
    -- (2)
    (∀ (b : Bool) (old : List Bytes × Bytes × List Int × List Bytes × List Int),
      (∀ es, View.parse pj v #[] mf = .ok es ↔
        ∃ s, runFun goFuns goObject_Parse F ⟨parseEnv pj v b old, pj.tape⟩ = .ret s [.bool true, .bool false] ∧
          s.tape = pj.tape ∧ viewAt s.env "o" = some (parseEnd pj v mf) ∧
          s.env.get "dst==nil" = some (.bool false) ∧ DstIs s.env es) ∧
      ((∃ er, View.parse pj v #[] mf = .error er) ↔
        ∃ s, runFun goFuns goObject_Parse F ⟨parseEnv pj v b old, pj.tape⟩ = .ret s [.bool true, .bool true] ∧
          s.tape = pj.tape) ∧
      View.parse pj v #[] mf ≠ .panic ∧ View.parse pj v #[] mf ≠ .diverge ∧
      runFun goFuns goObject_Parse F ⟨parseEnv pj v b old, pj.tape⟩ ≠ .panic ∧
      runFun goFuns goObject_Parse F ⟨parseEnv pj v b old, pj.tape⟩ ≠ .diverge ∧
      (∀ w, runFun goFuns goObject_Parse F ⟨parseEnv pj v b old, pj.tape⟩ ≠ .stuck w)) ∧
    -- (3)
    (∀ es, View.parse pj v #[] mf = .ok es →
      ∀ x ∈ es, x.iter.lim ≤ pj.tape.size ∧ 0 ≤ x.iter.addNext ∧ x.iter.cur.toNat < 2^56) ∧
    -- (4)
    (∀ (es : Array View.Elem), (∀ x ∈ es, x.iter.lim ≤ pj.tape.size ∧ x.iter.cur.toNat < 2^63) →
      View.elemsMarshal pj es ≠ .diverge →
      ∀ (idx : List Bytes × List Int) (dst : Bytes) (G : Nat), elemsFuel pj es ≤ G →
      (∀ out, View.elemsMarshal pj es = .ok out ↔
        ∃ s, runFun goFuns goElements_MarshalJSONBuffer G ⟨elemsEnv pj es idx dst, pj.tape⟩ =
            .ret s [.bytes (dst ++ out), .bool false] ∧ s.tape = pj.tape ∧
          ∀ key ∈ eVars, s.env.get key = (elemsEnv pj es idx dst).get key) ∧
      ((∃ er, View.elemsMarshal pj es = .error er) ↔
        ∃ s, runFun goFuns goElements_MarshalJSONBuffer G ⟨elemsEnv pj es idx dst, pj.tape⟩ =
            .ret s [.bytes #[], .bool true] ∧ ∀ key ∈ eVars, s.env.get key = (elemsEnv pj es idx dst).get key) ∧
      (View.elemsMarshal pj es = .panic ↔
        runFun goFuns goElements_MarshalJSONBuffer G ⟨elemsEnv pj es idx dst, pj.tape⟩ = .panic) ∧
      runFun goFuns goElements_MarshalJSONBuffer G ⟨elemsEnv pj es idx dst, pj.tape⟩ ≠ .diverge ∧
      (∀ w, runFun goFuns goElements_MarshalJSONBuffer G ⟨elemsEnv pj es idx dst, pj.tape⟩ ≠ .stuck w)) ∧
    -- (5)
    (∀ (es : Array View.Elem), (∀ x ∈ es, x.iter.lim ≤ pj.tape.size ∧ 0 ≤ x.iter.addNext) →
      View.elemsMarshal pj es ≠ .panic ∧ View.elemsMarshal pj es ≠ .diverge) := by
  refine ⟨fun es k => index_lookup es k, ?_, ?_, ?_, ?_⟩
  · intro b old
    exact parse_tie pj hb v hl b (parseEnv pj v b old)
      (by simp [parseEnv, viewAt, Env.get]) (by simp [parseEnv, bufEnv, Env.get]) (by simp [parseEnv, bufEnv, Env.get])
      (by simp [parseEnv, bufEnv, Env.get]) mf F hm hF
  · intro es hr x hx
    rcases parse_facts pj mf v #[] hl hm (by simp) with ⟨es0, h0, hall⟩ | ⟨er, h0⟩
    · rw [h0] at hr; injection hr with hr; subst hr
      obtain ⟨⟨a, b⟩, c⟩ := hall x hx
      exact ⟨a, b, c⟩
    · rw [h0] at hr; cases hr
  · intro es hes hnd idx dst G hG
    exact elems_tie pj hb es hes dst (elemsEnv pj es idx dst) (by simp [elemsEnv, Env.get]) (by simp [elemsEnv, Env.get])
      (by simp [elemsEnv, Env.get]) (by simp [elemsEnv, bufEnv, Env.get]) (by simp [elemsEnv, bufEnv, Env.get])
      (by simp [elemsEnv, bufEnv, Env.get]) G hG hnd
  · intro es hes
    have := elemsMarshal_safe pj es (fun x hx => hes x hx)
    exact ⟨this.ne_panic, this.ne_diverge⟩

end SJ.GoElems
