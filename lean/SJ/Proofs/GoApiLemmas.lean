import SJ.Proofs.GoMarshalLemmas
import SJ.Proofs.GoPJForEach
set_option linter.unusedVariables false
set_option linter.unusedSimpArgs false
/-
GoApiLemmas — vocabulary and call lemmas for `GoApi.lean` (`Iter.Object`, `Iter.Array`, `Iter.Root`, `Iter.String`,
`ParsedJson.stringAt`, `Iter.StringCvt`, `Object.NextElement`).

Stores are abstract (`e : Env` with hypotheses about what it binds), so every theorem applies to the frame `callFun`
builds as well as to a hand-written initial store.
-/
namespace SJ.GoApi
open SJ SJ.GoSem SJ.Generated SJ.GoIter SJ.GoObject

/-! ## `uint64(int)` comparisons -/

theorem lt_ofInt_nat (c : UInt64) (n : Nat) (h : n < 2^63) : (c < UInt64.ofInt (n : Int)) ↔ c.toNat < n := by
  rw [GoSet.ofInt_natCast, UInt64.lt_iff_toNat_lt]
  simp
  have : n % 18446744073709551616 = n := Nat.mod_eq_of_lt (by omega)
  rw [this]

theorem ofInt_lt_nat (c : UInt64) (n : Nat) (h : n < 2^63) : (UInt64.ofInt (n : Int) < c) ↔ n < c.toNat := by
  rw [GoSet.ofInt_natCast, UInt64.lt_iff_toNat_lt]
  simp
  have : n % 18446744073709551616 = n := Nat.mod_eq_of_lt (by omega)
  rw [this]

/-- setting a variable to the value it already has changes no `get` -/
theorem get_set_same (e : Env) (k : String) (x : Val) (hx : e.get k = some x) (k' : String) :
    (e.set k x).get k' = e.get k' := by
  rw [Env.get_set]
  by_cases hk : k = k'
  · subst hk; simp [hx]
  · simp [hk]


/-- re-assigning three variables their own values (what `callFun` does with the receiver's view length and the buffers) -/
theorem get_reset3 (e : Env) (k1 k2 k3 : String) (x1 x2 x3 : Val) (h1 : e.get k1 = some x1) (h2 : e.get k2 = some x2)
    (h3 : e.get k3 = some x3) (k : String) : (((e.set k1 x1).set k2 x2).set k3 x3).get k = e.get k := by
  have a1 : ∀ k, (e.set k1 x1).get k = e.get k := get_set_same e k1 x1 h1
  have a2 : ∀ k, ((e.set k1 x1).set k2 x2).get k = e.get k := fun k => by
    rw [get_set_same _ _ _ (by rw [a1]; exact h2), a1]
  rw [get_set_same _ _ _ (by rw [a2]; exact h3), a2]

/-! ## `AdvanceInto` on any store, with what it leaves alone -/

section into
attribute [local simp] exec exec1 execCases evalE evalEs isOneOf binop convert ofE copyFields bindParams
  iterFields runFun tblLookup Env.get_set

theorem frame_setIter (e : Env) (j : Iter) : Frame e (setIter e "i" j) := by
  intro k hk
  apply get_setIter_ne
  intro h
  exact hk (List.mem_cons_of_mem _ h)

theorem frame3 (e : Env) (a b c : Val) : Frame e (((e.set "v" a).set "i.t" b).set "i.cur" c) :=
  (((Frame.refl e).set _ _ (by decide)).set _ _ (by decide)).set _ _ (by decide)

/-- `LoopSim` with the frame: only the receiver's variables and the local `v` are written -/
def LoopSimF (tape : Array UInt64) (e : Env) (ret : List Val) (o : Out) (r : Res (Iter × Bool)) : Prop :=
  match r with
  | .ok (j', true) => ∃ s, o = .normal s ∧ s.tape = tape ∧ iterAt s.env "i" = some j' ∧ j'.cur.toNat < 2^56 ∧ Frame e s.env
  | .ok (j', false) => ∃ s, o = .ret s ret ∧ s.tape = tape ∧ iterAt s.env "i" = some j' ∧ Frame e s.env
  | .panic => o = .panic
  | _ => False

theorem LoopSimF.mono {tape : Array UInt64} {e0 e : Env} {ret : List Val} {o : Out} {r : Res (Iter × Bool)}
    (hF : Frame e0 e) (h : LoopSimF tape e ret o r) : LoopSimF tape e0 ret o r := by
  cases r with
  | ok p =>
    obtain ⟨j', l⟩ := p
    cases l with
    | true => obtain ⟨s, h1, h2, h3, h4, h5⟩ := h; exact ⟨s, h1, h2, h3, h4, hF.trans h5⟩
    | false => obtain ⟨s, h1, h2, h3, h5⟩ := h; exact ⟨s, h1, h2, h3, hF.trans h5⟩
  | panic => exact h
  | error _ => exact h
  | diverge => exact h

theorem advanceInto_loopF (pj : PJ) : ∀ (n : Nat) (j : Iter) (fuel : Nat) (e : Env), j.lim - j.off ≤ n →
    n + 1 < fuel → j.lim ≤ pj.tape.size → iterAt e "i" = some j →
    LoopSimF pj.tape e [.u8 0] (exec1 goFuns fuel (.loop (firstLoop goIter_AdvanceInto.body)) ⟨e, pj.tape⟩)
      (Iter.advanceIntoLoop pj j j.off) := by
  intro n
  induction n with
  | zero =>
    intro j fuel e hn hf hsz hI
    obtain ⟨f, rfl⟩ : ∃ f, fuel = f + 2 := ⟨fuel - 2, by omega⟩
    obtain ⟨h1, h2, h3, h4, h5⟩ := iterAt_get_i _ _ hI
    rw [exec1, advanceInto_body e pj.tape f j hI hsz, advanceIntoLoop_self]
    have h : j.off ≥ j.lim := by omega
    simp only [h, dif_pos, LoopSimF]
    refine ⟨_, rfl, rfl, ?_, ?_⟩
    · apply iterAt_of_gets <;> simp [h1, h3, h5, tagEnd]
    · exact ((Frame.refl e).set _ _ (by decide)).set _ _ (by decide)
  | succ n ih =>
    intro j fuel e hn hf hsz hI
    obtain ⟨f, rfl⟩ : ∃ f, fuel = f + 2 := ⟨fuel - 2, by omega⟩
    obtain ⟨h1, h2, h3, h4, h5⟩ := iterAt_get_i _ _ hI
    rw [exec1, advanceInto_body e pj.tape f j hI hsz, advanceIntoLoop_self]
    by_cases h : j.off ≥ j.lim
    · simp only [h, dif_pos, LoopSimF]
      refine ⟨_, rfl, rfl, ?_, ?_⟩
      · apply iterAt_of_gets <;> simp [h1, h3, h5, tagEnd]
      · exact ((Frame.refl e).set _ _ (by decide)).set _ _ (by decide)
    · have hr : pj.tape[j.off]? = some (pj.tape[j.off]'(by omega)) := by simp
      simp only [h, dif_neg, not_false_eq_true, Iter.rdT, rd, hr, Res.bind_ok]
      generalize pj.tape[j.off] = v
      by_cases hn' : tagOf v = tagNop
      · by_cases hz : payloadOf v = 0
        · simp only [hn', hz, if_true, beq_self_eq_true, LoopSimF, dite_true]
          refine ⟨_, rfl, rfl, iterAt_setIter_i _ _, ?_⟩
          exact (frame3 e _ _ _).trans (frame_setIter _ _)
        · have hz' := payload_toNat_ne v hz
          simp only [hn', hz, if_true, if_false, beq_self_eq_true, beq_iff_eq, dite_false, dif_neg, not_false_eq_true]
          refine LoopSimF.mono ((frame3 e _ _ _).set "i.off" _ (by decide)) (ih _ (f + 1) _ (by simp only; omega) (by omega) hsz ?_)
          apply iterAt_of_gets <;> simp [h2, h5]
      · have hb : (tagOf v == tagNop) = false := by simp [hn']
        simp only [hn', hb, if_false, LoopSimF]
        refine ⟨_, rfl, rfl, ?_, payload_lt v, (frame3 e _ _ _).set "i.off" _ (by decide)⟩
        apply iterAt_of_gets <;> simp [h2, h5]

/-- the statements after the loop of `AdvanceInto`, on any store -/
theorem advanceInto_tailF (s : St) (j : Iter) (f : Nat) (hI : iterAt s.env "i" = some j) (hcur : j.cur.toNat < 2^63) :
    ∃ s', exec goFuns (f + 1) (afterLoop goIter_AdvanceInto.body) s =
        .ret s' [.u8 (if (j.calcNext true).addNext < 0 then tagEnd else (j.calcNext true).t)] ∧
      s'.tape = s.tape ∧
      iterAt s'.env "i" = some (if (j.calcNext true).addNext < 0 then (j.calcNext true).moveToEnd
        else j.calcNext true) ∧ Frame s.env s'.env := by
  simp only [goIter_AdvanceInto, afterLoop]
  rw [exec, call_calcNext_i s j true f hI hcur]
  simp only []
  have hI2 := iterAt_setIter_i s.env (j.calcNext true)
  have hF := frame_setIter s.env (j.calcNext true)
  generalize setIter s.env "i" (j.calcNext true) = e1 at hI2 hF
  generalize j.calcNext true = j2 at hI2
  obtain ⟨h1, h2, h3, h4, h5⟩ := iterAt_get_i _ _ hI2
  by_cases hneg : j2.addNext < 0
  · simp only [hneg, if_true]
    refine ⟨⟨setIter e1 "i" j2.moveToEnd, s.tape⟩, ?_, rfl, iterAt_setIter_i _ _, hF.trans (frame_setIter _ _)⟩
    simp [h1, h2, h3, h4, h5, hneg, goFuns, goIter_moveToEnd, Env.set, Env.get, setIter, Iter.moveToEnd, tagEnd]
  · simp only [hneg, if_false]
    refine ⟨⟨e1, s.tape⟩, ?_, rfl, hI2, hF⟩
    simp [h1, h2, h3, h4, h5, hneg]

/-- `SimT` on any store, with the frame -/
def SimTF (tape : Array UInt64) (e : Env) (o : Out) (r : Res (Iter × UInt8)) : Prop :=
  match r with
  | .ok (i', t) => ∃ s, o = .ret s [.u8 t] ∧ s.tape = tape ∧ iterAt s.env "i" = some i' ∧ Frame e s.env
  | .panic => o = .panic
  | _ => False

theorem SimTF.final {tape : Array UInt64} {e : Env} {o : Out} {r : Res (Iter × UInt8)} (h : SimTF tape e o r) :
    Out.final o = true := by
  unfold SimTF at h
  split at h
  · obtain ⟨s, h, _⟩ := h; rw [h]; rfl
  · rw [h]; rfl
  · exact h.elim

/-- the body of `AdvanceInto` on ANY store that holds the receiver (e.g. the frame `callFun` builds, with or without
    the shared buffers) -/
theorem advanceInto_execF (pj : PJ) (i : Iter) (e : Env) (hl : i.lim ≤ pj.tape.size) (fuel : Nat) (hf : fuelFor i ≤ fuel)
    (hI : iterAt e "i" = some i) :
    SimTF pj.tape e (exec goFuns fuel goIter_AdvanceInto.body ⟨e, pj.tape⟩) (i.advanceInto pj) := by
  obtain ⟨g1, g2, g3, g4, g5⟩ := iterAt_get_i _ _ hI
  have hbody : goIter_AdvanceInto.body = .assign "i.off" (.bin .add (.v "i.off") (.v "i.addNext")) ::
      .loop (firstLoop goIter_AdvanceInto.body) :: afterLoop goIter_AdvanceInto.body := rfl
  have h1 : exec1 goFuns fuel (.assign "i.off" (.bin .add (.v "i.off") (.v "i.addNext"))) ⟨e, pj.tape⟩ =
      .normal ⟨e.set "i.off" (.int ((i.off : Int) + i.addNext)), pj.tape⟩ := by
    simp [g1, g2]
  have hF0 : Frame e (e.set "i.off" (.int ((i.off : Int) + i.addNext))) := (Frame.refl e).set _ _ (by decide)
  unfold fuelFor at hf
  obtain ⟨f, rfl⟩ : ∃ f, fuel = f + 2 := ⟨fuel - 2, by omega⟩
  rw [hbody, exec, h1]
  simp only []
  unfold Iter.advanceInto Iter.bump
  by_cases ho : (i.off : Int) + i.addNext < 0
  · have hp : exec1 goFuns (f + 2) (.loop (firstLoop goIter_AdvanceInto.body))
        ⟨e.set "i.off" (.int ((i.off : Int) + i.addNext)), pj.tape⟩ = .panic := by
      rw [exec1, advanceInto_body_neg _ pj.tape (f + 1) _ i.lim ho (Env.get_set_self _ _ _)
        (by simp [g5])]
    rw [exec_cons_final _ _ _ _ _ (by rw [hp]; rfl), hp]
    simp [ho, SimTF]
  · simp only [ho, if_false, Res.bind_ok]
    have hI' : iterAt (e.set "i.off" (.int ((i.off : Int) + i.addNext))) "i" =
        some { i with off := ((i.off : Int) + i.addNext).toNat } := by
      apply iterAt_of_gets <;> simp [g2, g3, g4, g5]
      omega
    have hloop := advanceInto_loopF pj i.lim { i with off := ((i.off : Int) + i.addNext).toNat } (f + 2) _
      (Nat.sub_le _ _) (by omega) hl hI'
    simp only at hloop
    rw [advanceIntoLoop_off pj _ i _ (Nat.le_refl _)]
    rw [exec]
    generalize exec1 goFuns (f + 2) (.loop (firstLoop goIter_AdvanceInto.body))
      ⟨e.set "i.off" (.int ((i.off : Int) + i.addNext)), pj.tape⟩ = out at hloop ⊢
    cases hg : Iter.advanceIntoLoop pj { i with off := ((i.off : Int) + i.addNext).toNat } ((i.off : Int) + i.addNext).toNat with
    | ok r =>
      obtain ⟨a, l⟩ := r
      rw [hg] at hloop
      cases l with
      | true =>
        obtain ⟨s, rfl, hst, hIs, hc, hFs⟩ := hloop
        simp only []
        obtain ⟨s', hx, hst', hIs', hFs'⟩ := advanceInto_tailF s a (f + 1) hIs (by omega)
        rw [hx]
        simp only [Res.bind_ok, Bool.not_true, Bool.false_eq_true, if_false]
        by_cases hneg : (a.calcNext true).addNext < 0
        · simp only [hneg, if_true] at hIs' ⊢
          exact ⟨s', rfl, by rw [hst', hst], hIs', (hF0.trans hFs).trans hFs'⟩
        · simp only [hneg, if_false] at hIs' ⊢
          exact ⟨s', rfl, by rw [hst', hst], hIs', (hF0.trans hFs).trans hFs'⟩
      | false =>
        obtain ⟨s, rfl, hst, hIs, hFs⟩ := hloop
        simp only [Res.bind_ok, Bool.not_false, if_true, SimTF, tagEnd]
        exact ⟨s, rfl, hst, hIs, hF0.trans hFs⟩
    | panic =>
      rw [hg] at hloop
      simp only [LoopSimF] at hloop
      subst hloop
      simp [SimTF]
    | error e => rw [hg] at hloop; exact hloop.elim
    | diverge => rw [hg] at hloop; exact hloop.elim

end into

/-! ## the call `tag := dst.AdvanceInto()` from any store holding `*dst` -/

/-- what `copyGlobals` leaves in the target: the source's buffers where it has them -/
theorem copyGlobals_get (from_ to : Env) (k : String) :
    (copyGlobals from_ to globalVars).get k =
      if k = "Strings.B" ∨ k = "Message" then (match from_.get k with | some v => some v | none => to.get k)
      else to.get k := by
  by_cases h1 : k = "Strings.B"
  · subst h1
    cases hS : from_.get "Strings.B" <;> cases hM : from_.get "Message" <;>
      simp [copyGlobals, globalVars, hS, hM, Env.get_set]
  · by_cases h2 : k = "Message"
    · subst h2
      cases hS : from_.get "Strings.B" <;> cases hM : from_.get "Message" <;>
        simp [copyGlobals, globalVars, hS, hM, Env.get_set]
    · simp only [h1, h2, or_self, if_false]
      exact GoPJForEach.copyGlobals_get_ne _ _ _ _ (by simp [globalVars, h1, h2])

/-- the frame `callFun` builds for `dst.AdvanceInto()`: the receiver's fields and the caller's buffers, if any -/
def intoFrame (e : Env) (d : Iter) : Env := copyGlobals e (envOf "i" d) globalVars

theorem intoFrame_iter (e : Env) (d : Iter) : iterAt (intoFrame e d) "i" = some d := by
  have h : iterAt (envOf "i" d) "i" = some d := iterAt_envOf d
  rw [← h]
  apply iterAt_congr
  intro k hk
  exact GoPJForEach.copyGlobals_get_ne _ _ _ _ (by revert k; decide)

def backDst (s : St) : Out → Out
  | .ret s' rs =>
    (match copyFields s'.env "i" s.env "dst" iterFields with
     | some e2 => .ret { env := copyGlobals s'.env e2 globalVars, tape := s'.tape } rs
     | none => .stuck "receiver back")
  | .normal s' =>
    (match copyFields s'.env "i" s.env "dst" iterFields with
     | some e2 => .ret { env := copyGlobals s'.env e2 globalVars, tape := s'.tape } []
     | none => .stuck "receiver back")
  | .brk _ | .cont _ => .stuck "break outside loop"
  | o => o

section calls
attribute [local simp] exec exec1 execCases evalE evalEs isOneOf binop convert ofE copyFields bindParams
  iterFields runFun tblLookup

theorem callFun_into_dst (s : St) (d : Iter) (f : Nat) (hD : iterAt s.env "dst" = some d) :
    callFun goFuns f "dst" "Iter.AdvanceInto" [] [] s =
      backDst s (exec goFuns f goIter_AdvanceInto.body ⟨intoFrame s.env d, s.tape⟩) := by
  obtain ⟨d1, d2, d3, d4, d5⟩ := iterAt_get_dst _ _ hD
  have hfn : goFuns "Iter.AdvanceInto" = some goIter_AdvanceInto := rfl
  rw [callFun]
  simp [hfn, goIter_AdvanceInto, d1, d2, d3, d4, d5, copyPtrs, copyPtrsBack, Env.set, Env.get, -exec, -exec1, envOf,
    intoFrame]
  generalize exec goFuns f _ _ = out
  cases out <;> rfl

theorem backDst_ret (s s' : St) (rs : List Val) (j' : Iter) (hI : iterAt s'.env "i" = some j') :
    backDst s (.ret s' rs) = .ret ⟨copyGlobals s'.env (setIter s.env "dst" j') globalVars, s'.tape⟩ rs := by
  obtain ⟨d1, d2, d3, d4, d5⟩ := iterAt_get_i _ _ hI
  simp [backDst, d1, d2, d3, d4, d5, setIter]

end calls

/-- the caller's buffers come back from `dst.AdvanceInto()` as they went in -/
theorem into_globals_back (e : Env) (d : Iter) (s' : St) (to : Env) (hF : Frame (intoFrame e d) s'.env) (k : String)
    (hk : k = "Strings.B" ∨ k = "Message") (hto : to.get k = e.get k) :
    (copyGlobals s'.env to globalVars).get k = e.get k := by
  have hk' : k ∉ "v" :: fieldsOf "i" := by rcases hk with rfl | rfl <;> decide
  have hne : (envOf "i" d).get k = none := by rcases hk with rfl | rfl <;> simp [envOf, Env.get]
  rw [copyGlobals_get, if_pos hk, hF k hk', intoFrame, copyGlobals_get, if_pos hk, hne]
  cases he : e.get k <;> simp [hto, he]

/-- `#c1 = dst.AdvanceInto()` from any caller store holding `*dst`: `*dst` advanced, the tag in `#c1`, everything else
    (the receiver `i`, the flag, the shared buffers if present) untouched -/
theorem callAssign_into_dst (pj : PJ) (e : Env) (F : Nat) (d : Iter) (hD : iterAt e "dst" = some d)
    (hl : d.lim ≤ pj.tape.size) (hf : fuelFor d + 1 ≤ F) :
    match d.advanceInto pj with
    | .ok (d', t) => ∃ e', exec1 goFuns F (.callAssign ["#c1"] "dst" "Iter.AdvanceInto" [] []) ⟨e, pj.tape⟩ =
          .normal ⟨e', pj.tape⟩ ∧
        iterAt e' "dst" = some d' ∧ e'.get "#c1" = some (.u8 t) ∧
        (∀ k, k ∉ "#c1" :: fieldsOf "dst" → e'.get k = e.get k)
    | .panic => exec1 goFuns F (.callAssign ["#c1"] "dst" "Iter.AdvanceInto" [] []) ⟨e, pj.tape⟩ = .panic
    | _ => False := by
  obtain ⟨f, rfl⟩ : ∃ f, F = f + 1 := ⟨F - 1, by omega⟩
  have hsim := advanceInto_execF pj d (intoFrame e d) hl f (by omega) (intoFrame_iter e d)
  rw [exec1, callFun_into_dst ⟨e, pj.tape⟩ d f hD]
  simp only []
  generalize exec goFuns f goIter_AdvanceInto.body ⟨intoFrame e d, pj.tape⟩ = out at hsim ⊢
  cases hr : d.advanceInto pj with
  | ok r =>
    obtain ⟨d', tg⟩ := r
    rw [hr] at hsim
    obtain ⟨s', rfl, hst, hI', hF⟩ := hsim
    rw [backDst_ret _ s' _ d' hI']
    simp only [assignTargets, hst, show ("#c1" == "_") = false from by decide, Bool.false_eq_true, if_false]
    refine ⟨_, rfl, ?_, ?_, ?_⟩
    · rw [iterAt_set_ne _ _ _ _ (by decide)]
      rw [← iterAt_setIter_dst e d']
      apply iterAt_congr
      intro k hk
      exact GoPJForEach.copyGlobals_get_ne _ _ _ _ (by revert k; decide)
    · simp [Env.get_set]
    · intro k hk
      have hk1 : "#c1" ≠ k := fun h => hk (by simp [← h])
      have hk2 : k ∉ fieldsOf "dst" := fun h => hk (List.mem_cons_of_mem _ h)
      rw [Env.get_set_ne _ _ hk1]
      by_cases hg : k = "Strings.B" ∨ k = "Message"
      · exact into_globals_back e d s' _ hF k hg (get_setIter_ne _ _ _ _ hk2)
      · rw [copyGlobals_get, if_neg hg]
        exact get_setIter_ne _ _ _ _ hk2
  | panic =>
    rw [hr] at hsim
    simp only [SimTF] at hsim
    subst hsim
    rfl
  | error _ => rw [hr] at hsim; exact hsim.elim
  | diverge => rw [hr] at hsim; exact hsim.elim

/-! ## the model: the tag `AdvanceInto` returns is the tag of the cursor it leaves -/

theorem advanceIntoLoop_dead_tag (pj : PJ) (i : Iter) (off : Nat) (i' : Iter)
    (h : Iter.advanceIntoLoop pj i off = .ok (i', false)) : i'.t = tagEnd := by
  fun_induction Iter.advanceIntoLoop pj i off with
  | case1 i off hge =>
    simp only [Res.ok.injEq, Prod.mk.injEq] at h
    obtain ⟨rfl, _⟩ := h
    rfl
  | case2 i off hlt ih =>
    cases hr : Iter.rdT pj off with
    | ok v =>
      rw [hr] at h
      simp only [Res.bind_ok] at h
      split at h
      · split at h
        · simp only [Res.ok.injEq, Prod.mk.injEq] at h
          obtain ⟨rfl, _⟩ := h
          rfl
        · rename_i hc
          exact ih v hc h
      · simp only [Res.ok.injEq, Prod.mk.injEq] at h
        exact absurd h.2 (by simp)
    | error e => rw [hr] at h; cases h
    | panic => rw [hr] at h; cases h
    | diverge => rw [hr] at h; cases h

theorem advanceInto_tag (pj : PJ) (i i' : Iter) (t : UInt8) (h : i.advanceInto pj = .ok (i', t)) : t = i'.t := by
  unfold Iter.advanceInto at h
  cases hb : i.bump with
  | ok o =>
    rw [hb] at h
    simp only [Res.bind_ok] at h
    cases hl : Iter.advanceIntoLoop pj i o with
    | ok r =>
      obtain ⟨j, live⟩ := r
      rw [hl] at h
      simp only [Res.bind_ok] at h
      cases live with
      | false =>
        simp only [Bool.not_false, if_true, Res.ok.injEq, Prod.mk.injEq] at h
        obtain ⟨rfl, rfl⟩ := h
        exact (advanceIntoLoop_dead_tag pj i o _ hl).symm
      | true =>
        simp only [Bool.not_true, Bool.false_eq_true, if_false] at h
        split at h
        · simp only [Res.ok.injEq, Prod.mk.injEq] at h
          obtain ⟨rfl, rfl⟩ := h
          rfl
        · simp only [Res.ok.injEq, Prod.mk.injEq] at h
          obtain ⟨rfl, rfl⟩ := h
          rfl
    | error e => rw [hl] at h; cases h
    | panic => rw [hl] at h; cases h
    | diverge => rw [hl] at h; cases h
  | error e => rw [hb] at h; cases h
  | panic => rw [hb] at h; cases h
  | diverge => rw [hb] at h; cases h

/-! ## `ParsedJson.stringAt` -/

section strAt
attribute [local simp] exec exec1 execCases evalE evalEs isOneOf binop convert ofE copyFields bindParams
  iterFields runFun tblLookup

/-- the store `stringAt` returns with: its frame (`offset` possibly masked by the callee) and the two results -/
def saEnv (n : Int) (pj : PJ) (off len : UInt64) : Env :=
  (((((sbEnv n pj off len).set "pj.lim" (.int n)).set "Strings.B" (.bytes pj.strings)).set "Message" (.bytes pj.msg)).set
    "b" ((sbVals (stringByteAt pj off len)).headD (.bool false))).set "err" ((sbVals (stringByteAt pj off len)).getD 1 (.bool false))

/-- `stringAt` as translated, on its frame (which is that of `stringByteAt`): one call, the same two results -/
theorem stringAt_exec (pj : PJ) (n : Int) (off len : UInt64) (tape : Array UInt64) (f : Nat) (hb : BufOK pj) :
    exec goFuns (f + 1) goParsedJson_stringAt.body ⟨sbEnv n pj off len, tape⟩ =
      .ret ⟨saEnv n pj off len, tape⟩ (sbVals (stringByteAt pj off len)) := by
  have hcall := callFun_sb ⟨sbEnv n pj off len, tape⟩ pj "pj" n (.v "offset") (.v "length") off len f hb
    (by simp [sbEnv, Env.get]) (by simp [sbEnv, Env.get]) (by simp [sbEnv, Env.get]) (by simp [sbEnv, Env.get])
    (by simp [sbEnv, Env.get])
  simp only [String.reduceAppend] at hcall
  simp only [goParsedJson_stringAt]
  rw [exec, exec1, hcall]
  rcases stringByteAt_cases pj off len with ⟨b, h⟩ | h
  · rw [h]; simp [sbVals, assignTargets, saEnv, h, Env.get_set]
  · rw [h]; simp [sbVals, assignTargets, saEnv, h, Env.get_set]

/-- `recv.stringAt(a1, a2)` from any caller that holds the buffers: the values the model says, the caller's store back -/
theorem callFun_sa (s : St) (pj : PJ) (recv : String) (n : Int) (a1 a2 : Expr) (off len : UInt64) (f : Nat)
    (hb : BufOK pj) (hl : s.env.get (recv ++ "." ++ "lim") = some (.int n))
    (hS : s.env.get "Strings.B" = some (.bytes pj.strings)) (hM : s.env.get "Message" = some (.bytes pj.msg))
    (h1 : evalE s a1 = .val (.u64 off)) (h2 : evalE s a2 = .val (.u64 len)) :
    callFun goFuns (f + 1) recv "ParsedJson.stringAt" [] [a1, a2] s =
      .ret ⟨((s.env.set (recv ++ "." ++ "lim") (.int n)).set "Strings.B" (.bytes pj.strings)).set "Message"
        (.bytes pj.msg), s.tape⟩ (sbVals (stringByteAt pj off len)) := by
  have he := stringAt_exec pj n off len s.tape f hb
  simp only [sbEnv, goParsedJson_stringAt] at he
  rw [callFun]
  simp [goFuns, goParsedJson_stringAt, h1, h2, hl, hS, hM, copyPtrs, copyGlobals, globalVars, copyPtrsBack,
    Env.set, Env.get, -exec, -exec1]
  rw [he]
  simp [saEnv, sbEnv, Env.get, Env.set, copyPtrsBack, copyGlobals]

end strAt

end SJ.GoApi
