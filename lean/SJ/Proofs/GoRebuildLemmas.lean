import SJ.Generated.GoSrc
import SJ.Proofs.Rebuild
set_option linter.unusedVariables false
set_option linter.unusedSimpArgs false
/-
GoRebuildLemmas — vocabulary for `GoRebuild.lean`: stores, little-endian reads, the case lists of the reconstruction
switch as tag tests, the pieces of the regenerated syntax tree `goDeserialize_rebuild` (pinned by `rfl`), and the inner
`for i := 0; i < nSkips; i++` loop = `flushSkips`.
-/
namespace SJ.GoRebuild
open SJ SJ.GoSem SJ.Generated SJ.Rebuild

/-! ## stores -/

theorem Env.get_set (e : Env) (k k' : String) (v : Val) :
    (e.set k v).get k' = if k = k' then some v else e.get k' := by
  induction e with
  | nil =>
    by_cases h : k = k' <;> simp [Env.set, Env.get, h]
  | cons p r ih =>
    obtain ⟨a, b⟩ := p
    by_cases h : a = k
    · subst h
      by_cases h' : a = k' <;> simp [Env.set, Env.get, h']
    · by_cases h' : a = k'
      · subst h'
        have : ¬ k = a := fun hh => h hh.symm
        simp [Env.set, Env.get, h, this]
      · simp [Env.set, Env.get, h, h', ih]

theorem ofInt_nat (n : Nat) : UInt64.ofInt (n : Int) = UInt64.ofNat n := by
  apply UInt64.toNat_inj.mp
  simp only [UInt64.ofInt, UInt64.toNat_ofNat']
  omega


theorem Env.get_set_self (e : Env) (k : String) (v : Val) : (e.set k v).get k = some v := by
  simp [Env.get_set]

/-! ## words -/

theorem getD_extract (b : Bytes) (i j k : Nat) (h : i + k < j) (hj : j ≤ b.size) :
    (b.extract i j).getD k 0 = b.getD (i + k) 0 := by
  simp only [Array.getD_eq_getD_getElem?, Array.getElem?_extract]
  rw [if_pos (by omega)]

/-- `binary.LittleEndian.Uint64(b[i:j])` reads the eight bytes at `i` -/
theorem leU64_extract (b : Bytes) (i j : Nat) (h : i + 8 ≤ j) (hj : j ≤ b.size) :
    leU64 (b.extract i j) = rdLE64 b i := by
  simp only [leU64, rdLE64, List.range, List.range.loop, List.foldl]
  rw [getD_extract b i j 0 (by omega) hj, getD_extract b i j 1 (by omega) hj, getD_extract b i j 2 (by omega) hj,
    getD_extract b i j 3 (by omega) hj, getD_extract b i j 4 (by omega) hj, getD_extract b i j 5 (by omega) hj,
    getD_extract b i j 6 (by omega) hj, getD_extract b i j 7 (by omega) hj]

/-- the requested form: the unread suffix of `values` -/
theorem leU64_suffix (b : Bytes) (p : Nat) (h : p + 8 ≤ b.size) : leU64 (b.extract p b.size) = rdLE64 b p :=
  leU64_extract b p b.size h (Nat.le_refl _)

/-- `Uint64(values[:8])` of the unread suffix -/
theorem leU64_suffix_lo (b : Bytes) (p : Nat) (h : p + 8 ≤ b.size) :
    leU64 ((b.extract p b.size).extract 0 8) = rdLE64 b p := by
  rw [Array.extract_extract, Nat.add_zero, Nat.min_eq_left (by omega)]
  exact leU64_extract b p (p + 8) (Nat.le_refl _) h

/-- `Uint64(values[8:16])` of the unread suffix -/
theorem leU64_suffix_hi (b : Bytes) (p : Nat) (h : p + 16 ≤ b.size) :
    leU64 ((b.extract p b.size).extract 8 16) = rdLE64 b (p + 8) := by
  rw [Array.extract_extract, Nat.min_eq_left (by omega)]
  exact leU64_extract b (p + 8) (p + 16) (by omega) h

/-- `values = values[k:]` -/
theorem suffix_suffix (b : Bytes) (p k : Nat) (h : p + k ≤ b.size) :
    (b.extract p b.size).extract k (b.size - p) = b.extract (p + k) b.size := by
  rw [Array.extract_extract, Nat.min_eq_right (by omega)]

theorem size_suffix (b : Bytes) (p : Nat) : (b.extract p b.size).size = b.size - p := by
  simp [Array.size_extract]

/-! ## the case lists of the two switches as tag tests -/

theorem inCase_nop (t : UInt8) : inCase (caseOfSw swDeserialize 1 0) t = decide (t = 78) := by
  rw [Facts.deserialize_cases]; revert t; exact forall_u8 (by decide +kernel)
theorem inCase_string (t : UInt8) : inCase (caseOfSw swDeserialize 1 1) t = decide (t = 34) := by
  rw [Facts.deserialize_cases]; revert t; exact forall_u8 (by decide +kernel)
theorem inCase_num (t : UInt8) : inCase (caseOfSw swDeserialize 1 2) t = decide (t = 100 ∨ t = 108 ∨ t = 117) := by
  rw [Facts.deserialize_cases]; revert t; exact forall_u8 (by decide +kernel)
theorem inCase_flag (t : UInt8) : inCase (caseOfSw swDeserialize 1 3) t = decide (t = 101) := by
  rw [Facts.deserialize_cases]; revert t; exact forall_u8 (by decide +kernel)
theorem inCase_atom (t : UInt8) :
    inCase (caseOfSw swDeserialize 1 4) t = decide (t = 110 ∨ t = 116 ∨ t = 102 ∨ t = 0) := by
  rw [Facts.deserialize_cases]; revert t; exact forall_u8 (by decide +kernel)
theorem inCase_open (t : UInt8) : inCase (caseOfSw swDeserialize 1 5) t = decide (t = 123 ∨ t = 91) := by
  rw [Facts.deserialize_cases]; revert t; exact forall_u8 (by decide +kernel)
theorem inCase_root (t : UInt8) : inCase (caseOfSw swDeserialize 1 6) t = decide (t = 114) := by
  rw [Facts.deserialize_cases]; revert t; exact forall_u8 (by decide +kernel)
theorem inCase_close (t : UInt8) : inCase (caseOfSw swDeserialize 1 7) t = decide (t = 125 ∨ t = 93) := by
  rw [Facts.deserialize_cases]; revert t; exact forall_u8 (by decide +kernel)
theorem inCase_two (t : UInt8) :
    inCase (caseOfSw swDeserialize 0 0) t = decide (t = 34 ∨ t = 100 ∨ t = 108 ∨ t = 117 ∨ t = 101) := by
  rw [Facts.deserialize_cases]; revert t; exact forall_u8 (by decide +kernel)

/-! ## the pieces of the syntax tree -/

def flushCond : Expr := .bin .lt (.v "i") (.v "nSkips")
def flushPost : List Stmt := [.assign "i" (.bin .add (.v "i") (.int 1))]
def flushBody : List Stmt := [
  .tapeSet "dst" (.v "off") (.bin .or (.bin .shl (.conv .u64 (.u8 78 /- TagNop -/)) (.int 56)) (.conv .u64 (.bin .sub (.v "nSkips") (.v "i")))),
  .assign "off" (.bin .add (.v "off") (.int 1))]
def flushFor : Stmt := .forc [.assign "i" (.int 0)] flushCond flushPost flushBody
def errRet : List Stmt := [.ret [.bool true, .bool true]]

/-- body of the `range` loop -/
def loopBody : List Stmt :=
  match goDeserialize_rebuild.body with
  | _ :: _ :: _ :: .rangeB _ _ b :: _ => b
  | _ => []
def tailStmts : List Stmt := goDeserialize_rebuild.body.drop 4
def guardSw : Stmt := loopBody.getD 4 .brk
def mainSw : Stmt := loopBody.getD 5 .brk

theorem body_eq : goDeserialize_rebuild.body =
    [.assign "off" (.int 0), .assign "values" (.v "s.valuesBuf"), .assign "nSkips" (.int 0),
     .rangeB "t" (.v "s.tagsBuf") loopBody] ++ tailStmts := rfl

def headStmts : List Stmt := [
  .ite (.bin .eq (.v "off") (.lenTape "dst")) errRet [],
  .assign "tag" (.conv .u8 (.v "t")),
  .assign "tagDst" (.bin .shl (.conv .u64 (.v "t")) (.int 56)),
  .ite (.land (.bin .gt (.v "nSkips") (.int 0)) (.bin .ne (.v "tag") (.u8 78))) [
    .ite (.bin .ge (.v "nSkips") (.bin .sub (.lenTape "dst") (.v "off"))) errRet [],
    flushFor,
    .assign "nSkips" (.int 0)] []]

theorem loopBody_eq : loopBody = headStmts ++ [guardSw, mainSw] := rfl

theorem tail_eq : tailStmts = [
  .ite (.bin .gt (.v "nSkips") (.int 0)) [
    .ite (.bin .gt (.v "nSkips") (.bin .sub (.lenTape "dst") (.v "off"))) errRet [],
    flushFor,
    .assign "nSkips" (.int 0)] [],
  .ite (.bin .ne (.v "off") (.lenTape "dst")) errRet [],
  .ite (.bin .gt (.lenB (.v "values")) (.int 0)) errRet [],
  .ret [.bool true, .bool false]] := rfl

/-! ## sequencing -/

theorem exec_append (funs : String → Option FunDef) (fuel : Nat) (a b : List Stmt) : ∀ s : St,
    exec funs fuel (a ++ b) s = match exec funs fuel a s with | .normal s' => exec funs fuel b s' | o => o := by
  induction a with
  | nil => intro s; simp [exec]
  | cons x r ih =>
    intro s
    simp only [List.cons_append]
    rw [exec, exec]
    cases h : exec1 funs fuel x s <;> simp [ih]

/-! ## the inner loop: `for i := 0; i < nSkips; i++ { dst.Tape[off] = NOP | (nSkips-i); off++ }` -/

attribute [local simp] exec exec1 execCases evalE evalEs isOneOf binop convert ofE Env.get_set

theorem flush_loop : ∀ (k : Nat) (st : St) (off n fuel : Nat), k ≤ n → k < fuel →
    st.env.get "off" = some (.int off) → st.env.get "nSkips" = some (.int n) →
    st.env.get "i" = some (.int ((n : Int) - k)) → st.env.get "dst.lim" = some (.int st.tape.size) →
    match flushSkips st.tape off n k with
    | .ok (tp, off') => ∃ st', exec1 goFuns fuel (.forc [] flushCond flushPost flushBody) st = .normal st' ∧
        st'.tape = tp ∧ st'.env.get "off" = some (.int off') ∧
        (∀ x, x ≠ "off" → x ≠ "i" → st'.env.get x = st.env.get x)
    | .panic => exec1 goFuns fuel (.forc [] flushCond flushPost flushBody) st = .panic
    | _ => False := by
  intro k
  induction k with
  | zero =>
    intro st off n fuel hk hf h1 h2 h3 h4
    obtain ⟨f, rfl⟩ : ∃ f, fuel = f + 1 := ⟨fuel - 1, by omega⟩
    simp only [flushSkips]
    refine ⟨st, ?_, rfl, h1, fun _ _ _ => rfl⟩
    simp [flushCond, h2, h3]
  | succ k ih =>
    intro st off n fuel hk hf h1 h2 h3 h4
    obtain ⟨f, rfl⟩ : ∃ f, fuel = f + 1 := ⟨fuel - 1, by omega⟩
    simp only [flushSkips, wr]
    have hc : ((n : Int) - ((k : Int) + 1) < n) := by omega
    have h3' : st.env.get "i" = some (.int ((n : Int) - ((k : Int) + 1))) := by rw [h3]; simp
    by_cases hlt : off < st.tape.size
    · simp only [hlt, dite_true, Res.bind_ok]
      have hl' : ((off : Int) < st.tape.size) := by omega
      have hw : UInt64.ofInt ((n : Int) - ((n : Int) - ((k : Int) + 1))) = UInt64.ofNat (k + 1) := by
        rw [← ofInt_nat]; congr 1; omega
      have hstep : exec1 goFuns (f + 1) (.forc [] flushCond flushPost flushBody) st =
          exec1 goFuns f (.forc [] flushCond flushPost flushBody)
            ⟨((st.env.set "off" (.int ((off : Int) + 1))).set "i" (.int ((n : Int) - k))),
              st.tape.set off (mkWord tagNop (UInt64.ofNat (k + 1))) hlt⟩ := by
        have hb : exec goFuns f flushBody st = .normal ⟨st.env.set "off" (.int ((off : Int) + 1)),
            st.tape.set off (mkWord tagNop (UInt64.ofNat (k + 1))) hlt⟩ := by
          simp [flushBody, h1, h2, h3', h4, hl', hlt, hw, mkWord, tagNop]
        have hp : exec goFuns f flushPost ⟨st.env.set "off" (.int ((off : Int) + 1)),
            st.tape.set off (mkWord tagNop (UInt64.ofNat (k + 1))) hlt⟩ = .normal
            ⟨((st.env.set "off" (.int ((off : Int) + 1))).set "i" (.int ((n : Int) - k))),
              st.tape.set off (mkWord tagNop (UInt64.ofNat (k + 1))) hlt⟩ := by
          simp [flushPost, h3']
          have : (n : Int) - ((k : Int) + 1) + 1 = n - k := by omega
          rw [this]
        rw [exec1]
        simp only [evalE, flushCond, h2, h3', binop, hc, decide_true, hb, hp]
      rw [hstep]
      have := ih ⟨((st.env.set "off" (.int ((off : Int) + 1))).set "i" (.int ((n : Int) - k))),
              st.tape.set off (mkWord tagNop (UInt64.ofNat (k + 1))) hlt⟩ (off + 1) n f (by omega) (by omega)
              (by simp) (by simp [h2]) (by simp) (by simp [h4])
      simp only [] at this
      revert this
      cases flushSkips (st.tape.set off (mkWord tagNop (UInt64.ofNat (k + 1))) hlt) (off + 1) n k with
      | ok r =>
        obtain ⟨tp, off'⟩ := r
        simp only []
        rintro ⟨st', e1, e2, e3, e4⟩
        refine ⟨st', e1, e2, e3, ?_⟩
        intro x hx1 hx2
        rw [e4 x hx1 hx2]
        simp [Ne.symm hx1, Ne.symm hx2]
      | panic => exact id
      | error _ => exact id
      | diverge => exact id
    · simp only [hlt, dite_false, Res.bind_panic]
      have : ¬ ((off : Int) < st.tape.size) := by omega
      simp [flushCond, flushBody, h1, h2, h3', h4, hc, this]

/-- the whole `for` statement against `flushSkips tape off nSkips nSkips` (`nSkips + 2` units of fuel) -/
theorem flush_for (st : St) (off n fuel : Nat) (hf : n + 2 ≤ fuel)
    (h1 : st.env.get "off" = some (.int off)) (h2 : st.env.get "nSkips" = some (.int n))
    (h4 : st.env.get "dst.lim" = some (.int st.tape.size)) :
    match flushSkips st.tape off n n with
    | .ok (tp, off') => ∃ st', exec1 goFuns fuel flushFor st = .normal st' ∧
        st'.tape = tp ∧ st'.env.get "off" = some (.int off') ∧
        (∀ x, x ≠ "off" → x ≠ "i" → st'.env.get x = st.env.get x)
    | .panic => exec1 goFuns fuel flushFor st = .panic
    | _ => False := by
  obtain ⟨f, rfl⟩ : ∃ f, fuel = f + 1 := ⟨fuel - 1, by omega⟩
  have hstep : exec1 goFuns (f + 1) flushFor st =
      exec1 goFuns f (.forc [] flushCond flushPost flushBody) ⟨st.env.set "i" (.int 0), st.tape⟩ := by
    have hi : exec goFuns f [.assign "i" (.int 0)] st = .normal ⟨st.env.set "i" (.int 0), st.tape⟩ := by simp
    rw [flushFor, exec1, hi]
  rw [hstep]
  have := flush_loop n ⟨st.env.set "i" (.int 0), st.tape⟩ off n f (Nat.le_refl _) (by omega)
    (by simp [h1]) (by simp [h2]) (by simp) (by simp [h4])
  simp only [] at this
  revert this
  cases flushSkips st.tape off n n with
  | ok r =>
    obtain ⟨tp, off'⟩ := r
    simp only []
    rintro ⟨st', e1, e2, e3, e4⟩
    refine ⟨st', e1, e2, e3, ?_⟩
    intro x hx1 hx2
    rw [e4 x hx1 hx2]
    simp [Ne.symm hx2]
  | panic => exact id
  | error _ => exact id
  | diverge => exact id

/-- the loop followed by `nSkips = 0`, when the skips fit (`off + nSkips ≤ len(dst.Tape)`: no panic) -/
theorem flush_seq (st : St) (off n fuel : Nat) (hf : n + 2 ≤ fuel) (hfit : off + n ≤ st.tape.size)
    (h1 : st.env.get "off" = some (.int off)) (h2 : st.env.get "nSkips" = some (.int n))
    (h4 : st.env.get "dst.lim" = some (.int st.tape.size)) :
    ∃ e' tp, flushSkips st.tape off n n = .ok (tp, off + n) ∧ tp.size = st.tape.size ∧
      exec goFuns fuel [flushFor, .assign "nSkips" (.int 0)] st = .normal ⟨e', tp⟩ ∧
      e'.get "off" = some (.int ((off + n : Nat) : Int)) ∧ e'.get "nSkips" = some (.int 0) ∧
      (∀ x, x ≠ "off" → x ≠ "i" → x ≠ "nSkips" → e'.get x = st.env.get x) := by
  obtain ⟨tp, hfl, hsz⟩ := flushSkips_ok st.tape off n n hfit
  have := flush_for st off n fuel hf h1 h2 h4
  rw [hfl] at this
  obtain ⟨st', e1, e2, e3, e4⟩ := this
  refine ⟨st'.env.set "nSkips" (.int 0), tp, hfl, hsz, ?_, ?_, ?_, ?_⟩
  · rw [exec, e1]
    simp [← e2]
  · simp [e3]
  · simp
  · intro x hx1 hx2 hx3
    simp [Ne.symm hx3, e4 x hx1 hx2]

end SJ.GoRebuild
