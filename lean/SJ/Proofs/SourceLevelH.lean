import SJ.Proofs.SourceLevelG
set_option linter.unusedVariables false
/-
The premise `hdef` of `SourceLevelG.source_map_of_document` derived from `Ok`.

`GoInterfaceRec` ties the regenerated `Iter.Interface` / `Array.Interface` / `Object.Map` to the FRAGMENT
`interfaceV` / `arrV` / `mapV` of the hand model: the hand model with three cuts that answer `.diverge`
(1: the Root and None branches of `Interface`; 2: an `Object.Map` step whose fuel is below `lim - off + 1`;
3: the Object branch on an iterator whose offset is ≥ 2^63).  Here:

* `fragment_family`: the induction of `Lookup.interface_family` (on the fuel, by cases on the layout `LVal` / `LMems` / `LVals`)
  redone for the fragment: on a tape that denotes a tight located value (`Ok`, `Tight`), with the same fuel bounds, the
  fragment answers `.ok (toIVal v)` — it never reaches one of its cuts: the tag of every value below an `Ok` node comes from
  `Ok` (never Root, never None), a fuel above `2·(lim - off) + 1` leaves `lim - off + 1` for `NextElementBytes`, and every
  offset carries a tape word, so it is below `tape.size < 2^63`.
* `mapV_spec_fuelOf`, `mapV_defined`: with `fuelOf pj = 2·tape.size + 16` the fragment is `.ok …`, so not `.diverge`.
* `fragment_eq_model_*`: on such tapes the fragment and the hand model are EQUAL (not only `Agrees`).
* `source_map_of_document_full`: `source_map_of_document` without `hdef`.

The only hypothesis besides `Ok` / `TightMs` is `pj.tape.size < 2^63` (cut 3; the source tie needs it anyway).
-/
namespace SJ.SourceLevelH
open SJ SJ.Generated SJ.GoSem SJ.GoIter SJ.GoObject
open SJ.GoInterface (interfaceV arrV mapV interfaceV_uint interfaceV_int interfaceV_float interfaceV_null interfaceV_array
  interfaceV_string interfaceV_object interfaceV_bool goFuel)
open SJ.Layout SJ.WalkSafe SJ.WalkLayout SJ.Lookup

/-- the fragment on a tight located value: `.ok`, the same value as the hand model (`Lookup.interface_family`), under the
    same fuel bounds; in particular none of the three cuts is reached -/
theorem fragment_family (pj : PJ) (hsz : pj.tape.size < 2^63) : ∀ fuel : Nat,
    (∀ (v : LVal) (i : Iter), Ok pj v → Tight v → OnNode pj v i → 2 * (i.lim - i.off) + 2 < fuel →
      interfaceV pj i fuel = .ok (toIVal v)) ∧
    (∀ (ms : LMems) (o : View) (acc : List (Bytes × IVal)) (hi : Nat), OkMems pj ms o.off hi → TightMs ms →
      hi < o.lim → (∃ c, word pj hi = some c ∧ tagOf c = tagObjectEnd) → 2 * (o.lim - o.off) + 1 < fuel →
      mapV pj o acc fuel = .ok ((toIMems ms).foldl (fun m kv => mapInsert m kv.1 kv.2) acc)) ∧
    (∀ (vs : LVals) (i : Iter) (acc : List IVal) (lo hi : Nat), OkElems pj vs lo hi → TightVs vs →
      hi ≤ i.lim → (hi = i.lim ∨ ∃ c, word pj hi = some c ∧ (tagOf c == tagNop) = false ∧ tagToType (tagOf c) = typeNone) →
      0 ≤ i.addNext → (i.off : Int) + i.addNext = lo → 2 * (i.lim - i.off) + 1 < fuel →
      arrV pj i acc fuel = .ok (.arr (acc.reverse ++ toIVals vs))) := by
  intro fuel
  induction fuel with
  | zero => exact ⟨fun _ _ _ _ _ h => by omega, fun _ _ _ _ _ _ _ _ h => by omega, fun _ _ _ _ _ _ _ _ _ _ _ h => by omega⟩
  | succ n ih =>
    obtain ⟨ihV, ihO, ihA⟩ := ih
    refine ⟨?_, ?_, ?_⟩
    · -- values
      intro v i hok htight ⟨hoff, ⟨w, hw, hit, hic⟩, hfin, hadd⟩ hf
      cases v with
      | null p =>
        simp only [Ok, LVal.pos] at hok hw
        obtain ⟨w', a, b⟩ := hok
        cases word_inj hw a
        rw [interfaceV_null pj i n (by rw [hit, b, tt_null])]
        rfl
      | bool bb p =>
        simp only [Ok, LVal.pos] at hok hw
        obtain ⟨w', a, b⟩ := hok
        cases word_inj hw a
        rw [interfaceV_bool pj i n (by rw [hit, b]; cases bb <;> simp only [if_true, Bool.false_eq_true, if_false, tt_true, tt_false])]
        rw [hit, b]
        cases bb
        · simp only [Bool.false_eq_true, if_false, show (tagBoolFalse == tagBoolTrue) = false from by decide, toIVal]
        · simp only [if_true, beq_self_eq_true, toIVal]
      | int x p =>
        simp only [Ok, LVal.pos, LVal.fin] at hok hw hfin hoff
        obtain ⟨w', a, b, hx⟩ := hok
        cases word_inj hw a
        rw [interfaceV_int pj i n (by rw [hit, b, tt_int])]
        unfold Iter.int
        rw [hit, b, valWord_of pj i (by omega) (by rw [hoff]; exact hx)]
        simp only [show (tagInteger == tagFloat) = false from by decide, beq_self_eq_true, if_true,
          Bool.false_eq_true, if_false, Res.bind_ok, toIVal]
      | uint x p =>
        simp only [Ok, LVal.pos, LVal.fin] at hok hw hfin hoff
        obtain ⟨w', a, b, hx⟩ := hok
        cases word_inj hw a
        rw [interfaceV_uint pj i n (by rw [hit, b, tt_uint])]
        unfold Iter.uint
        rw [hit, b, valWord_of pj i (by omega) (by rw [hoff]; exact hx)]
        simp only [show (tagUint == tagFloat) = false from by decide, show (tagUint == tagInteger) = false from by decide,
          beq_self_eq_true, if_true, Bool.false_eq_true, if_false, Res.bind_ok, toIVal]
      | float x f p =>
        simp only [Ok, LVal.pos, LVal.fin] at hok hw hfin hoff
        obtain ⟨w', a, b, hfl, hx⟩ := hok
        cases word_inj hw a
        rw [interfaceV_float pj i n (by rw [hit, b, tt_float])]
        unfold Iter.float
        rw [hit, b, valWord_of pj i (by omega) (by rw [hoff]; exact hx)]
        simp only [beq_self_eq_true, if_true, Res.bind_ok, toIVal]
      | str st p =>
        simp only [Ok, StrAt, LVal.pos, LVal.fin] at hok hw hfin hoff
        obtain ⟨w', len, a, hlen, b, hstr⟩ := hok
        cases word_inj hw a
        rw [interfaceV_string pj i n (by rw [hit, b, tt_string])]
        unfold Iter.stringBytes
        rw [hit, b, valWord_of pj i (by omega) (by rw [hoff]; exact hlen), hic]
        simp only [bne_self_eq_false, Bool.false_eq_true, if_false, Res.bind_ok, hstr, toIVal]
      | arr p e es =>
        simp only [Ok, LVal.pos, LVal.fin] at hok hw hfin hoff
        obtain ⟨hpe, ⟨w', a, b, hpl⟩, ⟨c, hc, hct, _⟩, hes⟩ := hok
        cases word_inj hw a
        rw [interfaceV_array pj i n (by rw [hit, b, tt_array])]
        unfold Iter.array
        rw [hit, b, hic, hpl]
        have hle : ¬ i.lim < e := by omega
        simp only [bne_self_eq_false, Bool.false_eq_true, if_false, hle, Res.bind_ok]
        simp only [Tight] at htight
        rw [ihA es (View.iter { lim := e, off := i.off }) [] (p + 1) (e - 1) hes htight
          (by show e - 1 ≤ e; omega) (Or.inr ⟨c, hc, by rw [hct]; decide, by rw [hct]; exact tt_arrayEnd⟩)
          (by show (0 : Int) ≤ 0; omega) (by show ((i.off : Nat) : Int) + 0 = _; omega)
          (by show 2 * (e - i.off) + 1 < n; omega)]
        simp only [toIVal, List.reverse_nil, List.nil_append]
      | obj p e ms =>
        simp only [Ok, LVal.pos, LVal.fin] at hok hw hfin hoff
        obtain ⟨hpe, ⟨w', a, b, hpl⟩, ⟨c, hc, hct, _⟩, hms⟩ := hok
        cases word_inj hw a
        -- cut 3 is not reached: the offset carries a tape word
        have hlt63 : ¬ 2^63 ≤ i.off := by have := word_lt hw; omega
        rw [interfaceV_object pj i n (by rw [hit, b, tt_object]), if_neg hlt63]
        unfold Iter.object
        rw [hit, b, hic, hpl]
        have hle : ¬ i.lim < e := by omega
        have hle2 : ¬ e < i.off := by omega
        simp only [bne_self_eq_false, Bool.false_eq_true, if_false, hle, hle2, Res.bind_ok]
        simp only [Tight] at htight
        rw [ihO ms { lim := e, off := i.off } [] (e - 1) (by rw [hoff]; exact hms) htight
          (by show e - 1 < e; omega) ⟨c, hc, hct⟩ (by show 2 * (e - i.off) + 1 < n; omega)]
        simp only [Res.bind_ok, toIVal]
    · -- objects
      intro ms o acc hi hms htight hlt ⟨c, hc, hct⟩ hf
      obtain ⟨lim, off⟩ := o
      simp only at hms hlt hf
      -- cut 2 is not reached: the fuel left covers `lim - off + 1`
      rw [mapV, if_neg (by show ¬ n < lim - off + 1; omega)]
      cases ms with
      | nil =>
        simp only [OkMems] at hms
        obtain ⟨f', hf1, hf2, he⟩ := nextElementBytes_gap_fuel pj lim hms (by omega) n (by have := hms.1; omega)
        rw [he]
        obtain ⟨f'', rfl⟩ : ∃ f'', f' = f'' + 1 := ⟨f' - 1, by omega⟩
        rw [View.nextElementBytes]
        have h1 : ¬ hi ≥ lim := by omega
        simp only [h1, if_false, rd_word hc, Res.bind_ok, hct, show (tagObjectEnd == tagString) = false from by decide,
          Bool.false_eq_true, beq_self_eq_true, if_true, toIMems, List.foldl_nil]
      | cons pk k v ms =>
        simp only [OkMems] at hms
        obtain ⟨g1, hs, g2, hok, hfin, rest⟩ := hms
        simp only [TightMs] at htight
        obtain ⟨hp, htv, htms⟩ := htight
        have hpf := pos_lt_fin v pj hok
        have hg1 := g1.1
        obtain ⟨f', hf1, hf2, he⟩ := nextElementBytes_gap_fuel pj lim g1 (by omega) n (by omega)
        rw [he]
        obtain ⟨f'', rfl⟩ : ∃ f'', f' = f'' + 1 := ⟨f' - 1, by omega⟩
        obtain ⟨w, hw, ht, hne⟩ := nextElementBytes_member pj lim pk k v f'' hs hp hok (by omega)
        rw [hne]
        -- cut 1 is not reached: the value's tag comes from `Ok`
        simp only [Res.bind_ok, tagToType_tagOfL_ne_none v, Bool.false_eq_true, if_false]
        have hin := intoNext_le pj v hok
        rw [ihV v _ hok htv ⟨rfl, ⟨w, hw, rfl, rfl⟩, Nat.le_refl _, by simp only; omega⟩ (by simp only; omega)]
        simp only [Res.bind_ok]
        rw [ihO ms { lim := lim, off := v.fin } _ hi rest htms hlt ⟨c, hc, hct⟩ (by simp only; omega)]
        simp only [toIMems, List.foldl_cons]
    · -- arrays
      intro vs i acc lo hi hvs htight hhi hend ha hlo hf
      rw [arrV]
      cases vs with
      | nil =>
        simp only [OkElems] at hvs
        obtain ⟨i', he⟩ := advance_end pj i lo hi hvs hhi hend ha hlo
        rw [he]
        simp only [Res.bind_ok, beq_self_eq_true, if_true, toIVals, List.append_nil]
      | cons v vs =>
        obtain ⟨i', he, hlim, hoff, hw, ha', hnext, rest⟩ := advance_elem pj i v vs lo hi hvs hhi ha hlo
        simp only [OkElems] at hvs
        obtain ⟨g, hok, hfin, _⟩ := hvs
        simp only [TightVs] at htight
        have hpf := pos_lt_fin v pj hok
        have hg := g.1
        rw [he]
        simp only [Res.bind_ok, tagToType_tagOfL_ne_none v, Bool.false_eq_true, if_false]
        rw [ihV v i' hok htight.1 ⟨hoff, (by obtain ⟨w, a, b, c, _⟩ := hw; exact ⟨w, a, b, c⟩), by omega, by omega⟩ (by omega)]
        simp only [Res.bind_ok]
        rw [ihA vs i' _ v.fin hi rest htight.2 (by omega) (by rw [hlim]; exact hend) ha' hnext (by omega)]
        simp only [toIVals, List.reverse_cons, List.append_assoc, List.singleton_append]

/-- the fragment `mapV` on the `Object` view of a tight object node, any fuel above `2·(e - (p+1)) + 1` -/
theorem mapV_spec (pj : PJ) (hsz : pj.tape.size < 2^63) (p e : Nat) (ms : LMems) (fuel : Nat)
    (hok : Ok pj (.obj p e ms)) (ht : TightMs ms) (hf : 2 * (e - (p + 1)) + 1 < fuel) :
    mapV pj { lim := e, off := p + 1 } [] fuel = .ok ((toIMems ms).foldl (fun m kv => mapInsert m kv.1 kv.2) []) := by
  obtain ⟨hms, hlt, hend, _, _⟩ := obj_parts hok
  exact (fragment_family pj hsz fuel).2.1 ms { lim := e, off := p + 1 } [] (e - 1) hms ht hlt hend hf

theorem mapV_spec_fuelOf (pj : PJ) (hsz : pj.tape.size < 2^63) (p e : Nat) (ms : LMems)
    (hok : Ok pj (.obj p e ms)) (ht : TightMs ms) :
    mapV pj { lim := e, off := p + 1 } [] (fuelOf pj) = .ok ((toIMems ms).foldl (fun m kv => mapInsert m kv.1 kv.2) []) := by
  obtain ⟨_, _, _, hle, _⟩ := obj_parts hok
  exact mapV_spec pj hsz p e ms _ hok ht (by have := fuelOf_gt pj e (p + 1) hle; omega)

/-- **`hdef` from `Ok`.** On a tape denoting a tight object the fragment of the model that the `Interface` tie covers is
    definite with the fuel `fuelOf pj`: no Root / None value below the object, enough fuel at every `Object.Map` step, every
    offset below 2^63. -/
theorem mapV_defined (pj : PJ) (hsz : pj.tape.size < 2^63) (p e : Nat) (ms : LMems) (hok : Ok pj (.obj p e ms))
    (ht : TightMs ms) : mapV pj { lim := e, off := p + 1 } [] (fuelOf pj) ≠ .diverge := by
  rw [mapV_spec_fuelOf pj hsz p e ms hok ht]
  intro h
  cases h

/-- on the `Object` view of a tight object node the fragment and the hand model are equal -/
theorem fragment_eq_model_map (pj : PJ) (hsz : pj.tape.size < 2^63) (p e : Nat) (ms : LMems)
    (hok : Ok pj (.obj p e ms)) (ht : TightMs ms) :
    mapV pj { lim := e, off := p + 1 } [] (fuelOf pj) = View.objMap pj { lim := e, off := p + 1 } [] (fuelOf pj) := by
  rw [mapV_spec_fuelOf pj hsz p e ms hok ht, objMap_spec_fuelOf pj p e ms hok ht]

/-- `interfaceV` on a cursor standing on a node of a tight document: definite, equal to the hand model -/
theorem interfaceV_node (pj : PJ) (hsz : pj.tape.size < 2^63) (v : LVal) (i : Iter) (hok : Ok pj v) (ht : Tight v)
    (hon : OnNode pj v i) (hl : i.lim ≤ pj.tape.size) : interfaceV pj i (fuelOf pj) = .ok (toIVal v) :=
  (fragment_family pj hsz _).1 v i hok ht hon (fuelOf_gt pj _ _ hl)

theorem fragment_eq_model_interface (pj : PJ) (hsz : pj.tape.size < 2^63) (v : LVal) (i : Iter) (hok : Ok pj v)
    (ht : Tight v) (hon : OnNode pj v i) (hl : i.lim ≤ pj.tape.size) :
    interfaceV pj i (fuelOf pj) = Iter.interface pj i (fuelOf pj) := by
  rw [interfaceV_node pj hsz v i hok ht hon hl, interface_node pj v i hok ht hon hl]

/-- **`Object.Map(nil)` of /repo on an object of a document** (`SourceLevelG.source_map_of_document` without the
    executable premise `hdef`): on a tape denoting the object `ms` (`Ok`, tight), running the regenerated `Object.Map` with
    a nil destination returns the map with every member inserted in order (the last duplicate wins, values as
    `Interface()` returns them) and leaves the tape unchanged. -/
theorem source_map_of_document_full (pj : PJ) (hb : BufOK pj) (hsz : pj.tape.size < 2^63) (p e : Nat) (ms : LMems)
    (hok : Ok pj (.obj p e ms)) (ht : TightMs ms)
    (F : Nat) (hF : goFuel pj (fuelOf pj) ≤ F) :
    ∃ s, runFun goFuns goObject_Map F
        ⟨[("o.off", .int ((p + 1 : Nat) : Int)), ("o.lim", .int (e : Int)), ("dst", .iface (.obj [])), ("dst==nil", .bool true)] ++
          bufEnv pj, pj.tape⟩ =
      .ret s [.iface (.obj ((toIMems ms).foldl (fun m kv => mapInsert m kv.1 kv.2) [])), .bool false] ∧
      s.tape = pj.tape :=
  SJ.SourceLevelG.source_map_of_document pj hb hsz p e ms hok ht (mapV_defined pj hsz p e ms hok ht) F hF

set_option maxRecDepth 8192 in
/-- **`Interface()` of /repo on a node of a document.** On a tape denoting the value `v` (`Ok`, tight) with the iterator
    standing on it, running the regenerated `Iter.Interface` returns `toIVal v` — objects as maps with the last
    duplicate winning, arrays in order, numbers by their tag — with a nil error, the tape unchanged and the iterator
    where it was. No function of the hand model in the conclusion. -/
theorem source_interface_of_node (pj : PJ) (hb : BufOK pj) (hsz : pj.tape.size < 2^63) (v : LVal) (i : Iter)
    (hok : Ok pj v) (ht : Tight v) (hon : OnNode pj v i) (hl : i.lim ≤ pj.tape.size)
    (F : Nat) (hF : goFuel pj (fuelOf pj) ≤ F) :
    ∃ s, runFun goFuns goIter_Interface F ⟨envOf "i" i ++ bufEnv pj, pj.tape⟩ =
      .ret s [.iface (toIVal v), .bool false] ∧ s.tape = pj.tape ∧ iterAt s.env "i" = some i := by
  have h := (SJ.GoInterface.go_interface_source_tie pj hb hsz (fuelOf pj) F hF).1 i hl
  rw [interfaceV_node pj hsz v i hok ht hon hl] at h
  obtain ⟨s, h1, h2, h3⟩ := h
  exact ⟨s, h1, h2.1, h3⟩

end SJ.SourceLevelH

#print axioms SJ.SourceLevelH.fragment_family
#print axioms SJ.SourceLevelH.mapV_defined
#print axioms SJ.SourceLevelH.fragment_eq_model_map
#print axioms SJ.SourceLevelH.source_map_of_document_full
