import SJ.Proofs.GoApi
import SJ.Generated.GoSrc
set_option linter.unusedVariables false
set_option maxRecDepth 4096
/-
`Iter.Interface` of /repo, as regenerated into `Generated/GoSrc.lean` (`goIter_Interface`), against the hand model
`Iter.interface` (`Model/Object.lean`) — part 1: the branches that do not recurse.  (Part 2, the mutual recursion with
`Array.Interface` and `Object.Map`: `Proofs/GoInterfaceRec.lean`, theorem `go_interface_source_tie`.)

`interface_leaf_abs` / `go_interface_leaf_source_tie`: for every tape, every iterator whose type (`TagToType[i.t]`) is not
Array, Object, Root or None — i.e. Uint, Int, Float, Null, String, Bool, or a value the table does not produce — and any
fuel ≥ 4, running the regenerated tree returns what the model computes: `.ok v` ⇔ `(v, nil)`, `.error` ⇔ a non-nil error,
`.panic` ⇔ panic; never stuck, never out of fuel; tape, buffers and receiver unchanged.  Hypotheses: `BufOK` (buffer
lengths below 2^63) and the view inside the tape.  `boxed_return`: the two statements the printer writes for
`return i.Uint()` (results taken, the first converted to `interface{}`, returned).
-/
namespace SJ.GoInterface
open SJ SJ.GoSem SJ.Generated SJ.GoIter SJ.GoObject SJ.GoMarshal

/-- `Interface()` on the frame: model `.ok v` ⇔ `(v, nil)`; `.error` ⇔ `(_, non-nil)`; panic ⇔ panic; never stuck or
    out of fuel; the document and the receiver are as before -/
def SimI (pj : PJ) (j : Iter) (o : Out) : Res IVal → Prop
  | .ok v => ∃ s, o = .ret s [.iface v, .bool false] ∧ Keeps pj s ∧ iterAt s.env "i" = some j
  | .error _ => ∃ s x, o = .ret s [.iface x, .bool true] ∧ Keeps pj s ∧ iterAt s.env "i" = some j
  | .panic => o = .panic
  | .diverge => False

def liftRes {α : Type} (emb : α → IVal) : Res α → Res IVal
  | .ok a => .ok (emb a)
  | .error e => .error e
  | .panic => .panic
  | .diverge => .diverge

theorem SimI.out {pj : PJ} {j : Iter} {o : Out} {r : Res IVal} (h : SimI pj j o r) :
    (∃ s vs, o = .ret s vs) ∨ o = .panic := by
  cases r with
  | ok v => obtain ⟨s, h1, _⟩ := h; exact .inl ⟨s, _, h1⟩
  | error e => obtain ⟨s, x, h1, _⟩ := h; exact .inl ⟨s, _, h1⟩
  | panic => exact .inr h
  | diverge => exact h.elim

/-- `return i.fn()` where the first result becomes an `interface{}`: the two statements the printer writes for it -/
theorem boxed_return {α : Type} (pj : PJ) (s : St) (j : Iter) (fn : String) (body : List Stmt) (enc : α → Val) (zero : Val)
    (k : IKind) (emb : α → IVal) (z : IVal) (hbox : ∀ a, boxVal k (enc a) = some (emb a)) (hz : boxVal k zero = some z)
    (t1 t2 : String) (h1 : (t1 == "_") = false) (h2 : (t2 == "_") = false) (h12 : t2 ≠ t1)
    (ht1 : t1 ∉ fieldsOf "i") (ht2 : t2 ∉ fieldsOf "i") (hb1 : t1 ≠ "Strings.B") (hb2 : t2 ≠ "Strings.B")
    (hm1 : t1 ≠ "Message") (hm2 : t2 ≠ "Message")
    (f : Nat) (r : Res α)
    (hfn : goFuns fn = some { recv := "i", params := [], body := body })
    (hsim : SimRK pj j enc zero
      (runFun goFuns { recv := "i", params := [], body := body } f ⟨envOf "i" j ++ bufEnv pj, pj.tape⟩) r)
    (hI : iterAt s.env "i" = some j) (hK : Keeps pj s) :
    SimI pj j (exec goFuns (f + 1) [.callAssign [t1, t2] "i" fn [] [], .ret [.box k (.v t1), .v t2]] s)
      (liftRes emb r) := by
  have hc := call_val pj s j fn body enc zero t1 t2 h1 h2 f r hfn hsim hI hK
  have hkeep : ∀ x y, Keeps pj ⟨((afterCall s.env pj j).set t1 x).set t2 y, pj.tape⟩ := by
    intro x y
    refine ⟨rfl, ?_, ?_⟩
    · simp only []
      rw [Env.get_set_ne _ _ hb2, Env.get_set_ne _ _ hb1]
      simp [afterCall, Env.get_set]
    · simp only []
      rw [Env.get_set_ne _ _ hm2, Env.get_set_ne _ _ hm1]
      simp [afterCall, Env.get_set]
  have hit : ∀ x y, iterAt (((afterCall s.env pj j).set t1 x).set t2 y) "i" = some j := by
    intro x y
    rw [iterAt_set_ne _ _ _ _ ht2, iterAt_set_ne _ _ _ _ ht1]
    unfold afterCall
    rw [iterAt_set_ne _ _ _ _ (by decide), iterAt_set_ne _ _ _ _ (by decide)]
    exact iterAt_setIter_i _ _
  rw [exec]
  cases r with
  | ok a =>
    simp only [CallPost] at hc
    rw [hc]
    simp only [exec, exec1, evalEs, evalE, Env.get_set_self, Env.get_set_ne _ _ h12, hbox]
    exact ⟨_, rfl, hkeep _ _, hit _ _⟩
  | error er =>
    simp only [CallPost] at hc
    rw [hc]
    simp only [exec, exec1, evalEs, evalE, Env.get_set_self, Env.get_set_ne _ _ h12, hz]
    exact ⟨_, _, rfl, hkeep _ _, hit _ _⟩
  | panic =>
    simp only [CallPost] at hc
    rw [hc]
    rfl
  | diverge => exact hc.elim


theorem isOneOf_u8 (ty c : UInt8) : isOneOf (.u8 ty) [.u8 c] = decide (c = ty) := by
  simp only [isOneOf, Bool.or_false]
  rw [show (Val.u8 c == Val.u8 ty) = decide (Val.u8 c = Val.u8 ty) from rfl]
  simp

theorem interface_uint (pj : PJ) (i : Iter) (fuel : Nat) (h : tagToType i.t = typeUint) :
    Iter.interface pj i (fuel + 1) = (do let n ← i.uint pj; .ok (.uint n)) := by
  rw [Iter.interface]; simp only [h]; rfl
theorem interface_int (pj : PJ) (i : Iter) (fuel : Nat) (h : tagToType i.t = typeInt) :
    Iter.interface pj i (fuel + 1) = (do let n ← i.int pj; .ok (.int n)) := by
  rw [Iter.interface]; simp only [h]; rfl
theorem interface_float (pj : PJ) (i : Iter) (fuel : Nat) (h : tagToType i.t = typeFloat) :
    Iter.interface pj i (fuel + 1) = (do let b ← i.float pj; .ok (.float b)) := by
  rw [Iter.interface]; simp only [h]; rfl
theorem interface_null (pj : PJ) (i : Iter) (fuel : Nat) (h : tagToType i.t = typeNull) :
    Iter.interface pj i (fuel + 1) = .ok .null := by
  rw [Iter.interface]; simp only [h]; rfl
theorem interface_string (pj : PJ) (i : Iter) (fuel : Nat) (h : tagToType i.t = typeString) :
    Iter.interface pj i (fuel + 1) = (do let s ← i.stringBytes pj; .ok (.str s)) := by
  rw [Iter.interface]; simp only [h]; rfl
theorem interface_bool (pj : PJ) (i : Iter) (fuel : Nat) (h : tagToType i.t = typeBool) :
    Iter.interface pj i (fuel + 1) = .ok (.bool (i.t == tagBoolTrue)) := by
  rw [Iter.interface]; simp only [h]; rfl
theorem interface_other (pj : PJ) (i : Iter) (fuel : Nat) (h0 : tagToType i.t ≠ 0) (h1 : tagToType i.t ≠ 1)
    (h2 : tagToType i.t ≠ 2) (h3 : tagToType i.t ≠ 3) (h4 : tagToType i.t ≠ 4) (h5 : tagToType i.t ≠ 5)
    (h6 : tagToType i.t ≠ 6) (h7 : tagToType i.t ≠ 7) (h8 : tagToType i.t ≠ 8) (h9 : tagToType i.t ≠ 9) :
    Iter.interface pj i (fuel + 1) = .error .generic := by
  rw [Iter.interface]
  simp [typeUint, typeInt, typeFloat, typeNull, typeArray, typeString, typeObject, typeBool, typeRoot, typeNone, *]

/-- `String()` in the form `boxed_return` wants -/
theorem string_simK (pj : PJ) (i : Iter) (hl : i.lim ≤ pj.tape.size) (hb : BufOK pj) (fuel : Nat) (hf : 2 ≤ fuel) :
    SimRK pj i Val.bytes (.bytes #[])
      (runFun goFuns { recv := "i", params := [], body := goIter_String.body } fuel ⟨envOf "i" i ++ bufEnv pj, pj.tape⟩)
      (i.stringBytes pj) := by
  have h := GoApi.string_sim pj i (envOf "i" i ++ bufEnv pj) hl hb fuel hf (frame_iter pj i) (frame_keeps pj i).2.1
    (frame_keeps pj i).2.2
  have hc : ∀ e' : Env, (∀ k, e'.get k = (envOf "i" i ++ bufEnv pj).get k) → iterAt e' "i" = some i := by
    intro e' hk
    rw [iterAt_congr _ e' "i" (fun k _ => hk k)]
    exact frame_iter pj i
  change SimBytes pj _ (runFun goFuns { recv := "i", params := [], body := goIter_String.body } fuel _) _ at h
  cases hr : i.stringBytes pj <;> rw [hr] at h
  · obtain ⟨s, h1, h2, h3⟩ := h; exact ⟨s, h1, h2, hc _ h3⟩
  · obtain ⟨s, h1, h2, h3⟩ := h; exact ⟨s, h1, h2, hc _ h3⟩
  · exact h
  · exact h

/-- the regenerated `Iter.Interface` on an iterator whose type is not Array, Object, Root or None, on any store that
    holds the receiver and the document -/
theorem interface_leaf_abs (pj : PJ) (hb : BufOK pj) (s : GoSem.St) (i : Iter) (hI' : iterAt s.env "i" = some i)
    (hK : Keeps pj s) (hl : i.lim ≤ pj.tape.size)
    (hA : tagToType i.t ≠ typeArray) (hO : tagToType i.t ≠ typeObject) (hR : tagToType i.t ≠ typeRoot)
    (hN : tagToType i.t ≠ typeNone) (f m : Nat) (hf : 3 ≤ f) :
    SimI pj i (exec goFuns (f + 1) goIter_Interface.body s) (Iter.interface pj i (m + 1)) := by
  have hget' : s.env.get "i.t" = some (.u8 i.t) := (iterAt_get_i _ _ hI').2.2.2.1
  have htag : evalE s (.tbl "TagToType" (.v "i.t")) = .val (.u8 (tagToType i.t)) := by
    simp only [evalE, hget', tblLookup]
    rfl
  simp only [typeArray, typeObject, typeRoot, typeNone] at hA hO hR hN
  rw [goIter_Interface]
  simp only []
  rw [exec, exec1, htag]
  simp only [execCases, evalEs, evalE, isOneOf_u8, UInt8.reduceOfNat]
  by_cases h4 : tagToType i.t = 4
  · -- Uint
    rw [interface_uint pj i m h4]
    simp (config := { decide := true }) only [h4, if_true, if_false, decide_true, decide_false, Bool.false_eq_true]
    have hfn : goFuns "Iter.Uint" = some { recv := "i", params := [], body := goIter_Uint.body } := rfl
    have hb' := boxed_return pj s i "Iter.Uint" goIter_Uint.body (fun n => Val.u64 (UInt64.ofNat n)) (.u64 0) .uint
      (fun n => .uint (UInt64.ofNat n).toNat) (.uint 0) (fun a => rfl) rfl "#r1" "#r2" (by decide) (by decide) (by decide)
      (by decide) (by decide) (by decide) (by decide) (by decide) (by decide) f (i.uint pj) hfn (uint_simK pj i f) hI' hK
    have he : liftRes (fun n => IVal.uint (UInt64.ofNat n).toNat) (i.uint pj) = (do let n ← i.uint pj; .ok (.uint n)) := by
      cases hr : i.uint pj with
      | ok n =>
        have hn := GoNum.uint_lt pj i n hr
        have : (UInt64.ofNat n).toNat = n := by simp [UInt64.toNat_ofNat']; omega
        simp only [liftRes, this]; rfl
      | error er => rfl
      | panic => rfl
      | diverge => rfl
    rw [he] at hb'
    rcases hb'.out with ⟨s1, vs, h1⟩ | h1 <;> rw [h1] at hb' ⊢ <;> exact hb'
  have h4' : (4 : UInt8) ≠ tagToType i.t := Ne.symm h4
  by_cases h3 : tagToType i.t = 3
  · -- Int
    rw [interface_int pj i m h3]
    simp (config := { decide := true }) only [h3, if_true, if_false, decide_true, decide_false, Bool.false_eq_true]
    have hfn : goFuns "Iter.Int" = some { recv := "i", params := [], body := goIter_Int.body } := rfl
    have hb' := boxed_return pj s i "Iter.Int" goIter_Int.body Val.int (.int 0) .int IVal.int (.int 0) (fun a => rfl) rfl
      "#r3" "#r4" (by decide) (by decide) (by decide) (by decide) (by decide) (by decide) (by decide) (by decide)
      (by decide) f (i.int pj) hfn (int_simK pj i f) hI' hK
    have he : liftRes IVal.int (i.int pj) = (do let n ← i.int pj; .ok (.int n)) := by
      cases i.int pj <;> rfl
    rw [he] at hb'
    rcases hb'.out with ⟨s1, vs, h1⟩ | h1 <;> rw [h1] at hb' ⊢ <;> exact hb'
  have h3' : (3 : UInt8) ≠ tagToType i.t := Ne.symm h3
  by_cases h5 : tagToType i.t = 5
  · -- Float
    rw [interface_float pj i m h5]
    simp (config := { decide := true }) only [h5, if_true, if_false, decide_true, decide_false, Bool.false_eq_true]
    have hfn : goFuns "Iter.Float" = some { recv := "i", params := [], body := goIter_Float.body } := rfl
    have hb' := boxed_return pj s i "Iter.Float" goIter_Float.body Val.u64 (.u64 0) .float IVal.float (.float 0) (fun a => rfl) rfl
      "#r5" "#r6" (by decide) (by decide) (by decide) (by decide) (by decide) (by decide) (by decide) (by decide)
      (by decide) f (i.float pj) hfn (float_simK pj i f) hI' hK
    have he : liftRes IVal.float (i.float pj) = (do let n ← i.float pj; .ok (.float n)) := by
      cases i.float pj <;> rfl
    rw [he] at hb'
    rcases hb'.out with ⟨s1, vs, h1⟩ | h1 <;> rw [h1] at hb' ⊢ <;> exact hb'
  have h5' : (5 : UInt8) ≠ tagToType i.t := Ne.symm h5
  by_cases h1 : tagToType i.t = 1
  · -- Null
    rw [interface_null pj i m h1]
    simp (config := { decide := true }) only [h1, if_true, if_false, decide_true, decide_false, Bool.false_eq_true, exec, exec1,
      evalEs, evalE]
    exact ⟨s, rfl, hK, hI'⟩
  have h1' : (1 : UInt8) ≠ tagToType i.t := Ne.symm h1
  have h8' : (8 : UInt8) ≠ tagToType i.t := Ne.symm hA
  by_cases h2 : tagToType i.t = 2
  · -- String
    rw [interface_string pj i m h2]
    simp (config := { decide := true }) only [h2, if_true, if_false, decide_true, decide_false, Bool.false_eq_true]
    have hfn : goFuns "Iter.String" = some { recv := "i", params := [], body := goIter_String.body } := rfl
    have hb' := boxed_return pj s i "Iter.String" goIter_String.body Val.bytes (.bytes #[]) .str IVal.str (.str #[]) (fun a => rfl) rfl
      "#r7" "#r8" (by decide) (by decide) (by decide) (by decide) (by decide) (by decide) (by decide) (by decide)
      (by decide) f (i.stringBytes pj) hfn (string_simK pj i hl hb f (by omega)) hI' hK
    have he : liftRes IVal.str (i.stringBytes pj) = (do let n ← i.stringBytes pj; .ok (.str n)) := by
      cases i.stringBytes pj <;> rfl
    rw [he] at hb'
    rcases hb'.out with ⟨s1, vs, h1⟩ | h1 <;> rw [h1] at hb' ⊢ <;> exact hb'
  have h2' : (2 : UInt8) ≠ tagToType i.t := Ne.symm h2
  have h7' : (7 : UInt8) ≠ tagToType i.t := Ne.symm hO
  by_cases h6 : tagToType i.t = 6
  · -- Bool
    rw [interface_bool pj i m h6]
    simp (config := { decide := true }) only [h6, if_true, if_false, decide_true, decide_false, Bool.false_eq_true, exec, exec1,
      evalEs, evalE, hget', binop, boxVal, UInt8.reduceOfNat]
    exact ⟨s, rfl, hK, hI'⟩
  have h6' : (6 : UInt8) ≠ tagToType i.t := Ne.symm h6
  have h9' : (9 : UInt8) ≠ tagToType i.t := Ne.symm hR
  have h0' : (0 : UInt8) ≠ tagToType i.t := Ne.symm hN
  -- no case: the error after the switch
  rw [interface_other pj i m hN h1 h2 h3 h4 h5 h6 hO hA hR]
  simp (config := { decide := true }) only [h4', h3', h5', h1', h8', h2', h7', h6', h9', h0', if_true, if_false, decide_true,
    decide_false, Bool.false_eq_true, exec, exec1, evalEs, evalE]
  exact ⟨s, _, rfl, hK, hI'⟩

/-- … in particular on the conventional frame, through `runFun` -/
theorem go_interface_leaf_source_tie (pj : PJ) (hb : BufOK pj) (i : Iter) (hl : i.lim ≤ pj.tape.size)
    (hA : tagToType i.t ≠ typeArray) (hO : tagToType i.t ≠ typeObject) (hR : tagToType i.t ≠ typeRoot)
    (hN : tagToType i.t ≠ typeNone) (fuel mf : Nat) (hf : 4 ≤ fuel) (hm : 1 ≤ mf) :
    SimI pj i (runFun goFuns goIter_Interface fuel ⟨envOf "i" i ++ bufEnv pj, pj.tape⟩) (Iter.interface pj i mf) := by
  obtain ⟨f, rfl⟩ : ∃ f, fuel = f + 1 := ⟨fuel - 1, by omega⟩
  obtain ⟨m, rfl⟩ : ∃ m, mf = m + 1 := ⟨mf - 1, by omega⟩
  have h := interface_leaf_abs pj hb ⟨envOf "i" i ++ bufEnv pj, pj.tape⟩ i (frame_iter pj i) (frame_keeps pj i) hl hA hO hR hN
    f m (by omega)
  rw [runFun]
  rcases h.out with ⟨s1, vs, h1⟩ | h1 <;> rw [h1] at h ⊢ <;> exact h

#print axioms go_interface_leaf_source_tie

end SJ.GoInterface
