import SJ.Proofs.Located
import SJ.Model.WFDense
set_option linter.unusedVariables false
/-
C17 — the executable tape-format checker decides the documented format, and the decoder is the
abstraction function.

Finding.  For the model's `decodeTape`/`wfCheck` (SJ/Model/WF.lean) the statement
`wfCheck pj = true ↔ ∃ d, WF pj d` is FALSE (`chain_checker_unsound`, `wfCheck_iff_false`): `skipNops`
follows the chain of skip counts and never inspects the words it jumps over, whereas `Layout.Gap`
requires every word of a gap to be a NOP with `1 ≤ skip` staying inside the gap.  Only the direction
`(∃ d, WF pj d) → wfCheck pj = true` holds for it (`decodeTape_complete`, `wfCheck_of_wf`).

The dense decoder `decodeTapeD` of SJ/Proofs/DecodeDenseDefs.lean (the model's text with `skipNops`
replaced by `skipNopsD`, which verifies every word of the gap) is proved exact here, for all tapes:

  skipNopsD_iff          skipNopsD pj.tape i e = some q ↔ Gap pj i q ∧ q ≤ e ∧ (q = e ∨ word q is not a NOP)
  decodeTapeD_sound      decodeTapeD pj = some ds → ∃ d, WF pj d ∧ ds = d.map toOVal
  decodeTapeD_complete   WF pj d → decodeTapeD pj = some (d.map toOVal)        (fuel `size + 1` suffices)
  decodeTapeD_iff, wfCheckD_iff   wfCheckD pj = true ↔ ∃ d, WF pj d
  wf_unique, valAt_unique          a tape (a value region) denotes one document (value)
  ok_decValueD, ok_decValue        located trees: the decoder at `lv.pos` returns `toOVal (erase lv)` and `lv.fin`
  decodeTape_of_decodeTapeD        dense accepts ⊆ chain accepts, same result

`contBody`, `valBody`, `contBodyG`, `valShape` are proof-side factorings of the body of `decValueD`/`decValue`;
they are proved equal to the model text (`decValueD_succ`, `decValueD_shape`, `decValue_shape`, by `rfl`) and
the theorems above are about the model-side functions themselves.
-/

namespace SJ.DecodeSound
open SJ SJ.Generated SJ.Layout

-- the abstraction target -----------------------------------------------------------------------------------

mutual
/-- ordered values of an abstract document -/
def toOVal : JVal → OVal
  | .null => .null
  | .bool b => .bool b
  | .int w => .int (toInt64 w)
  | .uint w => .uint w.toNat
  | .float b f => .float b f
  | .str s => .str s.toArray
  | .arr es => .arr (toOVals es)
  | .obj ms => .obj (toOMems ms)
def toOVals : JVals → List OVal
  | .nil => []
  | .cons v vs => toOVal v :: toOVals vs
def toOMems : JMems → List (Bytes × OVal)
  | .nil => []
  | .cons k v ms => (k.toArray, toOVal v) :: toOMems ms
end

theorem toInt64_inj {x y : UInt64} (h : toInt64 x = toInt64 y) : x = y := by
  have hx := x.toNat_lt
  have hy := y.toNat_lt
  apply UInt64.toNat_inj.mp
  unfold toInt64 at h
  split at h <;> split at h <;> omega

mutual
theorem toOVal_inj : ∀ v v' : JVal, toOVal v = toOVal v' → v = v'
  | .null, v', h => by cases v' <;> simp_all [toOVal]
  | .bool b, v', h => by cases v' <;> simp_all [toOVal]
  | .int w, v', h => by
    cases v' <;> simp only [toOVal, OVal.int.injEq, reduceCtorEq] at h
    rw [toInt64_inj h]
  | .uint w, v', h => by
    cases v' <;> simp only [toOVal, OVal.uint.injEq, reduceCtorEq] at h
    rw [UInt64.toNat_inj.mp h]
  | .float b f, v', h => by cases v' <;> simp_all [toOVal]
  | .str s, v', h => by cases v' <;> simp_all [toOVal]
  | .arr es, v', h => by
    cases v' <;> simp only [toOVal, OVal.arr.injEq, reduceCtorEq] at h
    rw [toOVals_inj _ _ h]
  | .obj ms, v', h => by
    cases v' <;> simp only [toOVal, OVal.obj.injEq, reduceCtorEq] at h
    rw [toOMems_inj _ _ h]
theorem toOVals_inj : ∀ vs vs' : JVals, toOVals vs = toOVals vs' → vs = vs'
  | .nil, vs', h => by cases vs' <;> simp_all [toOVals]
  | .cons v vs, vs', h => by
    cases vs' with
    | nil => simp [toOVals] at h
    | cons v' vs' =>
      simp only [toOVals, List.cons.injEq] at h
      rw [toOVal_inj _ _ h.1, toOVals_inj _ _ h.2]
theorem toOMems_inj : ∀ ms ms' : JMems, toOMems ms = toOMems ms' → ms = ms'
  | .nil, ms', h => by cases ms' <;> simp_all [toOMems]
  | .cons k v ms, ms', h => by
    cases ms' with
    | nil => simp [toOMems] at h
    | cons k' v' ms' =>
      simp only [toOMems, List.cons.injEq, Prod.mk.injEq] at h
      have hk : k = k' := by simpa using h.1.1
      rw [toOVal_inj _ _ h.1.2, toOMems_inj _ _ h.2, hk]
end

theorem map_toOVal_inj : ∀ d d' : List JVal, d.map toOVal = d'.map toOVal → d = d'
  | [], d', h => by cases d' <;> simp_all
  | v :: d, d', h => by
    cases d' with
    | nil => simp at h
    | cons v' d' =>
      simp only [List.map_cons, List.cons.injEq] at h
      rw [toOVal_inj _ _ h.1, map_toOVal_inj _ _ h.2]


-- words ----------------------------------------------------------------------------------------------------

theorem getD_of_some {tape : Array UInt64} {k : Nat} {w : UInt64} (h : tape[k]? = some w) : tape.getD k 0 = w := by
  rw [Array.getD_eq_getD_getElem?, h]; rfl

theorem tagOf_zero : tagOf (0 : UInt64) = 0 := by rfl

/-- a word read with the default `0` whose tag is not `0` is a real tape word -/
theorem some_of_tag_ne_zero {tape : Array UInt64} {k : Nat} (h : tagOf (tape.getD k 0) ≠ 0) :
    tape[k]? = some (tape.getD k 0) := by
  rw [Array.getD_eq_getD_getElem?] at h ⊢
  cases hk : tape[k]? with
  | some w => rfl
  | none => rw [hk] at h; exact absurd tagOf_zero h

theorem lt_size_of_tag_ne_zero {tape : Array UInt64} {k : Nat} (h : tagOf (tape.getD k 0) ≠ 0) : k < tape.size := by
  have := some_of_tag_ne_zero h
  exact (Array.getElem?_eq_some_iff.mp this).1

-- skipNopsD decides Gap ---------------------------------------------------------------------------------------

/-- the word at `k` is a NOP whose skip is ≥ 1 and stays at or below `q` -/
def NopAt (tape : Array UInt64) (k q : Nat) : Prop :=
  ∃ w, tape[k]? = some w ∧ tagOf w = tagNop ∧ 1 ≤ (payloadOf w).toNat ∧ k + (payloadOf w).toNat ≤ q

theorem gap_iff (pj : PJ) (p q : Nat) : Gap pj p q ↔ p ≤ q ∧ ∀ k, p ≤ k → k < q → NopAt pj.tape k q := Iff.rfl

theorem scan_sound (tape : Array UInt64) (e : Nat) : ∀ fuel k m q, scanNops tape e k m fuel = some q →
    k ≤ q ∧ q ≤ e ∧ m ≤ q ∧ (∀ j, k ≤ j → j < q → NopAt tape j q) ∧ (q = e ∨ tagOf (tape.getD q 0) ≠ tagNop)
  | 0, k, m, q, h => by simp [scanNops] at h
  | fuel + 1, k, m, q, h => by
    rw [scanNops] at h
    split at h
    · exact absurd h (by simp)
    split at h
    · rename_i hke
      have hke : k = e := by simpa using hke
      split at h
      · have : k = q := by simpa using h
        subst this
        exact ⟨Nat.le_refl _, by omega, by omega, fun j a b => by omega, Or.inl hke⟩
      · exact absurd h (by simp)
    simp only at h
    split at h
    · rename_i hnop
      have hnop : tagOf (tape.getD k 0) = tagNop := by simpa using hnop
      split at h
      · exact absurd h (by simp)
      rename_i hs
      have hs : (payloadOf (tape.getD k 0)).toNat ≠ 0 := by simpa using hs
      obtain ⟨h1, h2, h3, h4, h5⟩ := scan_sound tape e fuel _ _ q h
      refine ⟨by omega, h2, by omega, fun j a b => ?_, h5⟩
      by_cases hj : j = k
      · subst hj
        exact ⟨tape.getD j 0, some_of_tag_ne_zero (by rw [hnop]; decide), hnop, by omega, by omega⟩
      · exact h4 j (by omega) b
    · rename_i hnop
      have hnop : tagOf (tape.getD k 0) ≠ tagNop := by simpa using hnop
      split at h
      · have : k = q := by simpa using h
        subst this
        exact ⟨Nat.le_refl _, by omega, by omega, fun j a b => by omega, Or.inr hnop⟩
      · exact absurd h (by simp)

theorem scan_complete (tape : Array UInt64) (e : Nat) : ∀ fuel k m q, k ≤ q → q ≤ e → m ≤ q →
    (∀ j, k ≤ j → j < q → NopAt tape j q) → (q = e ∨ tagOf (tape.getD q 0) ≠ tagNop) → e + 1 - k ≤ fuel →
    scanNops tape e k m fuel = some q
  | 0, k, m, q, h1, h2, h3, h4, h5, h6 => by omega
  | fuel + 1, k, m, q, h1, h2, h3, h4, h5, h6 => by
    rw [scanNops]
    rw [if_neg (by omega)]
    by_cases hke : k = e
    · have : q = k := by omega
      subst this
      rw [if_pos (by simpa using hke), if_pos h3]
    rw [if_neg (by simpa using hke)]
    simp only
    by_cases hkq : k = q
    · subst hkq
      have hn : tagOf (tape.getD k 0) ≠ tagNop := by
        cases h5 with
        | inl h => exact absurd h hke
        | inr h => exact h
      rw [if_neg (by simpa using hn), if_pos h3]
    · obtain ⟨w, hw, ht, hs1, hs2⟩ := h4 k (Nat.le_refl _) (by omega)
      rw [getD_of_some hw, if_pos (by simpa using ht), if_neg (by simp; omega)]
      exact scan_complete tape e fuel (k + 1) _ q (by omega) h2 (by omega) (fun j a b => h4 j (by omega) b) h5 (by omega)

/-- `skipNopsD` decides the gap relation: it returns `q` iff `[i, q)` is a gap that ends at the bound or at a live word -/
theorem skipNopsD_iff (pj : PJ) (i e q : Nat) :
    skipNopsD pj.tape i e = some q ↔ (Gap pj i q ∧ q ≤ e ∧ (q = e ∨ tagOf (pj.tape.getD q 0) ≠ tagNop)) := by
  unfold skipNopsD
  constructor
  · intro h
    obtain ⟨h1, h2, h3, h4, h5⟩ := scan_sound pj.tape e _ _ _ _ h
    exact ⟨⟨h1, h4⟩, h2, h5⟩
  · rintro ⟨⟨h1, h4⟩, h2, h5⟩
    exact scan_complete pj.tape e _ _ _ _ h1 h2 h1 h4 h5 (Nat.le_refl _)


-- soundness of the dense decoder ------------------------------------------------------------------------------

theorem some_of_lt {tape : Array UInt64} {k : Nat} (h : k < tape.size) : tape[k]? = some (tape.getD k 0) := by
  rw [Array.getD_eq_getD_getElem?, Array.getElem?_eq_getElem h]; rfl

def ElemsSound (pj : PJ) (fuel : Nat) : Prop :=
  ∀ i e acc r, e ≤ pj.tape.size → decElemsD pj i e acc fuel = some r →
    ∃ vs, ElemsAt pj vs i e ∧ r = acc.reverse ++ toOVals vs
def MemsSound (pj : PJ) (fuel : Nat) : Prop :=
  ∀ i e acc r, e ≤ pj.tape.size → decMembersD pj i e acc fuel = some r →
    ∃ ms, MemsAt pj ms i e ∧ r = acc.reverse ++ toOMems ms
def ValSound (pj : PJ) (fuel : Nat) : Prop :=
  ∀ i e ov n, e ≤ pj.tape.size → decValueD pj i e fuel = some (ov, n) →
    ∃ v, ValAt pj v i n ∧ n ≤ e ∧ ov = toOVal v

/-- body of `decValueD` for a container start word (proof-friendly factoring, equal to the model's text) -/
def contBody (pj : PJ) (i e fuel : Nat) (t : UInt8) (c : Nat) : Option (OVal × Nat) :=
  if c ≤ i + 1 ∨ c > e then none else
  if tagOf (pj.tape.getD (c - 1) 0) != openToClose t ∨ (payloadOf (pj.tape.getD (c - 1) 0)).toNat != i then none else
  if t == tagObjectStart then
    match decMembersD pj (i + 1) (c - 1) [] fuel with
    | some ms => some (.obj ms, c)
    | none => none
  else
    match decElemsD pj (i + 1) (c - 1) [] fuel with
    | some es => some (.arr es, c)
    | none => none

/-- body of `decValueD` as a function of the tag, payload and following word -/
def valBody (pj : PJ) (i e fuel : Nat) (t : UInt8) (pl v1 : UInt64) : Option (OVal × Nat) :=
    if t == tagNull then some (.null, i + 1)
    else if t == tagBoolTrue then some (.bool true, i + 1)
    else if t == tagBoolFalse then some (.bool false, i + 1)
    else if t == tagInteger then
      if i + 1 >= e then none else some (.int (toInt64 v1), i + 2)
    else if t == tagUint then
      if i + 1 >= e then none else some (.uint v1.toNat, i + 2)
    else if t == tagFloat then
      if i + 1 >= e then none else some (.float v1 pl, i + 2)
    else if t == tagString then
      if i + 1 >= e then none else
      match stringByteAt pj pl v1 with
      | .ok s => some (.str s, i + 2)
      | _ => none
    else if t == tagObjectStart ∨ t == tagArrayStart then contBody pj i e fuel t pl.toNat
    else none

theorem decValueD_succ (pj : PJ) (i e fuel : Nat) : decValueD pj i e (fuel + 1) =
    if i ≥ e then none else
      valBody pj i e fuel (tagOf (pj.tape.getD i 0)) (payloadOf (pj.tape.getD i 0)) (pj.tape.getD (i + 1) 0) := by
  rw [decValueD]; rfl

theorem valSound_step (pj : PJ) (fuel : Nat) (ihE : ElemsSound pj fuel) (ihM : MemsSound pj fuel) :
    ValSound pj (fuel + 1) := by
  intro i e ov n he h
  rw [decValueD_succ] at h
  split at h
  · exact absurd h (by simp)
  rename_i hie
  unfold valBody at h
  split at h
  · rename_i ht
    have ht : tagOf (pj.tape.getD i 0) = tagNull := by simpa using ht
    simp only [Option.some.injEq, Prod.mk.injEq] at h
    refine ⟨.null, ?_, by omega, h.1.symm⟩
    simp only [ValAt]
    exact ⟨h.2.symm, _, some_of_tag_ne_zero (by rw [ht]; decide), ht⟩
  split at h
  · rename_i ht
    have ht : tagOf (pj.tape.getD i 0) = tagBoolTrue := by simpa using ht
    simp only [Option.some.injEq, Prod.mk.injEq] at h
    refine ⟨.bool true, ?_, by omega, h.1.symm⟩
    simp only [ValAt]
    exact ⟨h.2.symm, _, some_of_tag_ne_zero (by rw [ht]; decide), ht⟩
  split at h
  · rename_i ht
    have ht : tagOf (pj.tape.getD i 0) = tagBoolFalse := by simpa using ht
    simp only [Option.some.injEq, Prod.mk.injEq] at h
    refine ⟨.bool false, ?_, by omega, h.1.symm⟩
    simp only [ValAt]
    exact ⟨h.2.symm, _, some_of_tag_ne_zero (by rw [ht]; decide), ht⟩
  split at h
  · rename_i ht
    have ht : tagOf (pj.tape.getD i 0) = tagInteger := by simpa using ht
    split at h
    · exact absurd h (by simp)
    simp only [Option.some.injEq, Prod.mk.injEq] at h
    refine ⟨.int (pj.tape.getD (i+1) 0), ?_, by omega, h.1.symm⟩
    simp only [ValAt]
    exact ⟨h.2.symm, _, some_of_tag_ne_zero (by rw [ht]; decide), ht, some_of_lt (by omega)⟩
  split at h
  · rename_i ht
    have ht : tagOf (pj.tape.getD i 0) = tagUint := by simpa using ht
    split at h
    · exact absurd h (by simp)
    simp only [Option.some.injEq, Prod.mk.injEq] at h
    refine ⟨.uint (pj.tape.getD (i+1) 0), ?_, by omega, h.1.symm⟩
    simp only [ValAt]
    exact ⟨h.2.symm, _, some_of_tag_ne_zero (by rw [ht]; decide), ht, some_of_lt (by omega)⟩
  split at h
  · rename_i ht
    have ht : tagOf (pj.tape.getD i 0) = tagFloat := by simpa using ht
    split at h
    · exact absurd h (by simp)
    simp only [Option.some.injEq, Prod.mk.injEq] at h
    refine ⟨.float (pj.tape.getD (i+1) 0) (payloadOf (pj.tape.getD i 0)), ?_, by omega, h.1.symm⟩
    simp only [ValAt]
    exact ⟨h.2.symm, _, some_of_tag_ne_zero (by rw [ht]; decide), ht, rfl, some_of_lt (by omega)⟩
  split at h
  · rename_i ht
    have ht : tagOf (pj.tape.getD i 0) = tagString := by simpa using ht
    split at h
    · exact absurd h (by simp)
    split at h
    · rename_i s hs
      simp only [Option.some.injEq, Prod.mk.injEq] at h
      refine ⟨.str s.toList, ?_, by omega, by rw [← h.1]; simp [toOVal]⟩
      simp only [ValAt]
      exact ⟨h.2.symm, _, _, some_of_tag_ne_zero (by rw [ht]; decide), some_of_lt (by omega), ht, by simpa using hs⟩
    · exact absurd h (by simp)
  split at h
  · rename_i ht
    unfold contBody at h
    split at h
    · exact absurd h (by simp)
    rename_i hc
    split at h
    · exact absurd h (by simp)
    rename_i hcw
    simp only [not_or, Nat.not_le, Nat.not_lt, bne_iff_ne, ne_eq, Decidable.not_not] at hc hcw
    split at h
    · rename_i hobj
      have hobj : tagOf (pj.tape.getD i 0) = tagObjectStart := by simpa using hobj
      rw [hobj, SJ.Tables.openToClose_spec] at hcw
      split at h
      · rename_i ms hms
        simp only [Option.some.injEq, Prod.mk.injEq] at h
        obtain ⟨jm, hjm, hr⟩ := ihM _ _ _ _ (by omega) hms
        refine ⟨.obj jm, ?_, by omega, by rw [← h.1, hr]; simp [toOVal]⟩
        rw [← h.2]
        simp only [ValAt]
        exact ⟨by omega, ⟨_, some_of_tag_ne_zero (by rw [hobj]; decide), hobj, rfl⟩,
          ⟨_, some_of_lt (by omega), hcw.1, hcw.2⟩, hjm⟩
      · exact absurd h (by simp)
    · rename_i hobj
      have harr : tagOf (pj.tape.getD i 0) = tagArrayStart := by
        cases ht with
        | inl h => exact absurd h hobj
        | inr h => simpa using h
      rw [harr, SJ.Tables.openToClose_spec] at hcw
      split at h
      · rename_i es hes
        simp only [Option.some.injEq, Prod.mk.injEq] at h
        obtain ⟨jv, hjv, hr⟩ := ihE _ _ _ _ (by omega) hes
        refine ⟨.arr jv, ?_, by omega, by rw [← h.1, hr]; simp [toOVal]⟩
        rw [← h.2]
        simp only [ValAt]
        exact ⟨by omega, ⟨_, some_of_tag_ne_zero (by rw [harr]; decide), harr, rfl⟩,
          ⟨_, some_of_lt (by omega), hcw.1, hcw.2⟩, hjv⟩
      · exact absurd h (by simp)
  · exact absurd h (by simp)


theorem elemsSound_step (pj : PJ) (fuel : Nat) (ihV : ValSound pj fuel) (ihE : ElemsSound pj fuel) :
    ElemsSound pj (fuel + 1) := by
  intro i e acc r he h
  rw [decElemsD] at h
  split at h
  · exact absurd h (by simp)
  rename_i p hp
  obtain ⟨g, hpe, hlive⟩ := (skipNopsD_iff pj i e p).mp hp
  split at h
  · rename_i hpe'
    have hpe' : p = e := by simpa using hpe'
    subst hpe'
    refine ⟨.nil, ?_, by simpa [toOVals] using h.symm⟩
    simp only [ElemsAt]; exact g
  split at h
  · exact absurd h (by simp)
  rename_i v n hv
  obtain ⟨jv, hjv, hne, hov⟩ := ihV _ _ _ _ he hv
  obtain ⟨vs, hvs, hr⟩ := ihE _ _ _ _ he h
  refine ⟨.cons jv vs, ?_, by rw [hr, hov]; simp [toOVals]⟩
  simp only [ElemsAt]
  exact ⟨p, n, g, hjv, hne, hvs⟩

theorem memsSound_step (pj : PJ) (fuel : Nat) (ihV : ValSound pj fuel) (ihM : MemsSound pj fuel) :
    MemsSound pj (fuel + 1) := by
  intro i e acc r he h
  rw [decMembersD] at h
  split at h
  · exact absurd h (by simp)
  rename_i p hp
  obtain ⟨g, hpe, hlive⟩ := (skipNopsD_iff pj i e p).mp hp
  split at h
  · rename_i hpe'
    have hpe' : p = e := by simpa using hpe'
    subst hpe'
    refine ⟨.nil, ?_, by simpa [toOMems] using h.symm⟩
    simp only [MemsAt]; exact g
  dsimp only at h
  split at h
  · exact absurd h (by simp)
  rename_i hk
  simp only [not_or, bne_iff_ne, ne_eq, Decidable.not_not, ge_iff_le, Nat.not_le] at hk
  split at h
  · rename_i k hks
    split at h
    · exact absurd h (by simp)
    rename_i q hq
    obtain ⟨g2, hqe, _⟩ := (skipNopsD_iff pj (p + 2) e q).mp hq
    split at h
    · exact absurd h (by simp)
    rename_i v n hv
    obtain ⟨jv, hjv, hne, hov⟩ := ihV _ _ _ _ he hv
    obtain ⟨ms, hms, hr⟩ := ihM _ _ _ _ he h
    refine ⟨.cons k.toList jv ms, ?_, by rw [hr, hov]; simp [toOMems]⟩
    simp only [MemsAt]
    exact ⟨p, q, n, g, ⟨_, _, some_of_tag_ne_zero (by rw [hk.1]; decide), some_of_lt (by omega), hk.1, by simpa using hks⟩,
      g2, hjv, hne, hms⟩
  · exact absurd h (by simp)

theorem dec_sound (pj : PJ) : ∀ fuel, ValSound pj fuel ∧ ElemsSound pj fuel ∧ MemsSound pj fuel
  | 0 => ⟨fun i e ov n _ h => by simp [decValueD] at h, fun i e acc r _ h => by simp [decElemsD] at h,
      fun i e acc r _ h => by simp [decMembersD] at h⟩
  | fuel + 1 =>
    have ih := dec_sound pj fuel
    ⟨valSound_step pj fuel ih.2.1 ih.2.2, elemsSound_step pj fuel ih.1 ih.2.1, memsSound_step pj fuel ih.1 ih.2.2⟩


theorem decRootsD_sound (pj : PJ) : ∀ fuel i acc r, decRootsD pj i acc fuel = some r →
    ∃ d, RootsAt pj d i ∧ r = acc.reverse ++ d.map toOVal
  | 0, i, acc, r, h => by simp [decRootsD] at h
  | fuel + 1, i, acc, r, h => by
    rw [decRootsD] at h
    dsimp only at h
    split at h
    · exact absurd h (by simp)
    rename_i p hp
    obtain ⟨g, hpn, _⟩ := (skipNopsD_iff pj i _ p).mp hp
    split at h
    · rename_i hpe
      have hpe : p = pj.tape.size := by simpa using hpe
      refine ⟨[], ?_, by simpa using h.symm⟩
      simp only [RootsAt]; rw [← hpe]; exact g
    split at h
    · exact absurd h (by simp)
    rename_i htag
    have htag : tagOf (pj.tape.getD p 0) = tagRoot := by simpa using htag
    split at h
    · exact absurd h (by simp)
    rename_i hrange
    split at h
    · exact absurd h (by simp)
    rename_i hcw
    simp only [not_or, bne_iff_ne, ne_eq, Decidable.not_not, Nat.not_le, Nat.not_lt, gt_iff_lt] at hrange hcw
    split at h
    · exact absurd h (by simp)
    rename_i q hq
    obtain ⟨g1, hq1, _⟩ := (skipNopsD_iff pj _ _ q).mp hq
    split at h
    · exact absurd h (by simp)
    split at h
    · exact absurd h (by simp)
    rename_i v nx hv
    obtain ⟨jv, hjv, hnx, hov⟩ := (dec_sound pj _).1 _ _ _ _ (by omega) hv
    split at h
    · rename_i r' hr'
      obtain ⟨g2, _, _⟩ := (skipNopsD_iff pj _ _ r').mp hr'
      split at h
      · rename_i hre
        have hre : r' = (payloadOf (pj.tape.getD p 0)).toNat - 1 := by simpa using hre
        subst hre
        obtain ⟨d, hd, hr⟩ := decRootsD_sound pj fuel _ _ _ h
        refine ⟨jv :: d, ?_, by rw [hr, hov]; simp⟩
        simp only [RootsAt]
        exact ⟨p, _, g, ⟨by omega, ⟨_, some_of_tag_ne_zero (by rw [htag]; decide), htag, rfl⟩,
          ⟨_, some_of_lt (by omega), hcw.1, hcw.2⟩, q, nx, g1, hjv, g2⟩, hd⟩
      · exact absurd h (by simp)
    · exact absurd h (by simp)

/-- **Soundness** of the dense checker: a decoded tape obeys the documented format, and the decoder
    output is the document it denotes. -/
theorem decodeTapeD_sound (pj : PJ) (ds : List OVal) (h : decodeTapeD pj = some ds) :
    ∃ d, WF pj d ∧ ds = d.map toOVal := by
  obtain ⟨d, hd, hr⟩ := decRootsD_sound pj _ _ _ _ h
  exact ⟨d, hd, by simpa using hr⟩


-- completeness of the dense decoder ---------------------------------------------------------------------------

theorem valBody_null (pj : PJ) (i e fuel : Nat) (pl v1 : UInt64) :
    valBody pj i e fuel tagNull pl v1 = some (.null, i + 1) := by rfl
theorem valBody_true (pj : PJ) (i e fuel : Nat) (pl v1 : UInt64) :
    valBody pj i e fuel tagBoolTrue pl v1 = some (.bool true, i + 1) := by rfl
theorem valBody_false (pj : PJ) (i e fuel : Nat) (pl v1 : UInt64) :
    valBody pj i e fuel tagBoolFalse pl v1 = some (.bool false, i + 1) := by rfl
theorem valBody_int (pj : PJ) (i e fuel : Nat) (pl v1 : UInt64) :
    valBody pj i e fuel tagInteger pl v1 = if i + 1 ≥ e then none else some (.int (toInt64 v1), i + 2) := by rfl
theorem valBody_uint (pj : PJ) (i e fuel : Nat) (pl v1 : UInt64) :
    valBody pj i e fuel tagUint pl v1 = if i + 1 ≥ e then none else some (.uint v1.toNat, i + 2) := by rfl
theorem valBody_float (pj : PJ) (i e fuel : Nat) (pl v1 : UInt64) :
    valBody pj i e fuel tagFloat pl v1 = if i + 1 ≥ e then none else some (.float v1 pl, i + 2) := by rfl
theorem valBody_str (pj : PJ) (i e fuel : Nat) (pl v1 : UInt64) :
    valBody pj i e fuel tagString pl v1 = if i + 1 ≥ e then none else
      match stringByteAt pj pl v1 with
      | .ok s => some (.str s, i + 2)
      | _ => none := by rfl
theorem valBody_obj (pj : PJ) (i e fuel : Nat) (pl v1 : UInt64) :
    valBody pj i e fuel tagObjectStart pl v1 = contBody pj i e fuel tagObjectStart pl.toNat := by rfl
theorem valBody_arr (pj : PJ) (i e fuel : Nat) (pl v1 : UInt64) :
    valBody pj i e fuel tagArrayStart pl v1 = contBody pj i e fuel tagArrayStart pl.toNat := by rfl

theorem otc_obj : openToClose tagObjectStart = tagObjectEnd := by rw [SJ.Tables.openToClose_spec]; rfl
theorem otc_arr : openToClose tagArrayStart = tagArrayEnd := by rw [SJ.Tables.openToClose_spec]; rfl

theorem contBody_obj (pj : PJ) (i e fuel c : Nat) (cw : UInt64) (h1 : i + 2 ≤ c) (h2 : c ≤ e)
    (hc : pj.tape[c - 1]? = some cw) (ht : tagOf cw = tagObjectEnd) (hp : (payloadOf cw).toNat = i) :
    contBody pj i e fuel tagObjectStart c =
      match decMembersD pj (i + 1) (c - 1) [] fuel with
      | some ms => some (.obj ms, c)
      | none => none := by
  unfold contBody
  rw [if_neg (by omega), getD_of_some hc, if_neg (by rw [ht, hp, otc_obj]; simp)]; rfl

theorem contBody_arr (pj : PJ) (i e fuel c : Nat) (cw : UInt64) (h1 : i + 2 ≤ c) (h2 : c ≤ e)
    (hc : pj.tape[c - 1]? = some cw) (ht : tagOf cw = tagArrayEnd) (hp : (payloadOf cw).toNat = i) :
    contBody pj i e fuel tagArrayStart c =
      match decElemsD pj (i + 1) (c - 1) [] fuel with
      | some es => some (.arr es, c)
      | none => none := by
  unfold contBody
  rw [if_neg (by omega), getD_of_some hc, if_neg (by rw [ht, hp, otc_arr]; simp)]; rfl

/-- determinism: the first word of a value is never a NOP -/
theorem valAt_first_live {pj : PJ} {v : JVal} {p e : Nat} (h : ValAt pj v p e) :
    tagOf (pj.tape.getD p 0) ≠ tagNop := by
  cases v <;> simp only [ValAt, StrAt] at h
  case null => obtain ⟨_, w, hw, ht⟩ := h; rw [getD_of_some hw, ht]; decide
  case bool b => obtain ⟨_, w, hw, ht⟩ := h; rw [getD_of_some hw, ht]; cases b <;> decide
  case int => obtain ⟨_, w, hw, ht, _⟩ := h; rw [getD_of_some hw, ht]; decide
  case uint => obtain ⟨_, w, hw, ht, _⟩ := h; rw [getD_of_some hw, ht]; decide
  case float => obtain ⟨_, w, hw, ht, _⟩ := h; rw [getD_of_some hw, ht]; decide
  case str => obtain ⟨_, w, len, hw, _, ht, _⟩ := h; rw [getD_of_some hw, ht]; decide
  case arr => obtain ⟨_, ⟨w, hw, ht, _⟩, _⟩ := h; rw [getD_of_some hw, ht]; decide
  case obj => obtain ⟨_, ⟨w, hw, ht, _⟩, _⟩ := h; rw [getD_of_some hw, ht]; decide

theorem strAt_first_live {pj : PJ} {s : List UInt8} {p : Nat} (h : StrAt pj s p) :
    tagOf (pj.tape.getD p 0) ≠ tagNop := by
  obtain ⟨w, len, hw, _, ht, _⟩ := h; rw [getD_of_some hw, ht]; decide

mutual
/-- fuel `e - p` (the number of words of the value) is enough -/
theorem decValueD_complete (pj : PJ) : ∀ (v : JVal) (p e E fuel : Nat), ValAt pj v p e → e ≤ E → e - p ≤ fuel →
    decValueD pj p E fuel = some (toOVal v, e)
  | .null, p, e, E, fuel, h, hE, hf => by
    simp only [ValAt] at h
    obtain ⟨he, w, hw, ht⟩ := h
    obtain ⟨f, rfl⟩ : ∃ f, fuel = f + 1 := ⟨fuel - 1, by omega⟩
    rw [decValueD_succ, if_neg (by omega), getD_of_some hw, ht, valBody_null, he]; rfl
  | .bool b, p, e, E, fuel, h, hE, hf => by
    simp only [ValAt] at h
    obtain ⟨he, w, hw, ht⟩ := h
    obtain ⟨f, rfl⟩ : ∃ f, fuel = f + 1 := ⟨fuel - 1, by omega⟩
    rw [decValueD_succ, if_neg (by omega), getD_of_some hw, ht, he]
    cases b
    · exact valBody_false ..
    · exact valBody_true ..
  | .int x, p, e, E, fuel, h, hE, hf => by
    simp only [ValAt] at h
    obtain ⟨he, w, hw, ht, hx⟩ := h
    obtain ⟨f, rfl⟩ : ∃ f, fuel = f + 1 := ⟨fuel - 1, by omega⟩
    rw [decValueD_succ, if_neg (by omega), getD_of_some hw, getD_of_some hx, ht, valBody_int, if_neg (by omega), he]; rfl
  | .uint x, p, e, E, fuel, h, hE, hf => by
    simp only [ValAt] at h
    obtain ⟨he, w, hw, ht, hx⟩ := h
    obtain ⟨f, rfl⟩ : ∃ f, fuel = f + 1 := ⟨fuel - 1, by omega⟩
    rw [decValueD_succ, if_neg (by omega), getD_of_some hw, getD_of_some hx, ht, valBody_uint, if_neg (by omega), he]; rfl
  | .float b fl, p, e, E, fuel, h, hE, hf => by
    simp only [ValAt] at h
    obtain ⟨he, w, hw, ht, hfl, hx⟩ := h
    obtain ⟨f, rfl⟩ : ∃ f, fuel = f + 1 := ⟨fuel - 1, by omega⟩
    rw [decValueD_succ, if_neg (by omega), getD_of_some hw, getD_of_some hx, ht, valBody_float, if_neg (by omega), he, hfl]; rfl
  | .str s, p, e, E, fuel, h, hE, hf => by
    simp only [ValAt, StrAt] at h
    obtain ⟨he, w, len, hw, hlen, ht, hs⟩ := h
    obtain ⟨f, rfl⟩ : ∃ f, fuel = f + 1 := ⟨fuel - 1, by omega⟩
    rw [decValueD_succ, if_neg (by omega), getD_of_some hw, getD_of_some hlen, ht, valBody_str, if_neg (by omega), hs, he]; rfl
  | .arr es, p, e, E, fuel, h, hE, hf => by
    simp only [ValAt] at h
    obtain ⟨he, ⟨w, hw, ht, hpl⟩, ⟨c, hc, htc, hpc⟩, hes⟩ := h
    obtain ⟨f, rfl⟩ : ∃ f, fuel = f + 1 := ⟨fuel - 1, by omega⟩
    rw [decValueD_succ, if_neg (by omega), getD_of_some hw, ht, valBody_arr, hpl,
      contBody_arr pj p E f e c he hE hc htc hpc,
      decElemsD_complete pj es (p + 1) (e - 1) [] f hes (by omega)]
    rfl
  | .obj ms, p, e, E, fuel, h, hE, hf => by
    simp only [ValAt] at h
    obtain ⟨he, ⟨w, hw, ht, hpl⟩, ⟨c, hc, htc, hpc⟩, hms⟩ := h
    obtain ⟨f, rfl⟩ : ∃ f, fuel = f + 1 := ⟨fuel - 1, by omega⟩
    rw [decValueD_succ, if_neg (by omega), getD_of_some hw, ht, valBody_obj, hpl,
      contBody_obj pj p E f e c he hE hc htc hpc,
      decMembersD_complete pj ms (p + 1) (e - 1) [] f hms (by omega)]
    rfl
/-- fuel `hi - lo + 1` is enough for the elements in `[lo, hi)` -/
theorem decElemsD_complete (pj : PJ) : ∀ (vs : JVals) (lo hi : Nat) (acc : List OVal) (fuel : Nat),
    ElemsAt pj vs lo hi → hi - lo + 1 ≤ fuel → decElemsD pj lo hi acc fuel = some (acc.reverse ++ toOVals vs)
  | .nil, lo, hi, acc, fuel, h, hf => by
    simp only [ElemsAt] at h
    obtain ⟨f, rfl⟩ : ∃ f, fuel = f + 1 := ⟨fuel - 1, by omega⟩
    have hs : skipNopsD pj.tape lo hi = some hi := (skipNopsD_iff pj lo hi hi).mpr ⟨h, Nat.le_refl _, Or.inl rfl⟩
    rw [decElemsD, hs]
    simp [toOVals]
  | .cons v vs, lo, hi, acc, fuel, h, hf => by
    simp only [ElemsAt] at h
    obtain ⟨p, e, g, hv, he, hrest⟩ := h
    have hpe := valAt_lo_le_hi hv
    have hlp := gap_le g
    obtain ⟨f, rfl⟩ : ∃ f, fuel = f + 1 := ⟨fuel - 1, by omega⟩
    have hs : skipNopsD pj.tape lo hi = some p :=
      (skipNopsD_iff pj lo hi p).mpr ⟨g, by omega, Or.inr (valAt_first_live hv)⟩
    rw [decElemsD, hs]
    dsimp only
    rw [if_neg (by simp; omega), decValueD_complete pj v p e hi f hv he (by omega)]
    dsimp only
    rw [decElemsD_complete pj vs e hi _ f hrest (by omega)]
    simp [toOVals]
/-- fuel `hi - lo + 1` is enough for the members in `[lo, hi)` -/
theorem decMembersD_complete (pj : PJ) : ∀ (ms : JMems) (lo hi : Nat) (acc : List (Bytes × OVal)) (fuel : Nat),
    MemsAt pj ms lo hi → hi - lo + 1 ≤ fuel → decMembersD pj lo hi acc fuel = some (acc.reverse ++ toOMems ms)
  | .nil, lo, hi, acc, fuel, h, hf => by
    simp only [MemsAt] at h
    obtain ⟨f, rfl⟩ : ∃ f, fuel = f + 1 := ⟨fuel - 1, by omega⟩
    have hs : skipNopsD pj.tape lo hi = some hi := (skipNopsD_iff pj lo hi hi).mpr ⟨h, Nat.le_refl _, Or.inl rfl⟩
    rw [decMembersD, hs]
    simp [toOMems]
  | .cons k v ms, lo, hi, acc, fuel, h, hf => by
    simp only [MemsAt] at h
    obtain ⟨pk, p, e, g, hk, g2, hv, he, hrest⟩ := h
    have hpe := valAt_lo_le_hi hv
    have hlp := gap_le g
    have hlp2 := gap_le g2
    obtain ⟨f, rfl⟩ : ∃ f, fuel = f + 1 := ⟨fuel - 1, by omega⟩
    have hs : skipNopsD pj.tape lo hi = some pk :=
      (skipNopsD_iff pj lo hi pk).mpr ⟨g, by omega, Or.inr (strAt_first_live hk)⟩
    have hs2 : skipNopsD pj.tape (pk + 2) hi = some p :=
      (skipNopsD_iff pj (pk + 2) hi p).mpr ⟨g2, by omega, Or.inr (valAt_first_live hv)⟩
    obtain ⟨w, len, hw, hlen, ht, hstr⟩ := hk
    rw [decMembersD, hs]
    dsimp only
    rw [if_neg (by simp; omega), getD_of_some hw, getD_of_some hlen, if_neg (by rw [ht]; simp; omega), hstr]
    dsimp only
    rw [hs2]
    dsimp only
    rw [decValueD_complete pj v p e hi f hv he (by omega)]
    dsimp only
    rw [decMembersD_complete pj ms e hi _ f hrest (by omega)]
    simp [toOMems]
end


theorem lt_size_of_some {tape : Array UInt64} {k : Nat} {w : UInt64} (h : tape[k]? = some w) : k < tape.size :=
  (Array.getElem?_eq_some_iff.mp h).1

theorem decRootsD_complete (pj : PJ) : ∀ (d : List JVal) (i : Nat) (acc : List OVal) (fuel : Nat),
    RootsAt pj d i → pj.tape.size - i + 1 ≤ fuel → decRootsD pj i acc fuel = some (acc.reverse ++ d.map toOVal)
  | [], i, acc, fuel, h, hf => by
    simp only [RootsAt] at h
    obtain ⟨f, rfl⟩ : ∃ f, fuel = f + 1 := ⟨fuel - 1, by omega⟩
    have hs : skipNopsD pj.tape i pj.tape.size = some pj.tape.size :=
      (skipNopsD_iff pj i _ _).mpr ⟨h, Nat.le_refl _, Or.inl rfl⟩
    rw [decRootsD]
    dsimp only
    rw [hs]
    simp
  | v :: vs, i, acc, fuel, h, hf => by
    simp only [RootsAt, RootAt] at h
    obtain ⟨q, e, g, ⟨hqe, ⟨w, hw, ht, hpl⟩, ⟨c, hc, htc, hpc⟩, q', f', g1, hv, g2⟩, hrest⟩ := h
    have hq := lt_size_of_some hw
    have he := lt_size_of_some hc
    have h1 := gap_le g
    have h2 := gap_le g1
    have h3 := gap_le g2
    have h4 := valAt_lo_le_hi hv
    obtain ⟨f, rfl⟩ : ∃ f, fuel = f + 1 := ⟨fuel - 1, by omega⟩
    have hs : skipNopsD pj.tape i pj.tape.size = some q :=
      (skipNopsD_iff pj i _ _).mpr ⟨g, by omega, Or.inr (by rw [getD_of_some hw, ht]; decide)⟩
    have hs1 : skipNopsD pj.tape (q + 1) (e - 1) = some q' :=
      (skipNopsD_iff pj _ _ _).mpr ⟨g1, by omega, Or.inr (valAt_first_live hv)⟩
    have hs2 : skipNopsD pj.tape f' (e - 1) = some (e - 1) :=
      (skipNopsD_iff pj _ _ _).mpr ⟨g2, Nat.le_refl _, Or.inl rfl⟩
    rw [decRootsD]
    dsimp only
    rw [hs]
    dsimp only
    rw [if_neg (by simp; omega), getD_of_some hw, if_neg (by rw [ht]; simp), hpl, if_neg (by omega),
      getD_of_some hc, if_neg (by rw [htc, hpc]; simp), hs1]
    dsimp only
    rw [if_neg (by simp; omega), decValueD_complete pj v q' f' (e - 1) _ hv (by omega) (by omega)]
    dsimp only
    rw [hs2]
    dsimp only
    rw [if_pos (by simp), decRootsD_complete pj vs e _ f hrest (by omega)]
    simp

/-- **Completeness** of the dense checker: every tape that obeys the documented format is accepted and
    decoded to the document it denotes (the fuel `size + 1` of `decodeTapeD` suffices). -/
theorem decodeTapeD_complete (pj : PJ) (d : List JVal) (h : WF pj d) : decodeTapeD pj = some (d.map toOVal) := by
  unfold decodeTapeD
  rw [decRootsD_complete pj d 0 [] _ h (by omega)]
  simp

-- corollaries -------------------------------------------------------------------------------------------------

/-- **C17**: the dense executable checker decides the documented tape format. -/
theorem wfCheckD_iff (pj : PJ) : wfCheckD pj = true ↔ ∃ d, WF pj d := by
  unfold wfCheckD
  constructor
  · intro h
    obtain ⟨ds, hds⟩ := Option.isSome_iff_exists.mp h
    obtain ⟨d, hd, _⟩ := decodeTapeD_sound pj ds hds
    exact ⟨d, hd⟩
  · rintro ⟨d, hd⟩
    rw [decodeTapeD_complete pj d hd]; rfl

/-- `decodeTapeD` is the abstraction function: it returns exactly the documents the tape denotes -/
theorem decodeTapeD_iff (pj : PJ) (ds : List OVal) : decodeTapeD pj = some ds ↔ ∃ d, WF pj d ∧ ds = d.map toOVal := by
  constructor
  · exact decodeTapeD_sound pj ds
  · rintro ⟨d, hd, rfl⟩; exact decodeTapeD_complete pj d hd

/-- a tape denotes at most one document -/
theorem wf_unique (pj : PJ) (d d' : List JVal) (h : WF pj d) (h' : WF pj d') : d = d' := by
  have h1 := decodeTapeD_complete pj d h
  have h2 := decodeTapeD_complete pj d' h'
  rw [h1] at h2
  exact map_toOVal_inj _ _ (Option.some.inj h2)

/-- a value region denotes at most one value, and its end is determined by its start -/
theorem valAt_unique (pj : PJ) (v v' : JVal) (p e e' : Nat) (h : ValAt pj v p e) (h' : ValAt pj v' p e') :
    v = v' ∧ e = e' := by
  have h1 := decValueD_complete pj v p e (max e e') (max e e') h (by omega) (by omega)
  have h2 := decValueD_complete pj v' p e' (max e e') (max e e') h' (by omega) (by omega)
  rw [h1] at h2
  simp only [Option.some.injEq, Prod.mk.injEq] at h2
  exact ⟨toOVal_inj _ _ h2.1, h2.2⟩

/-- link to located trees: the decoder run at the position of an `Ok` located value returns the value it
    erases to and the position one past it, for every bound `E ≥ lv.fin` and fuel `≥ lv.fin - lv.pos` -/
theorem ok_decValueD (pj : PJ) (lv : LVal) (h : Ok pj lv) (E fuel : Nat) (hE : lv.fin ≤ E) (hf : lv.fin - lv.pos ≤ fuel) :
    decValueD pj lv.pos E fuel = some (toOVal (erase lv), lv.fin) :=
  decValueD_complete pj (erase lv) lv.pos lv.fin E fuel (ok_valAt pj lv h) hE hf


-- the chain-following checker of SJ/Model/WF.lean -------------------------------------------------------------

/-- the model's `skipNops` (which only looks at the NOP words it lands on) accepts every gap -/
theorem skipNops_of_gap (tape : Array UInt64) (e q : Nat) (hqe : q ≤ e) (hlive : q = e ∨ tagOf (tape.getD q 0) ≠ tagNop) :
    ∀ fuel i, i ≤ q → (∀ k, i ≤ k → k < q → NopAt tape k q) → q - i < fuel → skipNops tape i e fuel = some q
  | 0, i, _, _, hf => by omega
  | fuel + 1, i, hiq, hg, hf => by
    rw [skipNops, if_neg (by omega)]
    by_cases hie : i = e
    · rw [if_pos (by simpa using hie)]
      congr 1; omega
    rw [if_neg (by simpa using hie)]
    dsimp only
    by_cases hq : i = q
    · subst hq
      have hn : tagOf (tape.getD i 0) ≠ tagNop := by
        cases hlive with
        | inl h => exact absurd h hie
        | inr h => exact h
      rw [if_neg (by simpa using hn)]
    · obtain ⟨w, hw, ht, hs1, hs2⟩ := hg i (Nat.le_refl _) (by omega)
      rw [getD_of_some hw, if_pos (by simpa using ht), if_neg (by simp; omega)]
      exact skipNops_of_gap tape e q hqe hlive fuel _ hs2 (fun k a b => hg k (by omega) b) (by omega)

theorem skipNops_of_D {tape : Array UInt64} {i e q : Nat} (h : skipNopsD tape i e = some q) (fuel : Nat) (hf : q - i < fuel) :
    skipNops tape i e fuel = some q := by
  obtain ⟨h1, h2, _, h4, h5⟩ := scan_sound tape e _ _ _ _ h
  exact skipNops_of_gap tape e q h2 h5 fuel i h1 h4 hf

theorem skipNopsD_le {tape : Array UInt64} {i e q : Nat} (h : skipNopsD tape i e = some q) : i ≤ q ∧ q ≤ e := by
  obtain ⟨h1, h2, _⟩ := scan_sound tape e _ _ _ _ h
  exact ⟨h1, h2⟩

/-- container body with the two recursive calls abstracted -/
def contBodyG (pj : PJ) (fM : Nat → Nat → Option (List (Bytes × OVal))) (fE : Nat → Nat → Option (List OVal))
    (i e : Nat) (t : UInt8) (c : Nat) : Option (OVal × Nat) :=
  if c ≤ i + 1 ∨ c > e then none else
  if tagOf (pj.tape.getD (c - 1) 0) != openToClose t ∨ (payloadOf (pj.tape.getD (c - 1) 0)).toNat != i then none else
  if t == tagObjectStart then
    match fM (i + 1) (c - 1) with
    | some ms => some (.obj ms, c)
    | none => none
  else
    match fE (i + 1) (c - 1) with
    | some es => some (.arr es, c)
    | none => none

/-- value body with the container slot abstracted -/
def valShape (pj : PJ) (i e : Nat) (t : UInt8) (pl v1 : UInt64) (x : Option (OVal × Nat)) : Option (OVal × Nat) :=
    if t == tagNull then some (.null, i + 1)
    else if t == tagBoolTrue then some (.bool true, i + 1)
    else if t == tagBoolFalse then some (.bool false, i + 1)
    else if t == tagInteger then
      if i + 1 >= e then none else some (.int (toInt64 v1), i + 2)
    else if t == tagUint then
      if i + 1 >= e then none else some (.uint v1.toNat, i + 2)
    else if t == tagFloat then
      if i + 1 >= e then none else some (.float v1 pl, i + 2)
    else if t == tagString then
      if i + 1 >= e then none else
      match stringByteAt pj pl v1 with
      | .ok s => some (.str s, i + 2)
      | _ => none
    else if t == tagObjectStart ∨ t == tagArrayStart then x
    else none

theorem decValueD_shape (pj : PJ) (i e fuel : Nat) : decValueD pj i e (fuel + 1) =
    if i ≥ e then none else
      valShape pj i e (tagOf (pj.tape.getD i 0)) (payloadOf (pj.tape.getD i 0)) (pj.tape.getD (i + 1) 0)
        (contBodyG pj (fun a b => decMembersD pj a b [] fuel) (fun a b => decElemsD pj a b [] fuel) i e
          (tagOf (pj.tape.getD i 0)) (payloadOf (pj.tape.getD i 0)).toNat) := by
  rw [decValueD]; rfl

theorem decValue_shape (pj : PJ) (i e fuel : Nat) : decValue pj i e (fuel + 1) =
    if i ≥ e then none else
      valShape pj i e (tagOf (pj.tape.getD i 0)) (payloadOf (pj.tape.getD i 0)) (pj.tape.getD (i + 1) 0)
        (contBodyG pj (fun a b => decMembers pj a b [] fuel) (fun a b => decElems pj a b [] fuel) i e
          (tagOf (pj.tape.getD i 0)) (payloadOf (pj.tape.getD i 0)).toNat) := by
  rw [decValue]; rfl

theorem valShape_mono (pj : PJ) (i e : Nat) (t : UInt8) (pl v1 : UInt64) (x x' : Option (OVal × Nat)) (r : OVal × Nat)
    (hx : x = some r → x' = some r) (h : valShape pj i e t pl v1 x = some r) : valShape pj i e t pl v1 x' = some r := by
  unfold valShape at h ⊢
  split at h
  · rename_i c; rw [if_pos c]; exact h
  rename_i c; rw [if_neg c]
  split at h
  · rename_i c; rw [if_pos c]; exact h
  rename_i c; rw [if_neg c]
  split at h
  · rename_i c; rw [if_pos c]; exact h
  rename_i c; rw [if_neg c]
  split at h
  · rename_i c; rw [if_pos c]; exact h
  rename_i c; rw [if_neg c]
  split at h
  · rename_i c; rw [if_pos c]; exact h
  rename_i c; rw [if_neg c]
  split at h
  · rename_i c; rw [if_pos c]; exact h
  rename_i c; rw [if_neg c]
  split at h
  · rename_i c; rw [if_pos c]; exact h
  rename_i c; rw [if_neg c]
  split at h
  · rename_i c; rw [if_pos c]; exact hx h
  · exact absurd h (by simp)

theorem contBodyG_mono (pj : PJ) (fM fM' : Nat → Nat → Option (List (Bytes × OVal))) (fE fE' : Nat → Nat → Option (List OVal))
    (hM : ∀ a b r, fM a b = some r → fM' a b = some r) (hE : ∀ a b r, fE a b = some r → fE' a b = some r)
    (i e : Nat) (t : UInt8) (c : Nat) (r : OVal × Nat) (h : contBodyG pj fM fE i e t c = some r) :
    contBodyG pj fM' fE' i e t c = some r := by
  unfold contBodyG at h ⊢
  split at h
  · exact absurd h (by simp)
  rename_i c1; rw [if_neg c1]
  split at h
  · exact absurd h (by simp)
  rename_i c2; rw [if_neg c2]
  split at h
  · rename_i c3; rw [if_pos c3]
    split at h
    · rename_i ms hms; rw [hM _ _ _ hms]; exact h
    · exact absurd h (by simp)
  · rename_i c3; rw [if_neg c3]
    split at h
    · rename_i es hes; rw [hE _ _ _ hes]; exact h
    · exact absurd h (by simp)

/-- whatever the dense decoder accepts, the model's chain-following decoder accepts with the same result -/
theorem dec_of_decD (pj : PJ) : ∀ fuel,
    (∀ i e r, decValueD pj i e fuel = some r → decValue pj i e fuel = some r) ∧
    (∀ i e acc r, decElemsD pj i e acc fuel = some r → decElems pj i e acc fuel = some r) ∧
    (∀ i e acc r, decMembersD pj i e acc fuel = some r → decMembers pj i e acc fuel = some r)
  | 0 => ⟨fun i e r h => by simp [decValueD] at h, fun i e acc r h => by simp [decElemsD] at h,
      fun i e acc r h => by simp [decMembersD] at h⟩
  | fuel + 1 => by
    obtain ⟨ihV, ihE, ihM⟩ := dec_of_decD pj fuel
    refine ⟨?_, ?_, ?_⟩
    · intro i e r h
      rw [decValueD_shape] at h
      rw [decValue_shape]
      split at h
      · exact absurd h (by simp)
      rename_i c; rw [if_neg c]
      exact valShape_mono pj i e _ _ _ _ _ r
        (contBodyG_mono pj _ _ _ _ (fun a b r => ihM a b [] r) (fun a b r => ihE a b [] r) i e _ _ r) h
    · intro i e acc r h
      rw [decElemsD] at h
      rw [decElems]
      split at h
      · exact absurd h (by simp)
      rename_i p hp
      have hle := skipNopsD_le hp
      rw [skipNops_of_D hp _ (by omega)]
      dsimp only
      split at h
      · rename_i c; rw [if_pos c]; exact h
      rename_i c; rw [if_neg c]
      split at h
      · exact absurd h (by simp)
      rename_i v n hv
      rw [ihV _ _ _ hv]
      exact ihE _ _ _ _ h
    · intro i e acc r h
      rw [decMembersD] at h
      rw [decMembers]
      split at h
      · exact absurd h (by simp)
      rename_i p hp
      have hle := skipNopsD_le hp
      rw [skipNops_of_D hp _ (by omega)]
      dsimp only at h ⊢
      split at h
      · rename_i c; rw [if_pos c]; exact h
      rename_i c; rw [if_neg c]
      split at h
      · exact absurd h (by simp)
      rename_i c2; rw [if_neg c2]
      split at h
      · rename_i k hk
        rw [hk]
        dsimp only
        split at h
        · exact absurd h (by simp)
        rename_i q hq
        have hle2 := skipNopsD_le hq
        rw [skipNops_of_D hq _ (by omega)]
        dsimp only
        split at h
        · exact absurd h (by simp)
        rename_i v n hv
        rw [ihV _ _ _ hv]
        exact ihM _ _ _ _ h
      · exact absurd h (by simp)

theorem decRoots_of_decRootsD (pj : PJ) : ∀ fuel i acc r, decRootsD pj i acc fuel = some r → decRoots pj i acc fuel = some r
  | 0, i, acc, r, h => by simp [decRootsD] at h
  | fuel + 1, i, acc, r, h => by
    rw [decRootsD] at h
    rw [decRoots]
    dsimp only at h ⊢
    split at h
    · exact absurd h (by simp)
    rename_i p hp
    have hle := skipNopsD_le hp
    rw [skipNops_of_D hp _ (by omega)]
    dsimp only
    split at h
    · rename_i c; rw [if_pos c]; exact h
    rename_i c; rw [if_neg c]
    split at h
    · exact absurd h (by simp)
    rename_i c1; rw [if_neg c1]
    split at h
    · exact absurd h (by simp)
    rename_i c2; rw [if_neg c2]
    split at h
    · exact absurd h (by simp)
    rename_i c3; rw [if_neg c3]
    split at h
    · exact absurd h (by simp)
    rename_i q hq
    have hle1 := skipNopsD_le hq
    rw [skipNops_of_D hq _ (by omega)]
    dsimp only
    split at h
    · exact absurd h (by simp)
    rename_i c4; rw [if_neg c4]
    split at h
    · exact absurd h (by simp)
    rename_i v nx hv
    rw [(dec_of_decD pj _).1 _ _ _ hv]
    dsimp only
    split at h
    · rename_i r' hr'
      have hle2 := skipNopsD_le hr'
      rw [skipNops_of_D hr' _ (by omega)]
      dsimp only
      split at h
      · rename_i c5; rw [if_pos c5]; exact decRoots_of_decRootsD pj fuel _ _ _ h
      · exact absurd h (by simp)
    · exact absurd h (by simp)

/-- dense implies chain: the model's `decodeTape` accepts at least the tapes `decodeTapeD` accepts, with the same result -/
theorem decodeTape_of_decodeTapeD (pj : PJ) (ds : List OVal) (h : decodeTapeD pj = some ds) : decodeTape pj = some ds :=
  decRoots_of_decRootsD pj _ _ _ _ h

/-- hence the model's (chain) `decodeTape` is complete for the documented format … -/
theorem decodeTape_complete (pj : PJ) (d : List JVal) (h : WF pj d) : decodeTape pj = some (d.map toOVal) :=
  decodeTape_of_decodeTapeD pj _ (decodeTapeD_complete pj d h)

/-- located trees, for the model's chain decoder -/
theorem ok_decValue (pj : PJ) (lv : LVal) (h : Ok pj lv) (E fuel : Nat) (hE : lv.fin ≤ E) (hf : lv.fin - lv.pos ≤ fuel) :
    decValue pj lv.pos E fuel = some (toOVal (erase lv), lv.fin) :=
  (dec_of_decD pj fuel).1 _ _ _ (ok_decValueD pj lv h E fuel hE hf)

theorem wfCheck_of_wfCheckD (pj : PJ) (h : wfCheckD pj = true) : wfCheck pj = true := by
  unfold wfCheckD at h
  obtain ⟨ds, hds⟩ := Option.isSome_iff_exists.mp h
  unfold wfCheck; rw [decodeTape_of_decodeTapeD pj ds hds]; rfl

theorem wfCheck_of_wf (pj : PJ) (h : ∃ d, WF pj d) : wfCheck pj = true := by
  obtain ⟨d, hd⟩ := h
  unfold wfCheck; rw [decodeTape_complete pj d hd]; rfl

/-- … but NOT sound: a tape on which `skipNops` jumps over a word that is not a NOP.
    `r→5 | NOP skip 2 | 0 (garbage, never inspected) | null | r→0`.
    The model's checker accepts it (and decodes `[null]`), yet it denotes no document, because
    `Gap 1 3` needs the word at 2 to be a NOP.  This is why `skipNops` was replaced by `skipNopsD`. -/
def cexPJ : PJ :=
  { tape := #[mkWord tagRoot 5, mkWord tagNop 2, 0, mkWord tagNull 0, mkWord tagRoot 0], strings := #[], msg := #[] }

theorem chain_checker_unsound : wfCheck cexPJ = true ∧ ¬ ∃ d, WF cexPJ d := by
  refine ⟨by decide, fun h => ?_⟩
  have h1 := (wfCheckD_iff cexPJ).mpr h
  have h2 : wfCheckD cexPJ = false := by decide
  rw [h2] at h1
  exact absurd h1 (by decide)

/-- the full statement `∀ pj, wfCheck pj = true ↔ ∃ d, WF pj d` is therefore false for the model's chain checker -/
theorem wfCheck_iff_false : ¬ ∀ pj, (wfCheck pj = true ↔ ∃ d, WF pj d) :=
  fun h => chain_checker_unsound.2 ((h cexPJ).mp chain_checker_unsound.1)

end SJ.DecodeSound
