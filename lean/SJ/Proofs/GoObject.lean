import SJ.Proofs.GoObjectLemmas
set_option linter.unusedVariables false
set_option linter.unusedSimpArgs false
/-
GoObject — `ParsedJson.stringByteAt`, `Iter.StringBytes`, `Iter.Bool` (parsed_json.go) and `Object.NextElementBytes`
(parsed_object.go), as printed by the translator (`Generated/GoSrc.lean`) and run by `GoSem.exec`, against the hand model
(`Model/Tape.lean`, `Model/Iter.lean`, `Model/Object.lean`).  The proofs run the syntax trees: any edit of these Go
functions changes `Generated/GoSrc.lean` and breaks them.

Stores: an `Iter` named `x` is `envOf "x" i`; an `Object` named `o` with view `v` is `("o.off", v.off), ("o.lim", v.lim)`;
the document's buffers are `("Strings.B", pj.strings)`, `("Message", pj.msg)`; the interpreter's tape is `pj.tape`.

  1. `stringByteAt_sim` (+ `SimBytes.iff`, `stringByteAt_safe`): for every `offset`, `length` (sums that wrap included) and
     every fuel, `stringByteAt` returns `(b, nil)` iff the model says `.ok b`, `(nil, err)` iff the model says `.error`;
     neither side panics.
  2. `stringBytes_sim` (fuel ≥ 1, view inside the tape), `bool_sim` (any fuel, any tape): receiver unchanged.
  3. `nextElementBytes_sim`: for a view `v` inside the tape, an ARBITRARY `*dst = d0`, interpreter fuel and model fuel
     ≥ `v.lim - v.off + 1`: outcome and model result are related by `SimNE` (GoObjectLemmas):
       `.ok (v', none)`               ⇔ `(nil, TypeNone, nil)`, `o = v'`, `*dst` untouched (`= d0`)
       `.ok (v', some (name, d, ty))` ⇔ `(name, ty, nil)`, `o = v'`, `*dst = d`
       `.error _`                     ⇔ `(nil, TypeNone, err)`
       `.panic`                       ⇔ panic          (`nextElementBytes_safe`: does not happen, nor `.diverge`)
     and in every case tape, string buffer and message are untouched.  The recursion on `TagNop` goes through
     `callFun` (`callFun_neb`, `backNEB_ret`: frame of the callee = `neEnv`, fields of `o` and `*dst` copied back);
     `neb_exec` is the induction on `v.lim - v.off` (each nested call starts ≥ 1 word further).
  4. `go_object_source_tie` bundles them.

Hypotheses beyond `lim ≤ pj.tape.size`, with the reason:
  * `BufOK pj` : `pj.msg.size < 2^63 ∧ pj.strings.size < 2^63`.  The model compares natural numbers
    (`e.toNat > pj.msg.size`) and slices with `Nat` bounds; the code compares `offset+length > uint64(len(pj.Message))`
    and converts the slice bounds with `int(..)`.  They agree exactly when the lengths are representable as a Go
    `int` — which every Go slice length is.  Not needed for `Bool`; needed wherever `stringByteAt` runs.
  Nothing else: the model's reads `rd pj.tape k` (bounds-checked against the ARRAY) are all guarded by `k < lim` tests
  in model and code alike, so Go's check against the VIEW length never fails where the model's succeeds; `*dst` is
  overwritten field by field and `calcNext` assigns `addNext` itself (`calcNext_congr`), so the caller's old `*dst`
  does not matter; `elemSize` is an `Int` on both sides.

What the statement does not say (no difference found, but not covered):
  * after an `.error` the model carries no state; Go has by then possibly advanced `o.off` (by 2 or 3) and overwritten
    `*dst`.  `SimNE` only says that `o` and `*dst` still exist.
  * `nil` and `[]byte{}` are the same value `#[]` in `GoSem`, so `(nil, TypeNone, nil)` is also what an element with an
    empty name and a tag without `Type` returns (`SimNE.iff`): the model tells the two apart (`none` / `some`), the Go
    callers (`Map`, `Parse`) test `t == TypeNone` and stop in both cases — as the model's `objMap`/`parse` do.
-/
namespace SJ.GoObject
open SJ SJ.GoSem SJ.Generated SJ.GoIter

attribute [local simp] exec exec1 execCases evalE evalEs isOneOf binop convert ofE copyFields bindParams
  iterFields runFun tblLookup

/-! ## vocabulary -/

/-- a function has not touched the document: same tape, same string buffer, same message -/
def Keeps (pj : PJ) (s : St) : Prop :=
  s.tape = pj.tape ∧ s.env.get "Strings.B" = some (.bytes pj.strings) ∧ s.env.get "Message" = some (.bytes pj.msg)

/-- functions returning `([]byte, error)`:
    model `.ok b` ⇔ `(b, nil)`; model `.error _` ⇔ `(nil, non-nil)`; model `.panic` ⇔ panic; never stuck, never out of
    fuel; the document is untouched and `keep` holds of the final store (the receiver is unchanged). -/
def SimBytes (pj : PJ) (keep : Env → Prop) (o : Out) (r : Res Bytes) : Prop :=
  match r with
  | .ok b => ∃ s, o = .ret s [.bytes b, .bool false] ∧ Keeps pj s ∧ keep s.env
  | .error _ => ∃ s, o = .ret s [.bytes #[], .bool true] ∧ Keeps pj s ∧ keep s.env
  | .panic => o = .panic
  | .diverge => False

/-- the relation read as equivalences -/
theorem SimBytes.iff {pj : PJ} {keep : Env → Prop} {o : Out} {r : Res Bytes} (h : SimBytes pj keep o r) :
    (∀ b, (∃ s, o = .ret s [.bytes b, .bool false]) ↔ r = .ok b) ∧
    ((∃ s, o = .ret s [.bytes #[], .bool true]) ↔ ∃ e, r = .error e) ∧
    (o = .panic ↔ r = .panic) := by
  cases r with
  | ok b =>
    obtain ⟨s, rfl, _⟩ := h
    refine ⟨fun b' => ⟨?_, ?_⟩, ⟨?_, ?_⟩, ⟨?_, ?_⟩⟩
    · rintro ⟨s', h'⟩; simp only [Out.ret.injEq, List.cons.injEq, Val.bytes.injEq] at h'; rw [h'.2.1]
    · intro h'; simp only [Res.ok.injEq] at h'; subst h'; exact ⟨s, rfl⟩
    · rintro ⟨s', h'⟩; simp at h'
    · rintro ⟨e, h'⟩; cases h'
    · intro h'; cases h'
    · intro h'; cases h'
  | error e =>
    obtain ⟨s, rfl, _⟩ := h
    refine ⟨fun b' => ⟨?_, ?_⟩, ⟨?_, ?_⟩, ⟨?_, ?_⟩⟩
    · rintro ⟨s', h'⟩; simp at h'
    · intro h'; cases h'
    · intro _; exact ⟨e, rfl⟩
    · intro _; exact ⟨s, rfl⟩
    · intro h'; cases h'
    · intro h'; cases h'
  | panic =>
    simp only [SimBytes] at h
    subst h
    refine ⟨fun b' => ⟨?_, ?_⟩, ⟨?_, ?_⟩, ⟨?_, ?_⟩⟩
    · rintro ⟨s', h'⟩; cases h'
    · intro h'; cases h'
    · rintro ⟨s', h'⟩; cases h'
    · rintro ⟨e, h'⟩; cases h'
    · intro _; rfl
    · intro _; rfl
  | diverge => exact h.elim

/-! ## 1. `ParsedJson.stringByteAt` -/

/-- `stringByteAt` IS `SJ.stringByteAt`: for every document whose buffer lengths are Go `int`s, every `offset`,
    `length` (including sums that wrap) and every fuel (the function has no loop and no call). -/
theorem stringByteAt_sim (pj : PJ) (n : Int) (off len : UInt64) (fuel : Nat) (hb : BufOK pj) :
    SimBytes pj (fun e => e.get "pj.lim" = some (.int n))
      (runFun goFuns goParsedJson_stringByteAt fuel
        ⟨[("pj.lim", .int n), ("Strings.B", .bytes pj.strings), ("Message", .bytes pj.msg), ("offset", .u64 off),
          ("length", .u64 len)], pj.tape⟩)
      (stringByteAt pj off len) := by
  have he := stringByteAt_exec pj n off len pj.tape fuel hb
  simp only [sbEnv] at he
  unfold runFun
  rw [he]
  simp only []
  rcases stringByteAt_cases pj off len with ⟨b, h⟩ | h
  · rw [h]; exact ⟨_, rfl, ⟨rfl, rfl, rfl⟩, rfl⟩
  · rw [h]; exact ⟨_, rfl, ⟨rfl, rfl, rfl⟩, rfl⟩

/-- the model of `stringByteAt` never panics and never diverges -/
theorem stringByteAt_safe (pj : PJ) (off len : UInt64) : (stringByteAt pj off len).safe = true := by
  rcases stringByteAt_cases pj off len with ⟨b, h⟩ | h <;> rw [h] <;> rfl

/-! ## 2. `Iter.StringBytes`, `Iter.Bool` -/

/-- `StringBytes` IS `Iter.stringBytes`; one unit of fuel pays for the call of `stringByteAt`. -/
theorem stringBytes_sim (pj : PJ) (i : Iter) (hl : i.lim ≤ pj.tape.size) (hb : BufOK pj) (fuel : Nat) (hf : 1 ≤ fuel) :
    SimBytes pj (fun e => iterAt e "i" = some i)
      (runFun goFuns goIter_StringBytes fuel ⟨envOf "i" i ++ bufEnv pj, pj.tape⟩) (i.stringBytes pj) := by
  obtain ⟨f, rfl⟩ : ∃ f, fuel = f + 1 := ⟨fuel - 1, by omega⟩
  generalize he0 : envOf "i" i ++ bufEnv pj = e0
  have hI : iterAt e0 "i" = some i := by subst he0; simp [envOf, bufEnv, Env.get, iterAt]
  have hS : e0.get "Strings.B" = some (.bytes pj.strings) := by subst he0; simp [envOf, bufEnv, Env.get]
  have hM : e0.get "Message" = some (.bytes pj.msg) := by subst he0; simp [envOf, bufEnv, Env.get]
  obtain ⟨g1, g2, g3, g4, g5⟩ := iterAt_get_i _ _ hI
  unfold Iter.stringBytes Iter.valWord Iter.rdT
  simp only [goIter_StringBytes, tagString]
  by_cases ht : i.t = 34
  · by_cases ho : i.off ≥ i.lim
    · have ho' : (i.lim : Int) ≤ i.off := by omega
      simp [g1, g4, g5, ht, ho, ho', SimBytes, Keeps, hS, hM, hI]
    · have hlt : i.off < i.lim := by omega
      have hr : pj.tape[i.off]? = some (pj.tape[i.off]'(by omega)) := by simp
      have ho' : ¬ (i.lim : Int) ≤ i.off := by omega
      have hcall := callFun_sb ⟨e0, pj.tape⟩ pj "i" i.lim (.v "i.cur") (.tapeAt "i" (.v "i.off")) i.cur
        (pj.tape[i.off]'(by omega)) f hb (by simpa using g5) hS hM (by simp [g3])
        (by simp [g1, g5, hlt, hr])
      simp only [String.reduceAppend] at hcall
      simp [g1, g4, g5, ht, ho, ho', rd, hr, -exec, -exec1]
      simp [g1, g4, g5, ht, ho, ho', hcall]
      rcases stringByteAt_cases pj i.cur (pj.tape[i.off]'(by omega)) with ⟨b, h⟩ | h
      · rw [h]
        refine ⟨_, rfl, ⟨rfl, ?_, ?_⟩, ?_⟩
        · simp [Env.get_set]
        · simp [Env.get_set]
        · simp (disch := decide) only [iterAt_set_ne]
          apply iterAt_of_gets <;> simp [Env.get_set, g1, g2, g3, g4]
      · rw [h]
        refine ⟨_, rfl, ⟨rfl, ?_, ?_⟩, ?_⟩
        · simp [Env.get_set]
        · simp [Env.get_set]
        · simp (disch := decide) only [iterAt_set_ne]
          apply iterAt_of_gets <;> simp [Env.get_set, g1, g2, g3, g4]
  · have ht' : (i.t != 34) = true := by simp [ht]
    simp [g1, g4, g5, ht, ht', SimBytes, Keeps, hS, hM, hI]

/-- `Bool()`: returns `(v, nil)` / `(false, non-nil)`, receiver and tape unchanged -/
def SimBool (tape : Array UInt64) (i : Iter) (o : Out) (r : Res Bool) : Prop :=
  match r with
  | .ok v => ∃ s, o = .ret s [.bool v, .bool false] ∧ s.tape = tape ∧ iterAt s.env "i" = some i
  | .error _ => ∃ s, o = .ret s [.bool false, .bool true] ∧ s.tape = tape ∧ iterAt s.env "i" = some i
  | _ => False

/-- `Bool` IS `Iter.bool`, on any store that starts with the receiver, for any tape and fuel. -/
theorem bool_sim (i : Iter) (rest : Env) (tape : Array UInt64) (fuel : Nat) :
    SimBool tape i (runFun goFuns goIter_Bool fuel ⟨envOf "i" i ++ rest, tape⟩) i.bool := by
  have hI : iterAt (envOf "i" i ++ rest) "i" = some i := by simp [envOf, Env.get, iterAt]
  generalize envOf "i" i ++ rest = e0 at hI
  obtain ⟨g1, g2, g3, g4, g5⟩ := iterAt_get_i _ _ hI
  unfold Iter.bool
  simp only [goIter_Bool, tagBoolTrue, tagBoolFalse]
  by_cases h1 : i.t = 116
  · simp [g4, h1, SimBool, hI]
  · have h1' : ¬ (116 : UInt8) = i.t := fun h => h1 h.symm
    by_cases h2 : i.t = 102
    · simp [g4, h2, SimBool, hI]
    · have h2' : ¬ (102 : UInt8) = i.t := fun h => h2 h.symm
      simp [g4, h1, h2, h1', h2', SimBool, hI]

/-! ## 3. `Object.NextElementBytes` -/

/-- the outcome of the callee, handed back to the caller by `callFun` -/
theorem SimNE_back (pj : PJ) (d0 : Iter) (s : St) (o : Out) (r : Res (View × Option (Bytes × Iter × UInt8)))
    (h : SimNE pj d0 o r) : SimNE pj d0 (backNEB s o) r := by
  cases r with
  | ok p =>
    obtain ⟨v', x⟩ := p
    cases x with
    | none =>
      obtain ⟨s', rfl, hi'⟩ := h
      rw [backNEB_ret s s' _ pj v' d0 hi']
      exact ⟨_, rfl, NEInit_backEnv _ _ _ _⟩
    | some y =>
      obtain ⟨name, d, ty⟩ := y
      obtain ⟨s', rfl, hi'⟩ := h
      rw [backNEB_ret s s' _ pj v' d hi']
      exact ⟨_, rfl, NEInit_backEnv _ _ _ _⟩
  | error e =>
    obtain ⟨s', v', d', rfl, hi'⟩ := h
    rw [backNEB_ret s s' _ pj v' d' hi']
    exact ⟨_, v', d', rfl, NEInit_backEnv _ _ _ _⟩
  | panic =>
    simp only [SimNE] at h
    subst h
    rfl
  | diverge => exact h.elim

theorem SimNE.final {pj : PJ} {d0 : Iter} {o : Out} {r : Res (View × Option (Bytes × Iter × UInt8))}
    (h : SimNE pj d0 o r) : Out.final o = true := by
  cases r with
  | ok p =>
    obtain ⟨v', x⟩ := p
    cases x with
    | none => obtain ⟨s', rfl, _⟩ := h; rfl
    | some y => obtain ⟨name, d, ty⟩ := y; obtain ⟨s', rfl, _⟩ := h; rfl
  | error e => obtain ⟨s', v', d', rfl, _⟩ := h; rfl
  | panic => simp only [SimNE] at h; subst h; rfl
  | diverge => exact h.elim

/-- one activation of `NextElementBytes`, given the recursive call (`ih`) -/
theorem neb_step (pj : PJ) (hb : BufOK pj) (v : View) (d : Iter) (f m : Nat) (e : Env) (hsz : v.lim ≤ pj.tape.size)
    (hi : NEInit pj v d ⟨e, pj.tape⟩)
    (ih : ∀ v' : View, v'.lim = v.lim → v.off < v'.off → v.off < v.lim →
      SimNE pj d (exec goFuns f goObject_NextElementBytes.body ⟨neEnv v' d pj, pj.tape⟩)
        (View.nextElementBytes pj v' m)) :
    SimNE pj d (exec goFuns (f + 1) goObject_NextElementBytes.body ⟨e, pj.tape⟩)
      (View.nextElementBytes pj v (m + 1)) := by
  obtain ⟨lim, off⟩ := v
  simp only at hsz ih
  obtain ⟨v1, v2⟩ := viewAt_get_o _ _ hi.view
  simp only at v1 v2
  rw [neb_split, exec_append, neb_pre e pj.tape (f + 1) off lim v1 v2 hsz, View.nextElementBytes]
  have hi3 : NEInit pj ⟨lim, off⟩ d ⟨((e.set "name" (.bytes #[])).set "t" (.u8 0)).set "err" (.bool false), pj.tape⟩ :=
    ((hi.set "name" _ (by decide)).set "t" _ (by decide)).set "err" _ (by decide)
  generalize ((e.set "name" (.bytes #[])).set "t" (.u8 0)).set "err" (.bool false) = e3 at hi3 ⊢
  by_cases h : off ≥ lim
  · simp only [h, dif_pos, if_true, SimNE, typeNone]
    exact ⟨_, rfl, hi3⟩
  · have hlt : off < lim := by omega
    have hr : pj.tape[off]? = some (pj.tape[off]'(by omega)) := by simp
    simp only [h, dif_neg, not_false_eq_true, if_false, rd, hr, Res.bind_ok]
    generalize pj.tape[off]'(by omega) = w
    have hi4 : NEInit pj ⟨lim, off⟩ d ⟨e3.set "v" (.u64 w), pj.tape⟩ := hi3.set "v" _ (by decide)
    have hv4 : (e3.set "v" (.u64 w)).get "v" = some (.u64 w) := Env.get_set_self _ _ _
    generalize e3.set "v" (.u64 w) = e4 at hi4 hv4 ⊢
    obtain ⟨x1, x2⟩ := viewAt_get_o _ _ hi4.view
    simp only at x1 x2
    rw [exec, neb_switch e4 pj.tape (f + 1) w hv4]
    simp only [tagString, tagObjectEnd, tagNop]
    by_cases t1 : tagOf w = 34
    · -- TagString
      simp only [t1, if_true, beq_self_eq_true]
      by_cases hs : off + 2 ≥ lim
      · rw [neb_str_short pj e4 (f + 1) off lim d w hi4 hv4 hsz hs]
        simp only [hs, if_true, SimNE, typeNone]
        exact ⟨_, _, _, rfl, hi4⟩
      · have hr1 : pj.tape[off + 1]? = some (pj.tape[off + 1]'(by omega)) := by simp
        have hr2 : pj.tape[off + 2]? = some (pj.tape[off + 2]'(by omega)) := by simp
        have hstr := neb_str_long pj e4 f off lim d w _ hb hi4 hv4 hsz hs hr1
        simp only [hs, if_false, hr1, hr2, Res.bind_ok]
        generalize pj.tape[off + 1]'(by omega) = len at hstr ⊢
        rcases stringByteAt_cases pj (payloadOf w) len with ⟨nm, hnm⟩ | hnm
        · rw [hnm] at hstr ⊢
          obtain ⟨e', he', hi', hn'⟩ := hstr
          rw [he']
          simp only [Res.bind_ok]
          have ht := neb_tail pj e' f (off + 2) lim d nm hi' hn' (by omega) hsz
          simpa [tailModel] using ht
        · rw [hnm] at hstr ⊢
          obtain ⟨e', he', hi'⟩ := hstr
          rw [he']
          simp only [Res.bind_error, SimNE, typeNone]
          exact ⟨_, _, _, rfl, hi'⟩
    · have b1 : (tagOf w == 34) = false := by simp [t1]
      simp only [t1, b1, if_false, Bool.false_eq_true]
      by_cases t2 : tagOf w = 125
      · simp only [t2, if_true, beq_self_eq_true, SimNE, typeNone]
        exact ⟨_, rfl, hi4⟩
      · have b2 : (tagOf w == 125) = false := by simp [t2]
        simp only [t2, b2, if_false, Bool.false_eq_true]
        by_cases t3 : tagOf w = 78
        · -- TagNop
          simp only [t3, if_true, beq_self_eq_true]
          rw [neb_nop e4 pj.tape f off w x1 hv4]
          have hz : (payloadOf w = 0) ↔ (payloadOf w).toNat = 0 := by rw [← UInt64.toNat_inj]; rfl
          by_cases h0 : (payloadOf w).toNat = 0
          · simp only [hz, h0, if_true, SimNE, typeNone]
            exact ⟨_, _, _, rfl, hi4.set "skip" _ (by decide)⟩
          · simp only [hz, h0, if_false]
            have hi5 := (hi4.set "skip" (.int (payloadOf w).toNat) (by decide)).setOff (off + (payloadOf w).toNat)
            simp only [] at hi5
            rw [callFun_neb _ pj _ d f hi5]
            have key := SimNE_back pj d
              ⟨(e4.set "skip" (.int (payloadOf w).toNat)).set "o.off" (.int ((off + (payloadOf w).toNat : Nat) : Int)),
                pj.tape⟩ _ _ (ih ⟨lim, off + (payloadOf w).toNat⟩ rfl (by simp only; omega) hlt)
            generalize backNEB _ _ = out at key ⊢
            have hfin := key.final
            cases out <;> simp only [Out.final, Bool.false_eq_true] at hfin <;> exact key
        · have b3 : (tagOf w == 78) = false := by simp [t3]
          simp only [t3, b3, if_false, Bool.false_eq_true, SimNE, typeNone]
          exact ⟨_, _, _, rfl, hi4⟩

/-- the recursion: every nested call starts at a strictly larger offset, so `lim - off + 1` units of fuel pay for all
    activations (and for the calls of `stringByteAt` / `calcNext` inside the last one); the model's own fuel is
    bounded the same way -/
theorem neb_exec (pj : PJ) (hb : BufOK pj) :
    ∀ (n : Nat) (v : View) (d : Iter) (fuel mfuel : Nat) (e : Env), v.lim - v.off ≤ n → n + 1 ≤ fuel → n + 1 ≤ mfuel →
      v.lim ≤ pj.tape.size → NEInit pj v d ⟨e, pj.tape⟩ →
      SimNE pj d (exec goFuns fuel goObject_NextElementBytes.body ⟨e, pj.tape⟩) (View.nextElementBytes pj v mfuel) := by
  intro n
  induction n with
  | zero =>
    intro v d fuel mfuel e hn hf hm hsz hi
    obtain ⟨f, rfl⟩ : ∃ f, fuel = f + 1 := ⟨fuel - 1, by omega⟩
    obtain ⟨m, rfl⟩ : ∃ m, mfuel = m + 1 := ⟨mfuel - 1, by omega⟩
    exact neb_step pj hb v d f m e hsz hi (fun v' _ _ h3 => by omega)
  | succ n ih =>
    intro v d fuel mfuel e hn hf hm hsz hi
    obtain ⟨f, rfl⟩ : ∃ f, fuel = f + 1 := ⟨fuel - 1, by omega⟩
    obtain ⟨m, rfl⟩ : ∃ m, mfuel = m + 1 := ⟨mfuel - 1, by omega⟩
    refine neb_step pj hb v d f m e hsz hi (fun v' h1 h2 h3 => ?_)
    exact ih v' d f m _ (by omega) (by omega) (by omega) (by omega) (NEInit_neEnv pj v' d)

/-- `NextElementBytes` IS `View.nextElementBytes`.
    Store: the receiver `o` (view `v`), `*dst = d0` (arbitrary: no result depends on it), the two buffers.
    Fuel: `v.lim - v.off + 1` for the interpreter (recursion depth) and for the model (which then does not diverge). -/
theorem nextElementBytes_sim (pj : PJ) (hb : BufOK pj) (v : View) (d0 : Iter) (hl : v.lim ≤ pj.tape.size)
    (fuel mfuel : Nat) (hf : v.lim - v.off + 1 ≤ fuel) (hm : v.lim - v.off + 1 ≤ mfuel) :
    SimNE pj d0 (runFun goFuns goObject_NextElementBytes fuel ⟨neEnv v d0 pj, pj.tape⟩)
      (View.nextElementBytes pj v mfuel) := by
  have key := neb_exec pj hb (v.lim - v.off) v d0 fuel mfuel (neEnv v d0 pj) (Nat.le_refl _) hf hm hl
    (NEInit_neEnv pj v d0)
  rw [runFun_final _ _ _ _ key.final]
  exact key

/-- with `lim - off + 1` units of fuel the model does not run out of fuel -/
theorem nextElementBytes_no_diverge (pj : PJ) (hb : BufOK pj) (v : View) (hl : v.lim ≤ pj.tape.size) (mfuel : Nat)
    (hm : v.lim - v.off + 1 ≤ mfuel) : View.nextElementBytes pj v mfuel ≠ .diverge := by
  intro h
  have := nextElementBytes_sim pj hb v default hl _ mfuel (Nat.le_refl _) hm
  rw [h] at this
  exact this

/-- inside a view that lies in the tape the model neither panics nor (with `lim - off + 1` fuel) diverges: every
    index it reads is guarded by a `< lim` test, as in the Go code -/
theorem nextElementBytes_safe (pj : PJ) : ∀ (n : Nat) (v : View) (m : Nat), v.lim - v.off ≤ n → n + 1 ≤ m →
    v.lim ≤ pj.tape.size → (View.nextElementBytes pj v m).safe = true := by
  intro n
  induction n with
  | zero =>
    intro v m hn hm hsz
    obtain ⟨k, rfl⟩ : ∃ k, m = k + 1 := ⟨m - 1, by omega⟩
    have h : v.off ≥ v.lim := by omega
    rw [View.nextElementBytes]
    simp [h, Res.safe]
  | succ n ih =>
    intro v m hn hm hsz
    obtain ⟨k, rfl⟩ : ∃ k, m = k + 1 := ⟨m - 1, by omega⟩
    rw [View.nextElementBytes]
    by_cases h : v.off ≥ v.lim
    · simp [h, Res.safe]
    · have hr : pj.tape[v.off]? = some (pj.tape[v.off]'(by omega)) := by simp
      simp only [h, if_false, rd, hr, Res.bind_ok]
      generalize pj.tape[v.off]'(by omega) = w
      by_cases t1 : tagOf w = tagString
      · simp only [t1, beq_self_eq_true, if_true]
        by_cases hs : v.off + 2 ≥ v.lim
        · simp [hs, Res.safe]
        · have hr1 : pj.tape[v.off + 1]? = some (pj.tape[v.off + 1]'(by omega)) := by simp
          have hr2 : pj.tape[v.off + 2]? = some (pj.tape[v.off + 2]'(by omega)) := by simp
          simp only [hs, if_false, hr1, hr2, Res.bind_ok]
          rcases stringByteAt_cases pj (payloadOf w) (pj.tape[v.off + 1]'(by omega)) with ⟨nm, hnm⟩ | hnm
          · rw [hnm]
            simp only [Res.bind_ok]
            split
            · rfl
            · split <;> rfl
          · rw [hnm]; rfl
      · have b1 : (tagOf w == tagString) = false := by simp [t1]
        simp only [b1, Bool.false_eq_true, if_false]
        by_cases t2 : tagOf w = tagObjectEnd
        · simp [t2, Res.safe]
        · have b2 : (tagOf w == tagObjectEnd) = false := by simp [t2]
          simp only [b2, Bool.false_eq_true, if_false]
          by_cases t3 : tagOf w = tagNop
          · simp only [t3, beq_self_eq_true, if_true]
            by_cases h0 : (payloadOf w).toNat = 0
            · simp [h0, Res.safe]
            · simp only [h0, if_false]
              exact ih _ k (by simp only; omega) (by omega) hsz
          · have b3 : (tagOf w == tagNop) = false := by simp [t3]
            simp [b3, Res.safe]

/-- the relation read backwards: the returned `error` and a panic determine the class of the model's result.
    (`(nil, TypeNone, nil)` alone does not tell "no more elements" from an element with an empty name whose tag has no
    `Type` — neither in Go, where callers test `t == TypeNone`, nor here, where `nil` and `[]byte{}` are both `#[]`.) -/
theorem SimNE.iff {pj : PJ} {d0 : Iter} {o : Out} {r : Res (View × Option (Bytes × Iter × UInt8))}
    (h : SimNE pj d0 o r) :
    ((∃ s a b, o = .ret s [a, b, .bool false]) ↔ ∃ x, r = .ok x) ∧
    ((∃ s a b, o = .ret s [a, b, .bool true]) ↔ ∃ e, r = .error e) ∧
    (o = .panic ↔ r = .panic) := by
  cases r with
  | ok p =>
    obtain ⟨v', x⟩ := p
    have ho : ∃ s a b, o = .ret s [a, b, .bool false] := by
      cases x with
      | none => obtain ⟨s', rfl, _⟩ := h; exact ⟨_, _, _, rfl⟩
      | some y => obtain ⟨name, d, ty⟩ := y; obtain ⟨s', rfl, _⟩ := h; exact ⟨_, _, _, rfl⟩
    obtain ⟨s, a, b, rfl⟩ := ho
    refine ⟨⟨fun _ => ⟨_, rfl⟩, fun _ => ⟨_, _, _, rfl⟩⟩, ⟨?_, ?_⟩, ⟨?_, ?_⟩⟩
    · rintro ⟨s', a', b', h'⟩; simp at h'
    · rintro ⟨e, h'⟩; cases h'
    · intro h'; cases h'
    · intro h'; cases h'
  | error e =>
    obtain ⟨s, v', d', rfl, _⟩ := h
    refine ⟨⟨?_, ?_⟩, ⟨fun _ => ⟨_, rfl⟩, fun _ => ⟨_, _, _, rfl⟩⟩, ⟨?_, ?_⟩⟩
    · rintro ⟨s', a', b', h'⟩; simp at h'
    · rintro ⟨x, h'⟩; cases h'
    · intro h'; cases h'
    · intro h'; cases h'
  | panic =>
    simp only [SimNE] at h
    subst h
    refine ⟨⟨?_, ?_⟩, ⟨?_, ?_⟩, ⟨fun _ => rfl, fun _ => rfl⟩⟩
    · rintro ⟨s', a', b', h'⟩; cases h'
    · rintro ⟨x, h'⟩; cases h'
    · rintro ⟨s', a', b', h'⟩; cases h'
    · rintro ⟨x, h'⟩; cases h'
  | diverge => exact h.elim

/-! ## 4. bundle -/

/-- `stringByteAt`, `Iter.StringBytes`, `Iter.Bool`, `Object.NextElementBytes` of /repo, as translated, ARE the hand
    model.  Hypotheses: `BufOK pj` (buffer lengths are Go `int`s) and views inside the tape. -/
theorem go_object_source_tie (pj : PJ) (hb : BufOK pj) (n : Int) (off len : UInt64) (i d0 : Iter) (v : View)
    (rest : Env) (hi : i.lim ≤ pj.tape.size) (hv : v.lim ≤ pj.tape.size) (fuel : Nat)
    (hf : v.lim - v.off + 1 ≤ fuel) :
    SimBytes pj (fun e => e.get "pj.lim" = some (.int n))
      (runFun goFuns goParsedJson_stringByteAt fuel
        ⟨[("pj.lim", .int n), ("Strings.B", .bytes pj.strings), ("Message", .bytes pj.msg), ("offset", .u64 off),
          ("length", .u64 len)], pj.tape⟩)
      (stringByteAt pj off len) ∧
    (stringByteAt pj off len).safe = true ∧
    SimBytes pj (fun e => iterAt e "i" = some i)
      (runFun goFuns goIter_StringBytes fuel ⟨envOf "i" i ++ bufEnv pj, pj.tape⟩) (i.stringBytes pj) ∧
    SimBool pj.tape i (runFun goFuns goIter_Bool fuel ⟨envOf "i" i ++ rest, pj.tape⟩) i.bool ∧
    SimNE pj d0 (runFun goFuns goObject_NextElementBytes fuel ⟨neEnv v d0 pj, pj.tape⟩)
      (View.nextElementBytes pj v fuel) ∧
    (View.nextElementBytes pj v fuel).safe = true :=
  ⟨stringByteAt_sim pj n off len fuel hb, stringByteAt_safe pj off len,
   stringBytes_sim pj i hi hb fuel (by omega), bool_sim i rest pj.tape fuel,
   nextElementBytes_sim pj hb v d0 hv fuel fuel hf hf,
   nextElementBytes_safe pj _ v fuel (Nat.le_refl _) hf hv⟩

/-! ## a run (the hypotheses are satisfiable; the recursion is exercised) -/

/-- `{<nop>"a":null}` without its opening word: a NOP word, the name (2 words), the value, the closing word -/
def exPJ : PJ :=
  { tape := #[mkWord 78 1, mkWord 34 0, 1, mkWord 110 0, mkWord 125 0], strings := #[], msg := #[97] }

theorem ex_model : View.nextElementBytes exPJ ⟨5, 0⟩ 6 =
    .ok (⟨5, 4⟩, some (#[97], { lim := 4, off := 4, addNext := 0, cur := 0, t := 110 }, tagToType 110)) := rfl

/-- the translated `NextElementBytes` on that document, whatever `*dst` held: skips the NOP word through the recursive
    call and returns `("a", TagToType['n'], nil)` with `o.off = 4` and `*dst` restricted to the value word -/
example (d0 : Iter) : ∃ s, runFun goFuns goObject_NextElementBytes 6 ⟨neEnv ⟨5, 0⟩ d0 exPJ, exPJ.tape⟩ =
      .ret s [.bytes #[97], .u8 (tagToType 110), .bool false] ∧
    NEInit exPJ ⟨5, 4⟩ { lim := 4, off := 4, addNext := 0, cur := 0, t := 110 } s := by
  have hb : BufOK exPJ := by constructor <;> simp [exPJ]
  have h := nextElementBytes_sim exPJ hb ⟨5, 0⟩ d0 (by decide) 6 6 (by decide) (by decide)
  rw [ex_model] at h
  exact h

end SJ.GoObject
