import SJ.Proofs.GoObjectLemmas
set_option linter.unusedVariables false
set_option linter.unusedSimpArgs false
namespace SJ.GoObject
open SJ SJ.GoSem SJ.Generated SJ.GoIter

attribute [local simp] exec exec1 execCases evalE evalEs isOneOf binop convert ofE copyFields bindParams
  iterFields runFun tblLookup

/-! ## vocabulary -/

/-- the document's two shared buffers, as the store holds them -/
def bufEnv (pj : PJ) : Env := [("Strings.B", .bytes pj.strings), ("Message", .bytes pj.msg)]

/-- a function has not touched the document: same tape, same string buffer, same message -/
def Keeps (pj : PJ) (s : St) : Prop :=
  s.tape = pj.tape ∧ s.env.get "Strings.B" = some (.bytes pj.strings) ∧ s.env.get "Message" = some (.bytes pj.msg)

/-- functions returning `([]byte, error)`:
    model `.ok b` ⇔ `(b, nil)`; model `.error _` ⇔ `(nil, non-nil)`; model `.panic` ⇔ panic; never stuck, never out of
    fuel; the document is untouched and `keep` holds of the final store (the receiver is unchanged). -/
def SimBytes (pj : PJ) (keep : Env → Prop) (o : Out) (r : Res Bytes) : Prop :=
  match r with
  | .ok b => ∃ s, o = .ret s [.bytes b, .bool false] ∧ Keeps pj s ∧ keep s.env
  | .error _ => ∃ s, o = .ret s [.bytes #[], .bool true] ∧ Keeps pj s ∧ keep s.env
  | .panic => o = .panic
  | .diverge => False

/-- the relation read as equivalences -/
theorem SimBytes.iff {pj : PJ} {keep : Env → Prop} {o : Out} {r : Res Bytes} (h : SimBytes pj keep o r) :
    (∀ b, (∃ s, o = .ret s [.bytes b, .bool false]) ↔ r = .ok b) ∧
    ((∃ s, o = .ret s [.bytes #[], .bool true]) ↔ ∃ e, r = .error e) ∧
    (o = .panic ↔ r = .panic) := by
  cases r with
  | ok b =>
    obtain ⟨s, rfl, _⟩ := h
    refine ⟨fun b' => ⟨?_, ?_⟩, ⟨?_, ?_⟩, ⟨?_, ?_⟩⟩
    · rintro ⟨s', h'⟩; simp only [Out.ret.injEq, List.cons.injEq, Val.bytes.injEq] at h'; rw [h'.2.1]
    · intro h'; simp only [Res.ok.injEq] at h'; subst h'; exact ⟨s, rfl⟩
    · rintro ⟨s', h'⟩; simp at h'
    · rintro ⟨e, h'⟩; cases h'
    · intro h'; cases h'
    · intro h'; cases h'
  | error e =>
    obtain ⟨s, rfl, _⟩ := h
    refine ⟨fun b' => ⟨?_, ?_⟩, ⟨?_, ?_⟩, ⟨?_, ?_⟩⟩
    · rintro ⟨s', h'⟩; simp at h'
    · intro h'; cases h'
    · intro _; exact ⟨e, rfl⟩
    · intro _; exact ⟨s, rfl⟩
    · intro h'; cases h'
    · intro h'; cases h'
  | panic =>
    simp only [SimBytes] at h
    subst h
    refine ⟨fun b' => ⟨?_, ?_⟩, ⟨?_, ?_⟩, ⟨?_, ?_⟩⟩
    · rintro ⟨s', h'⟩; cases h'
    · intro h'; cases h'
    · rintro ⟨s', h'⟩; cases h'
    · rintro ⟨e, h'⟩; cases h'
    · intro _; rfl
    · intro _; rfl
  | diverge => exact h.elim

/-! ## 1. `ParsedJson.stringByteAt` -/

/-- `stringByteAt` IS `SJ.stringByteAt`: for every document whose buffer lengths are Go `int`s, every `offset`,
    `length` (including sums that wrap) and every fuel (the function has no loop and no call). -/
theorem stringByteAt_sim (pj : PJ) (n : Int) (off len : UInt64) (fuel : Nat) (hb : BufOK pj) :
    SimBytes pj (fun e => e.get "pj.lim" = some (.int n))
      (runFun goFuns goParsedJson_stringByteAt fuel
        ⟨[("pj.lim", .int n), ("Strings.B", .bytes pj.strings), ("Message", .bytes pj.msg), ("offset", .u64 off),
          ("length", .u64 len)], pj.tape⟩)
      (stringByteAt pj off len) := by
  have he := stringByteAt_exec pj n off len pj.tape fuel hb
  simp only [sbEnv] at he
  unfold runFun
  rw [he]
  simp only []
  rcases stringByteAt_cases pj off len with ⟨b, h⟩ | h
  · rw [h]; exact ⟨_, rfl, ⟨rfl, rfl, rfl⟩, rfl⟩
  · rw [h]; exact ⟨_, rfl, ⟨rfl, rfl, rfl⟩, rfl⟩

/-- the model of `stringByteAt` never panics and never diverges -/
theorem stringByteAt_safe (pj : PJ) (off len : UInt64) : (stringByteAt pj off len).safe = true := by
  rcases stringByteAt_cases pj off len with ⟨b, h⟩ | h <;> rw [h] <;> rfl

/-! ## 2. `Iter.StringBytes`, `Iter.Bool` -/

/-- `StringBytes` IS `Iter.stringBytes`; one unit of fuel pays for the call of `stringByteAt`. -/
theorem stringBytes_sim (pj : PJ) (i : Iter) (hl : i.lim ≤ pj.tape.size) (hb : BufOK pj) (fuel : Nat) (hf : 1 ≤ fuel) :
    SimBytes pj (fun e => iterAt e "i" = some i)
      (runFun goFuns goIter_StringBytes fuel ⟨envOf "i" i ++ bufEnv pj, pj.tape⟩) (i.stringBytes pj) := by
  obtain ⟨f, rfl⟩ : ∃ f, fuel = f + 1 := ⟨fuel - 1, by omega⟩
  generalize he0 : envOf "i" i ++ bufEnv pj = e0
  have hI : iterAt e0 "i" = some i := by subst he0; simp [envOf, bufEnv, Env.get, iterAt]
  have hS : e0.get "Strings.B" = some (.bytes pj.strings) := by subst he0; simp [envOf, bufEnv, Env.get]
  have hM : e0.get "Message" = some (.bytes pj.msg) := by subst he0; simp [envOf, bufEnv, Env.get]
  obtain ⟨g1, g2, g3, g4, g5⟩ := iterAt_get_i _ _ hI
  unfold Iter.stringBytes Iter.valWord Iter.rdT
  simp only [goIter_StringBytes, tagString]
  by_cases ht : i.t = 34
  · by_cases ho : i.off ≥ i.lim
    · have ho' : (i.lim : Int) ≤ i.off := by omega
      simp [g1, g4, g5, ht, ho, ho', SimBytes, Keeps, hS, hM, hI]
    · have hlt : i.off < i.lim := by omega
      have hr : pj.tape[i.off]? = some (pj.tape[i.off]'(by omega)) := by simp
      have ho' : ¬ (i.lim : Int) ≤ i.off := by omega
      have hcall := callFun_sb ⟨e0, pj.tape⟩ pj "i" i.lim (.v "i.cur") (.tapeAt "i" (.v "i.off")) i.cur
        (pj.tape[i.off]'(by omega)) f hb (by simpa using g5) hS hM (by simp [g3])
        (by simp [g1, g5, hlt, hr])
      simp only [String.reduceAppend] at hcall
      simp [g1, g4, g5, ht, ho, ho', rd, hr, -exec, -exec1]
      simp [g1, g4, g5, ht, ho, ho', hcall]
      rcases stringByteAt_cases pj i.cur (pj.tape[i.off]'(by omega)) with ⟨b, h⟩ | h
      · rw [h]
        refine ⟨_, rfl, ⟨rfl, ?_, ?_⟩, ?_⟩
        · simp [Env.get_set]
        · simp [Env.get_set]
        · simp (disch := decide) only [iterAt_set_ne]
          apply iterAt_of_gets <;> simp [Env.get_set, g1, g2, g3, g4]
      · rw [h]
        refine ⟨_, rfl, ⟨rfl, ?_, ?_⟩, ?_⟩
        · simp [Env.get_set]
        · simp [Env.get_set]
        · simp (disch := decide) only [iterAt_set_ne]
          apply iterAt_of_gets <;> simp [Env.get_set, g1, g2, g3, g4]
  · have ht' : (i.t != 34) = true := by simp [ht]
    simp [g1, g4, g5, ht, ht', SimBytes, Keeps, hS, hM, hI]

end SJ.GoObject
