import SJ.Proofs.GoObjectLemmas
set_option linter.unusedVariables false
set_option linter.unusedSimpArgs false
namespace SJ.GoObject
open SJ SJ.GoSem SJ.Generated SJ.GoIter

attribute [local simp] exec exec1 execCases evalE evalEs isOneOf binop convert ofE copyFields bindParams
  iterFields runFun tblLookup

/-! ## vocabulary -/

/-- a function has not touched the document: same tape, same string buffer, same message -/
def Keeps (pj : PJ) (s : St) : Prop :=
  s.tape = pj.tape ∧ s.env.get "Strings.B" = some (.bytes pj.strings) ∧ s.env.get "Message" = some (.bytes pj.msg)

/-- functions returning `([]byte, error)`:
    model `.ok b` ⇔ `(b, nil)`; model `.error _` ⇔ `(nil, non-nil)`; model `.panic` ⇔ panic; never stuck, never out of
    fuel; the document is untouched and `keep` holds of the final store (the receiver is unchanged). -/
def SimBytes (pj : PJ) (keep : Env → Prop) (o : Out) (r : Res Bytes) : Prop :=
  match r with
  | .ok b => ∃ s, o = .ret s [.bytes b, .bool false] ∧ Keeps pj s ∧ keep s.env
  | .error _ => ∃ s, o = .ret s [.bytes #[], .bool true] ∧ Keeps pj s ∧ keep s.env
  | .panic => o = .panic
  | .diverge => False

/-- the relation read as equivalences -/
theorem SimBytes.iff {pj : PJ} {keep : Env → Prop} {o : Out} {r : Res Bytes} (h : SimBytes pj keep o r) :
    (∀ b, (∃ s, o = .ret s [.bytes b, .bool false]) ↔ r = .ok b) ∧
    ((∃ s, o = .ret s [.bytes #[], .bool true]) ↔ ∃ e, r = .error e) ∧
    (o = .panic ↔ r = .panic) := by
  cases r with
  | ok b =>
    obtain ⟨s, rfl, _⟩ := h
    refine ⟨fun b' => ⟨?_, ?_⟩, ⟨?_, ?_⟩, ⟨?_, ?_⟩⟩
    · rintro ⟨s', h'⟩; simp only [Out.ret.injEq, List.cons.injEq, Val.bytes.injEq] at h'; rw [h'.2.1]
    · intro h'; simp only [Res.ok.injEq] at h'; subst h'; exact ⟨s, rfl⟩
    · rintro ⟨s', h'⟩; simp at h'
    · rintro ⟨e, h'⟩; cases h'
    · intro h'; cases h'
    · intro h'; cases h'
  | error e =>
    obtain ⟨s, rfl, _⟩ := h
    refine ⟨fun b' => ⟨?_, ?_⟩, ⟨?_, ?_⟩, ⟨?_, ?_⟩⟩
    · rintro ⟨s', h'⟩; simp at h'
    · intro h'; cases h'
    · intro _; exact ⟨e, rfl⟩
    · intro _; exact ⟨s, rfl⟩
    · intro h'; cases h'
    · intro h'; cases h'
  | panic =>
    simp only [SimBytes] at h
    subst h
    refine ⟨fun b' => ⟨?_, ?_⟩, ⟨?_, ?_⟩, ⟨?_, ?_⟩⟩
    · rintro ⟨s', h'⟩; cases h'
    · intro h'; cases h'
    · rintro ⟨s', h'⟩; cases h'
    · rintro ⟨e, h'⟩; cases h'
    · intro _; rfl
    · intro _; rfl
  | diverge => exact h.elim

/-! ## 1. `ParsedJson.stringByteAt` -/

/-- `stringByteAt` IS `SJ.stringByteAt`: for every document whose buffer lengths are Go `int`s, every `offset`,
    `length` (including sums that wrap) and every fuel (the function has no loop and no call). -/
theorem stringByteAt_sim (pj : PJ) (n : Int) (off len : UInt64) (fuel : Nat) (hb : BufOK pj) :
    SimBytes pj (fun e => e.get "pj.lim" = some (.int n))
      (runFun goFuns goParsedJson_stringByteAt fuel
        ⟨[("pj.lim", .int n), ("Strings.B", .bytes pj.strings), ("Message", .bytes pj.msg), ("offset", .u64 off),
          ("length", .u64 len)], pj.tape⟩)
      (stringByteAt pj off len) := by
  have he := stringByteAt_exec pj n off len pj.tape fuel hb
  simp only [sbEnv] at he
  unfold runFun
  rw [he]
  simp only []
  rcases stringByteAt_cases pj off len with ⟨b, h⟩ | h
  · rw [h]; exact ⟨_, rfl, ⟨rfl, rfl, rfl⟩, rfl⟩
  · rw [h]; exact ⟨_, rfl, ⟨rfl, rfl, rfl⟩, rfl⟩

/-- the model of `stringByteAt` never panics and never diverges -/
theorem stringByteAt_safe (pj : PJ) (off len : UInt64) : (stringByteAt pj off len).safe = true := by
  rcases stringByteAt_cases pj off len with ⟨b, h⟩ | h <;> rw [h] <;> rfl

/-! ## 2. `Iter.StringBytes`, `Iter.Bool` -/

/-- `StringBytes` IS `Iter.stringBytes`; one unit of fuel pays for the call of `stringByteAt`. -/
theorem stringBytes_sim (pj : PJ) (i : Iter) (hl : i.lim ≤ pj.tape.size) (hb : BufOK pj) (fuel : Nat) (hf : 1 ≤ fuel) :
    SimBytes pj (fun e => iterAt e "i" = some i)
      (runFun goFuns goIter_StringBytes fuel ⟨envOf "i" i ++ bufEnv pj, pj.tape⟩) (i.stringBytes pj) := by
  obtain ⟨f, rfl⟩ : ∃ f, fuel = f + 1 := ⟨fuel - 1, by omega⟩
  generalize he0 : envOf "i" i ++ bufEnv pj = e0
  have hI : iterAt e0 "i" = some i := by subst he0; simp [envOf, bufEnv, Env.get, iterAt]
  have hS : e0.get "Strings.B" = some (.bytes pj.strings) := by subst he0; simp [envOf, bufEnv, Env.get]
  have hM : e0.get "Message" = some (.bytes pj.msg) := by subst he0; simp [envOf, bufEnv, Env.get]
  obtain ⟨g1, g2, g3, g4, g5⟩ := iterAt_get_i _ _ hI
  unfold Iter.stringBytes Iter.valWord Iter.rdT
  simp only [goIter_StringBytes, tagString]
  by_cases ht : i.t = 34
  · by_cases ho : i.off ≥ i.lim
    · have ho' : (i.lim : Int) ≤ i.off := by omega
      simp [g1, g4, g5, ht, ho, ho', SimBytes, Keeps, hS, hM, hI]
    · have hlt : i.off < i.lim := by omega
      have hr : pj.tape[i.off]? = some (pj.tape[i.off]'(by omega)) := by simp
      have ho' : ¬ (i.lim : Int) ≤ i.off := by omega
      have hcall := callFun_sb ⟨e0, pj.tape⟩ pj "i" i.lim (.v "i.cur") (.tapeAt "i" (.v "i.off")) i.cur
        (pj.tape[i.off]'(by omega)) f hb (by simpa using g5) hS hM (by simp [g3])
        (by simp [g1, g5, hlt, hr])
      simp only [String.reduceAppend] at hcall
      simp [g1, g4, g5, ht, ho, ho', rd, hr, -exec, -exec1]
      simp [g1, g4, g5, ht, ho, ho', hcall]
      rcases stringByteAt_cases pj i.cur (pj.tape[i.off]'(by omega)) with ⟨b, h⟩ | h
      · rw [h]
        refine ⟨_, rfl, ⟨rfl, ?_, ?_⟩, ?_⟩
        · simp [Env.get_set]
        · simp [Env.get_set]
        · simp (disch := decide) only [iterAt_set_ne]
          apply iterAt_of_gets <;> simp [Env.get_set, g1, g2, g3, g4]
      · rw [h]
        refine ⟨_, rfl, ⟨rfl, ?_, ?_⟩, ?_⟩
        · simp [Env.get_set]
        · simp [Env.get_set]
        · simp (disch := decide) only [iterAt_set_ne]
          apply iterAt_of_gets <;> simp [Env.get_set, g1, g2, g3, g4]
  · have ht' : (i.t != 34) = true := by simp [ht]
    simp [g1, g4, g5, ht, ht', SimBytes, Keeps, hS, hM, hI]

/-- `Bool()`: returns `(v, nil)` / `(false, non-nil)`, receiver and tape unchanged -/
def SimBool (tape : Array UInt64) (i : Iter) (o : Out) (r : Res Bool) : Prop :=
  match r with
  | .ok v => ∃ s, o = .ret s [.bool v, .bool false] ∧ s.tape = tape ∧ iterAt s.env "i" = some i
  | .error _ => ∃ s, o = .ret s [.bool false, .bool true] ∧ s.tape = tape ∧ iterAt s.env "i" = some i
  | _ => False

/-- `Bool` IS `Iter.bool`, on any store that starts with the receiver, for any tape and fuel. -/
theorem bool_sim (i : Iter) (rest : Env) (tape : Array UInt64) (fuel : Nat) :
    SimBool tape i (runFun goFuns goIter_Bool fuel ⟨envOf "i" i ++ rest, tape⟩) i.bool := by
  have hI : iterAt (envOf "i" i ++ rest) "i" = some i := by simp [envOf, Env.get, iterAt]
  generalize envOf "i" i ++ rest = e0 at hI
  obtain ⟨g1, g2, g3, g4, g5⟩ := iterAt_get_i _ _ hI
  unfold Iter.bool
  simp only [goIter_Bool, tagBoolTrue, tagBoolFalse]
  by_cases h1 : i.t = 116
  · simp [g4, h1, SimBool, hI]
  · have h1' : ¬ (116 : UInt8) = i.t := fun h => h1 h.symm
    by_cases h2 : i.t = 102
    · simp [g4, h2, SimBool, hI]
    · have h2' : ¬ (102 : UInt8) = i.t := fun h => h2 h.symm
      simp [g4, h1, h2, h1', h2', SimBool, hI]

/-! ## 3. `Object.NextElementBytes` -/

/-- the outcome of the callee, handed back to the caller by `callFun` -/
theorem SimNE_back (pj : PJ) (d0 : Iter) (s : St) (o : Out) (r : Res (View × Option (Bytes × Iter × UInt8)))
    (h : SimNE pj d0 o r) : SimNE pj d0 (backNEB s o) r := by
  cases r with
  | ok p =>
    obtain ⟨v', x⟩ := p
    cases x with
    | none =>
      obtain ⟨s', rfl, hi'⟩ := h
      rw [backNEB_ret s s' _ pj v' d0 hi']
      exact ⟨_, rfl, NEInit_backEnv _ _ _ _⟩
    | some y =>
      obtain ⟨name, d, ty⟩ := y
      obtain ⟨s', rfl, hi'⟩ := h
      rw [backNEB_ret s s' _ pj v' d hi']
      exact ⟨_, rfl, NEInit_backEnv _ _ _ _⟩
  | error e =>
    obtain ⟨s', v', d', rfl, hi'⟩ := h
    rw [backNEB_ret s s' _ pj v' d' hi']
    exact ⟨_, v', d', rfl, NEInit_backEnv _ _ _ _⟩
  | panic =>
    simp only [SimNE] at h
    subst h
    rfl
  | diverge => exact h.elim

theorem SimNE.final {pj : PJ} {d0 : Iter} {o : Out} {r : Res (View × Option (Bytes × Iter × UInt8))}
    (h : SimNE pj d0 o r) : Out.final o = true := by
  cases r with
  | ok p =>
    obtain ⟨v', x⟩ := p
    cases x with
    | none => obtain ⟨s', rfl, _⟩ := h; rfl
    | some y => obtain ⟨name, d, ty⟩ := y; obtain ⟨s', rfl, _⟩ := h; rfl
  | error e => obtain ⟨s', v', d', rfl, _⟩ := h; rfl
  | panic => simp only [SimNE] at h; subst h; rfl
  | diverge => exact h.elim

/-- one activation of `NextElementBytes`, given the recursive call (`ih`) -/
theorem neb_step (pj : PJ) (hb : BufOK pj) (v : View) (d : Iter) (f m : Nat) (e : Env) (hsz : v.lim ≤ pj.tape.size)
    (hi : NEInit pj v d ⟨e, pj.tape⟩)
    (ih : ∀ v' : View, v'.lim = v.lim → v.off < v'.off → v.off < v.lim →
      SimNE pj d (exec goFuns f goObject_NextElementBytes.body ⟨neEnv v' d pj, pj.tape⟩)
        (View.nextElementBytes pj v' m)) :
    SimNE pj d (exec goFuns (f + 1) goObject_NextElementBytes.body ⟨e, pj.tape⟩)
      (View.nextElementBytes pj v (m + 1)) := by
  obtain ⟨lim, off⟩ := v
  simp only at hsz ih
  obtain ⟨v1, v2⟩ := viewAt_get_o _ _ hi.view
  simp only at v1 v2
  rw [neb_split, exec_append, neb_pre e pj.tape (f + 1) off lim v1 v2 hsz, View.nextElementBytes]
  have hi3 : NEInit pj ⟨lim, off⟩ d ⟨((e.set "name" (.bytes #[])).set "t" (.u8 0)).set "err" (.bool false), pj.tape⟩ :=
    ((hi.set "name" _ (by decide)).set "t" _ (by decide)).set "err" _ (by decide)
  generalize ((e.set "name" (.bytes #[])).set "t" (.u8 0)).set "err" (.bool false) = e3 at hi3 ⊢
  by_cases h : off ≥ lim
  · simp only [h, dif_pos, if_true, SimNE, typeNone]
    exact ⟨_, rfl, hi3⟩
  · have hlt : off < lim := by omega
    have hr : pj.tape[off]? = some (pj.tape[off]'(by omega)) := by simp
    simp only [h, dif_neg, not_false_eq_true, if_false, rd, hr, Res.bind_ok]
    generalize pj.tape[off]'(by omega) = w
    have hi4 : NEInit pj ⟨lim, off⟩ d ⟨e3.set "v" (.u64 w), pj.tape⟩ := hi3.set "v" _ (by decide)
    have hv4 : (e3.set "v" (.u64 w)).get "v" = some (.u64 w) := Env.get_set_self _ _ _
    generalize e3.set "v" (.u64 w) = e4 at hi4 hv4 ⊢
    obtain ⟨x1, x2⟩ := viewAt_get_o _ _ hi4.view
    simp only at x1 x2
    rw [exec, neb_switch e4 pj.tape (f + 1) w hv4]
    simp only [tagString, tagObjectEnd, tagNop]
    by_cases t1 : tagOf w = 34
    · -- TagString
      simp only [t1, if_true, beq_self_eq_true]
      by_cases hs : off + 2 ≥ lim
      · rw [neb_str_short pj e4 (f + 1) off lim d w hi4 hv4 hsz hs]
        simp only [hs, if_true, SimNE, typeNone]
        exact ⟨_, _, _, rfl, hi4⟩
      · have hr1 : pj.tape[off + 1]? = some (pj.tape[off + 1]'(by omega)) := by simp
        have hr2 : pj.tape[off + 2]? = some (pj.tape[off + 2]'(by omega)) := by simp
        have hstr := neb_str_long pj e4 f off lim d w _ hb hi4 hv4 hsz hs hr1
        simp only [hs, if_false, hr1, hr2, Res.bind_ok]
        generalize pj.tape[off + 1]'(by omega) = len at hstr ⊢
        rcases stringByteAt_cases pj (payloadOf w) len with ⟨nm, hnm⟩ | hnm
        · rw [hnm] at hstr ⊢
          obtain ⟨e', he', hi', hn'⟩ := hstr
          rw [he']
          simp only [Res.bind_ok]
          have ht := neb_tail pj e' f (off + 2) lim d nm hi' hn' (by omega) hsz
          simpa [tailModel] using ht
        · rw [hnm] at hstr ⊢
          obtain ⟨e', he', hi'⟩ := hstr
          rw [he']
          simp only [Res.bind_error, SimNE, typeNone]
          exact ⟨_, _, _, rfl, hi'⟩
    · have b1 : (tagOf w == 34) = false := by simp [t1]
      simp only [t1, b1, if_false, Bool.false_eq_true]
      by_cases t2 : tagOf w = 125
      · simp only [t2, if_true, beq_self_eq_true, SimNE, typeNone]
        exact ⟨_, rfl, hi4⟩
      · have b2 : (tagOf w == 125) = false := by simp [t2]
        simp only [t2, b2, if_false, Bool.false_eq_true]
        by_cases t3 : tagOf w = 78
        · -- TagNop
          simp only [t3, if_true, beq_self_eq_true]
          rw [neb_nop e4 pj.tape f off w x1 hv4]
          have hz : (payloadOf w = 0) ↔ (payloadOf w).toNat = 0 := by rw [← UInt64.toNat_inj]; rfl
          by_cases h0 : (payloadOf w).toNat = 0
          · simp only [hz, h0, if_true, SimNE, typeNone]
            exact ⟨_, _, _, rfl, hi4.set "skip" _ (by decide)⟩
          · simp only [hz, h0, if_false]
            have hi5 := (hi4.set "skip" (.int (payloadOf w).toNat) (by decide)).setOff (off + (payloadOf w).toNat)
            simp only [] at hi5
            rw [callFun_neb _ pj _ d f hi5]
            have key := SimNE_back pj d
              ⟨(e4.set "skip" (.int (payloadOf w).toNat)).set "o.off" (.int ((off + (payloadOf w).toNat : Nat) : Int)),
                pj.tape⟩ _ _ (ih ⟨lim, off + (payloadOf w).toNat⟩ rfl (by simp only; omega) hlt)
            generalize backNEB _ _ = out at key ⊢
            have hfin := key.final
            cases out <;> simp only [Out.final, Bool.false_eq_true] at hfin <;> exact key
        · have b3 : (tagOf w == 78) = false := by simp [t3]
          simp only [t3, b3, if_false, Bool.false_eq_true, SimNE, typeNone]
          exact ⟨_, _, _, rfl, hi4⟩

/-- the recursion: every nested call starts at a strictly larger offset, so `lim - off + 1` units of fuel pay for all
    activations (and for the calls of `stringByteAt` / `calcNext` inside the last one); the model's own fuel is
    bounded the same way -/
theorem neb_exec (pj : PJ) (hb : BufOK pj) :
    ∀ (n : Nat) (v : View) (d : Iter) (fuel mfuel : Nat) (e : Env), v.lim - v.off ≤ n → n + 1 ≤ fuel → n + 1 ≤ mfuel →
      v.lim ≤ pj.tape.size → NEInit pj v d ⟨e, pj.tape⟩ →
      SimNE pj d (exec goFuns fuel goObject_NextElementBytes.body ⟨e, pj.tape⟩) (View.nextElementBytes pj v mfuel) := by
  intro n
  induction n with
  | zero =>
    intro v d fuel mfuel e hn hf hm hsz hi
    obtain ⟨f, rfl⟩ : ∃ f, fuel = f + 1 := ⟨fuel - 1, by omega⟩
    obtain ⟨m, rfl⟩ : ∃ m, mfuel = m + 1 := ⟨mfuel - 1, by omega⟩
    exact neb_step pj hb v d f m e hsz hi (fun v' _ _ h3 => by omega)
  | succ n ih =>
    intro v d fuel mfuel e hn hf hm hsz hi
    obtain ⟨f, rfl⟩ : ∃ f, fuel = f + 1 := ⟨fuel - 1, by omega⟩
    obtain ⟨m, rfl⟩ : ∃ m, mfuel = m + 1 := ⟨mfuel - 1, by omega⟩
    refine neb_step pj hb v d f m e hsz hi (fun v' h1 h2 h3 => ?_)
    exact ih v' d f m _ (by omega) (by omega) (by omega) (by omega) (NEInit_neEnv pj v' d)

/-- `NextElementBytes` IS `View.nextElementBytes`.
    Store: the receiver `o` (view `v`), `*dst = d0` (arbitrary: no result depends on it), the two buffers.
    Fuel: `v.lim - v.off + 1` for the interpreter (recursion depth) and for the model (which then does not diverge). -/
theorem nextElementBytes_sim (pj : PJ) (hb : BufOK pj) (v : View) (d0 : Iter) (hl : v.lim ≤ pj.tape.size)
    (fuel mfuel : Nat) (hf : v.lim - v.off + 1 ≤ fuel) (hm : v.lim - v.off + 1 ≤ mfuel) :
    SimNE pj d0 (runFun goFuns goObject_NextElementBytes fuel ⟨neEnv v d0 pj, pj.tape⟩)
      (View.nextElementBytes pj v mfuel) := by
  have key := neb_exec pj hb (v.lim - v.off) v d0 fuel mfuel (neEnv v d0 pj) (Nat.le_refl _) hf hm hl
    (NEInit_neEnv pj v d0)
  rw [runFun_final _ _ _ _ key.final]
  exact key

/-- with `lim - off + 1` units of fuel the model does not run out of fuel -/
theorem nextElementBytes_no_diverge (pj : PJ) (hb : BufOK pj) (v : View) (hl : v.lim ≤ pj.tape.size) (mfuel : Nat)
    (hm : v.lim - v.off + 1 ≤ mfuel) : View.nextElementBytes pj v mfuel ≠ .diverge := by
  intro h
  have := nextElementBytes_sim pj hb v default hl _ mfuel (Nat.le_refl _) hm
  rw [h] at this
  exact this

/-- the relation read backwards: the returned `error` and a panic determine the class of the model's result.
    (`(nil, TypeNone, nil)` alone does not tell "no more elements" from an element with an empty name whose tag has no
    `Type` — neither in Go, where callers test `t == TypeNone`, nor here, where `nil` and `[]byte{}` are both `#[]`.) -/
theorem SimNE.iff {pj : PJ} {d0 : Iter} {o : Out} {r : Res (View × Option (Bytes × Iter × UInt8))}
    (h : SimNE pj d0 o r) :
    ((∃ s a b, o = .ret s [a, b, .bool false]) ↔ ∃ x, r = .ok x) ∧
    ((∃ s a b, o = .ret s [a, b, .bool true]) ↔ ∃ e, r = .error e) ∧
    (o = .panic ↔ r = .panic) := by
  cases r with
  | ok p =>
    obtain ⟨v', x⟩ := p
    have ho : ∃ s a b, o = .ret s [a, b, .bool false] := by
      cases x with
      | none => obtain ⟨s', rfl, _⟩ := h; exact ⟨_, _, _, rfl⟩
      | some y => obtain ⟨name, d, ty⟩ := y; obtain ⟨s', rfl, _⟩ := h; exact ⟨_, _, _, rfl⟩
    obtain ⟨s, a, b, rfl⟩ := ho
    refine ⟨⟨fun _ => ⟨_, rfl⟩, fun _ => ⟨_, _, _, rfl⟩⟩, ⟨?_, ?_⟩, ⟨?_, ?_⟩⟩
    · rintro ⟨s', a', b', h'⟩; simp at h'
    · rintro ⟨e, h'⟩; cases h'
    · intro h'; cases h'
    · intro h'; cases h'
  | error e =>
    obtain ⟨s, v', d', rfl, _⟩ := h
    refine ⟨⟨?_, ?_⟩, ⟨fun _ => ⟨_, rfl⟩, fun _ => ⟨_, _, _, rfl⟩⟩, ⟨?_, ?_⟩⟩
    · rintro ⟨s', a', b', h'⟩; simp at h'
    · rintro ⟨x, h'⟩; cases h'
    · intro h'; cases h'
    · intro h'; cases h'
  | panic =>
    simp only [SimNE] at h
    subst h
    refine ⟨⟨?_, ?_⟩, ⟨?_, ?_⟩, ⟨fun _ => rfl, fun _ => rfl⟩⟩
    · rintro ⟨s', a', b', h'⟩; cases h'
    · rintro ⟨x, h'⟩; cases h'
    · rintro ⟨s', a', b', h'⟩; cases h'
    · rintro ⟨x, h'⟩; cases h'
  | diverge => exact h.elim

/-! ## 4. bundle -/

/-- `stringByteAt`, `Iter.StringBytes`, `Iter.Bool`, `Object.NextElementBytes` of /repo, as translated, ARE the hand
    model.  Hypotheses: `BufOK pj` (buffer lengths are Go `int`s) and views inside the tape. -/
theorem go_object_source_tie (pj : PJ) (hb : BufOK pj) (n : Int) (off len : UInt64) (i d0 : Iter) (v : View)
    (rest : Env) (hi : i.lim ≤ pj.tape.size) (hv : v.lim ≤ pj.tape.size) (fuel : Nat)
    (hf : v.lim - v.off + 1 ≤ fuel) :
    SimBytes pj (fun e => e.get "pj.lim" = some (.int n))
      (runFun goFuns goParsedJson_stringByteAt fuel
        ⟨[("pj.lim", .int n), ("Strings.B", .bytes pj.strings), ("Message", .bytes pj.msg), ("offset", .u64 off),
          ("length", .u64 len)], pj.tape⟩)
      (stringByteAt pj off len) ∧
    (stringByteAt pj off len).safe = true ∧
    SimBytes pj (fun e => iterAt e "i" = some i)
      (runFun goFuns goIter_StringBytes fuel ⟨envOf "i" i ++ bufEnv pj, pj.tape⟩) (i.stringBytes pj) ∧
    SimBool pj.tape i (runFun goFuns goIter_Bool fuel ⟨envOf "i" i ++ rest, pj.tape⟩) i.bool ∧
    SimNE pj d0 (runFun goFuns goObject_NextElementBytes fuel ⟨neEnv v d0 pj, pj.tape⟩)
      (View.nextElementBytes pj v fuel) ∧
    View.nextElementBytes pj v fuel ≠ .diverge :=
  ⟨stringByteAt_sim pj n off len fuel hb, stringByteAt_safe pj off len,
   stringBytes_sim pj i hi hb fuel (by omega), bool_sim i rest pj.tape fuel,
   nextElementBytes_sim pj hb v d0 hv fuel fuel hf hf, nextElementBytes_no_diverge pj hb v hv fuel hf⟩

end SJ.GoObject
