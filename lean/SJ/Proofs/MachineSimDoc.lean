import SJ.Proofs.MachineSimLoop
set_option linter.unusedVariables false
set_option linter.unusedSimpArgs false
/-
One root document: from the step that dispatches on `{` / `[` (in `rootStart`, or in `ndSkip` after `reopenRoot`) to the
state `startContinue` after the matching close.
-/
namespace SJ.TokenSim
open SJ SJ.ParseDefs SJ.Generated SJ.Layout SJ.Tables SJ.MachineSim

variable {E : Env}

/-- the root document at `q` was consumed up to `p'`; `gR` = the ghost with the (new) root open and no frame -/
def DocAcc (E : Env) (e q : Nat) (m0 : M) (g0 gR : Ghost) (ent0 : UInt64) (v : Spec.JVal) (rest : List UInt8) : Prop :=
  ∃ p' m' lv, rest = E.seg e p' ∧ q < p' ∧ p' ≤ e ∧ run E m0 g0 (E.c q) = run E m' (gR.addVal lv) (E.c p') ∧
    erase lv = ofSpec v ∧ E.Rdy p' ∧ E.err p' = E.err q ∧ m'.st = .startContinue ∧ m'.stack = [ent0] ∧
    Prog E m0 q m' p' ∧ E.c q < E.c p' ∧ ClosedAt E p' ∧ StkOK m'

theorem doc_sim {a e q : Nat} (W : Win E a e) (ha : a ≤ q) (hq : q < e) (hr : E.Rdy q) {m0 m1 : M} {g0 gR : Ghost}
    {ent1 ent0 : UInt64} {L fuel : Nat} (hb : E.b q = 123 ∨ E.b q = 91)
    (hstep : ∀ pk, m0.step E.cfg E.msg q pk = some m1)
    (hg : ∀ pk, gstep m0 g0 E.msg q pk = withF gR [if E.b q = 123 then Frame.obj L [] none else Frame.arr L []])
    (hgR : gR.frames = [])
    (hst1 : m1.st = if E.b q = 123 then St.objBegin else St.arrBegin)
    (hs1 : m1.stack = [ent1, ent0]) (hret : retOf ent1 = cretAddressStartConst) (hok1 : StkOK m1)
    (ht0 : m0.tape.size ≤ m1.tape.size) (ht1 : m1.tape.size ≤ m0.tape.size + 3)
    (hmok0 : m0.tape.size ≤ 3 * E.c q + 1) (hfuel : (e - q) + 2 ≤ fuel) :
    match Spec.value fuel (E.seg e q) with
    | .acc v rest => DocAcc E e q m0 g0 gR ent0 v rest
    | .rej => Dead E m0 (E.c q)
    | .out => True := by
  obtain ⟨f, rfl⟩ : ∃ f, fuel = f + 1 := ⟨fuel - 1, by omega⟩
  have hqs : q < E.msg.size := Nat.lt_of_lt_of_le hq W.he
  have hstr : isStructByte (E.b q) = true := by
    rcases hb with h | h <;> rw [h, classify_struct] <;> decide
  obtain ⟨r1, r2, r3, r4⟩ := struct_step (g := g0) hqs hr hstr hstep hg
  obtain ⟨p1, s1, s2, s3, s4, s5, s6, s7⟩ := skipWs_sim W (e - (q + 1)) (q + 1) rfl (by omega) (by omega) r2
  have hprog : Prog E m0 q m1 p1 := Prog.step (by rw [s5, r4]) ht0 ht1
  have hmok : MOK E m1 p1 := ⟨by have := hprog.2.2; omega, hok1⟩
  have hss : StackShape m1.stack := by
    rw [hs1]; exact ⟨[], ent1, ent0, rfl, hret, fun x hx => by cases hx⟩
  have hwf : withF gR [] = gR := by rw [← hgR]; exact withF_self gR
  have hfin : ∀ (F0 : Frame) (R : Spec.Out Spec.JVal),
      gstep m0 g0 E.msg q 0 = withF gR [F0] →
      LoopRes E e p1 m1 (withF gR [F0]) gR [] ent1 [ent0] R →
      match R with
      | .acc v rest => DocAcc E e q m0 g0 gR ent0 v rest
      | .rej => Dead E m0 (E.c q)
      | .out => True := by
    intro F0 R hg0 hI
    have hrun : run E m0 g0 (E.c q) = run E m1 (withF gR [F0]) (E.c p1) := by
      rw [r1, s5, ← hg 0, hg0]
    cases R with
    | out => trivial
    | rej => exact dead_of_run hrun hI
    | acc v rest =>
      obtain ⟨p', m', lv, d1, d2, d3, d4, d5, d6, d7, d8, d9, d10, d11, d12⟩ := hI
      refine ⟨p', m', lv, d1, by omega, d3, ?_, d5, d6, by rw [d7, s6, r3], by rw [d8, retSt_start hret], d9,
        hprog.trans d11, by have := hprog.1; omega, d12, ?_⟩
      · rw [hrun, d4, hwf]
      · intro x hx
        rw [d9] at hx
        have : x ∈ m1.stack := by rw [hs1]; exact List.mem_cons_of_mem _ hx
        exact Nat.lt_of_lt_of_le (hok1 x this) d11.2.1
  rw [seg_cons hq W.he, Spec.value]
  rcases hb with hb | hb
  · have h123 : (E.b q == 123) = true := by rw [hb]; decide
    rw [if_pos h123, s3]
    have hst1' : m1.st = .objBegin := by rw [hst1, if_pos hb]
    have hI := (sim_all W f).2.2 p1 m1 gR [] true L [] [] ent1 [ent0] (by omega) s2 s4 s7
      (by rw [hs1]; simp only [List.length_cons, List.length_nil]; omega) (by rw [hst1']; rfl) hs1 hss hmok rfl
    exact hfin (.obj L [] none) _ (by rw [hg 0, if_pos hb]) hI
  · have h123 : ¬ (E.b q == 123) = true := by rw [hb]; decide
    have h91 : (E.b q == 91) = true := by rw [hb]; decide
    rw [if_neg h123, if_pos h91, s3]
    have hne : ¬ E.b q = 123 := by rw [hb]; decide
    have hst1' : m1.st = .arrBegin := by rw [hst1, if_neg hne]
    have hI := (sim_all W f).2.1 p1 m1 gR [] true L [] [] ent1 [ent0] (by omega) s2 s4 s7
      (by rw [hs1]; simp only [List.length_cons, List.length_nil]; omega) (by rw [hst1']; rfl) hs1 hss hmok rfl
    exact hfin (.arr L []) _ (by rw [hg 0, if_neg hne]) hI

/-! ## the dispatch step -/

theorem rootDispatch_ok (m : M) (c : UInt8) (hc : c = 123 ∨ c = 91) :
    ∃ m', m.rootDispatch c = some m' ∧ m'.st = (if c = 123 then St.objBegin else St.arrBegin) ∧
      m'.stack = ent m.tape.size cretAddressStartConst :: m.stack ∧ m'.tape.size = m.tape.size + 1 := by
  rcases hc with rfl | rfl
  · exact ⟨{ ((m.push cretAddressStartConst).writeTape 0 123) with st := .objBegin }, by simp [M.rootDispatch], rfl, rfl,
      by simp [M.writeTape, M.push]⟩
  · exact ⟨{ ((m.push cretAddressStartConst).writeTape 0 91) with st := .arrBegin }, by simp [M.rootDispatch], rfl, rfl,
      by simp [M.writeTape, M.push]⟩

theorem reopenRoot_ok (m : M) (x : UInt64) (hs : m.stack = [x]) (hx : locOf x < m.tape.size) :
    ∃ m', m.reopenRoot = some m' ∧ m'.stack = [ent (m.tape.size + 1) cretAddressStartConst] ∧ m'.st = m.st ∧
      m'.tape.size = m.tape.size + 2 := by
  unfold M.reopenRoot
  rw [hs]
  simp only
  have hlt : (x >>> UInt64.ofNat cretAddressShift).toNat < (({ m with stack := [] } : M)).tape.size := hx
  simp only [M.annotate, dif_pos hlt]
  refine ⟨_, rfl, ?_, rfl, by simp [M.writeTape, M.push]⟩
  show [ent _ _] = _
  congr 2
  simp [M.writeTape]

/-- the machine between root documents (or before the first) -/
structure RootSt (E : Env) (m0 : M) (g0 : Ghost) (p : Nat) (ent0 : UInt64) : Prop where
  st : m0.st = .rootStart ∨ m0.st = .ndSkip
  stack : m0.stack = [ent0]
  loc : locOf ent0 < m0.tape.size
  tape : m0.tape.size ≤ 3 * E.c p + 1
  fr : m0.st = .rootStart → g0.frames = []

/-- the ghost once the next root is open -/
def rootGhost (m0 : M) (g0 : Ghost) : Ghost := if m0.st = .rootStart then g0 else g0.nextRoot (m0.tape.size + 1)

theorem rootGhost_frames {m0 : M} {g0 : Ghost} (h : m0.st = .rootStart → g0.frames = []) :
    (rootGhost m0 g0).frames = [] := by
  unfold rootGhost; split
  · rename_i hs; exact h hs
  · rfl

theorem groot_eq (m : M) (g : Ghost) (c : UInt8) (hc : c = 123 ∨ c = 91) (hf : g.frames = []) :
    groot m g c = withF g [if c = 123 then Frame.obj m.tape.size [] none else Frame.arr m.tape.size []] := by
  rcases hc with rfl | rfl
  · simp [groot, openObj_eq, hf]
  · simp [groot, openArr_eq, hf]

theorem root_dispatch {m0 : M} {g0 : Ghost} {p q : Nat} {ent0 : UInt64} (R : RootSt E m0 g0 p ent0)
    (hps : p ≤ E.msg.size) (hb : E.b q = 123 ∨ E.b q = 91) :
    ∃ m1 ent1 ent0' L, (∀ pk, m0.step E.cfg E.msg q pk = some m1) ∧
      (∀ pk, gstep m0 g0 E.msg q pk =
        withF (rootGhost m0 g0) [if E.b q = 123 then Frame.obj L [] none else Frame.arr L []]) ∧
      m1.st = (if E.b q = 123 then St.objBegin else St.arrBegin) ∧ m1.stack = [ent1, ent0'] ∧
      retOf ent1 = cretAddressStartConst ∧ StkOK m1 ∧ m0.tape.size ≤ m1.tape.size ∧ m1.tape.size ≤ m0.tape.size + 3 := by
  have htl : m0.tape.size + 3 < 2^62 := by
    have h1 := R.tape
    have h2 := cnt_le_self E.nd E.msg p
    have h3 : E.msg.size < 2^50 := E.hsz
    have : E.c p ≤ p := h2
    show m0.tape.size + 3 < 4611686018427387904
    omega
  have hb' : E.msg.getD q 0 = 123 ∨ E.msg.getD q 0 = 91 := hb
  rcases R.st with hst | hst
  · obtain ⟨m1, k1, k2, k3, k4⟩ := rootDispatch_ok m0 (E.b q) hb
    refine ⟨m1, ent m0.tape.size cretAddressStartConst, ent0, m0.tape.size, fun pk => by rw [step_root hst]; exact k1,
      ?_, k2, by rw [k3, R.stack], ent_ret (by omega) (by decide), ?_, by omega, by omega⟩
    · intro pk
      rw [gstep_root g0 hst]
      have : rootGhost m0 g0 = g0 := by unfold rootGhost; rw [if_pos hst]
      rw [this]
      exact groot_eq m0 g0 _ hb (R.fr hst)
    · intro x hx
      rw [k3, R.stack] at hx
      rcases List.mem_cons.mp hx with rfl | hx
      · rw [ent_loc (by omega) (by decide), k4]; omega
      · rcases List.mem_cons.mp hx with rfl | hx
        · rw [k4]; have := R.loc; omega
        · cases hx
  · have hne : E.msg.getD q 0 ≠ 10 := by rcases hb' with h | h <;> rw [h] <;> decide
    obtain ⟨mr, j1, j2, j3, j4⟩ := reopenRoot_ok m0 ent0 R.stack R.loc
    obtain ⟨m1, k1, k2, k3, k4⟩ := rootDispatch_ok mr (E.b q) hb
    refine ⟨m1, ent mr.tape.size cretAddressStartConst, ent (m0.tape.size + 1) cretAddressStartConst, m0.tape.size + 2,
      fun pk => by rw [step_nd_open hst hne, j1]; exact k1, ?_, k2, by rw [k3, j2], ent_ret (by omega) (by decide), ?_,
      by omega, by omega⟩
    · intro pk
      rw [gstep_nd_open g0 hst hne]
      have hrs : ¬ m0.st = .rootStart := by rw [hst]; decide
      have : rootGhost m0 g0 = g0.nextRoot (m0.tape.size + 1) := by unfold rootGhost; rw [if_neg hrs]
      rw [this]
      have := groot_eq { m0 with tape := (m0.tape.push 0).push 0 } (g0.nextRoot (m0.tape.size + 1)) _ hb rfl
      rw [this]
      simp
    · intro x hx
      rw [k3, j2] at hx
      rcases List.mem_cons.mp hx with rfl | hx
      · rw [ent_loc (by omega) (by decide), k4]; omega
      · rcases List.mem_cons.mp hx with rfl | hx
        · rw [ent_loc (by omega) (by decide), k4, j4]; omega
        · cases hx

theorem root_dispatch_fail {m0 : M} {q pk : Nat} (hst : m0.st = .rootStart ∨ m0.st = .ndSkip)
    (h1 : E.b q ≠ 123) (h2 : E.b q ≠ 91) (h3 : E.b q ≠ 10) : m0.step E.cfg E.msg q pk = none := by
  rcases hst with hst | hst
  · rw [step_root hst]; exact rootDispatch_none _ h1 h2
  · rw [step_nd_open hst h3]
    cases m0.reopenRoot with
    | none => rfl
    | some m' => exact rootDispatch_none _ h1 h2

/-! ## one line (or the whole message) -/

theorem containerText_cons (s : List UInt8) (c : UInt8) (r : List UInt8) (h : Spec.skipWs s = c :: r) :
    Spec.containerText s =
      if c = 123 ∨ c = 91 then
        match Spec.value (s.length + 2) (c :: r) with
        | .acc v rest => if Spec.skipWs rest = [] then .accept v else .reject
        | .rej => .reject
        | .out => .outside
      else .reject := by
  unfold Spec.containerText
  rw [h]
  simp only [beq_iff_eq, List.isEmpty_iff]
  split
  · cases Spec.value (s.length + 2) (c :: r) with
    | out => rfl
    | rej => rfl
    | acc v rest => rfl
  · rfl

/-- the last index before `e` is a closing brace / bracket -/
def LastClose (E : Env) (e : Nat) : Prop :=
  ∃ q, q < e ∧ q < E.msg.size ∧ E.em q = true ∧ (E.b q = 125 ∨ E.b q = 93) ∧ E.c e = E.c q + 1

theorem ws_ne_nl {b : UInt8} (h : Spec.isWs b = false) : b ≠ 10 := by
  intro hb; rw [hb] at h; revert h; decide

theorem line_sim {a e : Nat} (W : Win E a e) (hr : E.Rdy a) {m0 : M} {g0 : Ghost} {ent0 : UInt64}
    (R : RootSt E m0 g0 a ent0) :
    (Spec.skipWs (E.seg e a) = [] ∧ E.Rdy e ∧ E.c e = E.c a ∧ E.err e = E.err a) ∨
    (Spec.skipWs (E.seg e a) ≠ [] ∧
      match Spec.containerText (E.seg e a) with
      | .accept v => ∃ m' lv ent0', run E m0 g0 (E.c a) = run E m' ((rootGhost m0 g0).addVal lv) (E.c e) ∧
          erase lv = ofSpec v ∧ E.Rdy e ∧ E.err e = E.err a ∧ m'.st = .startContinue ∧ m'.stack = [ent0'] ∧ StkOK m' ∧
          Prog E m0 a m' e ∧ E.c a < E.c e ∧ LastClose E e
      | .reject => Dead E m0 (E.c a)
      | .outside => True) := by
  obtain ⟨q, h1, h2, h3, h4, h5, h6, h7⟩ := skipWs_sim W (e - a) a rfl (Nat.le_refl _) W.le hr
  by_cases hqe : q = e
  · left
    subst hqe
    exact ⟨by rw [h3, seg_nil (Nat.le_refl _)], h4, h5, h6⟩
  right
  have hq : q < e := by omega
  have hqs : q < E.msg.size := Nat.lt_of_lt_of_le hq W.he
  have hsk : Spec.skipWs (E.seg e a) = E.b q :: E.seg e (q + 1) := by rw [h3, seg_cons hq W.he]
  refine ⟨by rw [hsk]; exact List.cons_ne_nil _ _, ?_⟩
  rw [containerText_cons _ _ _ hsk]
  have hnwq := h7 hq
  obtain ⟨pk0, hd0, _, _⟩ := tok_at hqs h4 (by rw [← isWs_eq]; exact hnwq)
  by_cases hb : E.b q = 123 ∨ E.b q = 91
  · rw [if_pos hb, ← seg_cons hq W.he]
    have R' : RootSt E m0 g0 q ent0 := ⟨R.st, R.stack, R.loc, by rw [h5]; exact R.tape, R.fr⟩
    obtain ⟨m1, ent1, ent0', L, d1, d2, d3, d4, d5, d6, d7, d8⟩ := root_dispatch R' (Nat.le_of_lt hqs) hb
    have hdoc := doc_sim W h1 hq h4 (fuel := (E.seg e a).length + 2) hb d1 d2 (rootGhost_frames R.fr) d3 d4 d5 d6 d7 d8
      R'.tape (by rw [seg_length W.he]; omega)
    cases hval : Spec.value ((E.seg e a).length + 2) (E.seg e q) with
    | out => trivial
    | rej => rw [hval] at hdoc; dsimp only; rw [← h5]; exact hdoc
    | acc v rest =>
      rw [hval] at hdoc
      obtain ⟨p', m', lv, k1, k2, k3, k4, k5, k6, k7, k8, k9, k10, k11, k12, k13⟩ := hdoc
      subst k1
      dsimp only
      cases hsk2 : Spec.skipWs (E.seg e p') with
      | nil =>
        simp only [if_true]
        obtain ⟨s1, s2, s3⟩ := skip_nil W (by omega) k3 k6 hsk2
        obtain ⟨qc, c1, c2, c3, c4⟩ := k12
        refine ⟨m', lv, ent0', ?_, k5, s1, by rw [s3, k7, h6], k8, k9, k13, ?_, by omega, qc, by omega, c2, c3, c4, ?_⟩
        · rw [← h5, k4, s2]
        · exact ⟨by omega, by have := k10.2.1; omega, by have := k10.2.2; omega⟩
        · rw [s2, c1]
          show cnt E.nd E.msg (qc + 1) = _
          rw [E.SF.cnt_succ qc, show emit E.nd E.msg qc = true from c3]; rfl
      | cons x r =>
        simp only [if_false, reduceCtorEq]
        rw [← h5]
        refine dead_of_run k4 ?_
        obtain ⟨q2, t1, t2, t3, t4, t5, t6, t7, t8⟩ := skip_to W (by omega) k3 k6 hsk2
        obtain ⟨pk2, u1, _, _⟩ := tok_at (Nat.lt_of_lt_of_le t2 W.he) t5 (by rw [← isWs_eq]; exact t8)
        rw [← t6]
        exact dead_of_step_none u1 (fail_sc k8 (ws_ne_nl t8))
  · rw [if_neg hb]
    rw [← h5]
    have hb1 : E.b q ≠ 123 := fun h => hb (Or.inl h)
    have hb2 : E.b q ≠ 91 := fun h => hb (Or.inr h)
    exact dead_of_step_none hd0 (root_dispatch_fail R.st hb1 hb2 (ws_ne_nl hnwq))

end SJ.TokenSim
